"""Per-property configuration of ./check (profiles, trusted base, assumptions, evidence rule)."""

COMMON_ASSUME = [
    "Rust integer semantics (wrapping, overflow panics in the dev profile, `as` casts, shifts) as transcribed in the model",
]

PROPS = {
    "C18": {
        "level": "proof",
        "profiles": ["debug", "release", "bmi2"],
        "trusted_base": [
            "Model/Bits.lean: hand-written mirror of the byte-composition code of Small/Mediu/LargeZOC and of to/from_uniq(_ivoa)",
            "pdep/pext defined from the Intel SDM pseudo-code (BMI2 variants)",
        ],
        "assumptions": COMMON_ASSUME + [
            "little-endian target (LargeZOC::i02h transmutes [u16;4] to u64)",
            "xor-network variants (LargeZOCxor; Small/MediuZOCxor exist only under cfg(test)) are never selected by get_zoc and are not modelled",
        ],
    },
}
