"""Per-property configuration of ./check (profiles, trusted base, assumptions, evidence rule)."""

COMMON_ASSUME = [
    "Rust integer semantics (wrapping, overflow panics in the dev profile, `as` casts, shifts) as transcribed in the model",
]

PROPS = {
    "C18": {
        "claim": 'Kernel-checked theorems over the regenerated tables/masks/ranges: every LUT entry equals the bit-spread spec (decide +kernel on the tables extracted from the source on this run), the byte composition of Small/Mediu/LargeZOC equals bit interleaving for all i,j below 2^bits (by a bit-level split lemma, not enumeration), h2ij/ij2i/ij2j invert it, get_zoc picks a sufficient class for every depth<=29 and rejects depth>29, to/from_uniq(_ivoa) round-trip and are injective for all depth<=29, hash<12*4^depth.',
        "note": 'Trusted: Lean kernel (axioms propext/Classical.choice/Quot.sound only), translator for tables, hand-written model of the composition code validated by differential testing in dev/release/+bmi2 builds. BMI2 variants are modelled (pdep/pext per Intel SDM) and tied by correspondence only; xor-network variants are not modelled.',
        "level": "proof",
        "profiles": ["debug", "release", "bmi2"],
        "trusted_base": [
            "Model/Bits.lean: hand-written mirror of the byte-composition code of Small/Mediu/LargeZOC and of to/from_uniq(_ivoa)",
            "pdep/pext defined from the Intel SDM pseudo-code (BMI2 variants)",
        ],
        "assumptions": COMMON_ASSUME + [
            "little-endian target (LargeZOC::i02h transmutes [u16;4] to u64)",
            "xor-network variants (LargeZOCxor; Small/MediuZOCxor exist only under cfg(test)) are never selected by get_zoc and are not modelled",
        ],
    },
    "C07": {
        "claim": 'Theorems for all pairs of well-formed operands of any depth mix: `and` is set intersection on plain MOCs, returns a MOC, result well formed. not/or/xor: executable loop-by-loop model tied bit-exactly to the code (exhaustive one-level universes, sampled two-level universe, random deep trees to depth 29, degenerate shapes, algebraic laws), semantics theorems still open (listed in evidence.open_statements).',
        "note": 'PARTIAL proof: and proved; not/or/xor validated by correspondence + pointwise interval oracle, not yet proved. Trusted: Lean kernel, hand-written model of bmoc.rs.',
        "level": "proof",
        "trusted_base": ["Model/Bmoc.lean: hand-written mirror of BMOC::not/and/or/xor, go_up/go_down/dd_4_go_up, consume_while_*, not_in_cell_4_or/xor, pack"],
        "open_statements": ["not_sem", "or_sem", "xor_sem", "moc_canonical (results packed => structural equality = set equality)"],
        "assumptions": COMMON_ASSUME + ["operands are valid MOCs built through the public builder (BMOCBuilderUnsafe trusts its caller)"],
    },
    "C08": {
        "claim": 'Theorem for all pairs of well-formed BMOCs with arbitrary flags and depth mixes: `and` is the pointwise minimum of the three-valued state maps and preserves well-formedness. not/or/xor: loop-by-loop model tied bit-exactly to the code on the exhaustive one-level three-state universe (all ordered pairs), sampled two-level universe and random deep trees biased to partial-over-full; the defect F1 in `or` was found this way and repaired (fix: commit).',
        "note": 'PARTIAL proof: and3_sem/and_wf proved; not3/or3/xor3 validated by correspondence + pointwise three-valued interval oracle. Trusted: Lean kernel, hand-written model.',
        "level": "proof",
        "trusted_base": ["Model/Bmoc.lean: hand-written mirror of the four operators (see C07)"],
        "open_statements": ["not3_sem", "or3_sem", "xor3_sem", "or_wf", "xor_wf", "not_wf"],
        "assumptions": COMMON_ASSUME + ["operands are well-formed BMOCs (any flags, packed or not)"],
    },
    "C09": {
        "claim": 'Theorems: Cell::new inverts build_raw_value for every depth<=depth_max<=29 and hash<12*4^depth, raw values fit u64, raw order is z-order on disjoint cells (entries of a well-formed list are strictly increasing), `and` preserves well-formedness. not/pack/to_bmoc_packing preserve well-formedness, the cone coverage started from the base cells is well formed whatever the float tests answer. VIEWS, for every well-formed BMOC with valid entries and depth_max<=29: flat_iter is strictly increasing and is exactly the set of non-absent deepest cells; flat_iter_cell reports the same cells with the covering entry and its flag; deep_size = its length; to_ranges = non-empty, sorted, pairwise disjoint and non-adjacent ranges whose union is that set; into_iter decodes/re-encodes exactly; no u64 overflow. Views are also compared with the code on every BMOC produced by builders and by operator histories of length 1..6, with a direct well-formedness + view-agreement oracle.',
        "note": 'Proof for the encoding, the views and the producers and/not/pack/coverage-from-base-cells; or/xor well-formedness is an open statement (validated by correspondence/oracle). BMOCBuilderUnsafe trusts its caller (hypothesis WF).',
        "level": "proof",
        "trusted_base": ["Model/Bmoc.lean: raw encoding, views (flat_iter, flat_iter_cell, deep_size, to_ranges, into_iter)"],
        "open_statements": ["or_wf", "xor_wf (see C08)", "coverage started from a starting depth: start cells distinct (C04 neighbours_distinct)"],
        "assumptions": COMMON_ASSUME + ["BMOCBuilderUnsafe::push trusts its caller: WF of user-built BMOCs is a hypothesis"],
    },
    "C10": {
        "claim": "Theorems: the integer correction loops of polar_cap_ring_index (the repair of F2) return the exact ring index from any estimate within `fuel` of it, for every cell number (existence/uniqueness of the index proved), so NESTED<->RING no longer depends on the accuracy of f64::sqrt; the off-by-one of the float estimate at depth 26 is a kernel-checked fact on Lean's IEEE-754 model. to_ring/from_ring are modelled over Nat/Int for every depth and compared with the code: exhaustive depth<=6 (quick)/<=9 (thorough) in both directions, ring-boundary classes (first/last/quarter cells of sampled polar and equatorial rings, both transition rings, rings whose (2r+1)^2 exceeds 2^53) and base-cell border cells at all depths to 29; oracles check range, both round trips, RING order of centres and agreement with ring::center_of_projected_cell.",
        "note": "PARTIAL proof: ring-index theorem proved for all inputs; the bijection and order theorems for all depths are open statements (small-depth kernel evaluation is reported as a test). Trusted: Lean kernel, hand-written model Model/Layer.lean, Lean's Float model for the sqrt estimate.",
        "level": "proof",
        "trusted_base": ["Model/Layer.lean: hand-written mirror of to_ring/from_ring/decode_hash/build_hash", "Lean core IEEE-754 model of f64 sqrt / u64->f64 / f64->u64 conversions (kernel-reducible)"],
        "open_statements": ["from_ring_to_ring (all depths)", "to_ring_from_ring (all depths)", "ring_order", "ring_center_agrees"],
        "assumptions": COMMON_ASSUME,
    },
    "C04": {
        "claim": "Theorems for every input at the base level: the twelve base cells glue consistently (seam table entry (b,dir) -> b' and direction_from_neighbour names the way back to b, all 12x8 entries), each base cell has exactly 6 base-cell neighbours, the two direction tables agree, out-of-range cell numbers are rejected. The neighbour code (neighbour_from_parts with the three seam tables, the bit-level fast path for inner cells, neighbours/neighbour) is modelled for every depth and compared with the code exhaustively for depth<=4 (quick)/<=7 (thorough) and on the 12 x (4 corners, 4 borders, cells next to them, interior) classes at all 30 depths. Independent oracle from vertex keys (points of the HEALPix plane identified across facet seams and poles): labelling, symmetry, distinctness, count (8, or 7/6 at the three-cell points) at every depth, and exact equality with the set of touching cells exhaustively for depth<=4 (<=6 thorough). Kernel evaluation of exact adjacency on the model at depths 0-1 is reported as a test.",
        "note": "PARTIAL proof: base-level (finite) theorems proved for all entries; neighbour_labelled / neighbours_complete for every depth are open statements. Trusted: Lean kernel, hand-written model Model/Topo.lean (seam tables transcribed by hand, tied by exhaustive correspondence).",
        "level": "proof",
        "trusted_base": ["Model/Topo.lean: hand-written mirror of neighbour_from_parts, ncp/eqr/spc_neighbour, inner_cell_neighbours, neighbours, compass-point and direction tables"],
        "open_statements": ["neighbour_labelled (every n)", "neighbours_complete (every n)", "neighbours_symmetric (every n)", "inner_bits_correct"],
        "assumptions": COMMON_ASSUME,
    },
    "C14": {
        "claim": "Theorem for every input: the convenience functions accept exactly depth+delta_depth<=29 (DEPTH_MAX regenerated from the source; repaired behaviour of F6). internal_edge, internal_edge_sorted (the k0..k3 loop, repaired: F9), internal corners/parts, external_edge(_sorted) and external_edge_struct with the direction tables are modelled and compared with the code exhaustively for (depth<=2, delta<=4) quick / (depth<=4, delta<=6) thorough and on corner/border/interior classes of every base cell at all depths with delta up to 12 and depth+delta=29. Oracles: internal edge = border descendants, length 4*2^delta-4, closed walk from the south corner through the east corner with adjacent consecutive cells, sorted variants = sorted same set, parts/corners = matching subsets, external edge = deeper-depth cells outside the cell adjacent to a descendant, no duplicates, struct parts filed under the side/corner they face. Kernel evaluation for delta=1..5 is reported as a test.",
        "note": "PARTIAL proof: guard theorem proved; set/walk/permutation theorems for every delta are open statements. Trusted: Lean kernel, hand-written model.",
        "level": "proof",
        "trusted_base": ["Model/Topo.lean: hand-written mirror of internal_edge(_sorted), internal_corner*, internal_edge_part*, external_edge_generic/struct"],
        "open_statements": ["internal_edge_set (every delta)", "internal_edge_walk", "internal_edge_sorted_perm (every delta)", "external_edge_set"],
        "assumptions": COMMON_ASSUME,
    },
    "C01": {
        "claim": "Theorems for every input of every numeric instance (every f64 bit pattern, NaN/inf included): the front end always yields a base cell < 12; a latitude failing -pi/2<=lat<=pi/2 (NaN included) is rejected; for every pair of bit patterns of h+l, h-l whose scaled truncations do not exceed nside (the code's debug assertion) the cell number is < 12*4^depth at every depth 1..29 (hash_range at Float). The whole hash_v2 (front end with libm calls as parameters + bit-level back end) is modelled and compared bit for bit with Layer::hash in dev and release builds: 30 depths x structured positions (40% on seams: meridians k*pi/4 +-ulps, transition latitude +-ulps, poles, cell centres/vertices/edge points of random cells +-ulps, lon in [-8pi,8pi], -0.0) + malformed latitudes. Oracle: point-in-diamond against an independent projection with tolerance 1e-9+2^d*2e-14 cell units, range, guards. Finding F8 (|lon|>=2pi) found this way and repaired.",
        "note": "PARTIAL proof: range/guard/base-cell theorems proved for all inputs; containment over the reals (hash_real_contains, the seam inequalities) is an open statement; rounding of libm and of the front-end products is not carried by proof (validated by oracle).",
        "level": "proof",
        "trusted_base": ["Model/Num.lean + Model/F64.lean: the numeric interface; at Float it mirrors the Rust operation sequence (Lean Float ops and glibc libm = Rust f64 methods, compared bit for bit on every run); Rust `as uN` casts and the exponent-bit trick are pure functions on bit patterns (F64.truncU, F64.expAdd)", "Model/Hash.lean: hand-written generic mirror of xpm1_and_q, d0h_lh_in_d0c, hash_v2"],
        "open_statements": ["hash_real_contains (over the reals)", "hash_real_contains_perturbed"],
        "assumptions": COMMON_ASSUME + ["glibc sin/cos as called by Lean's Float and by Rust's f64 agree bit for bit (checked on every run by the correspondence itself)"],
    },
    "C02": {
        "claim": "Theorem for EVERY pair of 64-bit patterns standing for h+l and h-l (negative, NaN, zero, subnormal or positive below 8), every base cell and every 1<=d<=d'<=29: the depth-d cell number is the depth-d' cell number shifted right by 2(d'-d) bits (backend_prefix), transported to hash_v2 at Float (hash_prefix: the front end takes no depth), plus depth 0 (base cell = top bits). No hypothesis on libm: the exponent-bit scaling commutes with truncation (F64 lemmas, all bit patterns), the nside->nside-1 clamp commutes with the shift, interleaving commutes with the shift (C18). The hypotheses (patterns small, scaled index <= nside) are evaluated by the model on every generated position and compared with 'ok'. Correspondence: hash at all 30 depths for each structured position; oracle: prefix relation on the implementation for all consecutive depth pairs.",
        "note": "Proof of the back end for all bit patterns under the code's own debug assertion; that the front end produces small patterns (|h+-l| < 8, never -0.0) is monitored on every run, not proved (it would need IEEE sign rules through sin/cos). Trusted: Lean kernel, F64 bit model of `as u32` and of the exponent trick (validated against the hardware through the correspondence).",
        "level": "proof",
        "trusted_base": ["Model/Num.lean + Model/F64.lean: the numeric interface; at Float it mirrors the Rust operation sequence (Lean Float ops and glibc libm = Rust f64 methods, compared bit for bit on every run); Rust `as uN` casts and the exponent-bit trick are pure functions on bit patterns (F64.truncU, F64.expAdd)"],
        "open_statements": ["frontend_small (|h+-l| < 8 and no -0.0 for every f64 position)"],
        "assumptions": COMMON_ASSUME,
    },
    "C17": {
        "claim": "Theorems for every input of every numeric instance: proj/unproj reject arguments outside [-pi/2,pi/2] / [-2,2] (NaN included); pm1_offset_decompose yields an offset in {1,3,5,7}; base_cell_from_proj_coo returns a base cell < 12 for EVERY pair of inputs (repaired behaviour of finding F10). proj, unproj, base_cell_from_proj_coo are modelled generically and compared bit for bit at Float in dev and release builds on structured positions and plane points (facet boundaries, |y|=1 +-ulps, towards the poles, x in {0,8,-8}, out of range). Oracles: independent Calabretta&Roukema formulae (cap seams identified), both round trips with the property's tolerances, sign of x, base cell = depth-0 hash away from borders and containment on borders.",
        "note": "PARTIAL proof: guards/range theorems proved for all inputs; proj=spec and the inverse laws over the reals are open statements; 1e-14 rad round-trip accuracy is validated by oracle only.",
        "level": "proof",
        "trusted_base": ["Model/Num.lean + Model/F64.lean: the numeric interface; at Float it mirrors the Rust operation sequence (Lean Float ops and glibc libm = Rust f64 methods, compared bit for bit on every run); Rust `as uN` casts and the exponent-bit trick are pure functions on bit patterns (F64.truncU, F64.expAdd)", "Model/Proj.lean: hand-written generic mirror of proj, unproj, base_cell_from_proj_coo and helpers"],
        "open_statements": ["proj_eq_spec", "unproj_proj", "proj_unproj", "base_cell_from_proj_coo_spec"],
        "assumptions": COMMON_ASSUME,
    },
    "C03": {
        "claim": "Theorems for every input of every numeric instance: every accessor (center_of_projected_cell, center, vertices, vertex, sph_coo, path_along_cell_edge, grid) rejects a cell number >= 12*4^depth; sph_coo rejects offsets outside [0,1) (NaN included); depth0_bits is structurally recursive (cannot loop). All accessors (center, center_of_projected_cell, vertices, vertex, sph_coo, hash_with_dxdy, path_along_cell_side/edge, grid) are modelled generically and compared bit for bit at Float: exhaustive cells to depth 3 (quick)/6 (thorough), corner/border/interior classes of the 12 base cells at all depths, 15k-300k structured positions. Oracles: hash(center)=h, hash(sph_coo)=h for interior offsets, path/grid points nudged inwards hash back, vertices agree across accessors as sphere points, hash_with_dxdy cell contains the position with offsets in [0,1] and sph_coo recovers it to 1e-13 rad, guards. Finding F11 (hash_with_dxdy on polar-cap seams/poles) is recorded as a known finding with an input classifier.",
        "note": "PARTIAL proof: guard theorems proved; the plane-geometry statements over the reals are open; float rounding validated by oracle. KNOWN FINDING F11 is reported as KNOWN-FINDING, any other failure as VIOLATION.",
        "level": "proof",
        "trusted_base": ["Model/Num.lean + Model/F64.lean: numeric interface; at Float it mirrors the Rust operation sequence (compared bit for bit on every run)", "Model/Hash.lean: hand-written generic mirror of the accessors and of hash_with_dxdy/depth0_bits"],
        "open_statements": ["center_plane_spec", "vertices_agree", "hash_with_dxdy_plane", "hash_center_real"],
        "assumptions": COMMON_ASSUME,
    },
    "C19": {
        "claim": "Theorems over the reals for the generic weight formulas instantiated at R (literals = exact values of the source doubles): in each of the 4 quadrants x {corner present, missing} the four weights sum to 1 (ring), are non-negative on their quadrant, weight 1 on the cell at its centre, a missing corner carries weight 0 in the corner slot, the cell itself is always a slot and the two other slots are ordinal directions (which always exist). bilinear_interpolation (hash_with_dxdy + neighbours + weights) is modelled and compared bit for bit (cells and weight bits) on 20k-400k structured positions plus the 24 cells lacking a cardinal neighbour x quadrants x interior/border offsets at every depth. Oracle: sum within 4 ulp of 1, non-negativity, membership in neighbours, cell present, centre weight, missing corner slot, grid mean.",
        "note": "Algebra proved exactly for all offsets; that the four cells are the right neighbours rests on C04 (partially proved) and on the correspondence; rounding of the float weights validated by oracle. Inherits known finding F11 of hash_with_dxdy on polar-cap seams.",
        "level": "proof",
        "trusted_base": ["Model/Num.lean + Model/F64.lean: numeric interface; at Float it mirrors the Rust operation sequence (compared bit for bit on every run)", "Lemmas/NumReal.lean: the exact instance (R) of the numeric interface"],
        "open_statements": ["bilinear_cells (needs C04 neighbours_complete)", "bilinear_mean"],
        "assumptions": COMMON_ASSUME,
    },
    "C16": {
        "claim": "Theorems on the table and decision tree REGENERATED from src/lib.rs on every run: the 30 limits are strictly decreasing (exact dyadic comparison) and are the values of the bit patterns the crate uses; for EVERY comparison function and table the unrolled binary search returns d<=29 with r<T[d] and (d=29 or not r<T[d+1]) whenever the guard passes (30 leaves, all f64 incl. NaN); the guard refuses exactly when has_best_starting_depth is false; depth-0 constants. ConstantsC2V::new, the three envelopes, the scalar/vector _with_radius variants (fmod, f64::max/min, debug assertions) are modelled generically and compared bit for bit. The geometric claims are MEASURED (labelled test): envelope >= true centre-to-farthest-vertex distance exhaustively to depth 5 (quick)/8 (thorough) and on border classes to depth 29; _with_radius against cells whose centre lies in the cone; thresholds recovered from the implementation by bisection = the table; rim witnesses for the 9-cell claim. Findings F7, F12, F13 recorded as known findings with classifiers.",
        "note": "PARTIAL: table/decision-tree logic proved (a swapped index or changed literal breaks the proof and the failing r is read off the branch); the spherical-geometry inequalities are not provable by this technique and are measured. Known findings are reported as KNOWN-FINDING lines.",
        "level": "proof",
        "trusted_base": ["translator/rs2lean.py: grammar of nested if/else-if over SMALLER_EDGE2OPEDGE_DIST[k] with integer leaves; f64 literals through Python's correctly rounded float()", "Model/C2V.lean: hand-written generic mirror of ConstantsC2V::new and the envelopes"],
        "open_statements": ["c2v_with_radius_is_sup", "envelopes dominate the true distance (geometry; measured)", "nine-cells claim (geometry; measured)"],
        "assumptions": COMMON_ASSUME,
    },
    "C20": {
        "claim": "Theorems by inductive invariant over the step relation of get_or_create (after the repair of F5), for ANY number of threads and ANY interleaving: the invariant holds initially and is preserved by every step (hence in every reachable state); the object is constructed at most once; a thread that returns has seen the initialised slot (unreachable!() is unreachable) and exactly one construction has happened; no deadlock while some thread has not returned. Tie to the code by histories: cfg-guarded yield points at the four points of both factories (layers and cell-size constants) let a harness-side scheduler replay schedules with real threads; ALL 256 two-thread schedules of length 8 plus random 3-9-thread schedules are replayed (one fresh slot per history, a new process every 59 histories) and the per-step observations (point reached / blocked, construction counter) are compared with the model's; an unscheduled 16-thread x 30-depth stress run compares hash/centre/neighbours/cone/c2v results and counters; cargo +nightly miri (8 seeds) in the thorough tier searches for a data race on the real code (it found F5 before the fix).",
        "note": "Proof of the protocol under stated assumptions: std::sync::Once as documented (mutual exclusion, blocking of late callers, happens-before), sequentially consistent steps; interleavings inside Once are not explored. Layer::new being a function of the depth only is tied by the correspondence of the layer constants through hash at all depths.",
        "level": "proof",
        "miri": True,
        "trusted_base": ["Model/Once.lean: hand-written state machine of the factory", "hooks in /repo (cfg(cdshealpix_verif)): construction counters, yield points", "std::sync::Once modelled by its documentation"],
        "open_statements": [],
        "assumptions": COMMON_ASSUME + ["sequential consistency of the modelled steps; Once gives release/acquire ordering"],
    },
    "C11": {
        "claim": "Theorems for every nside>=1 (power of two or not): polar ring i+1 holds 4(i+1) cells and caps + equatorial rings add up to exactly 12*nside^2; no index exceeds 2^63 for nside<=2^29; every accessor rejects a cell number >= 12*nside^2 and hash rejects a latitude outside [-pi/2,pi/2] (NaN included), for every numeric instance; over the reals dldh_to_dxdy maps the 1x1 box into [0,1)^2. ring::hash / hash_with_dxdy (1x1-box logic, u64 arithmetic with overflow-panic in dev and wrap-around in release), center_of_projected_cell (with the repaired ring index), center, sph_coo are modelled generically and compared bit for bit at Float for every nside 1..64 (quick)/1..300 (thorough) with all cells for small nside, plus primes/odd/huge values up to 2^29 on ring-boundary classes. Oracles: range, point-in-diamond against an independent projection, hash(center)=h with offsets (1/2,1/2), ring sizes 4i / 4nside, ordering, sph_coo inverts hash_with_dxdy, guards. Finding F3 (polar-cap seams) is a known finding with an input classifier.",
        "note": "PARTIAL proof: index-arithmetic/guard theorems proved for all nside; containment/centre theorems are open (and false on the seams on the unchanged tree: F3, reported as KNOWN-FINDING; any failure away from the seams is a VIOLATION).",
        "level": "proof",
        "trusted_base": ["Model/Ring.lean: hand-written generic mirror of ring::hash_with_dldh, deal_with_1x1_box, dldh_to_dxdy, center_of_projected_cell, sph_coo"],
        "open_statements": ["ring_hash_plane_range", "ring_hash_center", "ring_hash_contains", "ring_order"],
        "assumptions": COMMON_ASSUME,
    },
    "C05": {
        "claim": "Theorems FOR EVERY CLASSIFIER (whatever the floating-point tests answer): the descent returns a well-formed cell list inside the root cell with depths between root and target; if the classifier never skips a cell containing a point of the region, every point of the region in a root cell lies in an output cell (no-miss of the recursion, relative to the classifier); r>=pi yields the 12 base cells. OVER THE REALS (same model functions at R, Mathlib's angle triangle inequality): the compared quantity is the haversine of the angular distance; a skipped cell has no point within r of the cone centre if its points are within the level's envelope D of its centre; hence the scheme misses nothing under the envelope hypothesis H1 (cone_scheme_no_miss_real). The whole pipeline (best_starting_depth, cell-size constants, center, neighbours, small-cone branch, builder, pack, lower depth) is modelled and compared ENTRY BY ENTRY with cone_coverage_approx / _custom in dev and release builds (2000 cones quick, 12000 thorough). Witness oracle: centre, 64 rim points at 0.999r, 64 interior points, centres/vertices of cells next to the reported region; radii log-uniform, within 5% of each table entry, >pi/2, about the cell size; centres on seams/poles; delta_depth 0..4. Findings F4, F14, F15 found and repaired; consequences of F12/F13 (cones overlapping a polar cap) and F7 (dev-profile debug assertions) are known findings.",
        "note": "PARTIAL: no-miss is proved relative to the classifier's soundness, which rests on geometric inequalities (C16) that this technique cannot prove; they are searched by witnesses. Misses away from the polar caps are VIOLATIONS; cones overlapping a polar cap are KNOWN-FINDING (F12/F13).",
        "level": "proof",
        "trusted_base": ["Model/Cover.lean + C2V + Hash + Topo + Bmoc: hand-written generic mirror of cone_coverage_approx(_custom) and everything it calls; tied entry by entry at Float"],
        "open_statements": ["H1: the cell-size envelopes bound the true centre-to-point distances of the visited cells (geometry; searched, C16)", "the start cells cover the cone (nine-cells claim, C16)", "transfer of the real-valued scheme to the Float run (rounding)"],
        "assumptions": COMMON_ASSUME,
    },
    "C06": {
        "claim": "Theorems: r>=pi yields exactly 12 full base cells (every numeric instance); FOR EVERY CLASSIFIER a cell flagged full in the descent's output was classified full (never through the descend branch; the comparison is strict since the repair of F15); the packed entries are a fixed point of the compaction pass; OVER THE REALS: every point of a cell flagged full is strictly inside the cone under the envelope hypothesis H1 (cone_scheme_full_inside_real). Same bit-exact pipeline as C05 with flags. Oracle: every full cell has its 4 vertices, 8 points per side and centre within the radius; every cell centre within r + 2 x (largest centre-to-vertex distance of its depth, measured exhaustively to depth 5); all-sky; no four full siblings. Findings F14/F15 repaired; wrong full flags of cones overlapping a polar cap (consequence of F12) are a known finding.",
        "note": "PARTIAL: structural/flag-rule theorems proved; 'full => inside the cone' is conditional on the geometric facts of C16 and searched by the oracle.",
        "level": "proof",
        "trusted_base": ["Model/Cover.lean + C2V + Hash + Topo + Bmoc: hand-written generic mirror of cone_coverage_approx(_custom) and everything it calls; tied entry by entry at Float"],
        "open_statements": ["H1 itself (geometry; searched, C16)", "tightness bound (numeric fact about the envelopes)", "transfer of the real-valued scheme to the Float run (rounding)"],
        "assumptions": COMMON_ASSUME,
    },
    "C15": {
        "claim": 'Theorems: each pack pass never lengthens the list, pack ends on a fixed point of the pass (a further pass merges nothing), to_lower_depth rejects new_depth>=depth_max. The fixed-depth builder is modelled as a state machine with explicit drain points and compared with the code for all push-sequence families x 9 capacities x 9 depths; pack/to_lower_depth on exhaustive universes and random trees; oracles check pushed-set equality, map preservation, no four full siblings, the lower-depth rule.',
        "note": 'PARTIAL proof: structural pack theorems proved; pack_sem/fixed_builder_sem/to_lower_depth_sem open. Trusted: Lean kernel, hand-written model, Vec capacity assumption.',
        "level": "proof",
        "trusted_base": ["Model/Bmoc.lean: pack (in-place compaction re-expressed as a pass function iterated to a fixed point), to_lower_depth, BMOCBuilderFixedDepth as a state machine",
                         "Vec::with_capacity(n) has capacity exactly n for u64 and n >= 1 (drain happens when len == n)",
                         "sort_unstable + dedup modelled as insertion sort + adjacent-duplicate removal"],
        "open_statements": ["pack_sem", "pack_wf", "pack_no_four_full", "fixed_builder_sem", "to_lower_depth_sem"],
        "assumptions": COMMON_ASSUME,
    },
    "C12": {
        "claim": "Theorems, for every polygon / numeric instance / answer of the floating-point tests: on the sorted deduplicated vertex-hash list is_in_list finds every ancestor of every listed hash (the binary search never loses a vertex); hence in the descent below a start cell every vertex hash under that start cell ends under a cell of the output (never skipped), unconditionally for the whole returned BMOC when the start cells are the 12 base cells; a cell flagged full is no ancestor of a vertex cell and has 4 of its 4 vertices inside (Polygon.contains), descend never carries a full flag; per-root output well formed / inside the root / depth-bounded, whole output = concatenation over strictly increasing roots (well formed, nothing invented); coverage_spec: the value returned by polygon_coverage(approx) IS that encoded concatenation. polygon_coverage(exact=false) (Polygon::new, bounding_cone, start cells, descent) and Polygon::contains are modelled and compared ENTRY BY ENTRY / answer by answer, dev and release builds. Oracle (approx AND exact mode): well-formedness, every vertex cell present, full cells of convex polygons have vertices+centre inside (independent half-space test), tightness w.r.t. the bounding cone for radii < 0.3 rad, Polygon::contains against the half-space definition at 24 points per convex polygon; polygons from far below a cell to 0.78 rad, 3..12 vertices, both windings, crossing lon=0 / seams / polar-cap meridians.",
        "note": "PARTIAL: the facts about the recursion and is_in_list are proved for every input; that the start cells cover every vertex cell, tightness and the geometric meaning of Polygon::contains are searched by the oracle. The exact mode's root finder (special_points_finder.rs) is NOT modelled: oracle only. Its debug assertions fail for arcs crossing lon=0 in a polar cap and for wide arcs in the equatorial region (dev profile only): KNOWN-FINDING F16/F17.",
        "level": "proof",
        "trusted_base": ["Model/SphGeom.lean (Polygon, bounding cone, polyClassifier, polygonCoverageApprox) + Hash + Topo + C2V + Bmoc: hand-written generic mirror; tied entry by entry at Float",
                         "slice::binary_search modelled by its specification on a sorted list (insertion point = number of smaller elements)",
                         "special_points_finder.rs (exact mode) not modelled: implementation + oracle only"],
        "open_statements": ["start cells cover every vertex cell when a starting depth exists (geometry of best_starting_depth, C16)", "Polygon.contains = geometric inside (ray-crossing over the reals)", "tightness", "exact mode (arc_special_points) refinement"],
        "assumptions": COMMON_ASSUME,
    },
    "C13": {
        "claim": "Theorems, for every numeric instance: a >= pi/2 is rejected (none = panic) for every depth, delta_depth, centre, b, position angle, before anything else is computed (guard, guard_custom); a cell is skipped only if its centre is not in the ellipse AND overlap_cone answered false; a cell flagged full passed contains_cone with its level's cell-size bound or is at the target depth with its 4 vertices inside; per-root output well formed / inside the root / depth-bounded; with no starting depth the internal list is the fold over the 12 base cells and is well formed; delta_depth=0 entries are a fixed point of the compaction. Over the reals (C13R): the covariance-form test Ellipse.contains IS the canonical ellipse inequality, and for a = b the elliptical-cone membership IS angular distance <= a. elliptical_cone_coverage(_custom) (ProjSIN, Ellipse, overlap_cone, contains_cone, start cells, descent, pack, to_lower_depth) is modelled and compared ENTRY BY ENTRY in dev and release builds. Oracle: guard at pi/2 (1 ulp below, at, above), well-formedness, centre cell present, every reported cell centre within a + 2 x (largest centre-to-vertex distance of its depth), circular case: 97 witness points of the cone of radius a all in reported cells; centres on seams/poles, axis ratios 1..1e-3, delta_depth 0..3.",
        "note": "PARTIAL: guard, skip rule, flag rule, structure proved; 'centre cell kept', tightness and circular no-miss rest on overlap_cone's soundness w.r.t. the empirical cell-size bounds (C16) and are searched by the oracle. Dev-profile debug assertions of the cell-size helper (F7) are a known finding.",
        "level": "proof",
        "trusted_base": ["Model/SphGeom.lean (ProjSIN, Ellipse, ECone, ellClassifier, ellInternal, ellipticalConeCoverageCustom) + C2V + Hash + Topo + Bmoc: hand-written generic mirror; tied entry by entry at Float"],
        "open_statements": ["centre cell kept (needs soundness of overlap_cone + C16 envelopes)", "circular no-miss of the descent over the reals (overlap_cone sound for a = b)", "tightness"],
        "assumptions": COMMON_ASSUME,
    },
}

# ---------------------------------------------------------------------------------------------------------------
# Round-2 updates (theorems added since the entries above were written).  Applied on top of PROPS.

def _upd(pid, **kw):
    for k, v in kw.items():
        if k == "claim_prefix":
            PROPS[pid]["claim"] = v + " " + PROPS[pid]["claim"]
        elif k == "trusted_add":
            PROPS[pid]["trusted_base"] = PROPS[pid].get("trusted_base", []) + v
        else:
            PROPS[pid][k] = v

_upd("C01",
     claim_prefix="OVER THE REALS (hash_real_contains): for every depth <= 32, every latitude in [-pi/2, pi/2] and every |lon| < 64 pi, the model of hash_v2 at R returns parts (d0h < 12, i, j < 2^depth) whose closed diamond contains the point projected by the crate's own proj (x modulo 8): all seam inequalities (> vs >= in q01/q12, strict transition latitude, negative-longitude quarter 3-(q>>1), clamp at i = nside, depth 0); the same against an independent statement of the Calabretta-Roukema projection outside negative-longitude cap seams (seam_convention says what the code does there; lon_bound_is_sharp shows 64 pi cannot be enlarged).",
     note="Proof over the reals of the containment statement for all inputs of the property's quantifier, plus range/guard/base-cell theorems for every f64 bit pattern. NOT carried by proof: rounding of libm and of the four products/sums of the front end at Float (the property grants a rounding tolerance; validated by the bit-exact correspondence on seam-heavy inputs and the point-in-diamond oracle).",
     open_statements=["hash_real_contains_perturbed (transfer of the real-valued statement to doubles: rounding of sin/cos and of the front-end products)"])
_upd("C07",
     claim="Theorems for ALL pairs of well-formed in-range MOCs (every depth mix, depth_max <= 29): `and` = intersection (and_sem), `not` = complement (not_sem), `xor` = symmetric difference for the public operator including re-encoding and pack (xor_sem, xor_self_empty); results are MOCs (all flags full), well formed, in range. CANONICAL FORM: a well-formed in-range all-full list without four full siblings is determined by the set it denotes (moc_canonical, bmoc_canonical on raw entries: structural equality = set equality); pack outputs are canonical (pack_canonical), and so are the results of and / not, which do not call pack (and_canonical, not_canonical); hence not(not a) = a, commutativity/idempotence/associativity of and, a and not a = empty hold as structural equalities (not_not, and_laws), and two unions / symmetric differences denoting the same set have identical entries (pack_eq_of_same_set). `or`: loop-by-loop model tied bit-exactly to the code (exhaustive one-level universes, sampled two-level universe, random deep trees to depth 29, degenerate shapes, algebraic laws).",
     note="Proof for not/and/xor and the canonical form; `or` semantics is the remaining open statement (validated by correspondence + pointwise interval oracle). Trusted: Lean kernel, hand-written model of bmoc.rs tied by the differential check.",
     open_statements=["or_sem (union)"])
_upd("C08",
     claim="Theorems for ALL pairs of well-formed in-range BMOCs with arbitrary flags and depth mixes (depth_max <= 29): `and` is the pointwise minimum (and3_sem), `not` swaps absent/full and keeps partial (not3_sem), `xor` follows the documented table both on cell lists and for the public operator with re-encoding at the larger depth_max and pack (xor3_sem, xor_bmoc: never panics on valid operands, result valid, strictly increasing, well formed); results well formed and in range. `or`: loop-by-loop model tied bit-exactly to the code on the exhaustive one-level three-state universe (all ordered pairs), sampled two-level universe and random deep trees biased to partial-over-full; the defect F1 in `or` was found this way and repaired (fix: commit).",
     note="Proof for and/not/xor; or3_sem is the remaining open statement (validated by correspondence + pointwise three-valued interval oracle).",
     open_statements=["or3_sem", "or_wf"])
_upd("C15",
     claim="Theorems: pack preserves the three-valued state of every cell, well-formedness, leaves no four full siblings and ends on a fixed point (pack_sem, pack_wf, pack_no_four_full); TO_LOWER_DEPTH (to_lower_depth_sem): for every well-formed BMOC with valid entries and new_depth < depth_max <= 29 the result is well formed, a coarse cell is kept IFF it contained something, is full IFF it lies inside one full input cell of depth <= new_depth, hence only if every deepest cell under it was full; new_depth >= depth_max is rejected. BUILDER: sort+dedup gives a strictly increasing list with the same members; buff_to_bmoc on a strictly increasing in-range buffer emits a well-formed BMOC covering exactly the buffer with the builder's flag (both next_power_of_two arms); fixed_builder_sem_of_or_spec: for EVERY depth <= 29, flag, push sequence (any order, duplicates) and drain schedule (any Vec capacity behaviour) the builder does not panic, returns None iff nothing was pushed, else a well-formed BMOC in which exactly the pushed cells carry the flag - relative to the specification of BMOC::or on equal-depth operands. Model compared with the code for all push-sequence families x 9 capacities x 9 depths; pack/to_lower_depth on exhaustive universes and random trees.",
     note="Proof of pack, to_lower_depth, buff_to_bmoc and of the builder state machine; the builder theorem is relative to or's specification (C08's open statement) because the builder merges intermediate BMOCs with `or`. Trusted: Lean kernel, hand-written model, Vec capacity behaviour abstracted to an arbitrary drain schedule.",
     open_statements=["fixed_builder_sem unconditional (needs or3_sem, C08)"])
_upd("C17",
     claim_prefix="OVER THE REALS, the whole statement: proj IS the Calabretta-Roukema projection stated independently (proj_eq_spec, both longitude signs); |x| < 8, |y| <= 2 with the signs of lon/lat (proj_range); unproj(proj p) = p exactly for |lon| < 2 pi in all four sign quadrants up to the code's pole threshold, and at the pole the latitude is exact and the longitude is the facet centre (unproj_proj, unproj_proj_pole); proj(unproj(x,y)) = (x,y) on the projected domain, with the right triangle edges and x = +-8 characterised (proj_unproj, proj_unproj_right_edge, proj_unproj_at_eight); base_cell_from_proj_coo returns a base cell whose closed diamond contains the point, with the border convention explicit, and the base cell of a projected position contains it (base_cell_from_proj_coo_spec, base_cell_ne_edge, base_cell_of_projected).",
     note="Proof over the reals of every clause of the property; guards and ranges for every f64 bit pattern. NOT carried by proof: the 1e-14 rad accuracy of the round trip with doubles (validated by the bit-exact correspondence and the oracle; finding F22 lives there).",
     open_statements=["transfer to doubles: 1e-14 rad round-trip accuracy (rounding; oracle)"])
_upd("C18",
     claim_prefix="BMI2 builds: pdep/pext (Intel SDM pseudo-code) with the regenerated even/odd masks are bit spreading/squeezing for every operand; Bmi.ij2h = interleave, h2ij inverts it, i02h/oj2h are its restrictions, and the BMI2 and LUT implementations are the same functions on every argument; the class selected by get_zoc on a BMI2 build is the same as on a LUT build (zoc_bmi_correct, bmi_eq_lut).",
     note="Full proof for every implementation get_zoc can select (LUT and BMI2) and for the uniq encodings. Trusted: Lean kernel (axioms propext/Classical.choice/Quot.sound only), translator for tables/masks/ranges, the model of the byte-composition code (validated by differential testing in dev/release/+bmi2 builds), pdep/pext as the Intel SDM pseudo-code. The xor-network variants (never selected by get_zoc) are not modelled.")
_upd("C09",
     trusted_add=[])
_upd("C20",
     claim_prefix="TIE BY TRANSLATION: the bodies of nested::get_or_create and lib::get_or_create are parsed from the source on every run into instruction lists (call_once / write / read), and factories_from_source proves both are the program goodProg with `static` Once arrays. PROGRAM-LEVEL SAFETY with a two-step (torn) slot write, any number of threads, any interleaving: no read ever observes a store in progress (data-race freedom of the slot), at most one construction, every returning thread got the initialised object, no deadlock (safe_with_torn_writes, no_deadlock_prog); the program-level machine refines the four-step machine whose histories are replayed on the real code (prog_refines_once); the pre-F5 fast path and a const Once array are unsafe in the same model (unsafe_shapes). When the shape theorem breaks, the model is searched for a failing history (2 threads x 10 steps, 3 threads x 9 steps) and the history is put in the replay.",
     trusted_add=["translator/rs2lean.py gen_once_prog: grammar of the factory body (call_once closure containing the slot write; early `if let`/`match` read; final read); anything else is rejected as outside the grammar (broken obligation)",
                  "Model/OnceProg.lean: interpreter of the instruction lists; std::sync::Once as documented"])
_upd("C04",
     claim_prefix="TABLES FROM THE SOURCE: the seam rules (ncp_/eqr_/spc_neighbour through neighbour_from_shifted_coos), lib::neighbour, MainWind index/opposite/offsets/from_offsets/is_cardinal/is_ordinal are TABULATED from the source text on every run by a small interpreter of the match-arm subset (translator/rsmini.py) and the model's tables are proved equal to them entry by entry (seam_rules_from_source, seam_rules_agree_with_base_table, compass_from_source).",
     trusted_add=["translator/rsmini.py: parser + evaluator for the crate's finite match tables (enum/integer patterns, `|`, `_`, nested match, blocks with assert!/println!/let, integer casts, calls between such functions)"])
_upd("C14",
     claim_prefix="TABLES FROM THE SOURCE: lib::direction_from_neighbour, lib::edge_cell_direction_from_neighbour (12 x 9 x 9, panicking entries included) and the seam rules are tabulated from the source on every run and the model's tables proved equal to them (direction_tables_from_source, seam_rules_from_source).",
     trusted_add=["translator/rsmini.py (see C04)"])

HOOK_COMMITS = ["92c95dc", "f4641a8", "44f00b6"]

NOT_CLAIMED = {("C%02d" % i): "check not built yet in this round (the technique applies; see DESIGN.md section 5)" for i in range(1, 21)}
