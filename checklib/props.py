"""Per-property configuration of ./check (profiles, trusted base, assumptions, evidence rule)."""

COMMON_ASSUME = [
    "Rust integer semantics (wrapping, overflow panics in the dev profile, `as` casts, shifts) as transcribed in the model",
]

PROPS = {
    "C18": {
        "claim": 'Kernel-checked theorems over the regenerated tables/masks/ranges: every LUT entry equals the bit-spread spec (decide +kernel on the tables extracted from the source on this run), the byte composition of Small/Mediu/LargeZOC equals bit interleaving for all i,j below 2^bits (by a bit-level split lemma, not enumeration), h2ij/ij2i/ij2j invert it, get_zoc picks a sufficient class for every depth<=29 and rejects depth>29, to/from_uniq(_ivoa) round-trip and are injective for all depth<=29, hash<12*4^depth.',
        "note": 'Trusted: Lean kernel (axioms propext/Classical.choice/Quot.sound only), translator for tables, hand-written model of the composition code validated by differential testing in dev/release/+bmi2 builds. BMI2 variants are modelled (pdep/pext per Intel SDM) and tied by correspondence only; xor-network variants are not modelled.',
        "level": "proof",
        "profiles": ["debug", "release", "bmi2"],
        "trusted_base": [
            "Model/Bits.lean: hand-written mirror of the byte-composition code of Small/Mediu/LargeZOC and of to/from_uniq(_ivoa)",
            "pdep/pext defined from the Intel SDM pseudo-code (BMI2 variants)",
        ],
        "assumptions": COMMON_ASSUME + [
            "little-endian target (LargeZOC::i02h transmutes [u16;4] to u64)",
            "xor-network variants (LargeZOCxor; Small/MediuZOCxor exist only under cfg(test)) are never selected by get_zoc and are not modelled",
        ],
    },
    "C07": {
        "claim": 'Theorems for all pairs of well-formed operands of any depth mix: `and` is set intersection on plain MOCs, returns a MOC, result well formed. not/or/xor: executable loop-by-loop model tied bit-exactly to the code (exhaustive one-level universes, sampled two-level universe, random deep trees to depth 29, degenerate shapes, algebraic laws), semantics theorems still open (listed in evidence.open_statements).',
        "note": 'PARTIAL proof: and proved; not/or/xor validated by correspondence + pointwise interval oracle, not yet proved. Trusted: Lean kernel, hand-written model of bmoc.rs.',
        "level": "proof",
        "trusted_base": ["Model/Bmoc.lean: hand-written mirror of BMOC::not/and/or/xor, go_up/go_down/dd_4_go_up, consume_while_*, not_in_cell_4_or/xor, pack"],
        "open_statements": ["not_sem", "or_sem", "xor_sem", "moc_canonical (results packed => structural equality = set equality)"],
        "assumptions": COMMON_ASSUME + ["operands are valid MOCs built through the public builder (BMOCBuilderUnsafe trusts its caller)"],
    },
    "C08": {
        "claim": 'Theorem for all pairs of well-formed BMOCs with arbitrary flags and depth mixes: `and` is the pointwise minimum of the three-valued state maps and preserves well-formedness. not/or/xor: loop-by-loop model tied bit-exactly to the code on the exhaustive one-level three-state universe (all ordered pairs), sampled two-level universe and random deep trees biased to partial-over-full; the defect F1 in `or` was found this way and repaired (fix: commit).',
        "note": 'PARTIAL proof: and3_sem/and_wf proved; not3/or3/xor3 validated by correspondence + pointwise three-valued interval oracle. Trusted: Lean kernel, hand-written model.',
        "level": "proof",
        "trusted_base": ["Model/Bmoc.lean: hand-written mirror of the four operators (see C07)"],
        "open_statements": ["not3_sem", "or3_sem", "xor3_sem", "or_wf", "xor_wf", "not_wf"],
        "assumptions": COMMON_ASSUME + ["operands are well-formed BMOCs (any flags, packed or not)"],
    },
    "C09": {
        "claim": 'Theorems: Cell::new inverts build_raw_value for every depth<=depth_max<=29 and hash<12*4^depth, raw values fit u64, raw order is z-order on disjoint cells (entries of a well-formed list are strictly increasing), `and` preserves well-formedness. Views (flat_iter, flat_iter_cell, to_flat_array, deep_size, size_hint, to_ranges, into_iter) are modelled and compared on every BMOC produced by builders and by operator histories of length 1..6, with a direct well-formedness + view-agreement oracle.',
        "note": 'PARTIAL proof: encoding + and_wf proved; other producers and the views validated by correspondence/oracle. BMOCBuilderUnsafe trusts its caller (hypothesis WF).',
        "level": "proof",
        "trusted_base": ["Model/Bmoc.lean: raw encoding, views (flat_iter, flat_iter_cell, deep_size, to_ranges, into_iter)"],
        "open_statements": ["not_wf", "or_wf", "xor_wf", "pack_wf", "flat_iter_spec", "to_ranges_spec", "deep_size_eq_length", "cover_rec_structure (coverage outputs)"],
        "assumptions": COMMON_ASSUME + ["BMOCBuilderUnsafe::push trusts its caller: WF of user-built BMOCs is a hypothesis"],
    },
    "C10": {
        "claim": "Theorems: the integer correction loops of polar_cap_ring_index (the repair of F2) return the exact ring index from any estimate within `fuel` of it, for every cell number (existence/uniqueness of the index proved), so NESTED<->RING no longer depends on the accuracy of f64::sqrt; the off-by-one of the float estimate at depth 26 is a kernel-checked fact on Lean's IEEE-754 model. to_ring/from_ring are modelled over Nat/Int for every depth and compared with the code: exhaustive depth<=6 (quick)/<=9 (thorough) in both directions, ring-boundary classes (first/last/quarter cells of sampled polar and equatorial rings, both transition rings, rings whose (2r+1)^2 exceeds 2^53) and base-cell border cells at all depths to 29; oracles check range, both round trips, RING order of centres and agreement with ring::center_of_projected_cell.",
        "note": "PARTIAL proof: ring-index theorem proved for all inputs; the bijection and order theorems for all depths are open statements (small-depth kernel evaluation is reported as a test). Trusted: Lean kernel, hand-written model Model/Layer.lean, Lean's Float model for the sqrt estimate.",
        "level": "proof",
        "trusted_base": ["Model/Layer.lean: hand-written mirror of to_ring/from_ring/decode_hash/build_hash", "Lean core IEEE-754 model of f64 sqrt / u64->f64 / f64->u64 conversions (kernel-reducible)"],
        "open_statements": ["from_ring_to_ring (all depths)", "to_ring_from_ring (all depths)", "ring_order", "ring_center_agrees"],
        "assumptions": COMMON_ASSUME,
    },
    "C04": {
        "claim": "Theorems for every input at the base level: the twelve base cells glue consistently (seam table entry (b,dir) -> b' and direction_from_neighbour names the way back to b, all 12x8 entries), each base cell has exactly 6 base-cell neighbours, the two direction tables agree, out-of-range cell numbers are rejected. The neighbour code (neighbour_from_parts with the three seam tables, the bit-level fast path for inner cells, neighbours/neighbour) is modelled for every depth and compared with the code exhaustively for depth<=4 (quick)/<=7 (thorough) and on the 12 x (4 corners, 4 borders, cells next to them, interior) classes at all 30 depths. Independent oracle from vertex keys (points of the HEALPix plane identified across facet seams and poles): labelling, symmetry, distinctness, count (8, or 7/6 at the three-cell points) at every depth, and exact equality with the set of touching cells exhaustively for depth<=4 (<=6 thorough). Kernel evaluation of exact adjacency on the model at depths 0-1 is reported as a test.",
        "note": "PARTIAL proof: base-level (finite) theorems proved for all entries; neighbour_labelled / neighbours_complete for every depth are open statements. Trusted: Lean kernel, hand-written model Model/Topo.lean (seam tables transcribed by hand, tied by exhaustive correspondence).",
        "level": "proof",
        "trusted_base": ["Model/Topo.lean: hand-written mirror of neighbour_from_parts, ncp/eqr/spc_neighbour, inner_cell_neighbours, neighbours, compass-point and direction tables"],
        "open_statements": ["neighbour_labelled (every n)", "neighbours_complete (every n)", "neighbours_symmetric (every n)", "inner_bits_correct"],
        "assumptions": COMMON_ASSUME,
    },
    "C14": {
        "claim": "Theorem for every input: the convenience functions accept exactly depth+delta_depth<=29 (DEPTH_MAX regenerated from the source; repaired behaviour of F6). internal_edge, internal_edge_sorted (the k0..k3 loop, repaired: F9), internal corners/parts, external_edge(_sorted) and external_edge_struct with the direction tables are modelled and compared with the code exhaustively for (depth<=2, delta<=4) quick / (depth<=4, delta<=6) thorough and on corner/border/interior classes of every base cell at all depths with delta up to 12 and depth+delta=29. Oracles: internal edge = border descendants, length 4*2^delta-4, closed walk from the south corner through the east corner with adjacent consecutive cells, sorted variants = sorted same set, parts/corners = matching subsets, external edge = deeper-depth cells outside the cell adjacent to a descendant, no duplicates, struct parts filed under the side/corner they face. Kernel evaluation for delta=1..5 is reported as a test.",
        "note": "PARTIAL proof: guard theorem proved; set/walk/permutation theorems for every delta are open statements. Trusted: Lean kernel, hand-written model.",
        "level": "proof",
        "trusted_base": ["Model/Topo.lean: hand-written mirror of internal_edge(_sorted), internal_corner*, internal_edge_part*, external_edge_generic/struct"],
        "open_statements": ["internal_edge_set (every delta)", "internal_edge_walk", "internal_edge_sorted_perm (every delta)", "external_edge_set"],
        "assumptions": COMMON_ASSUME,
    },
    "C01": {
        "claim": "Theorems for every input of every numeric instance (every f64 bit pattern, NaN/inf included): the front end always yields a base cell < 12; a latitude failing -pi/2<=lat<=pi/2 (NaN included) is rejected; for every pair of bit patterns of h+l, h-l whose scaled truncations do not exceed nside (the code's debug assertion) the cell number is < 12*4^depth at every depth 1..29 (hash_range at Float). The whole hash_v2 (front end with libm calls as parameters + bit-level back end) is modelled and compared bit for bit with Layer::hash in dev and release builds: 30 depths x structured positions (40% on seams: meridians k*pi/4 +-ulps, transition latitude +-ulps, poles, cell centres/vertices/edge points of random cells +-ulps, lon in [-8pi,8pi], -0.0) + malformed latitudes. Oracle: point-in-diamond against an independent projection with tolerance 1e-9+2^d*2e-14 cell units, range, guards. Finding F8 (|lon|>=2pi) found this way and repaired.",
        "note": "PARTIAL proof: range/guard/base-cell theorems proved for all inputs; containment over the reals (hash_real_contains, the seam inequalities) is an open statement; rounding of libm and of the front-end products is not carried by proof (validated by oracle).",
        "level": "proof",
        "trusted_base": ["Model/Num.lean + Model/F64.lean: the numeric interface; at Float it mirrors the Rust operation sequence (Lean Float ops and glibc libm = Rust f64 methods, compared bit for bit on every run); Rust `as uN` casts and the exponent-bit trick are pure functions on bit patterns (F64.truncU, F64.expAdd)", "Model/Hash.lean: hand-written generic mirror of xpm1_and_q, d0h_lh_in_d0c, hash_v2"],
        "open_statements": ["hash_real_contains (over the reals)", "hash_real_contains_perturbed"],
        "assumptions": COMMON_ASSUME + ["glibc sin/cos as called by Lean's Float and by Rust's f64 agree bit for bit (checked on every run by the correspondence itself)"],
    },
    "C02": {
        "claim": "Theorem for EVERY pair of 64-bit patterns standing for h+l and h-l (negative, NaN, zero, subnormal or positive below 8), every base cell and every 1<=d<=d'<=29: the depth-d cell number is the depth-d' cell number shifted right by 2(d'-d) bits (backend_prefix), transported to hash_v2 at Float (hash_prefix: the front end takes no depth), plus depth 0 (base cell = top bits). No hypothesis on libm: the exponent-bit scaling commutes with truncation (F64 lemmas, all bit patterns), the nside->nside-1 clamp commutes with the shift, interleaving commutes with the shift (C18). The hypotheses (patterns small, scaled index <= nside) are evaluated by the model on every generated position and compared with 'ok'. Correspondence: hash at all 30 depths for each structured position; oracle: prefix relation on the implementation for all consecutive depth pairs.",
        "note": "Proof of the back end for all bit patterns under the code's own debug assertion; that the front end produces small patterns (|h+-l| < 8, never -0.0) is monitored on every run, not proved (it would need IEEE sign rules through sin/cos). Trusted: Lean kernel, F64 bit model of `as u32` and of the exponent trick (validated against the hardware through the correspondence).",
        "level": "proof",
        "trusted_base": ["Model/Num.lean + Model/F64.lean: the numeric interface; at Float it mirrors the Rust operation sequence (Lean Float ops and glibc libm = Rust f64 methods, compared bit for bit on every run); Rust `as uN` casts and the exponent-bit trick are pure functions on bit patterns (F64.truncU, F64.expAdd)"],
        "open_statements": ["frontend_small (|h+-l| < 8 and no -0.0 for every f64 position)"],
        "assumptions": COMMON_ASSUME,
    },
    "C17": {
        "claim": "Theorems for every input of every numeric instance: proj/unproj reject arguments outside [-pi/2,pi/2] / [-2,2] (NaN included); pm1_offset_decompose yields an offset in {1,3,5,7}; base_cell_from_proj_coo returns a base cell < 12 for EVERY pair of inputs (repaired behaviour of finding F10). proj, unproj, base_cell_from_proj_coo are modelled generically and compared bit for bit at Float in dev and release builds on structured positions and plane points (facet boundaries, |y|=1 +-ulps, towards the poles, x in {0,8,-8}, out of range). Oracles: independent Calabretta&Roukema formulae (cap seams identified), both round trips with the property's tolerances, sign of x, base cell = depth-0 hash away from borders and containment on borders.",
        "note": "PARTIAL proof: guards/range theorems proved for all inputs; proj=spec and the inverse laws over the reals are open statements; 1e-14 rad round-trip accuracy is validated by oracle only.",
        "level": "proof",
        "trusted_base": ["Model/Num.lean + Model/F64.lean: the numeric interface; at Float it mirrors the Rust operation sequence (Lean Float ops and glibc libm = Rust f64 methods, compared bit for bit on every run); Rust `as uN` casts and the exponent-bit trick are pure functions on bit patterns (F64.truncU, F64.expAdd)", "Model/Proj.lean: hand-written generic mirror of proj, unproj, base_cell_from_proj_coo and helpers"],
        "open_statements": ["proj_eq_spec", "unproj_proj", "proj_unproj", "base_cell_from_proj_coo_spec"],
        "assumptions": COMMON_ASSUME,
    },
    "C03": {
        "claim": "Theorems for every input of every numeric instance: every accessor (center_of_projected_cell, center, vertices, vertex, sph_coo, path_along_cell_edge, grid) rejects a cell number >= 12*4^depth; sph_coo rejects offsets outside [0,1) (NaN included); depth0_bits is structurally recursive (cannot loop). All accessors (center, center_of_projected_cell, vertices, vertex, sph_coo, hash_with_dxdy, path_along_cell_side/edge, grid) are modelled generically and compared bit for bit at Float: exhaustive cells to depth 3 (quick)/6 (thorough), corner/border/interior classes of the 12 base cells at all depths, 15k-300k structured positions. Oracles: hash(center)=h, hash(sph_coo)=h for interior offsets, path/grid points nudged inwards hash back, vertices agree across accessors as sphere points, hash_with_dxdy cell contains the position with offsets in [0,1] and sph_coo recovers it to 1e-13 rad, guards. Finding F11 (hash_with_dxdy on polar-cap seams/poles) is recorded as a known finding with an input classifier.",
        "note": "PARTIAL proof: guard theorems proved; the plane-geometry statements over the reals are open; float rounding validated by oracle. KNOWN FINDING F11 is reported as KNOWN-FINDING, any other failure as VIOLATION.",
        "level": "proof",
        "trusted_base": ["Model/Num.lean + Model/F64.lean: numeric interface; at Float it mirrors the Rust operation sequence (compared bit for bit on every run)", "Model/Hash.lean: hand-written generic mirror of the accessors and of hash_with_dxdy/depth0_bits"],
        "open_statements": ["center_plane_spec", "vertices_agree", "hash_with_dxdy_plane", "hash_center_real"],
        "assumptions": COMMON_ASSUME,
    },
    "C19": {
        "claim": "Theorems over the reals for the generic weight formulas instantiated at R (literals = exact values of the source doubles): in each of the 4 quadrants x {corner present, missing} the four weights sum to 1 (ring), are non-negative on their quadrant, weight 1 on the cell at its centre, a missing corner carries weight 0 in the corner slot, the cell itself is always a slot and the two other slots are ordinal directions (which always exist). bilinear_interpolation (hash_with_dxdy + neighbours + weights) is modelled and compared bit for bit (cells and weight bits) on 20k-400k structured positions plus the 24 cells lacking a cardinal neighbour x quadrants x interior/border offsets at every depth. Oracle: sum within 4 ulp of 1, non-negativity, membership in neighbours, cell present, centre weight, missing corner slot, grid mean.",
        "note": "Algebra proved exactly for all offsets; that the four cells are the right neighbours rests on C04 (partially proved) and on the correspondence; rounding of the float weights validated by oracle. Inherits known finding F11 of hash_with_dxdy on polar-cap seams.",
        "level": "proof",
        "trusted_base": ["Model/Num.lean + Model/F64.lean: numeric interface; at Float it mirrors the Rust operation sequence (compared bit for bit on every run)", "Lemmas/NumReal.lean: the exact instance (R) of the numeric interface"],
        "open_statements": ["bilinear_cells (needs C04 neighbours_complete)", "bilinear_mean"],
        "assumptions": COMMON_ASSUME,
    },
    "C16": {
        "claim": "Theorems on the table and decision tree REGENERATED from src/lib.rs on every run: the 30 limits are strictly decreasing (exact dyadic comparison) and are the values of the bit patterns the crate uses; for EVERY comparison function and table the unrolled binary search returns d<=29 with r<T[d] and (d=29 or not r<T[d+1]) whenever the guard passes (30 leaves, all f64 incl. NaN); the guard refuses exactly when has_best_starting_depth is false; depth-0 constants. ConstantsC2V::new, the three envelopes, the scalar/vector _with_radius variants (fmod, f64::max/min, debug assertions) are modelled generically and compared bit for bit. The geometric claims are MEASURED (labelled test): envelope >= true centre-to-farthest-vertex distance exhaustively to depth 5 (quick)/8 (thorough) and on border classes to depth 29; _with_radius against cells whose centre lies in the cone; thresholds recovered from the implementation by bisection = the table; rim witnesses for the 9-cell claim. Findings F7, F12, F13 recorded as known findings with classifiers.",
        "note": "PARTIAL: table/decision-tree logic proved (a swapped index or changed literal breaks the proof and the failing r is read off the branch); the spherical-geometry inequalities are not provable by this technique and are measured. Known findings are reported as KNOWN-FINDING lines.",
        "level": "proof",
        "trusted_base": ["translator/rs2lean.py: grammar of nested if/else-if over SMALLER_EDGE2OPEDGE_DIST[k] with integer leaves; f64 literals through Python's correctly rounded float()", "Model/C2V.lean: hand-written generic mirror of ConstantsC2V::new and the envelopes"],
        "open_statements": ["c2v_with_radius_is_sup", "envelopes dominate the true distance (geometry; measured)", "nine-cells claim (geometry; measured)"],
        "assumptions": COMMON_ASSUME,
    },
    "C20": {
        "claim": "Theorems by inductive invariant over the step relation of get_or_create (after the repair of F5), for ANY number of threads and ANY interleaving: the invariant holds initially and is preserved by every step (hence in every reachable state); the object is constructed at most once; a thread that returns has seen the initialised slot (unreachable!() is unreachable) and exactly one construction has happened; no deadlock while some thread has not returned. Tie to the code by histories: cfg-guarded yield points at the four points of both factories (layers and cell-size constants) let a harness-side scheduler replay schedules with real threads; ALL 256 two-thread schedules of length 8 plus random 3-9-thread schedules are replayed (one fresh slot per history, a new process every 59 histories) and the per-step observations (point reached / blocked, construction counter) are compared with the model's; an unscheduled 16-thread x 30-depth stress run compares hash/centre/neighbours/cone/c2v results and counters; cargo +nightly miri (8 seeds) in the thorough tier searches for a data race on the real code (it found F5 before the fix).",
        "note": "Proof of the protocol under stated assumptions: std::sync::Once as documented (mutual exclusion, blocking of late callers, happens-before), sequentially consistent steps; interleavings inside Once are not explored. Layer::new being a function of the depth only is tied by the correspondence of the layer constants through hash at all depths.",
        "level": "proof",
        "miri": True,
        "trusted_base": ["Model/Once.lean: hand-written state machine of the factory", "hooks in /repo (cfg(cdshealpix_verif)): construction counters, yield points", "std::sync::Once modelled by its documentation"],
        "open_statements": [],
        "assumptions": COMMON_ASSUME + ["sequential consistency of the modelled steps; Once gives release/acquire ordering"],
    },
    "C11": {
        "claim": "Theorems for every nside>=1 (power of two or not): polar ring i+1 holds 4(i+1) cells and caps + equatorial rings add up to exactly 12*nside^2; no index exceeds 2^63 for nside<=2^29; every accessor rejects a cell number >= 12*nside^2 and hash rejects a latitude outside [-pi/2,pi/2] (NaN included), for every numeric instance; over the reals dldh_to_dxdy maps the 1x1 box into [0,1)^2. ring::hash / hash_with_dxdy (1x1-box logic, u64 arithmetic with overflow-panic in dev and wrap-around in release), center_of_projected_cell (with the repaired ring index), center, sph_coo are modelled generically and compared bit for bit at Float for every nside 1..64 (quick)/1..300 (thorough) with all cells for small nside, plus primes/odd/huge values up to 2^29 on ring-boundary classes. Oracles: range, point-in-diamond against an independent projection, hash(center)=h with offsets (1/2,1/2), ring sizes 4i / 4nside, ordering, sph_coo inverts hash_with_dxdy, guards. Finding F3 (polar-cap seams) is a known finding with an input classifier.",
        "note": "PARTIAL proof: index-arithmetic/guard theorems proved for all nside; containment/centre theorems are open (and false on the seams on the unchanged tree: F3, reported as KNOWN-FINDING; any failure away from the seams is a VIOLATION).",
        "level": "proof",
        "trusted_base": ["Model/Ring.lean: hand-written generic mirror of ring::hash_with_dldh, deal_with_1x1_box, dldh_to_dxdy, center_of_projected_cell, sph_coo"],
        "open_statements": ["ring_hash_plane_range", "ring_hash_center", "ring_hash_contains", "ring_order"],
        "assumptions": COMMON_ASSUME,
    },
    "C15": {
        "claim": 'Theorems: each pack pass never lengthens the list, pack ends on a fixed point of the pass (a further pass merges nothing), to_lower_depth rejects new_depth>=depth_max. The fixed-depth builder is modelled as a state machine with explicit drain points and compared with the code for all push-sequence families x 9 capacities x 9 depths; pack/to_lower_depth on exhaustive universes and random trees; oracles check pushed-set equality, map preservation, no four full siblings, the lower-depth rule.',
        "note": 'PARTIAL proof: structural pack theorems proved; pack_sem/fixed_builder_sem/to_lower_depth_sem open. Trusted: Lean kernel, hand-written model, Vec capacity assumption.',
        "level": "proof",
        "trusted_base": ["Model/Bmoc.lean: pack (in-place compaction re-expressed as a pass function iterated to a fixed point), to_lower_depth, BMOCBuilderFixedDepth as a state machine",
                         "Vec::with_capacity(n) has capacity exactly n for u64 and n >= 1 (drain happens when len == n)",
                         "sort_unstable + dedup modelled as insertion sort + adjacent-duplicate removal"],
        "open_statements": ["pack_sem", "pack_wf", "pack_no_four_full", "fixed_builder_sem", "to_lower_depth_sem"],
        "assumptions": COMMON_ASSUME,
    },
}

HOOK_COMMITS = ["92c95dc"]

NOT_CLAIMED = {("C%02d" % i): "check not built yet in this round (the technique applies; see DESIGN.md section 5)" for i in range(1, 21)}
