"""Property-specific extra searches run by ./check (thorough tier or after a broken obligation)."""
import os, shutil, subprocess

MIRI_MAIN = r'''
use std::thread;
fn main() {
  let hs: Vec<_> = (0..3).map(|t| thread::spawn(move || {
    let mut v = Vec::new();
    for d in [3u8, 0, 7].iter() {
      let l = cdshealpix::nested::get_or_create(*d);
      let a = l.hash(0.1 * t as f64, 0.2);
      let b = cdshealpix::largest_center_to_vertex_distance(*d, 0.3, 0.2);
      v.push((l as *const _ as usize, a, b.to_bits()));
    }
    v
  })).collect();
  let rs: Vec<_> = hs.into_iter().map(|h| h.join().unwrap()).collect();
  for k in 0..3 { assert!(rs.iter().all(|r| r[k].0 == rs[0][k].0 && r[k].2 == rs[0][k].2)); }
  println!("miri-ok");
}
'''

def miri_c20(repo, seeds):
    """cargo +nightly miri on a 3-thread first-use program; returns (violations, notes)."""
    d = "/var/tmp/hpxverif-miri"
    shutil.rmtree(d, ignore_errors=True)
    os.makedirs(os.path.join(d, "src"))
    notes, viol = [], []
    try:
        with open(os.path.join(d, "Cargo.toml"), "w") as f:
            f.write('[package]\nname = "mi"\nversion = "0.1.0"\nedition = "2018"\n[workspace]\n[dependencies]\ncdshealpix = { path = "%s" }\n' % repo)
        lock = os.path.join(os.path.dirname(os.path.abspath(__file__)), "..", "harness", "Cargo.lock")
        shutil.copy(lock, os.path.join(d, "Cargo.lock"))
        with open(os.path.join(d, "src", "main.rs"), "w") as f:
            f.write(MIRI_MAIN)
        ok = 0
        for seed in seeds:
            env = dict(os.environ)
            env.update({"CARGO_NET_OFFLINE": "true", "MIRIFLAGS": "-Zmiri-seed=%d" % seed})
            p = subprocess.run(["cargo", "+nightly", "miri", "run", "--offline"], cwd=d, env=env, stdout=subprocess.PIPE,
                               stderr=subprocess.STDOUT, universal_newlines=True, errors="replace", timeout=1800)
            out = p.stdout or ""
            if "Undefined Behavior" in out:
                line = [l for l in out.split("\n") if "Undefined Behavior" in l][0]
                viol.append({"kind": "C20:miri", "input": "3 threads, first get_or_create of depths 3, 0, 7; -Zmiri-seed=%d" % seed,
                             "expected": "no undefined behaviour", "observed": line.strip()[:400]})
            elif "miri-ok" in out:
                ok += 1
            else:
                notes.append("miri seed %d: inconclusive (%s)" % (seed, out.strip().split("\n")[-1][:200]))
        notes.append("miri: %d/%d seeds ran clean" % (ok, len(seeds)))
    except Exception as e:
        notes.append("miri could not run: %s" % e)
    finally:
        shutil.rmtree(d, ignore_errors=True)
    return viol, notes
