//! Structured position generators shared by the float properties.
use crate::util::*;
use cdshealpix::nested::get_or_create;
use std::f64::consts::PI;

pub fn ulp_step(x: f64, k: i64) -> f64 {
  if x.is_nan() || x.is_infinite() { return x; }
  let b = x.to_bits() as i64;
  // monotone mapping of doubles to integers
  let m = if b < 0 { i64::MIN - b } else { b };
  let m2 = m.wrapping_add(k);
  let b2 = if m2 < 0 { i64::MIN - m2 } else { m2 };
  f64::from_bits(b2 as u64)
}

pub const TRANSITION_LATITUDE: f64 = 0.72972765622696636344_f64;

#[derive(Clone, Debug)]
pub struct Pos { pub lon: f64, pub lat: f64, pub class: &'static str }

fn clamp_lat(lat: f64) -> f64 { lat.max(-PI / 2.0).min(PI / 2.0) }

/// one structured position; about 40 % on seams
pub fn gen_pos(rng: &mut Rng) -> Pos {
  let r = rng.below(100);
  let turn = |rng: &mut Rng| -> f64 { if rng.chance(0.7) { 0.0 } else { (rng.below(9) as f64 - 4.0) * 2.0 * PI } };
  let ulps = |rng: &mut Rng| -> i64 { *rng.pick(&[0i64, 0, 1, -1, 2, -2, 7, -7]) };
  if r < 25 {
    // uniform on the sphere
    let z = 2.0 * rng.f01() - 1.0;
    Pos { lon: rng.f01() * 2.0 * PI + turn(rng), lat: z.asin(), class: "uniform" }
  } else if r < 37 {
    // meridians k*pi/4 (k in -32..=32), any latitude, +- ulps
    let k = rng.below(65) as f64 - 32.0;
    let lat = match rng.below(4) { 0 => (2.0 * rng.f01() - 1.0).asin(), 1 => ulp_step(TRANSITION_LATITUDE, ulps(rng)), 2 => -ulp_step(TRANSITION_LATITUDE, ulps(rng)), _ => (rng.f01() - 0.5) * 0.2 + if rng.chance(0.5) { 1.2 } else { -1.2 } };
    Pos { lon: ulp_step(k * PI / 4.0, ulps(rng)), lat: clamp_lat(lat), class: "meridian-k-pi/4" }
  } else if r < 45 {
    // transition latitude +- ulps, any longitude
    let s = if rng.chance(0.5) { 1.0 } else { -1.0 };
    Pos { lon: rng.f01() * 2.0 * PI + turn(rng), lat: s * ulp_step(TRANSITION_LATITUDE, ulps(rng)), class: "transition-latitude" }
  } else if r < 52 {
    // poles and their neighbourhood, equator, zeros
    let lat = *rng.pick(&[PI / 2.0, -PI / 2.0, 0.0, -0.0, 1e-300, -1e-300, 5e-324]);
    let lat = if rng.chance(0.5) && lat.abs() > 1.0 { lat - lat.signum() * 10f64.powf(-(rng.below(16) as f64)) * rng.f01() } else { lat };
    let lon = if rng.chance(0.3) { *rng.pick(&[0.0, -0.0, PI, 2.0 * PI, -PI]) } else { rng.f01() * 2.0 * PI + turn(rng) };
    Pos { lon, lat: clamp_lat(lat), class: "poles-equator-zeros" }
  } else if r < 90 {
    // points defined by a cell of a random depth: centre, vertices, points on the edges, +- ulps
    let depth = rng.below(30) as u8;
    let l = get_or_create(depth);
    let nh = 12u64 << (2 * depth as u32);
    let h = if rng.chance(0.3) { // base-cell border cells
      let n = 1u64 << depth; let b = rng.below(12);
      let (i, j) = match rng.below(4) { 0 => (0, rng.below(n)), 1 => (n - 1, rng.below(n)), 2 => (rng.below(n), 0), _ => (rng.below(n), n - 1) };
      let mut z = 0u64; for k in 0..depth as u64 { z |= ((i >> k) & 1) << (2 * k); z |= ((j >> k) & 1) << (2 * k + 1); }
      (b << (2 * depth as u32)) | z
    } else { rng.below(nh) };
    let (p, class): ((f64, f64), &'static str) = match rng.below(4) {
      0 => (l.center(h), "cell-centre"),
      1 => (l.vertices(h)[rng.below(4) as usize], "cell-vertex"),
      2 => { let pts = l.path_along_cell_edge(h, &cdshealpix::compass_point::Cardinal::S, false, 4); (pts[rng.below(pts.len() as u64) as usize], "cell-edge-point") }
      _ => { let dx = *rng.pick(&[0.0, 0.5, 0.25, 0.999999999, 1e-9]); let dy = rng.f01() * 0.999; (l.sph_coo(h, dx, dy), "cell-offset-point") }
    };
    Pos { lon: ulp_step(p.0, ulps(rng)) + turn(rng), lat: clamp_lat(ulp_step(p.1, ulps(rng))), class }
  } else {
    // negative longitudes and large longitudes in [-8pi, 8pi]
    let z = 2.0 * rng.f01() - 1.0;
    Pos { lon: (rng.f01() * 16.0 - 8.0) * PI, lat: z.asin(), class: "lon-in-[-8pi,8pi]" }
  }
}

/// malformed stream: latitudes outside [-pi/2, pi/2], NaN, infinities
pub fn gen_bad_pos(rng: &mut Rng) -> Pos {
  let lat = *rng.pick(&[PI / 2.0 + 1e-15, -PI / 2.0 - 1e-15, 2.0, -2.0, f64::NAN, f64::INFINITY, f64::NEG_INFINITY, 1e300, ulp_step(PI / 2.0, 1), ulp_step(-PI / 2.0, -1)]);
  Pos { lon: rng.f01() * 2.0 * PI, lat, class: "malformed-latitude" }
}

/// independent reference projection (Calabretta & Roukema 2007, H = 4, K = 3), x in [0, 8)
pub fn proj_ref(lon: f64, lat: f64) -> (f64, f64) {
  let mut x = lon * (4.0 / PI);
  x = x - 8.0 * (x / 8.0).floor();
  if x >= 8.0 { x -= 8.0; }
  let alat = lat.abs();
  if alat <= TRANSITION_LATITUDE {
    (x, 1.5 * lat.sin())
  } else {
    // sigma = sqrt(3 (1 - |sin lat|)) = sqrt(6) sin(pi/4 - |lat|/2)
    let sigma = 6f64.sqrt() * (PI / 4.0 - alat / 2.0).sin();
    let xc = 2.0 * (x / 2.0).floor() + 1.0;
    let xx = xc + (x - xc) * sigma;
    (xx, (2.0 - sigma) * lat.signum())
  }
}

pub fn fbits(x: f64) -> String { x.to_bits().to_string() }
