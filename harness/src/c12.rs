//! C12 (polygon coverage) and C13 (elliptical-cone coverage).
use crate::util::*;
use crate::pos::*;
use crate::bm::*;
use crate::c05::{dest, Cover, largest_c2v_of_depth};
use crate::c16::hav;
use cdshealpix::nested::get_or_create;
use cdshealpix::sph_geom::{Polygon, coo3d::{LonLat, Coo3D}};
use std::f64::consts::PI;

fn v3(p: (f64, f64)) -> [f64; 3] { [p.1.cos() * p.0.cos(), p.1.cos() * p.0.sin(), p.1.sin()] }
fn cross(a: [f64; 3], b: [f64; 3]) -> [f64; 3] { [a[1] * b[2] - a[2] * b[1], a[2] * b[0] - a[0] * b[2], a[0] * b[1] - a[1] * b[0]] }
fn dot(a: [f64; 3], b: [f64; 3]) -> f64 { a[0] * b[0] + a[1] * b[1] + a[2] * b[2] }

pub struct PolyIn { pub depth: u8, pub verts: Vec<(f64, f64)>, pub centre: (f64, f64), pub rho: f64, pub convex: bool, pub class: &'static str }

/// independent point-in-convex-polygon test: Some(inside) unless the point is within `margin` of an edge's great circle
fn inside_convex(poly: &PolyIn, p: (f64, f64), margin: f64) -> Option<bool> {
  // reference interior point: the normalised sum of the vertices (inside a convex polygon smaller than a hemisphere)
  let mut c = [0.0f64; 3];
  for v in &poly.verts { let u = v3(*v); c[0] += u[0]; c[1] += u[1]; c[2] += u[2]; }
  let nc = (c[0] * c[0] + c[1] * c[1] + c[2] * c[2]).sqrt(); c = [c[0] / nc, c[1] / nc, c[2] / nc];
  let q = v3(p);
  let n = poly.verts.len();
  let mut inside = true;
  for i in 0..n {
    let e = cross(v3(poly.verts[i]), v3(poly.verts[(i + 1) % n]));
    let (sc, sq) = (dot(e, c), dot(e, q));
    if sq.abs() < margin { return None; }
    if (sc > 0.0) != (sq > 0.0) { inside = false; }
  }
  // a point of the opposite hemisphere is outside (polygon radius < pi/2)
  if dot(c, q) <= 0.0 { return Some(false); }
  Some(inside)
}

pub fn gen_poly(rng: &mut Rng, thorough: bool) -> PolyIn {
  let depth = if rng.chance(0.25) { 12 + rng.below(18) as u8 } else { rng.below(if thorough { 12 } else { 10 }) as u8 };
  let cell = 1.0 / (1u64 << depth) as f64;
  let (rho, class) = match rng.below(5) { 0 => (cell * (1e-3 + rng.f01() * 0.5), "far-below-a-cell"), 1 => (cell * (0.5 + 6.0 * rng.f01()), "few-cells"), 2 => (0.02 + 0.27 * rng.f01(), "up-to-0.3-rad"), 3 => (0.3 + 0.45 * rng.f01(), "0.3-to-0.75-rad"), _ => (10f64.powf(-6.0 * rng.f01()) * 0.29, "log-uniform") };
  // keep the number of cells manageable
  let rho = if rho * (1u64 << depth) as f64 > 60.0 { 60.0 * cell * (0.3 + 0.7 * rng.f01()) } else { rho };
  let rho = rho.min(0.78);
  let cap_meridian = rng.chance(0.15) && rho < 0.6;
  let class = if cap_meridian { "polar-cap-on-a-meridian-k-pi/2" } else { class };
  let centre = loop {
    let mut p = gen_pos(rng);
    if cap_meridian {
      // polar caps, edges crossing lon = k pi/2 (lon = 0 included): the quarter-splitting code of the exact mode
      let lat = (0.75 + (PI / 2.0 - 0.06 - rho - 0.75) * rng.f01()) * if rng.chance(0.5) { 1.0 } else { -1.0 };
      let lon = rng.below(4) as f64 * PI / 2.0 + (2.0 * rng.f01() - 1.0) * rho * 0.8 / lat.cos();
      p = Pos { lon, lat, class: "cap-meridian" };
    }
    if p.lat.abs() + rho < PI / 2.0 - 0.05 { break (p.lon - 2.0 * PI * (p.lon / (2.0 * PI)).floor(), p.lat); }
  };
  // polygons crossing lon = 0 and base-cell seams come from the seam classes of gen_pos
  let n = 3 + rng.below(10) as usize;
  let convex = rng.chance(0.6);
  let mut az: Vec<f64> = (0..n).map(|_| rng.f01() * 2.0 * PI).collect();
  az.sort_by(|a, b| a.partial_cmp(b).unwrap());
  // spread: avoid nearly coincident azimuths
  for k in 0..n { az[k] = 2.0 * PI * (k as f64 + 0.15 + 0.7 * rng.f01()) / n as f64; }
  let mut verts: Vec<(f64, f64)> = az.iter().map(|&a| { let r = if convex { rho } else { rho * (0.35 + 0.65 * rng.f01()) }; let d = dest(centre, r, a); (d.0 - 2.0 * PI * (d.0 / (2.0 * PI)).floor(), d.1) }).collect();
  let mut class = class;
  let mut convex = convex;
  let mut centre = centre;
  let mut rho = rho;
  match rng.below(10) {
    0 => {
      // sliver: all vertices but one clustered at one end, the far one opposite (star-shaped w.r.t. the centre: azimuths
      // are monotone and every gap is below pi); the list is rotated so that the far vertex sits anywhere in it
      let back = 2.0 * PI * rng.f01();
      let m = 3 + rng.below(6) as usize;
      let mut v: Vec<(f64, f64)> = (0..m).map(|k| dest(centre, rho * (0.93 + 0.07 * rng.f01()), back + 0.25 * (k as f64 / m as f64 - 0.5))).collect();
      v.push(dest(centre, rho, back + PI));
      let r = rng.below(v.len() as u64) as usize;
      v.rotate_left(r);
      verts = v.into_iter().map(|d| (d.0 - 2.0 * PI * (d.0 / (2.0 * PI)).floor(), d.1)).collect();
      class = "sliver"; convex = false;
    }
    1 => {
      // grid-aligned: the four vertices of a HEALPix cell (shares longitudes bit for bit with cell corners of every depth)
      // at most 5 levels above the query depth (keeps the answer small)
      let dd = depth.saturating_sub(rng.below(6) as u8);
      let l = get_or_create(dd);
      let h = l.hash(centre.0, centre.1);
      let c = l.center(h);
      // "does not reach a pole": same margin as the other classes
      if l.vertices(h).iter().all(|v| v.1.abs() < PI / 2.0 - 0.05) {
        verts = l.vertices(h).to_vec();
        centre = c; rho = verts.iter().map(|v| hav(*v, c)).fold(0.0, f64::max) * (1.0 + 1e-9);
        class = "cell-vertices"; convex = true;
      }
    }
    _ => {}
  }
  if rng.chance(0.5) { verts.reverse(); }
  PolyIn { depth, verts, centre, rho, convex, class }
}

/// thin wedge in a polar cap: one vertex 0.1..0.25 rad from the pole on one side of a meridian k pi/2, two vertices
/// 0.3..0.5 rad further down on the other side: long edges crossing the meridian (lon = 0 for k = 0), the case in which the
/// exact mode splits an edge at the meridian
pub fn gen_wedge(rng: &mut Rng) -> PolyIn {
  let depth = 4 + rng.below(6) as u8;
  let south = rng.chance(0.5);
  let m = rng.below(4) as f64 * PI / 2.0;
  let side = if rng.chance(0.5) { 1.0 } else { -1.0 };
  let colat0 = 0.1 + 0.15 * rng.f01();
  let colat1 = colat0 + 0.3 + 0.15 * rng.f01();
  let l0 = m - side * (0.02 + 0.1 * rng.f01());
  let l1 = m + side * (0.05 + 0.08 * rng.f01());
  let l2 = m + side * (0.15 + 0.1 * rng.f01());
  let sg = if south { -1.0 } else { 1.0 };
  let norm = |l: f64| l - 2.0 * PI * (l / (2.0 * PI)).floor();
  let mut verts = vec![(norm(l0), sg * (PI / 2.0 - colat0)), (norm(l1), sg * (PI / 2.0 - colat1)), (norm(l2), sg * (PI / 2.0 - colat1))];
  if rng.chance(0.5) { verts.reverse(); }
  let (centre, rho) = enclosing_cone(&verts, None);
  PolyIn { depth, verts, centre, rho: rho * (1.0 + 1e-9), convex: true, class: "polar-cap-wedge-across-a-meridian" }
}

/// a small cone containing every vertex (hence the polygon, for radii below pi/2): the best of a few candidate centres
pub fn enclosing_cone(verts: &[(f64, f64)], given: Option<((f64, f64), f64)>) -> ((f64, f64), f64) {
  let mut cands: Vec<(f64, f64)> = Vec::new();
  let mut c = [0.0f64; 3];
  for v in verts { let u = v3(*v); c[0] += u[0]; c[1] += u[1]; c[2] += u[2]; }
  let ll = |c: [f64; 3]| -> (f64, f64) { let n = (c[0] * c[0] + c[1] * c[1] + c[2] * c[2]).sqrt(); let lon = c[1].atan2(c[0]); (if lon < 0.0 { lon + 2.0 * PI } else { lon }, (c[2] / n).max(-1.0).min(1.0).asin()) };
  cands.push(ll(c));
  // midpoint of the farthest pair
  let (mut bi, mut bj, mut bd) = (0, 0, -1.0);
  for i in 0..verts.len() { for j in i + 1..verts.len() { let d = hav(verts[i], verts[j]); if d > bd { bd = d; bi = i; bj = j; } } }
  let (a, b) = (v3(verts[bi]), v3(verts[bj]));
  cands.push(ll([a[0] + b[0], a[1] + b[1], a[2] + b[2]]));
  let mut best = given;
  for c in cands {
    let r = verts.iter().map(|v| hav(*v, c)).fold(0.0, f64::max);
    if best.map_or(true, |(_, br)| r < br) { best = Some((c, r)); }
  }
  best.unwrap()
}

pub fn poly_case(out: &mut Out, rng: &mut Rng, p: &PolyIn, exact: bool) {
  let l = get_or_create(p.depth);
  if std::env::var("HPX_TRACE").is_ok() { eprintln!("TRACE polygon depth={} exact={} rho={} verts={:?}", p.depth, exact, p.rho, p.verts); }
  let res = catch(|| l.polygon_coverage(&p.verts, exact));
  if std::env::var("HPX_TRACE").is_ok() { eprintln!("TRACE done coverage"); }
  if !exact {
    // the bounding cone that selects the start cells (private in the crate: through the verification hook)
    let bc = catch(|| cdshealpix::verif_hooks::polygon_bounding_cone(&p.verts));
    let mut rq = format!("bcone {}", p.verts.len());
    for v in &p.verts { rq.push_str(&format!(" {} {}", fbits(v.0), fbits(v.1))); }
    out.rec(&rq, &match bc { Some((a, b, c)) => format!("{} {} {}", fbits(a), fbits(b), fbits(c)), None => "panic".into() });
    // and it is a bounding cone: every vertex within its radius (to rounding)
    if let Some((a, b, c)) = bc {
      for v in &p.verts { if hav(*v, (a, b)) > c * (1.0 + 1e-9) + 1e-15 { out.violation("C12:bounding-cone", format!("vertices={:?}", p.verts), format!("vertex {:?} within the radius {:e}", v, c), format!("{:e}", hav(*v, (a, b)))); break; } }
    }
  }
  if exact {
    // the special points of every edge, as computed by the exact mode (private module: through the verification hook)
    let nv = p.verts.len();
    for k in 0..nv {
      let a = p.verts[(k + nv - 1) % nv]; let b = p.verts[k];
      let sp = catch(|| cdshealpix::verif_hooks::arc_special_points(a.0, a.1, b.0, b.1, 1.0e-14, 20));
      out.rec(&format!("asp {} {} {} {} {} 20", fbits(a.0), fbits(a.1), fbits(b.0), fbits(b.1), fbits(1.0e-14)),
              &match sp { None => "panic".into(), Some(v) => if v.is_empty() { "-".into() } else { v.iter().map(|q| format!("{} {}", fbits(q.0), fbits(q.1))).collect::<Vec<_>>().join(" ") } });
      out.stat("C12:arc_special_points");
    }
  }
  let mut req = format!("{} {} {}", if exact { "polygonx" } else { "polygon" }, p.depth, p.verts.len());
  for v in &p.verts { req.push_str(&format!(" {} {}", fbits(v.0), fbits(v.1))); }
  out.evaluations += 1;
  out.stat(&format!("C12:{}:{}:{}", if p.convex { "convex" } else { "star" }, p.class, if exact { "exact" } else { "approx" }));
  let inp = format!("depth={} exact={} convex={} centre=({}, {}) rho={:e} vertices={:?}", p.depth, exact, p.convex, p.centre.0, p.centre.1, p.rho, p.verts);
  let m = match res {
    None => { out.rec(&req, "panic"); let tag = if cfg!(debug_assertions) { ":debug" } else { "" };
      let tiny = if p.rho < 1e-7 { ":polygon-below-1e-7-rad" } else { "" };
      out.violation(&format!("C12:panic{}:{}{}", tag, last_panic_site(), tiny), inp, "a BMOC".into(), "panic".into()); return; }
    Some(m) => { out.rec(&req, &bmoc_line(&m)); m }
  };
  if let Err(e) = wf_raw(m.get_depth_max(), &m.entries) { out.violation("C12:not-wf", inp, "well-formed BMOC".into(), e); return; }
  let cover = Cover::new(&m).unwrap();
  // the cell of every polygon vertex
  for v in &p.verts {
    if let Some(h) = catch(|| l.hash(v.0, v.1)) { if cover.state(p.depth, h).is_none() { out.violation("C12:vertex-cell-missing", inp.clone(), format!("cell {} of vertex {:?}", h, v), format!("absent ({} entries)", m.entries.len())); return; } }
  }
  // "that cone": any cone the polygon fits in; the smallest one found is the sharpest instance of the claim
  let (tc, trho) = enclosing_cone(&p.verts, Some((p.centre, p.rho)));
  let take = if exact { m.entries.len().min(4000) } else { m.entries.len().min(150) };
  for k in 0..take {
    let e = m.entries[(k * m.entries.len() / take.max(1)).min(m.entries.len() - 1)];
    if let Some((d, h, full)) = decode_raw(e, m.get_depth_max()) {
      let ld = get_or_create(d);
      let cc = ld.center(h);
      if p.rho < 0.3 {
        let bound = trho * (1.0 + 1e-9) + 2.0 * largest_c2v_of_depth(d) * (1.0 + 1e-9) + 1e-12;
        // finding F19: below ~1e-7 rad the sign of (v_i x v_{i+1}) . p is rounding noise (|v_i x v_{i+1}| . distance < 1e-16)
        let tiny = if p.rho < 1e-7 { ":polygon-below-1e-7-rad" } else { "" };
        if hav(cc, tc) > bound { out.violation(&format!("C12:not-tight{}", tiny), inp.clone(), format!("centre within {:e} of the centre ({}, {}) of an enclosing cone of radius {:e}", bound, tc.0, tc.1, trho), format!("cell {}/{} at {:e}", d, h, hav(cc, tc))); return; }
      }
      if full && p.convex {
        let mut pts: Vec<(f64, f64)> = ld.vertices(h).to_vec(); pts.push(cc);
        for q in pts { if inside_convex(p, q, 1e-12) == Some(false) { out.violation("C12:full-cell-not-inside", inp.clone(), format!("vertices and centre of {}/{} inside the polygon", d, h), format!("({}, {}) is outside", q.0, q.1)); return; } }
      }
    }
  }
  // the public point-in-polygon predicate (convex, rho < 0.3)
  if p.convex && p.rho < 0.3 && !exact {
    let poly = catch(|| Polygon::new(p.verts.iter().map(|v| LonLat { lon: v.0, lat: v.1 }).collect::<Vec<_>>().into_boxed_slice()));
    if let Some(poly) = poly {
      for _ in 0..24 {
        let q = if rng.chance(0.7) { dest(p.centre, p.rho * 1.6 * rng.f01().sqrt(), 2.0 * PI * rng.f01()) } else { let z = 2.0 * rng.f01() - 1.0; (rng.f01() * 2.0 * PI, z.asin()) };
        let q = (q.0 - 2.0 * PI * (q.0 / (2.0 * PI)).floor(), q.1);
        // one point in three shares its longitude bit for bit with a vertex (the boundary case of the lon-range test)
        let q = if rng.chance(0.33) { let v = p.verts[rng.below(p.verts.len() as u64) as usize]; (v.0, (v.1 + (2.0 * rng.f01() - 1.0) * 2.5 * p.rho).max(-1.5).min(1.5)) } else { q };
        if let Some(want) = inside_convex(p, q, 1e-9) {
          let got = catch(|| poly.contains(&Coo3D::from_sph_coo(q.0, q.1)));
          out.rec(&format!("polycontains {} {} {}{}", fbits(q.0), fbits(q.1), p.verts.len(), p.verts.iter().map(|v| format!(" {} {}", fbits(v.0), fbits(v.1))).collect::<String>()), &match got { Some(b) => (b as u8).to_string(), None => "panic".into() });
          if got != Some(want) { out.violation("C12:contains", format!("{} point=({}, {})", inp, q.0, q.1), want.to_string(), format!("{:?}", got)); return; }
        }
      }
    }
  }
}

pub fn run_c12(out: &mut Out, rng: &mut Rng, thorough: bool) {
  for k in 0..(if thorough { 8000 } else { 1200 }) {
    let p = gen_poly(rng, thorough);
    let exact = k % 3 == 2 || (p.class.starts_with("polar-cap-on") && k % 3 == 1);
    poly_case(out, rng, &p, exact);
  }
  for k in 0..(if thorough { 1500 } else { 250 }) {
    let p = gen_wedge(rng);
    poly_case(out, rng, &p, k % 4 != 0);
  }
}

// ---------------------------------------------------------------------------------------------
// C13

pub fn ell_case(out: &mut Out, rng: &mut Rng, depth: u8, dd: u8, lon: f64, lat: f64, a: f64, b: f64, pa: f64, class: &str) {
  let l = get_or_create(depth);
  let res = catch(|| if dd == 0 { l.elliptical_cone_coverage(lon, lat, a, b, pa) } else { l.elliptical_cone_coverage_custom(dd, lon, lat, a, b, pa) });
  let req = format!("ellipse {} {} {} {} {} {} {}", depth, dd, fbits(lon), fbits(lat), fbits(a), fbits(b), fbits(pa));
  out.evaluations += 1;
  out.stat(&format!("C13:{}", class));
  out.stat(&format!("C13:delta{}", dd));
  let inp = format!("depth={} delta_depth={} lon={:e} ({}) lat={:e} ({}) a={:e} ({}) b={:e} ({}) pa={:e} ({}) class={}", depth, dd, lon, fbits(lon), lat, fbits(lat), a, fbits(a), b, fbits(b), pa, fbits(pa), class);
  let m = match res {
    None => {
      out.rec(&req, "panic");
      if a >= PI / 2.0 { return; } // the guard
      const LSC: f64 = 0.39934019947897773410_f64;
      let (lmax, lmin) = (lat.abs() + a, lat.abs() - a);
      let neg = lon < 0.0 || lon % (PI / 2.0) < 0.0;
      let f7 = cfg!(debug_assertions) && ((lmax < TRANSITION_LATITUDE && lmin < LSC && lmax > LSC) || (neg && lmax >= TRANSITION_LATITUDE));
      out.violation(&format!("C13:panic{}", if f7 { ":debug:c2v-debug-assert" } else { "" }), inp, "a BMOC".into(), "panic".into());
      return;
    }
    Some(m) => { out.rec(&req, &bmoc_line(&m)); m }
  };
  if a >= PI / 2.0 { out.violation("C13:no-guard", inp, "panic".into(), format!("{} entries", m.entries.len())); return; }
  if let Err(e) = wf_raw(m.get_depth_max(), &m.entries) { out.violation("C13:not-wf", inp, "well-formed BMOC".into(), e); return; }
  let cover = Cover::new(&m).unwrap();
  let polar = if lat.abs() + a >= TRANSITION_LATITUDE { ":polar-cap" } else { "" };
  let lonr = lon - 2.0 * PI * (lon / (2.0 * PI)).floor();
  if let Some(h) = catch(|| l.hash(lonr, lat)) { if cover.state(depth, h).is_none() { out.violation("C13:centre-cell-missing", inp.clone(), format!("cell {}", h), format!("absent ({} entries)", m.entries.len())); return; } }
  let take = m.entries.len().min(150);
  for k in 0..take {
    let e = m.entries[(k * m.entries.len() / take.max(1)).min(m.entries.len() - 1)];
    if let Some((d, h, _)) = decode_raw(e, m.get_depth_max()) {
      let cc = get_or_create(d).center(h);
      let bound = a + 2.0 * largest_c2v_of_depth(d) * (1.0 + 1e-9) + 1e-12;
      if hav(cc, (lon, lat)) > bound { out.violation("C13:not-tight", inp.clone(), format!("centre within {:e}", bound), format!("cell {}/{} at {:e}", d, h, hav(cc, (lon, lat)))); return; }
    }
  }
  if a == b {
    // circular case: every cell touched by the cone of radius a
    let rr = (a * (1.0 - 1e-9) - 1e-12).max(0.0);
    let mut wit = vec![(lon, lat)];
    for k in 0..48 { wit.push(dest((lon, lat), rr * 0.999, 2.0 * PI * k as f64 / 48.0)); }
    for _ in 0..48 { wit.push(dest((lon, lat), rr * rng.f01().sqrt(), 2.0 * PI * rng.f01())); }
    for w in wit {
      let wl = w.0 - 2.0 * PI * (w.0 / (2.0 * PI)).floor();
      if let Some(h) = catch(|| l.hash(wl, w.1)) {
        if cover.state(depth, h).is_none() && hav(w, (lon, lat)) <= rr - 1e-6 * largest_c2v_of_depth(depth) {
          out.violation(&format!("C13:circular-miss{}", polar), inp.clone(), format!("cell {} (contains ({}, {}), {:e} rad from the centre)", h, w.0, w.1, hav(w, (lon, lat))), format!("absent ({} entries)", m.entries.len())); return;
        }
      }
    }
  }
}

pub fn run_c13(out: &mut Out, rng: &mut Rng, thorough: bool) {
  for _ in 0..(if thorough { 10_000 } else { 1_500 }) {
    // all depths: 0..12 mostly, the deep ones (13..29) with radii of a few cells (the cap below keeps the cell count small)
    let depth = if rng.chance(0.3) { 13 + rng.below(17) as u8 } else { rng.below(if thorough { 13 } else { 11 }) as u8 };
    let dd = if rng.chance(0.35) && depth < 29 { rng.below(4.min(30 - depth as u64)) as u8 } else { 0 };
    let p = loop { let p = gen_pos(rng); if p.lat.abs() <= PI / 2.0 { break p; } };
    let cell = 1.0 / (1u64 << depth) as f64;
    let (mut a, class) = match rng.below(6) { 0 => (10f64.powf(-8.0 * rng.f01()) * (PI / 2.0), "a-log-uniform"), 1 => (cell * (0.05 + 4.0 * rng.f01()), "a-about-cell-size"), 2 => (cell * 30.0 * rng.f01() + 1e-9, "a-few-cells"), 3 => (0.5 + rng.f01() * (PI / 2.0 - 0.5) * 0.999, "a-large"), 4 => { let t = crate::c05::thresholds(); (t[rng.below(30) as usize] * (0.95 + 0.1 * rng.f01()), "a-near-table-entry") }, _ => (*rng.pick(&[PI / 2.0, PI / 2.0 + 0.1, ulp_step(PI / 2.0, -1), 2.0]), "guard") };
    let nside_deep = (1u64 << (depth + dd)) as f64;
    if a < PI / 2.0 && 14.0 * a * nside_deep > 2e4 { a = 2e4 / (14.0 * nside_deep) * (0.2 + 0.8 * rng.f01()); }
    let b = match rng.below(4) { 0 => a, 1 => a * rng.f01().max(1e-3), 2 => a * 10f64.powf(-3.0 * rng.f01()), _ => a * (0.5 + 0.5 * rng.f01()) };
    let pa = rng.f01() * PI;
    let lon = if rng.chance(0.85) { p.lon - 2.0 * PI * (p.lon / (2.0 * PI)).floor() } else { p.lon };
    // the guard is tested at depths 0..2: if it were missing the answer would still be small
    // (shallow depths, every delta_depth 0..3: the custom variant computes at depth + delta_depth through another layer)
    let (depth, dd) = if a >= PI / 2.0 * (1.0 - 1e-9) { (depth % 3, (rng.below(4) as u8).min(3)) } else { (depth, dd) };
    // one ellipse in eight is centred bit for bit on a cell centre of the layer (or of the deeper layer) with b well
    // below the cell size: the branch of overlap_cone where the projected centre is (0, 0)
    if a < PI / 2.0 && rng.chance(0.125) {
      let l = get_or_create(depth + if rng.chance(0.3) { dd } else { 0 });
      if p.lat.abs() <= PI / 2.0 {
        let c = l.center(l.hash(lon.rem_euclid(2.0 * PI), p.lat));
        let cell = 1.0 / (1u64 << depth) as f64;
        let a2 = if rng.chance(0.6) { cell * (0.02 + 0.4 * rng.f01()) } else { a };
        let b2 = a2 * *rng.pick(&[1.0, 0.5, 0.1, 1e-2, 1e-3]);
        ell_case(out, rng, depth, dd, c.0, c.1, a2, b2.max(1e-12), pa, "centre-on-a-cell-centre");
        continue;
      }
    }
    ell_case(out, rng, depth, dd, lon, p.lat, a, b.max(1e-12), pa, class);
  }
}
