//! C05 (cone coverage never misses) and C06 (flags truthful, coverage tight, packed, all-sky).
use crate::util::*;
use crate::pos::*;
use crate::bm::*;
use crate::c16::{hav, true_c2v};
use cdshealpix::nested::{get_or_create, bmoc::BMOC};
use std::f64::consts::PI;

/// destination point at angular distance `d` and azimuth `az` from `p`
pub fn dest(p: (f64, f64), d: f64, az: f64) -> (f64, f64) {
  let lat2 = (p.1.sin() * d.cos() + p.1.cos() * d.sin() * az.cos()).max(-1.0).min(1.0).asin();
  let lon2 = p.0 + (az.sin() * d.sin() * p.1.cos()).atan2(d.cos() - p.1.sin() * lat2.sin());
  (lon2, lat2)
}

/// intervals (at depth 29) of a BMOC, for membership tests
pub struct Cover { pub iv: Vec<Iv> }
impl Cover {
  pub fn new(m: &BMOC) -> Option<Cover> { intervals_of_raw(m.get_depth_max(), &m.entries).map(|iv| Cover { iv }) }
  /// state of the cell `h` of `depth`: Some(state) if an entry is an ancestor-or-self
  pub fn state(&self, depth: u8, h: u64) -> Option<u8> {
    let s = 2 * (29 - depth as u32);
    let (lo, hi) = (h << s, (h + 1) << s);
    let k = self.iv.partition_point(|x| x.1 <= lo);
    if k < self.iv.len() && self.iv[k].0 <= lo && hi <= self.iv[k].1 { Some(self.iv[k].2) } else { None }
  }
}

/// largest centre-to-vertex distance over all cells of a depth: exhaustive up to depth 5, then scaled (x 1.02)
pub fn largest_c2v_of_depth(depth: u8) -> f64 {
  use std::sync::Mutex;
  static CACHE: Mutex<Vec<f64>> = Mutex::new(Vec::new());
  let mut c = CACHE.lock().unwrap();
  if c.is_empty() {
    for d in 0..=5u8 { let nh = 12u64 << (2 * d as u32); let mut m = 0.0f64; for h in 0..nh { m = m.max(true_c2v(d, h)); } c.push(m); }
  }
  if (depth as usize) < c.len() { c[depth as usize] } else { c[5] * 1.02 / (1u64 << (depth - 5)) as f64 }
}

pub struct ConeIn { pub depth: u8, pub dd: u8, pub lon: f64, pub lat: f64, pub r: f64, pub class: &'static str }

pub fn cone_case(out: &mut Out, rng: &mut Rng, c: &ConeIn, prop: &str) {
  let l = get_or_create(c.depth);
  let res = catch(|| if c.dd == 0 { l.cone_coverage_approx(c.lon, c.lat, c.r) } else { l.cone_coverage_approx_custom(c.dd, c.lon, c.lat, c.r) });
  let req = format!("cone {} {} {} {} {}", c.depth, c.dd, fbits(c.lon), fbits(c.lat), fbits(c.r));
  out.evaluations += 1;
  out.stat(&format!("{}:{}", prop, c.class));
  out.stat(&format!("{}:depth{:02}+{}", prop, c.depth, c.dd));
  let inp = format!("depth={} delta_depth={} lon={:e} ({}) lat={:e} ({}) radius={:e} ({}) class={}", c.depth, c.dd, c.lon, fbits(c.lon), c.lat, fbits(c.lat), c.r, fbits(c.r), c.class);
  let neg_lon_cap = c.lon < 0.0 || c.lon % (PI / 2.0) < 0.0;
  // findings F12 / F13 concern cones that overlap a polar cap
  let polar = if c.lat.abs() + c.r >= TRANSITION_LATITUDE { ":polar-cap" } else { "" };
  let m = match res {
    None => {
      out.rec(&req, "panic");
      // finding F7: debug assertions of the cell-size helpers
      let tag = if cfg!(debug_assertions) { ":debug" } else { "" };
      const LSC: f64 = 0.39934019947897773410_f64;
      let (lmax, lmin) = (c.lat.abs() + c.r, c.lat.abs() - c.r);
      // F7: the straddling branch of the cell-size helper; negative `lon % (pi/2)` in the polar-cap helper
      let f7 = cfg!(debug_assertions) && ((lmax < TRANSITION_LATITUDE && lmin < LSC && lmax > LSC) || (neg_lon_cap && lmax >= TRANSITION_LATITUDE));
      out.violation(&format!("{}:panic{}{}", prop, tag, if f7 { ":c2v-debug-assert" } else { "" }), inp, "a BMOC".into(), "panic".into());
      return;
    }
    Some(m) => { out.rec(&req, &bmoc_line(&m)); m }
  };
  if let Err(e) = wf_raw(m.get_depth_max(), &m.entries) { out.violation(&format!("{}:not-wf", prop), inp, "well-formed BMOC".into(), e); return; }
  // the flat variant (same query, cells of the requested depth in increasing order): every entry expanded to its
  // descendants at the requested depth, computed here independently of BMOC::to_flat_array
  if prop == "C05" && c.dd == 0 {
    let dm = m.get_depth_max();
    let mut want: Vec<u64> = Vec::new();
    let mut small = true;
    for e in m.entries.iter() {
      if let Some((d, h, _)) = decode_raw(*e, dm) { let sh = 2 * (dm - d) as u32; if want.len() as u64 + (1u64 << sh) > 50_000 { small = false; break; } for k in 0..(1u64 << sh) { want.push((h << sh) | k); } }
    }
    if small {
      let flat = catch(|| cdshealpix::nested::cone_coverage_approx_flat(c.depth, c.lon, c.lat, c.r).to_vec());
      out.stat("C05:flat-variant");
      if flat.as_ref() != Some(&want) { out.violation("C05:flat-variant", inp.clone(), format!("{} cells: the entries of cone_coverage_approx expanded to the requested depth", want.len()), match &flat { None => "panic".into(), Some(v) => format!("{} cells, first difference at index {:?}", v.len(), v.iter().zip(want.iter()).position(|(a, b)| a != b)) }); }
    }
  }
  let cover = Cover::new(&m).unwrap();
  let centre = (c.lon, c.lat);
  if prop == "C05" {
    // witnesses: points strictly inside the cone (margin 1e-12) must have their cell covered
    let mut wit: Vec<(f64, f64)> = vec![centre];
    let rr = (c.r * (1.0 - 1e-9) - 1e-12).max(0.0).min(PI);
    for k in 0..64 { wit.push(dest(centre, rr * 0.999, 2.0 * PI * k as f64 / 64.0)); }
    for _ in 0..64 { wit.push(dest(centre, rr * rng.f01().sqrt(), 2.0 * PI * rng.f01())); }
    // centres and vertices of cells next to the reported region that lie inside the cone
    let deep = get_or_create(c.depth);
    let take = m.entries.len().min(40);
    for k in 0..take {
      let e = m.entries[(k * m.entries.len() / take.max(1)).min(m.entries.len() - 1)];
      if let Some((d, h, _)) = decode_raw(e, m.get_depth_max()) {
        let hd = h << (2 * (c.depth - d) as u32);
        if let Some(nb) = catch(|| deep.neighbours(hd, false)) { for x in nb.values_vec() { let cc = deep.center(x); if hav(cc, centre) <= rr { wit.push(cc); } for v in deep.vertices(x).iter() { if hav(*v, centre) <= rr { wit.push(*v); } } } }
      }
    }
    for w in wit {
      if hav(w, centre) > rr { continue; }
      let wl = w.0 - 2.0 * PI * (w.0 / (2.0 * PI)).floor();
      if let Some(h) = catch(|| deep.hash(wl, w.1)) {
        if cover.state(c.depth, h).is_none() {
          // a point within rounding distance of a cell border may be hashed to the neighbouring cell: accept if a
          // neighbouring cell containing the point (distance to its centre) is covered -- no: report only clear misses
          let cc = deep.center(h);
          let margin = true_c2v(c.depth, h) * 1e-6;
          if hav(w, centre) <= rr - margin { out.violation(&format!("C05:miss{}", polar), inp.clone(), format!("cell {} of depth {} (contains ({}, {}), {:e} rad from the centre)", h, c.depth, w.0, w.1, hav(w, centre)), format!("absent ({} entries); cell centre {:?}", m.entries.len(), cc)); return; }
        }
      }
    }
  } else {
    // C06
    if c.r >= PI {
      let ok = m.entries.len() == 12 && (0..12).all(|k| decode_raw(m.entries[k], m.get_depth_max()) == Some((0, k as u64, true)));
      if !ok { out.violation("C06:allsky", inp.clone(), "12 full base cells".into(), bmoc_line(&m)); }
    }
    if !packed_raw(m.get_depth_max(), &m.entries) { out.violation("C06:not-packed", inp.clone(), "no four full siblings".into(), format!("{} entries", m.entries.len())); }
    let take = m.entries.len().min(200);
    for k in 0..take {
      let e = m.entries[(k * m.entries.len() / take.max(1)).min(m.entries.len() - 1)];
      if let Some((d, h, full)) = decode_raw(e, m.get_depth_max()) {
        let ld = get_or_create(d);
        let cc = ld.center(h);
        let c2v = largest_c2v_of_depth(d);
        if hav(cc, centre) > c.r + 2.0 * c2v * (1.0 + 1e-9) + 1e-12 { out.violation("C06:not-tight", inp.clone(), format!("centre within r + 2*c2v = {:e}", c.r + 2.0 * c2v), format!("cell {}/{} at {:e}", d, h, hav(cc, centre))); return; }
        if full {
          let mut pts: Vec<(f64, f64)> = ld.vertices(h).to_vec();
          pts.extend(ld.path_along_cell_edge(h, &cdshealpix::compass_point::Cardinal::S, false, 8).iter().cloned());
          pts.push(cc);
          for p in pts { if hav(p, centre) > c.r * (1.0 + 1e-9) + 1e-12 { out.violation(&format!("C06:full-cell-not-inside{}", polar), inp.clone(), format!("every point of {}/{} within {:e}", d, h, c.r), format!("({}, {}) at {:e}", p.0, p.1, hav(p, centre))); return; } }
        }
      }
    }
  }
}

pub fn gen_cone(rng: &mut Rng, thorough: bool, thresholds: &[f64]) -> ConeIn {
  let dmax = if thorough { 14 } else { 11 };
  // every depth: mostly 0..dmax, one case in four at the deep depths (the cap below keeps the answer small)
  let depth = if rng.chance(0.25) { (dmax + 1 + rng.below(29 - dmax)) as u8 } else { rng.below(dmax + 1) as u8 };
  let dd = if rng.chance(0.4) { rng.below(4.min(29 - depth as u64) + 1) as u8 } else { 0 };
  let p = loop { let p = gen_pos(rng); if p.lat.abs() <= PI / 2.0 { break p; } };
  let cellsize = 1.0 / (1u64 << depth) as f64;
  let (r, class) = match rng.below(6) {
    0 => (10f64.powf(-9.0 * rng.f01()) * PI, "radius-log-uniform"),
    1 => { let k = rng.below(30) as usize; (thresholds[k] * (0.95 + 0.1 * rng.f01()), "radius-near-table-entry") }
    2 => (PI / 2.0 + rng.f01() * (PI / 2.0), "radius>pi/2"),
    3 => (cellsize * (0.05 + 3.0 * rng.f01()), "radius-about-cell-size"),
    4 => (*rng.pick(&[PI, PI * 1.5, ulp_step(PI, -1), 0.8410686705685088, ulp_step(0.8410686705685088, -1)]), "radius-special"),
    _ => (cellsize * 20.0 * rng.f01() + 1e-9, "radius-few-cells"),
  };
  // keep the number of cells of the answer manageable
  // keep the answer below about 3e4 entries: the border of a cone of radius r holds about 14 r nside cells
  let nside_deep = (1u64 << (depth + dd)) as f64;
  let r = if r < PI && 14.0 * r * nside_deep > 3e4 { 3e4 / (14.0 * nside_deep) * (0.2 + 0.8 * rng.f01()) } else { r };
  let lon = if rng.chance(0.8) { p.lon - 2.0 * PI * (p.lon / (2.0 * PI)).floor() } else { p.lon };
  ConeIn { depth, dd, lon, lat: p.lat, r, class }
}

pub fn thresholds() -> Vec<f64> {
  vec![0.8410686705685088, 0.37723631722170053, 0.18256386461918295, 0.09000432499034523, 0.04470553761855741, 0.02228115704023076,
       0.011122977211214961, 0.005557125022105058, 0.0027774761500209185, 0.0013884670480328143, 6.941658374603201E-4, 3.4706600585087755E-4,
       1.7352877579970442E-4, 8.676333125510362E-5, 4.338140148342286E-5, 2.1690634707822447E-5, 1.084530084565172E-5, 5.422646295795749E-6,
       2.711322116099695E-6, 1.3556608000873442E-6, 6.778303355805395E-7, 3.389151516386149E-7, 1.69457571754776E-7, 8.472878485272006E-8,
       4.236439215502565E-8, 2.1182195982014308E-8, 1.0591097960375205E-8, 5.295548939447981E-9, 2.647774429917369E-9, 1.3238871881399636E-9]
}

pub fn run(out: &mut Out, rng: &mut Rng, thorough: bool, prop: &str) {
  let th = thresholds();
  for _ in 0..(if thorough { 12_000 } else { 2_000 }) {
    let c = gen_cone(rng, thorough, &th);
    cone_case(out, rng, &c, prop);
  }
}
