//! C15: builders (fixed-depth builder, pack, to_lower_depth) and C09: well-formedness + views.
use crate::util::*;
use crate::bm::*;
use crate::pos::fbits;
use cdshealpix::nested::bmoc::*;

fn opt_bmoc_line(m: &Option<Option<BMOC>>) -> String {
  match m { None => "panic".into(), Some(None) => "none".into(), Some(Some(b)) => bmoc_line(b) }
}

pub fn fixed_case(out: &mut Out, depth: u8, full: bool, cap: usize, pushes: &[u64], family: &str) {
  let r = catch(|| {
    let mut b = BMOCBuilderFixedDepth::with_capacity(depth, full, cap);
    for &h in pushes { b.push(h); }
    b.to_bmoc()
  });
  let mut req = format!("fixed {} {} {} {}", depth, full as u8, cap, pushes.len());
  for h in pushes { req.push(' '); req.push_str(&h.to_string()); }
  out.rec(&req, &opt_bmoc_line(&r));
  out.evaluations += 1;
  out.stat(&format!("C15:fixed:{}", family));
  let short = if req.len() > 600 { format!("{}…", &req[..600]) } else { req.clone() };
  match r {
    None => out.violation("C15:fixed:panic", short, "a BMOC".into(), "panic".into()),
    Some(None) => if !pushes.is_empty() { out.violation("C15:fixed:none", short, "Some(BMOC)".into(), "None".into()); },
    Some(Some(m)) => {
      if pushes.is_empty() { out.violation("C15:fixed:some-on-empty", short.clone(), "None".into(), bmoc_line(&m)); }
      if let Err(e) = wf_raw(m.get_depth_max(), &m.entries) { out.violation("C15:fixed:not-wf", short, "well-formed".into(), e); return; }
      let mut set: Vec<u64> = pushes.to_vec();
      set.sort_unstable(); set.dedup();
      let want = normalize(intervals_of_cells(&set.iter().map(|&h| (depth, h, full)).collect::<Vec<_>>()));
      let got = normalize(intervals_of_raw(m.get_depth_max(), &m.entries).unwrap());
      if m.get_depth_max() != depth { out.violation("C15:fixed:depth_max", short.clone(), depth.to_string(), m.get_depth_max().to_string()); }
      if got != want {
        out.violation("C15:fixed:wrong", short, format!("{} intervals, first {:?}", want.len(), want.first()), format!("{} intervals, first {:?}", got.len(), got.first()));
      }
    }
  }
}

pub fn pack_case(out: &mut Out, b: &B, tag: &str) {
  let unpacked = to_impl(b);
  let r = catch(|| {
    let mut builder = BMOCBuilderUnsafe::new(b.dmax, b.cells.len().max(1));
    for &(d, h, f) in &b.cells { builder.push(d, h, f); }
    builder.to_bmoc_packing()
  });
  let req = format!("pack {}", bmoc_line(&unpacked));
  out.evaluations += 1;
  out.stat(&format!("C15:pack:{}", tag));
  match r {
    None => { out.rec(&req, "panic"); out.violation("C15:pack:panic", req, "a BMOC".into(), "panic".into()); }
    Some(m) => {
      out.rec(&req, &bmoc_line(&m));
      if let Err(e) = wf_raw(m.get_depth_max(), &m.entries) { out.violation("C15:pack:not-wf", req, "well-formed".into(), e); return; }
      let want = normalize(intervals_of_cells(&b.cells));
      let got = normalize(intervals_of_raw(m.get_depth_max(), &m.entries).unwrap());
      if got != want { out.violation("C15:pack:changed-map", req.clone(), "same cell-to-state map".into(), bmoc_line(&m)); }
      if !packed_raw(m.get_depth_max(), &m.entries) { out.violation("C15:pack:four-full-siblings", req, "no four full siblings".into(), bmoc_line(&m)); }
    }
  }
}

pub fn lower_case(out: &mut Out, b: &B, nd: u8, packing: bool) {
  let input = to_impl(b);
  let r = catch(|| {
    let mut builder = BMOCBuilderUnsafe::new(b.dmax, b.cells.len().max(1));
    for &(d, h, f) in &b.cells { builder.push(d, h, f); }
    if packing { builder.to_lower_depth_bmoc_packing(nd) } else { builder.to_lower_depth_bmoc(nd) }
  });
  let req = format!("lower {} {} {}", nd, packing as u8, bmoc_line(&input));
  out.evaluations += 1;
  out.stat(if packing { "C15:lower:packing" } else { "C15:lower:plain" });
  match r {
    None => {
      out.rec(&req, "panic");
      if nd < b.dmax { out.violation("C15:lower:panic", req, "a BMOC".into(), "panic".into()); }
    }
    Some(m) => {
      out.rec(&req, &bmoc_line(&m));
      if nd >= b.dmax { out.violation("C15:lower:no-guard", req, "panic".into(), bmoc_line(&m)); return; }
      if m.get_depth_max() != nd { out.violation("C15:lower:depth_max", req.clone(), nd.to_string(), m.get_depth_max().to_string()); }
      if let Err(e) = wf_raw(m.get_depth_max(), &m.entries) { out.violation("C15:lower:not-wf", req, "well-formed".into(), e); return; }
      let w = 1u64 << (2 * (29 - nd as u32));
      let inp = intervals_of_cells(&b.cells);
      // presence: input intervals rounded outwards to the grid of depth nd
      let rounded: Vec<Iv> = inp.iter().map(|&(s, e, _)| (s / w * w, (e + w - 1) / w * w, 1u8)).collect();
      let mut merged: Vec<Iv> = Vec::new();
      for x in rounded { if let Some(l) = merged.last_mut() { if x.0 <= l.1 { if x.1 > l.1 { l.1 = x.1; } continue; } } merged.push(x); }
      let got = intervals_of_raw(m.get_depth_max(), &m.entries).unwrap();
      let got_presence = normalize(got.iter().map(|&(s, e, _)| (s, e, 1u8)).collect());
      if got_presence != normalize(merged) {
        out.violation("C15:lower:presence", req.clone(), "coarse cell kept iff it contained something".into(), bmoc_line(&m));
      }
      // a full result cell must be entirely covered by full input cells
      let full_in = normalize(inp.iter().filter(|x| x.2 == 2).cloned().collect());
      for &(s, e, st) in &got {
        if st == 2 && !full_in.iter().any(|f| f.0 <= s && e <= f.1) {
          out.violation("C15:lower:full-flag", req.clone(), "full only if entirely covered by full cells".into(), format!("[{}, {}) in {}", s, e, bmoc_line(&m)));
          break;
        }
      }
    }
  }
}

pub fn run_c15(out: &mut Out, rng: &mut Rng, thorough: bool) {
  let caps = [1usize, 2, 3, 4, 5, 7, 16, 17, 1000];
  let depths = [0u8, 1, 2, 3, 5, 8, 12, 20, 29];
  let reps = if thorough { 60 } else { 6 };
  for &depth in &depths {
    let n = 12u64 << (2 * depth as u32);
    for &cap in &caps {
      for rep in 0..reps {
        let full = rng.chance(0.7);
        // families
        let len = 1 + rng.below(if depth == 0 { 12 } else { 90 }) as usize;
        let start = rng.below(n);
        // sorted run, aligned or not on 4^k boundaries
        let k = rng.below(depth.min(4) as u64 + 1) as u32;
        let aligned = (start >> (2 * k)) << (2 * k);
        let run = |s: u64, l: usize| -> Vec<u64> { (0..l as u64).map(|i| (s + i) % n).filter(|&h| h >= s || true).collect() };
        let mut sorted_run = run(aligned, len); sorted_run.sort_unstable(); sorted_run.dedup();
        fixed_case(out, depth, full, cap, &sorted_run, "run-aligned");
        let mut mis = run(aligned + 1 + rng.below(3), len); mis.sort_unstable(); mis.dedup();
        fixed_case(out, depth, full, cap, &mis, "run-misaligned");
        // run lengths 4^k - 1, 4^k, 4^k + 1
        for &dl in &[-1i64, 0, 1] {
          let l = ((1i64 << (2 * k)) + dl).max(1) as usize;
          let mut r = run(aligned, l.min(n as usize)); r.sort_unstable(); r.dedup();
          fixed_case(out, depth, full, cap, &r, "run-4k+-1");
        }
        let mut rev = sorted_run.clone(); rev.reverse();
        fixed_case(out, depth, full, cap, &rev, "reversed");
        // shuffled with duplicates
        let mut sh: Vec<u64> = Vec::new();
        for _ in 0..len { let base = start + rng.below(40); sh.push(base % n); if rng.chance(0.5) { sh.push(base % n); } }
        fixed_case(out, depth, full, cap, &sh, "shuffled-dups");
        // 90 % duplicates
        let few: Vec<u64> = (0..3).map(|_| rng.below(n)).collect();
        let dups: Vec<u64> = (0..len).map(|_| *rng.pick(&few)).collect();
        fixed_case(out, depth, full, cap, &dups, "massive-dups");
        // several clustered runs
        let mut cl: Vec<u64> = Vec::new();
        for _ in 0..3 { let s = rng.below(n); for i in 0..(1 + rng.below(20)) { cl.push((s + i) % n); } }
        fixed_case(out, depth, full, cap, &cl, "clusters");
        // chunks whose boundaries coincide with the drains (chunk length = capacity) and which overlap each other:
        // a later chunk re-pushes a whole aligned block of 4^k cells that contains the largest cell pushed so far
        // (duplicates ACROSS drain boundaries; the intermediate BMOC then meets a coarser cell of the next one)
        if depth >= 1 && cap >= 4 && cap <= 64 {
          let kk = 1 + rng.below(((cap as f64).log(4.0).floor() as u64).max(1).min(depth as u64)) as u32;
          let bl = 1u64 << (2 * kk);
          if bl as usize <= cap && n > 4 * bl {
            let base = (rng.below(n - 3 * bl) >> (2 * kk)) << (2 * kk);
            let base = base.max(bl);
            let x = base + rng.below(bl);                      // largest cell of the first chunk, inside the block
            let mut c1: Vec<u64> = vec![x];
            let mut v = x;
            while c1.len() < cap && v > 0 { v -= (1 + rng.below(3)).min(v); c1.push(v); }
            c1.sort_unstable(); c1.dedup();
            let mut c2: Vec<u64> = (base..base + bl).collect();
            let mut w = base + bl;
            while c2.len() < cap && w < n { c2.push(w); w += 1 + rng.below(3); }
            let mut seq = c1.clone(); seq.extend(c2.iter().cloned());
            // optionally a third chunk re-pushing the next block or a far value
            if rng.chance(0.5) { let mut c3: Vec<u64> = (base + bl..(base + 2 * bl).min(n)).collect(); c3.push((base + 3 * bl).min(n - 1)); seq.extend(c3); } else { seq.push((w + 7).min(n - 1)); }
            fixed_case(out, depth, full, cap, &seq, "chunks-overlap-block");
          }
          // random overlapping chunks in a small window: every chunk is a sorted sample of the same 3*cap-wide window
          let win = (3 * cap as u64).min(n);
          let w0 = (rng.below(n - win + 1) >> 2) << 2;
          let mut seq: Vec<u64> = Vec::new();
          for _ in 0..(2 + rng.below(3)) {
            let mut c: Vec<u64> = Vec::new();
            let dens = 0.4 + 0.6 * rng.f01();
            for h in w0..w0 + win { if rng.chance(dens) { c.push(h); } }
            c.truncate(cap);
            seq.extend(c);
          }
          fixed_case(out, depth, full, cap, &seq, "chunks-overlap-window");
        }
        if rep == 0 { fixed_case(out, depth, full, cap, &[], "empty"); fixed_case(out, depth, full, cap, &[n - 1], "last"); fixed_case(out, depth, full, cap, &[0], "first"); }
      }
    }
  }
  // full sky at small depth through the builder
  for depth in 0..=3u8 {
    let n = 12u64 << (2 * depth as u32);
    let all: Vec<u64> = (0..n).collect();
    for &cap in &[1usize, 7, 1000] { fixed_case(out, depth, true, cap, &all, "all-sky"); }
  }
  // pack / to_lower_depth: exhaustive universes + random trees
  for &base in &[0u64, 11] {
    for cells in universe(1, base, true, true, 100000) {
      let b = B { dmax: 1, cells };
      pack_case(out, &b, "universe1");
      lower_case(out, &b, 0, false); lower_case(out, &b, 0, true);
    }
  }
  let uni2 = universe(2, 0, true, true, if thorough { 30000 } else { 3000 });
  for cells in uni2.iter().step_by(if thorough { 1 } else { 3 }) {
    let b = B { dmax: 2, cells: cells.clone() };
    pack_case(out, &b, "universe2");
    for nd in 0..2 { lower_case(out, &b, nd, false); lower_case(out, &b, nd, true); }
  }
  let tdepths = [1u8, 2, 3, 4, 6, 9, 14, 29];
  for _ in 0..(if thorough { 40000 } else { 2500 }) {
    let d = *rng.pick(&tdepths);
    let cfg = GenCfg { dmax: d, p_absent: 0.05 + 0.3 * rng.f01(), p_split: 0.3 + 0.5 * rng.f01(), p_partial: 0.5 * rng.f01() * rng.f01(), allow_unpacked: true, partial_over_full_bias: false };
    let b = gen_tree(rng, &cfg);
    pack_case(out, &b, "random");
    let nd = rng.below(d as u64 + 2) as u8; // includes nd = dmax and dmax + 1 (guard)
    lower_case(out, &b, nd, rng.chance(0.5));
  }
}

// ---------------------------------------------------------------------------------------------
// C09: well-formedness of every produced BMOC and agreement of the views

pub fn views_case(out: &mut Out, m: &BMOC, origin: &str) {
  let dmax = m.get_depth_max();
  out.evaluations += 1;
  out.stat(&format!("C09:views:{}", origin));
  let line = bmoc_line(m);
  if let Err(e) = wf_raw(dmax, &m.entries) {
    out.violation(&format!("C09:not-wf:{}", origin), line, "well-formed".into(), e);
    return;
  }
  let iv = intervals_of_raw(dmax, &m.entries).unwrap();
  let s = 2 * (29 - dmax as u32);
  let deep: u64 = iv.iter().map(|x| (x.1 - x.0) >> s).sum();
  let r = catch(|| {
    let ds = m.deep_size();
    let flat: Vec<u64> = if deep <= 3000 { m.to_flat_array().to_vec() } else { Vec::new() };
    let flat_it: Vec<u64> = if deep <= 3000 { m.flat_iter().collect() } else { Vec::new() };
    let hint = m.flat_iter().size_hint();
    let cells: Vec<(u64, u64, bool)> = if deep <= 3000 { m.flat_iter_cell().map(|c| (c.raw_value, c.hash, c.is_full)).collect() } else { Vec::new() };
    let cell_depth_ok = if deep <= 3000 { m.flat_iter_cell().all(|c| c.depth == dmax) } else { true };
    let ranges: Vec<(u64, u64)> = m.to_ranges().iter().map(|r| (r.start, r.end)).collect();
    let it: Vec<(u8, u64, bool, u64)> = m.into_iter().map(|c| (c.depth, c.hash, c.is_full, c.raw_value)).collect();
    (ds, flat, flat_it, hint, cells, cell_depth_ok, ranges, it)
  });
  let req = format!("views {}", line);
  match r {
    None => { out.rec(&req, "panic"); out.violation(&format!("C09:views-panic:{}", origin), line, "views".into(), "panic".into()); }
    Some((ds, flat, flat_it, hint, cells, cell_depth_ok, ranges, it)) => {
      let mut ans = format!("deep={} ranges=", ds);
      for r in &ranges { ans.push_str(&format!("{}-{},", r.0, r.1)); }
      ans.push_str(" iter=");
      for c in &it { ans.push_str(&format!("{}/{}/{},", c.0, c.1, c.2 as u8)); }
      if deep <= 3000 {
        ans.push_str(" flat=");
        for h in &flat { ans.push_str(&format!("{},", h)); }
        ans.push_str(" cells=");
        for c in &cells { ans.push_str(&format!("{}/{}/{},", c.0, c.1, c.2 as u8)); }
      } else { ans.push_str(" flat=skipped cells=skipped"); }
      out.rec(&req, &ans);
      // oracle
      if ds as u64 != deep { out.violation("C09:deep_size", line.clone(), deep.to_string(), ds.to_string()); }
      if hint != (deep as usize, Some(deep as usize)) { out.violation("C09:size_hint", line.clone(), deep.to_string(), format!("{:?}", hint)); }
      let want_ranges: Vec<(u64, u64)> = normalize(iv.iter().map(|&(a, b, _)| (a, b, 1u8)).collect()).iter().map(|x| (x.0 >> s, x.1 >> s)).collect();
      if ranges != want_ranges { out.violation("C09:ranges", line.clone(), format!("{:?}", &want_ranges[..want_ranges.len().min(4)]), format!("{:?}", &ranges[..ranges.len().min(4)])); }
      let want_it: Vec<(u8, u64, bool, u64)> = m.entries.iter().map(|&e| { let (d, h, f) = decode_raw(e, dmax).unwrap(); (d, h, f, e) }).collect();
      if it != want_it { out.violation("C09:into_iter", line.clone(), "decoded entries".into(), format!("{:?}", &it[..it.len().min(3)])); }
      if deep <= 3000 {
        let mut want_flat: Vec<u64> = Vec::new();
        let mut want_cells: Vec<(u64, u64, bool)> = Vec::new();
        for (k, x) in iv.iter().enumerate() { for h in (x.0 >> s)..(x.1 >> s) { want_flat.push(h); want_cells.push((m.entries[k], h, x.2 == 2)); } }
        if flat != want_flat { out.violation("C09:flat_array", line.clone(), format!("{} cells", want_flat.len()), format!("{} cells", flat.len())); }
        if flat_it != want_flat { out.violation("C09:flat_iter", line.clone(), format!("{} cells", want_flat.len()), format!("{} cells", flat_it.len())); }
        if cells != want_cells { out.violation("C09:flat_iter_cell", line.clone(), format!("{} cells", want_cells.len()), format!("{} cells", cells.len())); }
        if !cell_depth_ok { out.violation("C09:flat_iter_cell-depth", line.clone(), dmax.to_string(), "other".into()); }
      }
    }
  }
}

pub fn run_c09(out: &mut Out, rng: &mut Rng, thorough: bool) {
  // outputs of the builders and of operator histories
  let depths = [0u8, 1, 2, 3, 4, 6, 9, 14, 29];
  for _ in 0..(if thorough { 20000 } else { 1500 }) {
    let d = *rng.pick(&depths);
    let mk = |rng: &mut Rng, d: u8| {
      let cfg = GenCfg { dmax: d, p_absent: 0.1 + 0.5 * rng.f01(), p_split: 0.2 + 0.6 * rng.f01(), p_partial: if rng.chance(0.5) { 0.0 } else { 0.4 * rng.f01() }, allow_unpacked: false, partial_over_full_bias: false };
      gen_tree(rng, &cfg)
    };
    let a = mk(rng, d);
    let mut cur = to_impl(&a);
    views_case(out, &cur, "builder-unsafe");
    // history of 1..6 operators
    let steps = 1 + rng.below(6);
    for _ in 0..steps {
      let d2 = if rng.chance(0.6) { d } else { *rng.pick(&depths) };
      let other = to_impl(&mk(rng, d2));
      let op = rng.below(4);
      let next = catch(|| match op { 0 => cur.not(), 1 => cur.and(&other), 2 => cur.or(&other), _ => cur.xor(&other) });
      let name = ["not", "and", "or", "xor"][op as usize];
      let req = if op == 0 { format!("bmoc not {}", bmoc_line(&cur)) } else { format!("bmoc {} {} {}", name, bmoc_line(&cur), bmoc_line(&other)) };
      match next {
        None => {
          out.rec(&req, "panic");
          // attribute to the `or` defect shape if it applies
          let f1 = name == "or" && {
            let da = B { dmax: cur.get_depth_max(), cells: cur.entries.iter().filter_map(|&e| decode_raw(e, cur.get_depth_max())).collect() };
            let db = B { dmax: other.get_depth_max(), cells: other.entries.iter().filter_map(|&e| decode_raw(e, other.get_depth_max())).collect() };
            crate::c07::f1_shape(&da, &db)
          };
          out.violation(&format!("C09:history-panic:{}{}", name, if f1 { ":f1shape" } else { "" }), req, "a BMOC".into(), "panic".into());
          break;
        }
        Some(m) => {
          out.rec(&req, &bmoc_line(&m));
          views_case(out, &m, &format!("history-{}", name));
          // a malformed result was just reported: do not feed it to the next operator (an operator run on garbage can
          // allocate without bound and abort the whole harness, losing the report)
          if wf_raw(m.get_depth_max(), &m.entries).is_err() { break; }
          cur = m;
        }
      }
    }
  }
  // fixed-depth builder outputs
  for _ in 0..(if thorough { 5000 } else { 500 }) {
    let d = *rng.pick(&depths);
    let n = 12u64 << (2 * d as u32);
    let cap = *rng.pick(&[1usize, 3, 16, 1000]);
    let mut b = BMOCBuilderFixedDepth::with_capacity(d, rng.chance(0.5), cap);
    let s = rng.below(n);
    for _ in 0..(1 + rng.below(60)) { b.push((s + rng.below(50)) % n); }
    if let Some(Some(m)) = catch(|| b.to_bmoc()) { views_case(out, &m, "builder-fixed"); }
  }
  for &d in &depths { for b in special_shapes(d) { views_case(out, &to_impl(&b), "special"); } }
  // BMOCs handed out by the coverage functions (cone incl. the small-cone branch, custom, polygon, elliptical cone)
  let th = crate::c05::thresholds();
  for k in 0..(if thorough { 6000 } else { 900 }) {
    let c = crate::c05::gen_cone(rng, thorough, &th);
    let l = cdshealpix::nested::get_or_create(c.depth);
    let res = catch(|| if c.dd == 0 { l.cone_coverage_approx(c.lon, c.lat, c.r) } else { l.cone_coverage_approx_custom(c.dd, c.lon, c.lat, c.r) });
    out.rec(&format!("cone {} {} {} {} {}", c.depth, c.dd, fbits(c.lon), fbits(c.lat), fbits(c.r)), &match &res { Some(m) => bmoc_line(m), None => "panic".into() });
    if let Some(m) = res { views_case(out, &m, if c.dd == 0 { "cone" } else { "cone-custom" }); }
    if k % 3 == 0 {
      let p = crate::c12::gen_poly(rng, thorough);
      let lp = cdshealpix::nested::get_or_create(p.depth);
      let exact = k % 6 == 0;
      let res = catch(|| lp.polygon_coverage(&p.verts, exact));
      if !exact {
        let mut req = format!("polygon {} {}", p.depth, p.verts.len());
        for v in &p.verts { req.push_str(&format!(" {} {}", fbits(v.0), fbits(v.1))); }
        out.rec(&req, &match &res { Some(m) => bmoc_line(m), None => "panic".into() });
      }
      if let Some(m) = res { views_case(out, &m, if exact { "polygon-exact" } else { "polygon" }); }
    }
    if k % 3 == 1 {
      // an elliptical cone of the same centre, a = the cone radius (below pi/2), b a fraction of it
      if c.r < std::f64::consts::PI / 2.0 * 0.999 {
        let b = c.r * *rng.pick(&[1.0, 0.5, 0.1, 0.01]);
        let pa = rng.f01() * std::f64::consts::PI;
        let res = catch(|| if c.dd == 0 { l.elliptical_cone_coverage(c.lon, c.lat, c.r, b, pa) } else { l.elliptical_cone_coverage_custom(c.dd, c.lon, c.lat, c.r, b, pa) });
        out.rec(&format!("ellipse {} {} {} {} {} {} {}", c.depth, c.dd, fbits(c.lon), fbits(c.lat), fbits(c.r), fbits(b), fbits(pa)), &match &res { Some(m) => bmoc_line(m), None => "panic".into() });
        if let Some(m) = res { views_case(out, &m, "elliptical-cone"); }
      }
    }
  }
}
