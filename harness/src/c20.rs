//! C20: lazy per-depth factories under concurrent first use.
//! Schedules (lists of thread ids) are replayed on the real code through the yield-point hooks of
//! `cdshealpix::verif_hooks`; every observation is also computed by the Lean model of the protocol.
use crate::util::*;
use cdshealpix::verif_hooks as vh;
use std::cell::Cell;
use std::sync::{Arc, Condvar, Mutex};
use std::time::Duration;

#[derive(Clone, Copy, PartialEq, Debug)]
enum TS { NotStarted, At(u8), Done(usize), Panicked }

struct Sched { table: u8, depth: u8, active: bool, st: Vec<TS>, go: Vec<bool>, enter: Vec<bool>, early: Vec<bool> }

thread_local! { static TID: Cell<usize> = Cell::new(usize::MAX); }

struct Global { m: Mutex<Sched>, cv: Condvar }
static mut GLOBAL: Option<Arc<Global>> = None;
fn global() -> Arc<Global> { unsafe { GLOBAL.as_ref().unwrap().clone() } }

fn callback(table: u8, point: u8, depth: u8) {
  let tid = TID.with(|t| t.get());
  if tid == usize::MAX { return; }
  let g = global();
  let mut s = g.m.lock().unwrap();
  if !s.active || s.table != table || s.depth != depth { return; }
  s.st[tid] = TS::At(point);
  g.cv.notify_all();
  while !s.go[tid] { s = g.cv.wait(s).unwrap(); }
  s.go[tid] = false;
}

fn call_factory(table: u8, depth: u8) -> usize {
  if table == vh::TABLE_LAYERS { cdshealpix::nested::get_or_create(depth) as *const _ as usize } else { vh::csts_c2v_address(depth) }
}

/// run one history; returns the observation string
fn run_history(table: u8, depth: u8, nthreads: usize, schedule: &[usize]) -> String {
  let g = global();
  { let mut s = g.m.lock().unwrap(); s.table = table; s.depth = depth; s.active = true; s.st = vec![TS::NotStarted; nthreads]; s.go = vec![false; nthreads]; s.enter = vec![false; nthreads]; s.early = vec![false; nthreads]; }
  let mut handles = Vec::new();
  for t in 0..nthreads {
    handles.push(std::thread::spawn(move || {
      TID.with(|c| c.set(t));
      // the thread enters the factory only when the schedule gives it its first step (late arrivals are part of the histories)
      { let g = global(); let mut s = g.m.lock().unwrap(); while !s.enter[t] { s = g.cv.wait(s).unwrap(); } }
      let r = std::panic::catch_unwind(|| call_factory(table, depth));
      let g = global();
      let mut s = g.m.lock().unwrap();
      s.st[t] = match r { Ok(a) => TS::Done(a), Err(_) => TS::Panicked };
      g.cv.notify_all();
    }));
  }
  // wait until every thread sits at its first yield point (BEFORE_CALL_ONCE)
  let wait_all = |pred: &dyn Fn(&Sched) -> bool| -> bool {
    let mut s = g.m.lock().unwrap();
    let mut spins = 0;
    while !pred(&s) { let r = g.cv.wait_timeout(s, Duration::from_millis(200)).unwrap(); s = r.0; spins += 1; if spins > 100 { return false; } }
    true
  };
  let mut obs = String::new();
  let code = |x: TS| -> &'static str { match x { TS::At(p) if p == vh::BEFORE_CONSTRUCT => "E", TS::At(p) if p == vh::AFTER_WRITE => "W", TS::At(p) if p == vh::AFTER_CALL_ONCE => "A", TS::Done(_) => "D", TS::Panicked => "U", _ => "?" } };
  let step = |t: usize, obs: &mut String| {
    // enabledness: a thread at its first yield point cannot be released while another thread is inside the closure
    let (cur, running_other) = { let s = g.m.lock().unwrap(); (s.st[t], s.st.iter().enumerate().any(|(u, x)| u != t && (*x == TS::At(vh::BEFORE_CONSTRUCT) || *x == TS::At(vh::AFTER_WRITE)))) };
    let finished = match cur { TS::Done(_) | TS::Panicked => true, _ => false };
    let cur = if cur == TS::NotStarted {
      // first step: let the thread enter the factory; it stops at the yield point in front of `call_once`
      { let mut s = g.m.lock().unwrap(); s.enter[t] = true; g.cv.notify_all(); }
      let ok = wait_all(&|s: &Sched| s.st[t] != TS::NotStarted);
      let now = { let s = g.m.lock().unwrap(); s.st[t] };
      if !ok { obs.push_str("deadlock "); return; }
      if let TS::Done(_) = now {
        // returned without going through `call_once` at all
        if running_other { let mut s = g.m.lock().unwrap(); s.early[t] = true; }
        obs.push_str(&format!("D!:{} ", vh::construction_count(table, depth)));
        return;
      }
      now
    } else { cur };
    if finished || (cur == TS::At(vh::BEFORE_CALL_ONCE) && running_other) { obs.push_str("x "); return; }
    { let mut s = g.m.lock().unwrap(); s.go[t] = true; g.cv.notify_all(); }
    let ok = wait_all(&|s: &Sched| s.st[t] != cur && !s.go[t] || match s.st[t] { TS::Done(_) | TS::Panicked => true, _ => false });
    let now = { let s = g.m.lock().unwrap(); s.st[t] };
    if !ok { obs.push_str("deadlock "); return; }
    obs.push_str(&format!("{}:{} ", code(now), vh::construction_count(table, depth)));
  };
  for &t in schedule { if t < nthreads { step(t, &mut obs); } }
  // drain: let every thread finish (the thread inside the closure first)
  for _round in 0..(6 * nthreads) {
    let order: Vec<usize> = { let s = g.m.lock().unwrap(); let mut v: Vec<usize> = (0..nthreads).collect(); v.sort_by_key(|&u| match s.st[u] { TS::At(p) if p == vh::BEFORE_CONSTRUCT || p == vh::AFTER_WRITE => 0, TS::At(p) if p == vh::AFTER_CALL_ONCE => 1, _ => 2 }); v };
    let mut dummy = String::new();
    let t = order[0];
    let all_done = { let s = g.m.lock().unwrap(); s.st.iter().all(|x| match x { TS::Done(_) | TS::Panicked => true, _ => false }) };
    if all_done { break; }
    // pick the first thread that can move
    let mut moved = false;
    for &u in &order { let before = dummy.len(); step(u, &mut dummy); if !dummy[before..].starts_with("x") { moved = true; break; } }
    let _ = t;
    if !moved { obs.push_str("stuck "); break; }
  }
  for h in handles { let _ = h.join(); }
  let s = g.m.lock().unwrap();
  let addrs: Vec<usize> = s.st.iter().filter_map(|x| if let TS::Done(a) = x { Some(*a) } else { None }).collect();
  let same = addrs.len() == nthreads && addrs.iter().all(|a| *a == addrs[0] && *a != 0);
  if s.early.iter().any(|x| *x) { obs.push_str("| EARLY-RETURN (a thread got the object while another one was still inside call_once) "); }
  obs.push_str(&format!("| final cons={} all-returned-same-object={}", vh::construction_count(table, depth), same as u8));
  drop(s);
  { let mut s = g.m.lock().unwrap(); s.active = false; }
  obs
}

/// one batch = one process: every slot (30 layers + 29 constant tables) is used for exactly one history
pub fn run_batch(out: &mut Out, schedules: &[(usize, Vec<usize>)]) {
  unsafe { GLOBAL = Some(Arc::new(Global { m: Mutex::new(Sched { table: 0, depth: 0, active: false, st: vec![], go: vec![], enter: vec![], early: vec![] }), cv: Condvar::new() })); }
  vh::set_yield_callback(Some(callback));
  let mut slots: Vec<(u8, u8)> = (0..30u8).map(|d| (vh::TABLE_LAYERS, d)).collect();
  slots.extend((1..30u8).map(|d| (vh::TABLE_C2V, d)));
  for (k, (n, sched)) in schedules.iter().enumerate() {
    if k >= slots.len() { break; }
    let (table, depth) = slots[k];
    let obs = run_history(table, depth, *n, sched);
    let req = format!("once {} {}", n, sched.iter().map(|t| t.to_string()).collect::<Vec<_>>().join(" "));
    out.rec(&req, &obs);
    out.evaluations += 1;
    out.stat(&format!("C20:history:{}-threads:{}", n, if table == vh::TABLE_LAYERS { "layers" } else { "c2v-constants" }));
    // direct oracle on the implementation
    let inp = format!("table={} depth={} threads={} schedule={:?}", table, depth, n, sched);
    if !obs.ends_with("final cons=1 all-returned-same-object=1") { out.violation("C20:history", inp.clone(), "constructed once, every thread returns the same object".into(), obs.clone()); }
    if obs.contains("EARLY-RETURN") { out.violation("C20:history:returned-before-initialisation-completed", inp.clone(), "a caller arriving while the initialiser runs blocks until it has finished".into(), obs.clone()); }
    if obs.contains("deadlock") || obs.contains("stuck") || obs.contains("U:") { out.violation("C20:history:deadlock-or-unreachable", inp, "no deadlock, unreachable!() not reached".into(), obs); }
  }
  vh::set_yield_callback(None);
}

pub fn gen_schedules(rng: &mut Rng, batch: usize, thorough: bool) -> Vec<(usize, Vec<usize>)> {
  let mut v = Vec::new();
  // all two-thread schedules of length 8 (256), 59 per batch
  let all2: Vec<Vec<usize>> = (0..256u32).map(|m| (0..8).map(|b| ((m >> b) & 1) as usize).collect()).collect();
  let start = batch * 59;
  for k in start..(start + 59) {
    if k < all2.len() { v.push((2, all2[k].clone())); }
    else {
      let n = 3 + rng.below(if thorough { 6 } else { 2 }) as usize;
      let len = 2 * n + rng.below(4 * n as u64) as usize;
      v.push((n, (0..len).map(|_| rng.below(n as u64) as usize).collect()));
    }
  }
  v
}

/// cross-table histories: a thread is held inside the `call_once` closure of one table (in front of the construction)
/// while another thread makes a complete first use of the OTHER table at the same depth; each table must still be
/// constructed exactly once and every caller must get the same objects (the two factories are independent: nothing in
/// one may fill or read the slot of the other outside its `Once`)
pub fn cross(out: &mut Out) {
  unsafe { GLOBAL = Some(Arc::new(Global { m: Mutex::new(Sched { table: 0, depth: 0, active: false, st: vec![], go: vec![], enter: vec![], early: vec![] }), cv: Condvar::new() })); }
  vh::set_yield_callback(Some(callback));
  let g = global();
  for d in 1..30u8 {
    let (held, other) = if d % 2 == 1 { (vh::TABLE_C2V, vh::TABLE_LAYERS) } else { (vh::TABLE_LAYERS, vh::TABLE_C2V) };
    { let mut s = g.m.lock().unwrap(); s.table = held; s.depth = d; s.active = true; s.st = vec![TS::NotStarted]; s.go = vec![false]; s.enter = vec![true]; s.early = vec![false]; }
    let h = std::thread::spawn(move || {
      TID.with(|c| c.set(0));
      let r = std::panic::catch_unwind(|| call_factory(held, d));
      let g = global();
      let mut s = g.m.lock().unwrap();
      s.st[0] = match r { Ok(a) => TS::Done(a), Err(_) => TS::Panicked };
      g.cv.notify_all();
    });
    // drive thread 0 to the yield point in front of the construction
    let wait_change = |from: TS| -> TS {
      let mut s = g.m.lock().unwrap();
      let mut spins = 0;
      while s.st[0] == from || s.go[0] { let r = g.cv.wait_timeout(s, Duration::from_millis(100)).unwrap(); s = r.0; spins += 1; if spins > 100 { break; } }
      s.st[0]
    };
    let mut cur = wait_change(TS::NotStarted);
    let mut guard = 0;
    while cur != TS::At(vh::BEFORE_CONSTRUCT) && guard < 8 {
      if let TS::At(_) = cur { let mut s = g.m.lock().unwrap(); s.go[0] = true; g.cv.notify_all(); } else { break; }
      cur = wait_change(cur);
      guard += 1;
    }
    out.evaluations += 1;
    out.stat(&format!("C20:cross-table:held-{}", if held == vh::TABLE_LAYERS { "layers" } else { "c2v-constants" }));
    let inp = format!("depth={} held-table={} (thread 0 in front of the construction) other-table={} used completely by a second thread", d, held, other);
    let reached = cur == TS::At(vh::BEFORE_CONSTRUCT);
    // the other table, complete first use, from this thread (not scheduled: its yield points do not block)
    let a_other = std::panic::catch_unwind(|| call_factory(other, d));
    // (nothing that needs the HELD table may be called here: its `Once` is running and would block this thread for ever)
    if other == vh::TABLE_C2V { let _ = std::panic::catch_unwind(|| cdshealpix::largest_center_to_vertex_distance(d, 1.0, 0.3)); } else { let _ = std::panic::catch_unwind(|| cdshealpix::nested::get_or_create(d).n_hash()); }
    // release thread 0 to the end
    let mut guard = 0;
    loop {
      let st = { let s = g.m.lock().unwrap(); s.st[0] };
      match st { TS::Done(_) | TS::Panicked => break, TS::At(_) => { let mut s = g.m.lock().unwrap(); s.go[0] = true; g.cv.notify_all(); } _ => {} }
      let _ = wait_change(st);
      guard += 1; if guard > 16 { break; }
    }
    let _ = h.join();
    let st = { let s = g.m.lock().unwrap(); s.st[0] };
    { let mut s = g.m.lock().unwrap(); s.active = false; }
    let (cl, cc) = (vh::construction_count(vh::TABLE_LAYERS, d), vh::construction_count(vh::TABLE_C2V, d));
    let again_held = std::panic::catch_unwind(|| call_factory(held, d)).ok();
    let again_other = std::panic::catch_unwind(|| call_factory(other, d)).ok();
    let obs = format!("reached-construction-point={} thread0={:?} layers-constructed={} constants-constructed={} other={:?} again-held={:?} again-other={:?}", reached as u8, st, cl, cc, a_other.as_ref().ok(), again_held, again_other);
    let ok = cl == 1 && cc == 1 && matches!(st, TS::Done(a) if Some(a) == again_held && a != 0) && a_other.is_ok() && a_other.ok() == again_other;
    if !ok { out.violation("C20:cross-table", inp, "each table constructed exactly once, every caller gets the same objects".into(), obs); }
  }
  vh::set_yield_callback(None);
}

/// unscheduled stress: many threads, all depths, results identical to single-threaded results
pub fn stress(out: &mut Out) {
  use cdshealpix::nested::get_or_create;
  let nthreads = 16;
  let handles: Vec<_> = (0..nthreads).map(|t| std::thread::spawn(move || {
    let mut res: Vec<(u8, usize, u64, u64, u64, Vec<u64>, usize, u64)> = Vec::new();
    let order: Vec<u8> = if t % 2 == 0 { (0..30).collect() } else { (0..30).rev().collect() };
    for d in order {
      let l = get_or_create(d);
      let h = l.hash(1.0 + 0.01 * d as f64, 0.3);
      let c = l.center(h);
      let nb = l.neighbours(h, true).values_vec();
      let cone = if d <= 10 { l.cone_coverage_approx(1.0, 0.3, 0.05).entries.len() } else { 0 };
      let c2v = cdshealpix::largest_center_to_vertex_distance(d, 0.4, 0.5).to_bits();
      res.push((d, l as *const _ as usize, h, c.0.to_bits(), c.1.to_bits(), nb, cone, c2v));
    }
    res.sort_by_key(|x| x.0);
    res
  })).collect();
  let all: Vec<_> = handles.into_iter().map(|h| h.join()).collect();
  out.evaluations += 1;
  out.stat("C20:stress-16-threads-30-depths");
  let mut ok = all.iter().all(|r| r.is_ok());
  if ok { let first = all[0].as_ref().unwrap(); for r in &all { if r.as_ref().unwrap() != first { ok = false; } } }
  for d in 0..30u8 { if vh::construction_count(vh::TABLE_LAYERS, d) != 1 { ok = false; out.violation("C20:stress:constructions", format!("layer depth {}", d), "1".into(), vh::construction_count(vh::TABLE_LAYERS, d).to_string()); } }
  for d in 1..30u8 { if vh::construction_count(vh::TABLE_C2V, d) != 1 { ok = false; out.violation("C20:stress:constructions", format!("constants depth {}", d), "1".into(), vh::construction_count(vh::TABLE_C2V, d).to_string()); } }
  if !ok { out.violation("C20:stress", "16 threads x 30 depths".into(), "identical results, one construction per depth".into(), "mismatch".into()); }
  // single-threaded reference values computed afterwards through the same (now initialised) layers are the
  // model's `layer_new_pure` side: n_hash of the 30 layers
  for d in 0..30u8 { out.rec(&format!("nhash {}", d), &get_or_create(d).n_hash().to_string()); }
}
