//! C01 (hash total / in range / contains the point) and C02 (hierarchy across depths).
use crate::util::*;
use crate::pos::*;
use cdshealpix::nested::get_or_create;
use std::f64::consts::PI;

/// is the plane point (x mod 8, y) inside the closed diamond of cell `h` at `depth`, up to `tol` cell units?
/// In the caps the same sphere point seen from the adjacent facet is accepted too.
pub fn in_cell(depth: u8, h: u64, x: f64, y: f64, tol: f64) -> (bool, f64) {
  let l = get_or_create(depth);
  let n = (1u64 << depth) as f64;
  let c = l.center_of_projected_cell(h);
  let xm = x - 8.0 * (x / 8.0).floor();
  let xc = 2.0 * (xm / 2.0).floor() + 1.0;
  let mut cands = vec![xm];
  if y.abs() > 1.0 { cands.push(2.0 * xc + 2.0 - xm); cands.push(2.0 * xc - 2.0 - xm); }
  let mut best = f64::INFINITY;
  for xx in cands {
    let xx = xx - 8.0 * (xx / 8.0).floor();
    let ddx = (xx - c.0).abs().min(8.0 - (xx - c.0).abs());
    let excess = (ddx + (y - c.1).abs()) * n - 1.0; // in cell units, <= 0 inside
    if excess < best { best = excess; }
  }
  (best <= tol, best)
}

pub fn hash_case(out: &mut Out, p: &Pos, prefix: &str, depths: &[u8]) {
  let valid = p.lat >= -PI / 2.0 && p.lat <= PI / 2.0;
  let inp = |d: u8| format!("depth={} lon={:e} ({}) lat={:e} ({}) class={}", d, p.lon, fbits(p.lon), p.lat, fbits(p.lat), p.class);
  let mut results: Vec<(u8, Option<u64>)> = Vec::with_capacity(depths.len());
  let lon2 = f64::from_bits(p.lon.to_bits() ^ (1u64 << 63));
  let mut results2: Vec<(u8, Option<u64>)> = Vec::new();
  if prefix == "C02" {
    if let Some(&d0) = depths.first() {
      let r2 = catch(|| get_or_create(d0).hash(lon2, p.lat));
      out.rec(&format!("hash {} {} {}", d0, fbits(lon2), fbits(p.lat)), &opt_u64(r2));
      results2.push((d0, r2));
      // an unrelated position in between, so that whatever the previous call may have left behind is replaced
      let r3 = catch(|| get_or_create(d0).hash(1.0, 0.3));
      out.rec(&format!("hash {} {} {}", d0, fbits(1.0), fbits(0.3)), &opt_u64(r3));
    }
  }
  for &d in depths {
    // `hash` is a function of its arguments: between two depths of the same position, the position with the sign bit of
    // its longitude flipped is hashed too (for lon = +-0.0 the two are equal as numbers but are different positions in
    // the polar caps); any state kept from one call to the next would show as a wrong answer or a changed answer
    if prefix == "C02" && d % 2 == 1 {
      let r2 = catch(|| get_or_create(d).hash(lon2, p.lat));
      out.rec(&format!("hash {} {} {}", d, fbits(lon2), fbits(p.lat)), &opt_u64(r2));
      results2.push((d, r2));
    }
    let r = catch(|| get_or_create(d).hash(p.lon, p.lat));
    out.rec(&format!("hash {} {} {}", d, fbits(p.lon), fbits(p.lat)), &opt_u64(r));
    results.push((d, r));
  }
  if prefix == "C01" && valid {
    // right after the position itself, the position with the sign bit of its longitude flipped (equal as a number when
    // lon = +-0.0, a different position in the polar caps): an answer kept from the previous call would not contain it
    if let Some(&(d, _)) = results.last() {
      let r2 = catch(|| get_or_create(d).hash(lon2, p.lat));
      out.rec(&format!("hash {} {} {}", d, fbits(lon2), fbits(p.lat)), &opt_u64(r2));
      if let Some(h2) = r2 {
        let (x2, y2) = proj_ref(lon2, p.lat);
        let tol = 1e-9 + (1u64 << d) as f64 * 2e-14 * (1.0 + lon2.abs());
        if h2 < (12u64 << (2 * d as u32)) { let (ok, ex) = in_cell(d, h2, x2, y2, tol); if !ok { out.violation("C01:not-in-cell", format!("depth={} lon={:e} ({}) lat={:e} ({}) class={} (hashed right after the longitude of opposite sign)", d, lon2, fbits(lon2), p.lat, fbits(p.lat), p.class), format!("point within {:e} cell units of cell {}", tol, h2), format!("{:e} cell units outside", ex)); } }
      }
    }
  }
  if prefix == "C02" {
    if let Some(&(d0, r0)) = results.first() {
      let again = catch(|| get_or_create(d0).hash(p.lon, p.lat));
      if again != r0 { out.violation("C02:not-a-function-of-its-arguments", format!("depth={} lon={:e} ({}) lat={:e} ({}) class={}", d0, p.lon, fbits(p.lon), p.lat, fbits(p.lat), p.class), format!("{:?} (first evaluation)", r0), format!("{:?} (after hashing the same and the sign-flipped position at the other depths)", again)); }
    }
  }
  out.evaluations += 1;
  out.stat(&format!("{}:{}", prefix, p.class));
  if !valid {
    for (d, r) in &results { if r.is_some() { out.violation(&format!("{}:no-guard", prefix), inp(*d), "panic".into(), format!("{:?}", r)); break; } }
    return;
  }
  let (xr, yr) = proj_ref(p.lon, p.lat);
  for (d, r) in &results {
    match r {
      None => { out.violation(&format!("{}:panic", prefix), inp(*d), "a cell".into(), "panic".into()); }
      Some(h) => {
        let nh = 12u64 << (2 * *d as u32);
        if *h >= nh { out.violation(&format!("{}:range", prefix), inp(*d), format!("< {}", nh), h.to_string()); continue; }
        if prefix == "C01" {
          let tol = 1e-9 + (1u64 << *d) as f64 * 2e-14 * (1.0 + p.lon.abs());
          let (ok, ex) = in_cell(*d, *h, xr, yr, tol);
          if !ok { out.violation("C01:not-in-cell", inp(*d), format!("point within {:e} cell units of cell {}", tol, h), format!("{:e} cell units outside", ex)); }
        }
      }
    }
  }
  if prefix == "C02" && valid {
    // the same relation along the chain of the sign-flipped position (evaluated first at the shallowest depth, then
    // interleaved with the position itself)
    for w in results2.windows(2) {
      if let ((d1, Some(h1)), (d2, Some(h2))) = (w[0], w[1]) {
        if h2 >> (2 * (d2 - d1) as u32) != h1 {
          out.violation("C02:not-ancestor", format!("depth={} lon={:e} ({}) lat={:e} ({}) class={} (evaluated between calls for the longitude of opposite sign) vs depth {}", d1, lon2, fbits(lon2), p.lat, fbits(p.lat), p.class, d2), format!("{} >> {} = {}", h2, 2 * (d2 - d1), h2 >> (2 * (d2 - d1) as u32)), h1.to_string());
          break;
        }
      }
    }
  }
  if prefix == "C02" {
    // exact prefix property for all pairs: enough to compare each depth with the deepest one and with its successor
    for w in results.windows(2) {
      if let ((d1, Some(h1)), (d2, Some(h2))) = (w[0], w[1]) {
        if h2 >> (2 * (d2 - d1) as u32) != h1 {
          out.violation("C02:not-ancestor", format!("{} vs depth {}", inp(d1), d2), format!("{} >> {} = {}", h2, 2 * (d2 - d1), h2 >> (2 * (d2 - d1) as u32)), h1.to_string());
        }
      }
    }
  }
}

pub fn run_c01(out: &mut Out, rng: &mut Rng, thorough: bool) {
  let n = if thorough { 300_000 } else { 12_000 };
  let all: Vec<u8> = (0..=29).collect();
  for k in 0..n {
    let p = if k % 20 == 19 { gen_bad_pos(rng) } else { gen_pos(rng) };
    if k % 4 == 0 { hash_case(out, &p, "C01", &all); }
    else { let d = rng.below(30) as u8; hash_case(out, &p, "C01", &[d, ((d as u64 + 1 + rng.below(29)) % 30) as u8]); }
  }
}

pub fn run_c02(out: &mut Out, rng: &mut Rng, thorough: bool) {
  let n = if thorough { 200_000 } else { 8_000 };
  let all: Vec<u8> = (0..=29).collect();
  for _ in 0..n {
    let p = gen_pos(rng);
    hash_case(out, &p, "C02", &all);
    // the hypotheses of the hierarchy theorem (bit patterns of h+l, h-l small; scaled indices <= nside) are
    // evaluated by the model on the same position: the expected answer is "ok"
    out.rec(&format!("hashhyp {} {}", fbits(p.lon), fbits(p.lat)), "ok");
  }
  // Layer constants for all 30 depths (n_hash; the other fields are private: they are exercised through hash)
  for d in 0..=29u8 { let l = get_or_create(d); out.rec(&format!("nhash {}", d), &l.n_hash().to_string()); }
}
