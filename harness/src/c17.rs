//! C17: proj / unproj / base_cell_from_proj_coo.
use crate::util::*;
use crate::pos::*;
use cdshealpix::{proj, unproj, base_cell_from_proj_coo};
use std::f64::consts::PI;

fn pair(p: Option<(f64, f64)>) -> String { match p { Some((a, b)) => format!("{} {}", fbits(a), fbits(b)), None => "panic".into() } }

pub fn proj_case(out: &mut Out, p: &Pos) {
  let r = catch(|| proj(p.lon, p.lat));
  out.rec(&format!("proj {} {}", fbits(p.lon), fbits(p.lat)), &pair(r));
  out.evaluations += 1;
  out.stat(&format!("C17:proj:{}", p.class));
  let inp = format!("lon={:e} ({}) lat={:e} ({}) class={}", p.lon, fbits(p.lon), p.lat, fbits(p.lat), p.class);
  let valid = p.lat >= -PI / 2.0 && p.lat <= PI / 2.0;
  match r {
    None => if valid { out.violation("C17:proj:panic", inp, "(x, y)".into(), "panic".into()); },
    Some((x, y)) => {
      if !valid { out.violation("C17:proj:no-guard", inp, "panic".into(), format!("{} {}", x, y)); return; }
      if !(x.abs() <= 8.0 * (1.0 + (p.lon.abs() / (2.0 * PI)).floor()) && y.abs() <= 2.0) && p.lon.abs() <= 2.0 * PI {
        out.violation("C17:proj:range", inp.clone(), "|x| <= 8, |y| <= 2".into(), format!("{} {}", x, y));
      }
      if p.lon.abs() <= 2.0 * PI && x.is_sign_negative() != p.lon.is_sign_negative() { out.violation("C17:proj:sign", inp.clone(), "x carries the sign of lon".into(), format!("{}", x)); }
      // against the reference formulae (x modulo 8)
      let (xr, yr) = proj_ref(p.lon, p.lat);
      let xm = x - 8.0 * (x / 8.0).floor();
      // in the caps two plane points on the facet edges are the same point of the sphere: compare the
      // facet-normalised abscissa xc + (x - xc) / (2 - |y|) modulo 8
      let canon = |x: f64, y: f64| -> f64 { if y.abs() <= 1.0 { x } else { let xc = 2.0 * (x / 2.0).floor() + 1.0; let s = 2.0 - y.abs(); let u = xc + (x - xc) / s; u - 8.0 * (u / 8.0).floor() } };
      let (ua, ub) = (canon(xm, y), canon(xr, yr));
      let dx = (ua - ub).abs().min(8.0 - (ua - ub).abs());
      let sig = if y.abs() > 1.0 { 2.0 - y.abs() } else { 1.0 };
      let tol = 1e-12 * (1.0 + p.lon.abs()) / sig.max(1e-300);
      if (sig > 1e-9 && dx > tol) || (y - yr).abs() > 1e-12 { out.violation("C17:proj:formula", inp.clone(), format!("{} {}", xr, yr), format!("{} {}", xm, y)); }
      // unproj(proj(p)) = p to 1e-14 rad (lon modulo 2 pi); at the poles the longitude is free
      if p.lon.abs() <= 2.0 * PI {
        let back = catch(|| unproj(x, y));
        out.rec(&format!("unproj {} {}", fbits(x), fbits(y)), &pair(back));
        match back {
          None => out.violation("C17:unproj(proj):panic", inp.clone(), "(lon, lat)".into(), "panic".into()),
          Some((lo, la)) => {
            let dl = (lo - p.lon).abs(); let dl = dl.min((dl - 2.0 * PI).abs());
            let near_pole = (PI / 2.0 - p.lat.abs()) < 1e-6;
            if near_pole {
              // next to a pole the longitude is ill-conditioned: compare on the sphere, with the colatitudes
              // (angular distance^2 = (c - c')^2 + c c' (2 sin(dlon/2))^2 to first order in the colatitudes)
              let (c1, c2) = (PI / 2.0 - p.lat.abs(), PI / 2.0 - la.abs());
              let same_side = (la >= 0.0) == (p.lat >= 0.0) || c1 == 0.0;
              let d = ((c1 - c2).powi(2) + c1 * c2 * (2.0 * (dl / 2.0).sin()).powi(2)).sqrt();
              if !same_side || d > 1e-14 {
                // finding F22: below the pole threshold of deproj_collignon (EPS_POLE = 1e-13 on sqrt(6) cos(lat/2 + pi/4),
                // i.e. colatitude < 8.2e-14) the longitude is dropped
                let tag = if c1 < 8.3e-14 { ":within-8.3e-14-of-a-pole" } else { "" };
                out.violation(&format!("C17:unproj(proj){}", tag), inp.clone(), format!("{} {} (within 1e-14 rad on the sphere)", p.lon, p.lat), format!("{} {} ({:e} rad away)", lo, la, d));
              }
            } else {
              let tol_lon = 1e-14 + 4e-16 / (PI / 2.0 - p.lat.abs());
              if (la - p.lat).abs() > 1e-14 || dl > tol_lon {
                out.violation("C17:unproj(proj)", inp.clone(), format!("{} {}", p.lon, p.lat), format!("{} {}", lo, la));
              }
            }
          }
        }
        // base cell = depth-0 cell (away from borders by 1e-12; on borders: a cell whose diamond contains the point)
        let b = catch(|| base_cell_from_proj_coo(x, y));
        out.rec(&format!("basecell {} {}", fbits(x), fbits(y)), &match b { Some(v) => v.to_string(), None => "panic".into() });
        let h0 = catch(|| cdshealpix::nested::hash(0, p.lon, p.lat));
        match (b, h0) {
          (Some(b), Some(h0)) => {
            if b >= 12 { out.violation("C17:basecell:range", inp.clone(), "< 12".into(), b.to_string()); }
            else if b as u64 != h0 {
              // allowed only on a border: the point must be within 1e-12 of the diamond of both
              let c = cdshealpix::nested::get_or_create(0).center_of_projected_cell(b as u64);
              // candidates: the point itself and, in a cap, the same sphere point seen from the adjacent facet
              let xc = 2.0 * (xm / 2.0).floor() + 1.0;
              let mut cands = vec![xm];
              if y.abs() > 1.0 { cands.push(2.0 * xc + 2.0 - xm); cands.push(2.0 * xc - 2.0 - xm); }
              let inside = cands.iter().any(|&xx| { let xx = xx - 8.0 * (xx / 8.0).floor(); let ddx = (xx - c.0).abs().min(8.0 - (xx - c.0).abs()); ddx + (y - c.1).abs() <= 1.0 + 1e-12 });
              if !inside { out.violation("C17:basecell:wrong", inp.clone(), h0.to_string(), b.to_string()); }
              else { out.stat("C17:basecell:border-convention-differs"); }
            }
          }
          (None, _) => { if cfg!(debug_assertions) { out.stat("C17:basecell:debug-panic"); out.violation("C17:basecell:debug-panic", inp.clone(), "a base cell".into(), format!("panic (x={} y={})", x, y)); } else { out.violation("C17:basecell:panic", inp.clone(), "a base cell".into(), "panic".into()); } }
          _ => {}
        }
      }
    }
  }
}

pub fn unproj_case(out: &mut Out, x: f64, y: f64, class: &str) {
  let r = catch(|| unproj(x, y));
  out.rec(&format!("unproj {} {}", fbits(x), fbits(y)), &pair(r));
  out.evaluations += 1;
  out.stat(&format!("C17:unproj:{}", class));
  let inp = format!("x={:e} ({}) y={:e} ({}) class={}", x, fbits(x), y, fbits(y), class);
  let valid = y >= -2.0 && y <= 2.0;
  match r {
    None => if valid { out.violation("C17:unproj:panic", inp, "(lon, lat)".into(), "panic".into()); },
    Some((lon, lat)) => {
      if !valid { out.violation("C17:unproj:no-guard", inp, "panic".into(), format!("{} {}", lon, lat)); return; }
      if !(lat.abs() <= PI / 2.0 + 1e-15) { out.violation("C17:unproj:lat-range", inp.clone(), "|lat| <= pi/2".into(), lat.to_string()); return; }
      // proj(unproj(x, y)) = (x, y) for points of the projected domain
      let alat = lat.max(-PI / 2.0).min(PI / 2.0);
      let back = catch(|| proj(lon, alat));
      out.rec(&format!("proj {} {}", fbits(lon), fbits(alat)), &pair(back));
      // in the caps the domain is the union of the four triangles |x - xc| <= 2 - |y|
      let xa = x.abs(); let xc = 2.0 * (xa / 2.0).floor() + 1.0;
      let in_domain = y.abs() <= 1.0 || (xa - xc).abs() <= 2.0 - y.abs();
      if let (Some((bx, by)), true) = (back, in_domain) {
        let tol = 1e-13 + if y.abs() > 1.0 { 1e-9 * ((2.0 - y.abs()) < 1e-6) as u8 as f64 } else { 0.0 };
        let d = (bx - x).abs().min(((bx - x).abs() - 8.0).abs());
        let near_pole = 2.0 - y.abs() < 1e-12;
        if (!near_pole && d > tol) || (by - y).abs() > tol { out.violation("C17:proj(unproj)", inp, format!("{} {}", x, y), format!("{} {}", bx, by)); }
      }
    }
  }
}

pub fn run(out: &mut Out, rng: &mut Rng, thorough: bool) {
  let n = if thorough { 2_000_000 } else { 60_000 };
  for k in 0..n {
    let p = if k % 20 == 19 { gen_bad_pos(rng) } else if k % 20 == 7 {
      // towards the poles: colatitude log-uniform in 1e-16 .. 1e-5, any longitude (the pole threshold of the de-projection)
      let c = 10f64.powf(-5.0 - 11.0 * rng.f01());
      Pos { lon: rng.f01() * 2.0 * PI, lat: (PI / 2.0 - c) * if rng.chance(0.5) { 1.0 } else { -1.0 }, class: "colatitude-log-uniform-1e-16..1e-5" }
    } else { gen_pos(rng) };
    proj_case(out, &p);
  }
  for _ in 0..n / 2 {
    let (x, y, class) = match rng.below(6) {
      0 => (rng.f01() * 16.0 - 8.0, rng.f01() * 4.0 - 2.0, "uniform"),
      1 => ((rng.below(17) as f64 - 8.0) + *rng.pick(&[0.0, 1e-16, -1e-16, 1e-9, -1e-9]), rng.f01() * 4.0 - 2.0, "facet-boundary-x"),
      2 => (rng.f01() * 16.0 - 8.0, *rng.pick(&[1.0, -1.0]) * ulp_step(1.0, *rng.pick(&[0i64, 1, -1, 2, -2])), "transition-|y|=1"),
      3 => (rng.f01() * 16.0 - 8.0, *rng.pick(&[1.0, -1.0]) * (2.0 - 10f64.powf(-(rng.below(17) as f64)) * rng.f01()), "towards-pole"),
      4 => (*rng.pick(&[0.0, 8.0, -8.0, -0.0]) + *rng.pick(&[0.0, 1e-15, -1e-15]), rng.f01() * 4.0 - 2.0, "x-in-{0,8,-8}"),
      _ => (rng.f01() * 8.0, *rng.pick(&[2.0, -2.0, 2.0000000000000004, -2.0000000000000004, f64::NAN, 3.0]), "pole-and-out-of-range"),
    };
    unproj_case(out, x, y, class);
  }
}
