//! C16: cell-size helper bounds.
use crate::util::*;
use crate::pos::*;
use cdshealpix::nested::get_or_create;
use cdshealpix::{largest_center_to_vertex_distance, largest_center_to_vertex_distance_with_radius,
                 largest_center_to_vertex_distances_with_radius, best_starting_depth, has_best_starting_depth};
use std::f64::consts::PI;

pub fn hav(a: (f64, f64), b: (f64, f64)) -> f64 {
  let s = ((b.1 - a.1) / 2.0).sin().powi(2) + a.1.cos() * b.1.cos() * ((b.0 - a.0) / 2.0).sin().powi(2);
  2.0 * s.sqrt().min(1.0).asin()
}

fn optf(x: Option<f64>) -> String { match x { Some(v) => fbits(v), None => "panic".into() } }

pub fn true_c2v(depth: u8, h: u64) -> f64 {
  let l = get_or_create(depth);
  let c = l.center(h);
  l.vertices(h).iter().map(|v| hav(c, *v)).fold(0.0, f64::max)
}

fn cell_case(out: &mut Out, depth: u8, h: u64, tag: &str) {
  let l = get_or_create(depth);
  let c = l.center(h);
  let b = catch(|| largest_center_to_vertex_distance(depth, c.0, c.1));
  out.rec(&format!("c2v {} {} {}", depth, fbits(c.0), fbits(c.1)), &optf(b));
  out.evaluations += 1;
  out.stat(&format!("C16:c2v:{}", tag));
  let inp = format!("depth={} hash={} centre=({}, {}) class={}", depth, h, c.0, c.1, tag);
  match b {
    None => out.violation("C16:c2v:panic", inp.clone(), "a bound".into(), "panic".into()),
    Some(b) => { let t = true_c2v(depth, h); if !(b >= t * (1.0 - 1e-12) - 1e-15) { out.violation("C16:c2v:not-a-bound", inp.clone(), format!(">= {:e}", t), format!("{:e}", b)); } }
  }
  // the same claim at positions of the cell other than its centre ("the cell at that position")
  if depth >= 1 {
    let t = true_c2v(depth, h);
    for &(dx, dy) in &[(0.1f64, 0.1f64), (0.9, 0.1), (0.1, 0.9), (0.9, 0.9), (0.5, 0.2), (0.2, 0.5), (0.8, 0.5), (0.5, 0.8)] {
      let q = match catch(|| l.sph_coo(h, dx, dy)) { Some(q) => q, None => continue };
      if catch(|| l.hash(q.0, q.1)) != Some(h) { continue; }   // rounding moved it out of the cell: not this cell's claim
      let bq = catch(|| largest_center_to_vertex_distance(depth, q.0, q.1));
      out.rec(&format!("c2v {} {} {}", depth, fbits(q.0), fbits(q.1)), &optf(bq));
      out.evaluations += 1;
      out.stat("C16:c2v:off-centre");
      if let Some(bq) = bq {
        // the oracle's own "true" distance is computed in doubles from coordinates of magnitude ~1: its relative
        // error grows like ulp(1) * nside (cells of size ~1/nside), which matters where the envelope is tight
        let tol = 1e-12 + 2e-15 * ((1u64 << depth) as f64);
        if !(bq >= t * (1.0 - tol) - 1e-15) {
          let ratio = bq / t;
          let nside = 1u64 << depth;
          let (d0, mut i, mut j) = (h >> (2 * depth), 0u64, 0u64);
          for b in 0..depth as u64 { i |= ((h >> (2 * b)) & 1) << b; j |= ((h >> (2 * b + 1)) & 1) << b; }
          // distance (in cells) to the pole along the two seams of the base cell
          let (k, m) = if d0 < 4 { (nside - 1 - i, nside - 1 - j) } else { (i, j) };
          let (kmin, kmax) = (k.min(m), k.max(m));
          let on_transition_ring = (c.1.abs() - TRANSITION_LATITUDE).abs() < 1e-12;
          let polar_side = q.1.abs() >= TRANSITION_LATITUDE;
          let nf = nside as f64;
          // findings F23 / F24, each with the floor observed on the unchanged code: anything worse, or anywhere else, is new
          let kind =
            if on_transition_ring && !polar_side { if ratio >= 0.82 { "C16:c2v:not-a-bound:off-centre:transition-ring-equatorial-side" } else { "C16:c2v:not-a-bound:off-centre:transition-ring-equatorial-side:worse-than-known" } }
            else if on_transition_ring { if ratio >= 1.0 - 0.25 / nf { "C16:c2v:not-a-bound:off-centre:polar-cap:transition-ring-polar-side" } else { "C16:c2v:not-a-bound:off-centre:polar-cap:transition-ring-polar-side:worse-than-known" } }
            else if c.1.abs() >= TRANSITION_LATITUDE && kmin == 0 && kmax <= 5 { if ratio >= 0.93 { "C16:c2v:not-a-bound:off-centre:polar-cap:seam-cells-next-to-pole" } else { "C16:c2v:not-a-bound:off-centre:polar-cap:seam-cells-next-to-pole:worse-than-known" } }
            else if c.1.abs() >= TRANSITION_LATITUDE && kmin == 0 && nside - kmax <= 4 { if ratio >= 1.0 - 0.25 / nf { "C16:c2v:not-a-bound:off-centre:polar-cap:seam-cells-next-to-transition-latitude" } else { "C16:c2v:not-a-bound:off-centre:polar-cap:seam-cells-next-to-transition-latitude:worse-than-known" } }
            else if c.1.abs() >= TRANSITION_LATITUDE { "C16:c2v:not-a-bound:off-centre:polar-cap" } else { "C16:c2v:not-a-bound:off-centre" };
          out.violation(kind, format!("{} position=({}, {}) offsets=({}, {})", inp, q.0, q.1, dx, dy), format!(">= {:e}", t), format!("{:e}", bq));
          break;
        }
      }
    }
  }
}

fn radius_case(out: &mut Out, rng: &mut Rng, depth: u8) {
  let p = gen_pos(rng);
  if !(p.lat.abs() <= PI / 2.0) { return; }
  let lon = p.lon - 2.0 * PI * (p.lon / (2.0 * PI)).floor(); // cell longitudes are >= 0
  let r = match rng.below(4) { 0 => 10f64.powf(-6.0 * rng.f01()), 1 => 0.3 * rng.f01(), 2 => (PI / 2.0 - p.lat.abs()) * (0.5 + rng.f01()), _ => 1e-3 * rng.f01() }.max(1e-12);
  let b = catch(|| largest_center_to_vertex_distance_with_radius(depth, lon, p.lat, r));
  out.rec(&format!("c2vr {} {} {} {}", depth, fbits(lon), fbits(p.lat), fbits(r)), &optf(b));
  let to = (depth + 1 + rng.below(3) as u8).min(30);
  let from = if rng.chance(0.3) { 0 } else { depth.min(to) };
  let bs = catch(|| largest_center_to_vertex_distances_with_radius(from, to, lon, p.lat, r).to_vec());
  out.rec(&format!("c2vs {} {} {} {} {}", from, to, fbits(lon), fbits(p.lat), fbits(r)), &match &bs { None => "panic".into(), Some(v) => if v.is_empty() { "-".into() } else { v.iter().map(|x| fbits(*x)).collect::<Vec<_>>().join(" ") } });
  out.evaluations += 1;
  out.stat("C16:with-radius");
  let inp = format!("depth={} lon={} lat={} radius={:e} class={}", depth, lon, p.lat, r, p.class);
  let (lat_abs, lat_max, lat_min) = (p.lat.abs(), p.lat.abs() + r, p.lat.abs() - r);
  const LAT_OF_SQUARE_CELL: f64 = 0.39934019947897773410_f64;
  // finding F7: in the branch straddling LAT_OF_SQUARE_CELL one of the two helpers' debug assertions always fails
  let straddle = depth > 0 && lat_max < TRANSITION_LATITUDE && lat_min < LAT_OF_SQUARE_CELL && lat_max > LAT_OF_SQUARE_CELL;
  let _ = lat_abs;
  let b = match b { Some(b) => b, None => { if cfg!(debug_assertions) { out.violation(if straddle { "C16:with_radius:debug-panic:straddle-lat-of-square-cell" } else { "C16:with_radius:debug-panic" }, inp, "a bound".into(), "panic".into()); } else { out.violation("C16:with_radius:panic", inp, "a bound".into(), "panic".into()); } return; } };
  // finding F12: the polar-cap branch (lat_max >= transition latitude) adds the radius to a longitude offset
  let npc_branch = lat_max >= TRANSITION_LATITUDE;
  // agrees with the vector variant depth by depth
  if let Some(v) = &bs { if depth >= from && depth < to { let k = (depth - from) as usize; if k < v.len() && v[k].to_bits() != b.to_bits() { out.violation("C16:with_radius:vector-variant", inp.clone(), fbits(b), fbits(v[k])); } } }
  // bounds every cell whose centre lies within the radius
  let l = get_or_create(depth);
  for _ in 0..6 {
    let (dl, db) = ((rng.f01() * 2.0 - 1.0) * r, (rng.f01() * 2.0 - 1.0) * r);
    let q = (lon + dl / p.lat.cos().abs().max(1e-3), (p.lat + db).max(-PI / 2.0).min(PI / 2.0));
    if q.0.abs() > 8.0 * PI { continue; } // beyond "a few turns": outside the quantifier of the hash property
    let h = match catch(|| l.hash(q.0, q.1)) { Some(h) => h, None => continue };
    if h >= (12u64 << (2 * depth as u32)) { out.violation("C16:hash-out-of-range", format!("depth={} lon={} ({}) lat={} ({})", depth, q.0, fbits(q.0), q.1, fbits(q.1)), "a valid cell".into(), h.to_string()); continue; }
    let c = l.center(h);
    if hav(c, (lon, p.lat)) <= r {
      let t = true_c2v(depth, h);
      if !(b >= t * (1.0 - 1e-12) - 1e-15) { out.violation(if npc_branch { "C16:with_radius:not-a-bound:polar-cap-branch" } else { "C16:with_radius:not-a-bound" }, format!("{} cell={}", inp, h), format!(">= {:e}", t), format!("{:e}", b)); break; }
    }
  }
}

/// threshold of depth d recovered from the implementation by bisection: the smallest r with best_starting_depth(r) < d
fn threshold(d: u8) -> Option<f64> {
  // T[d] = inf { r : bsd(r) < d }  (for d >= 1); for d = 0 the limit of has_best_starting_depth
  let f = |r: f64| -> bool { if d == 0 { !has_best_starting_depth(r) } else { match catch(|| best_starting_depth(r)) { Some(v) => v < d, None => true } } };
  let (mut lo, mut hi) = (0.0f64, 2.0f64);
  if f(lo) || !f(hi) { return None; }
  while ulp_step(lo, 1) < hi { let mid = lo + (hi - lo) / 2.0; if f(mid) { hi = mid; } else { lo = mid; } }
  Some(hi)
}

pub fn run(out: &mut Out, rng: &mut Rng, thorough: bool) {
  let dex = if thorough { 8 } else { 5 };
  for depth in 0..=dex { let nh = 12u64 << (2 * depth as u32); for h in 0..nh { cell_case(out, depth, h, "exhaustive"); } }
  for depth in (dex + 1)..=29 {
    for (h, tag) in crate::c04::cell_classes(depth, rng, if thorough { 6 } else { 1 }) { cell_case(out, depth, h, tag); }
  }
  for _ in 0..(if thorough { 100_000 } else { 6_000 }) { let d = rng.below(30) as u8; radius_case(out, rng, d); }
  // best_starting_depth: thresholds, monotone step function, guard
  let mut ths: Vec<f64> = Vec::new();
  for d in 0..=29u8 {
    let t = threshold(d);
    out.rec(&format!("bsdthreshold {}", d), &optf(t));
    match t { Some(t) => ths.push(t), None => { out.violation("C16:bsd:threshold", format!("depth={}", d), "a threshold".into(), "none".into()); ths.push(f64::NAN); } }
  }
  // the table against its documented definition: distance from (0, transition latitude), the W corner of the cell
  // (base cell 0, x = 0, y = nside - 1), to the nearest point of the NE edge of that cell, recomputed from the
  // cell-border path of the implementation (4096 points on the side, parabolic refinement is not needed at 1e-3)
  for d in 0..=29u8 {
    let l = get_or_create(d);
    let h: u64 = 0xAAAA_AAAA_AAAA_AAAAu64 & ((1u64 << (2 * d as u32)) - 1).max(0);
    let w = (0.0f64, TRANSITION_LATITUDE);
    let side = catch(|| l.path_along_cell_side(h, &cdshealpix::compass_point::Cardinal::E, &cdshealpix::compass_point::Cardinal::N, true, 4096));
    if let Some(side) = side {
      let geo = side.iter().map(|q| hav(*q, w)).fold(f64::INFINITY, f64::min);
      out.evaluations += 1;
      out.stat("C16:bsd:table-vs-geometry");
      let t = ths[d as usize];
      if !((t - geo).abs() <= 1e-3 * geo) {
        out.violation("C16:bsd:table-entry", format!("depth={} table entry {:e} ({})", d, t, fbits(t)), format!("{:e} (edge-to-opposite-edge distance of cell {} recomputed from its border, rel. tol. 1e-3)", geo, h), format!("{:e}", t));
      }
    }
  }
  for d in 1..30 { if !(ths[d] < ths[d - 1]) { out.violation("C16:bsd:table-not-decreasing", format!("depth={}", d), format!("< {}", ths[d - 1]), ths[d].to_string()); } }
  for k in 0..(if thorough { 200_000 } else { 20_000 }) {
    let r = match k % 4 {
      0 => { let d = rng.below(30) as usize; ulp_step(ths[d], rng.below(7) as i64 - 3) }
      1 => { let d = rng.below(30) as usize; ths[d] * (0.95 + 0.1 * rng.f01()) }
      2 => 10f64.powf(-10.0 * rng.f01()),
      _ => *rng.pick(&[0.0, -0.0, -1.0, 1.0, 0.85, f64::NAN, f64::INFINITY, 1e-300, 5e-324, 2.0]),
    };
    let v = catch(|| best_starting_depth(r));
    let hb = has_best_starting_depth(r);
    out.rec(&format!("bsd {}", fbits(r)), &match v { Some(v) => v.to_string(), None => "panic".into() });
    out.rec(&format!("hasbsd {}", fbits(r)), &(hb as u8).to_string());
    out.evaluations += 1;
    out.stat("C16:bsd");
    let inp = format!("r={:e} ({})", r, fbits(r));
    if v.is_some() != hb { out.violation("C16:bsd:guard", inp.clone(), format!("has_best_starting_depth = {}", hb), format!("{:?}", v)); }
    if let Some(d) = v {
      let d = d as usize;
      if d > 29 || !(r < ths[d]) || (d < 29 && r < ths[d + 1]) { out.violation("C16:bsd:not-deepest", inp, "deepest depth whose limit exceeds r".into(), d.to_string()); }
    }
  }
  // "a cone of radius r < T[d] is contained in the cell of its centre plus its neighbours at depth d"
  for _ in 0..(if thorough { 60_000 } else { 4_000 }) {
    let d = rng.below(30) as u8;
    let r = ths[d as usize] * (1.0 - 0.05 * rng.f01() * rng.f01()) * if rng.chance(0.2) { rng.f01() } else { 1.0 };
    if !(r > 0.0) { continue; }
    let p = gen_pos(rng);
    if !(p.lat.abs() <= PI / 2.0) { continue; }
    let l = get_or_create(d);
    let hc = match catch(|| l.hash(p.lon, p.lat)) { Some(h) => h, None => continue };
    let allowed: Vec<u64> = l.neighbours(hc, true).values_vec();
    out.evaluations += 1;
    out.stat("C16:nine-cells");
    for k in 0..24 {
      let az = 2.0 * PI * (k as f64) / 24.0;
      // destination point at angular distance 0.999 r
      let dd = 0.999 * r;
      let lat2 = (p.lat.sin() * dd.cos() + p.lat.cos() * dd.sin() * az.cos()).max(-1.0).min(1.0).asin();
      let lon2 = p.lon + (az.sin() * dd.sin() * p.lat.cos()).atan2(dd.cos() - p.lat.sin() * lat2.sin());
      if let Some(h) = catch(|| l.hash(lon2, lat2)) {
        if !allowed.contains(&h) { out.violation(if p.lat.abs() > TRANSITION_LATITUDE { "C16:nine-cells:polar-cap" } else { "C16:nine-cells" }, format!("depth={} centre=({}, {}) r={:e} azimuth={}", d, p.lon, p.lat, r, az), format!("cell of the centre ({}) or a neighbour", hc), h.to_string()); break; }
      }
    }
  }
}
