//! C07 (plain MOCs) and C08 (three-valued flags): logical operators.
use crate::util::*;
use crate::bm::*;
use cdshealpix::nested::bmoc::BMOC;

fn b_line(b: &B) -> String {
  let m = to_impl(b);
  bmoc_line(&m)
}

pub fn is_moc(b: &B) -> bool { b.cells.iter().all(|c| c.2) }

/// shape behind finding F1: `or`, a partial cell of one operand strictly contains cells of the other operand
pub fn f1_shape(a: &B, b: &B) -> bool {
  fn one(x: &B, y: &B) -> bool {
    for &(d, h, f) in &x.cells {
      if f { continue; }
      for &(d2, h2, _f2) in &y.cells {
        if d2 > d && (h2 >> (2 * (d2 - d) as u32)) == h { return true; }
      }
    }
    false
  }
  one(a, b) || one(b, a)
}

pub fn check_unary(out: &mut Out, prefix: &str, a: &B) {
  let ma = to_impl(a);
  let r = catch(|| ma.not());
  let req = format!("bmoc not {}", bmoc_line(&ma));
  out.evaluations += 1;
  match r {
    None => { out.rec(&req, "panic"); out.violation(&format!("{}:not:panic", prefix), req, "a BMOC".into(), "panic".into()); }
    Some(m) => {
      out.rec(&req, &bmoc_line(&m));
      judge(out, prefix, "not", &req, m.get_depth_max(), &m.entries, a.dmax,
            normalize(combine(&intervals_of_cells(&a.cells), &[], |x, _| t_not(x))), is_moc(a), false);
    }
  }
}

fn judge(out: &mut Out, prefix: &str, op: &str, req: &str, dmax: u8, entries: &[u64], want_dmax: u8, want: Vec<Iv>,
         moc: bool, f1: bool) {
  let tag = |k: &str| if f1 { format!("{}:{}:{}:f1shape", prefix, op, k) } else { format!("{}:{}:{}", prefix, op, k) };
  if dmax != want_dmax {
    out.violation(&tag("depth_max"), req.to_string(), want_dmax.to_string(), dmax.to_string());
  }
  if let Err(e) = wf_raw(dmax, entries) {
    out.violation(&tag("not-wf"), req.to_string(), "well-formed BMOC".into(), e);
    return;
  }
  let got = normalize(intervals_of_raw(dmax, entries).unwrap());
  if got != want {
    let k = got.iter().zip(want.iter()).position(|(x, y)| x != y).unwrap_or(got.len().min(want.len()));
    out.violation(&tag("wrong"), req.to_string(),
                  format!("interval #{}: {:?}", k, want.get(k)), format!("interval #{}: {:?} | result {}", k, got.get(k), raw_line(dmax, entries)));
  }
  if moc {
    // canonical: all flags full and no four full siblings
    if entries.iter().any(|e| e & 1 == 0) {
      out.violation(&tag("moc-flag"), req.to_string(), "all cells full".into(), raw_line(dmax, entries));
    }
    if !packed_raw(dmax, entries) {
      out.violation(&tag("not-packed"), req.to_string(), "no four full siblings".into(), raw_line(dmax, entries));
    }
  }
}

pub fn check_binary(out: &mut Out, prefix: &str, a: &B, b: &B, ops: &[&str]) {
  let (ma, mb) = (to_impl(a), to_impl(b));
  let (ia, ib) = (intervals_of_cells(&a.cells), intervals_of_cells(&b.cells));
  let moc = is_moc(a) && is_moc(b) && packed_raw(a.dmax, &ma.entries) && packed_raw(b.dmax, &mb.entries);
  for &op in ops {
    let r: Option<BMOC> = match op {
      "and" => catch(|| ma.and(&mb)),
      "or" => catch(|| ma.or(&mb)),
      "xor" => catch(|| ma.xor(&mb)),
      _ => unreachable!(),
    };
    let req = format!("bmoc {} {} {}", op, bmoc_line(&ma), bmoc_line(&mb));
    out.evaluations += 1;
    let f1 = op == "or" && f1_shape(a, b);
    match r {
      None => {
        out.rec(&req, "panic");
        out.violation(&format!("{}:{}:panic{}", prefix, op, if f1 { ":f1shape" } else { "" }), req, "a BMOC".into(), "panic".into());
      }
      Some(m) => {
        out.rec(&req, &bmoc_line(&m));
        let want = match op {
          "and" => combine(&ia, &ib, t_and),
          "or" => combine(&ia, &ib, t_or),
          _ => combine(&ia, &ib, t_xor),
        };
        judge(out, prefix, op, &req, m.get_depth_max(), &m.entries, a.dmax.max(b.dmax), want, moc, f1);
      }
    }
  }
}

/// algebraic laws on canonical MOCs, checked on the implementation through `equals`
fn laws(out: &mut Out, a: &B, b: &B) {
  let (ma, mb) = (to_impl(a), to_impl(b));
  let r = catch(|| {
    let mut bad: Vec<&'static str> = Vec::new();
    if !ma.not().not().equals(&ma) { bad.push("not-not"); }
    if a.dmax == b.dmax {
      if !ma.and(&mb).not().equals(&ma.not().or(&mb.not())) { bad.push("de-morgan-and"); }
      if !ma.or(&mb).not().equals(&ma.not().and(&mb.not())) { bad.push("de-morgan-or"); }
      if !ma.and(&mb).equals(&mb.and(&ma)) { bad.push("and-comm"); }
      if !ma.or(&mb).equals(&mb.or(&ma)) { bad.push("or-comm"); }
      if !ma.xor(&mb).equals(&mb.xor(&ma)) { bad.push("xor-comm"); }
    }
    if ma.xor(&ma).entries.len() != 0 { bad.push("xor-self"); }
    let all = ma.or(&ma.not());
    if !(all.entries.len() == 12 && (0..12).all(|k| decode_raw(all.entries[k], all.get_depth_max()) == Some((0, k as u64, true)))) { bad.push("or-not-allsky"); }
    bad
  });
  out.evaluations += 1;
  match r {
    None => out.violation("C07:laws:panic", format!("{} | {}", b_line(a), b_line(b)), "no panic".into(), "panic".into()),
    Some(bad) => for k in bad { out.violation(&format!("C07:laws:{}", k), format!("{} | {}", b_line(a), b_line(b)), "law holds".into(), "law fails".into()); }
  }
}

pub fn run_c07(out: &mut Out, rng: &mut Rng, thorough: bool) {
  let ops = ["and", "or", "xor"];
  // (1) exhaustive: every canonical MOC over base cell 0 with depth_max 1, other base cells absent, and over base
  //     cell 11; all ordered pairs
  for &base in &[0u64, 11u64] {
    let uni = universe(1, base, false, false, 100000);
    let bs: Vec<B> = uni.into_iter().map(|cells| B { dmax: 1, cells }).collect();
    for a in &bs { check_unary(out, "C07", a); out.stat("C07:universe1:not"); }
    for a in &bs { for b in &bs { check_binary(out, "C07", a, b, &ops); out.stat("C07:universe1:pairs"); } }
  }
  // (2) two-level universe (depth_max 2, base cell 0): sampled pairs
  let uni2: Vec<B> = universe(2, 0, false, false, if thorough { 4000 } else { 1200 }).into_iter().map(|cells| B { dmax: 2, cells }).collect();
  let n2 = if thorough { 200000 } else { 6000 };
  for a in uni2.iter().take(if thorough { 4000 } else { 300 }) { check_unary(out, "C07", a); out.stat("C07:universe2:not"); }
  for _ in 0..n2 {
    let a = rng.pick(&uni2).clone();
    let b = rng.pick(&uni2).clone();
    check_binary(out, "C07", &a, &b, &ops);
    out.stat("C07:universe2:pairs");
  }
  // (3) random deep trees, mixed depth_max, degenerate shapes
  let n3 = if thorough { 30000 } else { 1500 };
  let depths = [0u8, 1, 2, 3, 5, 8, 13, 21, 29];
  for k in 0..n3 {
    let da = *rng.pick(&depths);
    let db = if rng.chance(0.5) { da } else { *rng.pick(&depths) };
    let cfg = |d: u8, rng: &mut Rng| GenCfg { dmax: d, p_absent: 0.15 + 0.5 * rng.f01(), p_split: 0.2 + 0.6 * rng.f01(), p_partial: 0.0, allow_unpacked: false, partial_over_full_bias: false };
    let ca = cfg(da, rng); let cb = cfg(db, rng);
    let a = if k % 7 == 0 { gen_comb(rng, da, false) } else { gen_tree(rng, &ca) };
    let b = if k % 11 == 0 { gen_comb(rng, db, false) } else { gen_tree(rng, &cb) };
    // gen_comb may produce four full siblings: canonicalise through the implementation-independent route
    let a = canonical(&a); let b = canonical(&b);
    check_unary(out, "C07", &a);
    check_binary(out, "C07", &a, &b, &ops);
    if k % 5 == 0 { laws(out, &a, &b); }
    out.stat(&format!("C07:random:dmax{}x{}", da, db));
  }
  for &d in &depths {
    let sp = special_shapes(d);
    for a in &sp { check_unary(out, "C07", a); for b in &sp { check_binary(out, "C07", a, b, &ops); out.stat("C07:special"); } }
    for &d2 in &depths { if d2 != d { for a in special_shapes(d).iter() { for b in special_shapes(d2).iter() { check_binary(out, "C07", a, b, &ops); out.stat("C07:special-mixed"); } } } }
  }
}

/// canonical MOC of the same set (merge four full siblings bottom-up), independent of the implementation
pub fn canonical(b: &B) -> B {
  let mut cells = b.cells.clone();
  loop {
    let mut out: Vec<(u8, u64, bool)> = Vec::with_capacity(cells.len());
    let mut i = 0;
    let mut changed = false;
    while i < cells.len() {
      let (d, h, f) = cells[i];
      if d > 0 && f && h & 3 == 0 && i + 3 < cells.len()
        && cells[i + 1] == (d, h | 1, true) && cells[i + 2] == (d, h | 2, true) && cells[i + 3] == (d, h | 3, true) {
        out.push((d - 1, h >> 2, true));
        i += 4;
        changed = true;
      } else { out.push(cells[i]); i += 1; }
    }
    cells = out;
    if !changed { break; }
  }
  B { dmax: b.dmax, cells }
}

pub fn run_c08(out: &mut Out, rng: &mut Rng, thorough: bool) {
  let ops = ["and", "or", "xor"];
  // (1) exhaustive one-level universe with three states, packed and unpacked variants, base cells 0 and 11
  for &base in &[0u64, 11u64] {
    let uni = universe(1, base, true, true, 100000);
    let bs: Vec<B> = uni.into_iter().map(|cells| B { dmax: 1, cells }).collect();
    for a in &bs { check_unary(out, "C08", a); out.stat("C08:universe1:not"); }
    for a in &bs { for b in &bs { check_binary(out, "C08", a, b, &ops); out.stat("C08:universe1:pairs"); } }
    if base == 0 {
      // the other 11 base cells full in one operand
      for a in bs.iter().step_by(3) { for b in bs.iter().step_by(2) {
        let mut a2 = a.clone(); for k in 1..12 { a2.cells.push((0, k, true)); }
        check_binary(out, "C08", &a2, b, &ops); out.stat("C08:universe1:others-full");
      } }
    }
  }
  // (2) two-level universe with flags, sampled
  let uni2: Vec<B> = universe(2, 0, true, true, if thorough { 20000 } else { 3000 }).into_iter().map(|cells| B { dmax: 2, cells }).collect();
  for _ in 0..(if thorough { 300000 } else { 6000 }) {
    let a = rng.pick(&uni2).clone();
    let b = rng.pick(&uni2).clone();
    check_binary(out, "C08", &a, &b, &ops);
    out.stat("C08:universe2:pairs");
  }
  for a in uni2.iter().take(if thorough { 20000 } else { 500 }) { check_unary(out, "C08", a); out.stat("C08:universe2:not"); }
  // (3) random trees with flag mixes, incl. partial coarse cells over full fine cells (mixed depth_max)
  let depths = [1u8, 2, 3, 4, 6, 9, 14, 29];
  for k in 0..(if thorough { 40000 } else { 2000 }) {
    let da = *rng.pick(&depths);
    let db = if rng.chance(0.4) { da } else { *rng.pick(&depths) };
    let ca = GenCfg { dmax: da, p_absent: 0.1 + 0.4 * rng.f01(), p_split: 0.15 + 0.5 * rng.f01(), p_partial: 0.2 + 0.6 * rng.f01(), allow_unpacked: rng.chance(0.5), partial_over_full_bias: true };
    let cb = GenCfg { dmax: db, p_absent: 0.1 + 0.4 * rng.f01(), p_split: 0.3 + 0.5 * rng.f01(), p_partial: 0.1 + 0.3 * rng.f01(), allow_unpacked: rng.chance(0.5), partial_over_full_bias: true };
    let a = if k % 9 == 0 { gen_comb(rng, da, true) } else { gen_tree(rng, &ca) };
    let b = if k % 13 == 0 { gen_comb(rng, db, true) } else { gen_tree(rng, &cb) };
    check_unary(out, "C08", &a);
    check_binary(out, "C08", &a, &b, &ops);
    check_binary(out, "C08", &b, &a, &ops);
    out.stat(&format!("C08:random:dmax{}x{}", da, db));
  }
}
