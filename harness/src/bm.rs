//! BMOC helpers shared by C07, C08, C09, C15 (and the coverage properties): construction through the public
//! builder, random/exhaustive tree generators, an independent interval-based oracle.
use crate::util::*;
use cdshealpix::nested::bmoc::*;

#[derive(Clone, Debug, PartialEq)]
pub struct B {
  pub dmax: u8,
  pub cells: Vec<(u8, u64, bool)>, // (depth, hash, full) in z-order
}

pub fn to_impl(b: &B) -> BMOC {
  let mut builder = BMOCBuilderUnsafe::new(b.dmax, b.cells.len().max(1));
  for &(d, h, f) in &b.cells { builder.push(d, h, f); }
  builder.to_bmoc()
}

/// independent decoding of a raw value (sentinel bit position gives the depth)
pub fn decode_raw(raw: u64, dmax: u8) -> Option<(u8, u64, bool)> {
  let full = raw & 1 == 1;
  let v = raw >> 1;
  if v == 0 { return None; }
  let tz = v.trailing_zeros();
  if tz % 2 != 0 { return None; }
  let dd = (tz / 2) as u8;
  if dd > dmax { return None; }
  Some((dmax - dd, v >> (tz + 1), full))
}

pub fn raw_line(dmax: u8, entries: &[u64]) -> String {
  let mut s = format!("{} {}", dmax, entries.len());
  for e in entries { s.push(' '); s.push_str(&e.to_string()); }
  s
}

pub fn bmoc_line(m: &BMOC) -> String { raw_line(m.get_depth_max(), &m.entries) }

/// state: 0 absent, 1 partial, 2 full.  Intervals at depth 29 (so that operands of different depth_max compare).
pub type Iv = (u64, u64, u8);

pub fn intervals_of_cells(cells: &[(u8, u64, bool)]) -> Vec<Iv> {
  let mut v = Vec::with_capacity(cells.len());
  for &(d, h, f) in cells {
    let s = 2 * (29 - d as u32);
    v.push((h << s, (h + 1) << s, if f { 2 } else { 1 }));
  }
  v
}

pub fn intervals_of_raw(dmax: u8, entries: &[u64]) -> Option<Vec<Iv>> {
  let mut cells = Vec::with_capacity(entries.len());
  for &e in entries { cells.push(decode_raw(e, dmax)?); }
  Some(intervals_of_cells(&cells))
}

/// merge adjacent intervals of equal state, drop absent
pub fn normalize(mut v: Vec<Iv>) -> Vec<Iv> {
  v.retain(|x| x.2 != 0 && x.0 < x.1);
  let mut out: Vec<Iv> = Vec::with_capacity(v.len());
  for x in v {
    if let Some(l) = out.last_mut() {
      if l.1 == x.0 && l.2 == x.2 { l.1 = x.1; continue; }
    }
    out.push(x);
  }
  out
}

const TOP: u64 = 12u64 << 58;

/// pointwise combination of two sorted disjoint interval lists over [0, 12*4^29)
pub fn combine<F: Fn(u8, u8) -> u8>(a: &[Iv], b: &[Iv], f: F) -> Vec<Iv> {
  let mut pts: Vec<u64> = vec![0, TOP];
  for x in a.iter().chain(b.iter()) { pts.push(x.0); pts.push(x.1); }
  pts.sort_unstable();
  pts.dedup();
  let mut out = Vec::new();
  let (mut ia, mut ib) = (0usize, 0usize);
  for w in pts.windows(2) {
    let (s, e) = (w[0], w[1]);
    while ia < a.len() && a[ia].1 <= s { ia += 1; }
    while ib < b.len() && b[ib].1 <= s { ib += 1; }
    let sa = if ia < a.len() && a[ia].0 <= s { a[ia].2 } else { 0 };
    let sb = if ib < b.len() && b[ib].0 <= s { b[ib].2 } else { 0 };
    out.push((s, e, f(sa, sb)));
  }
  normalize(out)
}

pub fn t_not(a: u8) -> u8 { match a { 0 => 2, 2 => 0, _ => 1 } }
pub fn t_and(a: u8, b: u8) -> u8 { a.min(b) }
pub fn t_or(a: u8, b: u8) -> u8 { a.max(b) }
pub fn t_xor(a: u8, b: u8) -> u8 {
  match (a, b) { (0, x) => x, (x, 0) => x, (2, 2) => 0, _ => 1 }
}

/// well-formedness of raw entries: decodable, depth <= dmax, hash < 12*4^depth, strictly increasing, disjoint
pub fn wf_raw(dmax: u8, entries: &[u64]) -> Result<(), String> {
  let mut prev_end = 0u64;
  let mut prev_raw: Option<u64> = None;
  for (k, &e) in entries.iter().enumerate() {
    let (d, h, _) = decode_raw(e, dmax).ok_or(format!("entry {} ({}) is not decodable at depth_max {}", k, e, dmax))?;
    if d > dmax { return Err(format!("entry {} depth {} > depth_max {}", k, d, dmax)); }
    if h >= (12u64 << (2 * d as u32)) { return Err(format!("entry {}: hash {} >= 12*4^{}", k, h, d)); }
    let s = 2 * (29 - d as u32);
    let (lo, hi) = (h << s, (h + 1) << s);
    if let Some(p) = prev_raw { if e <= p { return Err(format!("entry {} not strictly increasing", k)); } }
    if lo < prev_end { return Err(format!("entry {} overlaps or precedes the previous cell", k)); }
    prev_end = hi;
    prev_raw = Some(e);
  }
  Ok(())
}

/// no four full siblings
pub fn packed_raw(dmax: u8, entries: &[u64]) -> bool {
  let cells: Vec<_> = entries.iter().filter_map(|&e| decode_raw(e, dmax)).collect();
  for w in cells.windows(4) {
    let (d, h, f) = w[0];
    if d > 0 && f && h & 3 == 0 && w[1] == (d, h | 1, true) && w[2] == (d, h | 2, true) && w[3] == (d, h | 3, true) {
      return false;
    }
  }
  true
}

// ---------------------------------------------------------------------------------------------
// generators

#[derive(Clone, Copy)]
pub struct GenCfg {
  pub dmax: u8,
  pub p_absent: f64,
  pub p_split: f64,
  pub p_partial: f64,   // among leaves
  pub allow_unpacked: bool,
  pub partial_over_full_bias: bool,
}

fn gen_rec(rng: &mut Rng, cfg: &GenCfg, d: u8, h: u64, out: &mut Vec<(u8, u64, bool)>, force_budget: &mut i64) {
  if *force_budget <= 0 { return; }
  let r = rng.f01();
  let can_split = d < cfg.dmax;
  // deeper levels split less so that trees stay small
  let p_split = if can_split { cfg.p_split / (1.0 + (d as f64) * 0.08) } else { 0.0 };
  if r < cfg.p_absent { return; }
  if r < cfg.p_absent + p_split {
    let start = out.len();
    for k in 0..4 { gen_rec(rng, cfg, d + 1, (h << 2) | k, out, force_budget); }
    // canonical form: four full children => merge unless unpacked inputs are allowed
    if !cfg.allow_unpacked && out.len() == start + 4
      && (0..4).all(|k| out[start + k] == (d + 1, (h << 2) | k as u64, true)) {
      out.truncate(start);
      out.push((d, h, true));
    }
    return;
  }
  *force_budget -= 1;
  out.push((d, h, !rng.chance(cfg.p_partial)));
}

pub fn gen_tree(rng: &mut Rng, cfg: &GenCfg) -> B {
  let mut cells = Vec::new();
  let mut budget = 400i64;
  for b in 0..12u64 { gen_rec(rng, cfg, 0, b, &mut cells, &mut budget); }
  B { dmax: cfg.dmax, cells }
}

/// comb-shaped tree: one deep path, forcing long go_up/go_down runs
pub fn gen_comb(rng: &mut Rng, dmax: u8, partial: bool) -> B {
  let mut cells = Vec::new();
  let base = rng.below(12);
  let mut h = base;
  let mut path = Vec::new();
  for _ in 0..dmax { h = (h << 2) | rng.below(4); path.push(h); }
  // siblings along the path randomly present
  let mut all: Vec<(u8, u64, bool)> = Vec::new();
  let mut hh = base;
  for (k, &p) in path.iter().enumerate() {
    let d = (k + 1) as u8;
    for s in 0..4u64 {
      let c = (hh << 2) | s;
      if c != p && rng.chance(0.5) { all.push((d, c, !(partial && rng.chance(0.4)))); }
    }
    hh = p;
  }
  all.push((dmax, *path.last().unwrap_or(&base), !(partial && rng.chance(0.3))));
  if dmax == 0 { all.clear(); all.push((0, base, true)); }
  all.sort_by_key(|&(d, h, _)| h << (2 * (29 - d as u32)));
  cells.extend(all);
  for b in 0..12u64 { if b != base && rng.chance(0.3) { cells.push((0, b, !(partial && rng.chance(0.3)))); } }
  cells.sort_by_key(|&(d, h, _)| h << (2 * (29 - d as u32)));
  B { dmax, cells }
}

pub fn special_shapes(dmax: u8) -> Vec<B> {
  let n = 12u64 << (2 * dmax as u32);
  vec![
    B { dmax, cells: vec![] },
    B { dmax, cells: (0..12).map(|b| (0u8, b as u64, true)).collect() },
    B { dmax, cells: vec![(dmax, 0, true)] },
    B { dmax, cells: vec![(dmax, n - 1, true)] },
    B { dmax, cells: vec![(dmax, n / 2, true)] },
    B { dmax, cells: vec![(0, 0, true), (dmax, n - 1, true)] },
  ]
}

/// every BMOC over base cell `base` down to depth `dmax` (three states per leaf, optional refinement), the other
/// base cells taken from `others` (same state for all).  `with_partial` = false restricts to canonical MOCs.
pub fn universe(dmax: u8, base: u64, with_partial: bool, allow_unpacked: bool, limit: usize) -> Vec<Vec<(u8, u64, bool)>> {
  fn rec(d: u8, h: u64, dmax: u8, with_partial: bool, allow_unpacked: bool, limit: usize) -> Vec<Vec<(u8, u64, bool)>> {
    let mut res: Vec<Vec<(u8, u64, bool)>> = vec![vec![], vec![(d, h, true)]];
    if with_partial { res.push(vec![(d, h, false)]); }
    if d < dmax {
      let subs: Vec<Vec<Vec<(u8, u64, bool)>>> = (0..4).map(|k| rec(d + 1, (h << 2) | k, dmax, with_partial, allow_unpacked, limit)).collect();
      'outer: for a in &subs[0] { for b in &subs[1] { for c in &subs[2] { for e in &subs[3] {
        let mut v = Vec::with_capacity(a.len() + b.len() + c.len() + e.len());
        v.extend_from_slice(a); v.extend_from_slice(b); v.extend_from_slice(c); v.extend_from_slice(e);
        if v.is_empty() { continue; } // same as absent
        let four_full = v.len() == 4 && (0..4).all(|k| v[k] == (d + 1, (h << 2) | k as u64, true));
        if four_full && !allow_unpacked { continue; }
        res.push(v);
        if res.len() >= limit { break 'outer; }
      }}}}
    }
    res
  }
  rec(0, base, dmax, with_partial, allow_unpacked, limit)
}
