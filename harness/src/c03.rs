//! C03 (cell geometry accessors) and C19 (bilinear interpolation).
use crate::util::*;
use crate::pos::*;
use crate::c01::in_cell;
use crate::c04::cell_classes;
use cdshealpix::compass_point::{Cardinal, MainWind};
use cdshealpix::nested::get_or_create;
use std::f64::consts::PI;

fn pair(p: &Option<(f64, f64)>) -> String { match p { Some((a, b)) => format!("{} {}", fbits(*a), fbits(*b)), None => "panic".into() } }
fn plist(p: &Option<Vec<(f64, f64)>>) -> String {
  match p { None => "panic".into(), Some(v) => if v.is_empty() { "-".into() } else { v.iter().map(|(a, b)| format!("{} {}", fbits(*a), fbits(*b))).collect::<Vec<_>>().join(" ") } }
}
fn card(k: usize) -> Cardinal { match k { 0 => Cardinal::S, 1 => Cardinal::E, 2 => Cardinal::N, _ => Cardinal::W } }

fn vec3(lon: f64, lat: f64) -> [f64; 3] { [lat.cos() * lon.cos(), lat.cos() * lon.sin(), lat.sin()] }
fn ang(a: (f64, f64), b: (f64, f64)) -> f64 {
  let (u, v) = (vec3(a.0, a.1), vec3(b.0, b.1));
  let d = ((u[0] - v[0]).powi(2) + (u[1] - v[1]).powi(2) + (u[2] - v[2]).powi(2)).sqrt();
  2.0 * (d / 2.0).min(1.0).asin()
}

pub fn cell_case(out: &mut Out, rng: &mut Rng, depth: u8, h: u64, tag: &str) {
  let l = get_or_create(depth);
  let nh = 12u64 << (2 * depth as u32);
  let inp = format!("depth={} hash={} class={}", depth, h, tag);
  out.evaluations += 1;
  out.stat(&format!("C03:{}", tag));
  let c = catch(|| l.center(h));
  out.rec(&format!("center {} {}", depth, h), &pair(&c));
  let cp = catch(|| l.center_of_projected_cell(h));
  out.rec(&format!("cpc {} {}", depth, h), &pair(&cp));
  let vs = catch(|| l.vertices(h).to_vec());
  out.rec(&format!("vertices {} {}", depth, h), &plist(&vs));
  if h >= nh {
    if c.is_some() || vs.is_some() || cp.is_some() { out.violation("C03:no-guard", inp, "panic".into(), "a value".into()); }
    let sc = catch(|| l.sph_coo(h, 0.5, 0.5));
    out.rec(&format!("sphcoo {} {} {} {}", depth, h, fbits(0.5), fbits(0.5)), &pair(&sc));
    if sc.is_some() { out.violation("C03:no-guard:sph_coo", format!("depth={} hash={}", depth, h), "panic".into(), "a value".into()); }
    return;
  }
  let (c, vs) = match (c, vs) { (Some(c), Some(vs)) => (c, vs), _ => { out.violation("C03:panic", inp, "values".into(), "panic".into()); return; } };
  // centre hashes back
  let hc = catch(|| l.hash(c.0, c.1));
  if hc != Some(h) { out.violation("C03:hash(center)", inp.clone(), h.to_string(), format!("{:?}", hc)); }
  // vertices agree whichever accessor returns them
  for k in 0..4 {
    let v = catch(|| l.vertex(h, card(k)));
    out.rec(&format!("vertex {} {} {}", depth, h, k), &pair(&v));
    match v { Some(v) => if ang(v, vs[k]) > 1e-13 { out.violation("C03:vertex-vs-vertices", format!("{} vertex={}", inp, k), format!("{:?}", vs[k]), format!("{:?}", v)); }, None => out.violation("C03:vertex:panic", inp.clone(), "vertex".into(), "panic".into()) }
  }
  // ... also through `vertices_map`, for every subset of the four directions (16 sets): exactly the requested keys,
  // each with the vertex of ITS direction
  for mask in 0..16u32 {
    if !(tag == "exhaustive" || mask == 15 || (h + mask as u64) % 5 == 0) { continue; }
    let m = catch(|| { let mut set = cdshealpix::compass_point::CardinalSet::new(); for k in 0..4 { if (mask >> k) & 1 == 1 { set.set(card(k), true); } }
      let map = l.vertices_map(h, set); (0..4).map(|k| map.get(card(k)).cloned()).collect::<Vec<Option<(f64, f64)>>>() });
    out.rec(&format!("vmap {} {} {}", depth, h, mask), &match &m { None => "panic".into(), Some(v) => v.iter().map(|o| match o { Some((a, b)) => format!("{} {}", fbits(*a), fbits(*b)), None => "-".into() }).collect::<Vec<_>>().join(" ; ") });
    out.stat("C03:vertices_map");
    match m {
      None => out.violation("C03:vertices_map:panic", format!("{} set={:04b}", inp, mask), "a map".into(), "panic".into()),
      Some(v) => for k in 0..4 {
        let want = if (mask >> k) & 1 == 1 { Some(vs[k]) } else { None };
        let ok = match (v[k], want) { (None, None) => true, (Some(a), Some(b)) => ang(a, b) <= 1e-13, _ => false };
        if !ok { out.violation("C03:vertices_map", format!("{} set={:04b} direction={}", inp, mask, k), format!("{:?}", want), format!("{:?}", v[k])); break; }
      }
    }
  }
  // interior offsets hash back, sph_coo inverts hash_with_dxdy
  let offs = [0.5, 0.25, 0.75, 1e-6, 0.999999, 0.125, 0.875];
  for _ in 0..3 {
    let (dx, dy) = (*rng.pick(&offs), *rng.pick(&offs));
    let p = catch(|| l.sph_coo(h, dx, dy));
    out.rec(&format!("sphcoo {} {} {} {}", depth, h, fbits(dx), fbits(dy)), &pair(&p));
    match p {
      None => out.violation("C03:sph_coo:panic", inp.clone(), "a position".into(), "panic".into()),
      Some(p) => {
        // far from the borders in units of the rounding error only
        let margin = dx.min(dy).min(1.0 - dx).min(1.0 - dy);
        let hb = catch(|| l.hash(p.0, p.1));
        if hb != Some(h) && margin * 1.0 > (1u64 << depth) as f64 * 4e-15 { out.violation("C03:hash(sph_coo)", format!("{} dx={} dy={}", inp, dx, dy), h.to_string(), format!("{:?}", hb)); }
        let r = catch(|| l.hash_with_dxdy(p.0, p.1));
        out.rec(&format!("hashdxdy {} {} {}", depth, fbits(p.0), fbits(p.1)), &match &r { Some((a, b, c)) => format!("{} {} {}", a, fbits(*b), fbits(*c)), None => "panic".into() });
        match r {
          None => out.violation("C03:hash_with_dxdy:panic", inp.clone(), "a result".into(), "panic".into()),
          Some((h2, dx2, dy2)) => {
            if h2 != h && margin > (1u64 << depth) as f64 * 4e-15 { out.violation("C03:hash_with_dxdy:cell", format!("{} dx={} dy={}", inp, dx, dy), h.to_string(), h2.to_string()); }
            if h2 == h && ((dx2 - dx).abs() > 1e-6 + (1u64 << depth) as f64 * 1e-14 || (dy2 - dy).abs() > 1e-6 + (1u64 << depth) as f64 * 1e-14) { out.violation("C03:hash_with_dxdy:offsets", format!("{} dx={} dy={}", inp, dx, dy), format!("{} {}", dx, dy), format!("{} {}", dx2, dy2)); }
          }
        }
      }
    }
  }
  // path along the edge: end points are the vertices; points nudged inwards hash back
  let nseg = 1 + rng.below(4) as u32;
  for cw in [false, true].iter() {
    let start = rng.below(4) as usize;
    let pe = catch(|| l.path_along_cell_edge(h, &card(start), *cw, nseg).to_vec());
    out.rec(&format!("pathedge {} {} {} {} {}", depth, h, start, *cw as u8, nseg), &plist(&pe));
    if let Some(pe) = pe {
      if pe.len() != 4 * nseg as usize { out.violation("C03:path_edge:length", inp.clone(), (4 * nseg).to_string(), pe.len().to_string()); }
      else {
        for side in 0..4usize {
          let vi = if *cw { (start + 4 - side) % 4 } else { (start + side) % 4 };
          // clockwise from S is S, W, N, E: indices S=0 E=1 N=2 W=3 => clockwise = -1 modulo 4 in (S,E,N,W)?  S->W->N->E = 0,3,2,1
          if ang(pe[side * nseg as usize], vs[vi]) > 1e-13 { out.violation("C03:path_edge:vertex", format!("{} start={} cw={} side={}", inp, start, cw, side), format!("{:?}", vs[vi]), format!("{:?}", pe[side * nseg as usize])); }
        }
        if let Some(cpp) = cp { for p in pe.iter() { nudge_check(out, depth, h, cpp, *p, &inp, "C03:path-point"); } }
      }
    } else { out.violation("C03:path_edge:panic", inp.clone(), "a path".into(), "panic".into()); }
  }
  let (f, t) = (rng.below(4) as usize, rng.below(4) as usize);
  if f != t {
    let ps = catch(|| l.path_along_cell_side(h, &card(f), &card(t), true, nseg).to_vec());
    out.rec(&format!("pathside {} {} {} {} 1 {}", depth, h, f, t, nseg), &plist(&ps));
    if let Some(ps) = ps {
      if ps.len() != nseg as usize + 1 || ang(ps[0], vs[f]) > 1e-13 || ang(ps[nseg as usize], vs[t]) > 1e-13 { out.violation("C03:path_side", format!("{} from={} to={}", inp, f, t), "from/to vertices".into(), format!("{} points", ps.len())); }
    }
  }
  let ng = 1 + rng.below(3) as u16;
  let g = catch(|| l.grid(h, ng).to_vec());
  out.rec(&format!("grid {} {} {}", depth, h, ng), &plist(&g));
  match g {
    None => out.violation("C03:grid:panic", inp.clone(), "a grid".into(), "panic".into()),
    Some(g) => {
      let n = ng as usize + 1;
      if g.len() != n * n { out.violation("C03:grid:length", inp.clone(), (n * n).to_string(), g.len().to_string()); }
      else {
        // corners: (i=0,j=0)=S, (i=n-1,j=0)=E, (i=n-1,j=n-1)=N, (i=0,j=n-1)=W
        let corners = [(0usize, 0usize, 0usize), (n - 1, 0, 1), (n - 1, n - 1, 2), (0, n - 1, 3)];
        for &(i, j, k) in &corners { if ang(g[i * n + j], vs[k]) > 1e-13 { out.violation("C03:grid:corner", format!("{} corner={}", inp, k), format!("{:?}", vs[k]), format!("{:?}", g[i * n + j])); } }
        if let Some(cpp) = cp { for p in g.iter() { nudge_check(out, depth, h, cpp, *p, &inp, "C03:grid-point"); } }
      }
    }
  }
}

/// a point of the closed cell, moved towards the centre in the projection plane, must hash back to the cell
fn nudge_check(out: &mut Out, depth: u8, h: u64, c: (f64, f64), p: (f64, f64), inp: &str, kind: &str) {
  let l = get_or_create(depth);
  // skip the poles (the plane abscissa of a pole is arbitrary)
  if (PI / 2.0 - p.1.abs()) < 1e-9 { return; }
  let q = match catch(|| cdshealpix::proj(p.0, p.1)) { Some(q) => q, None => { out.violation(kind, inp.to_string(), "a plane point".into(), "proj panics".into()); return; } };
  let mut x = q.0 - 8.0 * (q.0 / 8.0).floor();
  // bring x next to the centre; in the caps the point may be expressed in the adjacent facet
  let mut dxc = x - c.0; if dxc > 4.0 { dxc -= 8.0; } if dxc < -4.0 { dxc += 8.0; }
  let n = (1u64 << depth) as f64;
  // one ulp of a plane abscissa (magnitude up to 8) is 1.8e-15 * n cells: 1e-6 of a cell at depth 29, so the tolerance grows with n
  let tol = 1e-6 + 64.0 * f64::EPSILON * n;
  if (dxc.abs() + (q.1 - c.1).abs()) * n > 1.0 + tol {
    if q.1.abs() > 1.0 {
      let xc = 2.0 * (x / 2.0).floor() + 1.0;
      for cand in [2.0 * xc + 2.0 - x, 2.0 * xc - 2.0 - x].iter() {
        let mut d2 = cand - 8.0 * (cand / 8.0).floor() - c.0; if d2 > 4.0 { d2 -= 8.0; } if d2 < -4.0 { d2 += 8.0; }
        if (d2.abs() + (q.1 - c.1).abs()) * n <= 1.0 + tol { dxc = d2; x = *cand; }
      }
    }
    if (dxc.abs() + (q.1 - c.1).abs()) * n > 1.0 + tol { out.violation(kind, inp.to_string(), "a point of the closed cell".into(), format!("plane point {:?} vs centre {:?}", q, c)); return; }
  }
  let _ = x;
  let t = 1.0 - 1e-3;
  let (nx, ny) = (c.0 + t * dxc, c.1 + t * (q.1 - c.1));
  let nx = nx - 8.0 * (nx / 8.0).floor();
  if let Some(s) = catch(|| cdshealpix::unproj(nx, ny.max(-2.0).min(2.0))) {
    let hb = catch(|| l.hash(s.0, s.1));
    if hb != Some(h) && depth <= 26 { out.violation(kind, format!("{} point={:?}", inp, p), h.to_string(), format!("{:?}", hb)); }
  }
}

/// positions concerned by finding F11: a polar cap (or the transition latitude) and a longitude within rounding
/// distance of a multiple of pi/2 (the seams between polar-cap facets), or a pole
pub fn is_cap_seam(lon: f64, lat: f64) -> bool {
  let t = lon * 2.0 / PI;
  (lat.abs() >= TRANSITION_LATITUDE - 1e-9 && (t - t.round()).abs() < 1e-9 * (1.0 + t.abs())) || (PI / 2.0 - lat.abs()) < 1e-9
}

pub fn pos_case(out: &mut Out, p: &Pos, depth: u8) {
  let l = get_or_create(depth);
  let r = catch(|| l.hash_with_dxdy(p.lon, p.lat));
  out.rec(&format!("hashdxdy {} {} {}", depth, fbits(p.lon), fbits(p.lat)), &match &r { Some((a, b, c)) => format!("{} {} {}", a, fbits(*b), fbits(*c)), None => "panic".into() });
  out.evaluations += 1;
  out.stat(&format!("C03:pos:{}", p.class));
  let inp = format!("depth={} lon={:e} ({}) lat={:e} ({}) class={}", depth, p.lon, fbits(p.lon), p.lat, fbits(p.lat), p.class);
  let valid = p.lat >= -PI / 2.0 && p.lat <= PI / 2.0;
  let seam = if is_cap_seam(p.lon, p.lat) { ":cap-seam" } else { "" };
  match r {
    None => if valid { out.violation(&format!("C03:hash_with_dxdy:panic{}", seam), inp, "a result".into(), "panic".into()); },
    Some((h, dx, dy)) => {
      if !valid { out.violation("C03:hash_with_dxdy:no-guard", inp, "panic".into(), h.to_string()); return; }
      let nh = 12u64 << (2 * depth as u32);
      if h >= nh { out.violation("C03:hash_with_dxdy:range", inp, format!("< {}", nh), h.to_string()); return; }
      let slack = 1e-9 + (1u64 << depth) as f64 * 4e-15 * (1.0 + p.lon.abs());
      if !(dx.is_finite() && dy.is_finite() && dx >= -slack && dx <= 1.0 + slack && dy >= -slack && dy <= 1.0 + slack) { out.violation(&format!("C03:hash_with_dxdy:offset-range{}", seam), inp.clone(), "finite offsets in [0, 1]".into(), format!("{} {}", dx, dy)); }
      let (xr, yr) = proj_ref(p.lon, p.lat);
      let tol = 1e-9 + (1u64 << depth) as f64 * 2e-14 * (1.0 + p.lon.abs());
      let (ok, ex) = in_cell(depth, h, xr, yr, tol);
      if !ok { out.violation(&format!("C03:hash_with_dxdy:not-in-cell{}", seam), inp.clone(), format!("within {:e}", tol), format!("{:e} outside", ex)); }
      // the cell given by hash unless the position is on a border
      let hh = catch(|| l.hash(p.lon, p.lat));
      if hh != Some(h) {
        if let Some(h1) = hh { let (ok1, _) = in_cell(depth, h1, xr, yr, tol); if !ok1 { out.violation(&format!("C03:hash-vs-hash_with_dxdy{}", seam), inp.clone(), h.to_string(), h1.to_string()); } else { out.stat("C03:border-position-two-cells"); } }
      }
      // sph_coo inverts whenever both offsets are below 1
      if dx >= 0.0 && dx < 1.0 && dy >= 0.0 && dy < 1.0 {
        let back = catch(|| l.sph_coo(h, dx, dy));
        out.rec(&format!("sphcoo {} {} {} {}", depth, h, fbits(dx), fbits(dy)), &pair(&back));
        match back {
          None => out.violation(&format!("C03:sph_coo(hash_with_dxdy):panic{}", seam), inp, "a position".into(), "panic".into()),
          Some(b) => {
            let lon_red = p.lon; // compare as sphere points
            let a = ang(b, (lon_red, p.lat));
            if a > 1e-13 * (1.0 + p.lon.abs()) + 2e-8 * ((PI / 2.0 - p.lat.abs()) < 1e-7) as u8 as f64 { out.violation(&format!("C03:sph_coo(hash_with_dxdy){}", seam), inp, format!("{} {}", p.lon, p.lat), format!("{} {} (angle {:e})", b.0, b.1, a)); }
          }
        }
      }
    }
  }
}

pub fn run_c03(out: &mut Out, rng: &mut Rng, thorough: bool) {
  let dex = if thorough { 6 } else { 3 };
  for depth in 0..=dex { let nh = 12u64 << (2 * depth as u32); for h in 0..nh { cell_case(out, rng, depth, h, "exhaustive"); } }
  for depth in (dex + 1)..=29 {
    for (h, tag) in cell_classes(depth, rng, if thorough { 4 } else { 0 }) { cell_case(out, rng, depth, h, tag); }
    let nh = 12u64 << (2 * depth as u32);
    for _ in 0..(if thorough { 200 } else { 20 }) { let hh = rng.below(nh); cell_case(out, rng, depth, hh, "random"); }
  }
  // out of range: just above n_hash, structured (base-cell field b >= 12 in every byte position: b, b + 16k, b + 256k,
  // so that a range test done on a truncated base-cell number is seen), uniformly random, extreme
  for depth in 0u8..=29 {
    let nh = 12u64 << (2 * depth as u32);
    let td = 2 * depth as u32;
    let mut bad: Vec<u64> = vec![nh, nh + 7, nh + rng.below(nh.max(1)), u64::MAX >> 2, u64::MAX];
    for _ in 0..(if thorough { 40 } else { 8 }) {
      let low = if td == 0 { 0 } else { rng.next() & ((1u64 << td) - 1) };
      let room = 64 - td; // bits available for the base-cell field
      let b = match rng.below(4) { 0 => 12 + rng.below(4), 1 => 16 * (1 + rng.below(15)) + rng.below(12), 2 => 256 * (1 + rng.below(255)) + rng.below(12), _ => (1u64 << (8 + rng.below(24) as u32)) + rng.below(12) };
      let b = if room >= 64 { b } else { b & ((1u64 << room) - 1) };
      let h = (b << td) | low;
      if h >= nh { bad.push(h); }
      let r = rng.next(); if r >= nh { bad.push(r); }
    }
    for h in bad { cell_case(out, rng, depth, h, "out-of-range"); }
  }
  for k in 0..(if thorough { 300_000 } else { 15_000 }) {
    let p = if k % 25 == 24 { gen_bad_pos(rng) } else { gen_pos(rng) };
    pos_case(out, &p, rng.below(30) as u8);
  }
}

// ---------------------------------------------------------------------------------------------
// C19

fn mwi(w: MainWind) -> usize { crate::c04::mw_index(&w) }

pub fn bilinear_case(out: &mut Out, p: &Pos, depth: u8) {
  let l = get_or_create(depth);
  let r = catch(|| l.bilinear_interpolation(p.lon, p.lat));
  out.rec(&format!("bilinear {} {} {}", depth, fbits(p.lon), fbits(p.lat)), &match &r { None => "panic".into(), Some(a) => a.iter().map(|(c, w)| format!("{} {}", c, fbits(*w))).collect::<Vec<_>>().join(" ") });
  out.evaluations += 1;
  out.stat(&format!("C19:{}", p.class));
  let inp = format!("depth={} lon={:e} ({}) lat={:e} ({}) class={}", depth, p.lon, fbits(p.lon), p.lat, fbits(p.lat), p.class);
  let valid = p.lat >= -PI / 2.0 && p.lat <= PI / 2.0;
  let a = match r { None => { if valid { out.violation("C19:panic", inp, "four pairs".into(), "panic".into()); } return; }, Some(a) => a };
  if !valid { out.violation("C19:no-guard", inp, "panic".into(), "a result".into()); return; }
  let (h, dx, dy) = match catch(|| l.hash_with_dxdy(p.lon, p.lat)) { Some(x) => x, None => return };
  let sum: f64 = a.iter().map(|x| x.1).sum();
  // offsets slightly outside [0, 1] on borders make slightly negative weights: tolerance scaled like C03's
  let slack = 1e-9 + (1u64 << depth) as f64 * 1e-14;
  if (sum - 1.0).abs() > 1e-15 * 8.0 + slack * 0.0 + 4.0 * f64::EPSILON { out.violation("C19:sum", inp.clone(), "1 (to rounding)".into(), format!("{:e} off", sum - 1.0)); }
  if a.iter().any(|x| !(x.1 >= -slack)) { out.violation("C19:negative-weight", inp.clone(), "weights >= 0".into(), format!("{:?}", a.iter().map(|x| x.1).collect::<Vec<_>>())); }
  let nm = match catch(|| l.neighbours(h, true)) { Some(m) => m, None => return };
  let allowed: Vec<u64> = nm.values_vec();
  if a.iter().any(|x| !allowed.contains(&x.0)) { out.violation("C19:cells", inp.clone(), "the cell or its neighbours".into(), format!("{:?}", a.iter().map(|x| x.0).collect::<Vec<_>>())); }
  // the same requirement without the crate's own neighbour code: every returned cell is `h` or shares a vertex with it
  let nh = 12u64 << (2 * depth as u32);
  for x in a.iter() {
    if x.0 == h { continue; }
    let ok = x.0 < nh && catch(|| crate::c04::shares_vertex(l, depth, h, x.0)).unwrap_or(false);
    if !ok { out.violation("C19:cell-not-adjacent", inp.clone(), format!("cell {} or a cell sharing a vertex with it", h), x.0.to_string()); break; }
  }
  if !a.iter().any(|x| x.0 == h) { out.violation("C19:cell-missing", inp.clone(), h.to_string(), format!("{:?}", a.iter().map(|x| x.0).collect::<Vec<_>>())); }
  if dx == 0.5 && dy == 0.5 {
    let wh: f64 = a.iter().filter(|x| x.0 == h).map(|x| x.1).sum();
    if wh != 1.0 { out.violation("C19:centre-weight", inp.clone(), "1".into(), wh.to_string()); }
  }
  // missing corner contributes weight 0
  let q = ((dy > 0.5) as usize) * 2 + (dx > 0.5) as usize;
  let cornerw = [MainWind::S, MainWind::E, MainWind::W, MainWind::N];
  let cslot = [0usize, 1, 2, 3][q];
  let cw = match q { 0 => MainWind::S, 1 => MainWind::E, 2 => MainWind::W, _ => MainWind::N };
  let _ = (&cornerw, mwi(MainWind::C));
  let corner_missing = nm.get(cw).is_none();
  if corner_missing {
    out.stat("C19:missing-corner");
    if !(a[cslot].0 == h && a[cslot].1 == 0.0) { out.violation("C19:missing-corner", inp.clone(), format!("slot {} = ({}, 0)", cslot, h), format!("{:?}", a[cslot])); }
  }
  // grid mean when the four cells lie in one base cell
  let b0 = h >> (2 * depth as u32);
  if a.iter().all(|x| x.0 >> (2 * depth as u32) == b0) && depth <= 26 {
    let de = |z: u64| -> (f64, f64) { let z = z & ((1u64 << (2 * depth as u32)) - 1); let (mut i, mut j) = (0u64, 0u64); for k in 0..32 { i |= ((z >> (2 * k)) & 1) << k; j |= ((z >> (2 * k + 1)) & 1) << k; } (i as f64 + 0.5, j as f64 + 0.5) };
    let (mut mi, mut mj) = (0.0, 0.0);
    for x in a.iter() { let (i, j) = de(x.0); mi += x.1 * i; mj += x.1 * j; }
    let (hi, hj) = de(h);
    let (wi, wj) = (hi - 0.5 + dx, hj - 0.5 + dy);
    if !corner_missing && ((mi - wi).abs() > 1e-6 || (mj - wj).abs() > 1e-6) { out.violation("C19:grid-mean", inp, format!("{} {}", wi, wj), format!("{} {}", mi, mj)); }
  }
}

pub fn run_c19(out: &mut Out, rng: &mut Rng, thorough: bool) {
  for _ in 0..(if thorough { 400_000 } else { 20_000 }) {
    let p = if rng.chance(0.03) { gen_bad_pos(rng) } else { gen_pos(rng) };
    bilinear_case(out, &p, rng.below(30) as u8);
  }
  // the 24 cells lacking a cardinal neighbour x 4 quadrants x interior / border offsets, and seams
  for depth in 0..=29u8 {
    let l = get_or_create(depth);
    for (h, tag) in cell_classes(depth, rng, 0) {
      if !tag.starts_with("corner") && rng.chance(0.6) { continue; }
      for &(dx, dy) in &[(0.25, 0.25), (0.75, 0.25), (0.25, 0.75), (0.75, 0.75), (0.5, 0.5), (1e-9, 0.3), (0.3, 0.999999999), (0.5, 0.75), (0.500001, 0.5)] {
        if let Some(p) = catch(|| l.sph_coo(h, dx, dy)) { bilinear_case(out, &Pos { lon: p.0, lat: p.1, class: "cell-quadrant" }, depth); }
      }
    }
  }
}
