//! hpxharness: drives the real crate in-process, writes the request/answer protocol files and the property
//! oracles' findings.   usage: hpxharness <property> <quick|thorough> <seed> <outdir>
mod util;
mod c18;
mod bm;
mod c07;
mod c15;
mod c10;
mod c04;
mod pos;
mod c17;
mod c01;
mod c03;
mod c16;
mod c20;
mod c11;
mod c05;
mod c12;

use util::*;

fn main() {
  let args: Vec<String> = std::env::args().collect();
  if args.len() < 5 {
    eprintln!("usage: hpxharness <property> <quick|thorough> <seed> <outdir>");
    std::process::exit(2);
  }
  let prop = args[1].as_str();
  let thorough = args[2] == "thorough";
  let seed: u64 = args[3].parse().unwrap_or(1);
  let dir = args[4].as_str();
  silence_panics();
  let mut out = Out::new(dir);
  let mut rng = Rng::new(seed.wrapping_mul(0x9E3779B97F4A7C15).wrapping_add(prop.bytes().map(|b| b as u64).sum::<u64>()));
  let profile = format!("{}{}", if is_debug() { "debug" } else { "release" }, if has_bmi2() { "+bmi2" } else { "" });
  out.rec(&format!("profile {} {}", if is_debug() { "debug" } else { "release" }, if has_bmi2() { "bmi2" } else { "lut" }), "ok");
  if prop == "C20" {
    // parent: one sub-process per batch (each slot of the two lazy tables can be used once per process)
    let nb = if thorough { 13 } else { 7 };
    let exe = std::env::current_exe().unwrap();
    for b in 0..nb {
      let sub = format!("{}/batch{}", dir, b);
      let st = std::process::Command::new(&exe).args(&["C20batch", &args[2], &args[3], &sub, &b.to_string()]).stdout(std::process::Stdio::null()).status();
      match st {
        Ok(s) if s.success() => {
          // merge the sub-process files
          let req = std::fs::read_to_string(format!("{}/req.txt", sub)).unwrap_or_default();
          let imp = std::fs::read_to_string(format!("{}/impl.txt", sub)).unwrap_or_default();
          for (r, a) in req.lines().zip(imp.lines()).skip(1) { out.rec(r, a); }
          if let Ok(o) = std::fs::read_to_string(format!("{}/oracle.json", sub)) {
            // cheap extraction of counts: evaluations and violations are re-derived from the text
            out.evaluations += req.lines().count() as u64 - 1;
            // distribution of the sub-process
            let mut rest = &o[..];
            while let Some(p) = rest.find("\"C20:") {
              let tail = &rest[p + 1..];
              if let Some(q) = tail.find("\":") {
                let key = &tail[..q];
                let num: String = tail[q + 2..].chars().take_while(|c| c.is_ascii_digit()).collect();
                if let Ok(n) = num.parse::<u64>() { if !key.contains("violation") { out.stat_n(key, n); } }
                rest = &tail[q..];
              } else { break; }
            }
            if let Some(p) = o.find("\"violations\":[") { let v = &o[p + 14..]; if !v.starts_with("]") { out.violation("C20:batch", format!("batch {}", b), "no violation".into(), v.chars().take(1200).collect()); } }
          }
        }
        _ => out.violation("C20:batch-crashed", format!("batch {}", b), "exit 0".into(), "crash".into()),
      }
      out.stat("C20:batches");
    }
    out.finish(dir, prop, &profile);
    return;
  }
  if prop == "C20batch" {
    let b: usize = args[5].parse().unwrap_or(0);
    let sched = c20::gen_schedules(&mut rng, b, thorough);
    if b == 0 { /* batch 0 also hosts nothing else */ }
    let nb = if thorough { 13 } else { 7 };
    if b + 1 == nb { c20::stress(&mut out); } else if b + 2 == nb { c20::cross(&mut out); } else { c20::run_batch(&mut out, &sched); }
    out.finish(dir, "C20", &profile);
    return;
  }
  match prop {
    "C18" => c18::run(&mut out, &mut rng, thorough),
    "C07" => c07::run_c07(&mut out, &mut rng, thorough),
    "C15" => c15::run_c15(&mut out, &mut rng, thorough),
    "C09" => c15::run_c09(&mut out, &mut rng, thorough),
    "C10" => c10::run(&mut out, &mut rng, thorough),
    "C04" => c04::run_c04(&mut out, &mut rng, thorough),
    "C14" => c04::run_c14(&mut out, &mut rng, thorough),
    "C17" => c17::run(&mut out, &mut rng, thorough),
    "C01" => c01::run_c01(&mut out, &mut rng, thorough),
    "C02" => c01::run_c02(&mut out, &mut rng, thorough),
    "C03" => c03::run_c03(&mut out, &mut rng, thorough),
    "C19" => c03::run_c19(&mut out, &mut rng, thorough),
    "C16" => c16::run(&mut out, &mut rng, thorough),
    "C11" => c11::run(&mut out, &mut rng, thorough),
    "C05" => c05::run(&mut out, &mut rng, thorough, "C05"),
    "C06" => c05::run(&mut out, &mut rng, thorough, "C06"),
    "C12" => c12::run_c12(&mut out, &mut rng, thorough),
    "C13" => c12::run_c13(&mut out, &mut rng, thorough),
    "C08" => c07::run_c08(&mut out, &mut rng, thorough),
    _ => { eprintln!("unknown property {}", prop); std::process::exit(2); }
  }
  out.finish(dir, prop, &profile);
}
