//! hpxharness: drives the real crate in-process, writes the request/answer protocol files and the property
//! oracles' findings.   usage: hpxharness <property> <quick|thorough> <seed> <outdir>
mod util;
mod c18;
mod bm;
mod c07;
mod c15;
mod c10;
mod c04;
mod pos;
mod c17;
mod c01;
mod c03;
mod c16;

use util::*;

fn main() {
  let args: Vec<String> = std::env::args().collect();
  if args.len() < 5 {
    eprintln!("usage: hpxharness <property> <quick|thorough> <seed> <outdir>");
    std::process::exit(2);
  }
  let prop = args[1].as_str();
  let thorough = args[2] == "thorough";
  let seed: u64 = args[3].parse().unwrap_or(1);
  let dir = args[4].as_str();
  silence_panics();
  let mut out = Out::new(dir);
  let mut rng = Rng::new(seed.wrapping_mul(0x9E3779B97F4A7C15).wrapping_add(prop.bytes().map(|b| b as u64).sum::<u64>()));
  let profile = format!("{}{}", if is_debug() { "debug" } else { "release" }, if has_bmi2() { "+bmi2" } else { "" });
  out.rec(&format!("profile {} {}", if is_debug() { "debug" } else { "release" }, if has_bmi2() { "bmi2" } else { "lut" }), "ok");
  match prop {
    "C18" => c18::run(&mut out, &mut rng, thorough),
    "C07" => c07::run_c07(&mut out, &mut rng, thorough),
    "C15" => c15::run_c15(&mut out, &mut rng, thorough),
    "C09" => c15::run_c09(&mut out, &mut rng, thorough),
    "C10" => c10::run(&mut out, &mut rng, thorough),
    "C04" => c04::run_c04(&mut out, &mut rng, thorough),
    "C14" => c04::run_c14(&mut out, &mut rng, thorough),
    "C17" => c17::run(&mut out, &mut rng, thorough),
    "C01" => c01::run_c01(&mut out, &mut rng, thorough),
    "C02" => c01::run_c02(&mut out, &mut rng, thorough),
    "C03" => c03::run_c03(&mut out, &mut rng, thorough),
    "C19" => c03::run_c19(&mut out, &mut rng, thorough),
    "C16" => c16::run(&mut out, &mut rng, thorough),
    "C08" => c07::run_c08(&mut out, &mut rng, thorough),
    _ => { eprintln!("unknown property {}", prop); std::process::exit(2); }
  }
  out.finish(dir, prop, &profile);
}
