//! Common helpers: PRNG, protocol writer, panic capture, JSON emission.
use std::collections::BTreeMap;
use std::fs::File;
use std::io::{BufWriter, Write};
use std::panic::{self, AssertUnwindSafe};

/// xorshift64* -- every random choice of a run derives from one state seeded by VERIF_SEED.
pub struct Rng(pub u64);
impl Rng {
  pub fn new(seed: u64) -> Rng {
    let mut r = Rng(seed ^ 0x9E37_79B9_7F4A_7C15);
    if r.0 == 0 { r.0 = 0x1234_5678_9ABC_DEF1; }
    for _ in 0..8 { r.next(); }
    r
  }
  pub fn next(&mut self) -> u64 {
    let mut x = self.0;
    x ^= x >> 12; x ^= x << 25; x ^= x >> 27;
    self.0 = x;
    x.wrapping_mul(0x2545_F491_4F6C_DD1D)
  }
  pub fn below(&mut self, n: u64) -> u64 { if n == 0 { 0 } else { self.next() % n } }
  pub fn range(&mut self, lo: u64, hi_incl: u64) -> u64 { lo + self.below(hi_incl - lo + 1) }
  pub fn f01(&mut self) -> f64 { (self.next() >> 11) as f64 / (1u64 << 53) as f64 }
  pub fn chance(&mut self, p: f64) -> bool { self.f01() < p }
  pub fn pick<'a, T>(&mut self, v: &'a [T]) -> &'a T { &v[self.below(v.len() as u64) as usize] }
}

pub fn catch<T, F: FnOnce() -> T>(f: F) -> Option<T> {
  panic::catch_unwind(AssertUnwindSafe(f)).ok()
}

static LAST_PANIC: std::sync::Mutex<String> = std::sync::Mutex::new(String::new());

/// `file:message` (path relative to the crate) of the most recent panic caught by [`catch`].
pub fn last_panic_site() -> String {
  LAST_PANIC.lock().map(|s| s.clone()).unwrap_or_default()
}

pub fn silence_panics() {
  let verbose = std::env::var("HPX_PANIC_VERBOSE").is_ok();
  let default = panic::take_hook();
  panic::set_hook(Box::new(move |info| {
    if let Some(l) = info.location() {
      let f = l.file();
      let f = f.rsplit_once("/src/").map(|(_, b)| b).unwrap_or(f);
      // file + message (not the line number: unrelated edits above the site must not change the identification)
      let msg = info.payload().downcast_ref::<&str>().map(|m| m.to_string()).or_else(|| info.payload().downcast_ref::<String>().cloned()).unwrap_or_default();
      let msg: String = msg.chars().take(80).map(|c| if c.is_ascii_alphanumeric() || "._<>=()".contains(c) { c } else { '_' }).collect();
      if let Ok(mut s) = LAST_PANIC.lock() { *s = format!("{}:{}", f, msg); }
    }
    if verbose { default(info); }
  }));
}

/// One violation found by a property oracle on the implementation.
#[derive(Clone)]
pub struct Violation {
  pub kind: String,
  pub input: String,
  pub expected: String,
  pub observed: String,
  /// the most recent request line recorded before the violation was raised (links the violation to the correspondence)
  pub req: String,
}

pub struct Out {
  pub req: BufWriter<File>,
  pub imp: BufWriter<File>,
  pub n_req: u64,
  pub evaluations: u64,
  pub stats: BTreeMap<String, u64>,
  pub violations: Vec<Violation>,
  pub samples: Vec<String>,
  pub distinct: std::collections::HashSet<u64>,
  pub last_req: String,
}

impl Out {
  pub fn new(dir: &str) -> Out {
    std::fs::create_dir_all(dir).unwrap();
    Out {
      req: BufWriter::new(File::create(format!("{}/req.txt", dir)).unwrap()),
      imp: BufWriter::new(File::create(format!("{}/impl.txt", dir)).unwrap()),
      n_req: 0, evaluations: 0, stats: BTreeMap::new(), violations: Vec::new(), samples: Vec::new(),
      distinct: std::collections::HashSet::new(), last_req: String::new(),
    }
  }
  /// record a request line and the implementation's canonical answer
  pub fn rec(&mut self, req: &str, ans: &str) {
    writeln!(self.req, "{}", req).unwrap();
    writeln!(self.imp, "{}", ans).unwrap();
    self.n_req += 1;
    self.last_req.clear(); self.last_req.push_str(&req[..req.len().min(2000)]);
    if self.samples.len() < 12 && (self.n_req % 97 == 1) {
      self.samples.push(format!("{} => {}", req, ans));
    }
    // distinct non-trivial: hash of the request text
    let mut h: u64 = 0xcbf29ce484222325;
    for b in req.as_bytes() { h ^= *b as u64; h = h.wrapping_mul(0x100000001b3); }
    self.distinct.insert(h);
  }
  pub fn stat(&mut self, key: &str) { *self.stats.entry(key.to_string()).or_insert(0) += 1; }
  pub fn stat_n(&mut self, key: &str, n: u64) { *self.stats.entry(key.to_string()).or_insert(0) += n; }
  pub fn violation(&mut self, kind: &str, input: String, expected: String, observed: String) {
    let n_kind = *self.stats.get(&format!("violation:{}", kind)).unwrap_or(&0);
    if self.violations.len() < 400 && n_kind < 25 {
      let cut = |s: String| if s.len() > 1500 { let mut e = 1500; while !s.is_char_boundary(e) { e -= 1; } format!("{}…(truncated, {} bytes)", &s[..e], s.len()) } else { s };
      self.violations.push(Violation { kind: kind.to_string(), input: cut(input), expected: cut(expected), observed: cut(observed), req: self.last_req.clone() });
    }
    self.stat(&format!("violation:{}", kind));
  }
  pub fn finish(mut self, dir: &str, prop: &str, profile: &str) {
    self.req.flush().unwrap();
    self.imp.flush().unwrap();
    let mut f = BufWriter::new(File::create(format!("{}/oracle.json", dir)).unwrap());
    write!(f, "{{\"property\":{},\"profile\":{},\"requests\":{},\"distinct_requests\":{},\"oracle_evaluations\":{},",
           js(prop), js(profile), self.n_req, self.distinct.len(), self.evaluations).unwrap();
    write!(f, "\"stats\":{{").unwrap();
    let mut first = true;
    for (k, v) in &self.stats {
      if !first { write!(f, ",").unwrap(); }
      first = false;
      write!(f, "{}:{}", js(k), v).unwrap();
    }
    write!(f, "}},\"samples\":[").unwrap();
    for (i, s) in self.samples.iter().enumerate() {
      if i > 0 { write!(f, ",").unwrap(); }
      write!(f, "{}", js(s)).unwrap();
    }
    write!(f, "],\"violations\":[").unwrap();
    for (i, v) in self.violations.iter().enumerate() {
      if i > 0 { write!(f, ",").unwrap(); }
      write!(f, "{{\"kind\":{},\"input\":{},\"expected\":{},\"observed\":{},\"req\":{}}}", js(&v.kind), js(&v.input), js(&v.expected), js(&v.observed), js(&v.req)).unwrap();
    }
    writeln!(f, "]}}").unwrap();
    f.flush().unwrap();
  }
}

pub fn js(s: &str) -> String {
  let mut o = String::with_capacity(s.len() + 2);
  o.push('"');
  for c in s.chars() {
    match c {
      '"' => o.push_str("\\\""),
      '\\' => o.push_str("\\\\"),
      '\n' => o.push_str("\\n"),
      c if (c as u32) < 0x20 => o.push_str(&format!("\\u{:04x}", c as u32)),
      c => o.push(c),
    }
  }
  o.push('"');
  o
}

pub fn opt_u64(v: Option<u64>) -> String {
  match v { Some(x) => x.to_string(), None => "panic".to_string() }
}

pub fn list_u64(v: &[u64]) -> String {
  let mut s = String::new();
  for (i, x) in v.iter().enumerate() {
    if i > 0 { s.push(' '); }
    s.push_str(&x.to_string());
  }
  if s.is_empty() { s.push_str("-"); }
  s
}

pub fn is_debug() -> bool { cfg!(debug_assertions) }
pub fn has_bmi2() -> bool { cfg!(target_feature = "bmi2") }

/// Out-of-range cell numbers for a depth: just above `n_hash`, structured (base-cell field `b >= 12` in every byte
/// position: `b`, `b + 16k`, `b + 256k`, high bits, so that a range test done on a truncated or masked base-cell number
/// is seen), uniformly random, extreme.
pub fn out_of_range_hashes(depth: u8, rng: &mut Rng, n_structured: usize) -> Vec<u64> {
  let nh = 12u64 << (2 * depth as u32);
  let td = 2 * depth as u32;
  let mut bad: Vec<u64> = vec![nh, nh + 1, nh + 7, nh.wrapping_mul(2), nh + rng.below(nh.max(1)), u64::MAX >> 2, u64::MAX >> 1, u64::MAX];
  for _ in 0..n_structured {
    let low = if td == 0 { 0 } else { rng.next() & ((1u64 << td) - 1) };
    let room = 64 - td; // bits available for the base-cell field
    let b = match rng.below(4) { 0 => 12 + rng.below(4), 1 => 16 * (1 + rng.below(15)) + rng.below(12), 2 => 256 * (1 + rng.below(255)) + rng.below(12), _ => (1u64 << (8 + rng.below(24) as u32)) + rng.below(12) };
    let b = if room >= 64 { b } else { b & ((1u64 << room) - 1) };
    let h = (b << td) | low;
    if h >= nh { bad.push(h); }
    let r = rng.next(); if r >= nh { bad.push(r); }
  }
  bad.retain(|h| *h >= nh);
  bad
}
