//! C04 (neighbours) and C14 (internal / external edges).
use crate::util::*;
use cdshealpix::compass_point::{MainWind, Cardinal, Ordinal};
use cdshealpix::nested::{self, get_or_create, Layer};
use std::collections::{HashMap, HashSet};

pub const MW_ALL: [MainWind; 9] = [MainWind::S, MainWind::SE, MainWind::E, MainWind::SW, MainWind::C, MainWind::NE, MainWind::W, MainWind::NW, MainWind::N];

pub fn mw_index(w: &MainWind) -> usize { MW_ALL.iter().position(|x| x == w).unwrap() }
pub fn mw(k: usize) -> MainWind {
  match k { 0 => MainWind::S, 1 => MainWind::SE, 2 => MainWind::E, 3 => MainWind::SW, 4 => MainWind::C, 5 => MainWind::NE, 6 => MainWind::W, 7 => MainWind::NW, _ => MainWind::N }
}

/// integer plane coordinates (units of 1/nside) of the centre of a cell, from the implementation's own
/// `center_of_projected_cell` (exact: the values are k/nside)
fn centre_xy(l: &Layer, depth: u8, h: u64) -> (i64, i64) {
  let n = (1u64 << depth) as f64;
  let (x, y) = l.center_of_projected_cell(h);
  ((x * n).round() as i64, (y * n).round() as i64)
}

/// canonical key of a plane point of a cell of base cell `d0h`: identifies the points that coincide on the sphere
#[derive(Clone, Copy, PartialEq, Eq, Hash, Debug)]
pub enum Key { Belt(i64, i64), Cap(i64, i64, i64), Pole(i64) }

fn vkey(n: i64, d0h: u64, x: i64, y: i64) -> Key {
  if y.abs() <= n { return Key::Belt(x.rem_euclid(8 * n), y); }
  if y.abs() == 2 * n { return Key::Pole(y.signum()); }
  let q = (d0h % 4) as i64;
  // the cell may sit in base cell 4 with x wrapped: bring x next to the facet centre
  let cx = (2 * q + 1) * n;
  let mut u = (x - cx).rem_euclid(8 * n);
  if u > 4 * n { u -= 8 * n; }
  let w = 2 * n - y.abs();
  if u == w { Key::Cap((q + 1) % 4, -w, y) } else { Key::Cap(q, u, y) }
}

/// keys of the four vertices S, E, N, W
fn vertex_keys(l: &Layer, depth: u8, h: u64) -> [Key; 4] {
  let n = 1i64 << depth;
  let d0h = h >> (2 * depth as u32);
  let (x, y) = centre_xy(l, depth, h);
  [vkey(n, d0h, x, y - 1), vkey(n, d0h, x + 1, y), vkey(n, d0h, x, y + 1), vkey(n, d0h, x - 1, y)]
}

/// independent adjacency (used by the C19 oracle too): two cells of one depth touch iff they share a vertex point
pub fn shares_vertex(l: &Layer, depth: u8, a: u64, b: u64) -> bool {
  let ka = vertex_keys(l, depth, a);
  let kb = vertex_keys(l, depth, b);
  ka.iter().any(|k| kb.contains(k))
}

fn is_three_cell_point(n: i64, k: &Key) -> bool {
  match *k { Key::Belt(x, y) => y.abs() == n && x.rem_euclid(2 * n) == 0, _ => false }
}

fn map_line(m: &cdshealpix::compass_point::MainWindMap<u64>) -> String {
  let mut s = String::new();
  for (w, h) in m.entries_vec() { s.push_str(&format!("{}:{},", mw_index(&w), h)); }
  if s.is_empty() { s.push('-'); }
  s
}

pub fn neigh_case(out: &mut Out, depth: u8, h: u64, tag: &str, full_oracle: bool) {
  let l = get_or_create(depth);
  let n = 1i64 << depth;
  let r = catch(|| l.neighbours(h, false));
  let req = format!("neigh {} {} 0", depth, h);
  out.evaluations += 1;
  out.stat(&format!("C04:{}", tag));
  let inp = format!("depth={} hash={} class={}", depth, h, tag);
  let m = match r {
    None => { out.rec(&req, "panic"); out.violation("C04:panic", inp, "neighbours".into(), "panic".into()); return; }
    Some(m) => { out.rec(&req, &map_line(&m)); m }
  };
  let rc = catch(|| l.neighbours(h, true));
  out.rec(&format!("neigh {} {} 1", depth, h), &match &rc { Some(m) => map_line(m), None => "panic".into() });
  if let Some(mc) = &rc { if mc.get(MainWind::C) != Some(&h) { out.violation("C04:center", inp.clone(), h.to_string(), format!("{:?}", mc.get(MainWind::C))); } }
  // neighbour(h, dir) agrees with the map
  for w in MW_ALL.iter() {
    let single = catch(|| l.neighbour(h, mw(mw_index(w))));
    out.rec(&format!("neighbour {} {} {}", depth, h, mw_index(w)), &match single { None => "panic".into(), Some(None) => "none".into(), Some(Some(x)) => x.to_string() });
    let want = if *w == MainWind::C { Some(h) } else { m.get(mw(mw_index(w))).cloned() };
    if single != Some(want) { out.violation("C04:neighbour-vs-neighbours", format!("{} dir={:?}", inp, w), format!("{:?}", want), format!("{:?}", single)); }
  }
  if !full_oracle { return; }
  let keys = vertex_keys(l, depth, h);
  let entries = m.entries_vec();
  // count
  let special = keys.iter().filter(|k| is_three_cell_point(n, k)).count();
  let want_count = 8 - special;
  if entries.len() != want_count { out.violation("C04:count", inp.clone(), want_count.to_string(), format!("{} ({})", entries.len(), map_line(&m))); }
  let mut seen = HashSet::new();
  for (w, nb) in &entries {
    if *nb == h || !seen.insert(*nb) { out.violation("C04:distinct", inp.clone(), "distinct cells, none equal to the cell".into(), map_line(&m)); }
    if *nb >= (12u64 << (2 * depth as u32)) { out.violation("C04:range", inp.clone(), "valid cell".into(), nb.to_string()); continue; }
    let nk = vertex_keys(l, depth, *nb);
    let shared: Vec<usize> = (0..4).filter(|&k| nk.contains(&keys[k])).collect();
    // vertex indices: S=0 E=1 N=2 W=3
    let want: Vec<usize> = match w {
      MainWind::S => vec![0], MainWind::E => vec![1], MainWind::N => vec![2], MainWind::W => vec![3],
      MainWind::SE => vec![0, 1], MainWind::SW => vec![0, 3], MainWind::NE => vec![1, 2], MainWind::NW => vec![2, 3],
      MainWind::C => vec![],
    };
    if shared != want {
      out.violation("C04:label", format!("{} dir={:?} neighbour={}", inp, w, nb), format!("shares vertices {:?} (S=0 E=1 N=2 W=3)", want), format!("shares {:?}", shared));
    }
    // symmetry
    let back = catch(|| l.neighbours(*nb, false));
    match back {
      Some(b) => if !b.values_vec().contains(&h) { out.violation("C04:symmetry", format!("{} neighbour={}", inp, nb), format!("{} lists {}", nb, h), map_line(&b)); },
      None => out.violation("C04:symmetry-panic", inp.clone(), "neighbours".into(), "panic".into()),
    }
  }
}

/// all cells touching each cell, from vertex keys only (independent of `neighbours`): exhaustive at a depth
fn exhaustive_adjacency(out: &mut Out, depth: u8) {
  let l = get_or_create(depth);
  let nh = 12u64 << (2 * depth as u32);
  let mut by_key: HashMap<Key, Vec<u64>> = HashMap::new();
  for h in 0..nh { for k in vertex_keys(l, depth, h).iter() { by_key.entry(*k).or_default().push(h); } }
  for h in 0..nh {
    let mut touching: HashSet<u64> = HashSet::new();
    for k in vertex_keys(l, depth, h).iter() { for &c in &by_key[k] { if c != h { touching.insert(c); } } }
    let got: HashSet<u64> = match catch(|| l.neighbours(h, false)) { Some(m) => m.values_vec().into_iter().collect(), None => HashSet::new() };
    out.evaluations += 1;
    if got != touching {
      let mut a: Vec<_> = touching.iter().cloned().collect(); a.sort();
      let mut b: Vec<_> = got.iter().cloned().collect(); b.sort();
      out.violation("C04:exact-set", format!("depth={} hash={}", depth, h), format!("{:?}", a), format!("{:?}", b));
    }
  }
  out.stat_n("C04:exhaustive-adjacency-cells", nh);
}

/// classes of cells at a depth: interior, 4 borders, 4 corners of every base cell and cells next to those
pub fn cell_classes(depth: u8, rng: &mut Rng, extra: usize) -> Vec<(u64, &'static str)> {
  let n = 1u64 << depth;
  let il = |i: u64, j: u64| -> u64 { let mut h = 0u64; for k in 0..depth as u64 { h |= ((i >> k) & 1) << (2 * k); h |= ((j >> k) & 1) << (2 * k + 1); } h };
  let mut v = Vec::new();
  for b in 0..12u64 {
    let base = b << (2 * depth as u32);
    let m = n - 1;
    let r = |rng: &mut Rng| if n > 2 { 1 + rng.below(n - 2) } else { 0 };
    let mut coords: Vec<(u64, u64, &'static str)> = vec![(0, 0, "corner-S"), (m, 0, "corner-E"), (0, m, "corner-W"), (m, m, "corner-N")];
    if n >= 2 { coords.extend_from_slice(&[(1.min(m), 0, "next-to-corner"), (0, 1.min(m), "next-to-corner"), (m - 1.min(m), m, "next-to-corner"), (m, m - 1.min(m), "next-to-corner"), (1.min(m), 1.min(m), "next-to-corner")]); }
    for _ in 0..(1 + extra) {
      coords.push((r(rng), 0, "border-SE")); coords.push((0, r(rng), "border-SW")); coords.push((m, r(rng), "border-NE")); coords.push((r(rng), m, "border-NW"));
      coords.push((r(rng), 1.min(m), "next-to-border")); coords.push((m - 1.min(m), r(rng), "next-to-border"));
      coords.push((r(rng), r(rng), "interior"));
    }
    for (i, j, t) in coords { v.push((base | il(i.min(m), j.min(m)), t)); }
  }
  // carry-chain classes (interior cells): a coordinate whose k low bits are all ones or all zeros, for every k below
  // the depth, the high bits random - where any +-1 done on interleaved bits must propagate a carry / borrow across k
  // bit pairs (the bit-level fast path of `inner_cell_neighbours`, `i02h`/`oj2h` arithmetic, u32 truncations)
  if depth >= 3 {
    let m = n - 1;
    let ks: Vec<u32> = if extra > 4 { (1..depth as u32).collect() } else {
      let mut ks: Vec<u32> = vec![1, 2, depth as u32 - 1, depth as u32 - 2];
      for _ in 0..3 { ks.push(1 + rng.below(depth as u64 - 1) as u32); }
      for &k in &[7u32, 8, 15, 16, 24, 25, 26] { if k < depth as u32 { ks.push(k); } }
      ks
    };
    for &k in &ks {
      let low_ones = (1u64 << k) - 1;
      for &(pat, tag) in &[(0usize, "carry-i-ones"), (1, "carry-i-zeros"), (2, "carry-j-ones"), (3, "carry-j-zeros"), (4, "carry-both-ones"), (5, "carry-both-zeros")] {
        let b = rng.below(12) << (2 * depth as u32);
        let hi_i = (rng.below(n) >> k) << k;
        let hi_j = (rng.below(n) >> k) << k;
        let ones = |hi: u64| -> u64 { (hi & !(1u64 << k)) | low_ones };          // ...0111..1
        let zeros = |hi: u64| -> u64 { hi | (1u64 << k) };                         // ...1000..0
        let free = |rng: &mut Rng| -> u64 { 1 + rng.below(n - 2) };
        let (i, j) = match pat {
          0 => (ones(hi_i), free(rng)), 1 => (zeros(hi_i), free(rng)),
          2 => (free(rng), ones(hi_j)), 3 => (free(rng), zeros(hi_j)),
          4 => (ones(hi_i), ones(hi_j)), _ => (zeros(hi_i), zeros(hi_j)),
        };
        // keep the cell strictly inside its base cell (the fast path is only taken there)
        let i = i.max(1).min(m - 1);
        let j = j.max(1).min(m - 1);
        v.push((b | il(i, j), tag));
      }
    }
  }
  v
}

pub fn run_c04(out: &mut Out, rng: &mut Rng, thorough: bool) {
  let dex = if thorough { 7 } else { 4 };
  for depth in 0..=dex {
    let nh = 12u64 << (2 * depth as u32);
    for h in 0..nh { neigh_case(out, depth, h, "exhaustive", true); }
    if depth <= (if thorough { 6 } else { 4 }) { exhaustive_adjacency(out, depth); }
  }
  for depth in (dex + 1)..=29 {
    for (h, tag) in cell_classes(depth, rng, if thorough { 12 } else { 2 }) { neigh_case(out, depth, h, tag, true); }
    let nh = 12u64 << (2 * depth as u32);
    for _ in 0..(if thorough { 400 } else { 40 }) { neigh_case(out, depth, rng.below(nh), "random", true); }
  }
  // out-of-range cell numbers are rejected
  for depth in (0u8..=29).collect::<Vec<u8>>().iter() {
    for &h in crate::util::out_of_range_hashes(*depth, rng, if thorough { 24 } else { 6 }).iter() {
      let r = catch(|| get_or_create(*depth).neighbours(h, false));
      out.rec(&format!("neigh {} {} 0", depth, h), &match &r { Some(m) => map_line(m), None => "panic".into() });
      out.evaluations += 1;
      out.stat("C04:out-of-range");
      if r.is_some() { out.violation("C04:no-guard", format!("depth={} hash={}", depth, h), "panic".into(), "a map".into()); }
      // the single-direction variant is documented to panic too (finding F20)
      for k in 0..8usize {
        let wi = [0usize, 1, 2, 3, 5, 6, 7, 8][k];
        let single = catch(|| get_or_create(*depth).neighbour(h, mw(wi)));
        let w = mw(wi);
        out.rec(&format!("neighbour {} {} {}", depth, h, wi), &match single { None => "panic".into(), Some(None) => "none".into(), Some(Some(x)) => x.to_string() });
        out.evaluations += 1;
        if single.is_some() { out.violation("C04:no-guard:neighbour", format!("depth={} hash={} direction={:?}", depth, h, w), "panic".into(), format!("{:?}", single)); }
      }
    }
  }
}

// ---------------------------------------------------------------------------------------------
// C14

fn card(k: usize) -> Cardinal { match k { 0 => Cardinal::S, 1 => Cardinal::E, 2 => Cardinal::N, _ => Cardinal::W } }
fn ord(k: usize) -> Ordinal { match k { 0 => Ordinal::SE, 1 => Ordinal::SW, 2 => Ordinal::NE, _ => Ordinal::NW } }

fn deinterleave(h: u64) -> (u64, u64) {
  let (mut i, mut j) = (0u64, 0u64);
  for k in 0..32 { i |= ((h >> (2 * k)) & 1) << k; j |= ((h >> (2 * k + 1)) & 1) << k; }
  (i, j)
}

pub fn edge_case(out: &mut Out, depth: u8, h: u64, dd: u8, tag: &str) {
  let inp = format!("depth={} hash={} delta_depth={} class={}", depth, h, dd, tag);
  out.evaluations += 1;
  out.stat(&format!("C14:{}", tag));
  let deep = depth + dd;
  let side = 1u64 << dd;
  let lo = h << (2 * dd as u32);
  // ---- internal edge
  let ie = catch(|| Layer::internal_edge(h, dd));
  out.rec(&format!("iedge {} {}", h, dd), &match &ie { Some(v) => list_u64(v), None => "panic".into() });
  let top = catch(|| nested::internal_edge(depth, h, dd));
  out.rec(&format!("iedge_top {} {} {}", depth, h, dd), &match &top { Some(v) => list_u64(v), None => "panic".into() });
  let ies = catch(|| Layer::internal_edge_sorted(h, dd));
  out.rec(&format!("iedges {} {}", h, dd), &match &ies { Some(v) => list_u64(v), None => "panic".into() });
  let tops = catch(|| nested::internal_edge_sorted(depth, h, dd));
  out.rec(&format!("iedges_top {} {} {}", depth, h, dd), &match &tops { Some(v) => list_u64(v), None => "panic".into() });
  // expected set: descendants with i' or j' on the border of the 2^dd grid
  let on_border = |x: u64| -> bool { let (i, j) = deinterleave(x - lo); i == 0 || j == 0 || i == side - 1 || j == side - 1 };
  let want_len = if dd == 0 { 1 } else { 4 * side - 4 };
  if dd >= 1 {
    match &ie {
      None => out.violation("C14:internal_edge:panic", inp.clone(), format!("{} cells", want_len), "panic".into()),
      Some(v) => {
        let set: HashSet<u64> = v.iter().cloned().collect();
        if v.len() as u64 != want_len || set.len() != v.len() { out.violation("C14:internal_edge:length", inp.clone(), want_len.to_string(), format!("{} ({} distinct)", v.len(), set.len())); }
        if v.iter().any(|&x| x < lo || x >= lo + side * side || !on_border(x)) { out.violation("C14:internal_edge:set", inp.clone(), "descendants on the border".into(), list_u64(&v[..v.len().min(16)])); }
        // closed walk from the south corner through the east corner, consecutive cells adjacent in the grid
        if !v.is_empty() {
          if v[0] != lo { out.violation("C14:internal_edge:start", inp.clone(), lo.to_string(), v[0].to_string()); }
          let e_idx = (side - 1) as usize;
          if v.len() > e_idx && deinterleave(v[e_idx] - lo) != (side - 1, 0) { out.violation("C14:internal_edge:east-corner", inp.clone(), "east corner after 2^dd - 1 steps".into(), v[e_idx].to_string()); }
          for k in 0..v.len() {
            let (a, b) = (deinterleave(v[k] - lo), deinterleave(v[(k + 1) % v.len()] - lo));
            let dist = (a.0 as i64 - b.0 as i64).abs() + (a.1 as i64 - b.1 as i64).abs();
            if dist != 1 && v.len() > 1 && !(v.len() == 4 && dist == 1) { out.violation("C14:internal_edge:walk", inp.clone(), "consecutive cells adjacent".into(), format!("{} then {}", v[k], v[(k + 1) % v.len()])); break; }
          }
        }
        // sorted variant = same set, increasing
        match &ies {
          None => out.violation("C14:internal_edge_sorted:panic", inp.clone(), "sorted internal edge".into(), "panic".into()),
          Some(s) => {
            let mut w = v.to_vec(); w.sort_unstable();
            if s.to_vec() != w { out.violation("C14:internal_edge_sorted:wrong", inp.clone(), list_u64(&w[..w.len().min(12)]), list_u64(&s[..s.len().min(12)])); }
          }
        }
        // top-level convenience functions accept every depth + delta <= 29
        if deep <= 29 {
          if top.as_ref().map(|x| x.to_vec()) != Some(v.to_vec()) { out.violation("C14:internal_edge:top-level", inp.clone(), "same as Layer::internal_edge".into(), match &top { None => "panic".into(), Some(_) => "different".into() }); }
          if tops.is_none() && ies.is_some() { out.violation("C14:internal_edge_sorted:top-level", inp.clone(), "same as Layer::internal_edge_sorted".into(), "panic".into()); }
        }
      }
    }
  }
  // corners and parts (delta_depth = 0: every corner and every part is the cell itself)
  let xy = |i: u64, j: u64| -> u64 { let mut x = 0u64; for k in 0..dd as u64 { x |= ((i >> k) & 1) << (2 * k); x |= ((j >> k) & 1) << (2 * k + 1); } lo | x };
  let m = side - 1;
  let want_c = [xy(0, 0), xy(m, 0), xy(m, m), xy(0, m)];
  for k in 0..4 {
    let c = catch(|| nested::internal_corner(h, dd, &card(k)));
    out.rec(&format!("icorner {} {} {}", h, dd, [0, 2, 8, 6][k]), &opt_u64(c));
    if c != Some(want_c[k]) { out.violation("C14:internal_corner", format!("{} corner={}", inp, k), want_c[k].to_string(), format!("{:?}", c)); }
  }
  for k in 0..4 {
    let p = catch(|| nested::internal_edge_part(h, dd, &ord(k)));
    out.rec(&format!("ipart {} {} {}", h, dd, [1, 3, 5, 7][k]), &match &p { Some(v) => list_u64(v), None => "panic".into() });
    let want: Vec<u64> = (0..side).map(|t| match k { 0 => xy(t, 0), 1 => xy(0, t), 2 => xy(m, t), _ => xy(t, m) }).collect();
    if p.as_ref().map(|x| x.to_vec()) != Some(want.clone()) { out.violation("C14:internal_edge_part", format!("{} part={}", inp, k), list_u64(&want[..want.len().min(8)]), format!("{:?}", p.as_ref().map(|x| x.len()))); }
    // the `append_` twin (a separate implementation in the crate): appends the same cells to what is already there
    let a = catch(|| { let mut v: Vec<u64> = vec![7]; nested::append_internal_edge_part(h, dd, &ord(k), &mut v); v });
    let mut wanta = vec![7u64]; wanta.extend(want.iter().cloned());
    if a != Some(wanta) { out.violation("C14:append_internal_edge_part", format!("{} part={}", inp, k), "[7] followed by the cells of internal_edge_part".into(), format!("{:?}", a.as_ref().map(|x| x.len()))); }
  }
  // ---- external edge
  if deep > 29 { return; }
  let l = get_or_create(depth);
  let ee = catch(|| l.external_edge(h, dd));
  out.rec(&format!("eedge {} {} {} 0", depth, h, dd), &match &ee { Some(v) => list_u64(v), None => "panic".into() });
  let ees = catch(|| l.external_edge_sorted(h, dd));
  out.rec(&format!("eedge {} {} {} 1", depth, h, dd), &match &ees { Some(v) => list_u64(v), None => "panic".into() });
  let es = catch(|| { let s = l.external_edge_struct(h, dd); let mut parts: Vec<(usize, Vec<u64>)> = Vec::new();
    for k in 0..4 { if let Some(c) = s.get_corner(&card(k)) { parts.push(([0usize, 2, 8, 6][k], vec![c])); } }
    for k in 0..4 { let e = s.get_edge(&ord(k)); if !e.is_empty() { parts.push(([1usize, 3, 5, 7][k], e.to_vec())); } }
    parts.sort_by_key(|p| p.0); parts });
  out.rec(&format!("estruct {} {} {}", depth, h, dd), &match &es { None => "panic".into(), Some(p) => { let mut s = String::new(); for (k, v) in p { s.push_str(&format!("{}:[{}] ", k, list_u64(v))); } if s.is_empty() { "-".into() } else { s.trim_end().to_string() } } });
  // expected: cells of depth d+dd outside the cell adjacent to a descendant (neighbours at the deeper depth);
  // delta_depth = 0: the neighbours of the cell itself
  let ld = get_or_create(deep);
  let mut want: HashSet<u64> = HashSet::new();
  let ie0: Option<Box<[u64]>> = if dd == 0 { Some(vec![h].into_boxed_slice()) } else { ie };
  if let Some(v) = &ie0 {
    for &c in v.iter() {
      if let Some(m) = catch(|| ld.neighbours(c, false)) { for x in m.values_vec() { if x >> (2 * dd as u32) != h { want.insert(x); } } }
    }
  }
  match (&ee, &ees) {
    (Some(e), Some(s)) => {
      let set: HashSet<u64> = e.iter().cloned().collect();
      if set.len() != e.len() { out.violation("C14:external_edge:duplicates", inp.clone(), "no duplicates".into(), format!("{} of {}", set.len(), e.len())); }
      if set != want { out.violation("C14:external_edge:set", inp.clone(), format!("{} cells", want.len()), format!("{} cells", set.len())); }
      let mut w: Vec<u64> = e.to_vec(); w.sort_unstable();
      if s.to_vec() != w { out.violation("C14:external_edge_sorted", inp.clone(), "sorted external edge".into(), list_u64(&s[..s.len().min(12)])); }
    }
    _ => out.violation("C14:external_edge:panic", inp.clone(), "external edge".into(), "panic".into()),
  }
  // struct: each part faces the right corner / side: its cells share the corresponding vertex / edge of the cell
  if let Some(parts) = &es {
    let all: HashSet<u64> = parts.iter().flat_map(|p| p.1.iter().cloned()).collect();
    if all != want { out.violation("C14:external_edge_struct:set", inp.clone(), format!("{} cells", want.len()), format!("{} cells", all.len())); }
    let keys = vertex_keys(l, depth, h);
    for (k, v) in parts {
      let wantv: Vec<usize> = match k { 0 => vec![0], 2 => vec![1], 8 => vec![2], 6 => vec![3], 1 => vec![0, 1], 3 => vec![0, 3], 5 => vec![1, 2], 7 => vec![2, 3], _ => vec![] };
      // the part must lie inside the depth-d neighbour stored under that direction
      let nb = catch(|| l.neighbour(h, mw(*k))).flatten();
      for &c in v {
        if Some(c >> (2 * dd as u32)) != nb { out.violation("C14:external_edge_struct:filing", format!("{} part={}", inp, k), format!("descendants of {:?}", nb), c.to_string()); break; }
      }
      if let Some(nbh) = nb {
        let nk = vertex_keys(l, depth, nbh);
        let shared: Vec<usize> = (0..4).filter(|&q| nk.contains(&keys[q])).collect();
        if shared != wantv { out.violation("C14:external_edge_struct:side", format!("{} part={}", inp, k), format!("{:?}", wantv), format!("{:?}", shared)); }
      }
      let want_len = if [0usize, 2, 6, 8].contains(k) { 1 } else { side as usize };
      if v.len() != want_len { out.violation("C14:external_edge_struct:length", format!("{} part={}", inp, k), want_len.to_string(), v.len().to_string()); }
    }
  } else { out.violation("C14:external_edge_struct:panic", inp, "struct".into(), "panic".into()); }
}

pub fn run_c14(out: &mut Out, rng: &mut Rng, thorough: bool) {
  let (dmax, ddmax) = if thorough { (4u8, 6u8) } else { (2u8, 4u8) };
  for depth in 0..=dmax {
    let nh = 12u64 << (2 * depth as u32);
    for dd in 0..=ddmax { for h in 0..nh { edge_case(out, depth, h, dd, "exhaustive"); } }
  }
  for depth in 0..=29u8 {
    let cells = cell_classes(depth, rng, if thorough { 3 } else { 0 });
    let dds: Vec<u8> = (1..=12u8).filter(|dd| depth + dd <= 29).collect();
    if dds.is_empty() { continue; }
    for (k, (h, tag)) in cells.iter().enumerate() {
      // every class gets a small delta and a delta reaching depth 29 (if 2^dd <= 4096)
      let dd_small = dds[k % dds.len().min(4)];
      edge_case(out, depth, *h, dd_small, tag);
      if k % 3 == 0 { edge_case(out, depth, *h, 0, "delta-depth-0"); }
      if k % (if thorough { 5 } else { 29 }) == 0 {
        let dd_big = *dds.last().unwrap();
        if dd_big <= 10 || thorough { edge_case(out, depth, *h, dd_big.min(if thorough { 12 } else { 10 }), "deep-delta"); }
      }
    }
  }
  // a delta_depth above 16 (coordinates of the sub-cells no longer fit 16 bits: another z-order table class; half a million cells)
  edge_case(out, 3, rng.below(12u64 << 6), 17, "delta-depth-17");
  if thorough { edge_case(out, 9, rng.below(12u64 << 18), 18, "delta-depth-18"); }
  // delta_depth = 29 - depth exactly (the top-level functions must accept it)
  for depth in 17..=28u8 { edge_case(out, depth, rng.below(12u64 << (2 * depth as u32)), 29 - depth, "depth+delta=29"); }
  edge_case(out, 20, 0, 9, "depth+delta=29");
}
