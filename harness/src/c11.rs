//! C11: RING scheme for any NSIDE.
use crate::util::*;
use crate::pos::*;
use cdshealpix::ring;
use std::f64::consts::PI;

fn pair(p: &Option<(f64, f64)>) -> String { match p { Some((a, b)) => format!("{} {}", fbits(*a), fbits(*b)), None => "panic".into() } }

/// point-in-diamond of the RING cell `h` (centre from the implementation), plane point of the reference projection;
/// in the caps the same sphere point seen from the adjacent facet is accepted
fn in_ring_cell(nside: u32, h: u64, x: f64, y: f64, tol: f64) -> (bool, f64) {
  let c = ring::center_of_projected_cell(nside, h);
  let n = nside as f64;
  let xm = x - 8.0 * (x / 8.0).floor();
  let xc = 2.0 * (xm / 2.0).floor() + 1.0;
  let mut cands = vec![xm];
  if y.abs() > 1.0 { cands.push(2.0 * xc + 2.0 - xm); cands.push(2.0 * xc - 2.0 - xm); }
  let mut best = f64::INFINITY;
  for xx in cands { let xx = xx - 8.0 * (xx / 8.0).floor(); let d = (xx - c.0).abs().min(8.0 - (xx - c.0).abs()); let e = (d + (y - c.1).abs()) * n - 1.0; if e < best { best = e; } }
  (best <= tol, best)
}

pub fn is_cap_seam(lon: f64, lat: f64) -> bool {
  let t = lon * 2.0 / PI;
  (lat.abs() >= TRANSITION_LATITUDE - 1e-9 && (t - t.round()).abs() < 1e-9 * (1.0 + t.abs())) || (PI / 2.0 - lat.abs()) < 1e-9
}

fn pos_case(out: &mut Out, nside: u32, p: &Pos) {
  let r = catch(|| ring::hash_with_dxdy(nside, p.lon, p.lat));
  out.rec(&format!("rhashdxdy {} {} {}", nside, fbits(p.lon), fbits(p.lat)), &match &r { Some((h, a, b)) => format!("{} {} {}", h, fbits(*a), fbits(*b)), None => "panic".into() });
  let rh = catch(|| ring::hash(nside, p.lon, p.lat));
  out.rec(&format!("rhash {} {} {}", nside, fbits(p.lon), fbits(p.lat)), &opt_u64(rh));
  out.evaluations += 1;
  out.stat(&format!("C11:pos:{}", p.class));
  let inp = format!("nside={} lon={:e} ({}) lat={:e} ({}) class={}", nside, p.lon, fbits(p.lon), p.lat, fbits(p.lat), p.class);
  let valid = p.lat >= -PI / 2.0 && p.lat <= PI / 2.0;
  let seam = if is_cap_seam(p.lon, p.lat) { ":cap-seam" } else { "" };
  let nh = 12 * nside as u64 * nside as u64;
  match rh {
    None => { if valid { out.violation(&format!("C11:hash:panic{}", seam), inp, "a cell".into(), "panic".into()); } }
    Some(h) => {
      if !valid { out.violation("C11:hash:no-guard", inp, "panic".into(), h.to_string()); return; }
      if h >= nh { out.violation(&format!("C11:hash:range{}", seam), inp, format!("< {}", nh), h.to_string()); return; }
      let (xr, yr) = proj_ref(p.lon, p.lat);
      let tol = 1e-9 + nside as f64 * 2e-14 * (1.0 + p.lon.abs());
      let (ok, ex) = in_ring_cell(nside, h, xr, yr, tol);
      if !ok { out.violation(&format!("C11:hash:not-in-cell{}", seam), inp.clone(), format!("within {:e} cell units of cell {}", tol, h), format!("{:e} outside", ex)); }
      if let Some((h2, dx, dy)) = r {
        if h2 != h { out.violation("C11:hash-vs-hash_with_dxdy", inp.clone(), h.to_string(), h2.to_string()); }
        if dx >= 0.0 && dx < 1.0 && dy >= 0.0 && dy < 1.0 && ok {
          let back = catch(|| ring::sph_coo(nside, h, dx, dy));
          out.rec(&format!("rsphcoo {} {} {} {}", nside, h, fbits(dx), fbits(dy)), &pair(&back));
          match back {
            None => out.violation("C11:sph_coo:panic", inp, "a position".into(), "panic".into()),
            Some(b) => {
              let a = { let (u, v) = ((b.1.cos() * b.0.cos(), b.1.cos() * b.0.sin(), b.1.sin()), (p.lat.cos() * p.lon.cos(), p.lat.cos() * p.lon.sin(), p.lat.sin())); let d = ((u.0 - v.0).powi(2) + (u.1 - v.1).powi(2) + (u.2 - v.2).powi(2)).sqrt(); 2.0 * (d / 2.0).min(1.0).asin() };
              if a > 1e-13 * (1.0 + p.lon.abs()) + 2e-8 * ((PI / 2.0 - p.lat.abs()) < 1e-7) as u8 as f64 { out.violation(&format!("C11:sph_coo(hash_with_dxdy){}", seam), inp, format!("{} {}", p.lon, p.lat), format!("{} {} ({:e} rad)", b.0, b.1, a)); }
            }
          }
        }
      }
    }
  }
}

fn cell_case(out: &mut Out, nside: u32, h: u64, tag: &str) {
  let c = catch(|| ring::center(nside, h));
  out.rec(&format!("rcenter {} {}", nside, h), &pair(&c));
  let cp = catch(|| ring::center_of_projected_cell(nside, h));
  out.rec(&format!("rcpc {} {}", nside, h), &pair(&cp));
  out.evaluations += 1;
  out.stat(&format!("C11:cell:{}", tag));
  let nh = 12 * nside as u64 * nside as u64;
  let inp = format!("nside={} hash={} class={}", nside, h, tag);
  if h >= nh { if c.is_some() || cp.is_some() { out.violation("C11:no-guard", inp, "panic".into(), "a value".into()); } return; }
  match (c, cp) {
    (Some(c), Some(_)) => {
      let back = catch(|| ring::hash_with_dxdy(nside, c.0, c.1));
      out.rec(&format!("rhashdxdy {} {} {}", nside, fbits(c.0), fbits(c.1)), &match &back { Some((h, a, b)) => format!("{} {} {}", h, fbits(*a), fbits(*b)), None => "panic".into() });
      match back {
        Some((h2, dx, dy)) => { if h2 != h { out.violation("C11:hash(center)", inp.clone(), h.to_string(), h2.to_string()); } else if (dx - 0.5).abs() > 1e-6 || (dy - 0.5).abs() > 1e-6 { out.violation("C11:hash(center):offsets", inp.clone(), "0.5 0.5".into(), format!("{} {}", dx, dy)); } }
        None => out.violation("C11:hash(center):panic", inp.clone(), h.to_string(), "panic".into()),
      }
    }
    _ => { out.violation("C11:center:panic", inp, "a centre".into(), "panic".into()); return; }
  }
  // the four vertices (S, E, N, W): each lies on the border of the cell, so a point 1e-3 of the way back towards the centre
  // hashes to the cell; S and N share the centre's longitude (off the poles), E and W its latitude in the equatorial region
  let vs = catch(|| ring::vertices(nside, h).to_vec());
  out.rec(&format!("rvertices {} {}", nside, h), &match &vs { None => "panic".into(), Some(v) => v.iter().map(|(a, b)| format!("{} {}", fbits(*a), fbits(*b))).collect::<Vec<_>>().join(" ") });
  out.stat("C11:vertices");
  match (vs, c, cp) {
    (Some(vs), Some(_c), Some(cp)) => {
      let o = 1.0 / nside as f64;
      let plane = [(cp.0, cp.1 - o), (cp.0 + o, cp.1), (cp.0, cp.1 + o), (cp.0 - o, cp.1)];
      for k in 0..4 {
        // the vertex is the image of the plane point centre +- 1/nside
        let want = catch(|| cdshealpix::unproj({ let x = plane[k].0; if x < 0.0 { x + 8.0 } else { x } }, plane[k].1));
        if let Some(w) = want { if crate::c16::hav(w, vs[k]) > 1e-13 { out.violation("C11:vertices", format!("{} vertex={}", inp, k), format!("{:?}", w), format!("{:?}", vs[k])); break; } }
        // nudged towards the centre it belongs to the cell (seams of finding F3 excepted: handled by the position oracle)
        if nside <= (1 << 26) {
          let q = ((plane[k].0 + 1e-3 * (cp.0 - plane[k].0)).rem_euclid(8.0), plane[k].1 + 1e-3 * (cp.1 - plane[k].1));
          if q.1.abs() < 2.0 - 1e-9 {
            if let Some(s) = catch(|| cdshealpix::unproj(q.0, q.1)) {
              let seam = s.1 >= TRANSITION_LATITUDE - 1e-9 && { let t = s.0 * 2.0 / PI; (t - t.round()).abs() < 1e-6 };
              let hb = catch(|| ring::hash(nside, s.0, s.1));
              if hb != Some(h) && !seam { out.violation("C11:vertices:nudged-point-not-in-cell", format!("{} vertex={}", inp, k), h.to_string(), format!("{:?}", hb)); break; }
            }
          }
        }
      }
    }
    (None, _, _) => out.violation("C11:vertices:panic", inp, "four vertices".into(), "panic".into()),
    _ => {}
  }
}

/// ring structure: centres by non-increasing latitude then increasing longitude; 4 i cells in polar ring i, 4 nside in
/// equatorial rings (checked on consecutive indices)
fn order_case(out: &mut Out, nside: u32, h: u64) {
  let nh = 12 * nside as u64 * nside as u64;
  if h + 1 >= nh { return; }
  out.evaluations += 1;
  let r = catch(|| (ring::center_of_projected_cell(nside, h), ring::center_of_projected_cell(nside, h + 1)));
  let inp = format!("nside={} hash={} and hash+1", nside, h);
  match r {
    None => out.violation("C11:order:panic", inp, "centres".into(), "panic".into()),
    Some((a, b)) => {
      let eps = 0.25 / nside as f64;
      let ok = if (a.1 - b.1).abs() < eps { b.0 > a.0 && a.0 >= 0.0 && b.0 < 8.0 } else { b.1 < a.1 && b.0 < a.0 + 1e-9 + 8.0 };
      if !ok { out.violation("C11:order", inp, "lat non-increasing then lon increasing".into(), format!("{:?} then {:?}", a, b)); }
    }
  }
}

fn ring_sizes(out: &mut Out, nside: u32) {
  // count cells per distinct y of the projected centre
  let nh = 12 * nside as u64 * nside as u64;
  let n = nside as u64;
  let mut sizes: Vec<u64> = Vec::new();
  let mut last_y = f64::NAN; 
  for h in 0..nh { let c = ring::center_of_projected_cell(nside, h); if (c.1 - last_y).abs() > 0.25 / nside as f64 || last_y.is_nan() { sizes.push(0); last_y = c.1; } *sizes.last_mut().unwrap() += 1; }
  out.evaluations += 1;
  let mut want: Vec<u64> = Vec::new();
  for i in 1..n { want.push(4 * i); }
  for _ in 0..(2 * n + 1) { want.push(4 * n); }
  for i in (1..n).rev() { want.push(4 * i); }
  if sizes != want { out.violation("C11:ring-sizes", format!("nside={}", nside), format!("{} rings", want.len()), format!("{} rings, first {:?}", sizes.len(), &sizes[..sizes.len().min(6)])); }
  out.stat("C11:ring-sizes");
}

pub fn run(out: &mut Out, rng: &mut Rng, thorough: bool) {
  let nmax = if thorough { 300 } else { 64 };
  for nside in 1..=nmax {
    let nh = 12 * nside as u64 * nside as u64;
    if nside <= (if thorough { 60 } else { 20 }) { for h in 0..nh { cell_case(out, nside, h, "exhaustive"); order_case(out, nside, h); } ring_sizes(out, nside); }
    else { for _ in 0..200 { let h = rng.below(nh); cell_case(out, nside, h, "random"); order_case(out, nside, h); } for h in [0, 1, nh - 1, nh - 2, nh / 2].iter() { cell_case(out, nside, *h, "first-last"); } }
    for &h in &[nh, nh + 1] { cell_case(out, nside, h, "out-of-range"); }
    for _ in 0..(if thorough { 400 } else { 60 }) { let p = if rng.chance(0.04) { gen_bad_pos(rng) } else { gen_pos(rng) }; pos_case(out, nside, &p); }
    // lon = k*pi/2 inside the caps +- ulps
    for _ in 0..(if thorough { 60 } else { 10 }) {
      let k = rng.below(9) as f64 - 4.0;
      let lat = (TRANSITION_LATITUDE + rng.f01() * (PI / 2.0 - TRANSITION_LATITUDE)) * if rng.chance(0.5) { 1.0 } else { -1.0 };
      pos_case(out, nside, &Pos { lon: ulp_step(k * PI / 2.0, rng.below(5) as i64 - 2), lat, class: "cap-meridian-k-pi/2" });
    }
  }
  for &nside in &[127u32, 128, 129, 1000, 1_000_003, (1 << 25) - 1, 1 << 25, (1 << 26) + 1, (1 << 28) + 1, 1 << 29] {
    let nh = 12 * nside as u64 * nside as u64;
    let n = nside as u64;
    let tri = |i: u64| 2 * i * (i + 1);
    let mut cells: Vec<(u64, &'static str)> = vec![(0, "first"), (nh - 1, "last"), (tri(n - 1), "transition"), (tri(n - 1) - 1, "transition-1"), (tri(n), "first-full-eqr"), (nh - tri(n), "spc-transition"), (nh / 2, "equator")];
    for _ in 0..(if thorough { 200 } else { 30 }) { let i = rng.below(n.max(2) - 1); cells.push((tri(i), "npc-ring-first")); cells.push((tri(i + 1) - 1, "npc-ring-last")); cells.push((nh - 1 - tri(i), "spc-ring-last")); cells.push((rng.below(nh), "random")); }
    for (h, tag) in cells { if h < nh { cell_case(out, nside, h, tag); order_case(out, nside, h); } }
    for _ in 0..(if thorough { 2000 } else { 150 }) { let p = gen_pos(rng); pos_case(out, nside, &p); }
  }
  // agreement with NESTED for nside = 2^d: covered by C10 (ring-centre oracle)
}
