//! C18: z-order curve implementations and uniq encodings.
use crate::util::*;
use cdshealpix::nested::zordercurve::get_zoc;
use cdshealpix::nested::{to_uniq, to_uniq_ivoa, from_uniq, from_uniq_ivoa};

/// independent oracle: naive bit loop
fn naive_interleave(i: u32, j: u32) -> u64 {
  let mut h = 0u64;
  for b in 0..32 {
    h |= (((i >> b) & 1) as u64) << (2 * b);
    h |= (((j >> b) & 1) as u64) << (2 * b + 1);
  }
  h
}

fn zoc_case(out: &mut Out, depth: u8, i: u32, j: u32, in_domain: bool) {
  let r_ij2h = catch(|| get_zoc(depth).ij2h(i, j));
  out.rec(&format!("zoc {} ij2h {} {}", depth, i, j), &opt_u64(r_ij2h));
  let r_i02h = catch(|| get_zoc(depth).i02h(i));
  out.rec(&format!("zoc {} i02h {}", depth, i), &opt_u64(r_i02h));
  let r_oj2h = catch(|| get_zoc(depth).oj2h(j));
  out.rec(&format!("zoc {} oj2h {}", depth, j), &opt_u64(r_oj2h));
  if let Some(h) = r_ij2h {
    let ij = catch(|| get_zoc(depth).h2ij(h));
    out.rec(&format!("zoc {} h2ij {}", depth, h), &opt_u64(ij));
    if let Some(ij) = ij {
      let ri = catch(|| get_zoc(depth).ij2i(ij) as u64);
      let rj = catch(|| get_zoc(depth).ij2j(ij) as u64);
      out.rec(&format!("zoc {} ij2i {}", depth, ij), &opt_u64(ri));
      out.rec(&format!("zoc {} ij2j {}", depth, ij), &opt_u64(rj));
      if in_domain {
        out.evaluations += 1;
        let inp = format!("depth={} i={} j={}", depth, i, j);
        let want = if depth == 0 { 0 } else { naive_interleave(i, j) };
        if h != want { out.violation("ij2h", inp.clone(), want.to_string(), h.to_string()); }
        if depth > 0 && (ri != Some(i as u64) || rj != Some(j as u64)) {
          out.violation("h2ij", inp.clone(), format!("{} {}", i, j), format!("{:?} {:?}", ri, rj));
        }
        if depth > 0 && (r_i02h != catch(|| get_zoc(depth).ij2h(i, 0)) || r_oj2h != catch(|| get_zoc(depth).ij2h(0, j))) {
          out.violation("restrict", inp.clone(), "i02h(i)=ij2h(i,0), oj2h(j)=ij2h(0,j)".into(), format!("{:?} {:?}", r_i02h, r_oj2h));
        }
        if depth <= 29 && h >= (1u64 << (2 * depth as u32)) && depth > 0 {
          out.violation("range", inp, format!("< 4^{}", depth), h.to_string());
        }
      }
    }
  } else if depth <= 29 {
    out.violation("panic", format!("depth={} i={} j={}", depth, i, j), "a value".into(), "panic".into());
  }
}

fn h2ij_case(out: &mut Out, depth: u8, h: u64) {
  let ij = catch(|| get_zoc(depth).h2ij(h));
  out.rec(&format!("zoc {} h2ij {}", depth, h), &opt_u64(ij));
  if let Some(ij) = ij {
    let ri = catch(|| get_zoc(depth).ij2i(ij) as u64);
    let rj = catch(|| get_zoc(depth).ij2j(ij) as u64);
    out.rec(&format!("zoc {} ij2i {}", depth, ij), &opt_u64(ri));
    out.rec(&format!("zoc {} ij2j {}", depth, ij), &opt_u64(rj));
  }
}

fn uniq_case(out: &mut Out, depth: u8, hash: u64, valid: bool) {
  let u = catch(|| to_uniq(depth, hash));
  out.rec(&format!("touniq {} {}", depth, hash), &opt_u64(u));
  let v = catch(|| to_uniq_ivoa(depth, hash));
  out.rec(&format!("touniqivoa {} {}", depth, hash), &opt_u64(v));
  if valid {
    out.evaluations += 1;
    let inp = format!("depth={} hash={}", depth, hash);
    match u {
      Some(u) => {
        let back = catch(|| from_uniq(u));
        out.rec(&format!("fromuniq {}", u), &match back { Some((d, h)) => format!("{} {}", d, h), None => "panic".into() });
        if back != Some((depth, hash)) { out.violation("uniq-roundtrip", inp.clone(), format!("{} {}", depth, hash), format!("{:?}", back)); }
        if u >> 63 != 0 { out.violation("uniq-fits", inp.clone(), "< 2^63".into(), u.to_string()); }
      }
      None => out.violation("uniq-panic", inp.clone(), "a value".into(), "panic".into()),
    }
    match v {
      Some(v) => {
        let back = catch(|| from_uniq_ivoa(v));
        out.rec(&format!("fromuniqivoa {}", v), &match back { Some((d, h)) => format!("{} {}", d, h), None => "panic".into() });
        if back != Some((depth, hash)) { out.violation("uniq-ivoa-roundtrip", inp.clone(), format!("{} {}", depth, hash), format!("{:?}", back)); }
        if v != (4u64 << (2 * depth as u32)) + hash { out.violation("uniq-ivoa-value", inp.clone(), "4*4^d+h".into(), v.to_string()); }
      }
      None => out.violation("uniq-ivoa-panic", inp, "a value".into(), "panic".into()),
    }
  } else if depth > 29 {
    out.evaluations += 1;
    if u.is_some() || v.is_some() {
      out.violation("uniq-guard", format!("depth={} hash={}", depth, hash), "panic".into(), format!("{:?} {:?}", u, v));
    }
  }
}

pub fn run(out: &mut Out, rng: &mut Rng, thorough: bool) {
  // (1) exhaustive 2^16 pairs for the small class (depth 8), every smaller depth on its full domain up to depth 4
  for depth in 1..=4u8 {
    let n = 1u32 << depth;
    for i in 0..n { for j in 0..n { zoc_case(out, depth, i, j, true); out.stat("zoc:exhaustive-small-depths"); } }
  }
  let step = if thorough { 1 } else { 5 };
  let mut i = 0u32;
  while i < 256 { let mut j = 0u32; while j < 256 { zoc_case(out, 8, i, j, true); out.stat("zoc:small-256x256"); j += if thorough {1} else {3}; } i += step; }
  // (2) byte-wise exhaustive: every byte value in every byte position, others 0 or 0xFF
  for &depth in &[16u8, 29u8, 17u8, 9u8] {
    let nbits = depth as u32;
    let mask: u32 = if nbits >= 32 { u32::MAX } else { (1u32 << nbits) - 1 };
    for pos in 0..4u32 {
      for b in 0..256u32 {
        for &fill in &[0u32, 0xFFFF_FFFFu32] {
          let v = ((fill & !(0xFFu32 << (8 * pos))) | (b << (8 * pos))) & mask;
          let w = (fill ^ 0x5A5A_5A5A) & mask;
          zoc_case(out, depth, v, w, true);
          zoc_case(out, depth, w, v, true);
          out.stat("zoc:bytewise");
        }
      }
    }
  }
  // (3) random pairs at every depth, in domain
  let n_rand = if thorough { 20000 } else { 1500 };
  for depth in 0..=29u8 {
    for _ in 0..n_rand {
      let m = if depth == 0 { 0 } else { (1u64 << depth) - 1 };
      let i = (rng.next() & m) as u32;
      let j = (rng.next() & m) as u32;
      zoc_case(out, depth, i, j, true);
      out.stat("zoc:random-in-domain");
    }
    // boundary values
    if depth > 0 {
      let m = ((1u64 << depth) - 1) as u32;
      for &(i, j) in &[(0u32, 0u32), (m, m), (m, 0), (0, m), (1, m - (m > 0) as u32), (m >> 1, (m >> 1) + 1)] {
        zoc_case(out, depth, i & m, j & m, true);
        out.stat("zoc:boundary");
      }
    }
  }
  // (4) out-of-domain operands (model must mirror the truncations), h2ij on arbitrary u64, bad depths
  for _ in 0..(if thorough { 20000 } else { 2000 }) {
    let depth = rng.below(30) as u8;
    zoc_case(out, depth, rng.next() as u32, rng.next() as u32, false);
    h2ij_case(out, depth, rng.next());
    out.stat("zoc:out-of-domain");
  }
  for &depth in &[30u8, 31, 64, 255] {
    let r = catch(|| get_zoc(depth).ij2h(1, 1));
    out.rec(&format!("zoc {} ij2h 1 1", depth), &opt_u64(r));
    out.evaluations += 1;
    if r.is_some() { out.violation("zoc-guard", format!("depth={}", depth), "panic".into(), format!("{:?}", r)); }
    out.stat("zoc:bad-depth");
  }
  // (5) uniq: all (d, h) for d <= 5 (quick) / 8 (thorough), first/last/random for every d, bad depths
  let dmax = if thorough { 8 } else { 5 };
  for depth in 0..=dmax {
    let n = 12u64 << (2 * depth);
    for h in 0..n { uniq_case(out, depth, h, true); }
    out.stat_n("uniq:exhaustive", n);
  }
  for depth in 0..=29u8 {
    let n = 12u64 << (2 * depth as u32);
    for &h in &[0u64, 1 % n, n - 1, n / 2, (n / 12) * 4, (n / 12) * 4 - (depth > 0) as u64] {
      uniq_case(out, depth, h, true);
      out.stat("uniq:boundary");
    }
    for _ in 0..(if thorough { 2000 } else { 200 }) {
      uniq_case(out, depth, rng.below(n), true);
      out.stat("uniq:random");
    }
  }
  for &depth in &[30u8, 31, 127, 255] {
    uniq_case(out, depth, rng.below(1000), false);
    out.stat("uniq:bad-depth");
  }
}
