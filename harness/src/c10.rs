//! C10: NESTED <-> RING conversion.
use crate::util::*;
use cdshealpix::nested::get_or_create;

fn tri4(n: u64) -> u64 { 2 * n * (n + 1) }

/// ring-boundary classes of RING indices at a depth
pub fn ring_classes(depth: u8, rng: &mut Rng, per_region: usize) -> Vec<(u64, &'static str)> {
  let n = 1u64 << depth;
  let nh = 12 * n * n;
  let mut v: Vec<(u64, &'static str)> = Vec::new();
  let fe = tri4(n);                  // first cell fully in the equatorial region
  let mut rings: Vec<u64> = vec![0, 1, 2, n.saturating_sub(2), n.saturating_sub(1)];
  for _ in 0..per_region { rings.push(rng.below(n)); }
  // large rings where (2r+1)^2 is just above 2^53
  for k in 0..8u64 { let r = (1u64 << 26) + (1u64 << 25) * k / 2; if r < n { rings.push(r); rings.push(n - 1 - (k * 7919) % n); } }
  for &i in &rings {
    if i >= n { continue; }
    let start = tri4(i);
    let len = 4 * (i + 1);
    for &(off, tag) in &[(0u64, "npc-first"), (len - 1, "npc-last"), (len / 4, "npc-quarter"), (len / 4 - (len >= 4) as u64, "npc-quarter-1"), (len / 2, "npc-half")] {
      if start + off < fe { v.push((start + off, tag)); }
      // south cap mirror
      let s = nh - 1 - (start + off);
      v.push((s, match tag { "npc-first" => "spc-last", "npc-last" => "spc-first", _ => "spc-inner" }));
    }
  }
  // equatorial rings: 2n-1 rings of 4n cells starting at fe
  let n_eq = 2 * n - 1;
  let mut eq: Vec<u64> = vec![0, 1, n.saturating_sub(1), n, n_eq.saturating_sub(1) / 2, n_eq.saturating_sub(2), n_eq.saturating_sub(1)];
  for _ in 0..per_region { eq.push(rng.below(n_eq.max(1))); }
  for &k in &eq {
    if k >= n_eq { continue; }
    let start = fe + k * 4 * n;
    for &(off, tag) in &[(0u64, "eqr-first"), (4 * n - 1, "eqr-last"), (n, "eqr-quarter"), (n - 1, "eqr-quarter-1"), (2 * n, "eqr-half")] {
      if start + off < nh - fe { v.push((start + off, tag)); }
    }
  }
  v.push((fe - 1, "transition-npc")); v.push((fe, "transition-eqr"));
  v.push((nh - fe - 1, "transition-eqr-s")); v.push((nh - fe, "transition-spc"));
  v.push((0, "first")); v.push((nh - 1, "last"));
  v.retain(|x| x.0 < nh);
  v
}

fn case_from(out: &mut Out, depth: u8, r: u64, tag: &str) -> Option<u64> {
  let l = get_or_create(depth);
  let nh = 12u64 << (2 * depth as u32);
  let h = catch(|| l.from_ring(r));
  out.rec(&format!("fromring {} {}", depth, r), &opt_u64(h));
  out.evaluations += 1;
  out.stat(&format!("C10:{}", tag));
  let inp = format!("depth={} ring={} class={}", depth, r, tag);
  match h {
    None => { out.violation("C10:from_ring:panic", inp, "a cell".into(), "panic".into()); None }
    Some(h) => {
      if h >= nh { out.violation("C10:from_ring:range", inp, format!("< {}", nh), h.to_string()); return None; }
      let back = catch(|| l.to_ring(h));
      out.rec(&format!("toring {} {}", depth, h), &opt_u64(back));
      if back != Some(r) { out.violation("C10:to_ring(from_ring)", inp.clone(), r.to_string(), format!("{:?}", back)); }
      // both schemes describe the same cell
      let c1 = catch(|| cdshealpix::ring::center_of_projected_cell(1u32 << depth, r));
      let c2 = catch(|| l.center_of_projected_cell(h));
      match (c1, c2) {
        (Some(a), Some(b)) => {
          let dx = (a.0 - b.0).abs().min((a.0 - b.0).abs() - 8.0).abs().min((a.0 - b.0).abs());
          if !(dx < 1e-9 || (8.0 - dx).abs() < 1e-9) || (a.1 - b.1).abs() > 1e-9 {
            out.violation("C10:ring-centre", inp, format!("{:?}", b), format!("{:?}", a));
          }
        }
        _ => out.violation("C10:centre-panic", inp, "centres".into(), "panic".into()),
      }
      Some(h)
    }
  }
}

fn case_to(out: &mut Out, depth: u8, h: u64, tag: &str) {
  let l = get_or_create(depth);
  let nh = 12u64 << (2 * depth as u32);
  let r = catch(|| l.to_ring(h));
  out.rec(&format!("toring {} {}", depth, h), &opt_u64(r));
  out.evaluations += 1;
  out.stat(&format!("C10:{}", tag));
  let inp = format!("depth={} nested={} class={}", depth, h, tag);
  match r {
    None => out.violation("C10:to_ring:panic", inp, "a ring index".into(), "panic".into()),
    Some(r) => {
      if r >= nh { out.violation("C10:to_ring:range", inp, format!("< {}", nh), r.to_string()); return; }
      let back = catch(|| l.from_ring(r));
      out.rec(&format!("fromring {} {}", depth, r), &opt_u64(back));
      if back != Some(h) { out.violation("C10:from_ring(to_ring)", inp, h.to_string(), format!("{:?}", back)); }
    }
  }
}

/// order of centres for consecutive RING indices r, r+1: latitude non-increasing, then longitude increasing
fn order_case(out: &mut Out, depth: u8, r: u64) {
  let l = get_or_create(depth);
  let nh = 12u64 << (2 * depth as u32);
  if r + 1 >= nh { return; }
  out.evaluations += 1;
  let res = catch(|| (l.center_of_projected_cell(l.from_ring(r)), l.center_of_projected_cell(l.from_ring(r + 1))));
  let inp = format!("depth={} ring={} and ring+1", depth, r);
  match res {
    None => out.violation("C10:order:panic", inp, "centres".into(), "panic".into()),
    Some((a, b)) => {
      let eps = 0.25 / (1u64 << depth) as f64;
      let ok = if (a.1 - b.1).abs() < eps { b.0 > a.0 && a.0 >= 0.0 && b.0 < 8.0 } else { b.1 < a.1 };
      if !ok { out.violation("C10:order", inp, "lat non-increasing, then lon increasing in [0, 2pi)".into(), format!("{:?} then {:?}", a, b)); }
    }
  }
}

pub fn run(out: &mut Out, rng: &mut Rng, thorough: bool) {
  let dex = if thorough { 9 } else { 6 };
  for depth in 0..=dex {
    let nh = 12u64 << (2 * depth as u32);
    for r in 0..nh { case_from(out, depth, r, "exhaustive"); }
    for h in 0..nh { case_to(out, depth, h, "exhaustive-nested"); }
    for r in 0..nh { order_case(out, depth, r); }
  }
  for depth in (dex + 1)..=29 {
    let nh = 12u64 << (2 * depth as u32);
    let classes = ring_classes(depth, rng, if thorough { 64 } else { 12 });
    for (r, tag) in classes {
      case_from(out, depth, r, tag);
      order_case(out, depth, r);
      if r > 0 { order_case(out, depth, r - 1); }
    }
    for _ in 0..(if thorough { 3000 } else { 300 }) {
      case_from(out, depth, rng.below(nh), "random-ring");
      case_to(out, depth, rng.below(nh), "random-nested");
    }
    // corners / borders of base cells in NESTED numbering
    let n = 1u64 << depth;
    for b in 0..12u64 {
      for &(i, j) in &[(0u64, 0u64), (n - 1, 0), (0, n - 1), (n - 1, n - 1), (n / 2, 0), (0, n / 2), (n - 1, n / 2), (n / 2, n - 1), (1, 1)] {
        // interleave
        let mut h = 0u64; for k in 0..depth as u64 { h |= ((i >> k) & 1) << (2 * k); h |= ((j >> k) & 1) << (2 * k + 1); }
        case_to(out, depth, (b << (2 * depth as u64)) | h, "base-cell-border");
      }
    }
  }
}
