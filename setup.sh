#!/bin/sh
# MANIFEST.setup_cmd: build the framework from files on disk only (offline).
set -e
cd "$(dirname "$0")"
export CARGO_NET_OFFLINE=true
python3 translator/rs2lean.py
(cd lean && lake build hpxdriver $(for k in 01 02 03 04 05 06 07 08 09 10 11 12 13 14 15 16 17 18 19 20; do echo HpxVerif.Props.C$k; done))
(cd harness && cargo build --offline -q 2>/dev/null && cargo build --offline -q --release 2>/dev/null)
if grep -q ' bmi2' /proc/cpuinfo; then
  (cd harness && CARGO_TARGET_DIR=target/bmi2 RUSTFLAGS="--cfg cdshealpix_verif -C target-feature=+bmi2" cargo build --offline -q --release 2>/dev/null)
fi
echo setup done
