/-
Model of `src/nested/bmoc.rs`: raw encoding, `Cell`, the four logical operators with their helpers
(`go_up`, `go_down`, `dd_4_go_up`, `consume_while_*`, `not_in_cell_4_or/xor`), `pack`, `to_lower_depth`,
the fixed-depth builder, and the views (`flat_iter`, `flat_iter_cell`, `deep_size`, `to_ranges`).

The model works on decoded cells (`Cell`) for the operators -- exactly what the Rust code does through
`BMOCIter` (decode with the operand's own `depth_max`) and `BMOCBuilderUnsafe::push` (encode with the result's
`depth_max`) -- and on raw values for `pack` / `to_lower_depth`, which the Rust code runs on raw values.
`none` stands for a panic.  Core Lean only.
-/

namespace Hpx.Bmoc

structure Cell where
  depth : Nat
  hash : Nat
  full : Bool
  deriving DecidableEq, Repr, Inhabited

/-- `u64::trailing_zeros` (64 for zero) -/
def tzAux : Nat → Nat → Nat
  | 0, _ => 0
  | f + 1, x => if x % 2 = 1 then 0 else 1 + tzAux f (x / 2)

def tz64 (x : Nat) : Nat := if x % 2 ^ 64 = 0 then 64 else tzAux 64 (x % 2 ^ 64)

/-- `u64::leading_zeros` -/
def lz64 (x : Nat) : Nat := if x % 2 ^ 64 = 0 then 64 else 63 - (x % 2 ^ 64).log2

/-- `build_raw_value` (`bmoc.rs:1295`); no truncation is needed for `depth ≤ depth_max ≤ 29`, `hash < 12·4^depth` -/
def buildRaw (depth hash : Nat) (full : Bool) (dmax : Nat) : Nat :=
  (((hash <<< 1) ||| 1) <<< (1 + ((dmax - depth) <<< 1))) ||| (if full then 1 else 0)

/-- `Cell::new` (`bmoc.rs:368`) -/
def decode (raw dmax : Nat) : Cell :=
  let dd := tz64 (raw >>> 1) >>> 1
  { depth := dmax - dd, hash := raw >>> (2 + (dd <<< 1)), full := raw &&& 1 == 1 }

def encode (dmax : Nat) (c : Cell) : Nat := buildRaw c.depth c.hash c.full dmax

/-- a BMOC: `depth_max` and the raw entries -/
structure BMOC where
  dmax : Nat
  entries : List Nat
  deriving DecidableEq, Repr

def BMOC.cells (b : BMOC) : List Cell := b.entries.map (decode · b.dmax)

/-! ## `go_up`, `go_down`, `dd_4_go_up` -/

/-- cells `(d, h)` for `h` in `[lo, hi)` -/
def pushRange (d lo hi : Nat) (flag : Bool) : List Cell :=
  (List.range (hi - lo)).map (fun k => { depth := d, hash := lo + k, full := flag })

/-- `go_up`: returns the pushed cells and the new `(d, h)` -/
def goUp : (dd : Nat) → (d h : Nat) → (flag : Bool) → List Cell × Nat × Nat
  | 0, d, h, _ => ([], d, h + 1)
  | dd + 1, d, h, flag =>
    let pushed := pushRange d (h + 1) ((h ||| 3) + 1) flag
    let (rest, d', h') := goUp dd (d - 1) (h >>> 2) flag
    (pushed ++ rest, d', h')

/-- inner loop of `go_down` over depths `dcur ..= td` (`n = td - dcur` remaining levels) -/
def goDownAux : (n : Nat) → (dcur h th : Nat) → (flag : Bool) → List Cell
  | 0, dcur, h, th, flag => pushRange dcur h th flag
  | n + 1, dcur, h, th, flag =>
    let t := th >>> (2 * (n + 1))
    pushRange dcur h t flag ++ goDownAux n (dcur + 1) (t <<< 2) th flag

/-- `go_down` (requires `d ≤ td`, a `debug_assert!`): pushed cells; the new cursor is `(td, th)` -/
def goDown (d h td th : Nat) (flag : Bool) : List Cell := goDownAux (td - d) d h th flag

/-- `dd_4_go_up` -/
def dd4GoUp (d h nd nh : Nat) : Nat :=
  let target := if nd < d then nh <<< ((d - nd) <<< 1) else nh >>> ((nd - d) <<< 1)
  let x := h ^^^ target
  if x != 0 then min ((63 - lz64 x) >>> 1) d else 0

/-- `is_in` -/
def isIn (low high : Cell) : Bool :=
  low.depth ≤ high.depth && low.hash == high.hash >>> ((high.depth - low.depth) <<< 1)

/-! ## `not` -/

/-- loop body of `not` for the cells after the first one; state: cursor `(d, h)` -/
def notLoop : List Cell → Nat → Nat → List Cell × Nat × Nat
  | [], d, h => ([], d, h)
  | c :: rest, d, h =>
    let dd := dd4GoUp d h c.depth c.hash
    let (up, d1, h1) := goUp dd d h true
    let down := goDown d1 h1 c.depth c.hash true
    let keep := if c.full then [] else [c]
    let (tl, d2, h2) := notLoop rest c.depth c.hash
    (up ++ down ++ keep ++ tl, d2, h2)

def notCells : List Cell → List Cell
  | [] => pushRange 0 0 12 true
  | c :: rest =>
    let down := goDown 0 0 c.depth c.hash true
    let keep := if c.full then [] else [c]
    let (mid, d, h) := notLoop rest c.depth c.hash
    let (up, _, h') := goUp d d h true
    down ++ keep ++ mid ++ up ++ pushRange 0 h' 12 true

/-! ## `and` -/

def andCells : List Cell → List Cell → List Cell
  | [], _ => []
  | _, [] => []
  | l :: ls, r :: rs =>
    if l.depth < r.depth then
      let hr := r.hash >>> ((r.depth - l.depth) <<< 1)
      if l.hash < hr then andCells ls (r :: rs)
      else if l.hash > hr then andCells (l :: ls) rs
      else { depth := r.depth, hash := r.hash, full := r.full && l.full } :: andCells (l :: ls) rs
    else if l.depth > r.depth then
      let hl := l.hash >>> ((l.depth - r.depth) <<< 1)
      if hl < r.hash then andCells ls (r :: rs)
      else if hl > r.hash then andCells (l :: ls) rs
      else { depth := l.depth, hash := l.hash, full := r.full && l.full } :: andCells ls (r :: rs)
    else
      if l.hash < r.hash then andCells ls (r :: rs)
      else if l.hash > r.hash then andCells (l :: ls) rs
      else { depth := l.depth, hash := l.hash, full := r.full && l.full } :: andCells ls rs
termination_by l r => l.length + r.length

/-! ## `or` -/

/-- `consume_while_overlapped`: `(returned cell, remaining iterator)` -/
def consumeWhileOverlapped (low : Cell) : List Cell → Option Cell × List Cell
  | [] => (none, [])
  | c :: rest => if isIn low c then consumeWhileOverlapped low rest else (some c, rest)

/-- `consume_while_overlapped_and_partial`: the out-parameter `res_is_overlapped` is reset on entry and set when
    the loop stops on a full cell inside `low` -/
def consumeWhileOverlappedAndPartial (low : Cell) : List Cell → Option Cell × List Cell × Bool
  | [] => (none, [], false)
  | c :: rest =>
    if isIn low c then
      if c.full then (some c, rest, true) else consumeWhileOverlappedAndPartial low rest
    else (some c, rest, false)

theorem cwo_length (low : Cell) (it : List Cell) : (consumeWhileOverlapped low it).2.length ≤ it.length := by
  induction it with
  | nil => simp [consumeWhileOverlapped]
  | cons c rest ih =>
    simp only [consumeWhileOverlapped]
    split
    · exact Nat.le_trans ih (Nat.le_succ _)
    · simp

theorem cwoap_length (low : Cell) (it : List Cell) :
    (consumeWhileOverlappedAndPartial low it).2.1.length ≤ it.length := by
  induction it with
  | nil => simp [consumeWhileOverlappedAndPartial]
  | cons c rest ih =>
    simp only [consumeWhileOverlappedAndPartial]
    split
    · split
      · simp
      · exact Nat.le_trans ih (Nat.le_succ _)
    · simp

/-- the `while { cell = consume…; is_overlapped } { … }` loop of `not_in_cell_4_or`; `fuel` bounds the iterations
    (each consumes at least one element of the iterator or panics).  Returns pushed cells, cursor, last cell,
    remaining iterator; `none` = panic (`cell.unwrap()` on `None`). -/
def notInCell4OrLoop (low : Cell) : (fuel : Nat) → List Cell → Nat → Nat →
    Option (List Cell × Nat × Nat × Option Cell × List Cell)
  | 0, _, _, _ => none
  | fuel + 1, it, d, h =>
    let (cell, it', flag') := consumeWhileOverlappedAndPartial low it
    if flag' then
      match cell with
      | none => none
      | some c =>
        let dd := dd4GoUp d h c.depth c.hash
        let (up, d1, h1) := goUp dd d h false
        let down := goDown d1 h1 c.depth c.hash false
        match notInCell4OrLoop low fuel it' c.depth c.hash with
        | none => none
        | some (tl, d2, h2, cell2, it2) => some (up ++ down ++ [{ c with full := true }] ++ tl, d2, h2, cell2, it2)
    else some ([], d, h, cell, it')

/-- `not_in_cell_4_or`: `(pushed, returned cell, remaining iterator)` -/
def notInCell4Or (low c : Cell) (it : List Cell) : Option (List Cell × Option Cell × List Cell) :=
  let down := goDown low.depth low.hash c.depth c.hash false
  match notInCell4OrLoop low (it.length + 2) it c.depth c.hash with
  | none => none
  | some (mid, d, h, cell, it') =>
    let (up, d1, h1) := goUp (d - low.depth) d h false
    let fin := goDown d1 h1 low.depth (low.hash + 1) false
    some (down ++ [{ c with full := true }] ++ mid ++ up ++ fin, cell, it')

/-- the main merge loop of `or`; operands are `Option Cell × iterator` pairs as in the code
    (`left`/`right` and `it_left`/`it_right`).  Output before `pack`. -/
def orLoop : (fuel : Nat) → Option Cell → List Cell → Option Cell → List Cell → Option (List Cell)
  | 0, _, _, _, _ => none
  | _ + 1, none, _, none, _ => some []
  | fuel + 1, some l, lit, none, _ =>
    (orLoop fuel lit.head? lit.tail none []).map (l :: ·)
  | fuel + 1, none, _, some r, rit =>
    (orLoop fuel none [] rit.head? rit.tail).map (r :: ·)
  | fuel + 1, some l, lit, some r, rit =>
    if l.depth < r.depth then
      let hr := r.hash >>> ((r.depth - l.depth) <<< 1)
      if l.hash < hr then (orLoop fuel lit.head? lit.tail (some r) rit).map (l :: ·)
      else if l.hash > hr then (orLoop fuel (some l) lit rit.head? rit.tail).map (r :: ·)
      else if l.full then
        let (right, rit') := consumeWhileOverlapped l rit
        (orLoop fuel lit.head? lit.tail right rit').map (l :: ·)
      else
        let (right, rit', ov) :=
          if r.full then (some r, rit, true) else consumeWhileOverlappedAndPartial l rit
        if ov then
          match right with
          | none => none
          | some c =>
            match notInCell4Or l c rit' with
            | none => none
            | some (pushed, right', rit'') => (orLoop fuel lit.head? lit.tail right' rit'').map (pushed ++ ·)
        else (orLoop fuel lit.head? lit.tail right rit').map ({ l with full := false } :: ·)
    else if l.depth > r.depth then
      let hl := l.hash >>> ((l.depth - r.depth) <<< 1)
      if hl < r.hash then (orLoop fuel lit.head? lit.tail (some r) rit).map (l :: ·)
      else if hl > r.hash then (orLoop fuel (some l) lit rit.head? rit.tail).map (r :: ·)
      else if r.full then
        let (left, lit') := consumeWhileOverlapped r lit
        (orLoop fuel left lit' rit.head? rit.tail).map (r :: ·)
      else
        let (left, lit', ov) :=
          if l.full then (some l, lit, true) else consumeWhileOverlappedAndPartial r lit
        if ov then
          match left with
          | none => none
          | some c =>
            match notInCell4Or r c lit' with
            | none => none
            | some (pushed, left', lit'') => (orLoop fuel left' lit'' rit.head? rit.tail).map (pushed ++ ·)
        else (orLoop fuel left lit' rit.head? rit.tail).map ({ r with full := false } :: ·)
    else
      if l.hash < r.hash then (orLoop fuel lit.head? lit.tail (some r) rit).map (l :: ·)
      else if l.hash > r.hash then (orLoop fuel (some l) lit rit.head? rit.tail).map (r :: ·)
      else (orLoop fuel lit.head? lit.tail rit.head? rit.tail).map
        ({ depth := l.depth, hash := l.hash, full := r.full || l.full } :: ·)

def orCellsUnpacked (a b : List Cell) : Option (List Cell) :=
  orLoop (a.length + b.length + 2) a.head? a.tail b.head? b.tail

/-! ## `xor` -/

/-- the `while let Some(c) = &cell { if !is_in … }` loop of `not_in_cell_4_xor` -/
def notInCell4XorLoop (low : Cell) : List Cell → Nat → Nat → List Cell × Nat × Nat × Option Cell × List Cell
  | [], d, h => ([], d, h, none, [])
  | c :: rest, d, h =>
    if !isIn low c then ([], d, h, some c, rest)
    else
      let dd := dd4GoUp d h c.depth c.hash
      let (up, d1, h1) := goUp dd d h true
      let down := goDown d1 h1 c.depth c.hash true
      let keep := if c.full then [] else [{ c with full := false }]
      let (tl, d2, h2, cell, it) := notInCell4XorLoop low rest c.depth c.hash
      (up ++ down ++ keep ++ tl, d2, h2, cell, it)

def notInCell4Xor (low c : Cell) (it : List Cell) : List Cell × Option Cell × List Cell :=
  let down := goDown low.depth low.hash c.depth c.hash true
  let keep := if c.full then [] else [{ c with full := false }]
  let (mid, d, h, cell, it') := notInCell4XorLoop low it c.depth c.hash
  let (up, d1, h1) := goUp (d - low.depth) d h true
  let fin := goDown d1 h1 low.depth (low.hash + 1) true
  (down ++ keep ++ mid ++ up ++ fin, cell, it')

def xorLoop : (fuel : Nat) → Option Cell → List Cell → Option Cell → List Cell → Option (List Cell)
  | 0, _, _, _, _ => none
  | _ + 1, none, _, none, _ => some []
  | fuel + 1, some l, lit, none, _ => (xorLoop fuel lit.head? lit.tail none []).map (l :: ·)
  | fuel + 1, none, _, some r, rit => (xorLoop fuel none [] rit.head? rit.tail).map (r :: ·)
  | fuel + 1, some l, lit, some r, rit =>
    if l.depth < r.depth then
      let hr := r.hash >>> ((r.depth - l.depth) <<< 1)
      if l.hash < hr then (xorLoop fuel lit.head? lit.tail (some r) rit).map (l :: ·)
      else if l.hash > hr then (xorLoop fuel (some l) lit rit.head? rit.tail).map (r :: ·)
      else if l.full then
        let (pushed, right, rit') := notInCell4Xor l r rit
        (xorLoop fuel lit.head? lit.tail right rit').map (pushed ++ ·)
      else
        let (right, rit') := consumeWhileOverlapped l rit
        (xorLoop fuel lit.head? lit.tail right rit').map (l :: ·)
    else if l.depth > r.depth then
      let hl := l.hash >>> ((l.depth - r.depth) <<< 1)
      if hl < r.hash then (xorLoop fuel lit.head? lit.tail (some r) rit).map (l :: ·)
      else if hl > r.hash then (xorLoop fuel (some l) lit rit.head? rit.tail).map (r :: ·)
      else if r.full then
        let (pushed, left, lit') := notInCell4Xor r l lit
        (xorLoop fuel left lit' rit.head? rit.tail).map (pushed ++ ·)
      else
        let (left, lit') := consumeWhileOverlapped r lit
        (xorLoop fuel left lit' rit.head? rit.tail).map (r :: ·)
    else
      if l.hash < r.hash then (xorLoop fuel lit.head? lit.tail (some r) rit).map (l :: ·)
      else if l.hash > r.hash then (xorLoop fuel (some l) lit rit.head? rit.tail).map (r :: ·)
      else
        let both := r.full && l.full
        (xorLoop fuel lit.head? lit.tail rit.head? rit.tail).map
          (fun t => if both then t else { depth := l.depth, hash := l.hash, full := false } :: t)

def xorCellsUnpacked (a b : List Cell) : Option (List Cell) :=
  xorLoop (a.length + b.length + 2) a.head? a.tail b.head? b.tail

/-! ## `pack` (on raw values, `bmoc.rs:82`) -/

def getDepthRaw (raw dmax : Nat) : Nat := dmax - (tz64 (raw >>> 1) >>> 1)
def hashFromDeltaDepth (raw dd : Nat) : Nat := raw >>> (2 + (dd <<< 1))
def isPartialRaw (raw : Nat) : Bool := raw &&& 1 == 0

/-- one compaction pass: a full cell of depth `> 0` whose hash ends in `00` followed by exactly its three full
    siblings is replaced by the full parent -/
def siblingsFollow (dmax d h : Nat) : List Nat → Bool
  | s1 :: s2 :: s3 :: _ =>
    s1 == buildRaw d (h ||| 1) true dmax && s2 == buildRaw d (h ||| 2) true dmax && s3 == buildRaw d (h ||| 3) true dmax
  | _ => false

def packPass (dmax : Nat) : List Nat → List Nat
  | [] => []
  | c :: rest =>
    let d := getDepthRaw c dmax
    let h := hashFromDeltaDepth c (dmax - d)
    if d == 0 || isPartialRaw c || (h &&& 3 != 0) then c :: packPass dmax rest
    else if siblingsFollow dmax d h rest then
      buildRaw (d - 1) (h >>> 2) true dmax :: packPass dmax (rest.drop 3)
    else c :: packPass dmax rest
termination_by l => l.length
decreasing_by all_goals (simp only [List.length_cons, List.length_drop]; omega)

/-- passes until the length no longer changes -/
def packFuel (dmax : Nat) : Nat → List Nat → List Nat
  | 0, l => l
  | f + 1, l => let l' := packPass dmax l; if l'.length == l.length then l' else packFuel dmax f l'

def pack (dmax : Nat) (l : List Nat) : List Nat := packFuel dmax (l.length + 1) l

/-! ## `to_lower_depth` (on raw values, `bmoc.rs:138`) -/

def lowDepthRawAtLowerDepth (raw dmax newDepth : Nat) : Nat :=
  (raw >>> ((dmax - newDepth) <<< 1)) ||| (raw &&& 1)

/-- second loop (`for i in (i_new + 1)..len`) with the pending `prev_hash_at_new_depth` -/
def toLowerLoop (dmax nd : Nat) : List Nat → Option Nat → List Nat
  | [], some p => [(p <<< 2) ||| 2]
  | [], none => []
  | raw :: rest, prev =>
    let depth := getDepthRaw raw dmax
    if depth ≤ nd then
      let flush := match prev with | some p => [(p <<< 2) ||| 2] | none => []
      flush ++ (lowDepthRawAtLowerDepth raw dmax nd :: toLowerLoop dmax nd rest none)
    else
      let cur := hashFromDeltaDepth raw (dmax - nd)
      match prev with
      | some p => if p != cur then ((p <<< 2) ||| 2) :: toLowerLoop dmax nd rest (some cur)
                  else toLowerLoop dmax nd rest (some p)
      | none => toLowerLoop dmax nd rest (some cur)

/-- first loop: copy while `depth ≤ new_depth`; `none` = panic (`new_depth ≥ depth_max`) -/
def toLowerDepth (dmax nd : Nat) (l : List Nat) : Option (List Nat) :=
  if nd ≥ dmax then none else some (toLowerLoop dmax nd l none)

/-! ## the public operators on BMOCs -/

def BMOC.not (b : BMOC) : BMOC := { dmax := b.dmax, entries := (notCells b.cells).map (encode b.dmax) }

def BMOC.and (a b : BMOC) : BMOC :=
  let dm := max a.dmax b.dmax
  { dmax := dm, entries := (andCells a.cells b.cells).map (encode dm) }

def BMOC.or (a b : BMOC) : Option BMOC :=
  let dm := max a.dmax b.dmax
  (orCellsUnpacked a.cells b.cells).map fun cs => { dmax := dm, entries := pack dm (cs.map (encode dm)) }

def BMOC.xor (a b : BMOC) : Option BMOC :=
  let dm := max a.dmax b.dmax
  (xorCellsUnpacked a.cells b.cells).map fun cs => { dmax := dm, entries := pack dm (cs.map (encode dm)) }

/-! ## views -/

def deepSize (b : BMOC) : Nat :=
  (b.entries.map fun raw => 4 ^ (b.dmax - getDepthRaw raw b.dmax)).sum

/-- `flat_iter`: all cells at `depth_max` in order -/
def flatIter (b : BMOC) : List Nat :=
  b.entries.flatMap fun raw =>
    let dd := tz64 (raw >>> 1) >>> 1
    let hash := raw >>> (2 + (dd <<< 1))
    (List.range (4 ^ dd)).map (fun k => (hash <<< (dd <<< 1)) + k)

/-- `flat_iter_cell`: `(raw_value, hash at depth_max, is_full)` -/
def flatIterCell (b : BMOC) : List (Nat × Nat × Bool) :=
  b.entries.flatMap fun raw =>
    let dd := tz64 (raw >>> 1) >>> 1
    let hash := raw >>> (2 + (dd <<< 1))
    (List.range (4 ^ dd)).map (fun k => (raw, (hash <<< (dd <<< 1)) + k, raw &&& 1 == 1))

/-- `to_ranges`: state `(prev_min, prev_max)`, output reversed accumulator -/
def toRangesLoop (dmax : Nat) : List Cell → Nat → Nat → List (Nat × Nat)
  | [], pmin, pmax => if pmin != pmax then [(pmin, pmax)] else []
  | c :: rest, pmin, pmax =>
    let (s, e) := if c.depth < dmax then
        let t := (dmax - c.depth) <<< 1
        (c.hash <<< t, (c.hash + 1) <<< t)
      else (c.hash, c.hash + 1)
    if s == pmax then toRangesLoop dmax rest pmin e
    else (if pmin != pmax then [(pmin, pmax)] else []) ++ toRangesLoop dmax rest s e

def toRanges (b : BMOC) : List (Nat × Nat) := toRangesLoop b.dmax b.cells 0 0

/-! ## `BMOCBuilderFixedDepth` as a state machine -/

structure FixedBuilder where
  depth : Nat
  full : Bool
  buffer : List Nat      -- in push order
  sorted : Bool
  bmoc : Option BMOC
  deriving Repr

def FixedBuilder.init (depth : Nat) (full : Bool) : FixedBuilder :=
  { depth, full, buffer := [], sorted := true, bmoc := none }

/-- `largest_lower_cell_sequence_len(h, entries)` with `entries[0] = h` -/
def seqLenAux : (n : Nat) → (i : Nat) → (h : Nat) → List Nat → Nat
  | 0, i, _, _ => i
  | _ + 1, i, _, [] => i
  | n + 1, i, h, e :: es => if e != h + 1 then i else seqLenAux n (i + 1) (h + 1) es

def largestLowerCellSequenceLen (depth h : Nat) (entries : List Nat) : Nat :=
  let dd := min (tz64 h >>> 1) depth
  let n := min (1 <<< (dd <<< 1)) entries.length
  -- `for i in 1..n`: compares entries[i] with h + i; returns the first mismatching i, else n
  if n ≤ 1 then n else seqLenAux (n - 1) 1 h entries.tail

/-- `usize::next_power_of_two` -/
def nextPow2 (n : Nat) : Nat := if n ≤ 1 then 1 else 2 ^ ((n - 1).log2 + 1)

/-- `buff_to_bmoc` main loop -/
def buffToBmocLoop (depth : Nat) (full : Bool) : (fuel : Nat) → List Nat → List Nat
  | 0, _ => []
  | _ + 1, [] => []
  | fuel + 1, h :: rest =>
    let sl := largestLowerCellSequenceLen depth h (h :: rest)
    let p := nextPow2 sl
    let dd := if p > sl then tz64 p >>> 2 else tz64 p >>> 1
    let tdd := dd <<< 1
    let len := 1 <<< tdd
    buildRaw (depth - dd) (h >>> tdd) full depth :: buffToBmocLoop depth full fuel ((h :: rest).drop len)

def buffToBmoc (depth : Nat) (full : Bool) (buf : List Nat) : BMOC :=
  { dmax := depth, entries := buffToBmocLoop depth full (buf.length + 1) buf }

/-- sorted insertion sort + dedup: the specification of `sort_unstable(); dedup()` on `u64` -/
def insertSorted (x : Nat) : List Nat → List Nat
  | [] => [x]
  | y :: ys => if x ≤ y then x :: y :: ys else y :: insertSorted x ys

def sortNat (l : List Nat) : List Nat := l.foldr insertSorted []

def dedupAdj : List Nat → List Nat
  | [] => []
  | [x] => [x]
  | x :: y :: rest => if x == y then dedupAdj (y :: rest) else x :: dedupAdj (y :: rest)

/-- `drain_buffer`; `none` = the `or` of the code panicked -/
def FixedBuilder.drain (s : FixedBuilder) : Option FixedBuilder :=
  let buf := if s.sorted then s.buffer else dedupAdj (sortNat s.buffer)
  let nb := buffToBmoc s.depth s.full buf
  match s.bmoc with
  | none => some { s with buffer := [], sorted := true, bmoc := some nb }
  | some prev => (prev.or nb).map fun m => { s with buffer := [], sorted := true, bmoc := some m }

/-- `push`; `drainNow` says whether `len == capacity` held after the push (any `Vec` capacity behaviour) -/
def FixedBuilder.push (s : FixedBuilder) (hash : Nat) (drainNow : Bool) : Option FixedBuilder :=
  match s.buffer.getLast? with
  | some h =>
    if h == hash then some s
    else
      let s' := { s with sorted := s.sorted && !(h > hash), buffer := s.buffer ++ [hash] }
      if drainNow then s'.drain else some s'
  | none =>
    let s' := { s with buffer := s.buffer ++ [hash] }
    if drainNow then s'.drain else some s'

/-- `to_bmoc`: `some none` = `None` returned, `none` = panic -/
def FixedBuilder.toBmoc (s : FixedBuilder) : Option (Option BMOC) :=
  if s.buffer.length > 0 then (s.drain).map (·.bmoc) else some s.bmoc

end Hpx.Bmoc
