/-
Model of the cell-size helpers of `src/lib.rs`: `ConstantsC2V::new`, `largest_center_to_vertex_distance*`,
`has_best_starting_depth`, `best_starting_depth`, generic in `Num`.  The 30-entry table and the unrolled binary
search are regenerated from the source (`Gen/Consts.lean`, `Gen/BestDepth.lean`).
-/
import HpxVerif.Model.Num
import HpxVerif.Gen.BestDepth

namespace Hpx.C2V
open Num

variable {α : Type} [Num α]

/-- `SMALLER_EDGE2OPEDGE_DIST[k]` -/
def table (k : Nat) : α := Num.lit (Gen.smallerEdge2OpEdgeDistBits.getD k 0)

def hasBestStartingDepth (r : α) : Bool := Num.lt r (table (α := α) Gen.hasBestStartingDepthIdx)

/-- `best_starting_depth`: `none` = the `assert!` fails (also for NaN) -/
def bestStartingDepth (r : α) : Option Nat :=
  if !Num.lt r (table (α := α) Gen.bestStartingDepthGuardIdx) then none
  else some (Gen.bestStartingDepthTree Num.lt (table (α := α)) r)

def pow2 (x : α) : α := x * x

/-- `squared_half_segment` -/
def squaredHalfSegment (dlon dlat cosLat1 cosLat2 : α) : α :=
  pow2 (Num.sin (Num.half * dlat)) + cosLat1 * cosLat2 * pow2 (Num.sin (Num.half * dlon))

/-- `sphe_dist` -/
def spheDist (shs : α) : α := Num.two * Num.asin (Num.sqrt shs)

/-- `to_squared_half_segment` -/
def toSquaredHalfSegment (d : α) : α := pow2 (Num.sin (Num.half * d))

structure Csts (α : Type) where
  slopeNpc : α
  interceptNpc : α
  slopeEqr : α
  interceptEqr : α
  coeffX2Eqr : α
  coeffCstEqr : α

/-- `ConstantsC2V::new(depth)` -/
def Csts.new (depth : Nat) : Csts α :=
  let nside : Nat := 1 <<< depth
  let distCw : α := Num.one / Num.ofNat nside
  let oneMin : α := Num.one - distCw
  let latNorth := Num.asin ((Num.one : α) - pow2 oneMin / Num.ofNat 3)
  let dMin := latNorth - Num.transitionLat
  let dMax := spheDist (squaredHalfSegment (Num.piOverFour * distCw) dMin (Num.cos latNorth) (Num.cos (Num.transitionLat : α)))
  let slopeNpc := (dMax - dMin) / (Num.piOverFour * oneMin)
  let interceptNpc := dMin
  let dMin2 := (Num.fourOverPi : α) * distCw * Num.cosLatOfSquareCell
  let dMax2 := (Num.transitionLat : α) - Num.asin (oneMin * Num.transitionZ)
  let slopeEqr := (dMax2 - dMin2) / ((Num.transitionLat : α) - Num.latOfSquareCell)
  let interceptEqr := dMin2 - slopeEqr * Num.latOfSquareCell
  let dMax3 := (Num.fourOverPi : α) * distCw
  { slopeNpc, interceptNpc, slopeEqr, interceptEqr,
    coeffX2Eqr := (dMin2 - dMax3) / pow2 (Num.latOfSquareCell : α), coeffCstEqr := dMax3 }

def linearApprox (x slope intercept : α) : α := slope * x + intercept

/-- the `debug_assert!`s of the private helpers are panics when `debug` -/
def npc (debug : Bool) (lon : α) (c : Csts α) : Option α :=
  let l := Num.abs ((Num.piOverFour : α) - Num.rem lon Num.halfPi)
  if debug && !(Num.le (Num.zero : α) l && Num.le l Num.piOverFour) then none
  else some (linearApprox l c.slopeNpc c.interceptNpc)

def npcWithRadius (debug : Bool) (lon radius : α) (c : Csts α) : Option α :=
  if debug && !(Num.lt (Num.zero : α) radius) then none else
  let l := Num.abs ((Num.piOverFour : α) - Num.rem lon Num.halfPi)
  if debug && !(Num.le (Num.zero : α) l && Num.le l Num.piOverFour) then none
  else some (linearApprox (Num.fmin (l + radius) Num.piOverFour) c.slopeNpc c.interceptNpc)

def eqrTop (debug : Bool) (latAbs : α) (c : Csts α) : Option α :=
  if debug && !(Num.le (Num.latOfSquareCell : α) latAbs && Num.lt latAbs Num.transitionLat) then none
  else some (linearApprox latAbs c.slopeEqr c.interceptEqr)

def eqrTopWithRadius (debug : Bool) (latAbs radius : α) (c : Csts α) : Option α :=
  if debug && !(Num.lt (Num.zero : α) radius) then none else
  if debug && !(Num.le (Num.latOfSquareCell : α) latAbs && Num.lt latAbs Num.transitionLat) then none
  else eqrTop debug (Num.fmin (latAbs + radius) Num.transitionLat) c

def eqrBottom (debug : Bool) (latAbs : α) (c : Csts α) : Option α :=
  if debug && !(Num.le (Num.zero : α) latAbs && Num.le latAbs Num.latOfSquareCell) then none
  else some (c.coeffX2Eqr * pow2 latAbs + c.coeffCstEqr)

def eqrBottomWithRadius (debug : Bool) (latAbs radius : α) (c : Csts α) : Option α :=
  if debug && !(Num.lt (Num.zero : α) radius) then none else
  if debug && !(Num.le (Num.zero : α) latAbs && Num.le latAbs Num.latOfSquareCell) then none
  else eqrBottom debug (Num.fmax (latAbs - radius) Num.zero) c

/-- `largest_center_to_vertex_distance(depth, lon, lat)` -/
def largestC2V (debug : Bool) (depth : Nat) (lon lat : α) : Option α :=
  if depth == 0 then some ((Num.halfPi : α) - Num.transitionLat) else
  if depth > 29 then none else   -- `get_or_create(depth)` indexes a 30-entry array
  let latAbs := Num.abs lat
  let c : Csts α := Csts.new depth
  if Num.ge latAbs (Num.transitionLat : α) then npc debug lon c
  else if Num.ge latAbs (Num.latOfSquareCell : α) then eqrTop debug latAbs c
  else eqrBottom debug latAbs c

/-- `largest_center_to_vertex_distance_with_radius` -/
def largestC2VWithRadius (debug : Bool) (depth : Nat) (lon lat radius : α) : Option α :=
  if depth == 0 then some ((Num.halfPi : α) - Num.transitionLat) else
  if depth > 29 then none else
  let latAbs := Num.abs lat
  let latMax := latAbs + radius
  let latMin := latAbs - radius
  let c : Csts α := Csts.new depth
  if Num.ge latMax (Num.transitionLat : α) then npcWithRadius debug lon radius c
  else if Num.ge latMin (Num.latOfSquareCell : α) then eqrTopWithRadius debug latAbs radius c
  else if Num.le latMax (Num.latOfSquareCell : α) then eqrBottomWithRadius debug latAbs radius c
  else
    match eqrTopWithRadius debug latAbs radius c, eqrBottomWithRadius debug latAbs radius c with
    | some a, some b => some (Num.fmax a b)
    | _, _ => none

/-- `largest_center_to_vertex_distances_with_radius(from, to, lon, lat, radius)` -/
def largestC2VsWithRadius (debug : Bool) (fromDepth toDepth : Nat) (lon lat radius : α) : Option (List α) :=
  -- `Vec::with_capacity((to - from) as usize)`: u8 subtraction
  if debug && toDepth < fromDepth then none else
  let head : List α := if fromDepth == 0 then [(Num.halfPi : α) - Num.transitionLat] else []
  let from1 := if fromDepth == 0 then 1 else fromDepth
  let depths := (List.range toDepth).filter (· ≥ from1)
  if depths.any (· > 29) then none else
  let latAbs := Num.abs lat
  let latMax := latAbs + radius
  let latMin := latAbs - radius
  let rest : Option (List α) :=
    if Num.ge latMax (Num.transitionLat : α) then
      let l := Num.abs ((Num.piOverFour : α) - Num.rem lon Num.halfPi)
      let l := Num.fmin (l + radius) Num.piOverFour
      some (depths.map fun d => let c : Csts α := Csts.new d; linearApprox l c.slopeNpc c.interceptNpc)
    else if Num.ge latMin (Num.latOfSquareCell : α) then
      depths.mapM fun d => eqrTop debug latMax (Csts.new d)
    else if Num.le latMax (Num.latOfSquareCell : α) then
      let v := Num.fmax latMin (Num.zero : α)
      depths.mapM fun d => eqrBottom debug v (Csts.new d)
    else
      let vmax := Num.fmin latMax (Num.transitionLat : α)
      let vmin := Num.fmax latMin (Num.zero : α)
      depths.mapM fun d =>
        let c : Csts α := Csts.new d
        match eqrTop debug vmax c, eqrBottom debug vmin c with
        | some a, some b => some (Num.fmax a b)
        | _, _ => none
  rest.map (head ++ ·)

end Hpx.C2V
