/-
Model of `Layer::bilinear_interpolation` (`nested/mod.rs`), generic in `Num`.
-/
import HpxVerif.Model.Hash

namespace Hpx.Bilinear
open Num MW

variable {α : Type} [Num α]

def c050 : α := Num.lit 0x3FE0000000000000
def c075 : α := Num.lit 0x3FE8000000000000
def c125 : α := Num.lit 0x3FF4000000000000
def c150 : α := Num.lit 0x3FF8000000000000

/-- the four weights for quarter `q` (0: S, 1: E, 2: W, 3: N), with the corner neighbour present or missing;
    slot order as in the code -/
def weights (q : Nat) (present : Bool) (dx dy : α) : List α :=
  match q, present with
  | 0, true => [(c050 - dx) * (c050 - dy), (c050 + dx) * (c050 - dy), (c050 - dx) * (c050 + dy), (c050 + dx) * (c050 + dy)]
  | 0, false => [Num.zero, (c050 - dy) * (c075 + c050 * dx), (c050 - dx) * (c075 + c050 * dy), (c050 + dx) * (c050 + dy)]
  | 1, true => [(c150 - dx) * (c050 - dy), (dx - c050) * (c050 - dy), (c150 - dx) * (c050 + dy), (dx - c050) * (c050 + dy)]
  | 1, false => [(c050 - dy) * (c125 - c050 * dx), Num.zero, (c150 - dx) * (c050 + dy), (dx - c050) * (c075 + c050 * dy)]
  | 2, true => [(c050 - dx) * (c150 - dy), (dx + c050) * (c150 - dy), (c050 - dx) * (dy - c050), (c050 + dx) * (dy - c050)]
  | 2, false => [(c050 - dx) * (c125 - c050 * dy), (dx + c050) * (c150 - dy), Num.zero, (dy - c050) * (c050 * dx + c075)]
  | 3, true => [(c150 - dx) * (c150 - dy), (dx - c050) * (c150 - dy), (c150 - dx) * (dy - c050), (dx - c050) * (dy - c050)]
  | _, _ => [(c150 - dx) * (c150 - dy), (dx - c050) * (c125 - c050 * dy), (c125 - c050 * dx) * (dy - c050), Num.zero]

/-- directions of the four slots for quarter `q`; `C` is the cell itself.  When the corner is missing its slot
    carries the cell itself. -/
def slots (q : Nat) : List MW :=
  match q with
  | 0 => [S, SE, SW, C]
  | 1 => [SE, E, C, NE]
  | 2 => [SW, C, W, NW]
  | _ => [C, NE, NW, N]

def corner (q : Nat) : MW := match q with | 0 => S | 1 => E | 2 => W | _ => N

/-- `bilinear_interpolation(lon, lat)`: four `(cell, weight)` pairs; `none` = panic -/
def bilinear (cfg : Cfg) (d : Nat) (lon lat : α) : Option (List (Nat × α)) :=
  match Hash.hashWithDxDy cfg d lon lat with
  | none => none
  | some (h, dx, dy) =>
    match Topo.neighbours cfg d h true with
    | none => none
    | some nm =>
      let get (w : MW) : Option Nat := (nm.find? (·.1 == w)).map (·.2)
      let xcoo : Nat := if Num.gt dx (c050 : α) then 1 else 0
      let ycoo : Nat := if Num.gt dy (c050 : α) then 1 else 0
      let q := (ycoo <<< 1) + xcoo
      let present := (get (corner q)).isSome
      let ws := weights q present dx dy
      -- every non-corner slot is `unwrap`ped: a missing ordinal neighbour would be a panic
      (List.zip (slots q) ws).mapM fun (w, wt) =>
        if w == corner q && !present then some (h, wt)
        else (get w).map fun c => (c, wt)

end Hpx.Bilinear
