/-
Model of the topology code of `nested/mod.rs` (neighbours, internal / external edges) with the compass-point and
base-cell tables of `compass_point.rs` / `lib.rs`.  Core Lean only.
-/
import HpxVerif.Model.Layer

namespace Hpx

/-- `MainWind`, indices as in `compass_point.rs`: S SE E SW C NE W NW N = 0..8 -/
inductive MW | S | SE | E | SW | C | NE | W | NW | N
  deriving DecidableEq, Repr, Inhabited

namespace MW

def index : MW → Nat
  | S => 0 | SE => 1 | E => 2 | SW => 3 | C => 4 | NE => 5 | W => 6 | NW => 7 | N => 8

def ofIndex : Nat → Option MW
  | 0 => some S | 1 => some SE | 2 => some E | 3 => some SW | 4 => some C | 5 => some NE | 6 => some W
  | 7 => some NW | 8 => some N | _ => none

def all : List MW := [S, SE, E, SW, C, NE, W, NW, N]

def opposite : MW → MW
  | S => N | SE => NW | E => W | SW => NE | C => C | NE => SW | W => E | NW => SE | N => S

def offsetSe : MW → Int
  | S => -1 | SE => 0 | E => 1 | SW => -1 | C => 0 | NE => 1 | W => -1 | NW => 0 | N => 1

def offsetSw : MW → Int
  | S => -1 | SE => -1 | E => -1 | SW => 0 | C => 0 | NE => 0 | W => 1 | NW => 1 | N => 1

/-- `from_offsets(se, sw)`: index `3(sw+1) + (se+1)` -/
def ofOffsets (se sw : Int) : Option MW := ofIndex ((3 * (sw + 1) + (se + 1)).toNat)

def isCardinal : MW → Bool | S | E | N | W => true | _ => false
def isOrdinal : MW → Bool | SE | SW | NE | NW => true | _ => false

end MW

namespace Topo
open MW

def prev (m : Nat) : Nat := (m + 3) % 4
def next (m : Nat) : Nat := (m + 1) % 4
def oppo (m : Nat) : Nat := (m + 2) % 4
def baseCell (i j : Nat) : Nat := j * 4 + i

/-- which coordinate a seam rule feeds into the neighbouring base cell -/
inductive Src | i | j | zero | m
  deriving DecidableEq, Repr

def Src.eval (s : Src) (i j m : Nat) : Nat := match s with | .i => i | .j => j | .zero => 0 | .m => m

/-- `ncp_neighbour`: `(base cell, i source, j source)` per base-cell neighbour direction -/
def ncpRule (q : Nat) : MW → Option (Nat × Src × Src)
  | S => some (baseCell q 2, .m, .m)
  | SE => some (baseCell (next q) 1, .i, .m)
  | SW => some (baseCell q 1, .m, .j)
  | NE => some (baseCell (next q) 0, .j, .m)
  | NW => some (baseCell (prev q) 0, .m, .i)
  | N => some (baseCell (oppo q) 0, .m, .m)
  | _ => none

def eqrRule (q : Nat) : MW → Option (Nat × Src × Src)
  | SE => some (baseCell q 2, .i, .m)
  | E => some (baseCell (next q) 1, .zero, .m)
  | SW => some (baseCell (prev q) 2, .m, .j)
  | NE => some (baseCell q 0, .zero, .j)
  | W => some (baseCell (prev q) 1, .m, .zero)
  | NW => some (baseCell (prev q) 0, .i, .zero)
  | _ => none

def spcRule (q : Nat) : MW → Option (Nat × Src × Src)
  | S => some (baseCell (oppo q) 2, .zero, .zero)
  | SE => some (baseCell (next q) 2, .zero, .i)
  | SW => some (baseCell (prev q) 2, .j, .zero)
  | NE => some (baseCell (next q) 1, .zero, .j)
  | NW => some (baseCell q 1, .i, .zero)
  | N => some (baseCell q 0, .zero, .zero)
  | _ => none

def seamRule (d0h : Nat) (dir : MW) : Option (Nat × Src × Src) :=
  match d0h / 4 with
  | 0 => ncpRule (d0h % 4) dir
  | 1 => eqrRule (d0h % 4) dir
  | 2 => spcRule (d0h % 4) dir
  | _ => none

/-- `neighbour_from_parts` at the level of parts: `(d0h, i, j)` of the neighbour of `(d0h, i, j)` in direction
    `dir` for a grid of side `n`; `none` = no neighbour -/
def neighbourParts (n : Nat) (p : HashParts) (dir : MW) : Option HashParts :=
  let i' : Int := (p.i : Int) + dir.offsetSe
  let j' : Int := (p.j : Int) + dir.offsetSw
  let off (c : Int) : Int := if c < 0 then -1 else if c ≥ n then 1 else 0
  match MW.ofOffsets (off i') (off j') with
  | none => none
  | some C => some { d0h := p.d0h, i := i'.toNat, j := j'.toNat }
  | some bdir =>
    match seamRule p.d0h bdir with
    | none => none
    | some (b, si, sj) =>
      -- the shifted coordinates are passed as `u32`; only in-range ones are ever selected by the rules
      let iu := (i' % 4294967296).toNat
      let ju := (j' % 4294967296).toNat
      some { d0h := b, i := si.eval iu ju (n - 1), j := sj.eval iu ju (n - 1) }

def buildParts (cfg : Cfg) (d : Nat) (p : Option HashParts) : Option (Option Nat) :=
  match p with
  | none => some none
  | some p => (Layer.buildHashFromParts cfg d p.d0h p.i p.j).map some

/-- `Layer::neighbour` (`check_hash` first, since the repair of finding F20): outer `none` = panic -/
def neighbour (cfg : Cfg) (d hash : Nat) (dir : MW) : Option (Option Nat) :=
  if hash ≥ Layer.nHash d then none else
  match Layer.decodeHash cfg d hash with
  | none => none
  | some p => buildParts cfg d (neighbourParts (Layer.nside d) p dir)

/-- `inner_cell_neighbours`: the bit-level fast path -/
def innerCellNeighbours (cfg : Cfg) (d : Nat) (hash : Nat) : Option (List (MW × Nat)) :=
  match Layer.zoc cfg d with
  | none => none
  | some c =>
    let d0 := hash &&& Layer.d0hMask d
    let ib := hash &&& Layer.xMask d
    let jb := hash &&& Layer.yMask d
    let ij := Layer.h2ij cfg c (ib ||| jb)
    let i := Lut.ij2i c ij
    let j := Lut.ij2j c ij
    -- u32 arithmetic: `i - 1` underflows when i = 0 (never on this path: the cell is not on a border)
    if i = 0 ∨ j = 0 then none else
    let m1 := Layer.ij2h cfg c (i - 1) (j - 1)
    let p1 := Layer.ij2h cfg c ((i + 1) % 4294967296) ((j + 1) % 4294967296)
    let im1 := m1 &&& Layer.xMask d; let jm1 := m1 &&& Layer.yMask d
    let ip1 := p1 &&& Layer.xMask d; let jp1 := p1 &&& Layer.yMask d
    some [(S, d0 ||| im1 ||| jm1), (SE, d0 ||| ib ||| jm1), (E, d0 ||| ip1 ||| jm1), (SW, d0 ||| im1 ||| jb),
          (NE, d0 ||| ip1 ||| jb), (W, d0 ||| im1 ||| jp1), (NW, d0 ||| ib ||| jp1), (N, d0 ||| ip1 ||| jp1)]

def isInBaseCellBorder (d : Nat) (ib jb : Nat) : Bool :=
  ib == 0 || ib == Layer.xMask d || jb == 0 || jb == Layer.yMask d

def edgeCellNeighbours (cfg : Cfg) (d hash : Nat) : Option (List (MW × Nat)) :=
  match Layer.decodeHash cfg d hash with
  | none => none
  | some p =>
    [S, SE, E, SW, NE, W, NW, N].foldlM (init := ([] : List (MW × Nat))) fun acc dir =>
      match buildParts cfg d (neighbourParts (Layer.nside d) p dir) with
      | none => none
      | some none => some acc
      | some (some h) => some (acc ++ [(dir, h)])

/-- `Layer::neighbours(hash, include_center)`: entries in `MainWind` index order; `none` = panic -/
def neighbours (cfg : Cfg) (d hash : Nat) (includeCenter : Bool) : Option (List (MW × Nat)) :=
  if hash ≥ Layer.nHash d then none else
  let ib := hash &&& Layer.xMask d
  let jb := hash &&& Layer.yMask d
  let r := if isInBaseCellBorder d ib jb then edgeCellNeighbours cfg d hash else innerCellNeighbours cfg d hash
  r.map fun l =>
    let l := if includeCenter then l ++ [(C, hash)] else l
    -- the map is an array indexed by MainWind: entries come out in index order
    MW.all.filterMap fun w => (l.find? (·.1 == w))

/-! ## internal edges -/

/-- `i02h` / `oj2h` of the curve selected for `delta_depth` -/
def i02hDD (cfg : Cfg) (dd k : Nat) : Option Nat :=
  (Layer.zoc cfg dd).map fun c => if cfg.bmi then Bmi.i02h c k else Lut.i02h c k
def oj2hDD (cfg : Cfg) (dd k : Nat) : Option Nat :=
  (Layer.zoc cfg dd).map fun c => if cfg.bmi then Bmi.oj2h c k else Lut.oj2h c k

/-- `x_mask(delta_depth)` = `0x5555… & xy_mask(delta_depth)`, `xy_mask(dd)` = `0xFFFF… .checked_shr(64 − 2·dd)` or `0`
    (since the repair `fix: x_mask, y_mask and xy_mask at depth 0`: before it, `dd = 0` was a shift by 64 — panic in
    debug, all ones in release) -/
def xyMaskFn (_cfg : Cfg) (dd : Nat) : Option Nat :=
  if dd = 0 then some 0 else some (0xFFFFFFFFFFFFFFFF >>> (64 - 2 * dd))

def xMaskFn (cfg : Cfg) (dd : Nat) : Option Nat :=
  (xyMaskFn cfg dd).map (0x5555555555555555 &&& ·)

def yMaskFn (cfg : Cfg) (dd : Nat) : Option Nat :=
  (xyMaskFn cfg dd).map (0xAAAAAAAAAAAAAAAA &&& ·)

/-- `Layer::internal_edge(hash, delta_depth)` (associated function: no depth check here) -/
def internalEdge (cfg : Cfg) (hash dd : Nat) : Option (List Nat) := do
  let _ ← Layer.zoc cfg dd
  let xm ← xMaskFn cfg dd
  let ym := (xm <<< 1) % 2^64
  let h := (hash <<< (2 * dd)) % 2^64
  let am1 := (1 <<< dd) - 1
  let ks := (List.range am1).drop 1    -- 1..am1
  let se ← ks.mapM fun k => (i02hDD cfg dd k).map (h ||| ·)
  let ne ← ks.mapM fun k => (oj2hDD cfg dd k).map (h ||| · ||| xm)
  let nw ← ks.mapM fun k => (i02hDD cfg dd (am1 - k)).map (h ||| ym ||| ·)
  let sw ← ks.mapM fun k => (oj2hDD cfg dd (am1 - k)).map (h ||| ·)
  pure ([h] ++ se ++ [h ||| xm] ++ ne ++ [h ||| ym ||| xm] ++ nw ++ [h ||| ym] ++ sw)

def internalCorner (cfg : Cfg) (hash dd : Nat) (dir : MW) : Option Nat :=
  let h := (hash <<< (2 * dd)) % 2^64
  match dir with
  | S => some h
  | E => (xMaskFn cfg dd).map (h ||| ·)
  | W => (yMaskFn cfg dd).map (h ||| ·)
  | N => (xyMaskFn cfg dd).map (h ||| ·)
  | _ => none

def internalEdgePart (cfg : Cfg) (hash dd : Nat) (dir : MW) : Option (List Nat) := do
  let _ ← Layer.zoc cfg dd
  let h := (hash <<< (2 * dd)) % 2^64
  let ns := 1 <<< dd
  let xs := List.range ns
  match dir with
  | SE => xs.mapM fun x => (i02hDD cfg dd x).map (h ||| ·)
  | SW => xs.mapM fun y => (oj2hDD cfg dd y).map (h ||| ·)
  | NE => do
    let xb ← i02hDD cfg dd (ns - 1)
    xs.mapM fun y => (oj2hDD cfg dd y).map (h ||| · ||| xb)
  | NW => do
    let yb ← oj2hDD cfg dd (ns - 1)
    xs.mapM fun x => (i02hDD cfg dd x).map (h ||| · ||| yb)
  | _ => none

/-- state of the main loop of `internal_edge_sorted` -/
structure IesSt where
  x : Nat
  lim : Nat
  k0 : Nat
  k1 : Nat
  k2 : Nat
  k3 : Nat
  res : Array Nat

/-- `Layer::internal_edge_sorted(hash, delta_depth)`; array writes out of range are panics -/
def internalEdgeSorted (cfg : Cfg) (hash dd : Nat) : Option (List Nat) := do
  let c ← Layer.zoc cfg dd
  let xm ← xMaskFn cfg dd
  let ym := (xm <<< 1) % 2^64
  let h := (hash <<< (2 * dd)) % 2^64
  let nside := 1 <<< dd
  let am1 := nside - 1
  let nhalf := nside >>> 1
  let size := am1 <<< 2
  let set (a : Array Nat) (k v : Nat) : Option (Array Nat) := if k < a.size then some (a.set! k v) else none
  let k2 := am1 + nhalf
  let k3 := (am1 <<< 1) + nhalf
  let r0 := Array.replicate size 0
  let r1 ← set r0 0 h
  -- `k2 - 1`, `k3 - 1`, `size - k0` are usize subtractions
  if k2 = 0 ∨ k3 = 0 ∨ size < 1 then none else
  let r2 ← set r1 (k2 - 1) (h ||| xm)
  let r3 ← set r2 (k3 - 1) (h ||| ym)
  let r4 ← set r3 (size - 1) (h ||| ym ||| xm)
  let rec loop (fuel : Nat) (st : IesSt) : Option (Array Nat) :=
    match fuel with
    | 0 => some st.res
    | fuel + 1 =>
      if ¬ (st.x < nhalf) then some st.res else
      let x := st.x
      let xn0 := Layer.ij2h cfg c x (am1 - x)
      let xs := xn0 &&& xm
      let xn := xn0 &&& ym
      if size < st.k0 + 1 ∨ size < st.k1 + 1 ∨ size < st.k2 + 1 ∨ size < st.k3 + 1 then none else
      (set st.res st.k0 (h ||| xs)).bind fun a =>
      (set a st.k1 (h ||| ((xs <<< 1) % 2^64))).bind fun a =>
      (set a st.k2 (h ||| ((xs <<< 1) % 2^64) ||| xm)).bind fun a =>
      (set a st.k3 (h ||| ym ||| xs)).bind fun a =>
      (set a (size - (st.k0 + 1)) (h ||| ym ||| (xn >>> 1))).bind fun a =>
      (set a (size - (st.k1 + 1)) (h ||| xn ||| xm)).bind fun a =>
      (set a (size - (st.k2 + 1)) (h ||| xn)).bind fun a =>
      (set a (size - (st.k3 + 1)) (h ||| (xn >>> 1))).bind fun a =>
      let x' := x + 1
      if x' = st.lim then
        loop fuel { x := x', lim := (st.lim <<< 1) % 4294967296, k0 := st.k1 + 1, k1 := st.k1 + 1 + st.lim,
                    k2 := st.k2 + 1, k3 := st.k3 + 1, res := a }
      else loop fuel { x := x', lim := st.lim, k0 := st.k0 + 1, k1 := st.k1 + 1, k2 := st.k2 + 1, k3 := st.k3 + 1, res := a }
  let out ← loop (nhalf + 1) { x := 1, lim := 2, k0 := 1, k1 := 2, k2, k3, res := r4 }
  pure out.toList

/-- the convenience functions `nested::internal_edge(_sorted)(depth, hash, delta_depth)`:
    `assert!(depth + delta_depth <= DEPTH_MAX)` in `u8` arithmetic, then the `Layer` function -/
def internalEdgeTop (cfg : Cfg) (depthMax d hash dd : Nat) : Option (List Nat) :=
  if (d + dd) % 256 ≤ depthMax then internalEdge cfg hash dd else none

def internalEdgeSortedTop (cfg : Cfg) (depthMax d hash dd : Nat) : Option (List Nat) :=
  if (d + dd) % 256 ≤ depthMax then internalEdgeSorted cfg hash dd else none

/-! ## direction tables (`lib.rs`) -/

def npcEdgeDirFromNeighbour (inner nd : MW) : Option MW :=
  match nd with
  | C => none
  | E => match inner with | N | NE => some N | S | SE => some nd.opposite | _ => none
  | W => match inner with | N | NW => some N | S | SW => some nd.opposite | _ => none
  | NE => if inner == N || inner == E || inner == NE then some NW else none
  | NW => if inner == N || inner == W || inner == NW then some NE else none
  | N => match inner with | N => some N | E | NE => some W | W | NW => some E | _ => none
  | _ => some nd.opposite

def spcEdgeDirFromNeighbour (inner nd : MW) : Option MW :=
  match nd with
  | C => none
  | E => match inner with | S | SE => some S | N | NE => some nd.opposite | _ => none
  | W => match inner with | S | SW => some S | N | NW => some nd.opposite | _ => none
  | SE => if inner == S || inner == E || inner == SE then some SW else none
  | SW => if inner == S || inner == W || inner == SW then some SE else none
  | S => match inner with | S => some S | E | SE => some W | W | SW => some E | _ => none
  | _ => some nd.opposite

def edgeCellDirectionFromNeighbour (d0h : Nat) (inner nd : MW) : Option MW :=
  match d0h / 4 with
  | 0 => npcEdgeDirFromNeighbour inner nd
  | 1 => some nd.opposite
  | 2 => spcEdgeDirFromNeighbour inner nd
  | _ => none

def directionFromNeighbour (d0h : Nat) (nd : MW) : Option MW :=
  match d0h / 4 with
  | 0 => match nd with | E | W | C => none | NE => some NW | NW => some NE | N => some N | _ => some nd.opposite
  | 1 => match nd with | S | N | C => none | _ => some nd.opposite
  | 2 => match nd with | E | W | C => none | S => some S | SE => some SW | SW => some SE | _ => some nd.opposite
  | _ => none

def directionInBaseCellBorder (d : Nat) (ib jb : Nat) : Option MW :=
  let i := if ib == 0 then 0 else if ib == Layer.xMask d then 2 else 1
  let j := if jb == 0 then 0 else if jb == Layer.yMask d then 2 else 1
  MW.ofIndex (3 * j + i)

/-! ## external edges -/

/-- insertion sort of entries by value (`sort_unstable_by` on distinct values) -/
def insertEntry (e : MW × Nat) : List (MW × Nat) → List (MW × Nat)
  | [] => [e]
  | x :: xs => if e.2 ≤ x.2 then e :: x :: xs else x :: insertEntry e xs

/-- the per-neighbour `(direction of the neighbour, direction of the cell seen from the neighbour, neighbour)`
    triples computed by `external_edge_generic` / `external_edge_struct` -/
def externalPieces (cfg : Cfg) (d hash : Nat) (sorted : Bool) : Option (List (MW × MW × Nat)) :=
  if hash ≥ Layer.nHash d then none else
  let ib := hash &&& Layer.xMask d
  let jb := hash &&& Layer.yMask d
  if isInBaseCellBorder d ib jb then
    match edgeCellNeighbours cfg d hash, Layer.decodeHash cfg d hash with
    | some ns, some p =>
      let ns := if sorted then ns.foldr insertEntry [] else ns
      ns.mapM fun (dir, hv) =>
        let from_ :=
          if p.d0h == (hv >>> (2 * d)) % 256 then some dir.opposite
          else if d == 0 then directionFromNeighbour p.d0h dir
          else (directionInBaseCellBorder d ib jb).bind fun inner => edgeCellDirectionFromNeighbour p.d0h inner dir
        from_.map fun f => (dir, f, hv)
    | _, _ => none
  else
    (innerCellNeighbours cfg d hash).map fun ns =>
      let ns := if sorted then ns.foldr insertEntry [] else ns
      ns.map fun (dir, hv) => (dir, dir.opposite, hv)

/-- `external_edge_generic` -/
def externalEdge (cfg : Cfg) (d hash dd : Nat) (sorted : Bool) : Option (List Nat) := do
  let pieces ← externalPieces cfg d hash sorted
  let parts ← pieces.mapM fun (_, from_, hv) =>
    if from_.isCardinal then (internalCorner cfg hv dd from_).map ([·])
    else if from_.isOrdinal then internalEdgePart cfg hv dd from_
    else none
  pure parts.flatten

/-- `external_edge_struct`: corners S E N W and edges SE SW NE NW (as stored) -/
def externalEdgeStruct (cfg : Cfg) (d hash dd : Nat) : Option (List (MW × List Nat)) := do
  let pieces ← externalPieces cfg d hash false
  pieces.mapM fun (dir, from_, hv) =>
    if from_.isCardinal then
      if dir.isCardinal then (internalCorner cfg hv dd from_).map fun c => (dir, [c]) else none
    else if from_.isOrdinal then
      if dir.isOrdinal then (internalEdgePart cfg hv dd from_).map fun l => (dir, l) else none
    else none

end Topo
end Hpx
