/-
Model of the lazy per-depth factories `nested::get_or_create` / `lib::get_or_create` (after the repair of finding
F5): one slot `static mut X[d]: Option<T>` guarded by `static INIT[d]: Once`, any number of threads.

    INIT[d].call_once(|| { X[d] = Some(T::new(d)); });      // steps `callOnce`, `construct`, `exit`
    match X[d] { Some(ref v) => v, _ => unreachable!() }     // step `read`

`std::sync::Once` is modelled as its documentation states: at most one closure runs; a caller arriving while it
runs blocks until it has finished; a caller arriving afterwards returns at once and sees the closure's writes.
Slots of different depths are independent: the state of one slot is modelled.  Core Lean only.
-/

namespace Hpx.Once

inductive OnceSt | incomplete | running (t : Nat) | complete
  deriving DecidableEq, Repr

/-- program counter of a thread inside `get_or_create` -/
inductive PC
  | start          -- before `call_once`
  | entered        -- inside the closure, before `T::new` and the write
  | written        -- inside the closure, after `X[d] = Some(T::new(d))`
  | after          -- `call_once` returned, before the final `match`
  | done (sawSome : Bool)   -- returned (`false` = `unreachable!()` was reached)
  deriving DecidableEq, Repr

structure St where
  once : OnceSt
  slot : Bool          -- `X[d]` is `Some`
  cons : Nat           -- number of constructions (`T::new` calls)
  pc : Nat → PC

def init : St := { once := .incomplete, slot := false, cons := 0, pc := fun _ => .start }

def upd (f : Nat → PC) (t : Nat) (v : PC) : Nat → PC := fun u => if u = t then v else f u

/-- one step of thread `t`; `none` = the thread cannot move (blocked inside `call_once`, or finished) -/
def step (s : St) (t : Nat) : Option St :=
  match s.pc t with
  | .start =>
    match s.once with
    | .incomplete => some { s with once := .running t, pc := upd s.pc t .entered }
    | .running _ => none
    | .complete => some { s with pc := upd s.pc t .after }
  | .entered => some { s with slot := true, cons := s.cons + 1, pc := upd s.pc t .written }
  | .written => some { s with once := .complete, pc := upd s.pc t .after }
  | .after => some { s with pc := upd s.pc t (.done s.slot) }
  | .done _ => none

/-- run a schedule (list of thread ids); steps of blocked threads are skipped and reported -/
def run (s : St) : List Nat → St × List Bool
  | [] => (s, [])
  | t :: ts =>
    match step s t with
    | some s' => let (r, l) := run s' ts; (r, true :: l)
    | none => let (r, l) := run s ts; (r, false :: l)

end Hpx.Once
