/-
Program-level model of the two lazy factories (`nested::get_or_create`, `lib::get_or_create`).

The translator reads the body of each factory and emits it as a list of `Instr` (`Gen/OnceProg.lean`, regenerated on
every run).  The interpreter below gives such a program its meaning for any number of threads, with the slot write
split in two steps (`wbegin`: the store has started, `wend`: it is complete), so that an unsynchronised read that can
be scheduled between the two is *observable*: it sets `race`.  By the usual argument for data-race freedom (two
conflicting accesses not ordered by synchronisation can be made adjacent in some interleaving), "no reachable state has
`race`" is data-race freedom of the slot accesses.  `std::sync::Once` is modelled as documented: one closure runs, late
callers block while it runs, callers arriving after completion go straight through and see its writes.
Core Lean only.
-/
import HpxVerif.Model.Once
import HpxVerif.Gen.OnceProg

namespace Hpx.OnceProg

/-- instructions of a flattened factory body; `pc` = index in the list -/
inductive Instr
  /-- `INIT[d].call_once(|| {` … : complete → jump to `skipTo`; running → block; incomplete → become the initialiser -/
  | enterOnce (skipTo : Nat)
  /-- `})`: the closure returns, the `Once` becomes complete -/
  | exitOnce
  /-- `X[d] = Some(T::new(d))`, first half: the object is constructed and the store begins -/
  | wbegin
  /-- second half: the store is complete -/
  | wend
  /-- `match X[d] { Some(ref v) => return v, None => () }`: an early read that returns when it sees `Some` -/
  | readRet
  /-- `match X[d] { Some(ref v) => v, _ => unreachable!() }` as the value of the function -/
  | readFinal
  deriving DecidableEq, Repr

inductive Slot | none | writing | some
  deriving DecidableEq, Repr

/-- per-thread control state -/
inductive PC
  | at (k : Nat)
  | done (sawSome : Bool)
  deriving DecidableEq, Repr

structure St where
  once : Once.OnceSt
  slot : Slot
  cons : Nat
  race : Bool
  pc : Nat → PC

def init : St := { once := .incomplete, slot := .none, cons := 0, race := false, pc := fun _ => .at 0 }

def upd (f : Nat → PC) (t : Nat) (v : PC) : Nat → PC := fun u => if u = t then v else f u

/-- one step of thread `t` running program `p`; `none` = cannot move (blocked, finished, or fell off the program).
    `shared = true`: the `Once` is a `static`, one object for the whole process.  `shared = false`: it is a `const`, so
    every use site evaluates to a fresh, incomplete `Once` (never blocks, never skips, and completing it is forgotten). -/
def step (shared : Bool) (p : List Instr) (s : St) (t : Nat) : Option St :=
  match s.pc t with
  | .done _ => none
  | .at k =>
    match p[k]? with
    | none => none
    | some (.enterOnce skip) =>
      if !shared then some { s with pc := upd s.pc t (.at (k + 1)) } else
      match s.once with
      | .incomplete => some { s with once := .running t, pc := upd s.pc t (.at (k + 1)) }
      | .running _ => none
      | .complete => some { s with pc := upd s.pc t (.at skip) }
    | some .exitOnce =>
      if !shared then some { s with pc := upd s.pc t (.at (k + 1)) } else
      some { s with once := .complete, pc := upd s.pc t (.at (k + 1)) }
    | some .wbegin => some { s with slot := .writing, pc := upd s.pc t (.at (k + 1)) }
    | some .wend => some { s with slot := .some, cons := s.cons + 1, pc := upd s.pc t (.at (k + 1)) }
    | some .readRet =>
      match s.slot with
      | .writing => some { s with race := true, pc := upd s.pc t (.at (k + 1)) }
      | .some => some { s with pc := upd s.pc t (.done true) }
      | .none => some { s with pc := upd s.pc t (.at (k + 1)) }
    | some .readFinal =>
      match s.slot with
      | .writing => some { s with race := true, pc := upd s.pc t (.done false) }
      | .some => some { s with pc := upd s.pc t (.done true) }
      | .none => some { s with pc := upd s.pc t (.done false) }

def run (shared : Bool) (p : List Instr) (s : St) : List Nat → St
  | [] => s
  | t :: ts => match step shared p s t with
    | some s' => run shared p s' ts
    | none => run shared p s ts

/-- the body of both factories after the repair of finding F5 -/
def goodProg : List Instr := [.enterOnce 4, .wbegin, .wend, .exitOnce, .readFinal]

/-- what a violation looks like in a final state: a racy read, a second construction, or a thread that returned
    without the initialised object -/
def bad (s : St) (threads : Nat) : Bool :=
  s.race || decide (s.cons > 1) || (List.range threads).any fun t => s.pc t == .done false

/-- bounded search for a failing history of program `p` (used only to produce a replay when the shape theorem breaks):
    all schedules of length `len` over `threads` threads, depth-first -/
def searchBad (shared : Bool) (p : List Instr) (threads : Nat) : (len : Nat) → St → List Nat → Option (List Nat)
  | 0, s, acc => if bad s threads then some acc.reverse else none
  | len + 1, s, acc =>
    if bad s threads then some acc.reverse else
    (List.range threads).findSome? fun t =>
      match step shared p s t with
      | none => none
      | some s' => searchBad shared p threads len s' (t :: acc)

/-! ## the programs regenerated from the source -/

def decodeInstr : Nat × Nat → Option Instr
  | (0, k) => some (.enterOnce k)
  | (1, _) => some .exitOnce
  | (2, _) => some .wbegin
  | (3, _) => some .wend
  | (4, _) => some .readRet
  | (5, _) => some .readFinal
  | _ => none

def decodeProg (l : List (Nat × Nat)) : Option (List Instr) := l.mapM decodeInstr

/-- model-side search for a failing history of a regenerated factory (2 threads, 10 steps, then 3 threads, 9 steps) -/
def searchGenerated (shared : Bool) (codes : List (Nat × Nat)) : String :=
  match decodeProg codes with
  | none => "undecodable"
  | some p =>
    match searchBad shared p 2 10 init [] with
    | some h => s!"bad threads=2 schedule={h}"
    | none =>
      match searchBad shared p 3 9 init [] with
      | some h => s!"bad threads=3 schedule={h}"
      | none => "none"

def report : String :=
  s!"layers shared={Gen.layersOnceIsStatic} prog={Gen.layersProg} search: {searchGenerated Gen.layersOnceIsStatic Gen.layersProg} | " ++
  s!"c2v shared={Gen.c2vOnceIsStatic} prog={Gen.c2vProg} search: {searchGenerated Gen.c2vOnceIsStatic Gen.c2vProg}"

/-! ## abstraction to the four-step machine `Once.step` that the history replays are compared with -/

def absPC : PC → Once.PC
  | .at 0 => .start
  | .at 1 => .entered
  | .at 2 => .entered      -- mid-write: still before the (atomic) write of the coarse machine
  | .at 3 => .written
  | .at _ => .after
  | .done b => .done b

def abs (s : St) : Once.St :=
  { once := s.once, slot := decide (s.slot = .some), cons := s.cons, pc := fun t => absPC (s.pc t) }

end Hpx.OnceProg
