/-
Model of the NESTED hash front-ends and cell-geometry accessors of `nested/mod.rs`, generic in `Num`.
`none` = panic.
-/
import HpxVerif.Model.Proj
import HpxVerif.Model.Topo

namespace Hpx.Hash
open Num Proj

variable {α : Type} [Num α]

/-- `xpm1_and_q(lon)`: `(x ∈ [−1, 1), q ∈ 0..3)`; the `debug_assert!(q < 8)` always holds -/
def xpm1AndQ (lon : α) : α × Nat :=
  let lonAbs := Num.abs lon
  let neg := Num.signBit lon
  let x := lonAbs * Num.fourOverPi
  -- the quarter index is the odd floor of x reduced modulo 8; the abscissa subtracts the unreduced odd floor
  let oddFloor := Num.truncU8 x ||| 1
  let q := oddFloor &&& 7
  if !neg then (x - Num.ofNat oddFloor, q >>> 1)
  else (Num.ofNat oddFloor - x, 3 - (q >>> 1))

/-- base cell in the equatorial branch: `(q013 << 2) + ((q + q1) & 3)` with `q1 = q01 & q12`, `q013 = q01 + (1 − q12)` -/
def eqD0h (q q01 q12 : Nat) : Nat := ((q01 + (1 - q12)) <<< 2) + ((q + (q01 &&& q12)) &&& 3)

/-- `d0h_lh_in_d0c(lon, lat)`: `(d0h, l, h)` -/
def d0hLhInD0c (lon lat : α) : Nat × α × α :=
  let (xpm1, q) := xpm1AndQ lon
  if Num.gt lat (Num.transitionLat : α) then
    let s := (Num.sqrt6 : α) * Num.cos (lat / Num.two + Num.piOverFour)
    (q, xpm1 * s, Num.two - s)
  else if Num.lt lat (-(Num.transitionLat : α)) then
    let s := (Num.sqrt6 : α) * Num.cos (lat / Num.two - Num.piOverFour)
    (q + 8, xpm1 * s, s)
  else
    let ypm1 := Num.sin lat * Num.oneOverTransitionZ
    let q01 : Nat := if Num.gt xpm1 ypm1 then 1 else 0
    let q12 : Nat := if Num.ge xpm1 (-ypm1) then 1 else 0
    let q013 := q01 + (1 - q12)
    let xproj := xpm1 - Num.ofInt ((q01 + q12 : Nat) - 1 : Int)
    let yproj := ypm1 + Num.ofNat q013
    (eqD0h q q01 q12, xproj, yproj)

/-- `time_half_nside` as an exponent increment -/
def timeHalfNside (d : Nat) : Int := if d > 0 then (d : Int) - 1 else -1

/-- `hash_v2` -/
def hashV2 (cfg : Cfg) (d : Nat) (lon lat : α) : Option Nat :=
  if !checkLat lat then none else
  let (d0h, l, h) := d0hLhInD0c lon lat
  let ns := Layer.nside d
  let i := Num.truncScaleU32 (h + l) (timeHalfNside d)
  let j := Num.truncScaleU32 (h - l) (timeHalfNside d)
  let i := if i == ns then ns - 1 else i
  let j := if j == ns then ns - 1 else j
  Layer.buildHashFromParts cfg d d0h i j

/-- `scale_by_half_nside`: multiplication by `nside / 2` through the exponent bits; at depth 0 (a division by 2) a plain
    `0.5 * v`, since the repair of F27 (the exponent of `0.0` or of a subnormal number cannot be decremented: the bit
    pattern became `-inf` / NaN) -/
def scaleByHalfNside (d : Nat) (v : α) : α :=
  if d = 0 then (Num.half : α) * v else Num.scale2 v (timeHalfNside d)

/-- `shift_rotate_scale` -/
def shiftRotateScale (d : Nat) (xy : α × α) : α × α :=
  let tmp := (Num.ofNat 8 : α) - xy.1
  let y := xy.2 + Num.one
  (scaleByHalfNside d (xy.1 + y), scaleByHalfNside d (y + tmp))

/-- `depth0_bits`; the recursion `k = 3, 4` strictly decreases `k`: structural on `fuel` (2 suffices) -/
def depth0Bits (d : Nat) : (fuel : Nat) → (i j : Nat) → (ij : Nat × Nat) → (xy : α × α) → Option Nat
  | 0, _, _, _, _ => none
  | fuel + 1, i, j, ij, xy =>
    let k : Int := 5 - (((i + j) % 256 : Nat) : Int)
    let td := d <<< 1
    if 0 ≤ k ∧ k ≤ 2 then
      let s : Int := if k - 1 < 0 then -1 else 0
      let m := (((i : Int) + s) % 4).toNat
      some (((k.toNat <<< 2) + m) <<< td)
    else if k = -1 then
      if Num.gt (xy.1 - Num.ofNat ij.1) (xy.2 - Num.ofNat ij.2) then
        some (((((i + 255) % 256) &&& 3) <<< td) ||| Layer.yMask d)
      else some (((((i + 2) % 256) &&& 3) <<< td) ||| Layer.xMask d)
    else if k = -2 then
      -- `(i - 2u8)`: underflow panics in debug
      if i < 2 then none else some (((i - 2) <<< td) ||| Layer.xyMask d)
    else if k = 3 then
      let d0 := Num.abs (xy.1 - Num.ofNat ij.1)
      let d1 := Num.abs (xy.2 - Num.ofNat ij.2)
      if Num.lt d0 d1 then depth0Bits d fuel (i + 1) j (ij.1 + 1, ij.2) xy
      else depth0Bits d fuel i (j + 1) (ij.1, ij.2 + 1) xy
    else if k = 4 then depth0Bits d fuel (i + 1) (j + 1) (ij.1 + 1, ij.2 + 1) xy
    else none

/-- `hash_with_dxdy` -/
def hashWithDxDy (cfg : Cfg) (d : Nat) (lon lat : α) : Option (Nat × α × α) :=
  match proj lon lat with
  | none => none
  | some xy0 =>
    let xy := shiftRotateScale d (ensuresXIsPositive xy0.1, xy0.2)
    let ij := (Num.truncU64 xy.1, Num.truncU64 xy.2)
    let dx := xy.1 - Num.ofNat ij.1
    let dy := xy.2 - Num.ofNat ij.2
    let i0 := (ij.1 >>> d) % 256
    let j0 := (ij.2 >>> d) % 256
    match depth0Bits d 3 i0 j0 ij xy with
    | none => none
    | some d0bits =>
      let ns := Layer.nside d
      let i := (ij.1 &&& (Layer.xyMask d >>> d)) % 2 ^ 32
      let j := (ij.2 &&& (Layer.xyMask d >>> d)) % 2 ^ 32
      match Layer.zoc cfg d with
      | none => none
      | some c =>
        if cfg.debug && !(i < ns && j < ns) then none
        else some (d0bits ||| Layer.ij2h cfg c i j, dx, dy)

/-- `center_of_projected_cell` -/
def centerOfProjectedCell (cfg : Cfg) (d hash : Nat) : Option (α × α) :=
  if hash ≥ Layer.nHash d then none else
  match Layer.decodeHash cfg d hash with
  | none => none
  | some p =>
    let oneOverNside : α := Num.one / Num.ofNat (Layer.nside d)
    let hl : Int × Int := ((p.i : Int) - p.j, (p.i : Int) + p.j - ((Layer.xyMask d >>> d : Nat) : Int))
    let x : α := Num.ofInt hl.1 * oneOverNside
    let y : α := Num.ofInt hl.2 * oneOverNside
    let offY : Int := 1 - ((p.d0h >>> 2 : Nat) : Int)
    let offX : Nat := (((p.d0h &&& 3) <<< 1) ||| ((offY % 256).toNat &&& 1)) % 256
    let x := x + Num.ofNat offX
    let y := y + Num.ofInt offY
    -- `*x += ((to_bits(*x) & SIGN) >> 60) as f64`
    let x := x + Num.ofNat (if Num.signBit x then 8 else 0)
    some (x, y)

def center (cfg : Cfg) (d hash : Nat) : Option (α × α) :=
  (centerOfProjectedCell (α := α) cfg d hash).bind fun c => unproj c.1 c.2

/-- `sph_coo` -/
def sphCoo (cfg : Cfg) (d hash : Nat) (dx dy : α) : Option (α × α) :=
  if !(Num.le (Num.zero : α) dx && Num.lt dx (Num.one : α)) then none else
  if !(Num.le (Num.zero : α) dy && Num.lt dy (Num.one : α)) then none else
  (centerOfProjectedCell (α := α) cfg d hash).bind fun c =>
    let oneOverNside : α := Num.one / Num.ofNat (Layer.nside d)
    let x := c.1 + (dx - dy) * oneOverNside
    let y := c.2 + (dx + dy - Num.one) * oneOverNside
    unproj (ensuresXIsPositive x) y

/-- `Cardinal` as index S=0 E=1 N=2 W=3; `offset_sn`, `offset_we` -/
def offsetSn (c : Nat) (o : α) : α := if c == 0 then -o else if c == 2 then o else Num.zero
def offsetWe (c : Nat) (o : α) : α := if c == 3 then -o else if c == 1 then o else Num.zero

def vertexLonLat (d : Nat) (cx cy : α) (dir : Nat) : Option (α × α) :=
  let o : α := Num.one / Num.ofNat (Layer.nside d)
  unproj (ensuresXIsPositive (cx + offsetWe dir o)) (cy + offsetSn dir o)

def vertex (cfg : Cfg) (d hash dir : Nat) : Option (α × α) :=
  (centerOfProjectedCell (α := α) cfg d hash).bind fun c => vertexLonLat d c.1 c.2 dir

/-- `vertices_map(hash, directions)`: the centre is projected once, then `vertex_lonlat` for each requested direction in
    the order S, E, N, W (`mask` bit `k` = direction `k` requested); an entry per direction, `none` = not requested -/
def verticesMap (cfg : Cfg) (d hash mask : Nat) : Option (List (Option (α × α))) :=
  (centerOfProjectedCell (α := α) cfg d hash).bind fun c =>
    [0, 1, 2, 3].mapM fun k => if mask.testBit k then (vertexLonLat d c.1 c.2 k).map some else some none

/-- `vertices`: S, E, N, W (only W goes through `ensures_x_is_positive`) -/
def vertices (cfg : Cfg) (d hash : Nat) : Option (List (α × α)) :=
  (centerOfProjectedCell (α := α) cfg d hash).bind fun c =>
    let o : α := Num.one / Num.ofNat (Layer.nside d)
    [unproj c.1 (c.2 - o), unproj (c.1 + o) c.2, unproj c.1 (c.2 + o), unproj (ensuresXIsPositive (c.1 - o)) c.2].mapM id

def pathSideInternal (d : Nat) (c : α × α) (fromV toV : Nat) (includeTo : Bool) (nseg : Nat) : Option (List (α × α)) :=
  let o : α := Num.one / Num.ofNat (Layer.nside d)
  let npts := if includeTo then nseg + 1 else nseg
  let fx := offsetWe fromV o
  let fy := offsetSn fromV o
  let sx := (offsetWe toV o - fx) / Num.ofNat nseg
  let sy := (offsetSn toV o - fy) / Num.ofNat nseg
  (List.range npts).mapM fun i =>
    let k : α := Num.ofNat i
    unproj (ensuresXIsPositive (c.1 + fx + k * sx)) (c.2 + fy + k * sy)

def pathAlongCellSide (cfg : Cfg) (d hash fromV toV : Nat) (includeTo : Bool) (nseg : Nat) : Option (List (α × α)) :=
  (centerOfProjectedCell (α := α) cfg d hash).bind fun c => pathSideInternal d c fromV toV includeTo nseg

def nextClockwise (c : Nat) : Nat := match c with | 0 => 3 | 1 => 0 | 2 => 1 | _ => 2
def nextCounterClockwise (c : Nat) : Nat := match c with | 0 => 1 | 1 => 2 | 2 => 3 | _ => 0

def pathAlongCellEdge (cfg : Cfg) (d hash start : Nat) (clockwise : Bool) (nseg : Nat) : Option (List (α × α)) :=
  (centerOfProjectedCell (α := α) cfg d hash).bind fun c =>
    let nx := if clockwise then nextClockwise else nextCounterClockwise
    let v1 := start; let v2 := nx v1; let v3 := nx v2; let v4 := nx v3
    do
      let a ← pathSideInternal d c v1 v2 false nseg
      let b ← pathSideInternal d c v2 v3 false nseg
      let e ← pathSideInternal d c v3 v4 false nseg
      let f ← pathSideInternal d c v4 v1 false nseg
      pure (a ++ b ++ e ++ f)

def grid (cfg : Cfg) (d hash nseg : Nat) : Option (List (α × α)) :=
  (centerOfProjectedCell (α := α) cfg d hash).bind fun c =>
    let o : α := Num.one / Num.ofNat (Layer.nside d)
    let n := nseg + 1
    (List.range (n * n)).mapM fun t =>
      let i := t / n; let j := t % n
      let x : α := Num.ofNat i / Num.ofNat nseg
      let y : α := Num.ofNat j / Num.ofNat nseg
      unproj (c.1 + (x - y) * o) (c.2 + (x + y - Num.one) * o)

end Hpx.Hash
