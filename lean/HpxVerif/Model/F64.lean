/-
Bit-level model of the two `f64` tricks the hash back end relies on:
* Rust's saturating `as u32` / `as u64` / `as u8` casts (`truncU`);
* `f64::from_bits((k << 52) wrapping_add x.to_bits())` (`expAdd`): multiplication by `2^k` done on the exponent field.
Pure functions on 64-bit patterns (`Nat`), so that theorems can quantify over every bit pattern.  Core Lean only.
-/

namespace Hpx.F64

def expF (b : Nat) : Nat := (b >>> 52) % 2048
def manF (b : Nat) : Nat := b % 2 ^ 52
def sgnF (b : Nat) : Nat := (b >>> 63) % 2

def isNaN (b : Nat) : Bool := expF b == 2047 && manF b != 0

/-- floor of the value of a positive, finite, normal pattern; 0 for zero and subnormals -/
def floorPos (b : Nat) : Nat :=
  let e := expF b
  if e = 0 then 0
  else
    let sig := 2 ^ 52 + manF b
    if e ≥ 1075 then sig <<< (e - 1075) else sig >>> (1075 - e)

/-- Rust `as uW`: NaN ↦ 0, negative ↦ 0, too large (incl. +∞) ↦ `2^W − 1`, otherwise toward zero -/
def truncU (w : Nat) (b : Nat) : Nat :=
  if sgnF b = 1 then 0
  else if expF b = 2047 then (if manF b = 0 then 2 ^ w - 1 else 0)
  else min (floorPos b) (2 ^ w - 1)

/-- `(k << 52) wrapping_add bits`, `k` possibly negative (`time_half_nside = -1 << 52` at depth 0) -/
def expAdd (b : Nat) (k : Int) : Nat := (((b : Int) + k * 2 ^ 52) % 2 ^ 64).toNat

end Hpx.F64
