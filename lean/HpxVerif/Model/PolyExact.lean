/-
`polygon_coverage(vertices, exact_solution)` in both modes (`nested/mod.rs`): the exact mode adds, for every edge of the
polygon, the cells of the "special points" computed by `special_points_finder::arc_special_points` to the sorted list of
vertex cells; everything else is the approximate mode.  Core Lean only.
-/
import HpxVerif.Model.SpecialPoints

namespace Hpx.Sph
open Hpx.Bmoc Hpx.Cover

variable {α : Type} [Num α]

/-- `1.0e-14` -/
def zEpsExact : α := Num.lit 0x3D06849B86A12B9B

/-- the special points of all edges, in the order of the loop `let mut left = last; for right in vertices { … }` -/
def specialLonLatsFrom (debug : Bool) : Coo α → List (Coo α) → Option (List (α × α))
  | _, [] => some []
  | left, right :: rest =>
    match SpecialPoints.arcSpecialPoints debug left right (zEpsExact : α) 20 with
    | none => none
    | some pts => (specialLonLatsFrom debug right rest).map (pts ++ ·)

def specialLonLats (debug : Bool) (vs : List (Coo α)) : Option (List (α × α)) :=
  match vs.getLast? with
  | none => some []
  | some last => specialLonLatsFrom debug last vs

/-- `polygon_coverage(vertices, exact_solution)`; `extra` = the additional cells put in the sorted list (none in the
    approximate mode, the cells of the special points in the exact mode) -/
def polygonCoverageWith (cfg : Cfg) (depth : Nat) (vertices : List (α × α))
    (extra : Polygon α → Option (List Nat)) : Option BMOC :=
  if depth > 29 then none else
  match Polygon.new cfg.debug vertices with
  | none => none
  | some poly =>
    match boundingCone poly.vertices with
    | none => none
    | some (centre, radius) =>
      let rootsE : Option (Nat × List Nat) :=
        if !C2V.hasBestStartingDepth radius then some (0, List.range 12)
        else
          match C2V.bestStartingDepth radius with
          | none => none
          | some ds0 =>
            let ds := min ds0 depth
            let ll := unitLonLat centre
            match Hash.hashV2 cfg ds ll.1 ll.2 with
            | none => none
            | some h0 => (Topo.neighbours cfg ds h0 true).map fun nm => (ds, sortNat (nm.map (·.2)))
      match rootsE with
      | none => none
      | some (ds, roots) =>
        match poly.vertices.mapM (fun c => Hash.hashV2 cfg depth c.lon c.lat) with
        | none => none
        | some hs =>
          match extra poly with
          | none => none
          | some ex =>
            let sorted := dedupAdj (sortNat (hs ++ ex))
            let cells := roots.foldlM (init := ([] : List Cell)) fun acc h =>
              (coverRec depth (polyClassifier cfg depth poly sorted) (depth + 2) ds h 0).map (acc ++ ·)
            cells.map fun cs => { dmax := depth, entries := cs.map (encode depth) }

def specialHashes (cfg : Cfg) (depth : Nat) (poly : Polygon α) : Option (List Nat) :=
  match specialLonLats cfg.debug poly.vertices with
  | none => none
  | some pts => pts.mapM fun ll => Hash.hashV2 cfg depth ll.1 ll.2

def polygonCoverage (cfg : Cfg) (depth : Nat) (vertices : List (α × α)) (exact : Bool) : Option BMOC :=
  polygonCoverageWith cfg depth vertices (if exact then specialHashes cfg depth else fun _ => some [])

end Hpx.Sph
