/-
Model of `src/sph_geom/*` and `src/xy_geom/ellipse.rs`: `Coo3D`, `Polygon` (`new`, `contains`,
`intersect_great_circle_arc`), `Cone::bounding_cone`, `ProjSIN`, `Ellipse`, `EllipticalCone`; and of the polygon
(approximate mode) and elliptical-cone coverage queries of `nested/mod.rs`.  Generic in `Num`; `none` = panic.
-/
import HpxVerif.Model.Cover

namespace Hpx.Sph
open Num Cover Bmoc

variable {α : Type} [Num α]

structure Coo (α : Type) where
  x : α
  y : α
  z : α
  lon : α
  lat : α

def pow2 (x : α) : α := x * x
def epsilon : α := Num.lit 0x3CB0000000000000       -- f64::EPSILON = 2^-52

/-- `lonlat_of(x, y, z)`; the two `debug_assert!`s are panics in the dev profile -/
def lonlatOf (debug : Bool) (x y z : α) : Option (α × α) :=
  let lon0 := Num.atan2 y x
  let lon := if Num.lt lon0 (Num.zero : α) then lon0 + Num.twicePi
             else if Num.le lon0 (Num.twicePi : α) && Num.le (Num.twicePi : α) lon0 then Num.zero else lon0
  let lat := Num.atan2 z (Num.sqrt (pow2 x + pow2 y))
  if debug && !(Num.le (Num.zero : α) lon && Num.le lon (Num.twicePi : α)) then none
  else if debug && !(Num.le (-(Num.halfPi : α)) lat && Num.lt lat (Num.halfPi : α)) then none
  else some (lon, lat)

/-- `vec3_of(lon, lat)` -/
def vec3Of (lon lat : α) : α × α × α :=
  let cl := Num.cos lat
  (cl * Num.cos lon, cl * Num.sin lon, Num.sin lat)

/-- `Coo3D::from_sph_coo` -/
def fromSphCoo (debug : Bool) (lon lat : α) : Option (Coo α) :=
  let v := vec3Of lon lat
  if Num.lt lon (Num.zero : α) || Num.le (Num.twicePi : α) lon || Num.lt lat (-(Num.halfPi : α)) || Num.lt (Num.halfPi : α) lat then
    (lonlatOf debug v.1 v.2.1 v.2.2).map fun ll => { x := v.1, y := v.2.1, z := v.2.2, lon := ll.1, lat := ll.2 }
  else some { x := v.1, y := v.2.1, z := v.2.2, lon, lat }

def dot (a : Coo α) (b : α × α × α) : α := a.x * b.1 + a.y * b.2.1 + a.z * b.2.2
def dotCC (a b : Coo α) : α := a.x * b.x + a.y * b.y + a.z * b.z

def cross (a b : Coo α) : α × α × α :=
  (a.y * b.z - a.z * b.y, a.z * b.x - a.x * b.z, a.x * b.y - a.y * b.x)

structure Polygon (α : Type) where
  vertices : List (Coo α)
  crossProducts : List (α × α × α)
  containsSouthPole : Bool

/-- `Basic::contains_south_pole` -/
def containsSouthPoleBasic (vs : List (Coo α)) : Bool :=
  match vs.getLast? with
  | none => false
  | some last =>
    let step (st : α × Nat × Coo α) (vi : Coo α) : α × Nat × Coo α :=
      let (sum, nS, vj) := st
      let dlon := vi.lon - vj.lon
      let adl := Num.abs dlon
      let sum' := if Num.le adl (Num.pi : α) then sum + dlon
                  else if Num.gt dlon (Num.zero : α) then sum - ((Num.twicePi : α) - adl)
                  else sum + ((Num.twicePi : α) - adl)
      (sum', if Num.lt vi.lat (Num.zero : α) then nS + 1 else nS, vi)
    let (sum, nS, _) := vs.foldl step (Num.zero, 0, last)
    Num.gt (Num.abs sum) (Num.pi : α) && decide (2 * nS > vs.length)

/-- `Polygon::new`: `none` = panic (empty vertex list: `vertices.len() - 1` underflows; debug assertions) -/
def Polygon.new (debug : Bool) (lonlats : List (α × α)) : Option (Polygon α) :=
  match lonlats.mapM (fun ll => fromSphCoo debug ll.1 ll.2) with
  | none => none
  | some vs =>
    match vs.getLast? with
    | none => none
    | some last =>
      -- compute_cross_products_v2: cross(v[i-1], v[i]) with i-1 = last for i = 0; flipped to the north hemisphere
      let rec go (prev : Coo α) : List (Coo α) → List (α × α × α)
        | [] => []
        | v :: rest =>
          let c := cross prev v
          (if Num.lt c.2.2 (Num.zero : α) then (-c.1, -c.2.1, -c.2.2) else c) :: go v rest
      some { vertices := vs, crossProducts := go last vs, containsSouthPole := containsSouthPoleBasic vs }

/-- `is_in_lon_range` -/
def isInLonRange (coo v1 v2 : Coo α) : Bool :=
  let dlon := v2.lon - v1.lon
  if Num.lt dlon (Num.zero : α) then
    (Num.ge dlon (-(Num.pi : α))) == (Num.le v2.lon coo.lon && Num.lt coo.lon v1.lon)
  else
    (Num.le dlon (Num.pi : α)) == (Num.le v1.lon coo.lon && Num.lt coo.lon v2.lon)

/-- `odd_num_intersect_going_south` -/
def oddNumIntersectGoingSouth (p : Polygon α) (coo : Coo α) : Bool :=
  match p.vertices.getLast? with
  | none => false
  | some last =>
    let rec go (left : Coo α) : List (Coo α) → List (α × α × α) → Bool → Bool
      | right :: vs, cp :: cps, c =>
        let c' := if isInLonRange coo left right && Num.gt (dot coo cp) (Num.zero : α) then !c else c
        go right vs cps c'
      | _, _, c => c
    go last p.vertices p.crossProducts false

/-- `Polygon::contains` -/
def Polygon.contains (p : Polygon α) (coo : Coo α) : Bool := xor p.containsSouthPole (oddNumIntersectGoingSouth p coo)

def arcsOverlapInLon (a b pa pb : Coo α) : Bool :=
  xor (Num.gt (pb.lon - pa.lon) (Num.pi : α))
    (Num.le a.lon pb.lon && Num.ge b.lon pa.lon && Num.le (b.lon - a.lon) (Num.pi : α))

/-- `Polygon::intersect_great_circle_arc` -/
def Polygon.intersectGreatCircleArc (p : Polygon α) (a0 b0 : Coo α) : Bool :=
  let (a, b) := if Num.gt a0.lon b0.lon then (b0, a0) else (a0, b0)
  match p.vertices.getLast? with
  | none => false
  | some last =>
    let rec go (left : Coo α) : List (Coo α) → List (α × α × α) → Bool
      | right :: vs, cp :: cps =>
        let (pa, pb) := if Num.gt left.lon right.lon then (right, left) else (left, right)
        let hit :=
          if arcsOverlapInLon a b pa pb then
            let ua := dot a cp
            let ub := dot b cp
            if (Num.gt ua (Num.zero : α)) != (Num.gt ub (Num.zero : α)) then
              let x := ub * a.x - ua * b.x
              let y := ub * a.y - ua * b.y
              let z := ub * a.z - ua * b.z
              let norm := Num.sqrt (x * x + y * y + z * z)
              let i : α × α × α := (x / norm, y / norm, z / norm)
              let papb := dotCC pa pb
              Num.gt (Num.abs (dot pa i)) papb && Num.gt (Num.abs (dot pb i)) papb
            else false
          else false
        if hit then true else go right vs cps
      | _, _ => false
    go last p.vertices p.crossProducts

/-- `Cone::bounding_cone(points)`: `(centre x y z, radius)` -/
def boundingCone (pts : List (Coo α)) : Option ((α × α × α) × α) :=
  match pts with
  | [] => none          -- `points[0]` out of bounds
  | p0 :: rest =>
    let (sx, sy, sz) := pts.foldl (fun (acc : α × α × α) c => (acc.1 + c.x, acc.2.1 + c.y, acc.2.2 + c.z)) (Num.zero, Num.zero, Num.zero)
    let n : α := Num.ofNat pts.length
    let x := sx / n; let y := sy / n; let z := sz / n
    let norm := Num.sqrt (pow2 x + pow2 y + pow2 z)
    -- `UnitVect3::new`: renormalised unless the squared norm is within EPSILON of 1
    let (ux, uy, uz) := (x / norm, y / norm, z / norm)
    let n2 := pow2 ux + pow2 uy + pow2 uz
    let c : α × α × α :=
      if Num.le (Num.abs (n2 - Num.one)) (epsilon : α) then (ux, uy, uz)
      else let nn := Num.sqrt n2; (ux / nn, uy / nn, uz / nn)
    let d2 (q : Coo α) : α := pow2 (c.1 - q.x) + pow2 (c.2.1 - q.y) + pow2 (c.2.2 - q.z)
    let d2max := rest.foldl (fun m q => if Num.gt (d2 q) m then d2 q else m) (d2 p0)
    some (c, Num.two * Num.asin (Num.half * Num.sqrt d2max))

/-- `UnitVect3::lonlat` -/
def unitLonLat (c : α × α × α) : α × α :=
  let lon0 := Num.atan2 c.2.1 c.1
  let lon := if Num.lt lon0 (Num.zero : α) then lon0 + Num.twicePi else lon0
  (lon, Num.atan2 c.2.2 (Num.sqrt (pow2 c.1 + pow2 c.2.1)))

/-- number of elements of a sorted list strictly below `x` (`binary_search`'s insertion point) and membership -/
def isInList (depth hash depthHashs : Nat) (sorted : List Nat) : Bool :=
  let tdd := (depthHashs - depth) <<< 1
  let hmax := hash <<< tdd
  if sorted.contains hmax then true
  else
    let i := (sorted.filter (· < hmax)).length
    (match sorted[i]? with | some v => v >>> tdd == hash | none => false) ||
    (i > 0 && (match sorted[i - 1]? with | some v => v >>> tdd == hash | none => false))

/-- classifier of the polygon descent -/
def polyClassifier (cfg : Cfg) (target : Nat) (poly : Polygon α) (sortedHashs : List Nat) (depth hash _level : Nat) :
    Option Verdict :=
  if isInList depth hash target sortedHashs then some (.descend false)
  else
    match Hash.vertices (α := α) cfg depth hash with
    | none => none
    | some vs =>
      match vs.mapM (fun v => fromSphCoo cfg.debug v.1 v.2) with
      | none => none
      | some cs =>
        let n := (cs.filter fun c => poly.contains c).length
        if n == 4 then some .full
        else if n > 0 then some (.descend false)
        else
          match cs with
          | [s, e, nn, w] =>
            if poly.intersectGreatCircleArc nn e || poly.intersectGreatCircleArc s e ||
               poly.intersectGreatCircleArc w nn || poly.intersectGreatCircleArc w s then some (.descend false)
            else some .skip
          | _ => none

/-- `polygon_coverage(vertices, exact_solution = false)` -/
def polygonCoverageApprox (cfg : Cfg) (depth : Nat) (vertices : List (α × α)) : Option BMOC :=
  if depth > 29 then none else
  match Polygon.new cfg.debug vertices with
  | none => none
  | some poly =>
    match boundingCone poly.vertices with
    | none => none
    | some (centre, radius) =>
      let rootsE : Option (Nat × List Nat) :=
        if !C2V.hasBestStartingDepth radius then some (0, List.range 12)
        else
          match C2V.bestStartingDepth radius with
          | none => none
          | some ds0 =>
            let ds := min ds0 depth
            let ll := unitLonLat centre
            match Hash.hashV2 cfg ds ll.1 ll.2 with
            | none => none
            | some h0 => (Topo.neighbours cfg ds h0 true).map fun nm => (ds, sortNat (nm.map (·.2)))
      match rootsE with
      | none => none
      | some (ds, roots) =>
        match poly.vertices.mapM (fun c => Hash.hashV2 cfg depth c.lon c.lat) with
        | none => none
        | some hs =>
          let sorted := dedupAdj (sortNat hs)
          let cells := roots.foldlM (init := ([] : List Cell)) fun acc h =>
            (coverRec depth (polyClassifier cfg depth poly sorted) (depth + 2) ds h 0).map (acc ++ ·)
          cells.map fun cs => { dmax := depth, entries := cs.map (encode depth) }

/-! ## SIN projection, ellipse, elliptical cone -/

structure ProjSIN (α : Type) where
  centerLon : α
  centerLat : α
  cosCenterLat : α
  sinCenterLat : α

def ProjSIN.new (lon lat : α) : ProjSIN α :=
  let (lon', lat') :=
    if Num.lt lon (Num.zero : α) || Num.le (Num.twicePi : α) lon || Num.lt lat (-(Num.halfPi : α)) || Num.lt (Num.halfPi : α) lat then
      let cb := Num.cos lat
      let x := cb * Num.cos lon; let y := cb * Num.sin lon; let z := Num.sin lat
      let l0 := Num.atan2 y x
      (if Num.lt l0 (Num.zero : α) then l0 + Num.twicePi else l0, Num.atan2 z (Num.sqrt (pow2 x + pow2 y)))
    else (lon, lat)
  { centerLon := lon', centerLat := lat', cosCenterLat := Num.cos lat', sinCenterLat := Num.sin lat' }

def ProjSIN.proj (p : ProjSIN α) (lon lat : α) : Option (α × α) :=
  let sl := Num.sin lat; let cl := Num.cos lat
  let dlon := lon - p.centerLon
  let sd := Num.sin dlon; let cd := Num.cos dlon
  if Num.gt (p.sinCenterLat * sl + p.cosCenterLat * cl * cd) (Num.zero : α) then
    some (cl * sd, p.cosCenterLat * sl - p.sinCenterLat * cl * cd)
  else none

/-- `forced_proj_and_distance`: `((x, y), angular distance)` -/
def ProjSIN.forcedProjAndDistance (p : ProjSIN α) (lon lat : α) : (α × α) × α :=
  let sl := Num.sin lat; let cl := Num.cos lat
  let dlon := lon - p.centerLon
  let sd := Num.sin dlon; let cd := Num.cos dlon
  let x := cl * sd
  let y := p.cosCenterLat * sl - p.sinCenterLat * cl * cd
  -- `atan2(sin d, cos d)` since the repair of finding F18 (was `acos(cos d)`)
  ((x, y), Num.atan2 (Num.sqrt (x * x + y * y)) (p.sinCenterLat * sl + p.cosCenterLat * cl * cd))

structure Ellipse (α : Type) where
  sigx2 : α
  sigy2 : α
  rho : α
  oneOverDet : α

def Ellipse.fromCov (sigx2 sigy2 rho : α) : Ellipse α :=
  { sigx2, sigy2, rho, oneOverDet := Num.one / (sigx2 * sigy2 - pow2 rho) }

def Ellipse.fromOriented (a b sinT cosT : α) : Ellipse α :=
  let a2 := pow2 a; let b2 := pow2 b
  let s2 := pow2 sinT; let c2 := pow2 cosT
  Ellipse.fromCov (a2 * c2 + b2 * s2) (a2 * s2 + b2 * c2) (cosT * sinT * (a2 - b2))

def Ellipse.contains (e : Ellipse α) (x y : α) : Bool :=
  Num.le (e.oneOverDet * (pow2 x * e.sigy2 - Num.two * (e.rho * x * y) + pow2 y * e.sigx2)) (Num.one : α)

def Ellipse.extendedGeom (e o : Ellipse α) : Ellipse α :=
  Ellipse.fromCov (pow2 (Num.sqrt e.sigx2 + Num.sqrt o.sigx2)) (pow2 (Num.sqrt e.sigy2 + Num.sqrt o.sigy2)) (e.rho + o.rho)

def isFinite (x : α) : Bool := !Num.isNaN x && Num.lt (Num.abs x) (Num.lit (α := α) 0x7FF0000000000000)

structure ECone (α : Type) where
  center : ProjSIN α
  ellipse : Ellipse α
  a : α
  b : α
  sinT : α
  cosT : α

def ECone.new (lon lat a b pa : α) : ECone α :=
  let t := (Num.halfPi : α) - pa
  let st := Num.sin t; let ct := Num.cos t
  { center := ProjSIN.new lon lat, ellipse := Ellipse.fromOriented (Num.sin a) (Num.sin b) st ct, a, b, sinT := st, cosT := ct }

def ECone.contains (e : ECone α) (lon lat : α) : Bool :=
  match e.center.proj lon lat with
  | some (x, y) => e.ellipse.contains x y
  | none => false

/-- `overlap_cone`: `none` = `assert!(radius > 0.0)` fails -/
def ECone.overlapCone (e : ECone α) (lon lat radius : α) : Option Bool :=
  if !Num.gt radius (Num.zero : α) then none else
  let ((x, y), angDist) := e.center.forcedProjAndDistance lon lat
  if Num.lt (e.a + radius) angDist then some false else
  let dmin := Num.sin (angDist - radius)
  let dmax := Num.sin (angDist + radius)
  let projA := Num.sin radius
  let projB := Num.half * Num.abs (dmax - dmin)
  let oneOverNorm := (Num.one : α) / Num.sqrt (pow2 x + pow2 y)
  if !isFinite oneOverNorm then some (Num.le radius e.b) else
  let cphi := x * oneOverNorm
  let sphi := y * oneOverNorm
  let (sa, ca) := if Num.ge sphi (Num.zero : α) then (-cphi, sphi) else (cphi, -sphi)
  let pe := Ellipse.fromOriented projA projB sa ca
  let dist := Num.half * (dmax + dmin)
  some ((e.ellipse.extendedGeom pe).contains (dist * cphi) (dist * sphi))

def ECone.containsCone (e : ECone α) (lon lat radius : α) : Bool :=
  if Num.ge radius e.b then false else
  match e.center.proj lon lat with
  | some (x, y) => (Ellipse.fromOriented (Num.sin (e.a - radius)) (Num.sin (e.b - radius)) e.sinT e.cosT).contains x y
  | none => false

/-- classifier of the elliptical-cone descent -/
def ellClassifier (cfg : Cfg) (target : Nat) (e : ECone α) (dists : List α) (depth hash level : Nat) : Option Verdict :=
  match Hash.center (α := α) cfg depth hash with
  | none => none
  | some c =>
    match dists[level]? with
    | none => none
    | some d =>
      if e.containsCone c.1 c.2 d then some .full
      else
        let go : Option Bool := if e.contains c.1 c.2 then some true else e.overlapCone c.1 c.2 d
        match go with
        | none => none
        | some false => some .skip
        | some true =>
          if depth == target then
            (Hash.vertices (α := α) cfg depth hash).map fun vs => .descend (vs.all fun v => e.contains v.1 v.2)
          else some (.descend false)

/-- `elliptical_cone_coverage_internal` -/
def ellInternal (cfg : Cfg) (depth : Nat) (lon lat a b pa : α) : Option (List Cell) :=
  if Num.ge a (Num.halfPi : α) then none else
  if Num.ge b (Num.pi : α) then some ((List.range 12).map fun h => { depth := 0, hash := h, full := true }) else
  let e := ECone.new lon lat a b pa
  if !C2V.hasBestStartingDepth a then
    match C2V.largestC2VsWithRadius cfg.debug 0 (depth + 1) lon lat a with
    | none => none
    | some dists =>
      (List.range 12).foldlM (init := ([] : List Cell)) fun acc h =>
        (coverRec depth (ellClassifier cfg depth e dists) (depth + 2) 0 h 0).map (acc ++ ·)
  else
    match C2V.bestStartingDepth a with
    | none => none
    | some ds =>
      match Hash.hashV2 cfg ds lon lat with
      | none => none
      | some h0 =>
        if ds ≥ depth then
          match C2V.largestC2VWithRadius cfg.debug ds lon lat a, Topo.neighbours cfg ds h0 true with
          | some dist, some nm =>
            let cand : Option (List Nat) := nm.foldlM (init := ([] : List Nat)) fun acc en =>
              match Hash.center (α := α) cfg ds en.2 with
              | none => none
              | some c =>
                let keep : Option Bool := if e.contains c.1 c.2 then some true else e.overlapCone c.1 c.2 dist
                keep.map fun k => if k then acc ++ [en.2 >>> ((ds - depth) <<< 1)] else acc
            cand.map fun l => (dedupAdj (sortNat l)).map fun h => { depth := depth, hash := h, full := false }
          | _, _ => none
        else
          match C2V.largestC2VsWithRadius cfg.debug ds (depth + 1) lon lat a, Topo.neighbours cfg ds h0 true with
          | some dists, some nm =>
            (sortNat (nm.map (·.2))).foldlM (init := ([] : List Cell)) fun acc h =>
              (coverRec depth (ellClassifier cfg depth e dists) (depth + 2) ds h 0).map (acc ++ ·)
          | _, _ => none

def ellipticalConeCoverageCustom (cfg : Cfg) (depth deltaDepth : Nat) (lon lat a b pa : α) : Option BMOC :=
  if depth > 29 then none else
  if deltaDepth == 0 then
    (ellInternal cfg depth lon lat a b pa).map fun cells => { dmax := depth, entries := pack depth (cells.map (encode depth)) }
  else
    let deep := depth + deltaDepth
    if deep > 29 then none else
    match ellInternal cfg deep lon lat a b pa with
    | none => none
    | some cells => (toLowerDepth deep depth (pack deep (cells.map (encode deep)))).map fun e => { dmax := depth, entries := e }

end Hpx.Sph
