/-
Model of the coverage queries of `nested/mod.rs`: the generic descent (`coverRec`), cone coverage
(`cone_coverage_approx`, `_custom`, `_flat`).  Generic in `Num`; `none` = panic.
-/
import HpxVerif.Model.Hash
import HpxVerif.Model.C2V
import HpxVerif.Model.Bmoc

namespace Hpx.Cover
open Num Bmoc

variable {α : Type} [Num α]

/-- verdict of a classifier on a cell during the descent -/

inductive Verdict
  | full
  /-- go down; at the target depth the cell is pushed with this flag (`false` = partial) -/
  | descend (fullAtTarget : Bool)
  | skip
  deriving DecidableEq, Repr

/-- the generic descent shared by the three coverage queries: `κ depth hash level` classifies a cell; a `descend`
    cell at the target depth is pushed partial.  Children are visited in z-order.  `fuel` bounds the depth. -/
def coverRec (target : Nat) (κ : Nat → Nat → Nat → Option Verdict) :
    (fuel : Nat) → (depth hash level : Nat) → Option (List Cell)
  | 0, _, _, _ => none
  | fuel + 1, depth, hash, level =>
    match κ depth hash level with
    | none => none
    | some .full => some [{ depth, hash, full := true }]
    | some .skip => some []
    | some (.descend fl) =>
      if depth == target then some [{ depth, hash, full := fl }]
      else
        let h := hash <<< 2
        match coverRec target κ fuel (depth + 1) h (level + 1), coverRec target κ fuel (depth + 1) (h ||| 1) (level + 1),
              coverRec target κ fuel (depth + 1) (h ||| 2) (level + 1), coverRec target κ fuel (depth + 1) (h ||| 3) (level + 1) with
        | some a, some b, some c, some d => some (a ++ b ++ c ++ d)
        | _, _, _, _ => none

structure MinMax (α : Type) where
  min : α
  max : α

/-- `to_shs_min_max` -/
def toShsMinMax (r dist : α) : MinMax α :=
  { min := if Num.lt r dist then Num.zero else C2V.toSquaredHalfSegment (r - dist),
    max := C2V.toSquaredHalfSegment (Num.fmin (r + dist) Num.pi) }

/-- `shs_computer(cone_lon, cone_lat, cos_cone_lat)(lon, lat)` -/
def shs (coneLon coneLat cosConeLat : α) (p : α × α) : α :=
  C2V.squaredHalfSegment (p.1 - coneLon) (p.2 - coneLat) (Num.cos p.2) cosConeLat

/-- classifier of the cone descent -/
def coneClassifier (cfg : Cfg) (coneLon coneLat cosConeLat : α) (mm : List (MinMax α)) (depth hash level : Nat) :
    Option Verdict :=
  match Hash.center (α := α) cfg depth hash with
  | none => none
  | some c =>
    let s := shs coneLon coneLat cosConeLat c
    match mm[level]? with
    | none => none            -- `shs_minmax[recur_depth]` out of bounds
    | some m => if Num.lt s m.min then some .full else if Num.le s m.max then some (.descend false) else some .skip

/-- `cone_coverage_approx_internal`: the builder content `(depth_max, cells)` -/
def coneInternal (cfg : Cfg) (depth : Nat) (coneLon coneLat r : α) : Option (List Cell) :=
  if Num.ge r (Num.pi : α) then some ((List.range 12).map fun h => { depth := 0, hash := h, full := true }) else
  let cosConeLat := Num.cos coneLat
  if !C2V.hasBestStartingDepth r then
    match C2V.largestC2VsWithRadius cfg.debug 0 (depth + 1) coneLon coneLat r with
    | none => none
    | some dists =>
      let mm := dists.map (toShsMinMax r)
      (List.range 12).foldlM (init := ([] : List Cell)) fun acc h =>
        (coverRec depth (coneClassifier cfg coneLon coneLat cosConeLat mm) (depth + 2) 0 h 0).map (acc ++ ·)
  else
    match C2V.bestStartingDepth r with
    | none => none
    | some ds =>
      if ds ≥ depth then
        match C2V.largestC2VWithRadius cfg.debug ds coneLon coneLat r with
        | none => none
        | some c2v =>
          let shsMax := C2V.toSquaredHalfSegment (r + c2v)
          match Hash.hashV2 cfg ds coneLon coneLat with
          | none => none
          | some h0 =>
            match Topo.neighbours cfg ds h0 true with
            | none => none
            | some nm =>
              let cand : Option (List Nat) := nm.foldlM (init := ([] : List Nat)) fun acc e =>
                match Hash.center (α := α) cfg ds e.2 with
                | none => none
                | some c =>
                  -- `h_to_h_and_shs`: `squared_half_segment(lon − cone_lon, lat − cone_lat, lat.cos(), cos_cone_lat)`
                  let s := C2V.squaredHalfSegment (c.1 - coneLon) (c.2 - coneLat) (Num.cos c.2) cosConeLat
                  if Num.le s shsMax then some (acc ++ [e.2 >>> ((ds - depth) <<< 1)]) else some acc
              cand.map fun l =>
                (dedupAdj (sortNat l)).map fun h => { depth := depth, hash := h, full := false }
      else
        match C2V.largestC2VsWithRadius cfg.debug ds (depth + 1) coneLon coneLat r with
        | none => none
        | some dists =>
          let mm := dists.map (toShsMinMax r)
          match Hash.hashV2 cfg ds coneLon coneLat with
          | none => none
          | some h0 =>
            match Topo.neighbours cfg ds h0 true with
            | none => none
            | some nm =>
              let roots := sortNat (nm.map (·.2))
              roots.foldlM (init := ([] : List Cell)) fun acc h =>
                (coverRec depth (coneClassifier cfg coneLon coneLat cosConeLat mm) (depth + 2) ds h 0).map (acc ++ ·)

/-- `cone_coverage_approx`: `to_bmoc_packing` -/
def coneCoverageApprox (cfg : Cfg) (depth : Nat) (coneLon coneLat r : α) : Option BMOC :=
  if depth > 29 then none else
  (coneInternal cfg depth coneLon coneLat r).map fun cells =>
    { dmax := depth, entries := pack depth (cells.map (encode depth)) }

/-- `cone_coverage_approx_custom` -/
def coneCoverageApproxCustom (cfg : Cfg) (depth deltaDepth : Nat) (coneLon coneLat r : α) : Option BMOC :=
  if depth > 29 then none else
  if deltaDepth == 0 then coneCoverageApprox cfg depth coneLon coneLat r else
  let deep := depth + deltaDepth
  if deep > 29 then none else   -- `get_or_create(self.depth + delta_depth)`
  match coneInternal cfg deep coneLon coneLat r with
  | none => none
  | some cells =>
    let packed := pack deep (cells.map (encode deep))
    (toLowerDepth deep depth packed).map fun e => { dmax := depth, entries := e }

end Hpx.Cover
