/-
Model of `src/ring/mod.rs` (RING scheme for any NSIDE), generic in `Num`.  `none` = panic.
Integer arithmetic is `u64` in the code: a subtraction that underflows panics in the dev profile and wraps in
release builds (`debug` selects which).
-/
import HpxVerif.Model.Proj

namespace Hpx.Ring
open Num Proj

variable {α : Type} [Num α]

def nHash (nside : Nat) : Nat := 12 * nside * nside
def tri4 (n : Nat) : Nat := (n * (n + 1)) <<< 1
def nIsolatitudeRings (nside : Nat) : Nat := (nside <<< 2) - 1

/-- `u64` subtraction: `none` = overflow panic (dev profile); release wraps modulo 2^64 -/
def sub64 (debug : Bool) (a b : Nat) : Option Nat :=
  if b ≤ a then some (a - b) else if debug then none else some ((a + 2 ^ 64 - b) % 2 ^ 64)

/-- `deal_with_1x1_box` -/
def dealWith1x1Box (dl dh : α) (iRing iInRing : Nat) : Nat × Nat :=
  let in1 : Nat := if Num.le dl dh then 1 else 0
  let in2 : Nat := if Num.ge dl ((Num.one : α) - dh) then 1 else 0
  (iRing + in1 + in2, iInRing + (in2 >>> in1))

/-- polar-cap ring index (same helper as the NESTED conversion, finding F2) -/
def polarRingIndex (x : Nat) : Nat := Layer.polarRingIndexFrom 4 x (Layer.polarRingApprox x)

/-- `hash_with_dldh(nside, lon, lat)`: `(hash, dl, dh)` -/
def hashWithDlDh (debug : Bool) (nside : Nat) (lon lat : α) : Option (Nat × α × α) :=
  match proj lon lat with
  | none => none
  | some xy0 =>
    let halfNside : α := Num.half * Num.ofNat nside
    let x := ensuresXIsPositive xy0.1
    let dl0 := halfNside * x
    if debug && !(Num.le (Num.zero : α) dl0 && Num.lt dl0 (Num.ofNat 4 * Num.ofNat nside)) then none else
    let dh0 := halfNside * (xy0.2 + Num.ofNat 3)
    if debug && !(Num.le (Num.zero : α) dh0 && Num.le dh0 (Num.lit 0x4004000000000000 * Num.ofNat nside)) then none else
    let iRing0 := ((Num.truncU64 dh0) <<< 1) % 2 ^ 64
    let iInRing0 := Num.truncU64 dl0
    let dl := dl0 - Num.ofNat iInRing0
    if debug && !(Num.le (Num.zero : α) dl && Num.lt dl (Num.one : α)) then none else
    let dh := dh0 - Num.ofNat (iRing0 >>> 1)
    if debug && !(Num.le (Num.zero : α) dh && Num.lt dh (Num.one : α)) then none else
    let (iRing1, iInRing1) := dealWith1x1Box dl dh iRing0 iInRing0
    if iRing1 ≥ 5 * nside then
      -- north pole: `i_in_ring / nside` (division by zero if nside = 0: panic)
      if nside = 0 then none else some (iInRing1 / nside, Num.one, Num.one)
    else
      -- i_ring = 5 nside − 1 − i_ring
      match sub64 debug (5 * nside) 1 with
      | none => none
      | some a =>
      match sub64 debug a iRing1 with
      | none => none
      | some iRing =>
        if nside = 0 then none else
        if iRing < nside then
          match sub64 debug nside 1 with
          | none => none
          | some b =>
          match sub64 debug b iRing with
          | none => none
          | some off =>
            match sub64 debug iInRing1 ((off >>> 1) + (off &&& 1) + off * (iInRing1 / nside)) with
            | none => none
            | some iin => some ((tri4 iRing + iin) % 2 ^ 64, dl, dh)
        else if iRing ≥ 3 * nside then
          match sub64 debug (iRing + 1) (3 * nside) with
          | none => none
          | some off =>
            match sub64 debug iInRing1 ((off >>> 1) + (off &&& 1) + off * (iInRing1 / nside)) with
            | none => none
            | some iin =>
              match sub64 debug (nIsolatitudeRings nside) iRing with
              | none => none
              | some k =>
                match sub64 debug (nHash nside) (tri4 k) with
                | none => none
                | some base => some ((base + iin) % 2 ^ 64, dl, dh)
        else
          some (tri4 nside + (iRing - nside) * (nside <<< 2) + (if iInRing1 == nside <<< 2 then 0 else iInRing1), dl, dh)

def hash (debug : Bool) (nside : Nat) (lon lat : α) : Option Nat := (hashWithDlDh debug nside lon lat).map (·.1)

/-- `dldh_to_dxdy` -/
def dldhToDxDy (dl dh : α) : α × α :=
  let dx := dh + dl - Num.one
  let dy := dh - dl
  (dx + (if Num.lt dx (Num.zero : α) then Num.one else Num.zero), dy + (if Num.lt dy (Num.zero : α) then Num.one else Num.zero))

def hashWithDxDy (debug : Bool) (nside : Nat) (lon lat : α) : Option (Nat × α × α) :=
  (hashWithDlDh debug nside lon lat).map fun r => let d := dldhToDxDy r.2.1 r.2.2; (r.1, d.1, d.2)

/-- `center_of_projected_cell(nside, hash)` -/
def centerOfProjectedCell (debug : Bool) (nside hash : Nat) : Option (α × α) :=
  if hash ≥ nHash nside then none else
  if nside = 0 then none else
  let n : α := Num.ofNat nside
  if hash < tri4 (nside - 1) then
    let iRing := polarRingIndex hash
    let nIn := iRing + 1
    match sub64 debug hash (tri4 iRing) with
    | none => none
    | some iIn =>
      let q := iIn / nIn
      if debug && !(q < 4) then none else
      match sub64 debug nside iRing, sub64 debug iIn (q * nIn), sub64 debug (nside - 1) iRing with
      | some offD0h, some iInD0hRing, some yk =>
        let x : α := Num.ofNat ((iInD0hRing <<< 1) % 2 ^ 64) + Num.ofNat offD0h
        let y : α := (Num.one : α) + Num.ofNat yk / n
        some (Num.ofNat ((q <<< 1) % 2 ^ 64) + x / n, y)
      | _, _, _ => none
  else if hash ≥ (nside * (5 * nside + 1)) <<< 1 then
    let h := nHash nside - 1 - hash
    let iRing := polarRingIndex h
    let nIn := iRing + 1
    match sub64 debug h (tri4 iRing) with
    | none => none
    | some k =>
      match sub64 debug ((nIn <<< 2) - 1) k with
      | none => none
      | some iIn =>
        let q := iIn / nIn
        match sub64 debug nside iRing, sub64 debug iIn (q * nIn), sub64 debug (nside - 1) iRing with
        | some offD0h, some iInD0hRing, some yk =>
          let x : α := Num.ofNat ((iInD0hRing <<< 1) % 2 ^ 64) + Num.ofNat offD0h
          let y : α := (Num.one : α) + Num.ofNat yk / n
          some (Num.ofNat ((q <<< 1) % 2 ^ 64) + x / n, -y)
        | _, _, _ => none
  else
    let nsidex4 := (nside <<< 2) % 2 ^ 32      -- `(nside << 2) as u64` with `nside: u32`
    if nsidex4 = 0 then none else
    let r0 := hash - tri4 (nside - 1)
    let iRing := r0 / nsidex4
    let iIn := r0 - iRing * nsidex4
    let x : α := Num.ofNat ((iIn <<< 1) + ((iRing + 1) &&& 1)) / n
    let y : α := Num.ofInt ((nside : Int) - (iRing : Int)) / n
    some (x, y)

def center (debug : Bool) (nside hash : Nat) : Option (α × α) :=
  (centerOfProjectedCell (α := α) debug nside hash).bind fun c => unproj c.1 c.2

def sphCoo (debug : Bool) (nside hash : Nat) (dx dy : α) : Option (α × α) :=
  if !(Num.le (Num.zero : α) dx && Num.lt dx (Num.one : α)) then none else
  if !(Num.le (Num.zero : α) dy && Num.lt dy (Num.one : α)) then none else
  (centerOfProjectedCell (α := α) debug nside hash).bind fun c =>
    let n : α := Num.ofNat nside
    unproj (ensuresXIsPositive (c.1 + (dx - dy) / n)) (c.2 + (dx + dy - Num.one) / n)

def vertices (debug : Bool) (nside hash : Nat) : Option (List (α × α)) :=
  let o : α := Num.one / Num.ofNat nside
  (centerOfProjectedCell (α := α) debug nside hash).bind fun c =>
    [unproj c.1 (c.2 - o), unproj (c.1 + o) c.2, unproj c.1 (c.2 + o), unproj (ensuresXIsPositive (c.1 - o)) c.2].mapM id

end Hpx.Ring
