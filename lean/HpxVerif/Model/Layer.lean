/-
Model of `nested::Layer` (integer part): constants, `decode_hash`, `build_hash*`, NESTED <-> RING conversion,
integer plane coordinates of a cell centre.  Core Lean only.
-/
import HpxVerif.Model.Bits

namespace Hpx

/-- configuration of a run: `debug` = debug assertions / overflow checks on; `bmi` = BMI2 z-order variants -/
structure Cfg where
  debug : Bool := true
  bmi : Bool := false

structure HashParts where
  d0h : Nat
  i : Nat
  j : Nat
  deriving DecidableEq, Repr

namespace Layer

def nside (d : Nat) : Nat := 1 <<< d
def nHash (d : Nat) : Nat := 12 <<< (d <<< 1)
def xyMask (d : Nat) : Nat := if d > 0 then (1 <<< (d <<< 1)) - 1 else 0
def xMask (d : Nat) : Nat := if d > 0 then 0x5555555555555555 >>> (64 - (d <<< 1)) else 0
def yMask (d : Nat) : Nat := xMask d <<< 1
def d0hMask (d : Nat) : Nat := 15 <<< (d <<< 1)

/-- the curve selected by `get_zoc depth` (`none` = panic) -/
def zoc (cfg : Cfg) (d : Nat) : Option ZocClass := if cfg.bmi then getZocBmi d else getZoc d

def ij2h (cfg : Cfg) (c : ZocClass) (i j : Nat) : Nat := if cfg.bmi then Bmi.ij2h c i j else Lut.ij2h c i j
def h2ij (cfg : Cfg) (c : ZocClass) (h : Nat) : Nat := if cfg.bmi then Bmi.h2ij c h else Lut.h2ij c h

/-- `decode_hash` (no range check, as in the code) -/
def decodeHash (cfg : Cfg) (d : Nat) (hash : Nat) : Option HashParts :=
  match zoc cfg d with
  | none => none
  | some c =>
    let ij := h2ij cfg c (hash &&& xyMask d)
    some { d0h := (hash >>> (d <<< 1)) % 256, i := Lut.ij2i c ij, j := Lut.ij2j c ij }

/-- `build_hash_from_parts`; the `debug_assert!(i < nside && j < nside)` of `build_hash` is a panic in the dev profile -/
def buildHashFromParts (cfg : Cfg) (d : Nat) (d0h i j : Nat) : Option Nat :=
  match zoc cfg d with
  | none => none
  | some c =>
    if cfg.debug && !(i < nside d && j < nside d) then none
    else some ((d0h <<< (d <<< 1)) ||| ij2h cfg c i j)

/-- `triangular_number_x4` -/
def tri4 (n : Nat) : Nat := (n * (n + 1)) <<< 1

def firstHashInEqr (d : Nat) : Nat := ((1 <<< (d <<< 1)) + nside d) <<< 1

/-- floor division by two on integers (`>> 1` on `i64`) -/
def idiv2 (x : Int) : Int := x / 2     -- Lean's `Int./` rounds toward −∞ for positive divisors

/-- `to_ring` on decoded parts.  Pure integer arithmetic; `none` = a subtraction underflows (invalid input). -/
def toRingParts (d : Nat) (p : HashParts) : Option Nat :=
  let ns := nside d
  let h := p.i + p.j
  let l : Int := (p.i : Int) - (p.j : Int)
  let id0 := p.d0h % 4
  let jd0 := p.d0h / 4
  if (jd0 + 2) * ns < h + 2 then none else
  let iRing := (jd0 + 2) * ns - (h + 2)
  let half := idiv2 l
  if iRing < ns then
    let ip1 := iRing + 1
    let first := tri4 iRing
    let iin := half + ((ip1 / 2 + ip1 * id0 : Nat) : Int)
    if iin < 0 then none else some (iin.toNat + first)
  else if iRing ≥ 3 * ns - 1 then
    let ip1 := h + 1
    if nHash d < tri4 ip1 then none else
    let first := nHash d - tri4 ip1
    let iin := half + ((ip1 / 2 + ip1 * id0 : Nat) : Int)
    if iin < 0 then none else some (iin.toNat + first)
  else
    let first := firstHashInEqr d + ((iRing - ns) <<< (d + 2))
    let a : Nat := (ns * ((jd0 + 1) % 2)) / 2
    let b : Nat := ns * (if p.d0h == 4 && l < 0 then 4 else id0)
    let iin := half + (a : Int) + (b : Int)
    if iin < 0 then none else some (iin.toNat + first)

def toRing (cfg : Cfg) (d : Nat) (hash : Nat) : Option Nat :=
  match decodeHash cfg d hash with
  | none => none
  | some p => if cfg.debug && p.d0h / 4 > 2 then none else toRingParts d p

/-- `depth0_hash_unsafe(i, j)` in `i8` arithmetic: `k = 5 − (i+j)`, result `(k << 2) + ((i + ((k−1) >> 7)) & 3)` -/
def depth0HashUnsafe (i j : Nat) : Nat :=
  let k : Int := 5 - ((i + j : Nat) : Int)
  let s : Int := if k - 1 < 0 then -1 else 0          -- arithmetic shift of an i8 by 7
  let m : Int := ((i : Int) + s) % 4                    -- `& 3` on two's complement = mod 4 (non-negative)
  (((k * 4 + m) % 256).toNat)                           -- `as u8`

/-- ring index of a polar-cap cell number counted from the pole: the largest `n` with `2n(n+1) ≤ x`.
    `approx` is the float estimate `(((1 + 2x) as f64).sqrt() as u64 − 1) >> 1`; the two loops are the integer
    correction steps. -/
def polarRingIndexFrom (fuel : Nat) (x : Nat) (n : Nat) : Nat :=
  match fuel with
  | 0 => n
  | fuel + 1 =>
    if tri4 n > x then polarRingIndexFrom fuel x (n - 1)
    else if tri4 (n + 1) ≤ x then polarRingIndexFrom fuel x (n + 1)
    else n

/-- the float estimate, evaluated with IEEE doubles exactly as the code does -/
def isqrtF64 (x : Nat) : Nat := (Float.sqrt (Float.ofNat x)).toUInt64.toNat

def polarRingApprox (x : Nat) : Nat := (isqrtF64 (1 + (x <<< 1)) - 1) >>> 1

/-- `from_ring` producing parts; `sq` is the ring-index function used for the caps -/
def fromRingParts (d : Nat) (ringIdx : Nat → Nat) (hash : Nat) : Option HashParts :=
  let ns := nside d
  let fe := firstHashInEqr d
  if nHash d < fe then none else
  let ft := nHash d - fe
  if hash < fe then
    let iRing := ringIdx hash
    let nIn := iRing + 1
    if hash < tri4 iRing then none else
    let iIn := hash - tri4 iRing
    let d0h := iIn / nIn
    let h : Int := ((ns <<< 1 : Nat) : Int) - 2 - (iRing : Int)
    let l : Int := (((iIn - nIn * d0h) <<< 1 : Nat) : Int) - (iRing : Int)
    some { d0h := d0h % 256, i := (idiv2 (h + l)).toNat % 2^32, j := (idiv2 (h - l)).toNat % 2^32 }
  else if hash ≥ ft then
    if nHash d < 1 + hash then none else
    let x := nHash d - 1 - hash
    let iRing := ringIdx x
    let nIn := iRing + 1
    if x < tri4 iRing then none else
    if (nIn <<< 2) - 1 < x - tri4 iRing then none else
    let iIn := ((nIn <<< 2) - 1) - (x - tri4 iRing)
    let d0h := iIn / nIn
    let h : Int := iRing
    let l : Int := (((iIn - nIn * d0h) <<< 1 : Nat) : Int) - (iRing : Int)
    some { d0h := (d0h % 256 + 8) % 256, i := (idiv2 (h + l)).toNat % 2^32, j := (idiv2 (h - l)).toNat % 2^32 }
  else
    let r0 := hash - fe
    let iRing := r0 >>> (d + 2)
    let iIn := r0 - (iRing <<< (d + 2))
    let l := (iIn <<< 1) + iRing % 2
    if (ns <<< 1) - 2 < iRing ∨ ns <<< 1 < 2 then none else
    let h := ((ns <<< 1) - 2) - iRing
    let iInD0c := (h + l) >>> 1
    let jInD0c : Int := idiv2 ((h : Int) - (l : Int)) + ((ns <<< 2 : Nat) : Int)
    if jInD0c < 0 then none else
    let jn := jInD0c.toNat
    let id0 := (iInD0c >>> d) % 256
    let jd0 := (jn >>> d) % 256
    some { d0h := depth0HashUnsafe id0 jd0, i := iInD0c % ns, j := jn % ns }

def fromRing (cfg : Cfg) (d : Nat) (hash : Nat) : Option Nat :=
  match fromRingParts d (fun x => polarRingIndexFrom 4 x (polarRingApprox x)) hash with
  | none => none
  | some p => buildHashFromParts cfg d p.d0h p.i p.j

/-- integer plane coordinates of a cell centre in units of `1/nside`: `(X, Y)` with
    `center_of_projected_cell = (X / nside mod 8, Y / nside)` -/
def centerXY (d : Nat) (p : HashParts) : Int × Int :=
  let ns : Int := nside d
  let offY : Int := 1 - (p.d0h / 4 : Nat)
  let offX : Int := ((p.d0h % 4) * 2 : Nat) + (if p.d0h / 4 = 1 then 0 else 1)
  let x : Int := (p.i : Int) - (p.j : Int) + offX * ns
  let y : Int := (p.i : Int) + (p.j : Int) - (ns - 1) + offY * ns
  (if x < 0 then x + 8 * ns else x, y)

end Layer
end Hpx
