/-
Model of `src/nested/zordercurve.rs` (z-order curve implementations) and of the uniq encodings of
`src/nested/mod.rs`.  Core Lean only (no Mathlib) so that the driver links as a `lean_exe`.

Rust fixed-width integers are modelled as `Nat` with explicit truncations at exactly the places where
the Rust code casts or where an operation could drop bits.
-/
import HpxVerif.Gen.ZocTables

namespace Hpx

/-! ## Specification vocabulary (independent of the code's tables) -/

/-- spread the `k` low bits of `n` to the even bit positions: bit `p` of `n` goes to bit `2p`. -/
def spreadN : Nat → Nat → Nat
  | 0, _ => 0
  | k + 1, n => n % 2 + 4 * spreadN k (n / 2)

/-- compress the even bit positions `0,2,..,2(k-1)` of `h` into the `k` low bits. -/
def squeezeN : Nat → Nat → Nat
  | 0, _ => 0
  | k + 1, h => h % 2 + 2 * squeezeN k (h / 4)

/-- z-order interleaving of two coordinates below `2^32`: bits of `i` at even, bits of `j` at odd positions -/
def interleave (i j : Nat) : Nat := spreadN 32 i ||| (spreadN 32 j <<< 1)

/-! ## Tables (regenerated from the source) -/

def lutHash : Array Nat := Gen.luptToHash.toArray
def lutIjByte : Array Nat := Gen.luptToIjByte.toArray
def lutIjShort : Array Nat := Gen.luptToIjShort.toArray
def lutIjInt : Array Nat := Gen.luptToIjInt.toArray

/-- table lookup with a byte index (always in range: the index is a `u8`) -/
@[inline] def lk (t : Array Nat) (b : Nat) : Nat := t.getD (b % 256) 0

/-! ## The curve implementations -/

inductive ZocClass | empty | small | mediu | large
  deriving DecidableEq, Repr

def ZocClass.ofCode : Nat → Option ZocClass
  | 0 => some .empty | 1 => some .small | 2 => some .mediu | 3 => some .large
  | _ => none

/-- `get_zoc`: `none` = panic (`check_depth`, or no arm) -/
def getZocFrom (ranges : List (Nat × Nat × Nat)) (depth : Nat) : Option ZocClass :=
  if depth > 29 then none else
  match ranges.find? (fun r => r.1 ≤ depth && depth ≤ r.2.1) with
  | some r => ZocClass.ofCode r.2.2
  | none => none

def getZoc (depth : Nat) : Option ZocClass := getZocFrom Gen.zocRangesLut depth
def getZocBmi (depth : Nat) : Option ZocClass := getZocFrom Gen.zocRangesBmi depth

namespace Lut

/-- `i02h` per class; argument is a `u32` -/
def i02h : ZocClass → Nat → Nat
  | .empty, _ => 0
  | .small, i => lk lutHash i                                   -- `(i as u8)`
  | .mediu, i => let w := i % 65536                              -- `(i as u16)`
                 lk lutHash w ||| (lk lutHash (w / 256) <<< 16)
  | .large, i => let w := i % 4294967296
                 lk lutHash w ||| (lk lutHash (w / 256) <<< 16)
                   ||| (lk lutHash (w / 65536) <<< 32) ||| (lk lutHash (w / 16777216) <<< 48)

/-- default trait method `oj2h j = i02h(j) << 1` -/
def oj2h (c : ZocClass) (j : Nat) : Nat :=
  match c with
  | .empty => 0     -- EmptyZOC overrides `ij2h`; `oj2h` default gives `0 << 1`
  | _ => (i02h c j <<< 1) % 2^64

def ij2h (c : ZocClass) (i j : Nat) : Nat :=
  match c with
  | .empty => 0
  | _ => i02h c i ||| oj2h c j

def h2ij : ZocClass → Nat → Nat
  | .empty, _ => 0
  | .small, h => let w := h % 65536
                 (lk lutIjByte w ||| ((lk lutIjByte (w / 256) <<< 4) % 65536))
  | .mediu, h => let w := h % 4294967296
                 (lk lutIjShort w ||| ((lk lutIjShort (w / 256) <<< 4) % 4294967296)
                   ||| ((lk lutIjShort (w / 65536) <<< 8) % 4294967296)
                   ||| ((lk lutIjShort (w / 16777216) <<< 12) % 4294967296))
  | .large, h => let w := h % 2^64
                 (lk lutIjInt w ||| ((lk lutIjInt (w / 2^8) <<< 4) % 2^64)
                   ||| ((lk lutIjInt (w / 2^16) <<< 8) % 2^64)
                   ||| ((lk lutIjInt (w / 2^24) <<< 12) % 2^64)
                   ||| ((lk lutIjInt (w / 2^32) <<< 16) % 2^64)
                   ||| ((lk lutIjInt (w / 2^40) <<< 20) % 2^64)
                   ||| ((lk lutIjInt (w / 2^48) <<< 24) % 2^64)
                   ||| ((lk lutIjInt (w / 2^56) <<< 28) % 2^64))

def ij2i : ZocClass → Nat → Nat
  | .empty, _ => 0
  | .small, ij => (ij % 4294967296) &&& 0xFF
  | .mediu, ij => (ij % 4294967296) &&& 0xFFFF
  | .large, ij => ij % 4294967296

def ij2j : ZocClass → Nat → Nat
  | .empty, _ => 0
  | .small, ij => (ij % 4294967296) >>> 8
  | .mediu, ij => (ij % 4294967296) >>> 16
  | .large, ij => (ij >>> 32) % 4294967296

end Lut

/-! ## BMI2 variants: `pdep`/`pext` as in the Intel SDM pseudo-code -/

/-- `PDEP`: deposit the low bits of `src` at the positions of the set bits of `mask` (width `w`). -/
def pdepAux : Nat → Nat → Nat → Nat → Nat
  | 0, _, _, _ => 0
  | w + 1, src, mask, pos =>
    if mask % 2 = 1 then (src % 2) * 2 ^ pos + pdepAux w (src / 2) (mask / 2) (pos + 1)
    else pdepAux w src (mask / 2) (pos + 1)

def pdep (w src mask : Nat) : Nat := pdepAux w (src % 2 ^ w) mask 0

/-- `PEXT`: gather the bits of `src` selected by `mask` into the low bits. -/
def pextAux : Nat → Nat → Nat → Nat
  | 0, _, _ => 0
  | w + 1, src, mask =>
    if mask % 2 = 1 then src % 2 + 2 * pextAux w (src / 2) (mask / 2)
    else pextAux w (src / 2) (mask / 2)

def pext (w src mask : Nat) : Nat := pextAux w (src % 2 ^ w) mask

namespace Bmi

/-- apply one generated `(kind, width, mask)` call to a source operand -/
def call (c : Nat × Nat × Nat) (src : Nat) : Nat :=
  if c.1 = 0 then pdep c.2.1 src c.2.2 else pext c.2.1 src c.2.2

def nth (l : List (Nat × Nat × Nat)) (k : Nat) : Nat × Nat × Nat := l.getD k (2, 0, 0)

def callsI02h : ZocClass → List (Nat × Nat × Nat)
  | .empty => [] | .small => Gen.bmi_small_i02h | .mediu => Gen.bmi_mediu_i02h | .large => Gen.bmi_large_i02h
def callsOj2h : ZocClass → List (Nat × Nat × Nat)
  | .empty => [] | .small => Gen.bmi_small_oj2h | .mediu => Gen.bmi_mediu_oj2h | .large => Gen.bmi_large_oj2h
def callsIj2h : ZocClass → List (Nat × Nat × Nat)
  | .empty => [] | .small => Gen.bmi_small_ij2h | .mediu => Gen.bmi_mediu_ij2h | .large => Gen.bmi_large_ij2h
def callsH2ij : ZocClass → List (Nat × Nat × Nat)
  | .empty => [] | .small => Gen.bmi_small_h2ij | .mediu => Gen.bmi_mediu_h2ij | .large => Gen.bmi_large_h2ij
def shiftH2ij : ZocClass → Nat
  | .empty => 0 | .small => Gen.bmi_small_h2ij_shift | .mediu => Gen.bmi_mediu_h2ij_shift | .large => Gen.bmi_large_h2ij_shift

/-- `i02h`: `_pdep_uW(i, M)` (operand `i: u32`, zero-extended when `W = 64`) -/
def i02h (c : ZocClass) (i : Nat) : Nat :=
  match c with
  | .empty => 0
  | _ => call (nth (callsI02h c) 0) (i % 4294967296)

def oj2h (c : ZocClass) (j : Nat) : Nat :=
  match c with
  | .empty => 0
  | _ => call (nth (callsOj2h c) 0) (j % 4294967296)

def ij2h (c : ZocClass) (i j : Nat) : Nat :=
  match c with
  | .empty => 0
  | _ => call (nth (callsIj2h c) 0) (i % 4294967296) ||| call (nth (callsIj2h c) 1) (j % 4294967296)

/-- `h2ij`: `_pext_uW(h as uW, M0) | (_pext_uW(h as uW, M1) << S)` in `uW` arithmetic -/
def h2ij (c : ZocClass) (h : Nat) : Nat :=
  match c with
  | .empty => 0
  | _ => let c0 := nth (callsH2ij c) 0; let c1 := nth (callsH2ij c) 1
         call c0 (h % 2 ^ c0.2.1) ||| ((call c1 (h % 2 ^ c1.2.1) <<< shiftH2ij c) % 2 ^ c1.2.1)

end Bmi

/-! ## uniq encodings (`nested/mod.rs:81-119`) -/

/-- `u64::leading_zeros` -/
def leadingZeros64 (x : Nat) : Nat := 64 - (x % 2^64).log2 - (if x % 2^64 = 0 then 0 else 1)

/-- `to_uniq`: `none` = panic (`check_depth`) -/
def toUniq (depth hash : Nat) : Option Nat :=
  if depth > 29 then none else some (((16 <<< ((2 * depth) % 256)) % 2^64) ||| hash)

def toUniqIvoa (depth hash : Nat) : Option Nat :=
  if depth > 29 then none else some ((4 <<< ((2 * depth) % 256)) % 2^64 + hash)

/-- `from_uniq` for `uniq ≥ 16` (smaller values make `60 - leading_zeros` underflow: `none`) -/
def fromUniq (u : Nat) : Option (Nat × Nat) :=
  let lz := leadingZeros64 u
  if lz > 60 then none else
  let depth := (60 - lz) >>> 1
  some (depth % 256, u &&& ((2^64 - 1) - (16 <<< (2 * depth)) % 2^64))

def fromUniqIvoa (u : Nat) : Option (Nat × Nat) :=
  let lz := leadingZeros64 u
  if lz > 61 then none else
  let depth := (61 - lz) >>> 1
  let s := (4 <<< (2 * depth)) % 2^64
  if u < s then none else some (depth % 256, u - s)

end Hpx
