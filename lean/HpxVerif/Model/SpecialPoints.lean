/-
Model of `src/special_points_finder.rs`: `arc_special_points` and everything it calls (`arc_special_point_in_eqr`,
`arc_special_point_in_pc`, `arc_special_point_in_pc_same_quarter`, `intersect_point_pc`, `f_eqr`, `f_over_df_eqr`,
`f_npc`, `f_over_df_npc`, `intersect_small_circle`, `have_same_sign`, `intersect_with_transition_lat_npc/spc`), with the
`Vect3` / `UnitVect3` / `Coo3D` operations of `src/sph_geom/coo3d.rs` they use.  This is what
`polygon_coverage(.., exact_solution = true)` adds to the approximate mode.

Generic in `Num`; at `Float` the operation order of the Rust source is mirrored exactly (bit-exact, checked against the
crate in both profiles on 311 526 arcs through
`cdshealpix::verif_hooks::arc_special_points`).  Outer `Option`: `none` = panic (`unwrap()` on `None`, `unreachable!()`, and, when
`debug = true`, a failing `debug_assert!`).  Inner `Option` (where present) is the `Option` of the Rust signature.
Core Lean only.
-/
import HpxVerif.Model.SphGeom

namespace Hpx.SpecialPoints
open Num Sph

variable {α : Type} [Num α]

/-- `(x, y, z)` of a `Vect3` / `UnitVect3` -/
abbrev V3 (α : Type) := α × α × α

/-- `x == 0.0` (true for `-0.0`, false for NaN) -/
def eqZero (x : α) : Bool := Num.le x (Num.zero : α) && Num.le (Num.zero : α) x

def three : α := Num.ofNat 3
def four : α := Num.ofNat 4
def lit1em14 : α := Num.lit 0x3D06849B86A12B9B     -- 1e-14
def lit1em15 : α := Num.lit 0x3CD203AF9EE75616     -- 1.0e-15
def lit0p02 : α := Num.lit 0x3F947AE147AE147B      -- 0.2e-1

/-- `have_same_sign` -/
def haveSameSign (d1 d2 : α) : Bool :=
  eqZero d1 || eqZero d2 || (Num.gt d1 (Num.zero : α) == Num.gt d2 (Num.zero : α))

/-! ## `coo3d.rs` -/

def Coo.v (c : Coo α) : V3 α := (c.x, c.y, c.z)

/-- `cross_product(v1, v2)` -/
def crossV (a b : V3 α) : V3 α :=
  (a.2.1 * b.2.2 - a.2.2 * b.2.1, a.2.2 * b.1 - a.1 * b.2.2, a.1 * b.2.1 - a.2.1 * b.1)

/-- `Vec3::normalized` -/
def normalized (v : V3 α) : V3 α :=
  let norm := Num.sqrt (pow2 v.1 + pow2 v.2.1 + pow2 v.2.2)
  (v.1 / norm, v.2.1 / norm, v.2.2 / norm)

/-- `<UnitVect3 as Vec3>::new`: renormalised unless the squared norm is within `EPSILON` of 1 -/
def unitNew (x y z : α) : V3 α :=
  let n2 := pow2 x + pow2 y + pow2 z
  if Num.le (Num.abs (n2 - Num.one)) (epsilon : α) then (x, y, z)
  else
    let norm := Num.sqrt n2
    (x / norm, y / norm, z / norm)

/-- `Vec3::opposite` on a `UnitVect3` (goes through `UnitVect3::new`) -/
def opposite (v : V3 α) : V3 α := unitNew (-v.1) (-v.2.1) (-v.2.2)

/-- `Coo3D::from_vec3` / `Coo3D::from` (the `debug_assert!`s are those of `lonlat_of`) -/
def fromVec3 (debug : Bool) (v : V3 α) : Option (Coo α) :=
  (lonlatOf debug v.1 v.2.1 v.2.2).map fun ll => { x := v.1, y := v.2.1, z := v.2.2, lon := ll.1, lat := ll.2 }

/-- `p.lon().div_eucl(HALF_PI) as u8`.  `div_eucl` is `q = (lon / HALF_PI).trunc()`, replaced by `q - 1.0` when
`lon % HALF_PI < 0.0`; the saturating cast `as u8` truncates toward zero itself, so `q as u8 = (lon / HALF_PI) as u8`,
and in the other case `lon < 0`, `q - 1.0 ≤ -1.0` and the cast gives `0`. -/
def lonDivHalfPiU8 (lon : α) : Nat :=
  if Num.lt (Num.rem lon (Num.halfPi : α)) (Num.zero : α) then 0 else Num.truncU8 (lon / (Num.halfPi : α))

/-! ## Equatorial region -/

/-- `f_eqr` -/
def fEqr (z z0 w0 cte r : α) : α :=
  let w := (Num.one : α) - pow2 z
  let q := z / w
  let n := r - z * z0
  (z0 - q * n) / Num.sqrt (w0 * w - pow2 n) - cte

/-- `f_over_df_eqr` -/
def fOverDfEqr (z z0 w0 cte r : α) : α :=
  let w := (Num.one : α) - pow2 z
  let q := z / w
  let n := r - z * z0
  let sqrtD2MinusN2 := Num.sqrt (w0 * w - pow2 n)
  let qn := q * n
  let dalphadz := (z0 - qn) / sqrtD2MinusN2
  let f := dalphadz - cte
  let df := (q * ((Num.two : α) * z0 - (three : α) * qn) - n * ((Num.one : α) / w + pow2 dalphadz)) / sqrtD2MinusN2
  f / df

/-- the Newton-Raphson loop `while n_iter < n_iter_max && z_eps.abs() > z_eps_max { z_eps = step(z); z -= z_eps; … }`;
`fuel` = iterations left -/
def newton (step : α → α) (zEpsMax : α) : Nat → α → α → α
  | 0, z, _ => z
  | fuel + 1, z, zEps =>
    if Num.gt (Num.abs zEps) zEpsMax then
      let e := step z
      newton step zEpsMax fuel (z - e) e
    else z

/-- `intersect_small_circle(p1, p2, z)`; outer `none` = `unreachable!()` (or the `debug_assert!`) -/
def intersectSmallCircle (debug : Bool) (p1 p2 : Coo α) (z : α) : Option (Option (V3 α)) :=
  if debug && !(Num.le (-(Num.one : α)) z && Num.le z (Num.one : α)) then none
  else if (Num.lt p1.z z && Num.lt z p2.z) || (Num.lt p2.z z && Num.lt z p1.z) then
    let p1DotP2 := dotCC p1 p2
    let n := normalized (crossV (Coo.v p1) (Coo.v p2))
    let x0 := n.1
    let y0 := n.2.1
    let z0 := n.2.2
    if Num.le (Num.abs y0) (lit1em14 : α) then
      let x := (-(z * z0)) / x0
      let y1 := Num.sqrt ((Num.one : α) - (pow2 x + pow2 z))
      let y2 := -y1
      if Num.ge (dot p1 (x, y1, z)) p1DotP2 && Num.ge (dot p2 (x, y1, z)) p1DotP2 then some (some (x, y1, z))
      else if Num.ge (dot p1 (x, y2, z)) p1DotP2 && Num.ge (dot p2 (x, y2, z)) p1DotP2 then some (some (x, y2, z))
      else none
    else
      let x0y0 := x0 / y0
      let zz0y0 := z * z0 / y0
      let a := (Num.one : α) + pow2 x0y0
      let b := (Num.two : α) * x0y0 * zz0y0
      let c := pow2 zz0y0 + pow2 z - (Num.one : α)
      let sqrtDelta := Num.sqrt (pow2 b - (four : α) * a * c)
      let x1 := ((-b) + sqrtDelta) / ((Num.two : α) * a)
      let y1 := (-x1) * x0y0 - zz0y0
      let x2 := ((-b) - sqrtDelta) / ((Num.two : α) * a)
      let y2 := (-x2) * x0y0 - zz0y0
      if Num.ge (dot p1 (x1, y1, z)) p1DotP2 && Num.ge (dot p2 (x1, y1, z)) p1DotP2 then some (some (x1, y1, z))
      else if Num.ge (dot p1 (x2, y2, z)) p1DotP2 && Num.ge (dot p2 (x2, y2, z)) p1DotP2 then some (some (x2, y2, z))
      else none
  else some none

/-- `intersect_small_circle(..).unwrap()` -/
def intersectSmallCircleUnwrap (debug : Bool) (p1 p2 : Coo α) (z : α) : Option (V3 α) :=
  match intersectSmallCircle debug p1 p2 z with
  | some (some v) => some v
  | _ => none

/-- `-ONE_OVER_TRANSITION_Z * PI_OVER_FOUR` / `ONE_OVER_TRANSITION_Z * PI_OVER_FOUR` -/
def cteEqr (northPoint : Bool) : α :=
  if northPoint then (-(Num.oneOverTransitionZ : α)) * (Num.piOverFour : α)
  else (Num.oneOverTransitionZ : α) * (Num.piOverFour : α)

/-- `arc_special_point_in_eqr` -/
def arcSpecialPointInEqr (debug : Bool) (p1 p2 : Coo α) (zEpsMax : α) (nIterMax : Nat) : Option (Option (α × α)) :=
  let coneCenter := normalized (crossV (Coo.v p1) (Coo.v p2))
  let z0 := coneCenter.2.2
  let z1 := p1.z
  let z2 := p2.z
  let northPoint := Num.lt z0 (Num.zero : α)
  let cte : α := cteEqr northPoint
  let w0 := (Num.one : α) - pow2 z0
  let d1 := fEqr z1 z0 w0 cte (Num.zero : α)
  let d2 := fEqr z2 z0 w0 cte (Num.zero : α)
  if haveSameSign d1 d2 then some none
  else
    let zEpsMax' := Num.fmax (Num.fmin zEpsMax ((lit0p02 : α) * Num.abs (z2 - z1))) (lit1em15 : α)
    let zInit := (Num.half : α) * (z1 + z2)
    let z := newton (fun z => fOverDfEqr z z0 w0 cte (Num.zero : α)) zEpsMax' nIterMax zInit (Num.one : α)
    if debug && !((Num.le z1 z2 && Num.le z1 z && Num.le z z2) || (Num.lt z2 z1 && Num.le z2 z && Num.le z z1)) then none
    else if Num.lt (Num.abs z) (Num.transitionZ : α) then
      (intersectSmallCircleUnwrap debug p1 p2 z).map fun v => some (unitLonLat v)
    else some none

/-! ## Polar caps -/

/-- the value `f` common to `f_npc` and `f_over_df_npc`, with `dalphadz`, `q`, `qn`, `n`, `w`, `w2`, `sqrt(d2 - n²)` -/
structure NpcTerms (α : Type) where
  w : α
  w2 : α
  q : α
  n : α
  sqrtD2MinusN2 : α
  qn : α
  dalphadz : α
  f : α

def npcTerms (z lonModHalfPi z0 w0 cte direction r : α) : NpcTerms α :=
  let w := (Num.one : α) - z
  let w2 := (Num.one : α) - pow2 z
  let q := z / w2
  let n := r - z * z0
  let d2 := w0 * w2
  let sqrtD2MinusN2 := Num.sqrt (d2 - pow2 n)
  let qn := q * n
  let arccos := Num.acos (n / Num.sqrt d2)
  let dalphadz := (z0 - qn) / sqrtD2MinusN2
  let f := direction * w * dalphadz
    - (Num.half : α) * (direction * arccos + lonModHalfPi - (Num.piOverFour : α)) + cte
  { w, w2, q, n, sqrtD2MinusN2, qn, dalphadz, f }

/-- `f_npc` -/
def fNpc (z lonModHalfPi z0 w0 cte direction r : α) : α :=
  (npcTerms z lonModHalfPi z0 w0 cte direction r).f

/-- `f_over_df_npc` -/
def fOverDfNpc (z lonModHalfPi z0 w0 cte direction r : α) : α :=
  let t := npcTerms z lonModHalfPi z0 w0 cte direction r
  let df := (-(Num.oneOverTransitionZ : α)) * direction * t.dalphadz
    + (direction * t.w / t.sqrtD2MinusN2)
      * (t.q * ((Num.two : α) * z0 - (three : α) * t.qn) - t.n * ((Num.one : α) / t.w2 + pow2 t.dalphadz))
  t.f / df

/-- `(z1 < z && z < z2) || (z2 < z && z < z1)` -/
def strictlyBetween (z1 z2 z : α) : Bool := (Num.lt z1 z && Num.lt z z2) || (Num.lt z2 z && Num.lt z z1)

/-- `arc_special_point_in_pc_same_quarter` -/
def arcSpecialPointInPcSameQuarter (debug : Bool) (p1 p2 : Coo α) (zEpsMax : α) (nIterMax : Nat) :
    Option (Option (α × α)) :=
  -- since the repairs of F16: `debug_assert!(p1.lon() <= p2.lon() || p2.lon() == 0.0)` (an arc may follow a meridian; lon = 0 stands for 2π)
  if debug && !(Num.le p1.lon p2.lon || eqZero p2.lon) then none else
  let p2Mod0 := Num.rem p2.lon (Num.halfPi : α)
  let p2Mod := if eqZero p2Mod0 then (Num.halfPi : α) else p2Mod0
  match fromSphCoo debug (Num.rem p1.lon (Num.halfPi : α)) p1.lat, fromSphCoo debug p2Mod p2.lat with
  | some v1, some v2 =>
    let cc0 := normalized (crossV (Coo.v v1) (Coo.v v2))
    let coneCenter := if Num.gt (unitLonLat cc0).1 (Num.pi : α) then opposite cc0 else cc0
    let coneCenterLon := (unitLonLat coneCenter).1
    let z0a := coneCenter.2.2
    let z1a := v1.z
    let z2a := v2.z
    let northValue0 := Num.lt z0a (Num.zero : α)
    let eastValue := xor (xor (Num.gt v1.lat v2.lat) (Num.gt v1.lon v2.lon)) (!northValue0)
    let za := (Num.half : α) * (z1a + z2a)
    let spc := Num.lt za (Num.zero : α)
    let z := if spc then -za else za
    let z1 := if spc then -z1a else z1a
    let z2 := if spc then -z2a else z2a
    let z0 := if spc then -z0a else z0a
    let northValue := if spc then !northValue0 else northValue0
    let cte : α := if northValue then -((Num.half : α) * (Num.piOverFour : α)) else (Num.half : α) * (Num.piOverFour : α)
    let w0 := (Num.one : α) - pow2 z0
    let direction : α := if eastValue then Num.one else -(Num.one : α)
    let d1 := fNpc z1 coneCenterLon z0 w0 cte direction (Num.zero : α)
    let d2 := fNpc z2 coneCenterLon z0 w0 cte direction (Num.zero : α)
    if haveSameSign d1 d2 then some none
    else
      let step := fun z => fOverDfNpc z coneCenterLon z0 w0 cte direction (Num.zero : α)
      let zA := z - step z
      let zB :=
        if !strictlyBetween z1 z2 zA then
          let zB0 := z2 - step z2
          if !strictlyBetween z1 z2 zB0 then z1 - step z1 else zB0
        else zA
      let zEpsMax' := Num.fmax (Num.fmin zEpsMax ((lit0p02 : α) * Num.abs (z2 - z1))) (lit1em15 : α)
      let zF := newton step zEpsMax' nIterMax zB (Num.one : α)
      if isFinite zF && Num.gt zF (Num.transitionZ : α) && strictlyBetween z1 z2 zF then
        (intersectSmallCircleUnwrap debug p1 p2 (if spc then -zF else zF)).map fun v => some (unitLonLat v)
      else some none
  | _, _ => none

/-- `intersect_point_pc` -/
def intersectPointPc (debug : Bool) (p1 p2 : Coo α) (p1xp2 : V3 α) (n : Coo α) : Option (V3 α) :=
  if debug && !(Num.ge (Num.abs p1.z) (Num.transitionZ : α) && Num.ge (Num.abs p2.z) (Num.transitionZ : α)) then none
  else if debug && !(Num.gt p1.z (Num.zero : α) == Num.gt p2.z (Num.zero : α)) then none
  else
    let intersect := normalized (crossV p1xp2 (Coo.v n))
    if !haveSameSign intersect.2.2 p1.z then some (opposite intersect) else some intersect

/-- `Coo3D::from_vec3(a as f64, b as f64, 0.0)` -/
def axisCoo (debug : Bool) (a b : Nat) : Option (Coo α) := fromVec3 debug ((Num.ofNat a : α), (Num.ofNat b : α), (Num.zero : α))

/-- `arc_special_point_in_pc` -/
def arcSpecialPointInPc (debug : Bool) (p1' p2' : Coo α) (zEpsMax : α) (nIterMax : Nat) : Option (Option (α × α)) :=
  let sw := Num.gt p1'.lon p2'.lon
  let p1 := if sw then p2' else p1'
  let p2 := if sw then p1' else p2'
  let m1 := Num.rem p1.lon (Num.halfPi : α)
  let m2 := Num.rem p2.lon (Num.halfPi : α)
  let q1 := lonDivHalfPiU8 p1.lon
  let q2 := lonDivHalfPiU8 p2.lon
  if debug && !(Num.ge m1 (Num.zero : α) && Num.ge m2 (Num.zero : α) && q1 < 4 && q2 < 4 && q1 ≤ q2) then none
  else if q1 != q2 then
    if Num.gt (p2.lon - p1.lon) (Num.pi : α) then
      -- crosses lon = 0
      let p2p1n := normalized (crossV (Coo.v p2) (Coo.v p1))
      let resZ2 : Option (Option (α × α)) :=
        if Num.gt m2 (Num.zero : α) then
          if debug && !(q2 > 0) then none else
          let n2y := q2 % 2
          match axisCoo (α := α) debug (n2y ^^^ 1) n2y with
          | none => none
          | some n2 =>
            match (intersectPointPc debug p1 p2 p2p1n n2).bind (fromVec3 debug) with
            | none => none
            | some intersect2 =>
              if debug && !(Num.lt p2.lon intersect2.lon || eqZero intersect2.lon) then none
              else arcSpecialPointInPcSameQuarter debug p2 intersect2 zEpsMax nIterMax
        else some none
      match resZ2 with
      | none => none
      | some resZ2 =>
        -- `if p1.lon() % HALF_PI > 0.0` (second repair): p1 on the bound of its quarter = empty part
        if !(Num.gt m1 (Num.zero : α)) then some resZ2 else
        if debug && !(q1 < 3) then none else
        -- since the repair of F16: the plane of the LOWER bound of the quarter of p1 (as in the last-quarter code of the
        -- non-crossing branch), and the sub-arc is [intersect1, p1]
        let n1x := q1 % 2
        match axisCoo (α := α) debug n1x (n1x ^^^ 1) with
        | none => none
        | some n1 =>
          match (intersectPointPc debug p1 p2 p2p1n n1).bind (fromVec3 debug) with
          | none => none
          | some intersect1 =>
            if debug && !(Num.lt intersect1.lon p1.lon) then none
            else
              match arcSpecialPointInPcSameQuarter debug intersect1 p1 zEpsMax nIterMax with
              | none => none
              | some resZ1 => some (if resZ1.isSome then resZ1 else resZ2)
    else
      let p1p2n := normalized (crossV (Coo.v p1) (Coo.v p2))
      let resZ1 : Option (Option (α × α)) :=
        if Num.gt m1 (Num.zero : α) then
          if debug && !(q1 < 3) then none else
          let n1y := q1 % 2
          match axisCoo (α := α) debug (n1y ^^^ 1) n1y with
          | none => none
          | some n1 =>
            match (intersectPointPc debug p1 p2 p1p2n n1).bind (fromVec3 debug) with
            | none => none
            | some intersect1 =>
              if debug && !(Num.lt p1.lon intersect1.lon) then none
              else arcSpecialPointInPcSameQuarter debug p1 intersect1 zEpsMax nIterMax
        else some none
      match resZ1 with
      | none => none
      | some resZ1 =>
        -- `if p2.lon() % HALF_PI > 0.0` (second repair): p2 on the bound of its quarter = empty part
        if !(Num.gt m2 (Num.zero : α)) then some resZ1 else
        if debug && !(q2 > 0) then none else
        let n2x := q2 % 2
        match axisCoo (α := α) debug n2x (n2x ^^^ 1) with
        | none => none
        | some n2 =>
          match (intersectPointPc debug p1 p2 p1p2n n2).bind (fromVec3 debug) with
          | none => none
          | some intersect2 =>
            if debug && !(Num.lt intersect2.lon p2.lon) then none
            else
              match arcSpecialPointInPcSameQuarter debug intersect2 p2 zEpsMax nIterMax with
              | none => none
              | some resZ2 => some (if resZ1.isSome then resZ1 else resZ2)
  else arcSpecialPointInPcSameQuarter debug p1 p2 zEpsMax nIterMax

/-! ## `arc_special_points` -/

/-- `Some(lonlat) => push` -/
def optToList (o : Option (α × α)) : List (α × α) :=
  match o with
  | some ll => [ll]
  | none => []

/-- `Coo3D::from(intersect_with_transition_lat_npc(p1, p2).unwrap())` (`south = false`) / `.._spc` (`south = true`) -/
def transitionCoo (debug : Bool) (south : Bool) (p1 p2 : Coo α) : Option (Coo α) :=
  (intersectSmallCircleUnwrap debug p1 p2 (if south then -(Num.transitionZ : α) else (Num.transitionZ : α))).bind
    (fromVec3 debug)

/-- `arc_special_points(p1, p2, z_eps_max, n_iter_max)`: the `(lon, lat)` of the special points, in the order of the
Rust result; `none` = panic -/
def arcSpecialPoints (debug : Bool) (p1' p2' : Coo α) (zEpsMax : α) (nIterMax : Nat) : Option (List (α × α)) :=
  let sw := Num.gt p1'.z p2'.z
  let p1 := if sw then p2' else p1'
  let p2 := if sw then p1' else p2'
  let tz : α := Num.transitionZ
  if Num.le tz p1.z || Num.le p2.z (-tz) then
    (arcSpecialPointInPc debug p1 p2 zEpsMax nIterMax).map optToList
  else if Num.le (-tz) p1.z && Num.le p2.z tz then
    (arcSpecialPointInEqr debug p1 p2 zEpsMax nIterMax).map optToList
  else if Num.lt p1.z (-tz) then
    match transitionCoo debug true p1 p2 with
    | none => none
    | some vS =>
      match arcSpecialPointInPc debug p1 vS zEpsMax nIterMax with
      | none => none
      | some r1 =>
        if Num.le p2.z tz then
          (arcSpecialPointInEqr debug vS p2 zEpsMax nIterMax).map fun r2 => optToList r1 ++ optToList r2
        else
          match transitionCoo debug false p1 p2 with
          | none => none
          | some vN =>
            match arcSpecialPointInEqr debug vS vN zEpsMax nIterMax with
            | none => none
            | some r2 =>
              (arcSpecialPointInPc debug vN p2 zEpsMax nIterMax).map fun r3 =>
                optToList r1 ++ optToList r2 ++ optToList r3
  else
    match transitionCoo debug false p1 p2 with
    | none => none
    | some vN =>
      match arcSpecialPointInEqr debug p1 vN zEpsMax nIterMax with
      | none => none
      | some r1 =>
        (arcSpecialPointInPc debug vN p2 zEpsMax nIterMax).map fun r2 => optToList r1 ++ optToList r2

end Hpx.SpecialPoints
