/-
Model of the projection code of `src/lib.rs` (`proj`, `unproj`, `base_cell_from_proj_coo` and helpers), generic in
the numeric interface.  `none` = panic.
-/
import HpxVerif.Model.Num
import HpxVerif.Model.Layer

namespace Hpx.Proj
open Num

variable {α : Type} [Num α]

/-- `check_lat`: `assert!(-HALF_PI <= lat && lat <= HALF_PI)` (false for NaN) -/
def checkLat (lat : α) : Bool := Num.le (-(Num.halfPi : α)) lat && Num.le lat Num.halfPi

def checkY (y : α) : Bool := Num.le (-(Num.two : α)) y && Num.le y Num.two

def ensuresXIsPositive (x : α) : α := if Num.lt x (Num.zero : α) then x + Num.ofNat 8 else x

/-- `pm1_offset_decompose`: `(offset ∈ {1,3,5,7}, pm1)` -/
def pm1OffsetDecompose (x : α) : Nat × α :=
  let floor := Num.truncU8 x
  let oddFloor := floor ||| 1
  (oddFloor &&& 7, x - Num.ofNat oddFloor)

def isInEquatorialRegion (absLat : α) : Bool := Num.le absLat Num.transitionLat

/-- `proj_cea` -/
def projCea (xy : α × α) : α × α := (xy.1, Num.sin xy.2 * Num.oneOverTransitionZ)

/-- `proj_collignon` -/
def projCollignon (xy : α × α) : α × α :=
  let y := (Num.sqrt6 : α) * Num.cos (Num.half * xy.2 + Num.piOverFour)
  (xy.1 * y, Num.two - y)

/-- `apply_offset_and_signs` -/
def applyOffsetAndSigns (ab : α × α) (off : Nat) (aSign bSign : Bool) : α × α :=
  (Num.orSign (ab.1 + Num.ofNat off) aSign, Num.orSign ab.2 bSign)

/-- `proj(lon, lat)` -/
def proj (lon lat : α) : Option (α × α) :=
  if !checkLat lat then none else
  let lonAbs := Num.abs lon; let lonSign := Num.signBit lon
  let latAbs := Num.abs lat; let latSign := Num.signBit lat
  let (off, pm1) := pm1OffsetDecompose (lonAbs * Num.fourOverPi)
  let xy := if isInEquatorialRegion latAbs then projCea (pm1, latAbs) else projCollignon (pm1, latAbs)
  some (applyOffsetAndSigns xy off lonSign latSign)

def deprojCea (ll : α × α) : α × α := (ll.1, Num.asin (ll.2 * Num.transitionZ))

def deprojCollignon (ll : α × α) : α × α :=
  let lat := (Num.two : α) - ll.2
  let lon :=
    if Num.gt lat (Num.epsPole : α) then
      let l := ll.1 / lat
      if Num.gt l (Num.one : α) then Num.one else if Num.lt l (-(Num.one : α)) then -Num.one else l
    else ll.1
  let lat := lat * Num.oneOverSqrt6
  (lon, Num.two * Num.acos lat - Num.halfPi)

/-- `unproj(x, y)` -/
def unproj (x y : α) : Option (α × α) :=
  if !checkY y then none else
  let xAbs := Num.abs x; let xSign := Num.signBit x
  let yAbs := Num.abs y; let ySign := Num.signBit y
  let (off, pm1) := pm1OffsetDecompose xAbs
  let ll := if Num.le yAbs (Num.one : α) then deprojCea (pm1, yAbs) else deprojCollignon (pm1, yAbs)
  let r := applyOffsetAndSigns ll off xSign ySign
  some (r.1 * Num.piOverFour, r.2)

/-- the integer tail of `base_cell_from_proj_coo` (`u8` arithmetic) -/
def baseCellFinish (i j inNW inSE : Nat) : Nat :=
  let i := (i + (inSE >>> inNW)) % 256
  let j := (j + inNW + inSE) % 256
  let j := if j > 4 then 4 else if j < 2 then 2 else j
  ((4 - j) <<< 2) + (i &&& 3)

/-- `base_cell_from_proj_coo`; `debug` turns the `debug_assert!`s into panics -/
def baseCellFromProjCoo (debug : Bool) (x y : α) : Option Nat :=
  let x0 := Num.half * ensuresXIsPositive x
  let y0 := Num.half * (y + Num.ofNat 3)
  let i := Num.truncU8 x0
  if debug && !(i ≤ 4) then none else
  -- `(y as u8) << 1` in u8 arithmetic (debug: overflow of the shift does not panic, bits are dropped)
  let j := ((Num.truncU8 y0) <<< 1) % 256
  if debug && !(j == 0 || j == 2 || j == 4) then none else
  let x1 := x0 - Num.ofNat i
  if debug && !(Num.le (Num.zero : α) x1 && Num.lt x1 (Num.one : α)) then none else
  let y1 := y0 - Num.ofNat (j >>> 1)
  if debug && !(Num.le (Num.zero : α) y1 && Num.lt y1 (Num.one : α)) then none else
  let inNW : Nat := if Num.le x1 y1 then 1 else 0
  let inSE : Nat := if Num.ge x1 ((Num.one : α) - y1) then 1 else 0
  some (baseCellFinish i j inNW inSE)

end Hpx.Proj
