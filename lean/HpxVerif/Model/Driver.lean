/-
Line-protocol driver: one request per line in, one canonical answer per line out.
Imports the model only (core Lean), so it links as a `lean_exe`.
-/
import HpxVerif.Model.Bits
import HpxVerif.Model.Bmoc
import HpxVerif.Model.Layer
import HpxVerif.Model.Topo
import HpxVerif.Gen.Consts
import HpxVerif.Model.Hash
import HpxVerif.Model.Bilinear
import HpxVerif.Model.C2V
import HpxVerif.Model.Once
import HpxVerif.Model.OnceProg
import HpxVerif.Model.Ring
import HpxVerif.Model.Cover
import HpxVerif.Model.SphGeom
import HpxVerif.Model.PolyExact

namespace Hpx.Driver

structure St where
  debug : Bool := true
  bmi : Bool := false

def St.cfg (st : St) : Cfg := { debug := st.debug, bmi := st.bmi }

def optNat : Option Nat → String
  | some n => toString n
  | none => "panic"

def optPair : Option (Nat × Nat) → String
  | some (a, b) => s!"{a} {b}"
  | none => "panic"

def nat! (s : String) : Nat := s.toNat?.getD 0

/-- all tokens after the op are decimal naturals (or a leading `-` for negative integers where an op says so) -/
def zocOp (st : St) (depth : Nat) (op : String) (args : List Nat) : String :=
  let cls := if st.bmi then getZocBmi depth else getZoc depth
  match cls with
  | none => "panic"
  | some c =>
    match op, args with
    | "ij2h", [i, j] => toString (if st.bmi then Bmi.ij2h c i j else Lut.ij2h c i j)
    | "i02h", [i] => toString (if st.bmi then Bmi.i02h c i else Lut.i02h c i)
    | "oj2h", [j] => toString (if st.bmi then Bmi.oj2h c j else Lut.oj2h c j)
    | "h2ij", [h] => toString (if st.bmi then Bmi.h2ij c h else Lut.h2ij c h)
    | "ij2i", [ij] => toString (Lut.ij2i c ij)
    | "ij2j", [ij] => toString (Lut.ij2j c ij)
    | _, _ => "bad-op"

/-- parse `dmax n e1 … en` from a token list; returns the BMOC and the remaining tokens -/
def parseBmoc (toks : List Nat) : Option (Bmoc.BMOC × List Nat) :=
  match toks with
  | dmax :: n :: rest => if rest.length < n then none else some ({ dmax := dmax, entries := rest.take n }, rest.drop n)
  | _ => none

def bmocLine (b : Bmoc.BMOC) : String :=
  b.entries.foldl (fun acc e => acc ++ " " ++ toString e) s!"{b.dmax} {b.entries.length}"

def optBmocLine : Option Bmoc.BMOC → String
  | some b => bmocLine b
  | none => "panic"

def bmocOp (op : String) (toks : List Nat) : String :=
  match parseBmoc toks with
  | none => "bad-op"
  | some (a, rest) =>
    match op with
    | "not" => bmocLine a.not
    | _ =>
      match parseBmoc rest with
      | none => "bad-op"
      | some (b, _) =>
        match op with
        | "and" => bmocLine (a.and b)
        | "or" => optBmocLine (a.or b)
        | "xor" => optBmocLine (a.xor b)
        | _ => "bad-op"

def fixedOp (toks : List Nat) : String :=
  match toks with
  | depth :: full :: cap :: n :: hs =>
    if hs.length != n then "bad-op" else
    let rec go (s : Bmoc.FixedBuilder) : List Nat → Option Bmoc.FixedBuilder
      | [] => some s
      | h :: rest =>
        -- `len == capacity` after the push (capacity = cap exactly for `Vec<u64>::with_capacity(cap)`, cap ≥ 1)
        let willPush := match s.buffer.getLast? with | some l => l != h | none => true
        let drainNow := willPush && s.buffer.length + 1 == cap
        match s.push h drainNow with
        | none => none
        | some s' => go s' rest
    match go (Bmoc.FixedBuilder.init depth (full == 1)) hs with
    | none => "panic"
    | some s =>
      match s.toBmoc with
      | none => "panic"
      | some none => "none"
      | some (some b) => bmocLine b
  | _ => "bad-op"

def viewsOp (toks : List Nat) : String :=
  match parseBmoc toks with
  | none => "bad-op"
  | some (b, _) =>
    let deep := Bmoc.deepSize b
    let ranges := (Bmoc.toRanges b).foldl (fun acc r => acc ++ s!"{r.1}-{r.2},") ""
    let it := b.cells.foldl (fun acc c => acc ++ s!"{c.depth}/{c.hash}/{if c.full then 1 else 0},") ""
    let tail :=
      if deep ≤ 3000 then
        let flat := (Bmoc.flatIter b).foldl (fun acc h => acc ++ s!"{h},") ""
        let cells := (Bmoc.flatIterCell b).foldl (fun acc c => acc ++ s!"{c.1}/{c.2.1}/{if c.2.2 then 1 else 0},") ""
        s!" flat={flat} cells={cells}"
      else " flat=skipped cells=skipped"
    s!"deep={deep} ranges={ranges} iter={it}{tail}"

def listLine (l : List Nat) : String :=
  if l.isEmpty then "-" else " ".intercalate (l.map toString)

def optListLine : Option (List Nat) → String
  | some l => listLine l
  | none => "panic"

def mapLine (l : List (MW × Nat)) : String :=
  if l.isEmpty then "-" else l.foldl (fun acc e => acc ++ s!"{e.1.index}:{e.2},") ""

def topoOp (st : St) (op : String) (a : List Nat) : String :=
  let cfg := st.cfg
  match op, a with
  | "neigh", [d, h, inc] => match Topo.neighbours cfg d h (inc == 1) with | some l => mapLine l | none => "panic"
  | "neighbour", [d, h, k] =>
    match MW.ofIndex k with
    | none => "bad-op"
    | some w => match Topo.neighbour cfg d h w with | none => "panic" | some none => "none" | some (some x) => toString x
  | "iedge", [h, dd] => optListLine (Topo.internalEdge cfg h dd)
  | "iedge_top", [d, h, dd] =>
    -- `assert!(depth + delta_depth < DEPTH_MAX)` in u8 arithmetic
    optListLine (Topo.internalEdgeTop cfg Gen.cDepthMax d h dd)
  | "iedges", [h, dd] => optListLine (Topo.internalEdgeSorted cfg h dd)
  | "iedges_top", [d, h, dd] =>
    optListLine (Topo.internalEdgeSortedTop cfg Gen.cDepthMax d h dd)
  | "icorner", [h, dd, k] => match MW.ofIndex k with | some w => optNat (Topo.internalCorner cfg h dd w) | none => "bad-op"
  | "ipart", [h, dd, k] => match MW.ofIndex k with | some w => optListLine (Topo.internalEdgePart cfg h dd w) | none => "bad-op"
  | "eedge", [d, h, dd, s] => optListLine (Topo.externalEdge cfg d h dd (s == 1))
  | "estruct", [d, h, dd] =>
    match Topo.externalEdgeStruct cfg d h dd with
    | none => "panic"
    | some parts =>
      let sorted := MW.all.filterMap fun w => parts.find? (·.1 == w)
      if sorted.isEmpty then "-" else
      " ".intercalate (sorted.map fun p => s!"{p.1.index}:[{listLine p.2}]")
  | _, _ => "bad-op"

def fl (s : String) : Float := F.ofBitsNat (nat! s)
def fb (x : Float) : String := toString (F.bits x)
def optPairF : Option (Float × Float) → String
  | some (a, b) => s!"{fb a} {fb b}"
  | none => "panic"
def optListF : Option (List (Float × Float)) → String
  | some l => if l.isEmpty then "-" else " ".intercalate (l.map fun p => s!"{fb p.1} {fb p.2}")
  | none => "panic"

def onceOp (n : Nat) (sched : List Nat) : String :=
  let code : Once.PC → String
    | .start => "S" | .entered => "E" | .written => "W" | .after => "A" | .done true => "D" | .done false => "U"
  let rec go (s : Once.St) (l : List Nat) (acc : String) : Once.St × String :=
    match l with
    | [] => (s, acc)
    | t :: ts =>
      if t ≥ n then go s ts acc else
      match Once.step s t with
      | none => go s ts (acc ++ "x ")
      | some s' => go s' ts (acc ++ s!"{code (s'.pc t)}:{s'.cons} ")
  let (s1, obs) := go Once.init sched ""
  -- drain: let every thread finish
  let rec drain (fuel : Nat) (s : Once.St) : Once.St :=
    match fuel with
    | 0 => s
    | fuel + 1 =>
      match (List.range n).find? (fun t => (Once.step s t).isSome) with
      | none => s
      | some t => match Once.step s t with | some s' => drain fuel s' | none => s
  let s2 := drain (6 * n + 6) s1
  let allDone := (List.range n).all fun t => s2.pc t == Once.PC.done true
  obs ++ s!"| final cons={s2.cons} all-returned-same-object={if allDone then 1 else 0}"

def flPairs : List String → List (Float × Float)
  | a :: b :: t => (fl a, fl b) :: flPairs t
  | _ => []

def stepRest (st : St) (toks : List String) : St × String :=
  match toks with
  | "polygon" :: d :: _n :: rest =>
    (st, optBmocLine (Sph.polygonCoverageApprox st.cfg (nat! d) (flPairs rest)))
  | "polygonx" :: d :: _n :: rest =>
    (st, optBmocLine (Sph.polygonCoverage st.cfg (nat! d) (flPairs rest) true))
  | ["asp", lon1, lat1, lon2, lat2, eps, nit] =>
    (st, match Sph.fromSphCoo st.debug (fl lon1) (fl lat1), Sph.fromSphCoo st.debug (fl lon2) (fl lat2) with
      | some p1, some p2 =>
        (match SpecialPoints.arcSpecialPoints st.debug p1 p2 (fl eps) (nat! nit) with
         | none => "panic"
         | some l => if l.isEmpty then "-" else " ".intercalate (l.map fun p => s!"{fb p.1} {fb p.2}"))
      | _, _ => "panic")
  | "bcone" :: _n :: rest =>
    (st, match Sph.Polygon.new st.debug (flPairs rest) with
      | none => "panic"
      | some poly =>
        match Sph.boundingCone poly.vertices with
        | none => "panic"
        | some (c, r) => let ll := Sph.unitLonLat c; s!"{fb ll.1} {fb ll.2} {fb r}")
  | "polycontains" :: lon :: lat :: _n :: rest =>
    (st, match Sph.Polygon.new st.debug (flPairs rest), Sph.fromSphCoo st.debug (fl lon) (fl lat) with
      | some poly, some c => if poly.contains c then "1" else "0"
      | _, _ => "panic")
  | ["ellipse", d, dd, lon, lat, a, b, pa] =>
    (st, optBmocLine (Sph.ellipticalConeCoverageCustom st.cfg (nat! d) (nat! dd) (fl lon) (fl lat) (fl a) (fl b) (fl pa)))
  | ["cone", d, dd, lon, lat, r] =>
    (st, optBmocLine (Cover.coneCoverageApproxCustom st.cfg (nat! d) (nat! dd) (fl lon) (fl lat) (fl r)))
  | ["rhash", n, lon, lat] => (st, optNat (Ring.hash st.debug (nat! n) (fl lon) (fl lat)))
  | ["rhashdxdy", n, lon, lat] =>
    (st, match Ring.hashWithDxDy st.debug (nat! n) (fl lon) (fl lat) with
      | some (h, dx, dy) => s!"{h} {fb dx} {fb dy}"
      | none => "panic")
  | ["rcenter", n, h] => (st, optPairF (Ring.center st.debug (nat! n) (nat! h)))
  | ["rcpc", n, h] => (st, optPairF (Ring.centerOfProjectedCell st.debug (nat! n) (nat! h)))
  | ["rvertices", n, h] => (st, optListF (Ring.vertices st.debug (nat! n) (nat! h)))
  | ["rsphcoo", n, h, dx, dy] => (st, optPairF (Ring.sphCoo st.debug (nat! n) (nat! h) (fl dx) (fl dy)))
  | "once" :: n :: sched => (st, onceOp (nat! n) (sched.map nat!))
  | ["onceprog"] => (st, OnceProg.report)
  | ["c2v", d, lon, lat] => (st, match C2V.largestC2V st.debug (nat! d) (fl lon) (fl lat) with | some v => fb v | none => "panic")
  | ["c2vr", d, lon, lat, r] => (st, match C2V.largestC2VWithRadius st.debug (nat! d) (fl lon) (fl lat) (fl r) with | some v => fb v | none => "panic")
  | ["c2vs", f, t, lon, lat, r] =>
    (st, match C2V.largestC2VsWithRadius st.debug (nat! f) (nat! t) (fl lon) (fl lat) (fl r) with
      | some l => if l.isEmpty then "-" else " ".intercalate (l.map fb)
      | none => "panic")
  | ["bsd", r] => (st, optNat (C2V.bestStartingDepth (fl r)))
  | ["hasbsd", r] => (st, if C2V.hasBestStartingDepth (fl r) then "1" else "0")
  | ["bsdthreshold", d] => (st, fb (C2V.table (α := Float) (nat! d)))
  | ["center", d, h] => (st, optPairF (Hash.center st.cfg (nat! d) (nat! h)))
  | ["cpc", d, h] => (st, optPairF (Hash.centerOfProjectedCell st.cfg (nat! d) (nat! h)))
  | ["vertices", d, h] => (st, optListF (Hash.vertices st.cfg (nat! d) (nat! h)))
  | ["vertex", d, h, k] => (st, optPairF (Hash.vertex st.cfg (nat! d) (nat! h) (nat! k)))
  | ["vmap", d, h, mask] =>
    (st, match Hash.verticesMap (α := Float) st.cfg (nat! d) (nat! h) (nat! mask) with
      | some l => " ; ".intercalate (l.map fun o => match o with | some p => s!"{fb p.1} {fb p.2}" | none => "-")
      | none => "panic")
  | ["sphcoo", d, h, dx, dy] => (st, optPairF (Hash.sphCoo st.cfg (nat! d) (nat! h) (fl dx) (fl dy)))
  | ["hashdxdy", d, lon, lat] =>
    (st, match Hash.hashWithDxDy st.cfg (nat! d) (fl lon) (fl lat) with
      | some (h, dx, dy) => s!"{h} {fb dx} {fb dy}"
      | none => "panic")
  | ["pathedge", d, h, start, cw, n] => (st, optListF (Hash.pathAlongCellEdge st.cfg (nat! d) (nat! h) (nat! start) (nat! cw == 1) (nat! n)))
  | ["pathside", d, h, f, t, incl, n] => (st, optListF (Hash.pathAlongCellSide st.cfg (nat! d) (nat! h) (nat! f) (nat! t) (nat! incl == 1) (nat! n)))
  | ["grid", d, h, n] => (st, optListF (Hash.grid st.cfg (nat! d) (nat! h) (nat! n)))
  | ["bilinear", d, lon, lat] =>
    (st, match Bilinear.bilinear st.cfg (nat! d) (fl lon) (fl lat) with
      | some l => " ".intercalate (l.map fun p => s!"{p.1} {fb p.2}")
      | none => "panic")
  | ["hash", d, lon, lat] => (st, optNat (Hash.hashV2 st.cfg (nat! d) (fl lon) (fl lat)))
  | ["hashhyp", lon, lat] =>
    -- the hypotheses of `C02.hash_prefix` evaluated on this position (the front end is private in the crate; the
    -- model reproduces it bit for bit)
    let lo := fl lon; let la := fl lat
    if !Proj.checkLat la then (st, "ok") else
    let f := Hash.d0hLhInD0c lo la
    let u := F.bits (f.2.2 + f.2.1); let v := F.bits (f.2.2 - f.2.1)
    let small (b : Nat) : Bool := F64.sgnF b == 1 || (F64.expF b == 2047 && F64.manF b != 0) || (F64.sgnF b == 0 && F64.expF b ≤ 1025)
    let okI := F64.truncU 32 (F64.expAdd u 28) ≤ 2 ^ 29
    let okJ := F64.truncU 32 (F64.expAdd v 28) ≤ 2 ^ 29
    -- `-0.0` at depth 0 would saturate the cast (see DESIGN C01)
    let negZero := u == 2 ^ 63 || v == 2 ^ 63
    (st, if small u && small v && okI && okJ && !negZero then "ok" else s!"hypothesis-fails u={u} v={v}")
  | ["nhash", d] => (st, toString (Layer.nHash (nat! d)))
  | ["proj", lon, lat] => (st, optPairF (Proj.proj (fl lon) (fl lat)))
  | ["unproj", x, y] => (st, optPairF (Proj.unproj (fl x) (fl y)))
  | ["basecell", x, y] => (st, optNat (Proj.baseCellFromProjCoo st.debug (fl x) (fl y)))
  | ["toring", d, h] => (st, optNat (Layer.toRing st.cfg (nat! d) (nat! h)))
  | ["fromring", d, r] => (st, optNat (Layer.fromRing st.cfg (nat! d) (nat! r)))
  | ["touniq", d, h] => (st, optNat (toUniq (nat! d) (nat! h)))
  | ["touniqivoa", d, h] => (st, optNat (toUniqIvoa (nat! d) (nat! h)))
  | ["fromuniq", u] => (st, optPair (fromUniq (nat! u)))
  | ["fromuniqivoa", u] => (st, optPair (fromUniqIvoa (nat! u)))
  | _ => (st, "bad-op")

def step (st : St) (line : String) : St × String :=
  match line.trimAscii.toString.splitOn " " with
  | ["profile", p, z] => ({ st with debug := p == "debug", bmi := z == "bmi2" }, "ok")
  | "zoc" :: d :: op :: args => (st, zocOp st (nat! d) op (args.map nat!))
  | "bmoc" :: op :: toks => (st, bmocOp op (toks.map nat!))
  | "fixed" :: toks => (st, fixedOp (toks.map nat!))
  | "views" :: toks => (st, viewsOp (toks.map nat!))
  | "pack" :: toks =>
    (st, match parseBmoc (toks.map nat!) with
      | some (b, _) => bmocLine { b with entries := Bmoc.pack b.dmax b.entries }
      | none => "bad-op")
  | "lower" :: nd :: packing :: toks =>
    (st, match parseBmoc (toks.map nat!) with
      | some (b, _) =>
        let e := if nat! packing == 1 then Bmoc.pack b.dmax b.entries else b.entries
        match Bmoc.toLowerDepth b.dmax (nat! nd) e with
        | some l => bmocLine { dmax := nat! nd, entries := l }
        | none => "panic"
      | none => "bad-op")
  | op :: a =>
    if ["neigh", "neighbour", "iedge", "iedge_top", "iedges", "iedges_top", "icorner", "ipart", "eedge", "estruct"].contains op then
      (st, topoOp st op (a.map nat!))
    else stepRest st (op :: a)
  | [] => (st, "bad-op")

partial def loop (hin : IO.FS.Stream) (hout : IO.FS.Stream) (st : St) : IO Unit := do
  let line ← hin.getLine
  if line.isEmpty then return ()
  let (st', out) := step st line
  hout.putStrLn out
  loop hin hout st'

end Hpx.Driver
