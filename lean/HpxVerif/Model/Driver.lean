/-
Line-protocol driver: one request per line in, one canonical answer per line out.
Imports the model only (core Lean), so it links as a `lean_exe`.
-/
import HpxVerif.Model.Bits

namespace Hpx.Driver

structure St where
  debug : Bool := true
  bmi : Bool := false

def optNat : Option Nat → String
  | some n => toString n
  | none => "panic"

def optPair : Option (Nat × Nat) → String
  | some (a, b) => s!"{a} {b}"
  | none => "panic"

def nat! (s : String) : Nat := s.toNat?.getD 0

/-- all tokens after the op are decimal naturals (or a leading `-` for negative integers where an op says so) -/
def zocOp (st : St) (depth : Nat) (op : String) (args : List Nat) : String :=
  let cls := if st.bmi then getZocBmi depth else getZoc depth
  match cls with
  | none => "panic"
  | some c =>
    match op, args with
    | "ij2h", [i, j] => toString (if st.bmi then Bmi.ij2h c i j else Lut.ij2h c i j)
    | "i02h", [i] => toString (if st.bmi then Bmi.i02h c i else Lut.i02h c i)
    | "oj2h", [j] => toString (if st.bmi then Bmi.oj2h c j else Lut.oj2h c j)
    | "h2ij", [h] => toString (if st.bmi then Bmi.h2ij c h else Lut.h2ij c h)
    | "ij2i", [ij] => toString (Lut.ij2i c ij)
    | "ij2j", [ij] => toString (Lut.ij2j c ij)
    | _, _ => "bad-op"

def step (st : St) (line : String) : St × String :=
  match line.trimAscii.toString.splitOn " " with
  | ["profile", p, z] => ({ st with debug := p == "debug", bmi := z == "bmi2" }, "ok")
  | "zoc" :: d :: op :: args => (st, zocOp st (nat! d) op (args.map nat!))
  | ["touniq", d, h] => (st, optNat (toUniq (nat! d) (nat! h)))
  | ["touniqivoa", d, h] => (st, optNat (toUniqIvoa (nat! d) (nat! h)))
  | ["fromuniq", u] => (st, optPair (fromUniq (nat! u)))
  | ["fromuniqivoa", u] => (st, optPair (fromUniqIvoa (nat! u)))
  | _ => (st, "bad-op")

partial def loop (hin : IO.FS.Stream) (hout : IO.FS.Stream) (st : St) : IO Unit := do
  let line ← hin.getLine
  if line.isEmpty then return ()
  let (st', out) := step st line
  hout.putStrLn out
  loop hin hout st'

end Hpx.Driver
