import HpxVerif.Lemmas.BitsLemmas
import HpxVerif.Lemmas.UniqLemmas
import HpxVerif.Lemmas.BmiLemmas
import HpxVerif.Lemmas.SizeGen

set_option autoImplicit false   -- an unknown identifier in a statement is an error, never a new variable

/-!
# C18 — bit-level encodings are exact: z-order interleaving and uniq numbers

Property theorems only (helper lemmas live in `Lemmas/`).  The tables, the BMI2 masks and the depth ranges of
`get_zoc` are regenerated from `src/nested/zordercurve.rs` on every run (`Gen/ZocTables.lean`), so these theorems
are re-checked against what the source says now.

Specification: `interleave i j` is *defined* bit by bit — bit `2q` is bit `q` of `i`, bit `2q+1` is bit `q` of `j`
(`interleave_spec_even/odd`).
-/

namespace Hpx.C18

open Hpx

/-- the specification of interleaving, bit by bit -/
theorem interleave_spec_even (i j q : Nat) : (interleave i j).testBit (2 * q) = (decide (q < 32) && i.testBit q) :=
  testBit_interleave_even i j q
theorem interleave_spec_odd (i j q : Nat) : (interleave i j).testBit (2 * q + 1) = (decide (q < 32) && j.testBit q) :=
  testBit_interleave_odd i j q

/-- the four generated tables have 256 entries (every byte index is in range) -/
theorem tables_len : lutHash.size = 256 ∧ lutIjByte.size = 256 ∧ lutIjShort.size = 256 ∧ lutIjInt.size = 256 := by
  decide +kernel

/-- `LUPT_TO_HASH[b] = spread b` for every byte, and the three inverse tables compress even / odd bits -/
theorem lut_tables_spec :
    (∀ b, b < 256 → lk lutHash b = spreadN 8 b) ∧
    (∀ b, b < 256 → lk lutIjByte b = squeezeN 4 b ||| (squeezeN 4 (b / 2) <<< 8)) ∧
    (∀ b, b < 256 → lk lutIjShort b = squeezeN 4 b ||| (squeezeN 4 (b / 2) <<< 16)) ∧
    (∀ b, b < 256 → lk lutIjInt b = squeezeN 4 b ||| (squeezeN 4 (b / 2) <<< 32)) :=
  ⟨lut_hash_table, lut_byte_table, lut_short_table, lut_int_table⟩

/-- `get_zoc` rejects `depth > 29` (panic) -/
theorem get_zoc_guard (d : Nat) (h : d > 29) : getZoc d = none ∧ getZocBmi d = none := by
  simp [getZoc, getZocBmi, getZocFrom, h]

/-- for every depth `≤ 29`, `get_zoc` selects an implementation with enough bits for `2^depth` coordinates
    (LUT build and BMI2 build), and depth 0 gets the empty curve -/
theorem get_zoc_sufficient : ∀ d, d ≤ 29 →
    (∃ c, getZoc d = some c ∧ d ≤ c.bits) ∧ (∃ c, getZocBmi d = some c ∧ d ≤ c.bits) := by
  decide +kernel

/-- LUT classes: `ij2h` is the interleaving, for every `i, j` below `2^bits` of the class -/
theorem lut_ij2h_spec (c : ZocClass) (i j : Nat) (hi : i < 2 ^ c.bits) (hj : j < 2 ^ c.bits) :
    Lut.ij2h c i j = interleave i j := by
  have hb : c.bits ≤ 32 := by cases c <;> decide
  cases c with
  | empty =>
    have hi' : i = 0 := by simpa [ZocClass.bits] using hi
    have hj' : j = 0 := by simpa [ZocClass.bits] using hj
    subst hi' hj'
    simp [Lut.ij2h, interleave, spreadN]
  | small | mediu | large =>
    simp only [Lut.ij2h, Lut.oj2h, lut_i02h_spec, interleave]
    rw [← spreadN_of_lt hi hb, ← spreadN_of_lt hj hb]
    have h3 := three_spreadN_lt 32 j
    have : spreadN 32 j <<< 1 < 2 ^ 64 := by rw [Nat.shiftLeft_eq]; omega
    rw [Nat.mod_eq_of_lt this]

/-- the one-coordinate restrictions -/
theorem lut_i02h_restrict (c : ZocClass) (i : Nat) : Lut.i02h c i = Lut.ij2h c i 0 := by
  cases c <;> simp [Lut.ij2h, Lut.oj2h, Lut.i02h, lk_lutHash]

theorem lut_oj2h_restrict (c : ZocClass) (j : Nat) : Lut.oj2h c j = Lut.ij2h c 0 j := by
  cases c <;> simp [Lut.ij2h, Lut.oj2h, Lut.i02h, lk_lutHash]

/-- `h2ij` with `ij2i`/`ij2j` inverts `ij2h` -/
theorem lut_h2ij_inverts (c : ZocClass) (i j : Nat) (hi : i < 2 ^ c.bits) (hj : j < 2 ^ c.bits) :
    Lut.ij2i c (Lut.h2ij c (Lut.ij2h c i j)) = i ∧ Lut.ij2j c (Lut.h2ij c (Lut.ij2h c i j)) = j := by
  have hb : c.bits ≤ 32 := by cases c <;> decide
  rw [lut_ij2h_spec c i j hi hj, lut_h2ij_i, lut_h2ij_j]
  have hi32 : i < 2 ^ 32 := Nat.lt_of_lt_of_le hi (Nat.pow_le_pow_right (by decide) hb)
  have hj32 : j < 2 ^ 32 := Nat.lt_of_lt_of_le hj (Nat.pow_le_pow_right (by decide) hb)
  constructor
  · apply Nat.eq_of_testBit_eq; intro q
    rw [testBit_squeezeN, testBit_interleave_even]
    by_cases h : q < c.bits
    · have : q < 32 := by omega
      simp [h, this]
    · have : i.testBit q = false :=
        Nat.testBit_lt_two_pow (Nat.lt_of_lt_of_le hi (Nat.pow_le_pow_right (by decide) (by omega)))
      simp [h, this]
  · apply Nat.eq_of_testBit_eq; intro q
    rw [testBit_squeezeN, ← Nat.testBit_succ, testBit_interleave_odd]
    by_cases h : q < c.bits
    · have : q < 32 := by omega
      simp [h, this]
    · have : j.testBit q = false :=
        Nat.testBit_lt_two_pow (Nat.lt_of_lt_of_le hj (Nat.pow_le_pow_right (by decide) (by omega)))
      simp [h, this]

/-- **main statement (LUT build)**: for every depth `d ≤ 29` and all `i, j < 2^d`, the implementation selected by
    `get_zoc d` computes the interleaving, which is below `4^d`, and `h2ij`/`ij2i`/`ij2j` recover `(i, j)` -/
theorem zoc_lut_correct (d i j : Nat) (hd : d ≤ 29) (hi : i < 2 ^ d) (hj : j < 2 ^ d) :
    ∃ c, getZoc d = some c ∧ Lut.ij2h c i j = interleave i j ∧ interleave i j < 4 ^ d ∧
      Lut.ij2i c (Lut.h2ij c (Lut.ij2h c i j)) = i ∧ Lut.ij2j c (Lut.h2ij c (Lut.ij2h c i j)) = j ∧
      Lut.i02h c i = Lut.ij2h c i 0 ∧ Lut.oj2h c j = Lut.ij2h c 0 j := by
  obtain ⟨⟨c, hc, hdc⟩, _⟩ := get_zoc_sufficient d hd
  have hi' : i < 2 ^ c.bits := Nat.lt_of_lt_of_le hi (Nat.pow_le_pow_right (by decide) hdc)
  have hj' : j < 2 ^ c.bits := Nat.lt_of_lt_of_le hj (Nat.pow_le_pow_right (by decide) hdc)
  refine ⟨c, hc, lut_ij2h_spec c i j hi' hj', interleave_lt (by omega) hi hj, ?_, ?_, lut_i02h_restrict c i,
    lut_oj2h_restrict c j⟩
  · exact (lut_h2ij_inverts c i j hi' hj').1
  · exact (lut_h2ij_inverts c i j hi' hj').2

/-- non-vacuity: a concrete depth-29 instance -/
example : getZoc 29 = some .large ∧ Lut.ij2h .large 0x1FFFFFFF 0x10000001 = interleave 0x1FFFFFFF 0x10000001 := by
  decide +kernel

/-! ## uniq encodings -/

theorem to_uniq_guard (d h : Nat) (hd : d > 29) : toUniq d h = none ∧ toUniqIvoa d h = none := by
  simp [toUniq, toUniqIvoa, hd]

/-- `from_uniq ∘ to_uniq = id` on every valid `(depth, hash)`; the uniq number fits in 63 bits -/
theorem from_uniq_to_uniq (d h : Nat) (hd : d ≤ 29) (hh : h < 12 * 4 ^ d) :
    ∃ u, toUniq d h = some u ∧ u < 2 ^ 63 ∧ fromUniq u = some (d, h) := by
  have hd' : ¬ d > 29 := by omega
  have h2d : (2 * d) % 256 = 2 * d := Nat.mod_eq_of_lt (by omega)
  have hpow : 2 ^ (2 * d + 4) < 2 ^ 64 := pow_lt_64 (by omega)
  have hh' : h < 2 ^ (2 * d + 4) := by
    have : 2 ^ (2 * d + 4) = 16 * 4 ^ d := by rw [Nat.pow_add, four_pow]; omega
    omega
  have hu : (16 <<< (2 * d)) % 2 ^ 64 ||| h = 2 ^ (2 * d + 4) + h := by
    have := Nat.two_pow_add_eq_or_of_lt hh' 1
    rw [sixteen_shl, Nat.mod_eq_of_lt hpow]
    simpa using this.symm
  refine ⟨2 ^ (2 * d + 4) + h, by simp [toUniq, hd', h2d, hu], ?_, ?_⟩
  · have : 2 ^ (2 * d + 4) * 2 ≤ 2 ^ 63 := by
      rw [← Nat.pow_succ]; exact Nat.pow_le_pow_right (by decide) (by omega)
    omega
  · have hlz : leadingZeros64 (2 ^ (2 * d + 4) + h) = 63 - (2 * d + 4) :=
      leadingZeros64_of_log (by omega) (by omega) (by have : 2 ^ (2 * d + 4 + 1) = 2 ^ (2 * d + 4) * 2 := Nat.pow_succ _ _; omega)
    have hdepth : (60 - (63 - (2 * d + 4))) >>> 1 = d := by
      rw [Nat.shiftRight_eq_div_pow]; omega
    unfold fromUniq
    simp only [hlz, hdepth]
    have : ¬ (63 - (2 * d + 4) > 60) := by omega
    simp only [this, if_false, Option.some.injEq, Prod.mk.injEq]
    refine ⟨Nat.mod_eq_of_lt (by omega), ?_⟩
    rw [sixteen_shl, Nat.mod_eq_of_lt hpow]
    apply Nat.eq_of_testBit_eq; intro q
    rw [show 2 ^ 64 - 1 - 2 ^ (2 * d + 4) = 2 ^ 64 - (2 ^ (2 * d + 4) + 1) by omega, Nat.testBit_and,
      Nat.testBit_two_pow_sub_succ hpow, Nat.testBit_two_pow]
    rcases Nat.lt_trichotomy q (2 * d + 4) with hq | hq | hq
    · have hq' : ¬ (2 * d + 4 = q) := by omega
      have hq64 : q < 64 := by omega
      rw [Nat.testBit_two_pow_add_gt hq]
      simp [hq', hq64]
    · subst hq
      simp [Nat.testBit_lt_two_pow hh']
    · have h1 : h.testBit q = false :=
        Nat.testBit_lt_two_pow (Nat.lt_of_lt_of_le hh' (Nat.pow_le_pow_right (by decide) (by omega)))
      have h2 : (2 ^ (2 * d + 4) + h).testBit q = false := by
        apply Nat.testBit_lt_two_pow
        have : 2 ^ (2 * d + 4) * 2 ≤ 2 ^ q := by
          rw [← Nat.pow_succ]; exact Nat.pow_le_pow_right (by decide) (by omega)
        omega
      simp [h1, h2]

/-- same for the IVOA variant `4·4^depth + hash` -/
theorem from_uniq_ivoa_to_uniq_ivoa (d h : Nat) (hd : d ≤ 29) (hh : h < 12 * 4 ^ d) :
    ∃ u, toUniqIvoa d h = some u ∧ u = 4 * 4 ^ d + h ∧ u < 2 ^ 62 ∧ fromUniqIvoa u = some (d, h) := by
  have hd' : ¬ d > 29 := by omega
  have h2d : (2 * d) % 256 = 2 * d := Nat.mod_eq_of_lt (by omega)
  have hpow : 2 ^ (2 * d + 2) < 2 ^ 64 := pow_lt_64 (by omega)
  have h4 : 2 ^ (2 * d + 2) = 4 * 4 ^ d := by rw [Nat.pow_add, four_pow]; omega
  have h16 : 2 ^ (2 * d + 4) = 16 * 4 ^ d := by rw [Nat.pow_add, four_pow]; omega
  have hs : (4 <<< (2 * d)) % 2 ^ 64 = 2 ^ (2 * d + 2) := by rw [four_shl, Nat.mod_eq_of_lt hpow]
  refine ⟨2 ^ (2 * d + 2) + h, by simp [toUniqIvoa, hd', h2d, hs], by omega, ?_, ?_⟩
  · have : 2 ^ (2 * d + 4) ≤ 2 ^ 62 := Nat.pow_le_pow_right (by decide) (by omega)
    omega
  · have hlz : leadingZeros64 (2 ^ (2 * d + 2) + h) = 63 - (2 * d + 2) ∨
        leadingZeros64 (2 ^ (2 * d + 2) + h) = 63 - (2 * d + 3) := by
      by_cases hb : 2 ^ (2 * d + 2) + h < 2 ^ (2 * d + 3)
      · left; exact leadingZeros64_of_log (by omega) (by omega) hb
      · right
        refine leadingZeros64_of_log (by omega) (by omega) ?_
        have : 2 ^ (2 * d + 3 + 1) = 2 ^ (2 * d + 4) := by congr 1
        rw [this]; omega
    have hdepth : (61 - leadingZeros64 (2 ^ (2 * d + 2) + h)) >>> 1 = d := by
      rw [Nat.shiftRight_eq_div_pow]; rcases hlz with e | e <;> rw [e] <;> omega
    have hle : ¬ leadingZeros64 (2 ^ (2 * d + 2) + h) > 61 := by rcases hlz with e | e <;> rw [e] <;> omega
    unfold fromUniqIvoa
    simp only [hdepth, hle, hs, if_false]
    have : ¬ (2 ^ (2 * d + 2) + h < 2 ^ (2 * d + 2)) := by omega
    simp only [this, if_false, Option.some.injEq, Prod.mk.injEq]
    exact ⟨Nat.mod_eq_of_lt (by omega), by omega⟩

/-- distinct valid `(depth, hash)` pairs never collide -/
theorem to_uniq_injective (d h d' h' : Nat) (hd : d ≤ 29) (hh : h < 12 * 4 ^ d) (hd' : d' ≤ 29) (hh' : h' < 12 * 4 ^ d')
    (e : toUniq d h = toUniq d' h') : d = d' ∧ h = h' := by
  obtain ⟨u, hu, _, hf⟩ := from_uniq_to_uniq d h hd hh
  obtain ⟨u', hu', _, hf'⟩ := from_uniq_to_uniq d' h' hd' hh'
  rw [hu, hu'] at e
  cases e
  rw [hf] at hf'
  cases hf'
  exact ⟨rfl, rfl⟩

theorem to_uniq_ivoa_injective (d h d' h' : Nat) (hd : d ≤ 29) (hh : h < 12 * 4 ^ d) (hd' : d' ≤ 29)
    (hh' : h' < 12 * 4 ^ d') (e : toUniqIvoa d h = toUniqIvoa d' h') : d = d' ∧ h = h' := by
  obtain ⟨u, hu, _, _, hf⟩ := from_uniq_ivoa_to_uniq_ivoa d h hd hh
  obtain ⟨u', hu', _, _, hf'⟩ := from_uniq_ivoa_to_uniq_ivoa d' h' hd' hh'
  rw [hu, hu'] at e
  cases e
  rw [hf] at hf'
  cases hf'
  exact ⟨rfl, rfl⟩

/-- non-vacuity -/
example : toUniq 29 (12 * 4 ^ 29 - 1) = some 0x6FFFFFFFFFFFFFFF ∧ fromUniq 0x6FFFFFFFFFFFFFFF = some (29, 12 * 4 ^ 29 - 1) := by
  decide +kernel

/-! ## the BMI2 (`pdep`/`pext`) variants: every implementation the crate can select agrees -/

/-- the BMI2 masks regenerated from the source are the even / odd bit masks of 8, 16, 32 pairs -/
theorem bmi_masks_spec :
    IsEvenMask 8 0x5555 ∧ IsOddMask 8 0xAAAA ∧ IsEvenMask 16 0x55555555 ∧ IsOddMask 16 0xAAAAAAAA ∧
    IsEvenMask 32 0x5555555555555555 ∧ IsOddMask 32 0xAAAAAAAAAAAAAAAA :=
  ⟨mask_small_even, mask_small_odd, mask_mediu_even, mask_mediu_odd, mask_large_even, mask_large_odd⟩

/-- `pdep`/`pext` (Intel SDM pseudo-code) with an even / odd mask are bit spreading / squeezing, for every operand -/
theorem pdep_pext_spec {k w m : Nat} :
    (IsEvenMask k m → 2 * k ≤ w + 1 → ∀ src, pdep w src m = spreadN k src ∧ pext w src m = squeezeN k src) ∧
    (IsOddMask k m → 2 * k ≤ w → ∀ src, pdep w src m = spreadN k src <<< 1 ∧ pext w src m = squeezeN k (src / 2)) :=
  ⟨fun hm hw src => ⟨pdep_even hm hw src, pext_even hm hw src⟩, fun hm hw src => ⟨pdep_odd hm hw src, pext_odd hm hw src⟩⟩

theorem bmi_ij2h_spec (c : ZocClass) (i j : Nat) (hi : i < 2 ^ c.bits) (hj : j < 2 ^ c.bits) :
    Bmi.ij2h c i j = interleave i j := Hpx.bmi_ij2h_spec c i j hi hj

theorem bmi_h2ij_inverts (c : ZocClass) (i j : Nat) (hi : i < 2 ^ c.bits) (hj : j < 2 ^ c.bits) :
    Lut.ij2i c (Bmi.h2ij c (Bmi.ij2h c i j)) = i ∧ Lut.ij2j c (Bmi.h2ij c (Bmi.ij2h c i j)) = j :=
  Hpx.bmi_h2ij_inverts c i j hi hj

/-- the BMI2 and LUT implementations are the same functions, on every argument (in range or not) -/
theorem bmi_eq_lut (c : ZocClass) :
    (∀ i j, Bmi.ij2h c i j = Lut.ij2h c i j) ∧ (∀ h, Bmi.h2ij c h = Lut.h2ij c h) ∧
    (∀ i, Bmi.i02h c i = Lut.i02h c i) ∧ (∀ j, Bmi.oj2h c j = Lut.oj2h c j) :=
  ⟨bmi_eq_lut_ij2h c, bmi_eq_lut_h2ij c, bmi_eq_lut_i02h c, bmi_eq_lut_oj2h c⟩

/-- **the curve selected on a BMI2 build**: for every depth `≤ 29` and `i, j < 2^depth` it computes
    `interleave i j < 4^depth`, is inverted by `h2ij`/`ij2i`/`ij2j`, `i02h`/`oj2h` are its restrictions, and it is the
    same class and the same value as on a LUT build; `depth > 29` is rejected -/
theorem zoc_bmi_correct (d i j : Nat) (hd : d ≤ 29) (hi : i < 2 ^ d) (hj : j < 2 ^ d) :
    ∃ c, getZocBmi d = some c ∧ Bmi.ij2h c i j = interleave i j ∧ interleave i j < 4 ^ d ∧
      Lut.ij2i c (Bmi.h2ij c (Bmi.ij2h c i j)) = i ∧ Lut.ij2j c (Bmi.h2ij c (Bmi.ij2h c i j)) = j ∧
      Bmi.i02h c i = Bmi.ij2h c i 0 ∧ Bmi.oj2h c j = Bmi.ij2h c 0 j ∧
      getZoc d = some c ∧ Bmi.ij2h c i j = Lut.ij2h c i j ∧
      Bmi.h2ij c (Bmi.ij2h c i j) = Lut.h2ij c (Lut.ij2h c i j) ∧
      Bmi.i02h c i = Lut.i02h c i ∧ Bmi.oj2h c j = Lut.oj2h c j := Hpx.zoc_bmi_correct d i j hd hi hj


/-! ## constants from the source

`Gen/SizeTables.lean` is produced on every run by interpreting the source text of `x_mask`, `y_mask`, `xy_mask`,
`nside_unsafe`, `nside_square_unsafe`, `n_hash_unsafe` and of `Layer::new` (overflowing shifts / subtractions = panic). -/

/-- the model's `x_mask`, `y_mask`, `xy_mask` are the source's, for every `delta_depth` 0..32 and any configuration
    (`delta_depth = 0`: the empty mask, since the repair of finding F25) -/
theorem masks_from_source (cfg : Cfg) :
    (List.range 33).map (Topo.xMaskFn cfg) = Gen.Size.xMask ∧
    (List.range 33).map (Topo.yMaskFn cfg) = Gen.Size.yMask ∧
    (List.range 33).map (Topo.xyMaskFn cfg) = Gen.Size.xyMask := Hpx.SizeGen.masks_from_source cfg

/-- every integer field of `Layer::new(depth)` (depth, nside, nside_minus_1, n_hash, twice_depth, d0h_mask, x_mask, y_mask,
    xy_mask, nside_remainder_mask), depth 0..29: the model's values are the ones the source computes -/
theorem layer_fields_from_source :
    (List.range 30).map Hpx.SizeGen.modelLayerFields = Gen.Size.layerFields := Hpx.SizeGen.layer_fields_from_source

/-- `time_half_nside` (the exponent increment of the scaling by `nside / 2`): `(depth − 1) << 52`, `−1 << 52` at depth 0 -/
theorem time_half_nside_from_source :
    (List.range 30).map (fun d => Hash.timeHalfNside d * 2 ^ 52) = Gen.Size.layerTimeHalfNside :=
  Hpx.SizeGen.time_half_nside_from_source

/-- `nside_unsafe`, `nside_square_unsafe`, `n_hash_unsafe`, depth 0..29 -/
theorem sizes_from_source :
    (List.range 30).map (fun d => some (Layer.nside d)) = Gen.Size.nside ∧
    (List.range 30).map (fun d => some (4 ^ d)) = Gen.Size.nsideSquare ∧
    (List.range 30).map (fun d => some (Layer.nHash d)) = Gen.Size.nHash := Hpx.SizeGen.sizes_from_source

end Hpx.C18
