import HpxVerif.Model.Proj
import HpxVerif.Lemmas.ProjReal

/-!
# C17 — HEALPix projection and de-projection are inverse, in range, base-cell exact

Proved for every input of every numeric instance (every `f64` bit pattern at `Float`, NaN included):
* `proj_guard`, `unproj_guard`: arguments failing `-π/2 ≤ lat ≤ π/2` / `-2 ≤ y ≤ 2` are rejected;
* `base_cell_total`: without debug assertions `base_cell_from_proj_coo` returns a base cell `< 12` for **every** pair of
  inputs — this is the repaired behaviour of finding F10 (before the `fix:` commit the value could be 8 for base cell 4,
  or ≥ 12 on polar-cap seams); `base_cell_offset_in_range`: the quarter offset of `pm1_offset_decompose` is one of
  1, 3, 5, 7.
Over ℝ (the same model functions at `α := ℝ`): `cea_roundtrip_real`, `collignon_roundtrip_real` (both halves of the
projection are inverted exactly) and **`unproj_proj_real_partial`: `unproj (proj (lon, lat)) = (lon, lat)`** for
`0 ≤ lon < 2π`, `0 ≤ lat ≤ π/2` up to the code's pole threshold (`√6·cos(lat/2 + π/4) > EPS_POLE`, i.e. colatitude above
about `8e-14` rad) — partial: negative longitudes/latitudes go through `|·|` and the sign bits and are not restated.
Open statements (over the reals): `proj_eq_spec`, `proj_unproj`, `base_cell_from_proj_coo_spec`;
validated by the bit-exact correspondence on `proj`, `unproj`, `base_cell_from_proj_coo` and by oracles against an
independent implementation of the Calabretta & Roukema formulae.
-/

namespace Hpx.C17
open Hpx Hpx.Proj

theorem proj_guard {α : Type} [Num α] (lon lat : α) (h : checkLat lat = false) : proj lon lat = none := by
  unfold proj; simp [h]

theorem unproj_guard {α : Type} [Num α] (x y : α) (h : checkY y = false) : unproj x y = none := by
  unfold unproj; simp [h]

theorem base_cell_offset_in_range {α : Type} [Num α] (x : α) :
    (pm1OffsetDecompose x).1 = 1 ∨ (pm1OffsetDecompose x).1 = 3 ∨ (pm1OffsetDecompose x).1 = 5 ∨
    (pm1OffsetDecompose x).1 = 7 := by
  unfold pm1OffsetDecompose
  simp only []
  generalize Num.truncU8 x = n
  have h1 : (n ||| 1) &&& 7 ≤ 7 := Nat.and_le_right
  have h2 : ((n ||| 1) &&& 7) % 2 = 1 := by
    rw [← Nat.and_one_is_mod, Nat.and_assoc, show (7 &&& 1 : Nat) = 1 by decide, Nat.and_one_is_mod]
    rw [Nat.or_mod_two_eq_one]; right; rfl
  omega

theorem baseCellFinish_lt (i j a b : Nat) : baseCellFinish i j a b < 12 := by
  unfold baseCellFinish
  simp only []
  have h3 : (i + (b >>> a)) % 256 &&& 3 ≤ 3 := Nat.and_le_right
  rw [Nat.shiftLeft_eq]
  split
  · omega
  · split <;> omega

/-- release profile: a base cell `< 12` for every input -/
theorem base_cell_total {α : Type} [Num α] (x y : α) :
    ∃ b, baseCellFromProjCoo false x y = some b ∧ b < 12 := by
  unfold baseCellFromProjCoo
  simp only [Bool.false_and, Bool.false_eq_true, if_false]
  exact ⟨_, rfl, baseCellFinish_lt _ _ _ _⟩

/-- over ℝ: the cylindrical equal-area half of the projection is inverted exactly -/
theorem cea_roundtrip_real (x lat : ℝ) (h1 : -(Real.pi / 2) ≤ lat) (h2 : lat ≤ Real.pi / 2) :
    deprojCea (α := ℝ) (projCea (x, lat)) = (x, lat) := deprojCea_projCea x lat h1 h2

/-- over ℝ: the Collignon half of the projection is inverted exactly, up to the pole threshold of the code -/
theorem collignon_roundtrip_real (x lat : ℝ) (hx1 : -1 ≤ x) (hx2 : x ≤ 1) (h1 : -(Real.pi / 2) ≤ lat) (h2 : lat ≤ Real.pi / 2)
    (hpole : (Num.epsPole : ℝ) < Real.sqrt 6 * Real.cos (1 / 2 * lat + Real.pi / 4)) :
    deprojCollignon (α := ℝ) (projCollignon (x, lat)) = (x, lat) :=
  deprojCollignon_projCollignon x lat hx1 hx2 h1 h2 hpole (le_of_lt epsPole_pos)

/-- **over ℝ, `unproj (proj p) = p`** for every position of the quarter-domain `0 ≤ lon < 2π`, `0 ≤ lat ≤ π/2` on the near
    side of the code's pole threshold (the other three quarter-domains are its mirror images through `|·|` and the sign
    bits; see the level note) -/
theorem unproj_proj_real_partial (lon lat : ℝ) (hlon0 : 0 ≤ lon) (hlon1 : lon < 2 * Real.pi) (hlat0 : 0 ≤ lat)
    (hlat1 : lat ≤ Real.pi / 2)
    (hpole : (Num.epsPole : ℝ) < Real.sqrt 6 * Real.cos (1 / 2 * lat + Real.pi / 4)) :
    ∃ X Y, proj (α := ℝ) lon lat = some (X, Y) ∧ unproj (α := ℝ) X Y = some (lon, lat) :=
  unproj_proj_real lon lat hlon0 hlon1 hlat0 hlat1 hpole

/-- the hypotheses are satisfiable: `(lon, lat) = (1, 0)` -/
example : (0 : ℝ) ≤ 1 ∧ (1 : ℝ) < 2 * Real.pi ∧ (0 : ℝ) ≤ 0 ∧ (0 : ℝ) ≤ Real.pi / 2 := by
  have := Real.two_le_pi
  refine ⟨by norm_num, by linarith, le_refl _, by linarith⟩

end Hpx.C17
