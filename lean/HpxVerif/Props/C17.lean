import HpxVerif.Model.Proj
import HpxVerif.Lemmas.ProjReal
import HpxVerif.Lemmas.ProjReal5

set_option autoImplicit false   -- an unknown identifier in a statement is an error, never a new variable

/-!
# C17 — HEALPix projection and de-projection are inverse, in range, base-cell exact

Proved for every input of every numeric instance (every `f64` bit pattern at `Float`, NaN included):
* `proj_guard`, `unproj_guard`: arguments failing `-π/2 ≤ lat ≤ π/2` / `-2 ≤ y ≤ 2` are rejected;
* `base_cell_total`: without debug assertions `base_cell_from_proj_coo` returns a base cell `< 12` for **every** pair of
  inputs — this is the repaired behaviour of finding F10 (before the `fix:` commit the value could be 8 for base cell 4,
  or ≥ 12 on polar-cap seams); `base_cell_offset_in_range`: the quarter offset of `pm1_offset_decompose` is one of
  1, 3, 5, 7.
Over ℝ (the same model functions at `α := ℝ`): `cea_roundtrip_real`, `collignon_roundtrip_real` (both halves of the
projection are inverted exactly) and **`unproj_proj_real_partial`: `unproj (proj (lon, lat)) = (lon, lat)`** for
`0 ≤ lon < 2π`, `0 ≤ lat ≤ π/2` up to the code's pole threshold (`√6·cos(lat/2 + π/4) > EPS_POLE`, i.e. colatitude above
about `8e-14` rad) — partial: negative longitudes/latitudes go through `|·|` and the sign bits and are not restated.
**The whole statement over ℝ** (second half of this file): `proj_eq_spec` (= the Calabretta & Roukema formulae, stated
independently), `proj_range`, `unproj_proj` for all four sign quadrants and `unproj_proj_pole`, `proj_unproj` on the
projected domain with its edge cases (`proj_unproj_right_edge`, `proj_unproj_at_eight`), `base_cell_from_proj_coo_spec`
with its border convention and `base_cell_of_projected`.  The float residue (1e-14 rad) is
validated by the bit-exact correspondence on `proj`, `unproj`, `base_cell_from_proj_coo` and by oracles against an
independent implementation of the Calabretta & Roukema formulae.
-/

namespace Hpx.C17
open Hpx Hpx.Proj

theorem proj_guard {α : Type} [Num α] (lon lat : α) (h : checkLat lat = false) : proj lon lat = none := by
  unfold proj; simp [h]

theorem unproj_guard {α : Type} [Num α] (x y : α) (h : checkY y = false) : unproj x y = none := by
  unfold unproj; simp [h]

theorem base_cell_offset_in_range {α : Type} [Num α] (x : α) :
    (pm1OffsetDecompose x).1 = 1 ∨ (pm1OffsetDecompose x).1 = 3 ∨ (pm1OffsetDecompose x).1 = 5 ∨
    (pm1OffsetDecompose x).1 = 7 := by
  unfold pm1OffsetDecompose
  simp only []
  generalize Num.truncU8 x = n
  have h1 : (n ||| 1) &&& 7 ≤ 7 := Nat.and_le_right
  have h2 : ((n ||| 1) &&& 7) % 2 = 1 := by
    rw [← Nat.and_one_is_mod, Nat.and_assoc, show (7 &&& 1 : Nat) = 1 by decide, Nat.and_one_is_mod]
    rw [Nat.or_mod_two_eq_one]; right; rfl
  omega

theorem baseCellFinish_lt (i j a b : Nat) : baseCellFinish i j a b < 12 := by
  unfold baseCellFinish
  simp only []
  have h3 : (i + (b >>> a)) % 256 &&& 3 ≤ 3 := Nat.and_le_right
  rw [Nat.shiftLeft_eq]
  split
  · omega
  · split <;> omega

/-- release profile: a base cell `< 12` for every input -/
theorem base_cell_total {α : Type} [Num α] (x y : α) :
    ∃ b, baseCellFromProjCoo false x y = some b ∧ b < 12 := by
  unfold baseCellFromProjCoo
  simp only [Bool.false_and, Bool.false_eq_true, if_false]
  exact ⟨_, rfl, baseCellFinish_lt _ _ _ _⟩

/-- over ℝ: the cylindrical equal-area half of the projection is inverted exactly -/
theorem cea_roundtrip_real (x lat : ℝ) (h1 : -(Real.pi / 2) ≤ lat) (h2 : lat ≤ Real.pi / 2) :
    deprojCea (α := ℝ) (projCea (x, lat)) = (x, lat) := deprojCea_projCea x lat h1 h2

/-- over ℝ: the Collignon half of the projection is inverted exactly, up to the pole threshold of the code -/
theorem collignon_roundtrip_real (x lat : ℝ) (hx1 : -1 ≤ x) (hx2 : x ≤ 1) (h1 : -(Real.pi / 2) ≤ lat) (h2 : lat ≤ Real.pi / 2)
    (hpole : (Num.epsPole : ℝ) < Real.sqrt 6 * Real.cos (1 / 2 * lat + Real.pi / 4)) :
    deprojCollignon (α := ℝ) (projCollignon (x, lat)) = (x, lat) :=
  deprojCollignon_projCollignon x lat hx1 hx2 h1 h2 hpole (le_of_lt epsPole_pos)

/-- **over ℝ, `unproj (proj p) = p`** for every position of the quarter-domain `0 ≤ lon < 2π`, `0 ≤ lat ≤ π/2` on the near
    side of the code's pole threshold (the other three quarter-domains are its mirror images through `|·|` and the sign
    bits; see the level note) -/
theorem unproj_proj_real_partial (lon lat : ℝ) (hlon0 : 0 ≤ lon) (hlon1 : lon < 2 * Real.pi) (hlat0 : 0 ≤ lat)
    (hlat1 : lat ≤ Real.pi / 2)
    (hpole : (Num.epsPole : ℝ) < Real.sqrt 6 * Real.cos (1 / 2 * lat + Real.pi / 4)) :
    ∃ X Y, proj (α := ℝ) lon lat = some (X, Y) ∧ unproj (α := ℝ) X Y = some (lon, lat) :=
  unproj_proj_real lon lat hlon0 hlon1 hlat0 hlat1 hpole

/-- the hypotheses are satisfiable: `(lon, lat) = (1, 0)` -/
example : (0 : ℝ) ≤ 1 ∧ (1 : ℝ) < 2 * Real.pi ∧ (0 : ℝ) ≤ 0 ∧ (0 : ℝ) ≤ Real.pi / 2 := by
  have := Real.two_le_pi
  refine ⟨by norm_num, by linarith, le_refl _, by linarith⟩

/-! ## the whole statement over the reals -/

/-- **`proj` is the Calabretta & Roukema HEALPix projection** (`projSpec`: H = 4, K = 3, stated independently of the code:
    `(lon·4/π, (3/2)·sin lat)` in the equatorial zone, `σ = √(3(1 − |sin lat|))`, `y = ±(2 − σ)`, `x = xc + (lon·4/π − xc)·σ`
    in the caps), for every latitude and `0 ≤ lon < 2π`; for `−2π < lon < 0` the abscissa carries the sign of the longitude -/
theorem proj_eq_spec (lon lat : ℝ) (hlat0 : -(Real.pi / 2) ≤ lat) (hlat1 : lat ≤ Real.pi / 2) :
    (0 ≤ lon → lon < 2 * Real.pi → proj (α := ℝ) lon lat = some (projSpec lon lat)) ∧
    (-(2 * Real.pi) < lon → lon < 0 →
      proj (α := ℝ) lon lat = some (-(projSpec (-lon) lat).1, (projSpec (-lon) lat).2)) :=
  ⟨fun h0 h1 => Hpx.Proj.proj_eq_spec lon lat h0 h1 hlat0 hlat1,
   fun h0 h1 => Hpx.Proj.proj_eq_spec_neg lon lat h0 h1 hlat0 hlat1⟩

/-- **range**: `|x| < 8`, `|y| ≤ 2`, signs of `x`, `y` are the signs of `lon`, `lat` (for `|lon|·4/π < 256`, i.e. 32 turns) -/
theorem proj_range (lon lat : ℝ) (hlon : |lon| * (4 / Real.pi) < 256) (hlat0 : -(Real.pi / 2) ≤ lat)
    (hlat1 : lat ≤ Real.pi / 2) :
    ∃ X Y, proj (α := ℝ) lon lat = some (X, Y) ∧ |X| < 8 ∧ |Y| ≤ 2 ∧ (0 ≤ lon → 0 ≤ X) ∧ (lon < 0 → X ≤ 0) ∧
      (0 ≤ lat → 0 ≤ Y) ∧ (lat < 0 → Y < 0) ∧ (lon < 0 → |lon| < 2 * Real.pi → X < 0) :=
  Hpx.Proj.proj_range lon lat hlon hlat0 hlat1

/-- **`unproj ∘ proj = id`**, all four sign quadrants, `|lon| < 2π`, every latitude on the near side of the code's pole
    threshold (exact longitude, not only modulo 2π) -/
theorem unproj_proj (lon lat : ℝ) (hlon : |lon| < 2 * Real.pi) (hlat0 : -(Real.pi / 2) ≤ lat) (hlat1 : lat ≤ Real.pi / 2)
    (hpole : (Num.epsPole : ℝ) < Real.sqrt 6 * Real.cos (|lat| / 2 + Real.pi / 4)) :
    ∃ X Y, proj (α := ℝ) lon lat = some (X, Y) ∧ unproj (α := ℝ) X Y = some (lon, lat) :=
  unproj_proj_full lon lat hlon hlat0 hlat1 hpole

/-- … and **at the pole**: the latitude is recovered exactly and the longitude returned is that of the facet centre (any
    longitude denotes the same point there) -/
theorem unproj_proj_pole (lon lat : ℝ) (hlon : |lon| < 2 * Real.pi) (hlat : |lat| = Real.pi / 2) :
    ∃ k : ℕ, k < 4 ∧ (k : ℝ) ≤ |lon| * 2 / Real.pi ∧ |lon| * 2 / Real.pi < k + 1 ∧
      proj (α := ℝ) lon lat = some (sgn lon (2 * k + 1), sgn lat 2) ∧
      unproj (α := ℝ) (sgn lon (2 * k + 1)) (sgn lat 2) = some (sgn lon ((2 * k + 1) * (Real.pi / 4)), lat) :=
  unproj_proj_at_pole lon lat hlon hlat

/-- **`proj ∘ unproj = id`** on the projected domain (`|x| < 8`, `|y| ≤ 2`, inside the Collignon triangles in the caps,
    right edges excluded: `proj_unproj_right_edge`), away from the pole threshold.  `hneg` excludes, over ℝ only, the
    points of negative abscissa whose longitude is exactly `-0` (at `Float` the sign bit of `-0.0` keeps the round trip) -/
theorem proj_unproj (x y : ℝ) (hd : InProjDomain x y) (hpole : (Num.epsPole : ℝ) < 2 - |y|)
    (hneg : x < 0 → 1 < |y| → |x| ≠ |y| - 1) :
    ∃ lon lat, unproj (α := ℝ) x y = some (lon, lat) ∧ -(Real.pi / 2) ≤ lat ∧ lat ≤ Real.pi / 2 ∧
      |lon| < 2 * Real.pi ∧ proj (α := ℝ) lon lat = some (x, y) :=
  Hpx.Proj.proj_unproj x y hd hpole hneg

/-- on (or right of) the right edge of a north Collignon triangle `unproj` returns the seam meridian, which `proj` maps to
    the left edge of the next triangle — the same point of the sphere -/
theorem proj_unproj_right_edge (k : ℕ) (hk : k < 4) (x y : ℝ) (h2 : x < 2 * k + 2) (hy1 : 1 < y) (hy2 : y ≤ 2)
    (hpole : (Num.epsPole : ℝ) < 2 - y) (ht : 2 - y ≤ x - (2 * k + 1)) :
    ∃ lat, unproj (α := ℝ) x y = some ((2 * k + 2) * (Real.pi / 4), lat) ∧
      proj (α := ℝ) ((2 * k + 2) * (Real.pi / 4)) lat = some ((((2 * k + 3) % 8 : ℕ) : ℝ) - (2 - y), y) :=
  proj_unproj_clamped_right k hk x y h2 hy1 hy2 hpole ht

/-- `x = ±8` (the closing meridian) un-projects to longitude 0, which projects to `x = 0` -/
theorem proj_unproj_at_eight (y : ℝ) (hy : |y| ≤ 1) :
    ∃ lat, unproj (α := ℝ) 8 y = some (0, lat) ∧ unproj (α := ℝ) (-8) y = some (0, lat) ∧
      proj (α := ℝ) 0 lat = some (0, y) := Hpx.Proj.proj_unproj_at_eight y hy

/-- **`base_cell_from_proj_coo`**: for every point of the domain the result is a base cell `< 12` whose closed diamond
    `|x − Xb| + |y − Yb| ≤ 1` (x modulo 8) contains the point, with the **border convention** made explicit: the point is
    never on a northern (NE/NW) edge of the returned cell — a shared border goes to the cell north of it — except on the
    outer edge of a north polar triangle, which has no neighbour in the plane -/
theorem base_cell_from_proj_coo_spec (x y : ℝ) (hx0 : 0 ≤ x) (hx8 : x < 8) (hy : |y| ≤ 2)
    (hcap : 1 < |y| → ∃ k : ℕ, k < 4 ∧ |x - (2 * k + 1)| ≤ 2 - |y|)
    (hne : 1 < y → y < 2 → ∀ k : ℕ, k < 4 → x - (2 * k + 1) ≠ 2 - y) :
    ∃ b, baseCellFromProjCoo (α := ℝ) false x y = some b ∧ b < 12 ∧ ∃ m : ℤ,
      |x - 8 * m - cellCx b| + |y - cellCy b| ≤ 1 ∧
      (|x - 8 * m - cellCx b| + (y - cellCy b) < 1 ∨ (b < 4 ∧ 1 ≤ y)) :=
  base_cell_from_proj_coo_spec_border x y hx0 hx8 hy hcap hne

/-- on the excluded open NE edge of a north triangle the code returns the east neighbour: in the plane its diamond does
    not contain the point, on the sphere (seam identification `x ↦ x + 2(y − 1)`) it does -/
theorem base_cell_ne_edge (k : ℕ) (hk : k < 4) (x y : ℝ) (hy1 : 1 < y) (hy2 : y < 2) (hx : x = 2 * k + 1 + (2 - y)) :
    baseCellFromProjCoo (α := ℝ) false x y = some ((k + 1) % 4) ∧ InCell ((k + 1) % 4) (x + 2 * (y - 1)) y ∧
      ¬ InCell ((k + 1) % 4) x y := base_cell_north_east_edge k hk x y hy1 hy2 hx

/-- end to end: the base cell of a projected position contains it, poles included -/
theorem base_cell_of_projected (lon lat : ℝ) (hlon0 : 0 ≤ lon) (hlon1 : lon < 2 * Real.pi)
    (hlat0 : -(Real.pi / 2) ≤ lat) (hlat1 : lat ≤ Real.pi / 2) :
    ∃ X Y b, proj (α := ℝ) lon lat = some (X, Y) ∧ baseCellFromProjCoo (α := ℝ) false X Y = some b ∧ b < 12 ∧
      InCell b X Y := base_cell_of_proj lon lat hlon0 hlon1 hlat0 hlat1

end Hpx.C17
