import HpxVerif.Model.Proj

/-!
# C17 — HEALPix projection and de-projection are inverse, in range, base-cell exact

Proved for every input of every numeric instance (every `f64` bit pattern at `Float`, NaN included):
* `proj_guard`, `unproj_guard`: arguments failing `-π/2 ≤ lat ≤ π/2` / `-2 ≤ y ≤ 2` are rejected;
* `base_cell_total`: without debug assertions `base_cell_from_proj_coo` returns a base cell `< 12` for **every** pair of
  inputs — this is the repaired behaviour of finding F10 (before the `fix:` commit the value could be 8 for base cell 4,
  or ≥ 12 on polar-cap seams); `base_cell_offset_in_range`: the quarter offset of `pm1_offset_decompose` is one of
  1, 3, 5, 7.
Open statements (over the reals): `proj_eq_spec`, `unproj_proj`, `proj_unproj`, `base_cell_from_proj_coo_spec`;
validated by the bit-exact correspondence on `proj`, `unproj`, `base_cell_from_proj_coo` and by oracles against an
independent implementation of the Calabretta & Roukema formulae.
-/

namespace Hpx.C17
open Hpx Hpx.Proj

theorem proj_guard {α : Type} [Num α] (lon lat : α) (h : checkLat lat = false) : proj lon lat = none := by
  unfold proj; simp [h]

theorem unproj_guard {α : Type} [Num α] (x y : α) (h : checkY y = false) : unproj x y = none := by
  unfold unproj; simp [h]

theorem base_cell_offset_in_range {α : Type} [Num α] (x : α) :
    (pm1OffsetDecompose x).1 = 1 ∨ (pm1OffsetDecompose x).1 = 3 ∨ (pm1OffsetDecompose x).1 = 5 ∨
    (pm1OffsetDecompose x).1 = 7 := by
  unfold pm1OffsetDecompose
  simp only []
  generalize Num.truncU8 x = n
  have h1 : (n ||| 1) &&& 7 ≤ 7 := Nat.and_le_right
  have h2 : ((n ||| 1) &&& 7) % 2 = 1 := by
    rw [← Nat.and_one_is_mod, Nat.and_assoc, show (7 &&& 1 : Nat) = 1 by decide, Nat.and_one_is_mod]
    rw [Nat.or_mod_two_eq_one]; right; rfl
  omega

theorem baseCellFinish_lt (i j a b : Nat) : baseCellFinish i j a b < 12 := by
  unfold baseCellFinish
  simp only []
  have h3 : (i + (b >>> a)) % 256 &&& 3 ≤ 3 := Nat.and_le_right
  rw [Nat.shiftLeft_eq]
  split
  · omega
  · split <;> omega

/-- release profile: a base cell `< 12` for every input -/
theorem base_cell_total {α : Type} [Num α] (x y : α) :
    ∃ b, baseCellFromProjCoo false x y = some b ∧ b < 12 := by
  unfold baseCellFromProjCoo
  simp only [Bool.false_and, Bool.false_eq_true, if_false]
  exact ⟨_, rfl, baseCellFinish_lt _ _ _ _⟩

end Hpx.C17
