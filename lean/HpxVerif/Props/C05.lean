import HpxVerif.Lemmas.CoverLemmas

/-!
# C05 — cone coverage never misses a cell that the cone touches

What a proof can carry, and does (for **every classifier**, i.e. whatever the floating-point tests answer):
* `cover_rec_structure`: the descent returns a well-formed cell list inside the root cell with depths between the
  root's and the target's (children visited in z-order);
* `cover_rec_no_miss`: if the classifier never skips a cell containing a point of the region, every point of the region
  lying in a root cell lies in a cell of the output — the no-miss property of the recursion, relative to the
  classifier's soundness;
* `allsky_exact`: a radius `≥ π` yields the 12 base cells, unconditionally, for every numeric instance.
What it cannot (see DESIGN.md, C16): that the empirical envelopes `D_δ` bound the true centre-to-point distance of every
visited cell, and that the root cells cover the cone.  These are *searched* by the witness oracle on every run
(2 000 / 12 000 cones; radii log-uniform 1e-9..π, within ±5 % of every table entry, > π/2; centres on seams and poles;
`delta_depth` 0..4); findings F4, F14, F15 were found this way and repaired, the consequences of F12/F13 (polar caps) are
recorded as known findings.  The whole pipeline is tied bit-exactly: `cone_coverage_approx(_custom)` entry by entry.
-/

namespace Hpx.C05
open Hpx Hpx.Cover Hpx.Bmoc

theorem cover_rec_structure (target : Nat) (κ : Nat → Nat → Nat → Option Verdict) (D : Nat) (hD : target ≤ D)
    (fuel depth hash level : Nat) (out : List Cell) (hd : depth ≤ target)
    (h : coverRec target κ fuel depth hash level = some out) :
    WF D out ∧ ∀ c ∈ out, lo D ⟨depth, hash, true⟩ ≤ lo D c ∧ hi D c ≤ hi D ⟨depth, hash, true⟩ ∧
      depth ≤ c.depth ∧ c.depth ≤ target :=
  coverRec_below target κ D hD fuel depth hash level out hd h

theorem cover_rec_no_miss {P : Type} (inCell : Nat → Nat → P → Prop) (R : P → Prop)
    (target : Nat) (κ : Nat → Nat → Nat → Option Verdict)
    (hcover : ∀ d h q, inCell d h q → inCell (d + 1) (h <<< 2) q ∨ inCell (d + 1) (h <<< 2 ||| 1) q ∨
      inCell (d + 1) (h <<< 2 ||| 2) q ∨ inCell (d + 1) (h <<< 2 ||| 3) q)
    (hskip : ∀ d h l, κ d h l = some .skip → ∀ q, inCell d h q → ¬ R q)
    (fuel depth hash level : Nat) (out : List Cell) (h : coverRec target κ fuel depth hash level = some out)
    (q : P) (hq : inCell depth hash q) (hR : R q) : ∃ c ∈ out, inCell c.depth c.hash q :=
  coverRec_no_miss inCell R target κ (fun d h q _ => hcover d h q) hskip fuel depth hash level out h q hq hR

/-- `r ≥ π`: the whole sky, whatever the centre (NaN centres included) -/
theorem allsky_exact {α : Type} [Num α] (cfg : Cfg) (depth : Nat) (lon lat r : α) (hr : Num.ge r (Num.pi : α) = true) :
    coneInternal cfg depth lon lat r = some ((List.range 12).map fun h => { depth := 0, hash := h, full := true }) := by
  unfold coneInternal; simp [hr]

end Hpx.C05
