import HpxVerif.Lemmas.CoverLemmas
import HpxVerif.Lemmas.ConeReal
import HpxVerif.Props.C16
import HpxVerif.Lemmas.CellExtent4
import HpxVerif.Lemmas.ConeBmoc3

set_option autoImplicit false   -- an unknown identifier in a statement is an error, never a new variable

/-!
# C05 — cone coverage never misses a cell that the cone touches

What a proof can carry, and does (for **every classifier**, i.e. whatever the floating-point tests answer):
* `cover_rec_structure`: the descent returns a well-formed cell list inside the root cell with depths between the
  root's and the target's (children visited in z-order);
* `cover_rec_no_miss`: if the classifier never skips a cell containing a point of the region, every point of the region
  lying in a root cell lies in a cell of the output — the no-miss property of the recursion, relative to the
  classifier's soundness;
* `allsky_exact`: a radius `≥ π` yields the 12 base cells, unconditionally, for every numeric instance.
* over ℝ (`shs_is_haversine`, `skip_sound`, `cone_scheme_no_miss_real`): the compared quantity is the haversine of the
  angular distance, a skipped cell has no point within `r` of the cone centre provided its points are within the level's
  `D` of its centre, hence **the scheme misses nothing under the envelope hypothesis H1** (Mathlib's triangle inequality
  for angles).
What it cannot (see DESIGN.md, C16): that the empirical envelopes `D_δ` bound the true centre-to-point distance of every
visited cell, and that the root cells cover the cone.  These are *searched* by the witness oracle on every run
(2 000 / 12 000 cones; radii log-uniform 1e-9..π, within ±5 % of every table entry, > π/2; centres on seams and poles;
`delta_depth` 0..4); findings F4, F14, F15 were found this way and repaired, the consequences of F12/F13 (polar caps) are
recorded as known findings.  The whole pipeline is tied bit-exactly: `cone_coverage_approx(_custom)` entry by entry.
-/

namespace Hpx.C05
open Hpx Hpx.Cover Hpx.Bmoc

theorem cover_rec_structure (target : Nat) (κ : Nat → Nat → Nat → Option Verdict) (D : Nat) (hD : target ≤ D)
    (fuel depth hash level : Nat) (out : List Cell) (hd : depth ≤ target)
    (h : coverRec target κ fuel depth hash level = some out) :
    WF D out ∧ ∀ c ∈ out, lo D ⟨depth, hash, true⟩ ≤ lo D c ∧ hi D c ≤ hi D ⟨depth, hash, true⟩ ∧
      depth ≤ c.depth ∧ c.depth ≤ target :=
  coverRec_below target κ D hD fuel depth hash level out hd h

theorem cover_rec_no_miss {P : Type} (inCell : Nat → Nat → P → Prop) (R : P → Prop)
    (target : Nat) (κ : Nat → Nat → Nat → Option Verdict)
    (hcover : ∀ d h q, inCell d h q → inCell (d + 1) (h <<< 2) q ∨ inCell (d + 1) (h <<< 2 ||| 1) q ∨
      inCell (d + 1) (h <<< 2 ||| 2) q ∨ inCell (d + 1) (h <<< 2 ||| 3) q)
    (hskip : ∀ d h l, κ d h l = some .skip → ∀ q, inCell d h q → ¬ R q)
    (fuel depth hash level : Nat) (out : List Cell) (h : coverRec target κ fuel depth hash level = some out)
    (q : P) (hq : inCell depth hash q) (hR : R q) : ∃ c ∈ out, inCell c.depth c.hash q :=
  coverRec_no_miss inCell R target κ (fun d h q _ => hcover d h q) hskip fuel depth hash level out h q hq hR

/-- `r ≥ π`: the whole sky, whatever the centre (NaN centres included) -/
theorem allsky_exact {α : Type} [Num α] (cfg : Cfg) (depth : Nat) (lon lat r : α) (hr : Num.ge r (Num.pi : α) = true) :
    coneInternal cfg depth lon lat r = some ((List.range 12).map fun h => { depth := 0, hash := h, full := true }) := by
  unfold coneInternal; simp [hr]

/-- **over ℝ, the haversine**: the quantity the classifier compares is `sin²(d/2)` of the angular distance `d` between the
    cone centre and the cell centre (Mathlib's `InnerProductGeometry.angle` of the two unit vectors) -/
theorem shs_is_haversine (coneLon coneLat : ℝ) (p : ℝ × ℝ) :
    shs (α := ℝ) coneLon coneLat (Num.cos coneLat) p = Real.sin (adist (coneLon, coneLat) p / 2) ^ 2 :=
  shs_real coneLon coneLat p

/-- **over ℝ, skip is sound**: a cell is skipped only if no point within `D` of its centre is within `r` of the cone
    centre (`sin²(x/2)` monotone on `[0, π]`, cap at `π`, triangle inequality on the sphere) -/
theorem skip_sound (coneLon coneLat r D : ℝ) (c : ℝ × ℝ) (hr : 0 ≤ r) (hD : 0 ≤ D)
    (hskip : Num.le (shs (α := ℝ) coneLon coneLat (Num.cos coneLat) c) (toShsMinMax r D).max = false)
    (q : ℝ × ℝ) (hq : adist c q ≤ D) : r < adist (coneLon, coneLat) q :=
  cone_skip_sound coneLon coneLat r D c hr hD hskip q hq

/-- **over ℝ, the cone scheme misses nothing, given the envelope hypothesis `H1`** (every point of a visited cell is within
    the `D` of its recursion level of the cell centre — the geometric fact that C16 searches): every point of the cone lying
    in the start cell lies in a cell of the output of the model's descent with the model's classifier. -/
theorem cone_scheme_no_miss_real (cfg : Cfg) (lon lat r : ℝ) (hr : 0 ≤ r) (dists : List ℝ) (hD : ∀ D ∈ dists, 0 ≤ D)
    (inCell : Nat → Nat → ℝ × ℝ → Prop) (target ds : Nat)
    (hcover : ∀ d h q, d ≠ target → inCell d h q → inCell (d + 1) (h <<< 2) q ∨ inCell (d + 1) (h <<< 2 ||| 1) q ∨
      inCell (d + 1) (h <<< 2 ||| 2) q ∨ inCell (d + 1) (h <<< 2 ||| 3) q)
    (H1 : ∀ d h c D q, ds ≤ d → Hash.center (α := ℝ) cfg d h = some c → dists[d - ds]? = some D → inCell d h q →
      adist c q ≤ D)
    (fuel root : Nat) (out : List Cell)
    (h : coverRec target (coneClassifier (α := ℝ) cfg lon lat (Num.cos lat) (dists.map (toShsMinMax r))) fuel ds root 0 = some out)
    (q : ℝ × ℝ) (hq : inCell ds root q) (hin : adist (lon, lat) q ≤ r) :
    ∃ c ∈ out, inCell c.depth c.hash q :=
  cone_scheme_no_miss cfg lon lat r hr dists hD inCell target ds hcover H1 fuel root out h q hq hin

/-- the table of limits that selects the starting depth is regular (each depth halves the limit, relative excess
    `≈ 0.05·2^-k`): the obligation of C16 about the constants of the source, required here because the start cells of this
    coverage are chosen with that table -/
theorem start_depth_table_regular :
    (∀ j, j < 24 →
      C16.dyHalvingLo (j + 2) 1 25 (Gen.smallerEdge2OpEdgeDistDyadic.getD (j + 2) (0, 0)) (Gen.smallerEdge2OpEdgeDistDyadic.getD (j + 3) (0, 0)) = true ∧
      C16.dyHalvingHi (j + 2) 1 10 (Gen.smallerEdge2OpEdgeDistDyadic.getD (j + 2) (0, 0)) (Gen.smallerEdge2OpEdgeDistDyadic.getD (j + 3) (0, 0)) = true) :=
  C16.table_halving.1


/-! ## the envelope hypothesis H1 discharged in the equatorial region: an unconditional no-miss theorem

`InCellEq d h q` (`Lemmas/CellExtent3.lean`): `(d, h)` is a cell whose centre lies strictly inside the equatorial band and
`q` is a position of its closed diamond.  For every cone with `|lat| + r` below the transition latitude the list of radii
the crate computes (`largest_center_to_vertex_distances_with_radius`) satisfies H1 on the cells that matter, so the cone
scheme over ℝ misses nothing - no geometric hypothesis left (the farthest point of an equatorial cell from its centre is a
vertex: `eqr_cell_extent`, by concavity of the cosine of the distance along straight segments of the projection plane; the
envelope dominates the vertex distances: C16). -/

section EquatorialGeometry
open Hpx Hpx.Hash Hpx.C2V Hpx.C2VReal Hpx.Proj Hpx.Cover Hpx.CellReal Hpx.EnvelopeReal Hpx.TopoLift Hpx.CellExtent Real

/-- **`cone_no_miss_equatorial_gen`** (ℝ, release profile): `cone_no_miss_equatorial` for EVERY starting depth
    `ds ≤ target ≤ 29` (large cones: `ds = 0, 1`).  Cone `(lon, lat, r)` with `0 ≤ r`, `|lat| + r < tl`; `dists` the list of
    `largest_center_to_vertex_distances_with_radius(ds, target + 1, lon, lat, r)`.  If the descent of the model from a
    start cell `root` returns `out`, every position `q` of the cone that lies in `root`, a strictly equatorial cell, lies
    in a cell of `out`. -/
theorem cone_no_miss_equatorial (cfg : Cfg) (lon lat r : ℝ) (hr : 0 ≤ r) (hA : |lat| + r < tl) (ds target : ℕ)
    (hdt : ds ≤ target) (ht : target ≤ 29) (dists : List ℝ)
    (hdists : largestC2VsWithRadius false ds (target + 1) lon lat r = some dists) (fuel root : ℕ)
    (out : List Bmoc.Cell)
    (h : coverRec target (coneClassifier (α := ℝ) cfg lon lat (Num.cos lat) (dists.map (toShsMinMax r))) fuel ds root 0
      = some out)
    (q : ℝ × ℝ) (hq : InCellEq ds root q) (hin : adist (lon, lat) q ≤ r) :
    ∃ c ∈ out, InCellEq c.depth c.hash q :=
  Hpx.CellExtent.cone_no_miss_equatorial_gen cfg lon lat r hr hA ds target hdt ht dists hdists fuel root out h q hq hin

/-- **`H1_equatorial_cone`**: the envelope hypothesis `H1` of `Cover.cone_scheme_no_miss` with
    `inCell d h q := InCellEq d h q ∧ adist (lon, lat) q ≤ r` (positions of strictly equatorial cells that are in the cone)
    and `dists` the list computed by `largest_center_to_vertex_distances_with_radius(ds, target + 1, lon, lat, r)`
    (release profile), for every cone with `|lat| + r < tl` and every `ds ≤ target ≤ 29` (depths 0 and 1 included). -/
theorem h1_equatorial_cone (cfg : Cfg) (lon lat r : ℝ) (hA : |lat| + r < tl) (ds target : ℕ) (hdt : ds ≤ target)
    (ht : target ≤ 29) (dists : List ℝ)
    (hdists : largestC2VsWithRadius false ds (target + 1) lon lat r = some dists) :
    ∀ d h c D q, ds ≤ d → Hash.center (α := ℝ) cfg d h = some c → dists[d - ds]? = some D →
      (InCellEq d h q ∧ adist (lon, lat) q ≤ r) → adist c q ≤ D :=
  Hpx.CellExtent.H1_equatorial_cone cfg lon lat r hA ds target hdt ht dists hdists


end EquatorialGeometry


/-! ## no-miss on the RETURNED BMOC of `cone_coverage_approx` (and of the `custom` variant), equatorial cones, both profiles

`IsStartCell cfg lon lat r ds root` (`Lemmas/ConeBmoc2.lean`) is the explicit start list of the code (12 base cells, or the
cell of the centre at the best starting depth and its neighbours); the only hypothesis left is that the position lies in
a strictly equatorial start cell (the "nine cells" claim of C16).  The effect of `pack` (parents replacing four full
children) and of `to_lower_depth` is included.  In the small-cone branch the reported cell is the ancestor at the requested
depth of the tested cell; it can be centred on the transition latitude, for which `InCellEq` is not defined: the statement
there is on cell numbers / the plane diamond (`InCellPlane`), upgraded to `InCellEq` when the ancestor is strictly equatorial. -/

section OnTheReturnedBmoc
open Hpx Hpx.Hash Hpx.C2V Hpx.C2VReal Hpx.Proj Hpx.Cover Hpx.CellReal Hpx.EnvelopeReal Hpx.TopoLift Hpx.CellExtent Hpx.Bmoc Hpx.Tightness Hpx.EConeEq Hpx.ConeBmoc Real

/-- **T1, `cone_coverage_approx_no_miss_equatorial`** (ℝ, both profiles, every `depth ≤ 29`).  Cone `(lon, lat, r)` with
    `0 ≤ r`, `|lat| + r < tl`; `b` the BMOC returned by `cone_coverage_approx(depth, lon, lat, r)`.  For every start cell
    `root` of depth `ds ≤ depth` (`IsStartCell`: one of the twelve base cells, or the cell of the cone centre at the
    starting depth or one of its neighbours) and every position `q` within `r` of the cone centre that lies in `root`, a
    strictly equatorial cell, there is an ENTRY of `b` whose cell contains `q` — whether that entry is a cell emitted by
    the descent or a parent created by the compaction. -/
theorem cone_coverage_approx_no_miss_equatorial (cfg : Cfg) (depth : ℕ) (lon lat r : ℝ) (hr : 0 ≤ r)
    (hA : |lat| + r < tl) (b : BMOC) (h : coneCoverageApprox (α := ℝ) cfg depth lon lat r = some b)
    (ds root : ℕ) (hst : IsStartCell cfg lon lat r ds root) (hds : ds ≤ depth) (q : ℝ × ℝ)
    (hq : InCellEq ds root q) (hin : adist (lon, lat) q ≤ r) :
    ∃ e ∈ b.entries, InCellEq (decode e depth).depth (decode e depth).hash q :=
  Hpx.ConeBmoc.cone_coverage_approx_no_miss_equatorial cfg depth lon lat r hr hA b h ds root hst hds q hq hin

/-- **T1, small-cone branch `depth < ds = best_starting_depth(r)`**: the reported cells are the ancestors at `depth` of the
    tested cells of depth `ds`.  For every start cell `root` (strictly equatorial) that contains a position `q` of the cone,
    the BMOC has the entry `(depth, root >> 2(ds − depth))`, flagged partial, and `q` is a position of that cell in the
    sense of `InCellPlane` — and of `InCellEq` as soon as that ancestor is strictly equatorial. -/
theorem cone_coverage_approx_no_miss_small (cfg : Cfg) (depth : ℕ) (lon lat r : ℝ) (hr : 0 ≤ r)
    (hA : |lat| + r < tl) (b : BMOC) (h : coneCoverageApprox (α := ℝ) cfg depth lon lat r = some b)
    (ds root : ℕ) (hst : IsStartCell cfg lon lat r ds root) (hds : depth < ds) (q : ℝ × ℝ)
    (hq : InCellEq ds root q) (hin : adist (lon, lat) q ≤ r) :
    ∃ e ∈ b.entries, (decode e depth).depth = depth ∧ (decode e depth).hash = root >>> ((ds - depth) <<< 1) ∧
      (decode e depth).full = false ∧ InCellPlane depth (root >>> ((ds - depth) <<< 1)) q ∧
      (|pcy depth (root >>> ((ds - depth) <<< 1))| < 1 → InCellEq depth (root >>> ((ds - depth) <<< 1)) q) :=
  Hpx.ConeBmoc.cone_coverage_approx_no_miss_small cfg depth lon lat r hr hA b h ds root hst hds q hq hin

/-- **T1 as a statement on the three-valued state**: the cell number `x` of `q` at the requested depth is not absent
    from the returned BMOC -/
theorem cone_coverage_approx_state_not_absent (cfg : Cfg) (depth : ℕ) (lon lat r : ℝ) (hr : 0 ≤ r)
    (hA : |lat| + r < tl) (b : BMOC) (h : coneCoverageApprox (α := ℝ) cfg depth lon lat r = some b)
    (ds root : ℕ) (hst : IsStartCell cfg lon lat r ds root) (q : ℝ × ℝ)
    (hq : InCellEq ds root q) (hin : adist (lon, lat) q ≤ r) :
    ∃ x, InCellPlane depth x q ∧ (ds ≤ depth → InCellEq depth x q) ∧ stOf depth b.cells x ≠ .abs :=
  Hpx.ConeBmoc.cone_coverage_approx_state_not_absent cfg depth lon lat r hr hA b h ds root hst q hq hin

/-- **T3, no-miss for `cone_coverage_approx_custom`, `delta_depth ≠ 0`** (ℝ, both profiles).  The descent is run at
    `deep = depth + delta_depth ≤ 29`, compacted, then degraded to `depth`.  For every start cell `root` (of the descent at
    `deep`; any start depth) that is strictly equatorial and every position `q` of the cone in it, some ENTRY of the returned
    BMOC contains `q` (plane sense; `inCellPlane_eq`: in the sense of `InCellEq` when the entry is strictly equatorial):
    the ancestor at `depth` of a reported deeper cell is kept by `to_lower_depth`. -/
theorem cone_coverage_approx_custom_no_miss_equatorial (cfg : Cfg) (depth deltaDepth : ℕ) (hdd : deltaDepth ≠ 0)
    (lon lat r : ℝ) (hr : 0 ≤ r) (hA : |lat| + r < tl) (b : BMOC)
    (h : coneCoverageApproxCustom (α := ℝ) cfg depth deltaDepth lon lat r = some b)
    (ds root : ℕ) (hst : IsStartCell cfg lon lat r ds root) (q : ℝ × ℝ)
    (hq : InCellEq ds root q) (hin : adist (lon, lat) q ≤ r) :
    ∃ e ∈ b.entries, InCellPlane (decode e depth).depth (decode e depth).hash q ∧
      ∃ x, InCellPlane (depth + deltaDepth) x q ∧ (ds ≤ depth + deltaDepth → InCellEq (depth + deltaDepth) x q) ∧
        x / 4 ^ (depth + deltaDepth - (decode e depth).depth) = (decode e depth).hash :=
  Hpx.ConeBmoc.cone_coverage_approx_custom_no_miss_equatorial cfg depth deltaDepth hdd lon lat r hr hA b h ds root hst q hq hin


end OnTheReturnedBmoc

end Hpx.C05
