import HpxVerif.Model.Bilinear
import HpxVerif.Lemmas.NumReal

/-!
# C19 — bilinear interpolation returns a partition of unity over the right cells

The weight formulas of `bilinear_interpolation` are one generic definition (`Bilinear.weights`); here it is
instantiated at `ℝ` (exact arithmetic, the literals 0.5, 0.75, 1.25, 1.5 being the exact values of the doubles in the
source).  Proved for all offsets:
* `weights_sum_one`: in each of the 4 quadrants × {corner present, corner missing} the four weights sum to 1;
* `weights_nonneg`: they are non-negative when `(dx, dy) ∈ [0,1]²` lies in the quadrant (`dx ≤ ½` / `> ½` …);
* `weights_center`: at `dx = dy = ½` (quadrant 0) the weight of the cell itself is 1 and the three others are 0;
* `weights_missing_zero`: when the corner neighbour is missing its slot carries weight 0;
* `slots_have_cell`: the cell itself is one of the four slots, the corner slot is the cardinal direction of the
  quadrant and the two others are ordinal (the directions that always exist).
Structural statement about the cells (`bilinear_cells`: the other three are entries of `neighbours h`) and the float
rounding of the weights are validated by the bit-exact correspondence and the oracle.
-/

namespace Hpx.C19
open Hpx Hpx.Bilinear

theorem c050_real : (c050 : ℝ) = 1 / 2 := lit_050
theorem c075_real : (c075 : ℝ) = 3 / 4 := lit_075
theorem c125_real : (c125 : ℝ) = 5 / 4 := lit_125
theorem c150_real : (c150 : ℝ) = 3 / 2 := lit_150
theorem zero_real : (Num.zero : ℝ) = 0 := by show ((0 : ℕ) : ℝ) = 0; norm_num

/-- the four weights sum to one, in every quadrant, corner present or missing, for all real offsets -/
theorem weights_sum_one (q : Nat) (hq : q < 4) (present : Bool) (dx dy : ℝ) :
    (weights q present dx dy).sum = 1 := by
  have h : q = 0 ∨ q = 1 ∨ q = 2 ∨ q = 3 := by omega
  rcases h with rfl | rfl | rfl | rfl <;> cases present <;>
    simp only [weights, List.sum_cons, List.sum_nil, c050_real, c075_real, c125_real, c150_real, zero_real] <;> ring

/-- offsets in the unit square belonging to quadrant `q` (`xcoo = dx > ½`, `ycoo = dy > ½`, `q = 2·ycoo + xcoo`) -/
def InQuadrant (q : Nat) (dx dy : ℝ) : Prop :=
  0 ≤ dx ∧ dx ≤ 1 ∧ 0 ≤ dy ∧ dy ≤ 1 ∧
  (if q % 2 = 1 then 1 / 2 < dx else dx ≤ 1 / 2) ∧ (if q / 2 = 1 then 1 / 2 < dy else dy ≤ 1 / 2)

/-- the weights are non-negative on their quadrant -/
theorem weights_nonneg (q : Nat) (hq : q < 4) (present : Bool) (dx dy : ℝ) (h : InQuadrant q dx dy) :
    ∀ w ∈ weights q present dx dy, 0 ≤ w := by
  obtain ⟨h0, h1, h2, h3, hx, hy⟩ := h
  have hcases : q = 0 ∨ q = 1 ∨ q = 2 ∨ q = 3 := by omega
  rcases hcases with rfl | rfl | rfl | rfl <;> cases present <;>
    simp only [weights, List.mem_cons, List.mem_nil_iff, or_false, c050_real, c075_real, c125_real, c150_real,
      zero_real] <;> norm_num at hx hy <;>
    (intro w hw; rcases hw with rfl | rfl | rfl | rfl <;> first | exact le_refl _ | (apply mul_nonneg <;> linarith))

/-- at the centre of the cell the whole weight is on the cell itself -/
theorem weights_center : weights 0 true (1 / 2 : ℝ) (1 / 2) = [0, 0, 0, 1] ∧ slots 0 = [MW.S, MW.SE, MW.SW, MW.C] := by
  constructor
  · simp only [weights, c050_real]; norm_num
  · rfl

/-- a missing corner contributes weight 0 and its slot is the corner slot -/
theorem weights_missing_zero (q : Nat) (hq : q < 4) (dx dy : ℝ) :
    ∃ k : Nat, (slots q)[k]? = some (corner q) ∧ (weights q false dx dy)[k]? = some 0 := by
  have hcases : q = 0 ∨ q = 1 ∨ q = 2 ∨ q = 3 := by omega
  rcases hcases with rfl | rfl | rfl | rfl
  · exact ⟨0, rfl, by simp [weights, zero_real]⟩
  · exact ⟨1, rfl, by simp [weights, zero_real]⟩
  · exact ⟨2, rfl, by simp [weights, zero_real]⟩
  · exact ⟨3, rfl, by simp [weights, zero_real]⟩

/-- the cell itself is always one of the four slots; the corner is cardinal, the two remaining slots ordinal -/
theorem slots_have_cell : ∀ q, q < 4 →
    MW.C ∈ slots q ∧ (corner q).isCardinal = true ∧
    ((slots q).filter fun w => w != MW.C && w != corner q).all MW.isOrdinal = true := by
  decide

end Hpx.C19
