import HpxVerif.Model.Bilinear
import HpxVerif.Lemmas.NumReal
import HpxVerif.Lemmas.BilinearReal
import HpxVerif.Lemmas.TopoLift2

set_option autoImplicit false   -- an unknown identifier in a statement is an error, never a new variable

/-!
# C19 — bilinear interpolation returns a partition of unity over the right cells

The weight formulas of `bilinear_interpolation` are one generic definition (`Bilinear.weights`); here it is
instantiated at `ℝ` (exact arithmetic, the literals 0.5, 0.75, 1.25, 1.5 being the exact values of the doubles in the
source).  Proved for all offsets:
* `weights_sum_one`: in each of the 4 quadrants × {corner present, corner missing} the four weights sum to 1;
* `weights_nonneg`: they are non-negative when `(dx, dy) ∈ [0,1]²` lies in the quadrant (`dx ≤ ½` / `> ½` …);
* `weights_center`: at `dx = dy = ½` (quadrant 0) the weight of the cell itself is 1 and the three others are 0;
* `weights_missing_zero`: when the corner neighbour is missing its slot carries weight 0;
* `slots_have_cell`: the cell itself is one of the four slots, the corner slot is the cardinal direction of the
  quadrant and the two others are ordinal (the directions that always exist).
* `bilinear_mean`: corner present ⇒ the weighted mean of the four centres in the cell grid is the position;
  `weights_missing_split`: corner missing ⇒ its share goes half and half to the two adjacent neighbours;
* `bilinear_cells`, `bilinear_panics_iff` (every numeric instance): four pairs, the cell itself always present, the
  others are the entries of `neighbours h` in the slot directions.
The float rounding of the weights is validated by the bit-exact correspondence and the oracle.
-/

namespace Hpx.C19
open Hpx Hpx.Bilinear

theorem c050_real : (c050 : ℝ) = 1 / 2 := lit_050
theorem c075_real : (c075 : ℝ) = 3 / 4 := lit_075
theorem c125_real : (c125 : ℝ) = 5 / 4 := lit_125
theorem c150_real : (c150 : ℝ) = 3 / 2 := lit_150
theorem zero_real : (Num.zero : ℝ) = 0 := by show ((0 : ℕ) : ℝ) = 0; norm_num

/-- the four weights sum to one, in every quadrant, corner present or missing, for all real offsets -/
theorem weights_sum_one (q : Nat) (hq : q < 4) (present : Bool) (dx dy : ℝ) :
    (weights q present dx dy).sum = 1 := by
  have h : q = 0 ∨ q = 1 ∨ q = 2 ∨ q = 3 := by omega
  rcases h with rfl | rfl | rfl | rfl <;> cases present <;>
    simp only [weights, List.sum_cons, List.sum_nil, c050_real, c075_real, c125_real, c150_real, zero_real] <;> ring

/-- offsets in the unit square belonging to quadrant `q` (`xcoo = dx > ½`, `ycoo = dy > ½`, `q = 2·ycoo + xcoo`) -/
def InQuadrant (q : Nat) (dx dy : ℝ) : Prop :=
  0 ≤ dx ∧ dx ≤ 1 ∧ 0 ≤ dy ∧ dy ≤ 1 ∧
  (if q % 2 = 1 then 1 / 2 < dx else dx ≤ 1 / 2) ∧ (if q / 2 = 1 then 1 / 2 < dy else dy ≤ 1 / 2)

/-- the weights are non-negative on their quadrant -/
theorem weights_nonneg (q : Nat) (hq : q < 4) (present : Bool) (dx dy : ℝ) (h : InQuadrant q dx dy) :
    ∀ w ∈ weights q present dx dy, 0 ≤ w := by
  obtain ⟨h0, h1, h2, h3, hx, hy⟩ := h
  have hcases : q = 0 ∨ q = 1 ∨ q = 2 ∨ q = 3 := by omega
  rcases hcases with rfl | rfl | rfl | rfl <;> cases present <;>
    simp only [weights, List.mem_cons, List.mem_nil_iff, or_false, c050_real, c075_real, c125_real, c150_real,
      zero_real] <;> norm_num at hx hy <;>
    (intro w hw; rcases hw with rfl | rfl | rfl | rfl <;> first | exact le_refl _ | (apply mul_nonneg <;> linarith))

/-- at the centre of the cell the whole weight is on the cell itself -/
theorem weights_center : weights 0 true (1 / 2 : ℝ) (1 / 2) = [0, 0, 0, 1] ∧ slots 0 = [MW.S, MW.SE, MW.SW, MW.C] := by
  constructor
  · simp only [weights, c050_real]; norm_num
  · rfl

/-- a missing corner contributes weight 0 and its slot is the corner slot -/
theorem weights_missing_zero (q : Nat) (hq : q < 4) (dx dy : ℝ) :
    ∃ k : Nat, (slots q)[k]? = some (corner q) ∧ (weights q false dx dy)[k]? = some 0 := by
  have hcases : q = 0 ∨ q = 1 ∨ q = 2 ∨ q = 3 := by omega
  rcases hcases with rfl | rfl | rfl | rfl
  · exact ⟨0, rfl, by simp [weights, zero_real]⟩
  · exact ⟨1, rfl, by simp [weights, zero_real]⟩
  · exact ⟨2, rfl, by simp [weights, zero_real]⟩
  · exact ⟨3, rfl, by simp [weights, zero_real]⟩

/-- the cell itself is always one of the four slots; the corner is cardinal, the two remaining slots ordinal -/
theorem slots_have_cell : ∀ q, q < 4 →
    MW.C ∈ slots q ∧ (corner q).isCardinal = true ∧
    ((slots q).filter fun w => w != MW.C && w != corner q).all MW.isOrdinal = true := by
  decide

/-! ## the weighted mean, and the structure of the result -/

open Hpx.BilinearReal in
/-- **`bilinear_mean`**: with the corner neighbour present, in every quadrant and for all real offsets, the weighted mean
    of the four cell centres in the cell grid is the position itself: `Σ wₖ·(i + offsetSe(slotₖ) + ½) = i + dx` and
    `Σ wₖ·(j + offsetSw(slotₖ) + ½) = j + dy` (`dx` runs along the `i` axis, `dy` along the `j` axis) -/
theorem bilinear_mean (q : Nat) (hq : q < 4) (i j dx dy : ℝ) :
    wsum (weights q true dx dy) (slots q) (cenI i) = i + dx ∧
    wsum (weights q true dx dy) (slots q) (cenJ j) = j + dy := Hpx.BilinearReal.bilinear_mean q hq i j dx dy

open Hpx.BilinearReal in
/-- with the corner missing (next to the 8 three-cell points) the corner's share is split half and half between the two
    adjacent ordinal neighbours and the corner slot carries 0 -/
theorem weights_missing_split (q : Nat) (hq : q < 4) (dx dy : ℝ) :
    weights q false dx dy = (slots q).map fun s =>
      if s = corner q then 0
      else if adjacent (corner q) s then wOf q dx dy s + wOf q dx dy (corner q) / 2
      else wOf q dx dy s := weights_missing_eq q hq dx dy

open Hpx.BilinearReal in
/-- **`bilinear_cells`, for every numeric instance** (every `f64` at `Float`): whenever `bilinear_interpolation` returns,
    it returns four `(cell, weight)` pairs; the weights are `weights q present dx dy` in slot order; the cell of the
    position (as returned by `hash_with_dxdy`) is always one of the four; every other cell is the entry of
    `neighbours(h)` in the direction its slot names, except the missing-corner slot, which carries the cell itself -/
theorem bilinear_cells {α : Type} [Num α] (cfg : Cfg) (d : Nat) (lon lat : α) (l : List (Nat × α))
    (hb : bilinear cfg d lon lat = some l) :
    ∃ h dx dy nm, Hash.hashWithDxDy cfg d lon lat = some (h, dx, dy) ∧ Topo.neighbours cfg d h true = some nm ∧
      ∃ cell : MW → Nat,
        l = List.zipWith (fun w wt => (cell w, wt)) (slots (quad dx dy))
              (weights (quad dx dy) (cornerPresent nm (quad dx dy)) dx dy) ∧
        l.length = 4 ∧
        l.map (·.2) = weights (quad dx dy) (cornerPresent nm (quad dx dy)) dx dy ∧
        l.map (·.1) = (slots (quad dx dy)).map cell ∧
        MW.C ∈ slots (quad dx dy) ∧ cell MW.C = h ∧ h ∈ l.map (·.1) ∧
        ∀ w ∈ slots (quad dx dy),
          (w = corner (quad dx dy) ∧ cornerPresent nm (quad dx dy) = false ∧ cell w = h) ∨
          (getN nm w = some (cell w) ∧ (w, cell w) ∈ nm) := bilinear_structure cfg d lon lat l hb

open Hpx.BilinearReal in
/-- it panics only if `hash_with_dxdy` or `neighbours` does, or an ORDINAL neighbour (SE/SW/NE/NW) is missing — which
    never happens (C04: only cardinal neighbours can be missing) -/
theorem bilinear_panics_iff {α : Type} [Num α] (cfg : Cfg) (d : Nat) (lon lat : α) :
    bilinear cfg d lon lat = none ↔
      Hash.hashWithDxDy cfg d lon lat = none ∨
      ∃ h dx dy, Hash.hashWithDxDy cfg d lon lat = some (h, dx, dy) ∧
        (Topo.neighbours cfg d h true = none ∨
         ∃ nm, Topo.neighbours cfg d h true = some nm ∧
           ∃ w ∈ slots (quad dx dy), w.isOrdinal = true ∧ getN nm w = none) := bilinear_none_iff cfg d lon lat

open Hpx.BilinearReal in
/-- **the `unwrap`s of `bilinear_interpolation` never fail** (every numeric instance, every depth `≤ 29`): if
    `hash_with_dxdy` returns a valid cell number, `bilinear_interpolation` returns its four pairs — `neighbours` does not
    panic on a valid cell and the ordinal neighbours SE, SW, NE, NW always exist (C04: only a cardinal neighbour can be
    missing) -/
theorem bilinear_total {α : Type} [Num α] (cfg : Cfg) (d : Nat) (hd : d ≤ 29) (lon lat : α) (h : Nat) (dx dy : α)
    (hH : Hash.hashWithDxDy cfg d lon lat = some (h, dx, dy)) (hh : h < 12 * 4 ^ d) :
    ∃ l, bilinear cfg d lon lat = some l := by
  cases hb : bilinear cfg d lon lat with
  | some l => exact ⟨l, rfl⟩
  | none =>
    exfalso
    rcases (bilinear_none_iff cfg d lon lat).1 hb with h0 | ⟨h', dx', dy', hH', hrest⟩
    · rw [hH] at h0; cases h0
    · rw [hH] at hH'; cases hH'
      rcases hrest with hn | ⟨nm, hnm, w, _, hw, hget⟩
      · rw [TopoLift.neighbours_spec cfg d hd h hh true] at hn; cases hn
      · obtain ⟨h2, _, _, _, hall⟩ := TopoLift.ordinal_neighbours_exist cfg d hd h hh w hw
        have hf := (hall true nm hnm).2
        unfold getN at hget
        rw [hf] at hget
        cases hget

end Hpx.C19
