import HpxVerif.Model.C2V

/-!
# C16 — cell-size helper bounds really are bounds

Proved (the table and the unrolled binary search are **regenerated from the source on every run**):
* `table_decreasing`: the 30 tabulated limits are strictly decreasing (exact comparison of the doubles as dyadic
  rationals `num / 2^exp`), and `table_dyadic_matches_bits`: those rationals are the values of the bit patterns;
* `best_starting_depth_spec`: for **every** comparison function and table (so for `f64 <` on the real table, NaN
  included): whenever the guard `r < T[0]` passes, the returned depth `d ≤ 29` satisfies `r < T[d]` and
  (`d = 29` or `¬ r < T[d+1]`) — with the decreasing table: the deepest depth whose limit still exceeds `r`;
* `best_starting_depth_guard`: `r ≥ T[0]` or NaN is refused, exactly when `has_best_starting_depth` says so;
* `c2v_depth0`: at depth 0 both scalar helpers return `π/2 − asin(2/3)` whatever the position.
Not provable here (recorded in DESIGN.md): that the linear / parabolic envelopes dominate the true
centre-to-vertex distance, and that a cone of radius `< T[d]` meets at most the 9 cells.  They are *measured* by the
oracle (exhaustive cells to depth 5 quick / 8 thorough, border classes to depth 29, (position, radius) pairs, rim
witnesses); findings F12, F13 (polar caps) and F7 (debug assertions) are recorded in `known_findings.json`.
-/

namespace Hpx.C16
open Hpx Hpx.C2V

/-- exact comparison of two dyadic rationals `a/2^ea < b/2^eb` -/
def dyLt (a b : Nat × Nat) : Bool := a.1 * 2 ^ b.2 < b.1 * 2 ^ a.2

theorem table_len : Gen.smallerEdge2OpEdgeDistBits.length = 30 ∧ Gen.smallerEdge2OpEdgeDistDyadic.length = 30 := by
  decide

/-- the tabulated limits are strictly decreasing with the depth -/
theorem table_decreasing : ∀ k, k < 29 →
    dyLt (Gen.smallerEdge2OpEdgeDistDyadic.getD (k + 1) (0, 0)) (Gen.smallerEdge2OpEdgeDistDyadic.getD k (0, 0)) = true := by
  decide +kernel

/-- `2·T[k+1]·(1 + a/(b·2^k)) < T[k]` on dyadic rationals -/
def dyHalvingLo (k a b : Nat) (t tn : Nat × Nat) : Bool :=
  2 * tn.1 * 2 ^ t.2 * (b * 2 ^ k + a) < t.1 * 2 ^ tn.2 * (b * 2 ^ k)
/-- `T[k] < 2·T[k+1]·(1 + a/(b·2^k))` on dyadic rationals -/
def dyHalvingHi (k a b : Nat) (t tn : Nat × Nat) : Bool :=
  t.1 * 2 ^ tn.2 * (b * 2 ^ k) < 2 * tn.1 * 2 ^ t.2 * (b * 2 ^ k + a)

/-- **regularity of the table** (a property of the constants in the source, consumed from the regenerated term): each
    depth halves the limit, with a relative excess `T[k] / (2·T[k+1]) − 1` between `0.04·2^-k` and `0.1·2^-k` for
    `k = j + 2`, `2 ≤ k ≤ 25` (it is `0.0499·2^-k` to three digits from `k = 5` on), and between `0` and `2^-25` for the last three
    depths.  A mistyped entry breaks this for any relative error above about `0.05·2^-k`. -/
theorem table_halving :
    (∀ j, j < 24 →
      dyHalvingLo (j + 2) 1 25 (Gen.smallerEdge2OpEdgeDistDyadic.getD (j + 2) (0, 0)) (Gen.smallerEdge2OpEdgeDistDyadic.getD (j + 3) (0, 0)) = true ∧
      dyHalvingHi (j + 2) 1 10 (Gen.smallerEdge2OpEdgeDistDyadic.getD (j + 2) (0, 0)) (Gen.smallerEdge2OpEdgeDistDyadic.getD (j + 3) (0, 0)) = true) ∧
    (∀ j, j < 3 →
      dyLt (2 * (Gen.smallerEdge2OpEdgeDistDyadic.getD (j + 27) (0, 0)).1, (Gen.smallerEdge2OpEdgeDistDyadic.getD (j + 27) (0, 0)).2)
        (Gen.smallerEdge2OpEdgeDistDyadic.getD (j + 26) (0, 0)) = true ∧
      dyHalvingHi 25 1 1 (Gen.smallerEdge2OpEdgeDistDyadic.getD (j + 26) (0, 0)) (Gen.smallerEdge2OpEdgeDistDyadic.getD (j + 27) (0, 0)) = true) := by
  decide +kernel

/-- the dyadic rationals are the values of the bit patterns: `(2^52 + mantissa)·2^(exponent − 1075) = num / 2^exp` -/
theorem table_dyadic_matches_bits : ∀ k, k < 30 →
    F64.sgnF (Gen.smallerEdge2OpEdgeDistBits.getD k 0) = 0 ∧ 1 ≤ F64.expF (Gen.smallerEdge2OpEdgeDistBits.getD k 0) ∧
    F64.expF (Gen.smallerEdge2OpEdgeDistBits.getD k 0) < 1075 ∧
    (2 ^ 52 + F64.manF (Gen.smallerEdge2OpEdgeDistBits.getD k 0)) * 2 ^ (Gen.smallerEdge2OpEdgeDistDyadic.getD k (0, 0)).2 =
      (Gen.smallerEdge2OpEdgeDistDyadic.getD k (0, 0)).1 * 2 ^ (1075 - F64.expF (Gen.smallerEdge2OpEdgeDistBits.getD k 0)) := by
  decide +kernel

/-- the unrolled binary search returns a depth whose limit exceeds `r` and whose successor's limit does not -/
theorem best_starting_depth_spec {α : Type} (lt : α → α → Bool) (T : Nat → α) (r : α) :
    Gen.bestStartingDepthTree lt T r ≤ 29 ∧
    (lt r (T 0) = true → lt r (T (Gen.bestStartingDepthTree lt T r)) = true) ∧
    (Gen.bestStartingDepthTree lt T r = 29 ∨ lt r (T (Gen.bestStartingDepthTree lt T r + 1)) = false) := by
  unfold Gen.bestStartingDepthTree
  repeat' split
  all_goals simp_all

/-- the guard: refused exactly when `has_best_starting_depth` is false (in particular for NaN) -/
theorem best_starting_depth_guard {α : Type} [Num α] (r : α) :
    (bestStartingDepth r = none ↔ hasBestStartingDepth r = false) := by
  have h0 : Gen.bestStartingDepthGuardIdx = Gen.hasBestStartingDepthIdx := by decide
  unfold bestStartingDepth hasBestStartingDepth
  rw [h0]
  cases Num.lt r (table (α := α) Gen.hasBestStartingDepthIdx) <;> simp

/-- NaN is refused at `Float` -/
example : bestStartingDepth (F.ofBitsNat 0x7FF8000000000000 : Float) = none := by decide +kernel

/-- depth 0: the constant `π/2 − transition latitude`, whatever the position and the radius -/
theorem c2v_depth0 {α : Type} [Num α] (dbg : Bool) (lon lat radius : α) :
    largestC2V dbg 0 lon lat = some ((Num.halfPi : α) - Num.transitionLat) ∧
    largestC2VWithRadius dbg 0 lon lat radius = some ((Num.halfPi : α) - Num.transitionLat) := by
  constructor <;> simp [largestC2V, largestC2VWithRadius]

end Hpx.C16
