import HpxVerif.Model.C2V

import HpxVerif.Lemmas.C2VReal
import HpxVerif.Lemmas.EnvelopeReal6
import HpxVerif.Lemmas.CellExtent4
import HpxVerif.Lemmas.EnvelopePolar7
import HpxVerif.Lemmas.Tightness4

set_option autoImplicit false   -- an unknown identifier in a statement is an error, never a new variable

/-!
# C16 — cell-size helper bounds really are bounds

Proved (the table and the unrolled binary search are **regenerated from the source on every run**):
* `table_decreasing`: the 30 tabulated limits are strictly decreasing (exact comparison of the doubles as dyadic
  rationals `num / 2^exp`), and `table_dyadic_matches_bits`: those rationals are the values of the bit patterns;
* `best_starting_depth_spec`: for **every** comparison function and table (so for `f64 <` on the real table, NaN
  included): whenever the guard `r < T[0]` passes, the returned depth `d ≤ 29` satisfies `r < T[d]` and
  (`d = 29` or `¬ r < T[d+1]`) — with the decreasing table: the deepest depth whose limit still exceeds `r`;
* `best_starting_depth_guard`: `r ≥ T[0]` or NaN is refused, exactly when `has_best_starting_depth` says so;
* `c2v_depth0`: at depth 0 both scalar helpers return `π/2 − asin(2/3)` whatever the position.
Not provable here (recorded in DESIGN.md): that the linear / parabolic envelopes dominate the true
centre-to-vertex distance, and that a cone of radius `< T[d]` meets at most the 9 cells.  They are *measured* by the
oracle (exhaustive cells to depth 5 quick / 8 thorough, border classes to depth 29, (position, radius) pairs, rim
witnesses); findings F12, F13 (polar caps) and F7 (debug assertions) are recorded in `known_findings.json`.
-/

namespace Hpx.C16
open Hpx Hpx.C2V

/-- exact comparison of two dyadic rationals `a/2^ea < b/2^eb` -/
def dyLt (a b : Nat × Nat) : Bool := a.1 * 2 ^ b.2 < b.1 * 2 ^ a.2

theorem table_len : Gen.smallerEdge2OpEdgeDistBits.length = 30 ∧ Gen.smallerEdge2OpEdgeDistDyadic.length = 30 := by
  decide

/-- the tabulated limits are strictly decreasing with the depth -/
theorem table_decreasing : ∀ k, k < 29 →
    dyLt (Gen.smallerEdge2OpEdgeDistDyadic.getD (k + 1) (0, 0)) (Gen.smallerEdge2OpEdgeDistDyadic.getD k (0, 0)) = true := by
  decide +kernel

/-- `2·T[k+1]·(1 + a/(b·2^k)) < T[k]` on dyadic rationals -/
def dyHalvingLo (k a b : Nat) (t tn : Nat × Nat) : Bool :=
  2 * tn.1 * 2 ^ t.2 * (b * 2 ^ k + a) < t.1 * 2 ^ tn.2 * (b * 2 ^ k)
/-- `T[k] < 2·T[k+1]·(1 + a/(b·2^k))` on dyadic rationals -/
def dyHalvingHi (k a b : Nat) (t tn : Nat × Nat) : Bool :=
  t.1 * 2 ^ tn.2 * (b * 2 ^ k) < 2 * tn.1 * 2 ^ t.2 * (b * 2 ^ k + a)

/-- **regularity of the table** (a property of the constants in the source, consumed from the regenerated term): each
    depth halves the limit, with a relative excess `T[k] / (2·T[k+1]) − 1` between `0.04·2^-k` and `0.1·2^-k` for
    `k = j + 2`, `2 ≤ k ≤ 25` (it is `0.0499·2^-k` to three digits from `k = 5` on), and between `0` and `2^-25` for the last three
    depths.  A mistyped entry breaks this for any relative error above about `0.05·2^-k`. -/
theorem table_halving :
    (∀ j, j < 24 →
      dyHalvingLo (j + 2) 1 25 (Gen.smallerEdge2OpEdgeDistDyadic.getD (j + 2) (0, 0)) (Gen.smallerEdge2OpEdgeDistDyadic.getD (j + 3) (0, 0)) = true ∧
      dyHalvingHi (j + 2) 1 10 (Gen.smallerEdge2OpEdgeDistDyadic.getD (j + 2) (0, 0)) (Gen.smallerEdge2OpEdgeDistDyadic.getD (j + 3) (0, 0)) = true) ∧
    (∀ j, j < 3 →
      dyLt (2 * (Gen.smallerEdge2OpEdgeDistDyadic.getD (j + 27) (0, 0)).1, (Gen.smallerEdge2OpEdgeDistDyadic.getD (j + 27) (0, 0)).2)
        (Gen.smallerEdge2OpEdgeDistDyadic.getD (j + 26) (0, 0)) = true ∧
      dyHalvingHi 25 1 1 (Gen.smallerEdge2OpEdgeDistDyadic.getD (j + 26) (0, 0)) (Gen.smallerEdge2OpEdgeDistDyadic.getD (j + 27) (0, 0)) = true) := by
  decide +kernel

/-- the dyadic rationals are the values of the bit patterns: `(2^52 + mantissa)·2^(exponent − 1075) = num / 2^exp` -/
theorem table_dyadic_matches_bits : ∀ k, k < 30 →
    F64.sgnF (Gen.smallerEdge2OpEdgeDistBits.getD k 0) = 0 ∧ 1 ≤ F64.expF (Gen.smallerEdge2OpEdgeDistBits.getD k 0) ∧
    F64.expF (Gen.smallerEdge2OpEdgeDistBits.getD k 0) < 1075 ∧
    (2 ^ 52 + F64.manF (Gen.smallerEdge2OpEdgeDistBits.getD k 0)) * 2 ^ (Gen.smallerEdge2OpEdgeDistDyadic.getD k (0, 0)).2 =
      (Gen.smallerEdge2OpEdgeDistDyadic.getD k (0, 0)).1 * 2 ^ (1075 - F64.expF (Gen.smallerEdge2OpEdgeDistBits.getD k 0)) := by
  decide +kernel

/-- the unrolled binary search returns a depth whose limit exceeds `r` and whose successor's limit does not -/
theorem best_starting_depth_spec {α : Type} (lt : α → α → Bool) (T : Nat → α) (r : α) :
    Gen.bestStartingDepthTree lt T r ≤ 29 ∧
    (lt r (T 0) = true → lt r (T (Gen.bestStartingDepthTree lt T r)) = true) ∧
    (Gen.bestStartingDepthTree lt T r = 29 ∨ lt r (T (Gen.bestStartingDepthTree lt T r + 1)) = false) := by
  unfold Gen.bestStartingDepthTree
  repeat' split
  all_goals simp_all

/-- the guard: refused exactly when `has_best_starting_depth` is false (in particular for NaN) -/
theorem best_starting_depth_guard {α : Type} [Num α] (r : α) :
    (bestStartingDepth r = none ↔ hasBestStartingDepth r = false) := by
  have h0 : Gen.bestStartingDepthGuardIdx = Gen.hasBestStartingDepthIdx := by decide
  unfold bestStartingDepth hasBestStartingDepth
  rw [h0]
  cases Num.lt r (table (α := α) Gen.hasBestStartingDepthIdx) <;> simp

/-- NaN is refused at `Float` -/
example : bestStartingDepth (F.ofBitsNat 0x7FF8000000000000 : Float) = none := by decide +kernel

/-- depth 0: the constant `π/2 − transition latitude`, whatever the position and the radius -/
theorem c2v_depth0 {α : Type} [Num α] (dbg : Bool) (lon lat radius : α) :
    largestC2V dbg 0 lon lat = some ((Num.halfPi : α) - Num.transitionLat) ∧
    largestC2VWithRadius dbg 0 lon lat radius = some ((Num.halfPi : α) - Num.transitionLat) := by
  constructor <;> simp [largestC2V, largestC2VWithRadius]

/-! ## the envelopes over the reals: region choice, what the `_with_radius` variants bound, and what they do not -/

open Hpx.C2VReal in
/-- **`c2v_region_choice`** (ℝ, release profile): which envelope `largest_center_to_vertex_distance` uses: depth 0 gives
    `π/2 − TRANSITION_LATITUDE`; depth > 29 panics; polar caps: `slope_npc·|π/4 − lon % (π/2)| + intercept_npc`;
    `LAT_OF_SQUARE_CELL ≤ |lat| < TRANSITION_LATITUDE`: the line in `|lat|`; below: the parabola in `lat²` -/
theorem c2v_region_choice (depth : Nat) (lon lat : ℝ) :
    C2V.largestC2V false depth lon lat =
      if depth = 0 then some (Real.pi / 2 - tl) else if 29 < depth then none
      else some (c2v (C2V.Csts.new depth) lon lat) := Hpx.C2VReal.c2v_region_choice depth lon lat

open Hpx.C2VReal in
/-- the signs of the constants of every depth, over ℝ: the polar slope is `≥ 0`, the parabola opens downwards, the two
    equatorial envelopes agree at `LAT_OF_SQUARE_CELL`, and — contrary to what the code's comments assume — **the upper
    equatorial line DEcreases with latitude** (`slope_eqr < 0` at every depth) -/
theorem c2v_constant_signs (d : Nat) :
    0 ≤ (C2V.Csts.new d : C2V.Csts ℝ).slopeNpc ∧ (C2V.Csts.new d : C2V.Csts ℝ).coeffX2Eqr < 0 ∧
    (C2V.Csts.new d : C2V.Csts ℝ).slopeEqr < 0 ∧
    topEnv (C2V.Csts.new d) lsc = botEnv (C2V.Csts.new d) lsc :=
  ⟨new_slopeNpc_nonneg d, new_coeffX2Eqr_neg d, new_slopeEqr_neg d, new_continuous_at_lsc d⟩

open Hpx.C2VReal in
/-- **`c2v_with_radius_is_sup`**, as the code intends it: IF `slope_npc ≥ 0`, `slope_eqr ≥ 0`, `coeff_x2_eqr ≤ 0` then the
    value with radius dominates the pointwise envelope at every position of the latitude band (equatorial regions) / of
    the folded-longitude band (polar caps).  (The middle hypothesis is false for the actual constants: next theorems.) -/
theorem c2v_with_radius_is_sup (c : C2V.Csts ℝ) (h1 : 0 ≤ c.slopeNpc) (h2 : 0 ≤ c.slopeEqr) (h3 : c.coeffX2Eqr ≤ 0)
    (hcont : topEnv c lsc = botEnv c lsc) (lon lat r lon' lat' : ℝ) (hband : |(|lat'| - |lat|)| ≤ r) :
    (|lat| + r < tl → c2v c lon' lat' ≤ c2vR c lon lat r) ∧
    (tl ≤ |lat| + r → tl ≤ |lat'| → fold lon' ≤ fold lon + r → fold lon' ≤ Real.pi / 4 →
      c2v c lon' lat' ≤ c2vR c lon lat r) := Hpx.C2VReal.c2v_with_radius_is_sup c h1 h2 h3 hcont lon lat r lon' lat' hband

open Hpx.C2VReal in
/-- what holds **unconditionally for the actual constants** (every depth 1..29): the value with radius dominates the
    pointwise envelope over the whole latitude band when the band reaches below `LAT_OF_SQUARE_CELL` and stays below the
    transition latitude, and over the folded-longitude band for polar positions -/
theorem c2v_with_radius_bounds (depth : Nat) (hd1 : 1 ≤ depth) (hd2 : depth ≤ 29) (lon lat r lon' lat' : ℝ) :
    (|(|lat'| - |lat|)| ≤ r → |lat| + r < tl → |lat| - r < lsc →
      ∃ v w, C2V.largestC2VWithRadius false depth lon lat r = some v ∧ C2V.largestC2V false depth lon' lat' = some w ∧ w ≤ v) ∧
    (tl ≤ |lat| + r → tl ≤ |lat'| → fold lon' ≤ fold lon + r → fold lon' ≤ Real.pi / 4 →
      ∃ v w, C2V.largestC2VWithRadius false depth lon lat r = some v ∧ C2V.largestC2V false depth lon' lat' = some w ∧ w ≤ v) :=
  ⟨fun hb hA hB => largestC2VWithRadius_upper_bound_eqr depth hd1 hd2 lon lat r lon' lat' hb hA hB,
   fun hA hp h1 h2 => largestC2VWithRadius_upper_bound_npc depth hd1 hd2 lon lat r lon' lat' hA hp h1 h2⟩

open Hpx.C2VReal in
/-- **not a bound of the pointwise envelope in the upper equatorial band** (every depth 1..29, every band lying entirely
    between `LAT_OF_SQUARE_CELL` and the transition latitude): the value with radius is strictly BELOW the value without
    radius at the very same position, because the line is evaluated at the top of the band and its slope is negative.
    (Whether it still bounds the TRUE centre-to-vertex distance there is geometry: measured by the oracle, no violation
    observed.) -/
theorem c2v_with_radius_below_pointwise (depth : Nat) (hd1 : 1 ≤ depth) (hd2 : depth ≤ 29) (lon lat r : ℝ)
    (hr : 0 < r) (hlo : lsc ≤ |lat| - r) (hhi : |lat| + r < tl) :
    ∃ v w, C2V.largestC2VWithRadius false depth lon lat r = some v ∧ C2V.largestC2V false depth lon lat = some w ∧ v < w :=
  largestC2VWithRadius_lt_at_centre' depth hd1 hd2 lon lat r hr hlo hhi

open Hpx.C2VReal in
/-- **finding F12 as a theorem** (every depth 1..29): in a polar cap the value with radius bounds a LONGITUDE band of
    half-width `r`, not the cone of angular radius `r`: the point `(π/2, π/3)` is at angular distance exactly `cexR ≈ 0.385`
    from `(π/4, π/3)`, in the same cap, and its pointwise envelope exceeds the value with radius `cexR` at `(π/4, π/3)` -/
theorem c2v_with_radius_not_a_cone_bound (depth : Nat) (hd1 : 1 ≤ depth) (hd2 : depth ≤ 29) :
    ∃ v w, C2V.largestC2VWithRadius false depth (Real.pi / 4 : ℝ) (Real.pi / 3) cexR = some v ∧
      C2V.largestC2V false depth (Real.pi / 2 : ℝ) (Real.pi / 3) = some w ∧ v < w :=
  largestC2VWithRadius_not_cone_bound' depth hd1 hd2

open Hpx.C2VReal in
/-- the multi-depth variant agrees with the scalar one depth by depth (half-open range `[from, to)`, depth 0 first) -/
theorem c2vs_with_radius_agree (f t : Nat) (lon lat r : ℝ) :
    C2V.largestC2VsWithRadius false f t lon lat r =
      (depthsOf f t).mapM fun d => C2V.largestC2VWithRadius false d lon lat r :=
  Hpx.C2VReal.c2vs_with_radius_agree f t lon lat r

/-! ## the geometric claim in the equatorial region, over the reals

`latOf y = arcsin(2y/3)`; for a cell with plane centre `(x, y)` and `δ = 1/nside`: `dN δ y`, `dS δ y` (north / south
vertex, same meridian) and `dE δ y` (east and west vertices, same parallel) are its true centre-to-vertex distances
(`true_c2v_eqr`). -/

section EquatorialEnvelope
open Hpx Hpx.Hash Hpx.C2V Hpx.C2VReal Hpx.Proj Hpx.Cover Hpx.CellReal Hpx.EnvelopeReal Real

/-- **`true_c2v_eqr`**: for a plane centre `(x, y)` with `0 ≤ x`, `x + δ ≤ 8`, `|y| + δ ≤ 1` (`0 < δ ≤ 1`: the cell and
    its four vertices are in the equatorial region), `unproj` succeeds on the centre and on the four vertices
    `(x, y ± δ)`, `(x + δ, y)`, `(westX x δ, y)`, and the angular distances from the centre to them are exactly
    `dN δ y`, `dS δ y`, `dE δ y`, `dE δ y`. -/
theorem true_c2v_eqr (x y δ : ℝ) (hδ0 : 0 < δ) (hδ1 : δ ≤ 1) (hx0 : 0 ≤ x) (hx8 : x + δ ≤ 8) (hy : |y| + δ ≤ 1) :
    ∃ c pN pS pE pW : ℝ × ℝ,
      unproj (α := ℝ) x y = some c ∧ unproj (α := ℝ) x (y + δ) = some pN ∧ unproj (α := ℝ) x (y - δ) = some pS ∧
      unproj (α := ℝ) (x + δ) y = some pE ∧ unproj (α := ℝ) (westX x δ) y = some pW ∧
      c.2 = latOf y ∧
      adist c pN = dN δ y ∧ adist c pS = dS δ y ∧ adist c pE = dE δ y ∧ adist c pW = dE δ y :=
  Hpx.EnvelopeReal.true_c2v_eqr x y δ hδ0 hδ1 hx0 hx8 hy

/-- the same for the model function (release profile), `1 ≤ depth ≤ 29` -/
theorem envelope_dominates_eqr (d : Nat) (hd1 : 1 ≤ d) (hd2 : d ≤ 29) (lon y : ℝ) (hy : |y| + 1 / 2 ^ d ≤ 1) :
    ∃ v, largestC2V false d lon (latOf y) = some v ∧
      dN (1 / 2 ^ d) y ≤ v ∧ dS (1 / 2 ^ d) y ≤ v ∧ dE (1 / 2 ^ d) y ≤ v :=
  Hpx.EnvelopeReal.largestC2V_dominates_eqr d hd1 hd2 lon y hy

/-- on the equator the envelope is `4/π·δ` while the true largest distance is `dE = π/4·δ`
    (`dN = dS = arcsin(2δ/3) ≤ dE`): the ratio is `16/π² ≈ 1.62` at every depth.
    (The comments of `ConstantsC2V::new` say `d_max = pi/4 * 1/nside`; the code uses `FOUR_OVER_PI`.) -/
theorem envelope_equator_ratio (d : Nat) (lon : ℝ) :
    c2v (Csts.new d) lon (latOf 0) = 16 / π ^ 2 * dE (1 / 2 ^ d) 0 :=
  Hpx.EnvelopeReal.envelope_equator_ratio d lon

/-- **`largestC2V_dominates_cell`** (ℝ, release profile, every depth `1 … 29`, every cell whose centre is strictly inside
    the equatorial band): `largest_center_to_vertex_distance(d, lon, lat)` evaluated at `(lon, lat) = center(d, hash)` is
    at least the angular distance from `center(d, hash)` to each of the four `vertices(d, hash)`. -/
theorem envelope_dominates_every_equatorial_cell (cfg : Cfg) (d hash b i j : ℕ) (hd1 : 1 ≤ d) (hd2 : d ≤ 29) (hh : hash < Layer.nHash d)
    (hdec : Layer.decodeHash cfg d hash = some ⟨b, i, j⟩) (hb : b < 12) (hi : i < 2 ^ d) (hj : j < 2 ^ d)
    (hband : |cellCy d b i j| < 1) :
    ∃ (c s e n w : ℝ × ℝ) (v : ℝ), center (α := ℝ) cfg d hash = some c ∧
      vertices (α := ℝ) cfg d hash = some [s, e, n, w] ∧ largestC2V false d c.1 c.2 = some v ∧
      adist c s ≤ v ∧ adist c e ≤ v ∧ adist c n ≤ v ∧ adist c w ≤ v :=
  Hpx.EnvelopeReal.largestC2V_dominates_cell cfg d hash b i j hd1 hd2 hh hdec hb hi hj hband

/-- the model function with radius (release), depth `1 … 29`, cells whose centre is not below the band -/
theorem with_radius_dominates_equatorial_band (d : Nat) (hd1 : 1 ≤ d) (hd2 : d ≤ 29) (lon lat r : ℝ)
    (hA : |lat| + r < tl) (y : ℝ) (hy : |y| + 1 / 2 ^ d ≤ 1) (hband : |lat| - r ≤ |latOf y|) :
    ∃ v, largestC2VWithRadius false d lon lat r = some v ∧
      dN (1 / 2 ^ d) y ≤ v ∧ dS (1 / 2 ^ d) y ≤ v ∧ dE (1 / 2 ^ d) y ≤ v :=
  Hpx.EnvelopeReal.largestC2VWithRadius_dominates_band d hd1 hd2 lon lat r hA y hy hband

/-- the model function (release), depth `1 … 29` -/
theorem envelope_dominates_anywhere_in_equatorial_cell (d : Nat) (hd1 : 1 ≤ d) (hd2 : d ≤ 29) (lon yp y : ℝ) (hy : |y| + 1 / 2 ^ d ≤ 1)
    (hp : |yp - y| ≤ 1 / 2 ^ d) (hp1 : |yp| < 1) :
    ∃ v, largestC2V false d lon (latOf yp) = some v ∧
      dN (1 / 2 ^ d) y ≤ v ∧ dS (1 / 2 ^ d) y ≤ v ∧ dE (1 / 2 ^ d) y ≤ v :=
  Hpx.EnvelopeReal.largestC2V_dominates_in_cell d hd1 hd2 lon yp y hy hp hp1

/-- **`c2v_below_true_on_transition_ring`** (ℝ, release profile, every depth `1 … 29`, every valid cell `(b, i, j)` whose
    centre ordinate is `1`, i.e. whose centre is on the north transition latitude).  `center` returns a position `c` of
    latitude `tl`, `vertex … 2` the north vertex `n`, and there is an ordinate `y0 < 1` such that for every `yp ∈ (y0, 1)`
    the plane point `(x_c, yp)` — which is inside the cell: same abscissa as the centre, `|yp − 1| < 1/n` — un-projects to a
    position `p` of latitude `< tl` where `largest_center_to_vertex_distance(d, p)` is strictly smaller than the angular
    distance from `c` to `n`. -/
theorem f23_below_true_on_transition_ring (cfg : Cfg) (d hash b i j : ℕ) (hd1 : 1 ≤ d) (hd2 : d ≤ 29)
    (hh : hash < Layer.nHash d) (hdec : Layer.decodeHash cfg d hash = some ⟨b, i, j⟩) (hb : b < 12) (hi : i < 2 ^ d)
    (hj : j < 2 ^ d) (hring : cellCy d b i j = 1) :
    ∃ (c n : ℝ × ℝ) (y0 : ℝ), center (α := ℝ) cfg d hash = some c ∧ vertex (α := ℝ) cfg d hash 2 = some n ∧
      c.2 = tl ∧ y0 < 1 ∧
      ∀ yp, y0 < yp → yp < 1 →
        |yp - cellCy d b i j| < 1 / 2 ^ d ∧
        ∃ (p : ℝ × ℝ) (v : ℝ), unproj (α := ℝ) (norm8 (cellCx d b i j)) yp = some p ∧ |p.2| < tl ∧
          largestC2V false d p.1 p.2 = some v ∧ v < adist c n :=
  Hpx.EnvelopeReal.c2v_below_true_on_transition_ring cfg d hash b i j hd1 hd2 hh hdec hb hi hj hring


end EquatorialEnvelope


/-! ## the farthest point of an equatorial cell from its centre is a vertex; the envelope bounds every point of the cell -/

section EquatorialGeometry
open Hpx Hpx.Hash Hpx.C2V Hpx.C2VReal Hpx.Proj Hpx.Cover Hpx.CellReal Hpx.EnvelopeReal Hpx.TopoLift Hpx.CellExtent Real

/-- **`eqr_cell_extent`** (T1).  Plane centre `(x, y)` with `0 ≤ x`, `x + δ ≤ 8` (as in `true_c2v_eqr`), `0 < δ ≤ 1`,
    `|y| + δ ≤ 1` (the closed diamond of half-diagonal `δ` is in the equatorial region).  For EVERY plane point `(x', y')`
    of the closed diamond `|x' − x| + |y' − y| ≤ δ` (abscissa reduced to `[0, 8)` by `norm8`, as `ensures_x_is_positive`
    does): `unproj` succeeds on the centre and on the point, and the angular distance between the two positions is at most
    the largest of the three centre-to-vertex distances `dN δ y`, `dS δ y`, `dE δ y` of `true_c2v_eqr`:
    **the farthest point of the cell from its centre is a vertex.** -/
theorem eqr_cell_extent (x y δ x' y' : ℝ) (hδ0 : 0 < δ) (hδ1 : δ ≤ 1) (hx0 : 0 ≤ x) (hx8 : x + δ ≤ 8)
    (hy : |y| + δ ≤ 1) (hin : |x' - x| + |y' - y| ≤ δ) :
    ∃ c p : ℝ × ℝ, unproj (α := ℝ) x y = some c ∧ unproj (α := ℝ) (norm8 x') y' = some p ∧
      c.2 = latOf y ∧ p.2 = latOf y' ∧
      adist c p ≤ max (dN δ y) (max (dS δ y) (dE δ y)) :=
  Hpx.CellExtent.eqr_cell_extent x y δ x' y' hδ0 hδ1 hx0 hx8 hy hin

/-- **`cell_extent_envelope`** (ℝ, release profile, every depth `1 … 29`, every cell `(b, i, j)` of the NESTED scheme whose
    centre is strictly inside the equatorial band).  `center(d, hash)` succeeds, and for every position `(lon, latOf yp)`
    of the cell (`|yp − cellCy| ≤ 1/n`, `|yp| < 1`) `largest_center_to_vertex_distance(d, lon, latOf yp)` returns a value
    that bounds the angular distance from the centre to every position `(x'·π/4 + 2πm, latOf y')` of the closed diamond
    of the cell. -/
theorem cell_extent_envelope (cfg : Cfg) (d hash b i j : ℕ) (hd1 : 1 ≤ d) (hd2 : d ≤ 29) (hh : hash < Layer.nHash d)
    (hdec : Layer.decodeHash cfg d hash = some ⟨b, i, j⟩) (hb : b < 12) (hi : i < 2 ^ d) (hj : j < 2 ^ d)
    (hband : |cellCy d b i j| < 1) :
    ∃ c : ℝ × ℝ, center (α := ℝ) cfg d hash = some c ∧
      ∀ lon yp : ℝ, |yp - cellCy d b i j| ≤ 1 / 2 ^ d → |yp| < 1 →
        ∃ v, largestC2V false d lon (latOf yp) = some v ∧
          ∀ (x' y' : ℝ) (m : ℤ), InDiamond (cellCx d b i j) (cellCy d b i j) (1 / 2 ^ d) x' y' →
            adist c (x' * (π / 4) + 2 * π * m, latOf y') ≤ v :=
  Hpx.CellExtent.cell_extent_envelope cfg d hash b i j hd1 hd2 hh hdec hb hi hj hband

/-- **`cell_extent_envelope_radius`**: the same with `largest_center_to_vertex_distance_with_radius(d, lon, lat, r)`,
    depth `2 … 29`, any cone with `|lat| + r < tl` -/
theorem cell_extent_envelope_radius (cfg : Cfg) (d hash b i j : ℕ) (hd1 : 2 ≤ d) (hd2 : d ≤ 29)
    (hh : hash < Layer.nHash d) (hdec : Layer.decodeHash cfg d hash = some ⟨b, i, j⟩) (hb : b < 12) (hi : i < 2 ^ d)
    (hj : j < 2 ^ d) (hband : |cellCy d b i j| < 1) (lon lat r : ℝ) (hA : |lat| + r < tl) :
    ∃ (c : ℝ × ℝ) (v : ℝ), center (α := ℝ) cfg d hash = some c ∧ largestC2VWithRadius false d lon lat r = some v ∧
      ∀ (x' y' : ℝ) (m : ℤ), InDiamond (cellCx d b i j) (cellCy d b i j) (1 / 2 ^ d) x' y' →
        adist c (x' * (π / 4) + 2 * π * m, latOf y') ≤ v :=
  Hpx.CellExtent.cell_extent_envelope_radius cfg d hash b i j hd1 hd2 hh hdec hb hi hj hband lon lat r hA


end EquatorialGeometry


/-! ## the polar caps: closed forms of the true distances, what is proved at cell centres, and finding F24 as theorems

At cell centres the polar-cap envelope `slope_npc·|π/4 − lon mod π/2| + intercept_npc` is proved to dominate the distances to
the east and west vertices of EVERY polar-cap cell, to all four vertices on the central meridian of a base cell and in the
inner half of each base cell (depth ≥ 3); for the north/south vertices in the outer half (towards the seams) the bound is
tight to first order in 1/nside (exact at the transition corner: `c2v_exact_at_transition_corner`) and remains measured.
Off-centre the first claim of C16 is false (finding F24): theorems `f24_…`. -/

section PolarEnvelope
open Hpx Hpx.Hash Hpx.Proj Hpx.Cover Hpx.C2V Hpx.C2VReal Hpx.EnvelopeReal Hpx.CellReal Hpx.EnvelopePolar Real

/-- **`true_c2v_cap`**: facet `k < 4`, plane centre `(x, y)`, half-diagonal `δ > 0`, with `1 ≤ y − δ` (the centre is
    strictly inside the north cap; the south vertex may be on the transition latitude), `y + δ ≤ 2`,
    `|x − (2k+1)| + δ ≤ 2 − y` (the cell lies in the Collignon triangle of the facet), the centre on the near side of the
    pole threshold of the code and the north vertex either on the near side too or the pole itself (always true for
    cells: `2 − y` and `2 − y − δ` are multiples of `1/nside ≥ 2⁻²⁹ > EPS_POLE`).  With `t = x − (2k+1)`, `σ = 2 − y`: `unproj` succeeds on the centre and on the four
    vertices `(x, y ± δ)`, `(x ± δ, y)`; the centre is at longitude `capLon k t σ`, latitude `capLat y`; and the angular
    distances from the centre to the N, S, E, W vertices are `dNc δ t σ`, `dSc δ t σ`, `dEc δ σ`, `dEc δ σ`. -/
theorem true_c2v_cap (k : ℕ) (hk : k < 4) (x y δ : ℝ) (hδ0 : 0 < δ) (hS : 1 ≤ y - δ) (hN : y + δ ≤ 2)
    (ht : |x - (2 * k + 1)| + δ ≤ 2 - y) (hc : (Num.epsPole : ℝ) < 2 - y)
    (hp : (Num.epsPole : ℝ) < 2 - y - δ ∨ y + δ = 2) :
    ∃ c pN pS pE pW : ℝ × ℝ,
      unproj (α := ℝ) x y = some c ∧ unproj (α := ℝ) x (y + δ) = some pN ∧ unproj (α := ℝ) x (y - δ) = some pS ∧
      unproj (α := ℝ) (x + δ) y = some pE ∧ unproj (α := ℝ) (x - δ) y = some pW ∧
      c = (capLon k (x - (2 * k + 1)) (2 - y), capLat y) ∧
      adist c pN = dNc δ (x - (2 * k + 1)) (2 - y) ∧ adist c pS = dSc δ (x - (2 * k + 1)) (2 - y) ∧
      adist c pE = dEc δ (2 - y) ∧ adist c pW = dEc δ (2 - y) :=
  Hpx.EnvelopePolar.true_c2v_cap k hk x y δ hδ0 hS hN ht hc hp

/-- **`c2v_below_true_next_to_north_pole`** (ℝ, release profile, every depth `2 … 29`, every north base cell `b < 4`, the
    two cells `{i, j} = {nside − 1, nside − 2}` next to the pole cell).  `center` returns `c`, `vertex … 2` the north vertex
    `n`; for `0 ≤ τ < r0` (`0 < r0 ≤ 1/nside`) the plane point `(2b + 1 + (i − j)·τ, y_c)` — on the segment from the vertex of
    the cell lying on the central meridian of the base cell (`τ = 0`: the E vertex if `i < j`, the W vertex if `i > j`)
    towards the centre (`τ = 1/nside`), hence in the closed diamond of the cell — un-projects to a position `p` of the north
    cap where `largest_center_to_vertex_distance(d, p)` is STRICTLY SMALLER than the angular distance from `c` to `n`. -/
theorem f24_below_true_next_to_north_pole (cfg : Cfg) (d hash b i j : ℕ) (hd1 : 2 ≤ d) (hd2 : d ≤ 29)
    (hh : hash < Layer.nHash d) (hdec : Layer.decodeHash cfg d hash = some ⟨b, i, j⟩) (hb : b < 4)
    (hi : i < 2 ^ d) (hj : j < 2 ^ d) (hsum : i + j + 3 = 2 * 2 ^ d) :
    ∃ (c n : ℝ × ℝ) (r0 : ℝ), center (α := ℝ) cfg d hash = some c ∧ vertex (α := ℝ) cfg d hash 2 = some n ∧
      0 < r0 ∧ r0 ≤ 1 / 2 ^ d ∧
      ∀ τ, 0 ≤ τ → τ < r0 →
        InDiamond (norm8 (cellCx d b i j)) (cellCy d b i j) (1 / 2 ^ d)
          (2 * (b : ℝ) + 1 + ((i : ℝ) - j) * τ) (cellCy d b i j) ∧
        ∃ (p : ℝ × ℝ) (v : ℝ), unproj (α := ℝ) (2 * (b : ℝ) + 1 + ((i : ℝ) - j) * τ) (cellCy d b i j) = some p ∧
          tl ≤ |p.2| ∧ largestC2V false d p.1 p.2 = some v ∧ v < adist c n :=
  Hpx.EnvelopePolar.c2v_below_true_next_to_north_pole cfg d hash b i j hd1 hd2 hh hdec hb hi hj hsum

/-- **`c2v_below_true_next_to_south_pole`** (ℝ, release profile, every depth `2 … 29`, every south base cell `k + 8`, the two
    cells `{i, j} = {0, 1}` next to the south-pole cell `(0, 0)`).  `center` returns `c`, `vertex … 0` the south vertex `s`;
    for `0 ≤ τ < r0` the plane point `(2k + 1 + (i − j)·τ, y_c)` of the cell (`τ = 0`: its vertex on the central meridian of the
    base cell) un-projects to a position `p` of the south cap where `largest_center_to_vertex_distance(d, p)` is
    STRICTLY SMALLER than the angular distance from `c` to `s`. -/
theorem f24_below_true_next_to_south_pole (cfg : Cfg) (d hash k i j : ℕ) (hd1 : 2 ≤ d) (hd2 : d ≤ 29)
    (hh : hash < Layer.nHash d) (hdec : Layer.decodeHash cfg d hash = some ⟨k + 8, i, j⟩) (hk : k < 4)
    (hsum : i + j = 1) :
    ∃ (c s : ℝ × ℝ) (r0 : ℝ), center (α := ℝ) cfg d hash = some c ∧ vertex (α := ℝ) cfg d hash 0 = some s ∧
      0 < r0 ∧ r0 ≤ 1 / 2 ^ d ∧
      ∀ τ, 0 ≤ τ → τ < r0 →
        InDiamond (norm8 (cellCx d (k + 8) i j)) (cellCy d (k + 8) i j) (1 / 2 ^ d)
          (2 * (k : ℝ) + 1 + ((i : ℝ) - j) * τ) (cellCy d (k + 8) i j) ∧
        ∃ (p : ℝ × ℝ) (v : ℝ), unproj (α := ℝ) (2 * (k : ℝ) + 1 + ((i : ℝ) - j) * τ) (cellCy d (k + 8) i j) = some p ∧
          tl ≤ |p.2| ∧ largestC2V false d p.1 p.2 = some v ∧ v < adist c s :=
  Hpx.EnvelopePolar.c2v_below_true_next_to_south_pole cfg d hash k i j hd1 hd2 hh hdec hk hsum

/-- **at the east vertex itself**: for the same cells, the position returned by `vertex … 1` (east vertex, on the
    central meridian `lon = (2b+1)·π/4` of the base cell) gets the value `intercept_npc`, strictly smaller than the angular
    distance from `center` to `vertex … 2` -/
theorem f24_below_true_at_east_vertex (cfg : Cfg) (d hash b i j : ℕ) (hd1 : 2 ≤ d) (hd2 : d ≤ 29)
    (hh : hash < Layer.nHash d) (hdec : Layer.decodeHash cfg d hash = some ⟨b, i, j⟩) (hb : b < 4)
    (hi : i + 2 = 2 ^ d) (hj : j + 1 = 2 ^ d) :
    ∃ (c n e : ℝ × ℝ) (v : ℝ), center (α := ℝ) cfg d hash = some c ∧ vertex (α := ℝ) cfg d hash 2 = some n ∧
      vertex (α := ℝ) cfg d hash 1 = some e ∧ largestC2V false d e.1 e.2 = some v ∧ v < adist c n :=
  Hpx.EnvelopePolar.c2v_below_true_at_east_vertex cfg d hash b i j hd1 hd2 hh hdec hb hi hj

/-- **the envelope is exact at the transition-ring corner cell**: `largest_center_to_vertex_distance` at the centre of the
    cell `(nside − 1, 0)` of a north base cell equals the angular distance from that centre to the north vertex -/
theorem c2v_exact_at_transition_corner (cfg : Cfg) (d hash b i : ℕ) (hd1 : 1 ≤ d) (hd2 : d ≤ 29)
    (hh : hash < Layer.nHash d) (hdec : Layer.decodeHash cfg d hash = some ⟨b, i, 0⟩) (hb : b < 4)
    (hi : i + 1 = 2 ^ d) :
    ∃ c n : ℝ × ℝ, center (α := ℝ) cfg d hash = some c ∧ vertex (α := ℝ) cfg d hash 2 = some n ∧ c.2 = tl ∧
      largestC2V false d c.1 c.2 = some (adist c n) :=
  Hpx.EnvelopePolar.c2v_exact_at_transition_corner cfg d hash b i hd1 hd2 hh hdec hb hi

/-- **`c2v_below_true_on_transition_corner_polar_side`** (ℝ, release profile, every depth `1 … 29`, north base cells, the
    cell `(i, j) = (nside − 1, 0)`).  For every plane point `(xp, yp)` of the closed diamond of the cell that lies in the
    polar cap (`1 < yp`), east of the central meridian of the base cell (`2b + 1 ≤ xp`) and whose ratio
    `(xp − (2b+1))/(2 − yp)` is smaller than the ratio `1 − 1/nside` of the centre, the position `p = unproj (xp, yp)` is in
    the polar cap and `largest_center_to_vertex_distance(d, p)` is STRICTLY SMALLER than the angular distance from
    `center` to the north vertex. -/
theorem f24_below_true_on_transition_corner_polar_side (cfg : Cfg) (d hash b i : ℕ) (hd1 : 1 ≤ d) (hd2 : d ≤ 29)
    (hh : hash < Layer.nHash d) (hdec : Layer.decodeHash cfg d hash = some ⟨b, i, 0⟩) (hb : b < 4)
    (hi : i + 1 = 2 ^ d) :
    ∃ c n : ℝ × ℝ, center (α := ℝ) cfg d hash = some c ∧ vertex (α := ℝ) cfg d hash 2 = some n ∧
      ∀ xp yp : ℝ, 1 < yp → InDiamond (norm8 (cellCx d b i 0)) (cellCy d b i 0) (1 / 2 ^ d) xp yp →
        2 * (b : ℝ) + 1 ≤ xp → xp - (2 * (b : ℝ) + 1) < (1 - 1 / 2 ^ d) * (2 - yp) →
        ∃ (p : ℝ × ℝ) (v : ℝ), unproj (α := ℝ) xp yp = some p ∧ tl ≤ |p.2| ∧
          largestC2V false d p.1 p.2 = some v ∧ v < adist c n :=
  Hpx.EnvelopePolar.c2v_below_true_on_transition_corner_polar_side cfg d hash b i hd1 hd2 hh hdec hb hi

/-- **`polar_envelope_dominates_at_centres_inner`** (ℝ, release profile, every depth `3 … 29`, north base cells `b < 4`, every
    cell whose centre is strictly inside the cap, `nside ≤ i + j`, and in the inner half of the base cell:
    `2·|i − j| ≤ 2·nside − 2 − i − j`, written `3i + 2 ≤ 2·nside + j` and `3j + 2 ≤ 2·nside + i`).
    `largest_center_to_vertex_distance` evaluated at `center(d, hash)` is at least the angular distance from the centre to
    each of the four `vertices(d, hash)`. -/
theorem polar_envelope_dominates_at_centres_inner (cfg : Cfg) (d hash b i j : ℕ) (hd1 : 3 ≤ d) (hd2 : d ≤ 29)
    (hh : hash < Layer.nHash d) (hdec : Layer.decodeHash cfg d hash = some ⟨b, i, j⟩) (hb : b < 4)
    (hi : i < 2 ^ d) (hj : j < 2 ^ d) (hcap : 2 ^ d ≤ i + j)
    (hin1 : 3 * i + 2 ≤ 2 * 2 ^ d + j) (hin2 : 3 * j + 2 ≤ 2 * 2 ^ d + i) :
    ∃ (c s e n w : ℝ × ℝ) (v : ℝ), center (α := ℝ) cfg d hash = some c ∧
      vertices (α := ℝ) cfg d hash = some [s, e, n, w] ∧ largestC2V false d c.1 c.2 = some v ∧
      adist c s ≤ v ∧ adist c e ≤ v ∧ adist c n ≤ v ∧ adist c w ≤ v :=
  Hpx.EnvelopePolar.polar_envelope_dominates_at_centres_inner cfg d hash b i j hd1 hd2 hh hdec hb hi hj hcap hin1 hin2

/-- **`polar_envelope_dominates_at_centres_inner_south`** (ℝ, release profile, every depth `3 … 29`, south base cells `k + 8`,
    every cell whose centre is strictly inside the south cap, `i + j + 2 ≤ nside`, and in the inner half of the base cell:
    `2·|i − j| ≤ i + j`, written `i ≤ 3j` and `j ≤ 3i`): the value at `center(d, hash)` is at least the angular distance
    from the centre to each of the four `vertices(d, hash)`. -/
theorem polar_envelope_dominates_at_centres_inner_south (cfg : Cfg) (d hash k i j : ℕ) (hd1 : 3 ≤ d) (hd2 : d ≤ 29)
    (hh : hash < Layer.nHash d) (hdec : Layer.decodeHash cfg d hash = some ⟨k + 8, i, j⟩) (hk : k < 4)
    (hi : i < 2 ^ d) (hj : j < 2 ^ d) (hcap : i + j + 2 ≤ 2 ^ d) (hin1 : i ≤ 3 * j) (hin2 : j ≤ 3 * i) :
    ∃ (c s e n w : ℝ × ℝ) (v : ℝ), center (α := ℝ) cfg d hash = some c ∧
      vertices (α := ℝ) cfg d hash = some [s, e, n, w] ∧ largestC2V false d c.1 c.2 = some v ∧
      adist c s ≤ v ∧ adist c e ≤ v ∧ adist c n ≤ v ∧ adist c w ≤ v :=
  Hpx.EnvelopePolar.polar_envelope_dominates_at_centres_inner_south cfg d hash k i j hd1 hd2 hh hdec hk hi hj hcap hin1 hin2


/-- **`polar_envelope_dominates_at_centres_partial`** (ℝ, release profile, every depth `1 … 29`, every valid cell of a
    north base cell `b < 4` whose centre is strictly inside the cap: `nside ≤ i + j`).  `center` and `vertices` succeed,
    `largest_center_to_vertex_distance(d, lon, lat)` evaluated at `(lon, lat) = center(d, hash)` returns a value `v` which
    is at least the angular distance from the centre to the E and W vertices and, for the cells of the central meridian
    of the base cell (`i = j`, the pole cell `i = j = nside − 1` included), also to the S and N vertices.
    MISSING: S and N vertices of the cells `i ≠ j`; the south cap (base cells `8 … 11`, mirror image). -/
theorem polar_envelope_dominates_at_centres_partial (cfg : Cfg) (d hash b i j : ℕ) (hd1 : 1 ≤ d) (hd2 : d ≤ 29)
    (hh : hash < Layer.nHash d) (hdec : Layer.decodeHash cfg d hash = some ⟨b, i, j⟩) (hb : b < 4)
    (hi : i < 2 ^ d) (hj : j < 2 ^ d) (hcap : 2 ^ d ≤ i + j) :
    ∃ (c s e n w : ℝ × ℝ) (v : ℝ), center (α := ℝ) cfg d hash = some c ∧
      vertices (α := ℝ) cfg d hash = some [s, e, n, w] ∧ largestC2V false d c.1 c.2 = some v ∧
      adist c e ≤ v ∧ adist c w ≤ v ∧ (i = j → adist c s ≤ v ∧ adist c n ≤ v) :=
  Hpx.EnvelopePolar.polar_envelope_dominates_at_centres_partial cfg d hash b i j hd1 hd2 hh hdec hb hi hj hcap


end PolarEnvelope


/-! ## the helpers never exceed twice a true centre-to-vertex distance of the depth (`Mtrue d = π/4 · 2^-d`: the cell centred on the
equator of base cell 4) - every depth, every position, both profiles; a negative radius is outside this (counter-example) -/

section HelperIsTight
open Hpx Hpx.Hash Hpx.Proj Hpx.Cover Hpx.C2V Hpx.C2VReal Hpx.EnvelopeReal Hpx.EnvelopePolar Hpx.CellReal Hpx.TopoLift Hpx.CellExtent Hpx.Bmoc Hpx.Sph Hpx.EConeEq Hpx.Tightness Real

/-- **`envelope_le_twice_true_all`** (ℝ, both profiles, NO hypothesis on the position): whenever
    `largest_center_to_vertex_distance(d, lon, lat)` returns a value `v` (every depth `0 … 29`; every real `lon`, negative
    ones included, every real `lat`), `v ≤ 2·Mtrue d`: twice the true centre-to-vertex distance `π/4·2^-d` of the cells of
    depth `d` centred on the equator. -/
theorem envelope_le_twice_true_all (dbg : Bool) (d : ℕ) (lon lat v : ℝ)
    (h : largestC2V dbg d lon lat = some v) : v ≤ 2 * Mtrue d :=
  Hpx.Tightness.envelope_le_twice_true_all dbg d lon lat v h

/-- **`envelope_with_radius_le_twice_true_all`** (ℝ, both profiles): the same for
    `largest_center_to_vertex_distance_with_radius`, every position, every radius `r ≥ 0` -/
theorem envelope_with_radius_le_twice_true_all (dbg : Bool) (d : ℕ) (lon lat r v : ℝ) (hr : 0 ≤ r)
    (h : largestC2VWithRadius dbg d lon lat r = some v) : v ≤ 2 * Mtrue d :=
  Hpx.Tightness.envelope_with_radius_le_twice_true_all dbg d lon lat r v hr h

/-- **the hypothesis `0 ≤ r` is necessary**: at every depth `1 … 29` there is a NEGATIVE radius for which
    `largest_center_to_vertex_distance_with_radius(d, 0, 1/2, r)` exceeds `2·Mtrue d` (the decreasing line of the upper
    equatorial region is extrapolated below `lsc`) -/
theorem with_radius_negative_unbounded (d : ℕ) (hd1 : 1 ≤ d) (hd2 : d ≤ 29) :
    ∃ r v : ℝ, r < 0 ∧ largestC2VWithRadius false d 0 (1 / 2) r = some v ∧ 2 * Mtrue d < v :=
  Hpx.Tightness.with_radius_negative_unbounded d hd1 hd2

/-- **`Mtrue_is_true_c2v`**: at every depth `0 … 29` the cell number `eqCell d` is a cell of the NESTED scheme whose centre is
    on the equator, and the angular distances from `center` to its four `vertices` (S, E, N, W) are at most `Mtrue d`, with
    equality for the east and west vertices: `Mtrue d` is the largest true centre-to-vertex distance of that cell. -/
theorem mtrue_is_true_c2v (cfg : Cfg) (d : ℕ) (hd : d ≤ 29) :
    eqCell d < Layer.nHash d ∧
    ∃ c s e n w : ℝ × ℝ, center (α := ℝ) cfg d (eqCell d) = some c ∧
      vertices (α := ℝ) cfg d (eqCell d) = some [s, e, n, w] ∧ c.2 = 0 ∧
      adist c e = Mtrue d ∧ adist c w = Mtrue d ∧ adist c s ≤ Mtrue d ∧ adist c n ≤ Mtrue d :=
  Hpx.Tightness.Mtrue_is_true_c2v cfg d hd


end HelperIsTight

end Hpx.C16
