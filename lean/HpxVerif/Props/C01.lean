import HpxVerif.Props.C02

/-!
# C01 — NESTED hash is total, in range, and returns a cell that contains the point

Proved for every input of every numeric instance (in particular every `f64` bit pattern, NaN and infinities
included):
* `frontend_base_cell_lt_12`: the front end always yields a base cell `< 12` (quarter reduction, polar / equatorial
  branch, the branch-free `q01/q12` selection);
* `hash_rejects_bad_lat`: a latitude that fails `-π/2 ≤ lat ≤ π/2` (NaN included) is rejected, never mapped to a cell;
* `backend_range`: for every pair of small bit patterns whose scaled truncations do not exceed `nside` (the code's own
  debug assertion), the cell number is `< 12·4^depth`, for every depth `1..29`; `hash_range` is the same for `hash_v2`
  at `Float`.
Open statement (`hash_real_contains`): over the reals the returned cell's closed diamond contains the projected point —
the seam inequalities; validated by the bit-exact correspondence (40 % of the positions on seams) and the
point-in-diamond oracle against an independent projection.
Not carried by proof: the rounding of libm and of the four products/sums of the front end.
-/

namespace Hpx.C01
open Hpx Hpx.F64 Hpx.Layer Hpx.C02

theorem eqD0h_lt (q q01 q12 : Nat) (h1 : q01 ≤ 1) (h2 : q12 ≤ 1) : Hash.eqD0h q q01 q12 < 12 := by
  unfold Hash.eqD0h
  have : (q + (q01 &&& q12)) &&& 3 ≤ 3 := Nat.and_le_right
  rw [Nat.shiftLeft_eq]
  omega

/-- the base cell computed by the front end is `< 12`, for every numeric instance and every input -/
theorem frontend_base_cell_lt_12 {α : Type} [Num α] (lon lat : α) : (Hash.d0hLhInD0c lon lat).1 < 12 := by
  have hq : (Hash.xpm1AndQ lon).2 ≤ 3 := by
    unfold Hash.xpm1AndQ
    simp only []
    have h7 : ∀ n : Nat, (n &&& 7) >>> 1 ≤ 3 := by
      intro n
      have : n &&& 7 ≤ 7 := Nat.and_le_right
      rw [Nat.shiftRight_eq_div_pow]; omega
    split
    · exact h7 _
    · simp only []; omega
  unfold Hash.d0hLhInD0c
  simp only []
  generalize (Hash.xpm1AndQ lon).2 = q at hq
  split
  · simp only []; omega
  · split
    · simp only []; omega
    · simp only []
      apply eqD0h_lt
      · split <;> omega
      · split <;> omega

/-- a latitude outside `[-π/2, π/2]` (or NaN) is rejected -/
theorem hash_rejects_bad_lat {α : Type} [Num α] (cfg : Cfg) (d : Nat) (lon lat : α)
    (h : Proj.checkLat lat = false) : Hash.hashV2 cfg d lon lat = none := by
  unfold Hash.hashV2; simp [h]

/-- at `Float`, NaN fails the latitude check (comparisons with NaN are false) -/
example : Proj.checkLat (F.ofBitsNat 0x7FF8000000000000 : Float) = false := by decide +kernel

/-- range of the back end -/
theorem backend_range (cfg : Cfg) (hbmi : cfg.bmi = false) (d d0h u v c : Nat) (hd1 : 1 ≤ d) (hd : d ≤ 29) (hb : d0h < 12)
    (hi : truncU 32 (expAdd u ((d - 1 : Nat) : Int)) ≤ 2 ^ d) (hj : truncU 32 (expAdd v ((d - 1 : Nat) : Int)) ≤ 2 ^ d)
    (h : backend cfg d d0h u v = some c) : c < 12 * 4 ^ d := by
  have htop := backend_top_bits cfg hbmi d d0h u v c hd1 hd hi hj h
  -- c >>> 2d = d0h < 12
  rw [Nat.shiftRight_eq_div_pow] at htop
  have h4 : (4 : Nat) ^ d = 2 ^ (2 * d) := by rw [Nat.pow_mul]
  rw [h4]
  have hp : 0 < 2 ^ (2 * d) := Nat.two_pow_pos _
  have : c / 2 ^ (2 * d) < 12 := by omega
  rw [Nat.div_lt_iff_lt_mul hp] at this
  exact this

/-- `hash_v2` at `Float`: whenever it returns, the cell number is in range -/
theorem hash_range (cfg : Cfg) (hbmi : cfg.bmi = false) (lon lat : Float) (d c : Nat) (hd1 : 1 ≤ d) (hd : d ≤ 29)
    (hi : truncU 32 (expAdd (F.bits ((Hash.d0hLhInD0c lon lat).2.2 + (Hash.d0hLhInD0c lon lat).2.1)) ((d - 1 : Nat) : Int)) ≤ 2 ^ d)
    (hj : truncU 32 (expAdd (F.bits ((Hash.d0hLhInD0c lon lat).2.2 - (Hash.d0hLhInD0c lon lat).2.1)) ((d - 1 : Nat) : Int)) ≤ 2 ^ d)
    (h : Hash.hashV2 cfg d lon lat = some c) : c < 12 * 4 ^ d := by
  rw [hashV2_float] at h
  split at h
  · cases h
  · exact backend_range cfg hbmi d _ _ _ c hd1 hd (frontend_base_cell_lt_12 lon lat) hi hj h

end Hpx.C01
