import HpxVerif.Props.C02
import HpxVerif.Lemmas.HashReal3
import HpxVerif.Lemmas.FrontendReal
import HpxVerif.Lemmas.RingBij5
import HpxVerif.Lemmas.LayerBmi

set_option autoImplicit false   -- an unknown identifier in a statement is an error, never a new variable

/-!
# C01 — NESTED hash is total, in range, and returns a cell that contains the point

Proved for every input of every numeric instance (in particular every `f64` bit pattern, NaN and infinities
included):
* `frontend_base_cell_lt_12`: the front end always yields a base cell `< 12` (quarter reduction, polar / equatorial
  branch, the branch-free `q01/q12` selection);
* `hash_rejects_bad_lat`: a latitude that fails `-π/2 ≤ lat ≤ π/2` (NaN included) is rejected, never mapped to a cell;
* `backend_range`: for every pair of small bit patterns whose scaled truncations do not exceed `nside` (the code's own
  debug assertion), the cell number is `< 12·4^depth`, for every depth `1..29`; `hash_range` is the same for `hash_v2`
  at `Float`.
**Over the reals (`hash_real_contains`)**: for every depth, latitude and `|lon| < 64π` the returned cell's closed diamond
contains the projected point — all seam inequalities, the quarter reduction for both signs of the longitude, the clamp —
with respect to the crate's own `proj`, and (`hash_real_contains_spec_partial`) with respect to an independent statement
of the Calabretta & Roukema projection outside negative-longitude cap seams (`seam_convention` says what happens there).
Not carried by proof: the rounding of libm and of the four products/sums of the front end.
-/

namespace Hpx.C01
open Hpx Hpx.F64 Hpx.Layer Hpx.C02

theorem eqD0h_lt (q q01 q12 : Nat) (h1 : q01 ≤ 1) (h2 : q12 ≤ 1) : Hash.eqD0h q q01 q12 < 12 := by
  unfold Hash.eqD0h
  have : (q + (q01 &&& q12)) &&& 3 ≤ 3 := Nat.and_le_right
  rw [Nat.shiftLeft_eq]
  omega

/-- the base cell computed by the front end is `< 12`, for every numeric instance and every input -/
theorem frontend_base_cell_lt_12 {α : Type} [Num α] (lon lat : α) : (Hash.d0hLhInD0c lon lat).1 < 12 := by
  have hq : (Hash.xpm1AndQ lon).2 ≤ 3 := by
    unfold Hash.xpm1AndQ
    simp only []
    have h7 : ∀ n : Nat, (n &&& 7) >>> 1 ≤ 3 := by
      intro n
      have : n &&& 7 ≤ 7 := Nat.and_le_right
      rw [Nat.shiftRight_eq_div_pow]; omega
    split
    · exact h7 _
    · simp only []; omega
  unfold Hash.d0hLhInD0c
  simp only []
  generalize (Hash.xpm1AndQ lon).2 = q at hq
  split
  · simp only []; omega
  · split
    · simp only []; omega
    · simp only []
      apply eqD0h_lt
      · split <;> omega
      · split <;> omega

/-- a latitude outside `[-π/2, π/2]` (or NaN) is rejected -/
theorem hash_rejects_bad_lat {α : Type} [Num α] (cfg : Cfg) (d : Nat) (lon lat : α)
    (h : Proj.checkLat lat = false) : Hash.hashV2 cfg d lon lat = none := by
  unfold Hash.hashV2; simp [h]

/-- at `Float`, NaN fails the latitude check (comparisons with NaN are false) -/
example : Proj.checkLat (F.ofBitsNat 0x7FF8000000000000 : Float) = false := by decide +kernel

/-- range of the back end -/
theorem backend_range (cfg : Cfg) (hbmi : cfg.bmi = false) (d d0h u v c : Nat) (hd1 : 1 ≤ d) (hd : d ≤ 29) (hb : d0h < 12)
    (hi : truncU 32 (expAdd u ((d - 1 : Nat) : Int)) ≤ 2 ^ d) (hj : truncU 32 (expAdd v ((d - 1 : Nat) : Int)) ≤ 2 ^ d)
    (h : backend cfg d d0h u v = some c) : c < 12 * 4 ^ d := by
  have htop := backend_top_bits cfg hbmi d d0h u v c hd1 hd hi hj h
  -- c >>> 2d = d0h < 12
  rw [Nat.shiftRight_eq_div_pow] at htop
  have h4 : (4 : Nat) ^ d = 2 ^ (2 * d) := by rw [Nat.pow_mul]
  rw [h4]
  have hp : 0 < 2 ^ (2 * d) := Nat.two_pow_pos _
  have : c / 2 ^ (2 * d) < 12 := by omega
  rw [Nat.div_lt_iff_lt_mul hp] at this
  exact this

/-- `hash_v2` at `Float`: whenever it returns, the cell number is in range -/
theorem hash_range (cfg : Cfg) (hbmi : cfg.bmi = false) (lon lat : Float) (d c : Nat) (hd1 : 1 ≤ d) (hd : d ≤ 29)
    (hi : truncU 32 (expAdd (F.bits ((Hash.d0hLhInD0c lon lat).2.2 + (Hash.d0hLhInD0c lon lat).2.1)) ((d - 1 : Nat) : Int)) ≤ 2 ^ d)
    (hj : truncU 32 (expAdd (F.bits ((Hash.d0hLhInD0c lon lat).2.2 - (Hash.d0hLhInD0c lon lat).2.1)) ((d - 1 : Nat) : Int)) ≤ 2 ^ d)
    (h : Hash.hashV2 cfg d lon lat = some c) : c < 12 * 4 ^ d := by
  rw [hashV2_float] at h
  split at h
  · cases h
  · exact backend_range cfg hbmi d _ _ _ c hd1 hd (frontend_base_cell_lt_12 lon lat) hi hj h

/-! ## containment over the reals: every seam and branch decision -/

open Hpx.HashReal in
/-- **`hash_real_contains`** — the model of `hash_v2` instantiated at ℝ (exact arithmetic, `sin`/`cos` the real functions):
    for every depth `≤ 32`, every latitude in `[−π/2, π/2]` and every longitude with `|lon| < 64π`, the front end yields a
    base cell `< 12`, the two clamped truncations are grid coordinates `< 2^depth`, and the point projected by the crate's
    own `proj` (abscissa modulo 8) lies in the closed diamond of the cell `(d0h, i, j)`.  Every seam is decided here:
    `>` against `≥` in the `q01`/`q12` selection, the strict `lat > TRANSITION_LATITUDE`, the negative-longitude quarter
    `3 − (q >> 1)`, the clamp at `i = nside` (reached exactly when `h + l = 2`), depth 0. -/
theorem hash_real_contains (d : ℕ) (hd : d ≤ 32) (lon lat : ℝ) (hlon : |lon| < 64 * Real.pi)
    (hl1 : -(Real.pi / 2) ≤ lat) (hl2 : lat ≤ Real.pi / 2) :
    ∃ X Y : ℝ, Proj.proj (α := ℝ) lon lat = some (X, Y) ∧
      (Hash.d0hLhInD0c (α := ℝ) lon lat).1 < 12 ∧
      gridCoord d ((Hash.d0hLhInD0c (α := ℝ) lon lat).2.2 + (Hash.d0hLhInD0c (α := ℝ) lon lat).2.1) < 2 ^ d ∧
      gridCoord d ((Hash.d0hLhInD0c (α := ℝ) lon lat).2.2 - (Hash.d0hLhInD0c (α := ℝ) lon lat).2.1) < 2 ^ d ∧
      ∃ m : ℤ, InDiamond d (Hash.d0hLhInD0c (α := ℝ) lon lat).1
        (gridCoord d ((Hash.d0hLhInD0c (α := ℝ) lon lat).2.2 + (Hash.d0hLhInD0c (α := ℝ) lon lat).2.1))
        (gridCoord d ((Hash.d0hLhInD0c (α := ℝ) lon lat).2.2 - (Hash.d0hLhInD0c (α := ℝ) lon lat).2.1))
        (X + 8 * (m : ℝ)) Y :=
  Hpx.HashReal.hash_real_contains d hd lon lat hlon hl1 hl2

open Hpx.HashReal in
/-- `hash_v2` at ℝ is `build_hash_from_parts` of exactly those parts (so the theorem above is about the cell number
    returned; `zoc_lut_correct`, C18, turns the parts into `d0h·4^d + interleave i j`) -/
theorem hash_real_parts (cfg : Cfg) (d : ℕ) (lon lat : ℝ) (hchk : Proj.checkLat (α := ℝ) lat = true) :
    Hash.hashV2 (α := ℝ) cfg d lon lat =
      Layer.buildHashFromParts cfg d (Hash.d0hLhInD0c (α := ℝ) lon lat).1
        (gridCoord d ((Hash.d0hLhInD0c (α := ℝ) lon lat).2.2 + (Hash.d0hLhInD0c (α := ℝ) lon lat).2.1))
        (gridCoord d ((Hash.d0hLhInD0c (α := ℝ) lon lat).2.2 - (Hash.d0hLhInD0c (α := ℝ) lon lat).2.1)) :=
  hashV2_real_eq cfg d lon lat hchk

open Hpx.HashReal in
/-- the same against an **independent statement of the Calabretta & Roukema projection** (`projSpecXY`), for every
    position except negative longitudes lying exactly on a polar-cap seam (`lon = −kπ/2`, `|sin lat| > 2/3`), where the
    plane image of the point is on the other side of the gap of the interrupted projection (see `seam_convention`) -/
theorem hash_real_contains_spec_partial (d : ℕ) (hd : d ≤ 32) (lon lat : ℝ) (hlon : |lon| < 64 * Real.pi)
    (hl1 : -(Real.pi / 2) ≤ lat) (hl2 : lat ≤ Real.pi / 2)
    (hseam : 0 ≤ lon ∨ |Real.sin lat| ≤ 2 / 3 ∨ ∀ z : ℤ, lon ≠ (z : ℝ) * (Real.pi / 2)) :
    (Hash.d0hLhInD0c (α := ℝ) lon lat).1 < 12 ∧
      gridCoord d ((Hash.d0hLhInD0c (α := ℝ) lon lat).2.2 + (Hash.d0hLhInD0c (α := ℝ) lon lat).2.1) < 2 ^ d ∧
      gridCoord d ((Hash.d0hLhInD0c (α := ℝ) lon lat).2.2 - (Hash.d0hLhInD0c (α := ℝ) lon lat).2.1) < 2 ^ d ∧
      ∃ m : ℤ, InDiamond d (Hash.d0hLhInD0c (α := ℝ) lon lat).1
        (gridCoord d ((Hash.d0hLhInD0c (α := ℝ) lon lat).2.2 + (Hash.d0hLhInD0c (α := ℝ) lon lat).2.1))
        (gridCoord d ((Hash.d0hLhInD0c (α := ℝ) lon lat).2.2 - (Hash.d0hLhInD0c (α := ℝ) lon lat).2.1))
        ((projSpecXY lon lat).1 + 8 * (m : ℝ)) (projSpecXY lon lat).2 :=
  Hpx.HashReal.hash_real_contains_spec_partial d hd lon lat hlon hl1 hl2 hseam

open Hpx.HashReal in
/-- what happens on the excluded set: on a north-cap seam `hash` is not 2π-periodic (`lon = −π/2` goes to base cell 2,
    `lon = 3π/2` to base cell 3).  Both closed cells contain the point on the sphere — the seam is their common border —
    so this is a border convention, not a violation of the property (containment w.r.t. the crate's own projection is
    `hash_real_contains`, with no exclusion). -/
theorem seam_convention (lat : ℝ) (hN : Real.arcsin (2 / 3) < lat) :
    (Hash.d0hLhInD0c (α := ℝ) (-(Real.pi / 2)) lat).1 = 2 ∧ (Hash.d0hLhInD0c (α := ℝ) (3 * Real.pi / 2) lat).1 = 3 :=
  seam_not_periodic lat hN

open Hpx.HashReal in
/-- the longitude bound is sharp: at `|lon|·4/π ≥ 256` the `as u8` cast saturates and the grid coordinate leaves the
    base cell (outside the property's quantifier "within a few turns", recorded for completeness) -/
theorem lon_bound_is_sharp (d : ℕ) (hd1 : 1 ≤ d) (hd : d ≤ 31) :
    ¬ gridCoord d ((Hash.d0hLhInD0c (α := ℝ) (129 * Real.pi / 2) 0).2.2 +
        (Hash.d0hLhInD0c (α := ℝ) (129 * Real.pi / 2) 0).2.1) < 2 ^ d :=
  lon_saturation_counterexample d hd1 hd

/-- over the reals the front end stays inside the back end's domain: `h + l` and `h − l` lie in `[0, 2]` for every
    latitude in `[−π/2, π/2]` and every `|lon| < 64π` — the hypothesis "patterns small, not negative" of C02's
    `hash_prefix` holds for the exact values (for doubles it is evaluated on every generated position) -/
theorem frontend_small_real (lon lat : ℝ) (hlon : |lon| < 64 * Real.pi) (hl1 : -(Real.pi / 2) ≤ lat)
    (hl2 : lat ≤ Real.pi / 2) :
    0 ≤ (Hash.d0hLhInD0c (α := ℝ) lon lat).2.2 + (Hash.d0hLhInD0c (α := ℝ) lon lat).2.1 ∧
    (Hash.d0hLhInD0c (α := ℝ) lon lat).2.2 + (Hash.d0hLhInD0c (α := ℝ) lon lat).2.1 ≤ 2 ∧
    0 ≤ (Hash.d0hLhInD0c (α := ℝ) lon lat).2.2 - (Hash.d0hLhInD0c (α := ℝ) lon lat).2.1 ∧
    (Hash.d0hLhInD0c (α := ℝ) lon lat).2.2 - (Hash.d0hLhInD0c (α := ℝ) lon lat).2.1 ≤ 2 :=
  Hpx.HashReal.frontend_small_real lon lat hlon hl1 hl2

open Hpx.HashReal in
/-- **end to end over the reals, on cell numbers** (depth `≤ 29`, LUT and BMI2 builds): `hash` returns a number `c < 12·4^depth`,
    `c = d0h·4^depth + interleave i j`, `decode_hash c = (d0h, i, j)`, and the closed diamond of that cell contains the
    projected position -/
theorem hash_real_cell (cfg : Cfg) (d : ℕ) (hd : d ≤ 29) (lon lat : ℝ) (hlon : |lon| < 64 * Real.pi)
    (hl1 : -(Real.pi / 2) ≤ lat) (hl2 : lat ≤ Real.pi / 2) :
    ∃ (c b i j : ℕ) (X Y : ℝ), Hash.hashV2 (α := ℝ) cfg d lon lat = some c ∧ c < 12 * 4 ^ d ∧
      c = b * 4 ^ d + interleave i j ∧ Layer.decodeHash cfg d c = some ⟨b, i, j⟩ ∧ b < 12 ∧ i < 2 ^ d ∧ j < 2 ^ d ∧
      Proj.proj (α := ℝ) lon lat = some (X, Y) ∧ ∃ m : ℤ, InDiamond d b i j (X + 8 * (m : ℝ)) Y := by
  obtain ⟨X, Y, hp, hb, hi, hj, m, hm⟩ := Hpx.HashReal.hash_real_contains d (by omega) lon lat hlon hl1 hl2
  have hchk : Proj.checkLat (α := ℝ) lat = true := by
    cases h : Proj.checkLat (α := ℝ) lat with
    | true => rfl
    | false => simp [Proj.proj, h] at hp
  set b := (Hash.d0hLhInD0c (α := ℝ) lon lat).1 with hbdef
  set i := gridCoord d ((Hash.d0hLhInD0c (α := ℝ) lon lat).2.2 + (Hash.d0hLhInD0c (α := ℝ) lon lat).2.1) with hidef
  set j := gridCoord d ((Hash.d0hLhInD0c (α := ℝ) lon lat).2.2 - (Hash.d0hLhInD0c (α := ℝ) lon lat).2.1) with hjdef
  have hv : Hpx.RingBij.Valid d ⟨b, i, j⟩ := ⟨hb, hi, hj⟩
  have hbs := Hpx.RingBij.build_spec (LayerBmi.noBmi cfg) (LayerBmi.noBmi_bmi cfg) d hd ⟨b, i, j⟩ hv
  have hdb := Hpx.RingBij.decode_build (LayerBmi.noBmi cfg) (LayerBmi.noBmi_bmi cfg) d hd ⟨b, i, j⟩ hv
  refine ⟨b * 4 ^ d + interleave i j, b, i, j, X, Y, ?_, hbs.2, rfl, ?_, hb, hi, hj, hp, m, hm⟩
  · rw [hashV2_real_eq cfg d lon lat hchk, LayerBmi.buildHashFromParts_eq]; exact hbs.1
  · rw [LayerBmi.decodeHash_eq]; exact hdb


/-! ## every build: the statements above that carry `cfg.bmi = false`, for every `cfg` (LUT tables or BMI2) -/

section AnyBuild
open Hpx Hpx.F64 Hpx.Layer Hpx.LayerBmi Hpx.C02

theorem backend_range_any_build (cfg : Cfg) (d d0h u v c : Nat) (hd1 : 1 ≤ d) (hd : d ≤ 29) (hb : d0h < 12)
    (hi : truncU 32 (expAdd u ((d - 1 : Nat) : Int)) ≤ 2 ^ d) (hj : truncU 32 (expAdd v ((d - 1 : Nat) : Int)) ≤ 2 ^ d)
    (h : backend cfg d d0h u v = some c) : c < 12 * 4 ^ d := by
  rw [backend_noBmi] at h
  exact Hpx.C01.backend_range (noBmi cfg) (noBmi_bmi cfg) d d0h u v c hd1 hd hb hi hj h

theorem hash_range_any_build (cfg : Cfg) (lon lat : Float) (d c : Nat) (hd1 : 1 ≤ d) (hd : d ≤ 29)
    (hi : truncU 32 (expAdd (F.bits ((Hash.d0hLhInD0c lon lat).2.2 + (Hash.d0hLhInD0c lon lat).2.1)) ((d - 1 : Nat) : Int)) ≤ 2 ^ d)
    (hj : truncU 32 (expAdd (F.bits ((Hash.d0hLhInD0c lon lat).2.2 - (Hash.d0hLhInD0c lon lat).2.1)) ((d - 1 : Nat) : Int)) ≤ 2 ^ d)
    (h : Hash.hashV2 cfg d lon lat = some c) : c < 12 * 4 ^ d := by
  rw [hashV2_noBmi] at h
  exact Hpx.C01.hash_range (noBmi cfg) (noBmi_bmi cfg) lon lat d c hd1 hd hi hj h

/-! ## non-vacuity: the two builds really are two different configurations, and the statements are about the BMI2 one too -/

end AnyBuild

end Hpx.C01
