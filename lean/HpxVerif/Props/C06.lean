import HpxVerif.Lemmas.CoverLemmas
import HpxVerif.Props.C15
import HpxVerif.Lemmas.ConeReal
import HpxVerif.Props.C16
import HpxVerif.Lemmas.CellExtent4
import HpxVerif.Lemmas.EConeEq3
import HpxVerif.Lemmas.Tightness4
import HpxVerif.Lemmas.ConeBmoc3

set_option autoImplicit false   -- an unknown identifier in a statement is an error, never a new variable

/-!
# C06 — cone coverage flags are truthful and the coverage is tight

Proved:
* `cone_allsky`: `r ≥ π` ⇒ exactly the 12 base cells flagged full (every numeric instance);
* `cone_emit_rule`: **for every classifier**, a cell of the descent's output flagged full was classified `full`
  (`shs < shs(r − D_δ)` in the cone instantiation; the comparison is strict since the repair of finding F15), so a full
  flag never comes from the "descend" branch;
* `cone_output_pack_fixpoint`: the entries returned by `to_bmoc_packing` are a fixed point of the compaction pass
  (C15's `pack_fixpoint`): no four full siblings remain mergeable.
* over ℝ (`full_sound`, `cone_scheme_full_inside_real`): a cell flagged full by the descent has every point strictly inside
  the cone, **given the envelope hypothesis H1** (points of a visited cell within the level's `D` of its centre).
What remains conditional is H1 itself (the geometric facts of C16).  Searched by the oracle:
vertices + 8 points per side + centre of every full cell within the radius; centre of every cell within
`r + 2·(largest centre-to-vertex distance of its depth)`; findings F14, F15 repaired; consequences of F12 in the polar
caps recorded as known findings.
-/

namespace Hpx.C06
open Hpx Hpx.Cover Hpx.Bmoc

theorem cone_allsky {α : Type} [Num α] (cfg : Cfg) (depth : Nat) (hd : depth ≤ 29) (lon lat r : α)
    (hr : Num.ge r (Num.pi : α) = true) :
    ∃ cells, coneInternal cfg depth lon lat r = some cells ∧ cells.length = 12 ∧
      ∀ c ∈ cells, c.depth = 0 ∧ c.full = true ∧ c.hash < 12 := by
  refine ⟨(List.range 12).map fun h => { depth := 0, hash := h, full := true }, ?_, by simp, ?_⟩
  · unfold coneInternal; simp [hr]
  · intro c hc
    simp only [List.mem_map, List.mem_range] at hc
    obtain ⟨h, hh, rfl⟩ := hc
    exact ⟨rfl, rfl, hh⟩

theorem cone_emit_rule (target : Nat) (κ : Nat → Nat → Nat → Option Verdict)
    (fuel depth hash level : Nat) (out : List Cell) (h : coverRec target κ fuel depth hash level = some out)
    (c : Cell) (hc : c ∈ out) (hf : c.full = true) :
    ∃ l, κ c.depth c.hash l = some .full ∨ (c.depth = target ∧ κ c.depth c.hash l = some (.descend true)) :=
  coverRec_full_rule target κ fuel depth hash level out h c hc hf

theorem cone_output_pack_fixpoint (dm : Nat) (l : List Nat) : packPass dm (pack dm l) = pack dm l :=
  C15.pack_fixpoint dm l

/-- **over ℝ, full is sound**: the lower test succeeds only if every point within `D` of the cell centre is strictly
    within `r` of the cone centre -/
theorem full_sound (coneLon coneLat r D : ℝ) (c : ℝ × ℝ) (hrpi : r ≤ Real.pi) (hD : 0 ≤ D)
    (hfull : Num.lt (shs (α := ℝ) coneLon coneLat (Num.cos coneLat) c) (toShsMinMax r D).min = true)
    (q : ℝ × ℝ) (hq : adist c q ≤ D) : adist (coneLon, coneLat) q < r :=
  cone_full_sound coneLon coneLat r D c hrpi hD hfull q hq

/-- **over ℝ, full flags are truthful given the envelope hypothesis `H1`**: every point of a cell flagged full by the
    model's descent is strictly inside the cone -/
theorem cone_scheme_full_inside_real (cfg : Cfg) (lon lat r : ℝ) (hrpi : r ≤ Real.pi) (dists : List ℝ)
    (hD : ∀ D ∈ dists, 0 ≤ D) (inCell : Nat → Nat → ℝ × ℝ → Prop) (target ds : Nat)
    (H1 : ∀ d h c D q, ds ≤ d → Hash.center (α := ℝ) cfg d h = some c → dists[d - ds]? = some D → inCell d h q →
      adist c q ≤ D)
    (fuel root : Nat) (out : List Cell)
    (h : coverRec target (coneClassifier (α := ℝ) cfg lon lat (Num.cos lat) (dists.map (toShsMinMax r))) fuel ds root 0 = some out)
    (c : Cell) (hc : c ∈ out) (hf : c.full = true) (q : ℝ × ℝ) (hq : inCell c.depth c.hash q) :
    adist (lon, lat) q < r :=
  cone_scheme_full_inside cfg lon lat r hrpi dists hD inCell target ds H1 fuel root out h c hc hf q hq

/-- the table of limits that selects the starting depth is regular (each depth halves the limit, relative excess
    `≈ 0.05·2^-k`): the obligation of C16 about the constants of the source, required here because the start cells of this
    coverage are chosen with that table -/
theorem start_depth_table_regular :
    (∀ j, j < 24 →
      C16.dyHalvingLo (j + 2) 1 25 (Gen.smallerEdge2OpEdgeDistDyadic.getD (j + 2) (0, 0)) (Gen.smallerEdge2OpEdgeDistDyadic.getD (j + 3) (0, 0)) = true ∧
      C16.dyHalvingHi (j + 2) 1 10 (Gen.smallerEdge2OpEdgeDistDyadic.getD (j + 2) (0, 0)) (Gen.smallerEdge2OpEdgeDistDyadic.getD (j + 3) (0, 0)) = true) :=
  C16.table_halving.1


/-! ## H1 discharged in the equatorial region: full flags are truthful, no geometric hypothesis left (`ds ≥ 2`) -/

section EquatorialGeometry
open Hpx Hpx.Hash Hpx.C2V Hpx.C2VReal Hpx.Proj Hpx.Cover Hpx.CellReal Hpx.EnvelopeReal Hpx.TopoLift Hpx.CellExtent Real

/-- **`cone_full_inside_equatorial`**: under the same assumptions, every position of a strictly equatorial cell that the
    descent flags FULL is strictly inside the cone. -/
theorem cone_full_inside_equatorial (cfg : Cfg) (lon lat r : ℝ) (hA : |lat| + r < tl) (ds target : ℕ)
    (hds : 2 ≤ ds) (ht : target ≤ 29) (dists : List ℝ)
    (hdists : largestC2VsWithRadius false ds (target + 1) lon lat r = some dists) (fuel root : ℕ)
    (out : List Bmoc.Cell)
    (h : coverRec target (coneClassifier (α := ℝ) cfg lon lat (Num.cos lat) (dists.map (toShsMinMax r))) fuel ds root 0
      = some out)
    (c : Bmoc.Cell) (hc : c ∈ out) (hf : c.full = true) (q : ℝ × ℝ) (hq : InCellEq c.depth c.hash q) :
    adist (lon, lat) q < r :=
  Hpx.CellExtent.cone_full_inside_equatorial cfg lon lat r hA ds target hds ht dists hdists fuel root out h c hc hf q hq

/-- **`H1_equatorial`**: the envelope hypothesis `H1` of `Cover.cone_scheme_no_miss` / `cone_scheme_full_inside`, with
    `inCell := InCellEq` and `dists` the list computed by `largest_center_to_vertex_distances_with_radius(ds, target + 1,
    lon, lat, r)` (release profile), holds for every cone whose latitude band stays below the transition latitude
    (`|lat| + r < tl`), every starting depth `ds ≥ 2` and every target depth `≤ 29`: every position of a strictly
    equatorial cell of depth `d ∈ [ds, target]` is within `dists[d − ds]` of the position returned by `center`. -/
theorem h1_equatorial (cfg : Cfg) (lon lat r : ℝ) (hA : |lat| + r < tl) (ds target : ℕ) (hds : 2 ≤ ds)
    (ht : target ≤ 29) (dists : List ℝ)
    (hdists : largestC2VsWithRadius false ds (target + 1) lon lat r = some dists) :
    ∀ d h c D q, ds ≤ d → Hash.center (α := ℝ) cfg d h = some c → dists[d - ds]? = some D → InCellEq d h q →
      adist c q ≤ D :=
  Hpx.CellExtent.H1_equatorial cfg lon lat r hA ds target hds ht dists hdists


end EquatorialGeometry


/-! ## full flags are truthful in the equatorial region for EVERY starting depth (0 and 1 included) -/

section EquatorialEveryStart
open Hpx Hpx.Hash Hpx.C2V Hpx.C2VReal Hpx.Proj Hpx.Cover Hpx.CellReal Hpx.EnvelopeReal Hpx.TopoLift Hpx.CellExtent Hpx.EConeEq Hpx.Sph Hpx.Bmoc Real

/-- **`cone_full_inside_equatorial_gen`** (ℝ, release profile): `CellExtent.cone_full_inside_equatorial` for EVERY starting
    depth `ds ≤ target ≤ 29` -/
theorem cone_full_inside_equatorial_gen (cfg : Cfg) (lon lat r : ℝ) (hA : |lat| + r < tl) (ds target : ℕ)
    (hdt : ds ≤ target) (ht : target ≤ 29) (dists : List ℝ)
    (hdists : largestC2VsWithRadius false ds (target + 1) lon lat r = some dists) (fuel root : ℕ)
    (out : List Cell)
    (h : coverRec target (coneClassifier (α := ℝ) cfg lon lat (Num.cos lat) (dists.map (toShsMinMax r))) fuel ds root 0
      = some out)
    (c : Cell) (hc : c ∈ out) (hf : c.full = true) (q : ℝ × ℝ) (hq : InCellEq c.depth c.hash q) :
    adist (lon, lat) q < r :=
  Hpx.EConeEq.cone_full_inside_equatorial_gen cfg lon lat r hA ds target hdt ht dists hdists fuel root out h c hc hf q hq


end EquatorialEveryStart


/-! ## tightness: every reported cell has its centre within `r + 2·Mtrue(depth)` of the cone centre - EVERY cone, no geometric
hypothesis (the skip rule bounds the distance by `r + D`, and `D ≤ 2·Mtrue`: C16 `envelope_with_radius_le_twice_true_all`).
Not covered: full parents created by packing (they need "full ⇒ inside"), `delta_depth > 0`, and in the small-cone branch
with starting depth above the requested depth the bound is on the tested descendant, not on the reported ancestor. -/

section Tightness
open Hpx Hpx.Hash Hpx.Proj Hpx.Cover Hpx.C2V Hpx.C2VReal Hpx.EnvelopeReal Hpx.EnvelopePolar Hpx.CellReal Hpx.TopoLift Hpx.CellExtent Hpx.Bmoc Hpx.Sph Hpx.EConeEq Hpx.Tightness Real

/-- **`cone_tight_rec`** (ℝ, release profile).  Any cone `(lon, lat, r)` with `0 ≤ r` (no restriction on its position);
    start depth `ds ≤ target ≤ 29`; `dists` the list `largest_center_to_vertex_distances_with_radius(ds, target + 1, lon,
    lat, r)` of the crate.  Every cell `c` of the output of the descent from any start cell has a centre, which is within
    `min (r + D) π` of the cone centre, `D` the crate's radius of its depth — hence within `r + 2·Mtrue c.depth`:
    radius + twice the TRUE centre-to-vertex distance `π/4·2^-depth` of the cells of its depth centred on the equator. -/
theorem cone_tight_rec (cfg : Cfg) (lon lat r : ℝ) (hr : 0 ≤ r) (ds target : ℕ) (hdt : ds ≤ target) (ht : target ≤ 29)
    (dists : List ℝ) (hdists : largestC2VsWithRadius false ds (target + 1) lon lat r = some dists)
    (fuel root : ℕ) (out : List Cell)
    (h : coverRec target (coneClassifier (α := ℝ) cfg lon lat (Num.cos lat) (dists.map (toShsMinMax r))) fuel ds root 0
      = some out)
    (c : Cell) (hc : c ∈ out) :
    ∃ ctr, center (α := ℝ) cfg c.depth c.hash = some ctr ∧
      adist (lon, lat) ctr ≤ min (r + valR c.depth lon lat r) π ∧
      adist (lon, lat) ctr ≤ r + 2 * Mtrue c.depth :=
  Hpx.Tightness.cone_tight_rec cfg lon lat r hr ds target hdt ht dists hdists fuel root out h c hc

/-- **`coneInternal_tight`** (ℝ, both profiles: in the dev profile the helpers return the release values or panic): every cell `c` of the list that
    `cone_coverage_approx_internal(depth, lon, lat, r)` hands to the builder (`0 ≤ r`, any cone) satisfies
    * (all-sky `r ≥ π`, twelve base cells + recursion, start depth `ds < depth` + recursion, and small cone with
      `ds = depth`) its centre is within `r + 2·Mtrue c.depth` of the cone centre; or
    * (small cone, `ds = best_starting_depth(r) > depth`) `c` is the (partial) ancestor at `depth` of a cell `e` of depth `ds`,
      a neighbour of the cell containing the cone centre, whose centre is within `r + 2·Mtrue ds` of the cone centre. -/
theorem cone_internal_tight (cfg : Cfg) (depth : ℕ) (hd : depth ≤ 29) (lon lat r : ℝ)
    (hr : 0 ≤ r) (cells : List Cell) (h : coneInternal (α := ℝ) cfg depth lon lat r = some cells) (c : Cell)
    (hc : c ∈ cells) :
    (∃ ctr, center (α := ℝ) cfg c.depth c.hash = some ctr ∧ adist (lon, lat) ctr ≤ r + 2 * Mtrue c.depth) ∨
    (∃ ds e ctr, C2V.bestStartingDepth r = some ds ∧ depth < ds ∧ c.depth = depth ∧ c.full = false ∧
      c.hash = e >>> ((ds - depth) <<< 1) ∧ center (α := ℝ) cfg ds e = some ctr ∧
      adist (lon, lat) ctr ≤ r + 2 * Mtrue ds) :=
  Hpx.Tightness.coneInternal_tight cfg depth hd lon lat r hr cells h c hc

/-- **`cone_coverage_approx`, on the returned BMOC** (ℝ, both profiles, any cone with `0 ≤ r`): every entry of the BMOC is
    either a FULL cell (possibly created by the compaction from four full cells: covered by the "full ⇒ inside" clause of
    C06), or a cell of the internal list, for which `coneInternal_tight` holds: its centre is within `r + 2·Mtrue depth` of
    the cone centre (or it is the ancestor of such a cell in the small-cone branch `ds > depth`). -/
theorem cone_coverage_approx_tight (cfg : Cfg) (depth : ℕ) (lon lat r : ℝ) (hr : 0 ≤ r) (b : BMOC)
    (h : coneCoverageApprox (α := ℝ) cfg depth lon lat r = some b) (e : ℕ) (he : e ∈ b.entries) :
    (decode e depth).full = true ∨
    (∃ ctr, center (α := ℝ) cfg (decode e depth).depth (decode e depth).hash = some ctr ∧
      adist (lon, lat) ctr ≤ r + 2 * Mtrue (decode e depth).depth) ∨
    (∃ ds e' ctr, C2V.bestStartingDepth r = some ds ∧ depth < ds ∧ (decode e depth).depth = depth ∧
      (decode e depth).hash = e' >>> ((ds - depth) <<< 1) ∧ center (α := ℝ) cfg ds e' = some ctr ∧
      adist (lon, lat) ctr ≤ r + 2 * Mtrue ds) :=
  Hpx.Tightness.coneCoverageApprox_tight cfg depth lon lat r hr b h e he


end Tightness


/-! ## full flags on the RETURNED BMOC, parents created by packing included (equatorial cones, both profiles, and the `custom` variant) -/

section OnTheReturnedBmoc
open Hpx Hpx.Hash Hpx.C2V Hpx.C2VReal Hpx.Proj Hpx.Cover Hpx.CellReal Hpx.EnvelopeReal Hpx.TopoLift Hpx.CellExtent Hpx.Bmoc Hpx.Tightness Hpx.EConeEq Hpx.ConeBmoc Real

/-- **T2, `cone_coverage_approx_full_inside_equatorial`** (ℝ, both profiles, every `depth ≤ 29`, `|lat| + r < tl`): every
    entry of the returned BMOC that is flagged FULL — a cell flagged by the descent or a parent created by the compaction
    of four full cells, at any number of levels — has every position (`InCellEq`) STRICTLY within `r` of the cone centre.
    (`cone_coverage_approx_good`: moreover such an entry is never centred on the transition latitude.) -/
theorem cone_coverage_approx_full_inside_equatorial (cfg : Cfg) (depth : ℕ) (lon lat r : ℝ)
    (hA : |lat| + r < tl) (b : BMOC) (h : coneCoverageApprox (α := ℝ) cfg depth lon lat r = some b)
    (e : ℕ) (he : e ∈ b.entries) (hf : (decode e depth).full = true) (q : ℝ × ℝ)
    (hq : InCellEq (decode e depth).depth (decode e depth).hash q) : adist (lon, lat) q < r :=
  Hpx.ConeBmoc.cone_coverage_approx_full_inside_equatorial cfg depth lon lat r hA b h e he hf q hq

/-- **T3, full flags of `cone_coverage_approx_custom`, `delta_depth ≠ 0`**: every entry of the returned BMOC flagged FULL
    has every position (`InCellEq`) strictly within `r` of the cone centre -/
theorem cone_coverage_approx_custom_full_inside_equatorial (cfg : Cfg) (depth deltaDepth : ℕ) (hdd : deltaDepth ≠ 0)
    (lon lat r : ℝ) (hA : |lat| + r < tl) (b : BMOC)
    (h : coneCoverageApproxCustom (α := ℝ) cfg depth deltaDepth lon lat r = some b)
    (e : ℕ) (he : e ∈ b.entries) (hf : (decode e depth).full = true) (q : ℝ × ℝ)
    (hq : InCellEq (decode e depth).depth (decode e depth).hash q) : adist (lon, lat) q < r :=
  Hpx.ConeBmoc.cone_coverage_approx_custom_full_inside_equatorial cfg depth deltaDepth hdd lon lat r hA b h e he hf q hq

/-- **T3, "full only if all the deepest cells under it were full"**: a FULL entry of the BMOC returned by
    `cone_coverage_approx_custom` (`delta_depth ≠ 0`) covers only cells of depth `deep = depth + delta_depth` that are covered
    by a FULL cell of the list of the descent at `deep` -/
theorem cone_coverage_approx_custom_full_only_if (cfg : Cfg) (depth deltaDepth : ℕ) (hdd : deltaDepth ≠ 0)
    (lon lat r : ℝ) (b : BMOC)
    (h : coneCoverageApproxCustom (α := ℝ) cfg depth deltaDepth lon lat r = some b)
    (e : ℕ) (he : e ∈ b.entries) (hf : (decode e depth).full = true) (x : ℕ)
    (hx : x / 4 ^ (depth + deltaDepth - (decode e depth).depth) = (decode e depth).hash) :
    ∃ cells, coneInternal (α := ℝ) cfg (depth + deltaDepth) lon lat r = some cells ∧
      ∃ c ∈ cells, c.full = true ∧ x / 4 ^ (depth + deltaDepth - c.depth) = c.hash :=
  Hpx.ConeBmoc.cone_coverage_approx_custom_full_only_if cfg depth deltaDepth hdd lon lat r b h e he hf x hx


end OnTheReturnedBmoc

end Hpx.C06
