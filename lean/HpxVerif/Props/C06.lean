import HpxVerif.Lemmas.CoverLemmas
import HpxVerif.Props.C15

/-!
# C06 — cone coverage flags are truthful and the coverage is tight

Proved:
* `cone_allsky`: `r ≥ π` ⇒ exactly the 12 base cells flagged full (every numeric instance);
* `cone_emit_rule`: **for every classifier**, a cell of the descent's output flagged full was classified `full`
  (`shs < shs(r − D_δ)` in the cone instantiation; the comparison is strict since the repair of finding F15), so a full
  flag never comes from the "descend" branch;
* `cone_output_pack_fixpoint`: the entries returned by `to_bmoc_packing` are a fixed point of the compaction pass
  (C15's `pack_fixpoint`): no four full siblings remain mergeable.
Conditional (needs the geometric facts of C16): a cell classified full lies inside the cone.  Searched by the oracle:
vertices + 8 points per side + centre of every full cell within the radius; centre of every cell within
`r + 2·(largest centre-to-vertex distance of its depth)`; findings F14, F15 repaired; consequences of F12 in the polar
caps recorded as known findings.
-/

namespace Hpx.C06
open Hpx Hpx.Cover Hpx.Bmoc

theorem cone_allsky {α : Type} [Num α] (cfg : Cfg) (depth : Nat) (hd : depth ≤ 29) (lon lat r : α)
    (hr : Num.ge r (Num.pi : α) = true) :
    ∃ cells, coneInternal cfg depth lon lat r = some cells ∧ cells.length = 12 ∧
      ∀ c ∈ cells, c.depth = 0 ∧ c.full = true ∧ c.hash < 12 := by
  refine ⟨(List.range 12).map fun h => { depth := 0, hash := h, full := true }, ?_, by simp, ?_⟩
  · unfold coneInternal; simp [hr]
  · intro c hc
    simp only [List.mem_map, List.mem_range] at hc
    obtain ⟨h, hh, rfl⟩ := hc
    exact ⟨rfl, rfl, hh⟩

theorem cone_emit_rule (target : Nat) (κ : Nat → Nat → Nat → Option Verdict)
    (fuel depth hash level : Nat) (out : List Cell) (h : coverRec target κ fuel depth hash level = some out)
    (c : Cell) (hc : c ∈ out) (hf : c.full = true) :
    ∃ l, κ c.depth c.hash l = some .full ∨ (c.depth = target ∧ κ c.depth c.hash l = some (.descend true)) :=
  coverRec_full_rule target κ fuel depth hash level out h c hc hf

theorem cone_output_pack_fixpoint (dm : Nat) (l : List Nat) : packPass dm (pack dm l) = pack dm l :=
  C15.pack_fixpoint dm l

end Hpx.C06
