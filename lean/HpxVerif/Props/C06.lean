import HpxVerif.Lemmas.CoverLemmas
import HpxVerif.Props.C15
import HpxVerif.Lemmas.ConeReal
import HpxVerif.Props.C16
import HpxVerif.Lemmas.CellExtent4
import HpxVerif.Lemmas.EConeEq3

set_option autoImplicit false   -- an unknown identifier in a statement is an error, never a new variable

/-!
# C06 — cone coverage flags are truthful and the coverage is tight

Proved:
* `cone_allsky`: `r ≥ π` ⇒ exactly the 12 base cells flagged full (every numeric instance);
* `cone_emit_rule`: **for every classifier**, a cell of the descent's output flagged full was classified `full`
  (`shs < shs(r − D_δ)` in the cone instantiation; the comparison is strict since the repair of finding F15), so a full
  flag never comes from the "descend" branch;
* `cone_output_pack_fixpoint`: the entries returned by `to_bmoc_packing` are a fixed point of the compaction pass
  (C15's `pack_fixpoint`): no four full siblings remain mergeable.
* over ℝ (`full_sound`, `cone_scheme_full_inside_real`): a cell flagged full by the descent has every point strictly inside
  the cone, **given the envelope hypothesis H1** (points of a visited cell within the level's `D` of its centre).
What remains conditional is H1 itself (the geometric facts of C16).  Searched by the oracle:
vertices + 8 points per side + centre of every full cell within the radius; centre of every cell within
`r + 2·(largest centre-to-vertex distance of its depth)`; findings F14, F15 repaired; consequences of F12 in the polar
caps recorded as known findings.
-/

namespace Hpx.C06
open Hpx Hpx.Cover Hpx.Bmoc

theorem cone_allsky {α : Type} [Num α] (cfg : Cfg) (depth : Nat) (hd : depth ≤ 29) (lon lat r : α)
    (hr : Num.ge r (Num.pi : α) = true) :
    ∃ cells, coneInternal cfg depth lon lat r = some cells ∧ cells.length = 12 ∧
      ∀ c ∈ cells, c.depth = 0 ∧ c.full = true ∧ c.hash < 12 := by
  refine ⟨(List.range 12).map fun h => { depth := 0, hash := h, full := true }, ?_, by simp, ?_⟩
  · unfold coneInternal; simp [hr]
  · intro c hc
    simp only [List.mem_map, List.mem_range] at hc
    obtain ⟨h, hh, rfl⟩ := hc
    exact ⟨rfl, rfl, hh⟩

theorem cone_emit_rule (target : Nat) (κ : Nat → Nat → Nat → Option Verdict)
    (fuel depth hash level : Nat) (out : List Cell) (h : coverRec target κ fuel depth hash level = some out)
    (c : Cell) (hc : c ∈ out) (hf : c.full = true) :
    ∃ l, κ c.depth c.hash l = some .full ∨ (c.depth = target ∧ κ c.depth c.hash l = some (.descend true)) :=
  coverRec_full_rule target κ fuel depth hash level out h c hc hf

theorem cone_output_pack_fixpoint (dm : Nat) (l : List Nat) : packPass dm (pack dm l) = pack dm l :=
  C15.pack_fixpoint dm l

/-- **over ℝ, full is sound**: the lower test succeeds only if every point within `D` of the cell centre is strictly
    within `r` of the cone centre -/
theorem full_sound (coneLon coneLat r D : ℝ) (c : ℝ × ℝ) (hrpi : r ≤ Real.pi) (hD : 0 ≤ D)
    (hfull : Num.lt (shs (α := ℝ) coneLon coneLat (Num.cos coneLat) c) (toShsMinMax r D).min = true)
    (q : ℝ × ℝ) (hq : adist c q ≤ D) : adist (coneLon, coneLat) q < r :=
  cone_full_sound coneLon coneLat r D c hrpi hD hfull q hq

/-- **over ℝ, full flags are truthful given the envelope hypothesis `H1`**: every point of a cell flagged full by the
    model's descent is strictly inside the cone -/
theorem cone_scheme_full_inside_real (cfg : Cfg) (lon lat r : ℝ) (hrpi : r ≤ Real.pi) (dists : List ℝ)
    (hD : ∀ D ∈ dists, 0 ≤ D) (inCell : Nat → Nat → ℝ × ℝ → Prop) (target ds : Nat)
    (H1 : ∀ d h c D q, ds ≤ d → Hash.center (α := ℝ) cfg d h = some c → dists[d - ds]? = some D → inCell d h q →
      adist c q ≤ D)
    (fuel root : Nat) (out : List Cell)
    (h : coverRec target (coneClassifier (α := ℝ) cfg lon lat (Num.cos lat) (dists.map (toShsMinMax r))) fuel ds root 0 = some out)
    (c : Cell) (hc : c ∈ out) (hf : c.full = true) (q : ℝ × ℝ) (hq : inCell c.depth c.hash q) :
    adist (lon, lat) q < r :=
  cone_scheme_full_inside cfg lon lat r hrpi dists hD inCell target ds H1 fuel root out h c hc hf q hq

/-- the table of limits that selects the starting depth is regular (each depth halves the limit, relative excess
    `≈ 0.05·2^-k`): the obligation of C16 about the constants of the source, required here because the start cells of this
    coverage are chosen with that table -/
theorem start_depth_table_regular :
    (∀ j, j < 24 →
      C16.dyHalvingLo (j + 2) 1 25 (Gen.smallerEdge2OpEdgeDistDyadic.getD (j + 2) (0, 0)) (Gen.smallerEdge2OpEdgeDistDyadic.getD (j + 3) (0, 0)) = true ∧
      C16.dyHalvingHi (j + 2) 1 10 (Gen.smallerEdge2OpEdgeDistDyadic.getD (j + 2) (0, 0)) (Gen.smallerEdge2OpEdgeDistDyadic.getD (j + 3) (0, 0)) = true) :=
  C16.table_halving.1


/-! ## H1 discharged in the equatorial region: full flags are truthful, no geometric hypothesis left (`ds ≥ 2`) -/

section EquatorialGeometry
open Hpx Hpx.Hash Hpx.C2V Hpx.C2VReal Hpx.Proj Hpx.Cover Hpx.CellReal Hpx.EnvelopeReal Hpx.TopoLift Hpx.CellExtent Real

/-- **`cone_full_inside_equatorial`**: under the same assumptions, every position of a strictly equatorial cell that the
    descent flags FULL is strictly inside the cone. -/
theorem cone_full_inside_equatorial (cfg : Cfg) (lon lat r : ℝ) (hA : |lat| + r < tl) (ds target : ℕ)
    (hds : 2 ≤ ds) (ht : target ≤ 29) (dists : List ℝ)
    (hdists : largestC2VsWithRadius false ds (target + 1) lon lat r = some dists) (fuel root : ℕ)
    (out : List Bmoc.Cell)
    (h : coverRec target (coneClassifier (α := ℝ) cfg lon lat (Num.cos lat) (dists.map (toShsMinMax r))) fuel ds root 0
      = some out)
    (c : Bmoc.Cell) (hc : c ∈ out) (hf : c.full = true) (q : ℝ × ℝ) (hq : InCellEq c.depth c.hash q) :
    adist (lon, lat) q < r :=
  Hpx.CellExtent.cone_full_inside_equatorial cfg lon lat r hA ds target hds ht dists hdists fuel root out h c hc hf q hq

/-- **`H1_equatorial`**: the envelope hypothesis `H1` of `Cover.cone_scheme_no_miss` / `cone_scheme_full_inside`, with
    `inCell := InCellEq` and `dists` the list computed by `largest_center_to_vertex_distances_with_radius(ds, target + 1,
    lon, lat, r)` (release profile), holds for every cone whose latitude band stays below the transition latitude
    (`|lat| + r < tl`), every starting depth `ds ≥ 2` and every target depth `≤ 29`: every position of a strictly
    equatorial cell of depth `d ∈ [ds, target]` is within `dists[d − ds]` of the position returned by `center`. -/
theorem h1_equatorial (cfg : Cfg) (lon lat r : ℝ) (hA : |lat| + r < tl) (ds target : ℕ) (hds : 2 ≤ ds)
    (ht : target ≤ 29) (dists : List ℝ)
    (hdists : largestC2VsWithRadius false ds (target + 1) lon lat r = some dists) :
    ∀ d h c D q, ds ≤ d → Hash.center (α := ℝ) cfg d h = some c → dists[d - ds]? = some D → InCellEq d h q →
      adist c q ≤ D :=
  Hpx.CellExtent.H1_equatorial cfg lon lat r hA ds target hds ht dists hdists


end EquatorialGeometry


/-! ## full flags are truthful in the equatorial region for EVERY starting depth (0 and 1 included) -/

section EquatorialEveryStart
open Hpx Hpx.Hash Hpx.C2V Hpx.C2VReal Hpx.Proj Hpx.Cover Hpx.CellReal Hpx.EnvelopeReal Hpx.TopoLift Hpx.CellExtent Hpx.EConeEq Hpx.Sph Hpx.Bmoc Real

/-- **`cone_full_inside_equatorial_gen`** (ℝ, release profile): `CellExtent.cone_full_inside_equatorial` for EVERY starting
    depth `ds ≤ target ≤ 29` -/
theorem cone_full_inside_equatorial_gen (cfg : Cfg) (lon lat r : ℝ) (hA : |lat| + r < tl) (ds target : ℕ)
    (hdt : ds ≤ target) (ht : target ≤ 29) (dists : List ℝ)
    (hdists : largestC2VsWithRadius false ds (target + 1) lon lat r = some dists) (fuel root : ℕ)
    (out : List Cell)
    (h : coverRec target (coneClassifier (α := ℝ) cfg lon lat (Num.cos lat) (dists.map (toShsMinMax r))) fuel ds root 0
      = some out)
    (c : Cell) (hc : c ∈ out) (hf : c.full = true) (q : ℝ × ℝ) (hq : InCellEq c.depth c.hash q) :
    adist (lon, lat) q < r :=
  Hpx.EConeEq.cone_full_inside_equatorial_gen cfg lon lat r hA ds target hdt ht dists hdists fuel root out h c hc hf q hq


end EquatorialEveryStart

end Hpx.C06
