import HpxVerif.Lemmas.PolyLemmas
import HpxVerif.Props.C16
import HpxVerif.Lemmas.PolyReal6
import HpxVerif.Model.PolyExact
import HpxVerif.Lemmas.Tightness3
import HpxVerif.Lemmas.PolyCompose6
import HpxVerif.Lemmas.PolyCompose2
import HpxVerif.Lemmas.PolyCompose4

set_option autoImplicit false   -- an unknown identifier in a statement is an error, never a new variable

/-!
# C12 — polygon coverage keeps the vertex cells, is tight, and flags honestly

Model: `Sph.polygonCoverageApprox` (`polygon_coverage(.., exact = false)`: `Polygon::new`, `Cone::bounding_cone`, start
cells, sorted vertex-hash list, descent with `is_in_list` / `n_vertices_in_poly` / `has_intersection`), and
`Polygon.contains` — tied bit for bit to the crate on every run (BMOC entry by entry; `contains` answer by answer).

Proved, for **every polygon, every numeric instance, every answer of the floating-point tests**:
* `is_in_list_complete`: on the sorted, deduplicated vertex-hash list `is_in_list` answers true for every ancestor
  (or the cell itself) of every listed hash — the binary search never loses a vertex;
* `vertex_cell_kept`: in the descent below a start cell, every vertex hash lying under that start cell ends up under a
  cell of the output (the cell of a vertex is never skipped and never cut off), and `vertex_cell_kept_allsky`: when the
  bounding cone is too large for a starting depth (start cells = the 12 base cells) this holds for every vertex hash
  `< 12·4^depth`, with no hypothesis left;
* `full_flag_rule`: a cell of the output flagged full is not an ancestor of a vertex cell and its four vertices, as
  computed by `vertices`, all satisfy `Polygon.contains` (4 of 4); `descend` never carries a full flag;
* `structure_below`: the cell list of every start cell is well formed, inside the start cell, depths between start and target
  depth; `structure_roots`: with strictly increasing start cells the whole output is well formed and is exactly the
  concatenation of the per-root outputs (no cell invented).
* `coverage_spec`, `coverage_vertex_kept_allsky`: the value returned by `polygon_coverage` *is* the encoded concatenation
  of those descents (start depth `≤ depth`; base cells when no starting depth exists), so the theorems above speak about
  the returned BMOC.
**Over the reals** (last section): `is_in_lon_range_spec` (no hypothesis), `crossing_test_geometric`, `contains_parity`
(every polygon: parity of the edges crossed going south, XOR the south-pole flag), and **`contains_convex`: for every
convex polygon of either winding, inside a hemisphere and containing no pole, and every point of the sphere not on its
boundary, `Polygon::contains` answers exactly "inside all the edge half-spaces"** (vertex meridians and poles included).
Left to the oracle (searched on every run; see DESIGN.md): that the start cells (neighbourhood of the bounding-cone centre
cell) cover every vertex cell; tightness w.r.t. the bounding cone; the `exact` mode (its `arc_special_points` root finder is not modelled: oracle only).
-/

namespace Hpx.C12
open Hpx Hpx.Cover Hpx.Bmoc Hpx.Sph

variable {α : Type} [Num α]

theorem is_in_list_complete (depth hash depthHashs : Nat) (hs : List Nat) (v : Nat) (hv : v ∈ hs)
    (hanc : v >>> ((depthHashs - depth) <<< 1) = hash) :
    isInList depth hash depthHashs (dedupAdj (sortNat hs)) = true :=
  isInList_complete depth hash depthHashs _ (pairwise_dedup_sort hs) v ((mem_dedup_sort v hs).mpr hv) hanc

theorem classifier_skip (cfg : Cfg) (target : Nat) (poly : Polygon α) (s : List Nat) (d h l : Nat)
    (hk : polyClassifier cfg target poly s d h l = some .skip) : isInList d h target s = false := by
  unfold polyClassifier at hk
  split at hk
  · simp at hk
  · simpa using ‹¬ isInList d h target s = true›

theorem classifier_descend (cfg : Cfg) (target : Nat) (poly : Polygon α) (s : List Nat) (d h l : Nat) (fl : Bool)
    (hk : polyClassifier cfg target poly s d h l = some (.descend fl)) : fl = false := by
  unfold polyClassifier at hk
  split at hk
  · simpa using hk.symm
  · split at hk
    · simp at hk
    · split at hk
      · simp at hk
      · simp only at hk
        split at hk
        · simp at hk
        · split at hk
          · simpa using hk.symm
          · split at hk
            · split at hk
              · simpa using hk.symm
              · simp at hk
            · simp at hk

theorem classifier_full (cfg : Cfg) (target : Nat) (poly : Polygon α) (s : List Nat) (d h l : Nat)
    (hk : polyClassifier cfg target poly s d h l = some .full) :
    isInList d h target s = false ∧ ∃ vs cs, Hash.vertices (α := α) cfg d h = some vs ∧
      vs.mapM (fun v => fromSphCoo cfg.debug v.1 v.2) = some cs ∧ (cs.filter fun c => poly.contains c).length = 4 := by
  unfold polyClassifier at hk
  split at hk
  · simp at hk
  · refine ⟨by simpa using ‹¬ isInList d h target s = true›, ?_⟩
    split at hk
    · simp at hk
    · rename_i vs hvs
      split at hk
      · simp at hk
      · rename_i cs hcs
        simp only at hk
        split at hk
        · rename_i h4
          exact ⟨vs, cs, hvs, hcs, by simpa using h4⟩
        · split at hk
          · simp at hk
          · split at hk
            · split at hk <;> simp at hk
            · simp at hk

/-- **vertex cells are kept**: below a start cell `(ds, root)`, every vertex hash under that start cell lies under a
    cell of the output. -/
theorem vertex_cell_kept (cfg : Cfg) (target : Nat) (poly : Polygon α) (hs : List Nat)
    (fuel ds root level : Nat) (out : List Cell) (hds : ds ≤ target)
    (h : coverRec target (polyClassifier cfg target poly (dedupAdj (sortNat hs))) fuel ds root level = some out)
    (v : Nat) (hv : v ∈ hs) (hroot : v >>> ((target - ds) <<< 1) = root) :
    ∃ c ∈ out, c.depth ≤ target ∧ v >>> ((target - c.depth) <<< 1) = c.hash := by
  refine coverRec_no_miss (P := Nat) (fun d hh q => d ≤ target ∧ q >>> ((target - d) <<< 1) = hh) (fun q => q ∈ hs)
    target _ ?_ ?_ fuel ds root level out h v ⟨hds, hroot⟩ hv
  · intro d hh q hne ⟨hdt, hq⟩
    have hlt : d + 1 ≤ target := by omega
    have e : (target - d) <<< 1 = (target - (d + 1)) <<< 1 + 2 := by
      simp only [Nat.shiftLeft_eq]; omega
    rw [e, Nat.shiftRight_add] at hq
    generalize q >>> ((target - (d + 1)) <<< 1) = m at hq
    have hm : m = 4 * hh + m % 4 := by
      rw [Nat.shiftRight_eq_div_pow] at hq; omega
    have h4 : m % 4 < 4 := Nat.mod_lt _ (by omega)
    have c0 : hh <<< 2 = 4 * hh := by rw [Nat.shiftLeft_eq]; omega
    rcases (by omega : m % 4 = 0 ∨ m % 4 = 1 ∨ m % 4 = 2 ∨ m % 4 = 3) with k | k | k | k
    · exact Or.inl ⟨hlt, by omega⟩
    · exact Or.inr (Or.inl ⟨hlt, by rw [shl2_or hh 1 (by omega)]; omega⟩)
    · exact Or.inr (Or.inr (Or.inl ⟨hlt, by rw [shl2_or hh 2 (by omega)]; omega⟩))
    · exact Or.inr (Or.inr (Or.inr ⟨hlt, by rw [shl2_or hh 3 (by omega)]; omega⟩))
  · intro d hh l hk q ⟨_, hq⟩ hqs
    have := classifier_skip cfg target poly _ d hh l hk
    rw [is_in_list_complete d hh target hs q hqs hq] at this
    exact absurd this (by simp)

/-- **flags**: a full cell is no ancestor of a vertex cell and has 4 of its 4 vertices inside (`Polygon.contains`) -/
theorem full_flag_rule (cfg : Cfg) (target : Nat) (poly : Polygon α) (s : List Nat)
    (fuel ds root level : Nat) (out : List Cell)
    (h : coverRec target (polyClassifier cfg target poly s) fuel ds root level = some out)
    (c : Cell) (hc : c ∈ out) (hf : c.full = true) :
    isInList c.depth c.hash target s = false ∧ ∃ vs cs, Hash.vertices (α := α) cfg c.depth c.hash = some vs ∧
      vs.mapM (fun v => fromSphCoo cfg.debug v.1 v.2) = some cs ∧ (cs.filter fun x => poly.contains x).length = 4 := by
  obtain ⟨l, hl | ⟨_, hl⟩⟩ := coverRec_full_rule target _ fuel ds root level out h c hc hf
  · exact classifier_full cfg target poly s _ _ l hl
  · exact absurd (classifier_descend cfg target poly s _ _ l true hl) (by simp)

theorem structure_below (cfg : Cfg) (target : Nat) (poly : Polygon α) (s : List Nat) (D : Nat) (hD : target ≤ D)
    (fuel ds root level : Nat) (out : List Cell) (hds : ds ≤ target)
    (h : coverRec target (polyClassifier cfg target poly s) fuel ds root level = some out) :
    WF D out ∧ ∀ c ∈ out, lo D ⟨ds, root, true⟩ ≤ lo D c ∧ hi D c ≤ hi D ⟨ds, root, true⟩ ∧
      ds ≤ c.depth ∧ c.depth ≤ target :=
  coverRec_below target _ D hD fuel ds root level out hds h

theorem structure_roots (cfg : Cfg) (target : Nat) (poly : Polygon α) (s : List Nat) (D : Nat) (hD : target ≤ D)
    (fuel ds : Nat) (hds : ds ≤ target) (roots : List Nat) (hp : roots.Pairwise (· < ·)) (out : List Cell)
    (h : roots.foldlM (fun acc r => (coverRec target (polyClassifier cfg target poly s) fuel ds r 0).map (acc ++ ·)) [] = some out) :
    WF D out ∧
    (∀ c ∈ out, ∃ r ∈ roots, ∃ o, coverRec target (polyClassifier cfg target poly s) fuel ds r 0 = some o ∧ c ∈ o) ∧
    (∀ r ∈ roots, ∃ o, coverRec target (polyClassifier cfg target poly s) fuel ds r 0 = some o ∧ ∀ c ∈ o, c ∈ out) := by
  obtain ⟨g1, g2, g3, _⟩ := rootsFold target _ D hD fuel ds hds roots [] out hp trivial (by simp) h
  refine ⟨g1, ?_, g3⟩
  intro c hc
  rcases g2 c hc with h0 | h0
  · simp at h0
  · exact h0

/-- start cells = the 12 base cells: every vertex hash `< 12·4^target` is kept, no hypothesis on the geometry -/
theorem vertex_cell_kept_allsky (cfg : Cfg) (target : Nat) (poly : Polygon α) (hs : List Nat) (fuel : Nat) (out : List Cell)
    (h : (List.range 12).foldlM (fun acc r =>
      (coverRec target (polyClassifier cfg target poly (dedupAdj (sortNat hs))) fuel 0 r 0).map (acc ++ ·)) [] = some out)
    (v : Nat) (hv : v ∈ hs) (hlt : v < 12 * 4 ^ target) :
    ∃ c ∈ out, c.depth ≤ target ∧ v >>> ((target - c.depth) <<< 1) = c.hash := by
  have hp : (List.range 12).Pairwise (· < ·) := by decide
  obtain ⟨_, _, g3⟩ := structure_roots cfg target poly _ target (Nat.le_refl _) fuel 0 (Nat.zero_le _) _ hp out h
  have hr : v >>> ((target - 0) <<< 1) < 12 := by
    rw [Nat.shiftRight_eq_div_pow, Nat.sub_zero, Nat.shiftLeft_eq]
    apply Nat.div_lt_of_lt_mul
    have e : (2 : Nat) ^ (target * 2 ^ 1) = 4 ^ target := by
      rw [show target * 2 ^ 1 = 2 * target by omega, Nat.pow_mul]
    rw [e]; omega
  obtain ⟨o, ho, hsub⟩ := g3 _ (List.mem_range.mpr hr)
  obtain ⟨c, hc, hcd⟩ := vertex_cell_kept cfg target poly hs fuel 0 _ 0 o (Nat.zero_le _) ho v hv rfl
  exact ⟨c, hsub c hc, hcd⟩

/-- what `polygon_coverage(.., exact = false)` returns, when it returns: the encoded concatenation of the descents below
    its start cells, with the classifier built from `Polygon::new` and the sorted vertex-hash list -/
theorem coverage_spec (cfg : Cfg) (depth : Nat) (vertices : List (α × α)) (b : BMOC)
    (h : polygonCoverageApprox cfg depth vertices = some b) :
    depth ≤ 29 ∧ ∃ (poly : Polygon α) (hs : List Nat) (ds : Nat) (roots : List Nat) (cells : List Cell),
      Polygon.new cfg.debug vertices = some poly ∧
      poly.vertices.mapM (fun c => Hash.hashV2 cfg depth c.lon c.lat) = some hs ∧
      ds ≤ depth ∧ (C2V.hasBestStartingDepth (α := α) (match boundingCone poly.vertices with | some x => x.2 | none => Num.zero) = false →
        ds = 0 ∧ roots = List.range 12) ∧
      roots.foldlM (fun acc r =>
        (coverRec depth (polyClassifier cfg depth poly (dedupAdj (sortNat hs))) (depth + 2) ds r 0).map (acc ++ ·)) [] = some cells ∧
      b = { dmax := depth, entries := cells.map (encode depth) } := by
  unfold polygonCoverageApprox at h
  split at h
  · simp at h
  · rename_i hd
    refine ⟨by omega, ?_⟩
    split at h
    · simp at h
    · rename_i poly hpoly
      split at h
      · simp at h
      · rename_i centre radius hbc
        simp only at h
        split at h
        · simp at h
        · rename_i ds roots hroots
          split at h
          · simp at h
          · rename_i hs hhs
            simp only [Option.map_eq_some_iff] at h
            obtain ⟨cells, hcells, hb⟩ := h
            refine ⟨poly, hs, ds, roots, cells, hpoly, hhs, ?_, ?_, hcells, hb.symm⟩
            · split at hroots
              · cases hroots; omega
              · split at hroots
                · simp at hroots
                · split at hroots
                  · simp at hroots
                  · simp only [Option.map_eq_some_iff] at hroots
                    obtain ⟨nm, _, hnm⟩ := hroots
                    cases hnm
                    exact Nat.min_le_right _ _
            · intro hno
              rw [hbc] at hno
              simp only at hno
              simp only [hno] at hroots
              simp at hroots
              exact ⟨hroots.1.symm, hroots.2.symm⟩

/-- end to end, large bounding cone (no starting depth): the returned BMOC's cell list keeps every vertex hash -/
theorem coverage_vertex_kept_allsky (cfg : Cfg) (depth : Nat) (vertices : List (α × α)) (b : BMOC)
    (h : polygonCoverageApprox cfg depth vertices = some b) :
    ∃ (poly : Polygon α) (hs : List Nat) (cells : List Cell), Polygon.new cfg.debug vertices = some poly ∧
      poly.vertices.mapM (fun c => Hash.hashV2 cfg depth c.lon c.lat) = some hs ∧
      b.entries = cells.map (encode depth) ∧
      (C2V.hasBestStartingDepth (α := α) (match boundingCone poly.vertices with | some x => x.2 | none => Num.zero) = false →
        ∀ v ∈ hs, v < 12 * 4 ^ depth → ∃ c ∈ cells, c.depth ≤ depth ∧ v >>> ((depth - c.depth) <<< 1) = c.hash) := by
  obtain ⟨_, poly, hs, ds, roots, cells, h1, h2, _, h4, h5, h6⟩ := coverage_spec cfg depth vertices b h
  refine ⟨poly, hs, cells, h1, h2, by rw [h6], ?_⟩
  intro hno v hv hlt
  obtain ⟨rfl, rfl⟩ := h4 hno
  exact vertex_cell_kept_allsky cfg depth poly hs (depth + 2) cells h5 v hv hlt

/-! ## both modes: `polygon_coverage(vertices, exact_solution)` -/

/-- the approximate mode is the two-mode function with no extra cell -/
theorem coverage_approx_is_mode_false (cfg : Cfg) (depth : Nat) (vertices : List (α × α)) :
    polygonCoverage cfg depth vertices false = polygonCoverageApprox cfg depth vertices := by
  unfold polygonCoverage polygonCoverageWith polygonCoverageApprox
  simp only [Bool.false_eq_true, if_false]
  split
  · rfl
  · cases Polygon.new cfg.debug vertices with
    | none => rfl
    | some poly =>
      simp only []
      cases boundingCone poly.vertices with
      | none => rfl
      | some cr =>
        obtain ⟨centre, radius⟩ := cr
        simp only []
        congr 1
        all_goals first
          | rfl
          | (funext a; cases List.mapM (fun c => Hash.hashV2 cfg depth c.lon c.lat) poly.vertices <;> simp only [List.append_nil])
          | (funext a b; cases List.mapM (fun c => Hash.hashV2 cfg depth c.lon c.lat) poly.vertices <;> simp only [List.append_nil])

/-- what `polygon_coverage` returns in either mode, when it returns: the encoded concatenation of the descents below its
    start cells, with the classifier built from the polygon and the sorted list of the vertex cells **plus, in the exact
    mode, the cells of the special points of every edge** (`special_points_finder::arc_special_points`, modelled bit for
    bit in `Model/SpecialPoints.lean`) -/
theorem coverage_spec_modes (cfg : Cfg) (depth : Nat) (vertices : List (α × α)) (exact : Bool) (b : BMOC)
    (h : polygonCoverage cfg depth vertices exact = some b) :
    depth ≤ 29 ∧ ∃ (poly : Polygon α) (hs ex : List Nat) (ds : Nat) (roots : List Nat) (cells : List Cell),
      Polygon.new cfg.debug vertices = some poly ∧
      poly.vertices.mapM (fun c => Hash.hashV2 cfg depth c.lon c.lat) = some hs ∧
      (if exact then specialHashes cfg depth poly else some []) = some ex ∧
      ds ≤ depth ∧ (C2V.hasBestStartingDepth (α := α) (match boundingCone poly.vertices with | some x => x.2 | none => Num.zero) = false →
        ds = 0 ∧ roots = List.range 12) ∧
      roots.foldlM (fun acc r =>
        (coverRec depth (polyClassifier cfg depth poly (dedupAdj (sortNat (hs ++ ex)))) (depth + 2) ds r 0).map (acc ++ ·)) [] = some cells ∧
      b = { dmax := depth, entries := cells.map (encode depth) } := by
  unfold polygonCoverage polygonCoverageWith at h
  split at h
  · simp at h
  · rename_i hd
    refine ⟨by omega, ?_⟩
    split at h
    · simp at h
    · rename_i poly hpoly
      split at h
      · simp at h
      · rename_i centre radius hbc
        simp only at h
        split at h
        · simp at h
        · rename_i ds roots hroots
          split at h
          · simp at h
          · rename_i hs hhs
            split at h
            · simp at h
            · rename_i ex hex
              simp only [Option.map_eq_some_iff] at h
              obtain ⟨cells, hcells, hb⟩ := h
              refine ⟨poly, hs, ex, ds, roots, cells, hpoly, hhs, ?_, ?_, ?_, hcells, hb.symm⟩
              · cases exact <;> simpa using hex
              · split at hroots
                · cases hroots; omega
                · split at hroots
                  · simp at hroots
                  · split at hroots
                    · simp at hroots
                    · simp only [Option.map_eq_some_iff] at hroots
                      obtain ⟨nm, _, hnm⟩ := hroots
                      cases hnm
                      exact Nat.min_le_right _ _
              · intro hno
                rw [hbc] at hno
                simp only at hno
                simp only [hno] at hroots
                simp at hroots
                exact ⟨hroots.1.symm, hroots.2.symm⟩

/-- **in both modes the cell of every vertex — and, in the exact mode, of every special point — is kept**, whatever the
    floating-point tests answer, when the start cells are the 12 base cells -/
theorem coverage_kept_allsky_modes (cfg : Cfg) (depth : Nat) (vertices : List (α × α)) (exact : Bool) (b : BMOC)
    (h : polygonCoverage cfg depth vertices exact = some b) :
    ∃ (poly : Polygon α) (hs ex : List Nat) (cells : List Cell), Polygon.new cfg.debug vertices = some poly ∧
      poly.vertices.mapM (fun c => Hash.hashV2 cfg depth c.lon c.lat) = some hs ∧
      (if exact then specialHashes cfg depth poly else some []) = some ex ∧
      b.entries = cells.map (encode depth) ∧
      (C2V.hasBestStartingDepth (α := α) (match boundingCone poly.vertices with | some x => x.2 | none => Num.zero) = false →
        ∀ v ∈ hs ++ ex, v < 12 * 4 ^ depth → ∃ c ∈ cells, c.depth ≤ depth ∧ v >>> ((depth - c.depth) <<< 1) = c.hash) := by
  obtain ⟨_, poly, hs, ex, ds, roots, cells, h1, h2, h3, _, h4, h5, h6⟩ := coverage_spec_modes cfg depth vertices exact b h
  refine ⟨poly, hs, ex, cells, h1, h2, h3, by rw [h6], ?_⟩
  intro hno v hv hlt
  obtain ⟨rfl, rfl⟩ := h4 hno
  exact vertex_cell_kept_allsky cfg depth poly (hs ++ ex) (depth + 2) cells h5 v hv hlt

/-- the table of limits that selects the starting depth is regular (each depth halves the limit, relative excess
    `≈ 0.05·2^-k`): the obligation of C16 about the constants of the source, required here because the start cells of this
    coverage are chosen with that table -/
theorem start_depth_table_regular :
    (∀ j, j < 24 →
      C16.dyHalvingLo (j + 2) 1 25 (Gen.smallerEdge2OpEdgeDistDyadic.getD (j + 2) (0, 0)) (Gen.smallerEdge2OpEdgeDistDyadic.getD (j + 3) (0, 0)) = true ∧
      C16.dyHalvingHi (j + 2) 1 10 (Gen.smallerEdge2OpEdgeDistDyadic.getD (j + 2) (0, 0)) (Gen.smallerEdge2OpEdgeDistDyadic.getD (j + 3) (0, 0)) = true) :=
  C16.table_halving.1

/-! ## `Polygon::contains` over the reals: what the predicate computes

Vocabulary of `Lemmas/PolyReal*.lean`: `Coo.Valid` (the stored unit vector is that of `(lon, lat)`, `lon ∈ [0, 2π)`,
`lat ∈ [−π/2, π/2]`), `Coo.NonPole`, `LonRange a b l` (the shorter way round from the smaller to the larger longitude,
closed at its western end, open at its eastern end), `CrossesSouth u w p` (the great-circle arc `u w` meets the meridian of
`p` strictly south of `p`), `edges vs` (the closed list of edges), `Polygon.Built` (cross products and south-pole flag
as `Polygon::new` stores them), `ConvexNoPole o vs` (orientation `o = ±1`, `≥ 3` valid non-pole vertices, strictly convex,
inside an open hemisphere, both poles strictly outside). -/

section PolygonContains
open Hpx Hpx.Sph Real Hpx.Proj Classical

/-- **`is_in_lon_range`, exactly** (every triple of reals, no hypothesis): symmetric in the two vertices. -/
theorem is_in_lon_range_spec (coo v1 v2 : Coo ℝ) :
    isInLonRange coo v1 v2 = true ↔ LonRange v1.lon v2.lon coo.lon :=
  Hpx.Sph.is_in_lon_range_spec coo v1 v2

/-- **the test made on one edge by `odd_num_intersect_going_south`, geometrically.**  For an edge `u → w` between two
    points that are not poles, and a point `p` whose meridian passes through neither end point: the longitude-range test
    and the sign test `p · N > 0` on the north-pointing normal `N = ±(u × w)` are both true iff the great-circle arc `u w`
    (the shorter one) crosses the meridian of `p` at a point strictly SOUTH of `p`.  The only edges excluded are those
    whose end points are on opposite meridians (`|Δlon| = π`: the arc passes over a pole); an edge along a meridian is
    included (both sides false).  The orientation rule: the sign of `p · (u × w)` is flipped exactly when the edge goes
    westwards (`(u × w).z < 0`, i.e. `sin Δlon < 0`). -/
theorem crossing_test_geometric {u w p : Coo ℝ} (hu : u.Valid) (hw : w.Valid) (hp : p.Valid) (hun : u.NonPole)
    (hwn : w.NonPole) (hopp : |w.lon - u.lon| ≠ π) (hlu : p.lon ≠ u.lon) (hlw : p.lon ≠ w.lon) :
    (isInLonRange p u w && Num.gt (dot p (npCross u w)) (Num.zero : ℝ)) = true ↔ CrossesSouth u w p :=
  Hpx.Sph.crossing_test_geometric hu hw hp hun hwn hopp hlu hlw

/-- **`Polygon::new` over the reals**: for positions in the canonical ranges (`Coo3D::from_sph_coo` does not renormalise)
    the vertices are the unit vectors of the positions, the normals are the north-pointing `±(v_{i-1} × v_i)`. -/
theorem polygon_new_real (dbg : Bool) (lls : List (ℝ × ℝ)) (hne : lls ≠ [])
    (h : ∀ ll ∈ lls, 0 ≤ ll.1 ∧ ll.1 < 2 * π ∧ -(π / 2) ≤ ll.2 ∧ ll.2 ≤ π / 2) :
    ∃ poly, Polygon.new dbg lls = some poly ∧ poly.vertices = lls.map cooOf ∧ poly.Built :=
  Hpx.Sph.polygon_new_real dbg lls hne h

/-- **`contains` is the crossing parity.**  For a polygon as built by `Polygon::new` whose vertices are not poles and
    none of whose edges joins two opposite meridians, and a point whose meridian passes through no vertex:
    `contains` is the `xor` of the stored south-pole flag with "the number of edges whose great-circle arc crosses the
    meridian of `p` strictly south of `p` is odd".  Every number of vertices (0 included: no edge). -/
theorem contains_parity (poly : Polygon ℝ) (hb : poly.Built) (hv : ∀ v ∈ poly.vertices, v.Valid ∧ v.NonPole)
    (hopp : ∀ e ∈ edges poly.vertices, |e.2.lon - e.1.lon| ≠ π) (p : Coo ℝ) (hp : p.Valid)
    (hgen : ∀ v ∈ poly.vertices, p.lon ≠ v.lon) :
    poly.contains p = xor poly.containsSouthPole
      (oddB ((edges poly.vertices).countP (fun e => decide (CrossesSouth e.1 e.2 p)))) :=
  Hpx.Sph.contains_parity poly hb hv hopp p hp hgen

/-- **`Polygon::contains` on convex polygons, final form.**  For a polygon as built by `Polygon::new` from a strictly
    convex list of at least 3 vertices (either winding), contained in an open hemisphere, with neither pole in the closed
    polygon, and EVERY point `p` of the sphere (poles, vertex meridians, great circles of the edges included) that is
    not on the boundary of the polygon (`hnb`: if `p` is in all the closed half-spaces then it is in all the open ones):
    `contains p = true` iff `p` is strictly inside all the half-spaces of the edges. -/
theorem contains_convex (poly : Polygon ℝ) (hb : poly.Built) (o : ℝ) (h : ConvexNoPole o poly.vertices)
    (p : Coo ℝ) (hp : p.Valid)
    (hnb : (∀ e ∈ edges poly.vertices, 0 ≤ o * dot p (cross e.1 e.2)) →
      ∀ e ∈ edges poly.vertices, 0 < o * dot p (cross e.1 e.2)) :
    poly.contains p = true ↔ ∀ e ∈ edges poly.vertices, 0 < o * dot p (cross e.1 e.2) :=
  Hpx.Sph.contains_convex_final poly hb o h p hp hnb

/-- the final form on the value returned by `Polygon::new` for positions in the canonical ranges -/
theorem contains_convex_new (dbg : Bool) (lls : List (ℝ × ℝ))
    (hr : ∀ ll ∈ lls, 0 ≤ ll.1 ∧ ll.1 < 2 * π ∧ -(π / 2) ≤ ll.2 ∧ ll.2 ≤ π / 2)
    (o : ℝ) (h : ConvexNoPole o (lls.map cooOf)) (p : Coo ℝ) (hp : p.Valid)
    (hnb : (∀ e ∈ edges (lls.map cooOf), 0 ≤ o * dot p (cross e.1 e.2)) →
      ∀ e ∈ edges (lls.map cooOf), 0 < o * dot p (cross e.1 e.2)) :
    ∃ poly, Polygon.new dbg lls = some poly ∧
      (poly.contains p = true ↔ ∀ e ∈ edges (lls.map cooOf), 0 < o * dot p (cross e.1 e.2)) :=
  Hpx.Sph.contains_convex_final_new dbg lls hr o h p hp hnb


/-- the hypotheses of `contains_convex` are satisfiable: a concrete triangle -/
example : ConvexNoPole 1 [triA, triB, triC] := tri_convex

end PolygonContains


/-! ## what is known of every reported cell (structural half of the tightness clause, every numeric instance) -/

section EmitRule
open Hpx Hpx.Hash Hpx.Proj Hpx.Cover Hpx.C2V Hpx.C2VReal Hpx.EnvelopeReal Hpx.EnvelopePolar Hpx.CellReal Hpx.TopoLift Hpx.CellExtent Hpx.Bmoc Hpx.Sph Hpx.EConeEq Hpx.Tightness Real

/-- **polygon descent, emit rule** (every numeric instance, every build): every cell of the output of the descent was
    kept for one of the three reasons of `PolyKept` -/
theorem poly_emit_rule (cfg : Cfg) (target : Nat) (poly : Polygon α) (sortedHashs : List Nat)
    (fuel depth hash level : Nat) (out : List Cell)
    (h : coverRec target (polyClassifier cfg target poly sortedHashs) fuel depth hash level = some out)
    (c : Cell) (hc : c ∈ out) : PolyKept cfg target poly sortedHashs c.depth c.hash :=
  Hpx.Tightness.poly_emit_rule cfg target poly sortedHashs fuel depth hash level out h c hc


end EmitRule


/-! ## the statement of C12 composed over ℝ, on the output of `polygon_coverage` itself (both modes)

`full_cells_vertices_and_centre_inside_convex`: for a convex polygon (no pole, open hemisphere), every cell flagged full has
its four vertices AND its centre geometrically inside (inside all the edge half-spaces), provided the vertices are not on a
boundary great circle.  The code tests the four vertices only; the centre follows (`centre_inside_of_vertices_inside`:
the centre of EVERY cell of the sphere is a positive combination of its vertices).  `full_flag_not_whole_cell` delimits
the flag: cell sides are not great-circle arcs, and a convex triangle exists (exact rational unit vectors) for which cell
1/23 is classified full, its vertices and centre are inside, and the point `sph_coo(1, 23, 2/3, 0)` of the cell is OUTSIDE -
the full flag of polygon coverage cannot mean "the whole cell" (the property claims vertices and centre only).
`vertex_cells_kept_real`: the cell of every vertex (and of every special point in the exact mode) is kept, the remaining
hypothesis - the start cells contain its ancestor - made explicit per vertex; discharged when the start is the 12 base
cells. -/

section Composed
open Hpx Hpx.Cover Hpx.Bmoc Hpx.Sph Real Hpx.Proj Hpx.CellReal Hpx.EnvelopeReal Hpx.TopoLift Hpx.EnvelopePolar Hpx.PolyCompose

/-- **T1 + T2: the property as stated, for convex polygons** (ℝ, both modes, every depth `≤ 29`).  Every cell of the BMOC
    returned by `polygon_coverage` that carries the full flag — wherever it is on the sphere — has `vertices` and `center`
    succeed, and if its four vertices are not on the boundary of the polygon then **its four vertices AND ITS CENTRE are
    strictly inside all the edge half-spaces**.  (The code tests the four vertices only; the centre follows.) -/
theorem full_cells_vertices_and_centre_inside_convex (cfg : Cfg) (depth : Nat) (lls : List (ℝ × ℝ)) (exact : Bool) (b : Bmoc.BMOC)
    (hr : ∀ ll ∈ lls, 0 ≤ ll.1 ∧ ll.1 < 2 * π ∧ -(π / 2) ≤ ll.2 ∧ ll.2 ≤ π / 2)
    (o : ℝ) (hcv : ConvexNoPole o (lls.map cooOf))
    (h : Sph.polygonCoverage cfg depth lls exact = some b) :
    ∃ cells : List Bmoc.Cell, b = { dmax := depth, entries := cells.map (Bmoc.encode depth) } ∧
      ∀ c ∈ cells, c.full = true →
        ∃ s e n w ctr : ℝ × ℝ, Hash.vertices (α := ℝ) cfg c.depth c.hash = some [s, e, n, w] ∧
          Hash.center (α := ℝ) cfg c.depth c.hash = some ctr ∧
          ((∀ v ∈ [s, e, n, w], OffBoundary o (lls.map cooOf) (cooOf v)) →
            (∀ v ∈ [s, e, n, w], InsideAll o (lls.map cooOf) (cooOf v)) ∧ InsideAll o (lls.map cooOf) (cooOf ctr)) :=
  Hpx.PolyCompose.full_cells_vertices_and_centre_inside_convex cfg depth lls exact b hr o hcv h

/-- **T2, the centre, EVERY cell** (every depth `≤ 29`, every cell number; equatorial band, both polar caps, both transition
    rings).  `vertices` and `center` succeed and, whatever the polygon (any vertex list `vs`, any winding `o` — no convexity
    is needed beyond the fact that a polygon "inside all the edge half-spaces" is an intersection of half-spaces): if the
    four vertices are strictly inside all the edge half-spaces, so is the centre.  The centre is always in the open cone
    spanned by three of the four vertices: S–N (one meridian) in the band, S–E–W in the north, N–E–W in the south. -/
theorem centre_inside_of_vertices_inside (cfg : Cfg) (d h : ℕ) (hd : d ≤ 29) (hh : h < 12 * 4 ^ d) :
    ∃ (s e n w c : ℝ × ℝ), Hash.vertices (α := ℝ) cfg d h = some [s, e, n, w] ∧ Hash.center (α := ℝ) cfg d h = some c ∧
      ∀ (o : ℝ) (vs : List (Coo ℝ)), (∀ v ∈ [s, e, n, w], InsideAll o vs (cooOf v)) → InsideAll o vs (cooOf c) :=
  Hpx.PolyCompose.centre_inside_of_vertices_inside cfg d h hd hh

/-- **T3 over the reals** (`vertex_cells_kept_real`), positions in the canonical ranges, both modes, every depth `≤ 29`: what
    `vertex_cells_kept_modes` says, plus: the vertex cells `hs` are cell numbers of the depth, and when the bounding cone is
    too large for a starting depth (start cells = the 12 base cells) **every vertex cell is kept, no hypothesis left**.
    In the other case the hypothesis that remains, per vertex cell `v`, is exactly `v >>> 2(depth − ds) ∈ roots`. -/
theorem vertex_cells_kept_real (cfg : Cfg) (depth : Nat) (lls : List (ℝ × ℝ)) (exact : Bool) (b : BMOC)
    (hne : lls ≠ []) (hr : ∀ ll ∈ lls, 0 ≤ ll.1 ∧ ll.1 < 2 * π ∧ -(π / 2) ≤ ll.2 ∧ ll.2 ≤ π / 2)
    (h : polygonCoverage cfg depth lls exact = some b) :
    ∃ (poly : Polygon ℝ) (hs ex : List Nat) (ds : Nat) (roots : List Nat) (cells : List Cell),
      Polygon.new cfg.debug lls = some poly ∧ poly.vertices = lls.map cooOf ∧
      (lls.map cooOf).mapM (fun c => Hash.hashV2 cfg depth c.lon c.lat) = some hs ∧ hs.length = lls.length ∧
      (∀ v ∈ hs, v < 12 * 4 ^ depth) ∧
      (if exact then specialHashes cfg depth poly else some []) = some ex ∧
      startCells cfg depth poly = some (ds, roots) ∧ ds ≤ depth ∧
      b = { dmax := depth, entries := cells.map (encode depth) } ∧
      (∀ v ∈ hs ++ ex, v >>> ((depth - ds) <<< 1) ∈ roots →
        ∃ c ∈ cells, c.depth ≤ depth ∧ v >>> ((depth - c.depth) <<< 1) = c.hash) ∧
      (C2V.hasBestStartingDepth (boundingRadius poly) = false →
        ∀ v ∈ hs, ∃ c ∈ cells, c.depth ≤ depth ∧ v >>> ((depth - c.depth) <<< 1) = c.hash) :=
  Hpx.PolyCompose.vertex_cells_kept_real cfg depth lls exact b hne hr h

/-- **T3, every numeric instance, both modes**: the cell of a polygon vertex (`hs`) — and in the exact mode the cell of a
    special point (`ex`) — lies under a cell of the returned BMOC **as soon as its ancestor at the starting depth is one of
    the start cells**.  That hypothesis (`v >>> 2(depth − ds) ∈ roots`: the neighbourhood of the bounding-cone centre cell
    at `best_starting_depth(radius)` contains the vertex) is the geometric fact this development does not prove; it is about
    `Cone::bounding_cone`, `best_starting_depth` and the size of the cells, not about the descent. -/
theorem vertex_cells_kept_modes (cfg : Cfg) (depth : Nat) (vertices : List (α × α)) (exact : Bool) (b : BMOC)
    (h : polygonCoverage cfg depth vertices exact = some b) :
    ∃ (poly : Polygon α) (hs ex : List Nat) (ds : Nat) (roots : List Nat) (cells : List Cell),
      Polygon.new cfg.debug vertices = some poly ∧
      poly.vertices.mapM (fun c => Hash.hashV2 cfg depth c.lon c.lat) = some hs ∧
      (if exact then specialHashes cfg depth poly else some []) = some ex ∧
      startCells cfg depth poly = some (ds, roots) ∧ ds ≤ depth ∧
      b = { dmax := depth, entries := cells.map (encode depth) } ∧
      ∀ v ∈ hs ++ ex, v >>> ((depth - ds) <<< 1) ∈ roots →
        ∃ c ∈ cells, c.depth ≤ depth ∧ v >>> ((depth - c.depth) <<< 1) = c.hash :=
  Hpx.PolyCompose.vertex_cells_kept_modes cfg depth vertices exact b h

/-- **T2, counter-example (ℝ, both profiles, every build).**  The triangle `bulgeLL` (counter-clockwise, strictly convex,
    inside an open hemisphere, no pole inside; unit vectors rational) and the cell 23 of depth 1 (south vertex on the equator
    at longitude `π/2`):
    * `Polygon::new` succeeds; the four vertices returned by `vertices(1, 23)` are strictly inside the three edge
      half-spaces, `Polygon::contains` answers `true` for the four of them, and **the classifier of `polygon_coverage`
      answers `full`** for the cell in every descent in which `is_in_list` is false for it (every target depth, every list);
    * the centre of the cell is strictly inside as well;
    * yet the position `sph_coo(1, 23, 2/3, 0)` — a point of the cell, on its south-east side — is strictly OUTSIDE the
      half-space of the edge `A → B`, and `Polygon::contains` answers `false` for it.
    So even for convex polygons the flag "fully covered" does not mean that the cell is inside the polygon: the sides of a
    cell are not great-circle arcs and bulge out of the geodesic quadrilateral of its vertices (here by 0.47°; the effect
    is of second order in the cell size).  On the `Float` instance (the model run that is compared with the crate)
    `polygon_coverage(depth 1, 2 or 3, this triangle, either mode)` returns the cell `1/23` with the full flag. -/
theorem full_flag_not_whole_cell (cfg : Cfg) :
    (∀ ll ∈ bulgeLL, 0 ≤ ll.1 ∧ ll.1 < 2 * π ∧ -(π / 2) ≤ ll.2 ∧ ll.2 ≤ π / 2) ∧ ConvexNoPole 1 (bulgeLL.map cooOf) ∧
    ∃ poly : Polygon ℝ, Polygon.new cfg.debug bulgeLL = some poly ∧
      (∀ (target : Nat) (srt : List Nat) (l : Nat), isInList 1 23 target srt = false →
        polyClassifier cfg target poly srt 1 23 l = some .full) ∧
      (∃ s e n w : ℝ × ℝ, Hash.vertices (α := ℝ) cfg 1 23 = some [s, e, n, w] ∧
        ∀ v ∈ [s, e, n, w], InsideAll 1 (bulgeLL.map cooOf) (cooOf v) ∧
          ∃ c, fromSphCoo cfg.debug v.1 v.2 = some c ∧ poly.contains c = true) ∧
      (∃ ctr : ℝ × ℝ, Hash.center (α := ℝ) cfg 1 23 = some ctr ∧ InsideAll 1 (bulgeLL.map cooOf) (cooOf ctr)) ∧
      ∃ (m : ℝ × ℝ) (c : Coo ℝ), Hash.sphCoo (α := ℝ) cfg 1 23 (2 / 3) 0 = some m ∧
        fromSphCoo cfg.debug m.1 m.2 = some c ∧ poly.contains c = false ∧ ¬ InsideAll 1 (bulgeLL.map cooOf) (cooOf m) :=
  Hpx.PolyCompose.full_flag_not_whole_cell cfg


end Composed

end Hpx.C12
