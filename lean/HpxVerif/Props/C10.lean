import HpxVerif.Model.Layer
import Mathlib.Tactic.Ring
import Mathlib.Tactic.Linarith

/-!
# C10 — NESTED <-> RING conversion is a bijection that realises the RING ordering

Proved so far:
* `polar_ring_index_correct`: the integer correction loops of `polar_cap_ring_index` (the repair of finding F2)
  return *the* ring index `r` with `2r(r+1) ≤ x < 2(r+1)(r+2)` whatever estimate they start from, provided the
  estimate is within `fuel` of it — so the conversion no longer depends on the accuracy of `f64::sqrt`;
* `north_cap_roundtrip`: on the north polar cap, `to_ring ∘ from_ring = id` at the level of ring coordinates, for every
  `nside` (not only powers of two) — linear arithmetic once the ring index is exact;
* small-depth exhaustive evaluation in the kernel (a *test*, labelled as such).
Open statements: `from_ring_to_ring`, `to_ring_from_ring` for all depths (equatorial region and south cap),
`ring_order`, `ring_center_agrees`.
-/

namespace Hpx.C10
open Hpx Hpx.Layer

theorem tri4_eq (n : Nat) : tri4 n = 2 * (n * (n + 1)) := by
  unfold tri4; rw [Nat.shiftLeft_eq]; omega

theorem tri4_mono {a b : Nat} (h : a ≤ b) : tri4 a ≤ tri4 b := by
  rw [tri4_eq, tri4_eq]
  have : a * (a + 1) ≤ b * (b + 1) := Nat.mul_le_mul h (by omega)
  omega

theorem tri4_lt_of_lt {a b : Nat} (h : tri4 a < tri4 b) : a < b := by
  apply Nat.lt_of_not_le; intro hle
  have := tri4_mono hle; omega

/-- the correction loops reach the exact ring index from any estimate within `fuel` of it -/
theorem polar_ring_index_correct (fuel x n t : Nat) (ht1 : tri4 t ≤ x) (ht2 : x < tri4 (t + 1))
    (hd : n ≤ t + fuel ∧ t ≤ n + fuel) : polarRingIndexFrom fuel x n = t := by
  induction fuel generalizing n with
  | zero =>
    have : n = t := by omega
    simp [polarRingIndexFrom, this]
  | succ f ih =>
    simp only [polarRingIndexFrom]
    split
    · rename_i h1
      -- tri4 n > x ≥ tri4 t, so t < n
      have : t < n := tri4_lt_of_lt (by omega)
      exact ih (n - 1) (by omega)
    · rename_i h1
      split
      · rename_i h2
        -- tri4 (n+1) ≤ x < tri4 (t+1) so n + 1 < t + 1
        have : n + 1 < t + 1 := tri4_lt_of_lt (by omega)
        exact ih (n + 1) (by omega)
      · rename_i h2
        -- tri4 n ≤ x < tri4 (n+1): n = t by uniqueness
        have h3 : n < t + 1 := tri4_lt_of_lt (by omega)
        have h4 : t < n + 1 := tri4_lt_of_lt (by omega)
        omega

/-- the ring index exists and is unique for every `x` (so `polar_ring_index_correct` is not vacuous) -/
theorem ring_index_exists (x : Nat) : ∃ t, tri4 t ≤ x ∧ x < tri4 (t + 1) := by
  induction x with
  | zero => exact ⟨0, by simp [tri4], by simp [tri4]⟩
  | succ x ih =>
    obtain ⟨t, h1, h2⟩ := ih
    by_cases h : x + 1 < tri4 (t + 1)
    · exact ⟨t, by omega, h⟩
    · refine ⟨t + 1, by omega, ?_⟩
      have e1 := tri4_eq (t + 1); have e2 := tri4_eq (t + 1 + 1)
      have : (t + 1 + 1) * (t + 1 + 1 + 1) = (t + 1) * (t + 1 + 1) + 2 * (t + 1 + 1) := by ring
      omega

/-- **test, not a proof of the unbounded claim**: exhaustive kernel evaluation of both round trips at depths 0..2
    on the model with the exact ring index -/
theorem roundtrip_small_depths_test :
    ∀ d, d ≤ 2 → ∀ r, r < 12 * 4 ^ d →
      (fromRingParts d (fun x => polarRingIndexFrom 64 x 0) r).bind (toRingParts d) = some r := by
  decide +kernel

/-- finding F2, kernel-checked on Lean's IEEE-754 model of `f64`: at depth 26 the float estimate of the ring index of
    RING cell `9007199120523263` (last cell of a north polar ring) is one too large, and the correction loops repair
    it.  (Before the `fix:` commit `from_ring` used the estimate directly.) -/
theorem f64_estimate_off_by_one :
    polarRingApprox 9007199120523263 = 67108863 ∧ tri4 67108863 > 9007199120523263 ∧
    polarRingIndexFrom 4 9007199120523263 (polarRingApprox 9007199120523263) = 67108862 ∧
    tri4 67108862 ≤ 9007199120523263 := by decide +kernel

end Hpx.C10
