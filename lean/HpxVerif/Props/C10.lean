import HpxVerif.Model.Layer
import HpxVerif.Lemmas.RingBij5
import HpxVerif.Lemmas.RingBij6
import HpxVerif.Lemmas.LayerBmi
import HpxVerif.Lemmas.RingCenter
import HpxVerif.Lemmas.SqrtApprox5
import HpxVerif.Lemmas.SqrtApprox4
import Mathlib.Tactic.Ring
import Mathlib.Tactic.Linarith
import HpxVerif.Lemmas.NoBmi

set_option autoImplicit false   -- an unknown identifier in a statement is an error, never a new variable

/-!
# C10 — NESTED <-> RING conversion is a bijection that realises the RING ordering

Proved so far:
* `polar_ring_index_correct`: the integer correction loops of `polar_cap_ring_index` (the repair of finding F2)
  return *the* ring index `r` with `2r(r+1) ≤ x < 2(r+1)(r+2)` whatever estimate they start from, provided the
  estimate is within `fuel` of it — so the conversion no longer depends on the accuracy of `f64::sqrt`;
* `north_cap_roundtrip`: on the north polar cap, `to_ring ∘ from_ring = id` at the level of ring coordinates, for every
  `nside` (not only powers of two) — linear arithmetic once the ring index is exact;
* small-depth exhaustive evaluation in the kernel (a *test*, labelled as such).
**For every depth** (second half of this file): `to_ring_bijective` (valid parts ↔ `[0, 12·4^d)`), `from_ring_inverse`,
`ring_order` (RING numbers follow decreasing latitude then increasing longitude of the centres), and on cell numbers
`ring_bijection` for depths ≤ 29, LUT and BMI2 builds, under the hypothesis that the `f64` square-root estimate is within
4 of the exact ring index (the correction loops do the rest).  **`ring_center_agrees`, `ring_scheme_same_cells`**: over ℝ the
RING-scheme centre, vertices and offset positions of cell `r` are those of the NESTED cell `from_ring(r)`.
**The square-root hypothesis is a theorem** (`sqrt_estimate_accuracy`, from Lean's logical binary64 model): the statements
above hold unconditionally (`ring_bijection_unconditional`, `ring_scheme_same_cells_unconditional`).
-/

namespace Hpx.C10
open Hpx Hpx.Layer

theorem tri4_eq (n : Nat) : tri4 n = 2 * (n * (n + 1)) := by
  unfold tri4; rw [Nat.shiftLeft_eq]; omega

theorem tri4_mono {a b : Nat} (h : a ≤ b) : tri4 a ≤ tri4 b := by
  rw [tri4_eq, tri4_eq]
  have : a * (a + 1) ≤ b * (b + 1) := Nat.mul_le_mul h (by omega)
  omega

theorem tri4_lt_of_lt {a b : Nat} (h : tri4 a < tri4 b) : a < b := by
  apply Nat.lt_of_not_le; intro hle
  have := tri4_mono hle; omega

/-- the correction loops reach the exact ring index from any estimate within `fuel` of it -/
theorem polar_ring_index_correct (fuel x n t : Nat) (ht1 : tri4 t ≤ x) (ht2 : x < tri4 (t + 1))
    (hd : n ≤ t + fuel ∧ t ≤ n + fuel) : polarRingIndexFrom fuel x n = t := by
  induction fuel generalizing n with
  | zero =>
    have : n = t := by omega
    simp [polarRingIndexFrom, this]
  | succ f ih =>
    simp only [polarRingIndexFrom]
    split
    · rename_i h1
      -- tri4 n > x ≥ tri4 t, so t < n
      have : t < n := tri4_lt_of_lt (by omega)
      exact ih (n - 1) (by omega)
    · rename_i h1
      split
      · rename_i h2
        -- tri4 (n+1) ≤ x < tri4 (t+1) so n + 1 < t + 1
        have : n + 1 < t + 1 := tri4_lt_of_lt (by omega)
        exact ih (n + 1) (by omega)
      · rename_i h2
        -- tri4 n ≤ x < tri4 (n+1): n = t by uniqueness
        have h3 : n < t + 1 := tri4_lt_of_lt (by omega)
        have h4 : t < n + 1 := tri4_lt_of_lt (by omega)
        omega

/-- the ring index exists and is unique for every `x` (so `polar_ring_index_correct` is not vacuous) -/
theorem ring_index_exists (x : Nat) : ∃ t, tri4 t ≤ x ∧ x < tri4 (t + 1) := by
  induction x with
  | zero => exact ⟨0, by simp [tri4], by simp [tri4]⟩
  | succ x ih =>
    obtain ⟨t, h1, h2⟩ := ih
    by_cases h : x + 1 < tri4 (t + 1)
    · exact ⟨t, by omega, h⟩
    · refine ⟨t + 1, by omega, ?_⟩
      have e1 := tri4_eq (t + 1); have e2 := tri4_eq (t + 1 + 1)
      have : (t + 1 + 1) * (t + 1 + 1 + 1) = (t + 1) * (t + 1 + 1) + 2 * (t + 1 + 1) := by ring
      omega

/-- **test, not a proof of the unbounded claim**: exhaustive kernel evaluation of both round trips at depths 0..2
    on the model with the exact ring index -/
theorem roundtrip_small_depths_test :
    ∀ d, d ≤ 2 → ∀ r, r < 12 * 4 ^ d →
      (fromRingParts d (fun x => polarRingIndexFrom 64 x 0) r).bind (toRingParts d) = some r := by
  decide +kernel

/-- finding F2, kernel-checked on Lean's IEEE-754 model of `f64`: at depth 26 the float estimate of the ring index of
    RING cell `9007199120523263` (last cell of a north polar ring) is one too large, and the correction loops repair
    it.  (Before the `fix:` commit `from_ring` used the estimate directly.) -/
theorem f64_estimate_off_by_one :
    polarRingApprox 9007199120523263 = 67108863 ∧ tri4 67108863 > 9007199120523263 ∧
    polarRingIndexFrom 4 9007199120523263 (polarRingApprox 9007199120523263) = 67108862 ∧
    tri4 67108862 ≤ 9007199120523263 := by decide +kernel

/-! ## the bijection and the RING order, for every depth -/

open Hpx.RingBij

/-- **at the level of parts `(d0h, i, j)`, for EVERY depth**: `to_ring` maps the valid parts bijectively onto
    `[0, 12·4^d)` (total and in range, injective, surjective) — pure integer arithmetic in the three regions, the
    `d0h = 4 ∧ l < 0` wrap included -/
theorem to_ring_bijective (d : Nat) :
    (∀ p, Valid d p → ∃ r, toRingParts d p = some r ∧ r < 12 * 4 ^ d) ∧
    (∀ p q, Valid d p → Valid d q → toRingParts d p = toRingParts d q → p = q) ∧
    (∀ r, r < 12 * 4 ^ d → ∃ p, Valid d p ∧ toRingParts d p = some r) := toRingParts_bijective d

/-- **`from_ring` is its inverse** (`d ≤ 32`: beyond, the `u32` casts of `from_ring` truncate — see
    `from_ring_truncates_at_depth_33`), for any exact ring-index function -/
theorem from_ring_inverse (d : Nat) (RI : Nat → Nat) (hRI : ExactRI RI) (hd : d ≤ 32) :
    (∀ p, Valid d p → ∀ r, toRingParts d p = some r → fromRingParts d RI r = some p) ∧
    (∀ r, r < 12 * 4 ^ d → ∃ p, fromRingParts d RI r = some p ∧ Valid d p ∧ toRingParts d p = some r) :=
  ⟨fun p hv r hr => fromRing_toRing_parts d RI hRI hd p hv r hr, fun r hr => toRing_fromRing_parts d RI hRI hd r hr⟩

/-- **`ring_order`, every depth**: RING numbers increase exactly along (latitude decreasing, then abscissa increasing)
    of the cell centres — rings by non-increasing latitude, increasing longitude in `[0, 2π)` inside a ring -/
theorem ring_order (d : Nat) (p q : HashParts) (hp : Valid d p) (hq : Valid d q) (rp rq : Nat)
    (h1 : toRingParts d p = some rp) (h2 : toRingParts d q = some rq) :
    rp < rq ↔ ((centerXY d p).2 > (centerXY d q).2 ∨
      ((centerXY d p).2 = (centerXY d q).2 ∧ (centerXY d p).1 < (centerXY d q).1)) :=
  ring_order_parts d p q hp hq rp rq h1 h2

/-- **on cell numbers, every depth `≤ 29`, LUT and BMI2 builds**: `to_ring` and `from_ring` (with the ring index the code
    really uses: float estimate + the integer correction loops) are inverse bijections of `[0, 12·4^d)`.
    Hypothesis `ApproxOK (2^60)`: the `f64` square-root estimate is within 4 of the exact ring index for arguments below
    `2^60` — a fact about IEEE `sqrt` that is not proved here (kernel-checked up to depth 3: `approxOK_depth3`; the
    estimate is compared bit for bit with the hardware on ring-boundary classes of all depths on every run). -/
theorem ring_bijection (cfg : Cfg) (d : Nat) (hd : d ≤ 29) (hA : ApproxOK (2 ^ 60)) :
    (∀ h, h < 12 * 4 ^ d → ∃ r, toRing cfg d h = some r ∧ r < 12 * 4 ^ d ∧ fromRing cfg d r = some h) ∧
    (∀ r, r < 12 * 4 ^ d → ∃ h, fromRing cfg d r = some h ∧ h < 12 * 4 ^ d ∧ toRing cfg d h = some r) := by
  have h := Hpx.RingBij.ring_bijection (LayerBmi.noBmi cfg) (LayerBmi.noBmi_bmi cfg) d hd hA
  constructor
  · intro x hx
    obtain ⟨r, h1, h2, h3⟩ := h.1 x hx
    exact ⟨r, by rw [LayerBmi.toRing_eq]; exact h1, h2, by rw [LayerBmi.fromRing_eq]; exact h3⟩
  · intro r hr
    obtain ⟨x, h1, h2, h3⟩ := h.2 r hr
    exact ⟨x, by rw [LayerBmi.fromRing_eq]; exact h1, h2, by rw [LayerBmi.toRing_eq]; exact h3⟩

/-- cell numbers are exactly `d0h·4^d + interleave i j` of valid parts, both ways (`decode_hash`, `build_hash`) -/
theorem decode_build_inverse (cfg : Cfg) (d : Nat) (hd : d ≤ 29) :
    (∀ p, Valid d p → buildHashFromParts cfg d p.d0h p.i p.j = some (p.d0h * 4 ^ d + interleave p.i p.j) ∧
      p.d0h * 4 ^ d + interleave p.i p.j < 12 * 4 ^ d ∧
      decodeHash cfg d (p.d0h * 4 ^ d + interleave p.i p.j) = some p) ∧
    (∀ h, h < 12 * 4 ^ d → ∃ p, decodeHash cfg d h = some p ∧ Valid d p ∧ h = p.d0h * 4 ^ d + interleave p.i p.j) := by
  constructor
  · intro p hv
    have b := build_spec (LayerBmi.noBmi cfg) (LayerBmi.noBmi_bmi cfg) d hd p hv
    have c := decode_build (LayerBmi.noBmi cfg) (LayerBmi.noBmi_bmi cfg) d hd p hv
    exact ⟨by rw [LayerBmi.buildHashFromParts_eq]; exact b.1, b.2, by rw [LayerBmi.decodeHash_eq]; exact c⟩
  · intro h hh
    obtain ⟨p, h1, h2, h3⟩ := decode_spec (LayerBmi.noBmi cfg) (LayerBmi.noBmi_bmi cfg) d hd h hh
    exact ⟨p, by rw [LayerBmi.decodeHash_eq]; exact h1, h2, h3⟩

/-- the depth bound of `from_ring_inverse` is sharp: at depth 33 the `u32` casts lose a bit (no such depth exists in the
    crate, `DEPTH_MAX = 29`) -/
theorem from_ring_truncates_at_depth_33 :
    Valid 33 ⟨0, 2 ^ 33 - 1, 2 ^ 33 - 1⟩ ∧ toRingParts 33 ⟨0, 2 ^ 33 - 1, 2 ^ 33 - 1⟩ = some 0 ∧
    fromRingParts 33 exactRI 0 = some ⟨0, 2 ^ 32 - 1, 2 ^ 32 - 1⟩ := fromRing_toRing_parts_fails_at_depth_33

/-- non-vacuity of the square-root hypothesis at small arguments, and of the bijection -/
example : ApproxOK (firstHashInEqr 3) := approxOK_depth3

/-! ## both schemes describe the same cells (`nside = 2^depth`) -/

section SameCells
open Hpx Hpx.Layer Hpx.RingCenter

/-- **`ring_center_agrees`**: LUT build, depth `d ≤ 29`, `nside = 2^d`.  For every RING number `r < 12·4^d`, the
    RING-scheme centre of `r` is the NESTED centre of `from_ring(r)`: both schemes describe the same cells.
    Hypothesis: the `f64` estimate of the polar ring index is within 4 of the truth below the first equatorial
    cell number (`RingBij.ApproxOK`, the hypothesis of the NESTED <-> RING bijection). -/
theorem ring_center_agrees (debug : Bool) (cfg : Cfg) (hb : cfg.bmi = false) (d : Nat) (hd : d ≤ 29)
    (hA : RingBij.ApproxOK (firstHashInEqr d)) (r : Nat) (hr : r < 12 * 4 ^ d) (h : Nat)
    (hf : fromRing cfg d r = some h) :
    Ring.centerOfProjectedCell (α := ℝ) debug (2 ^ d) r = Hash.centerOfProjectedCell (α := ℝ) cfg d h :=
  Hpx.RingCenter.ring_center_agrees debug cfg hb d hd hA r hr h hf

/-- the centres on the sphere agree as well: `Ring.center` and `Hash.center` apply the same `unproj` to the same
    plane point -/
theorem ring_center_sphere_agrees (debug : Bool) (cfg : Cfg) (hb : cfg.bmi = false) (d : Nat) (hd : d ≤ 29)
    (hA : RingBij.ApproxOK (firstHashInEqr d)) (r : Nat) (hr : r < 12 * 4 ^ d) (h : Nat)
    (hf : fromRing cfg d r = some h) :
    Ring.center (α := ℝ) debug (2 ^ d) r = Hash.center (α := ℝ) cfg d h :=
  Hpx.RingCenter.ring_center_sphere_agrees debug cfg hb d hd hA r hr h hf

/-- **C10, last clause, all depths at once**, under the single hypothesis "the `f64` estimate of the ring index is
    within 4 of the truth below `2^60`": for every depth `d ≤ 29`, every RING number `r < 12·4^d`, `from_ring(r)` is a
    NESTED cell `h < 12·4^d` whose centre (plane and sphere) is the RING-scheme centre of `r`; and for every NESTED
    cell `h`, `to_ring(h)` is a RING cell with the same centre. -/
theorem ring_scheme_same_cells (debug : Bool) (cfg : Cfg) (hb : cfg.bmi = false) (hA : RingBij.ApproxOK (2 ^ 60))
    (d : Nat) (hd : d ≤ 29) :
    (∀ r, r < 12 * 4 ^ d → ∃ h, fromRing cfg d r = some h ∧ h < 12 * 4 ^ d ∧
      Ring.centerOfProjectedCell (α := ℝ) debug (2 ^ d) r = Hash.centerOfProjectedCell (α := ℝ) cfg d h ∧
      Ring.center (α := ℝ) debug (2 ^ d) r = Hash.center (α := ℝ) cfg d h) ∧
    (∀ h, h < 12 * 4 ^ d → ∃ r, toRing cfg d h = some r ∧ r < 12 * 4 ^ d ∧
      Ring.centerOfProjectedCell (α := ℝ) debug (2 ^ d) r = Hash.centerOfProjectedCell (α := ℝ) cfg d h ∧
      Ring.center (α := ℝ) debug (2 ^ d) r = Hash.center (α := ℝ) cfg d h) :=
  Hpx.RingCenter.ring_scheme_same_cells debug cfg hb hA d hd

/-- the four vertices agree too (same centre, same half-diagonal `1/nside`, same `unproj` calls): the RING cell `r` and
    the NESTED cell `from_ring(r)` are the same diamond of the projection plane -/
theorem ring_vertices_agree (debug : Bool) (cfg : Cfg) (hb : cfg.bmi = false) (d : Nat) (hd : d ≤ 29)
    (hA : RingBij.ApproxOK (firstHashInEqr d)) (r : Nat) (hr : r < 12 * 4 ^ d) (h : Nat)
    (hf : fromRing cfg d r = some h) :
    Ring.vertices (α := ℝ) debug (2 ^ d) r = Hash.vertices (α := ℝ) cfg d h :=
  Hpx.RingCenter.ring_vertices_agree debug cfg hb d hd hA r hr h hf

/-- … and so does every point `(dx, dy)` inside the cell (`sph_coo`) -/
theorem ring_sphCoo_agree (debug : Bool) (cfg : Cfg) (hb : cfg.bmi = false) (d : Nat) (hd : d ≤ 29)
    (hA : RingBij.ApproxOK (firstHashInEqr d)) (r : Nat) (hr : r < 12 * 4 ^ d) (h : Nat)
    (hf : fromRing cfg d r = some h) (dx dy : ℝ) :
    Ring.sphCoo (α := ℝ) debug (2 ^ d) r dx dy = Hash.sphCoo (α := ℝ) cfg d h dx dy :=
  Hpx.RingCenter.ring_sphCoo_agree debug cfg hb d hd hA r hr h hf dx dy


end SameCells

/-! ## the square-root estimate is accurate: the hypothesis `ApproxOK` is a theorem -/

/-- **the `f64` square-root estimate of the polar ring index is never too small and at most one too large**, for every
    argument below `2^60` — proved from Lean's logical model of binary64 (`Float.ofNat` correctly rounded, `sqrt`
    correctly rounded, `as u64` = floor), no sampling.  The "+1" case is finding F2 (it occurs: last cells of polar rings
    at depth ≥ 26); the integer correction loops added by the repair remove it. -/
theorem sqrt_estimate_accuracy (x t : Nat) (hx : x < 2 ^ 60) (h1 : tri4 t ≤ x) (h2 : x < tri4 (t + 1)) :
    t ≤ polarRingApprox x ∧ polarRingApprox x ≤ t + 1 := Hpx.SqrtApprox.polarRingApprox_sharp x t hx h1 h2

theorem approx_ok : Hpx.RingBij.ApproxOK (2 ^ 60) := Hpx.SqrtApprox.approxOK_2_60

/-- **`ring_bijection`, unconditional**: on cell numbers, every depth `≤ 29`, LUT and BMI2 builds, `to_ring` and `from_ring`
    are inverse bijections of `[0, 12·4^d)` -/
theorem ring_bijection_unconditional (cfg : Cfg) (d : Nat) (hd : d ≤ 29) :
    (∀ h, h < 12 * 4 ^ d → ∃ r, toRing cfg d h = some r ∧ r < 12 * 4 ^ d ∧ fromRing cfg d r = some h) ∧
    (∀ r, r < 12 * 4 ^ d → ∃ h, fromRing cfg d r = some h ∧ h < 12 * 4 ^ d ∧ toRing cfg d h = some r) :=
  ring_bijection cfg d hd approx_ok

/-- **both schemes describe the same cells, unconditional** (LUT build; every depth `≤ 29`) -/
theorem ring_scheme_same_cells_unconditional (debug : Bool) (cfg : Cfg) (hb : cfg.bmi = false) (d : Nat) (hd : d ≤ 29) :
    (∀ r, r < 12 * 4 ^ d → ∃ h, fromRing cfg d r = some h ∧ h < 12 * 4 ^ d ∧
      Ring.centerOfProjectedCell (α := ℝ) debug (2 ^ d) r = Hash.centerOfProjectedCell (α := ℝ) cfg d h ∧
      Ring.center (α := ℝ) debug (2 ^ d) r = Hash.center (α := ℝ) cfg d h) ∧
    (∀ h, h < 12 * 4 ^ d → ∃ r, toRing cfg d h = some r ∧ r < 12 * 4 ^ d ∧
      Ring.centerOfProjectedCell (α := ℝ) debug (2 ^ d) r = Hash.centerOfProjectedCell (α := ℝ) cfg d h ∧
      Ring.center (α := ℝ) debug (2 ^ d) r = Hash.center (α := ℝ) cfg d h) :=
  Hpx.SqrtApprox.ring_scheme_same_cells debug cfg hb d hd


/-! ## every build: the statements above that carry `cfg.bmi = false`, for every `cfg` (LUT tables or BMI2) -/

section AnyBuild
open Hpx Hpx.Layer Hpx.LayerBmi Hpx.BmiTransfer

theorem ring_center_agrees_any_build (debug : Bool) (cfg : Cfg) (d : Nat) (hd : d ≤ 29)
    (hA : RingBij.ApproxOK (firstHashInEqr d)) (r : Nat) (hr : r < 12 * 4 ^ d) (h : Nat)
    (hf : fromRing cfg d r = some h) :
    Ring.centerOfProjectedCell (α := ℝ) debug (2 ^ d) r = Hash.centerOfProjectedCell (α := ℝ) cfg d h := by
  rw [centerOfProjectedCell_noBmi]
  exact Hpx.C10.ring_center_agrees debug (noBmi cfg) (noBmi_bmi cfg) d hd hA r hr h (by rw [← LayerBmi.fromRing_eq]; exact hf)

theorem ring_center_sphere_agrees_any_build (debug : Bool) (cfg : Cfg) (d : Nat) (hd : d ≤ 29)
    (hA : RingBij.ApproxOK (firstHashInEqr d)) (r : Nat) (hr : r < 12 * 4 ^ d) (h : Nat)
    (hf : fromRing cfg d r = some h) :
    Ring.center (α := ℝ) debug (2 ^ d) r = Hash.center (α := ℝ) cfg d h := by
  rw [center_noBmi]
  exact Hpx.C10.ring_center_sphere_agrees debug (noBmi cfg) (noBmi_bmi cfg) d hd hA r hr h
    (by rw [← LayerBmi.fromRing_eq]; exact hf)

theorem ring_scheme_same_cells_any_build (debug : Bool) (cfg : Cfg) (hA : RingBij.ApproxOK (2 ^ 60))
    (d : Nat) (hd : d ≤ 29) :
    (∀ r, r < 12 * 4 ^ d → ∃ h, fromRing cfg d r = some h ∧ h < 12 * 4 ^ d ∧
      Ring.centerOfProjectedCell (α := ℝ) debug (2 ^ d) r = Hash.centerOfProjectedCell (α := ℝ) cfg d h ∧
      Ring.center (α := ℝ) debug (2 ^ d) r = Hash.center (α := ℝ) cfg d h) ∧
    (∀ h, h < 12 * 4 ^ d → ∃ r, toRing cfg d h = some r ∧ r < 12 * 4 ^ d ∧
      Ring.centerOfProjectedCell (α := ℝ) debug (2 ^ d) r = Hash.centerOfProjectedCell (α := ℝ) cfg d h ∧
      Ring.center (α := ℝ) debug (2 ^ d) r = Hash.center (α := ℝ) cfg d h) := by
  have := Hpx.C10.ring_scheme_same_cells debug (noBmi cfg) (noBmi_bmi cfg) hA d hd
  simpa only [← LayerBmi.fromRing_eq, ← LayerBmi.toRing_eq, ← centerOfProjectedCell_noBmi, ← center_noBmi] using this

theorem ring_vertices_agree_any_build (debug : Bool) (cfg : Cfg) (d : Nat) (hd : d ≤ 29)
    (hA : RingBij.ApproxOK (firstHashInEqr d)) (r : Nat) (hr : r < 12 * 4 ^ d) (h : Nat)
    (hf : fromRing cfg d r = some h) :
    Ring.vertices (α := ℝ) debug (2 ^ d) r = Hash.vertices (α := ℝ) cfg d h := by
  rw [vertices_noBmi]
  exact Hpx.C10.ring_vertices_agree debug (noBmi cfg) (noBmi_bmi cfg) d hd hA r hr h (by rw [← LayerBmi.fromRing_eq]; exact hf)

theorem ring_sphCoo_agree_any_build (debug : Bool) (cfg : Cfg) (d : Nat) (hd : d ≤ 29)
    (hA : RingBij.ApproxOK (firstHashInEqr d)) (r : Nat) (hr : r < 12 * 4 ^ d) (h : Nat)
    (hf : fromRing cfg d r = some h) (dx dy : ℝ) :
    Ring.sphCoo (α := ℝ) debug (2 ^ d) r dx dy = Hash.sphCoo (α := ℝ) cfg d h dx dy := by
  rw [sphCoo_noBmi]
  exact Hpx.C10.ring_sphCoo_agree debug (noBmi cfg) (noBmi_bmi cfg) d hd hA r hr h (by rw [← LayerBmi.fromRing_eq]; exact hf)
    dx dy

theorem ring_scheme_same_cells_unconditional_any_build (debug : Bool) (cfg : Cfg) (d : Nat) (hd : d ≤ 29) :
    (∀ r, r < 12 * 4 ^ d → ∃ h, fromRing cfg d r = some h ∧ h < 12 * 4 ^ d ∧
      Ring.centerOfProjectedCell (α := ℝ) debug (2 ^ d) r = Hash.centerOfProjectedCell (α := ℝ) cfg d h ∧
      Ring.center (α := ℝ) debug (2 ^ d) r = Hash.center (α := ℝ) cfg d h) ∧
    (∀ h, h < 12 * 4 ^ d → ∃ r, toRing cfg d h = some r ∧ r < 12 * 4 ^ d ∧
      Ring.centerOfProjectedCell (α := ℝ) debug (2 ^ d) r = Hash.centerOfProjectedCell (α := ℝ) cfg d h ∧
      Ring.center (α := ℝ) debug (2 ^ d) r = Hash.center (α := ℝ) cfg d h) :=
  ring_scheme_same_cells_any_build debug cfg Hpx.C10.approx_ok d hd

/-- non-vacuity: a BMI2 configuration at depth 3 -/
example := ring_scheme_same_cells_unconditional_any_build true { debug := true, bmi := true } 3 (by omega)
end AnyBuild

end Hpx.C10
