import HpxVerif.Lemmas.BmocEnc

/-!
# C15 — BMOC builders preserve exactly what was pushed

Proved so far: `pack` terminates with a fixed point of the compaction pass (a further pass merges nothing), each
pass never lengthens the list, `to_lower_depth` rejects `new_depth ≥ depth_max`.
Open statements (executable model tied to the code by the correspondence check: all push-sequence families ×
capacities × depths, exhaustive universes for `pack`/`to_lower_depth`): `pack_sem`, `pack_wf`,
`fixed_builder_sem`, `to_lower_depth_sem`.
-/

namespace Hpx.C15
open Hpx.Bmoc

theorem packPass_length_le (dm : Nat) (l : List Nat) : (packPass dm l).length ≤ l.length := by
  fun_induction packPass dm l with
  | case1 => simp
  | case2 c rest d h hc ih => simp only [List.length_cons]; omega
  | case3 c rest d h hc hs ih =>
    simp only [List.length_cons, List.length_drop] at ih ⊢; omega
  | case4 c rest d h hc hs ih => simp only [List.length_cons]; omega

/-- a pass that does not shorten the list changes nothing -/
theorem packPass_eq_of_length (dm : Nat) (l : List Nat) (h : (packPass dm l).length = l.length) : packPass dm l = l := by
  fun_induction packPass dm l with
  | case1 => rfl
  | case2 c rest d hh hc ih =>
    simp only [List.length_cons] at h
    rw [ih (by omega)]
  | case3 c rest d hh hc hs ih =>
    have := packPass_length_le dm (List.drop 3 rest)
    simp only [List.length_cons, List.length_drop] at h this
    have hr : 3 ≤ rest.length := by
      match rest, hs with
      | _ :: _ :: _ :: _, _ => simp
    omega
  | case4 c rest d hh hc hs ih =>
    simp only [List.length_cons] at h
    rw [ih (by omega)]

/-- the loop of `pack` stops: with `fuel > length`, the result is a fixed point (in length) of the pass -/
theorem packFuel_fixpoint (dm : Nat) (fuel : Nat) (l : List Nat) (hf : l.length < fuel) :
    (packPass dm (packFuel dm fuel l)).length = (packFuel dm fuel l).length := by
  induction fuel generalizing l with
  | zero => omega
  | succ f ih =>
    simp only [packFuel]
    split
    · rename_i heq
      have : packPass dm l = l := packPass_eq_of_length dm l (by simpa using heq)
      rw [this, this]
    · rename_i hne
      have hle := packPass_length_le dm l
      have : (packPass dm l).length < l.length := by
        simp only [beq_iff_eq] at hne; omega
      exact ih _ (by omega)

/-- `pack` (fuel = length + 1) returns a list on which a further pass merges nothing -/
theorem pack_fixpoint (dm : Nat) (l : List Nat) : packPass dm (pack dm l) = pack dm l :=
  packPass_eq_of_length dm _ (packFuel_fixpoint dm (l.length + 1) l (by omega))

theorem pack_length_le (dm : Nat) (l : List Nat) : (pack dm l).length ≤ l.length := by
  unfold pack
  generalize l.length + 1 = f
  induction f generalizing l with
  | zero => simp [packFuel]
  | succ f ih =>
    simp only [packFuel]
    have := packPass_length_le dm l
    split
    · exact this
    · exact Nat.le_trans (ih _) this

theorem to_lower_depth_guard (dm nd : Nat) (l : List Nat) (h : nd ≥ dm) : toLowerDepth dm nd l = none := by
  simp [toLowerDepth, h]

end Hpx.C15
