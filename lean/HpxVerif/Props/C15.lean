import HpxVerif.Lemmas.BmocEnc
import HpxVerif.Lemmas.BmocPack

/-!
# C15 — BMOC builders preserve exactly what was pushed

Proved: `pack` terminates with a fixed point of the compaction pass (a further pass merges nothing), each pass never
lengthens the list; **`pack_sem`: for every list of valid raw entries (depth ≤ 29) the three-valued state of every cell is
unchanged by `pack`**; `pack_wf`: well-formedness is preserved; `pack_no_four_full`: nowhere in the output do four full
siblings remain; `to_lower_depth` rejects `new_depth ≥ depth_max`.
Open statements (executable model tied to the code by the correspondence check: all push-sequence families ×
capacities × depths, exhaustive universes for `pack`/`to_lower_depth`): `fixed_builder_sem`, `to_lower_depth_sem`.
-/

namespace Hpx.C15
open Hpx.Bmoc

theorem packPass_length_le (dm : Nat) (l : List Nat) : (packPass dm l).length ≤ l.length := by
  fun_induction packPass dm l with
  | case1 => simp
  | case2 c rest d h hc ih => simp only [List.length_cons]; omega
  | case3 c rest d h hc hs ih =>
    simp only [List.length_cons, List.length_drop] at ih ⊢; omega
  | case4 c rest d h hc hs ih => simp only [List.length_cons]; omega

/-- a pass that does not shorten the list changes nothing -/
theorem packPass_eq_of_length (dm : Nat) (l : List Nat) (h : (packPass dm l).length = l.length) : packPass dm l = l := by
  fun_induction packPass dm l with
  | case1 => rfl
  | case2 c rest d hh hc ih =>
    simp only [List.length_cons] at h
    rw [ih (by omega)]
  | case3 c rest d hh hc hs ih =>
    have := packPass_length_le dm (List.drop 3 rest)
    simp only [List.length_cons, List.length_drop] at h this
    have hr : 3 ≤ rest.length := by
      match rest, hs with
      | _ :: _ :: _ :: _, _ => simp
    omega
  | case4 c rest d hh hc hs ih =>
    simp only [List.length_cons] at h
    rw [ih (by omega)]

/-- the loop of `pack` stops: with `fuel > length`, the result is a fixed point (in length) of the pass -/
theorem packFuel_fixpoint (dm : Nat) (fuel : Nat) (l : List Nat) (hf : l.length < fuel) :
    (packPass dm (packFuel dm fuel l)).length = (packFuel dm fuel l).length := by
  induction fuel generalizing l with
  | zero => omega
  | succ f ih =>
    simp only [packFuel]
    split
    · rename_i heq
      have : packPass dm l = l := packPass_eq_of_length dm l (by simpa using heq)
      rw [this, this]
    · rename_i hne
      have hle := packPass_length_le dm l
      have : (packPass dm l).length < l.length := by
        simp only [beq_iff_eq] at hne; omega
      exact ih _ (by omega)

/-- `pack` (fuel = length + 1) returns a list on which a further pass merges nothing -/
theorem pack_fixpoint (dm : Nat) (l : List Nat) : packPass dm (pack dm l) = pack dm l :=
  packPass_eq_of_length dm _ (packFuel_fixpoint dm (l.length + 1) l (by omega))

theorem pack_length_le (dm : Nat) (l : List Nat) : (pack dm l).length ≤ l.length := by
  unfold pack
  generalize l.length + 1 = f
  induction f generalizing l with
  | zero => simp [packFuel]
  | succ f ih =>
    simp only [packFuel]
    have := packPass_length_le dm l
    split
    · exact this
    · exact Nat.le_trans (ih _) this

theorem to_lower_depth_guard (dm nd : Nat) (l : List Nat) (h : nd ≥ dm) : toLowerDepth dm nd l = none := by
  simp [toLowerDepth, h]

/-- **`pack` preserves exactly what was there** (three-valued state of every depth-`dm` cell `x`), for every list of
    valid raw entries of a BMOC of depth `dm ≤ 29`; the entries stay valid -/
theorem pack_sem (dm : Nat) (hdm : dm ≤ 29) (l : List Nat) (hv : ∀ r ∈ l, ValidRaw dm r) (x : Nat) :
    stOf dm (cellsOf dm (pack dm l)) x = stOf dm (cellsOf dm l) x :=
  (Hpx.Bmoc.pack_sem dm hdm l hv).1 x

theorem pack_valid (dm : Nat) (hdm : dm ≤ 29) (l : List Nat) (hv : ∀ r ∈ l, ValidRaw dm r) :
    ∀ r ∈ pack dm l, ValidRaw dm r :=
  (Hpx.Bmoc.pack_sem dm hdm l hv).2.1

/-- **`pack` preserves well-formedness** (sorted, disjoint, depths `≤ dm`) -/
theorem pack_wf (dm : Nat) (hdm : dm ≤ 29) (l : List Nat) (hv : ∀ r ∈ l, ValidRaw dm r) (hw : WF dm (cellsOf dm l)) :
    WF dm (cellsOf dm (pack dm l)) :=
  (Hpx.Bmoc.pack_sem dm hdm l hv).2.2 hw

/-- **no four full siblings are left** anywhere in the output of `pack` -/
theorem pack_no_four_full (dm : Nat) (hdm : dm ≤ 29) (l : List Nat) (hv : ∀ r ∈ l, ValidRaw dm r)
    (pre rest : List Cell) (d h : Nat) (hd : 0 < d) (h4 : h % 4 = 0) :
    cellsOf dm (pack dm l) ≠ pre ++ ⟨d, h, true⟩ :: ⟨d, h + 1, true⟩ :: ⟨d, h + 2, true⟩ :: ⟨d, h + 3, true⟩ :: rest :=
  fix_no_four_full dm hdm _ (pack_valid dm hdm l hv) (pack_fixpoint dm l) pre rest d h hd h4

/-- the hypotheses are satisfiable by a non-trivial list (four full siblings at depth 1 of a depth-2 BMOC, then a cell) -/
example : ∀ r ∈ [buildRaw 1 4 true 2, buildRaw 1 5 true 2, buildRaw 1 6 true 2, buildRaw 1 7 true 2, buildRaw 2 40 false 2],
    ValidRaw 2 r := by
  intro r hr
  simp only [List.mem_cons, List.not_mem_nil, or_false] at hr
  rcases hr with rfl | rfl | rfl | rfl | rfl <;> exact validRaw_buildRaw _ (by decide) (by decide)

end Hpx.C15
