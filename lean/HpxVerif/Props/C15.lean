import HpxVerif.Lemmas.BmocEnc
import HpxVerif.Lemmas.BmocPack
import HpxVerif.Lemmas.BmocLower
import HpxVerif.Lemmas.BmocBuilder
import HpxVerif.Lemmas.BmocOr2

set_option autoImplicit false   -- an unknown identifier in a statement is an error, never a new variable

/-!
# C15 — BMOC builders preserve exactly what was pushed

Proved: `pack` terminates with a fixed point of the compaction pass (a further pass merges nothing), each pass never
lengthens the list; **`pack_sem`: for every list of valid raw entries (depth ≤ 29) the three-valued state of every cell is
unchanged by `pack`**; `pack_wf`: well-formedness is preserved; `pack_no_four_full`: nowhere in the output do four full
siblings remain; `to_lower_depth` rejects `new_depth ≥ depth_max`.
**`to_lower_depth_sem`** (kept iff it contained something; full iff inside one full cell of depth ≤ new depth; output
well formed); **`buff_to_bmoc_sem`** (the run-length grouping covers exactly the sorted buffer, both `next_power_of_two`
arms); **`fixed_builder_sem_of_or_spec`** (every push sequence, duplicates, order, drain schedule: exactly what was
pushed, `None` iff nothing) relative to the specification of `BMOC::or` on equal-depth operands, which holds
(`or_spec_holds`), hence **`fixed_builder_sem`** unconditionally.
-/

namespace Hpx.C15
open Hpx.Bmoc

theorem packPass_length_le (dm : Nat) (l : List Nat) : (packPass dm l).length ≤ l.length := by
  fun_induction packPass dm l with
  | case1 => simp
  | case2 c rest d h hc ih => simp only [List.length_cons]; omega
  | case3 c rest d h hc hs ih =>
    simp only [List.length_cons, List.length_drop] at ih ⊢; omega
  | case4 c rest d h hc hs ih => simp only [List.length_cons]; omega

/-- a pass that does not shorten the list changes nothing -/
theorem packPass_eq_of_length (dm : Nat) (l : List Nat) (h : (packPass dm l).length = l.length) : packPass dm l = l := by
  fun_induction packPass dm l with
  | case1 => rfl
  | case2 c rest d hh hc ih =>
    simp only [List.length_cons] at h
    rw [ih (by omega)]
  | case3 c rest d hh hc hs ih =>
    have := packPass_length_le dm (List.drop 3 rest)
    simp only [List.length_cons, List.length_drop] at h this
    have hr : 3 ≤ rest.length := by
      match rest, hs with
      | _ :: _ :: _ :: _, _ => simp
    omega
  | case4 c rest d hh hc hs ih =>
    simp only [List.length_cons] at h
    rw [ih (by omega)]

/-- the loop of `pack` stops: with `fuel > length`, the result is a fixed point (in length) of the pass -/
theorem packFuel_fixpoint (dm : Nat) (fuel : Nat) (l : List Nat) (hf : l.length < fuel) :
    (packPass dm (packFuel dm fuel l)).length = (packFuel dm fuel l).length := by
  induction fuel generalizing l with
  | zero => omega
  | succ f ih =>
    simp only [packFuel]
    split
    · rename_i heq
      have : packPass dm l = l := packPass_eq_of_length dm l (by simpa using heq)
      rw [this, this]
    · rename_i hne
      have hle := packPass_length_le dm l
      have : (packPass dm l).length < l.length := by
        simp only [beq_iff_eq] at hne; omega
      exact ih _ (by omega)

/-- `pack` (fuel = length + 1) returns a list on which a further pass merges nothing -/
theorem pack_fixpoint (dm : Nat) (l : List Nat) : packPass dm (pack dm l) = pack dm l :=
  packPass_eq_of_length dm _ (packFuel_fixpoint dm (l.length + 1) l (by omega))

theorem pack_length_le (dm : Nat) (l : List Nat) : (pack dm l).length ≤ l.length := by
  unfold pack
  generalize l.length + 1 = f
  induction f generalizing l with
  | zero => simp [packFuel]
  | succ f ih =>
    simp only [packFuel]
    have := packPass_length_le dm l
    split
    · exact this
    · exact Nat.le_trans (ih _) this

theorem to_lower_depth_guard (dm nd : Nat) (l : List Nat) (h : nd ≥ dm) : toLowerDepth dm nd l = none := by
  simp [toLowerDepth, h]

/-- **`pack` preserves exactly what was there** (three-valued state of every depth-`dm` cell `x`), for every list of
    valid raw entries of a BMOC of depth `dm ≤ 29`; the entries stay valid -/
theorem pack_sem (dm : Nat) (hdm : dm ≤ 29) (l : List Nat) (hv : ∀ r ∈ l, ValidRaw dm r) (x : Nat) :
    stOf dm (cellsOf dm (pack dm l)) x = stOf dm (cellsOf dm l) x :=
  (Hpx.Bmoc.pack_sem dm hdm l hv).1 x

theorem pack_valid (dm : Nat) (hdm : dm ≤ 29) (l : List Nat) (hv : ∀ r ∈ l, ValidRaw dm r) :
    ∀ r ∈ pack dm l, ValidRaw dm r :=
  (Hpx.Bmoc.pack_sem dm hdm l hv).2.1

/-- **`pack` preserves well-formedness** (sorted, disjoint, depths `≤ dm`) -/
theorem pack_wf (dm : Nat) (hdm : dm ≤ 29) (l : List Nat) (hv : ∀ r ∈ l, ValidRaw dm r) (hw : WF dm (cellsOf dm l)) :
    WF dm (cellsOf dm (pack dm l)) :=
  (Hpx.Bmoc.pack_sem dm hdm l hv).2.2 hw

/-- **no four full siblings are left** anywhere in the output of `pack` -/
theorem pack_no_four_full (dm : Nat) (hdm : dm ≤ 29) (l : List Nat) (hv : ∀ r ∈ l, ValidRaw dm r)
    (pre rest : List Cell) (d h : Nat) (hd : 0 < d) (h4 : h % 4 = 0) :
    cellsOf dm (pack dm l) ≠ pre ++ ⟨d, h, true⟩ :: ⟨d, h + 1, true⟩ :: ⟨d, h + 2, true⟩ :: ⟨d, h + 3, true⟩ :: rest :=
  fix_no_four_full dm hdm _ (pack_valid dm hdm l hv) (pack_fixpoint dm l) pre rest d h hd h4

/-- the hypotheses are satisfiable by a non-trivial list (four full siblings at depth 1 of a depth-2 BMOC, then a cell) -/
example : ∀ r ∈ [buildRaw 1 4 true 2, buildRaw 1 5 true 2, buildRaw 1 6 true 2, buildRaw 1 7 true 2, buildRaw 2 40 false 2],
    ValidRaw 2 r := by
  intro r hr
  simp only [List.mem_cons, List.not_mem_nil, or_false] at hr
  rcases hr with rfl | rfl | rfl | rfl | rfl <;> exact validRaw_buildRaw _ (by decide) (by decide)

/-! ## `to_lower_depth` -/

open Hpx.Bmoc.Lower in
/-- **lowering the depth**: for every well-formed BMOC with valid entries and `new_depth < depth_max ≤ 29` the result is
    well formed with valid entries at `new_depth`; a coarse cell is kept **iff it contained something**; it is full
    **iff** it lies inside one full input cell of depth `≤ new_depth`, hence **only if** every deepest cell under it was
    full -/
theorem to_lower_depth_sem (dm nd : Nat) (hdm : dm ≤ 29) (hnd : nd < dm) (l : List Nat) (hv : ∀ r ∈ l, ValidRaw dm r)
    (hw : WF dm (cellsOf dm l)) :
    toLowerDepth dm nd l = some (toLowerLoop dm nd l none) ∧
    (WF nd (cellsOf nd (toLowerLoop dm nd l none)) ∧ ∀ r ∈ toLowerLoop dm nd l none, ValidRaw nd r) ∧
    (∀ y, stOf nd (cellsOf nd (toLowerLoop dm nd l none)) y ≠ .abs ↔
      ∃ x, y * 4 ^ (dm - nd) ≤ x ∧ x < (y + 1) * 4 ^ (dm - nd) ∧ stOf dm (cellsOf dm l) x ≠ .abs) ∧
    (∀ y, stOf nd (cellsOf nd (toLowerLoop dm nd l none)) y = .full ↔
      ∃ c ∈ cellsOf dm l, c.depth ≤ nd ∧ c.full = true ∧
        lo dm c ≤ y * 4 ^ (dm - nd) ∧ (y + 1) * 4 ^ (dm - nd) ≤ hi dm c) ∧
    (∀ y, stOf nd (cellsOf nd (toLowerLoop dm nd l none)) y = .full →
      ∀ x, y * 4 ^ (dm - nd) ≤ x → x < (y + 1) * 4 ^ (dm - nd) → stOf dm (cellsOf dm l) x = .full) :=
  ⟨(toLower_guard dm nd l).2 hnd, toLower_wf dm nd hdm hnd l hv hw, toLower_sem dm nd hdm hnd l hv hw,
   toLower_full_iff dm nd hdm hnd l hv hw, fun y h => toLower_full_only_if dm nd hdm hnd l hv hw y h⟩

/-! ## the fixed-depth builder -/

open Hpx.Bmoc.Builder in
/-- `sort_unstable(); dedup()` as modelled: strictly increasing, same members -/
theorem sort_dedup_spec (l : List Nat) :
    (dedupAdj (sortNat l)).Pairwise (· < ·) ∧ ∀ y, y ∈ dedupAdj (sortNat l) ↔ y ∈ l :=
  Hpx.Bmoc.Builder.sort_dedup_spec l

open Hpx.Bmoc.Builder in
/-- **`buff_to_bmoc`**: for every strictly increasing buffer of in-range hashes (depth ≤ 29) the run-length grouping
    (`largest_lower_cell_sequence_len`, `next_power_of_two`, both arms of the `trailing_zeros` trick) emits a
    well-formed BMOC with valid entries, every cell carrying the builder's flag, covering exactly the buffer -/
theorem buff_to_bmoc_sem (depth : Nat) (flag : Bool) (hd : depth ≤ 29) (buf : List Nat) (hpw : buf.Pairwise (· < ·))
    (hlt : ∀ x ∈ buf, x < 12 * 4 ^ depth) :
    (buffToBmoc depth flag buf).dmax = depth ∧ (∀ r ∈ (buffToBmoc depth flag buf).entries, ValidRaw depth r) ∧
    WF depth (buffToBmoc depth flag buf).cells ∧ (∀ c ∈ (buffToBmoc depth flag buf).cells, c.full = flag) ∧
    ∀ x, stOf depth (buffToBmoc depth flag buf).cells x = if x ∈ buf then Tri.ofFlag flag else .abs :=
  buffToBmoc_sem depth flag hd buf hpw hlt

open Hpx.Bmoc.Builder in
/-- **the builder preserves exactly what was pushed**, for every depth ≤ 29, flag, push sequence (any order, any
    duplicates) and drain schedule (`drainNow` after each push is arbitrary: every `Vec` capacity behaviour):
    no panic; `None` iff nothing was pushed; otherwise a well-formed BMOC with valid entries in which exactly the pushed
    cells carry the flag.  Relative to the specification `OrSpec` of `BMOC::or` on equal-depth operands (C08's open
    statement `or3_sem`; the builder merges its intermediate BMOCs with `or`). -/
theorem fixed_builder_sem_of_or_spec (hor : OrSpec) (depth : Nat) (flag : Bool) (hd : depth ≤ 29) (ps : List (Nat × Bool))
    (hlt : ∀ p ∈ ps, p.1 < 12 * 4 ^ depth) :
    ∃ r, runBuilder depth flag ps = some r ∧ (r = none ↔ ps = []) ∧
      ∀ m, r = some m → m.dmax = depth ∧ (∀ e ∈ m.entries, ValidRaw depth e) ∧ WF depth m.cells ∧
        ∀ x, stOf depth m.cells x = if x ∈ ps.map (·.1) then Tri.ofFlag flag else .abs :=
  fixed_builder_sem hor depth flag hd ps hlt

open Hpx.Bmoc.Builder in
/-- the specification of `or` that the builder relies on holds (C08 `or3_sem` through `pack`) -/
theorem or_spec_holds : OrSpec := fun A B D hD hA hB gA gB => Hpx.Bmoc.bmoc_or_good A B D hD hA hB gA gB

open Hpx.Bmoc.Builder in
/-- **`fixed_builder_sem`, unconditional**: for every depth `≤ 29`, flag, push sequence (any order, any duplicates) and
    drain schedule, `with_capacity; push*; to_bmoc` does not panic, returns `None` iff nothing was pushed, and otherwise a
    well-formed BMOC with valid entries in which exactly the pushed cells carry the flag -/
theorem fixed_builder_sem (depth : Nat) (flag : Bool) (hd : depth ≤ 29) (ps : List (Nat × Bool))
    (hlt : ∀ p ∈ ps, p.1 < 12 * 4 ^ depth) :
    ∃ r, runBuilder depth flag ps = some r ∧ (r = none ↔ ps = []) ∧
      ∀ m, r = some m → m.dmax = depth ∧ (∀ e ∈ m.entries, ValidRaw depth e) ∧ WF depth m.cells ∧
        ∀ x, stOf depth m.cells x = if x ∈ ps.map (·.1) then Tri.ofFlag flag else .abs :=
  Hpx.Bmoc.Builder.fixed_builder_sem or_spec_holds depth flag hd ps hlt

end Hpx.C15
