import HpxVerif.Model.Once
import HpxVerif.Lemmas.OnceProgLemmas

set_option autoImplicit false   -- an unknown identifier in a statement is an error, never a new variable

/-!
# C20 — lazy per-depth layers initialise once and safely under concurrent first use

The protocol of `get_or_create` (after the repair of finding F5: the slot is read only after `call_once` returned) is
the step relation `Once.step`.  Proved by an inductive invariant, for **any number of threads and any interleaving**:
* `inv_init`, `inv_step`, `inv_run`: the invariant holds initially and is preserved by every step, hence in every
  reachable state;
* `constructed_at_most_once`: the object is constructed at most once; `returns_initialised`: a thread that returns
  has seen `Some` — `unreachable!()` is unreachable — and at that moment exactly one construction has happened;
* `no_deadlock`: as long as some thread among `0..n` has not returned, some thread can move.
Assumptions (stated, not proved): `std::sync::Once` behaves as documented (mutual exclusion of the closure, blocking of
late callers, happens-before from the closure to every caller that returns); sequentially consistent steps;
the construction is a function of the depth only (the correspondence compares the constants of all 30 layers).
**Program level** (`Model/OnceProg.lean`): the factory bodies are *regenerated from the source* as instruction lists
(`factories_from_source`), interpreted with a two-step slot write; `safe_with_torn_writes` proves data-race freedom of
the slot accesses, single construction and initialised results for every schedule, and `prog_refines_once` ties that
machine to the four-step one below.
Tie to the code: translation of the factory bodies; yield-point hooks at the four points of both factories; schedules enumerated from this model are
replayed on the real code with real threads and the observations (construction counter, blocked or not, value seen)
compared with the model's; plus an unscheduled stress run; `cargo +nightly miri` in the thorough tier.
-/

namespace Hpx.C20
open Hpx.Once

def Inv (s : St) : Prop :=
  match s.once with
  | .incomplete => s.slot = false ∧ s.cons = 0 ∧ ∀ u, s.pc u = .start
  | .running t =>
    ((s.pc t = .entered ∧ s.slot = false ∧ s.cons = 0) ∨ (s.pc t = .written ∧ s.slot = true ∧ s.cons = 1)) ∧
    ∀ u, u ≠ t → s.pc u = .start
  | .complete => s.slot = true ∧ s.cons = 1 ∧ ∀ u, s.pc u = .start ∨ s.pc u = .after ∨ s.pc u = .done true

theorem inv_init : Inv init := by
  simp [Inv, init]

theorem upd_same (f : Nat → PC) (t : Nat) (v : PC) : upd f t v t = v := by simp [upd]
theorem upd_other (f : Nat → PC) (t u : Nat) (v : PC) (h : u ≠ t) : upd f t v u = f u := by simp [upd, h]

/-- the invariant is preserved by every step of every thread -/
theorem inv_step (s s' : St) (t : Nat) (hi : Inv s) (hs : step s t = some s') : Inv s' := by
  unfold step at hs
  cases hpc : s.pc t with
  | start =>
    rw [hpc] at hs
    cases ho : s.once with
    | incomplete =>
      simp only [ho] at hs; cases hs
      simp only [Inv, ho] at hi ⊢
      refine ⟨Or.inl ⟨upd_same _ _ _, hi.1, hi.2.1⟩, ?_⟩
      intro u hu; rw [upd_other _ _ _ _ hu]; exact hi.2.2 u
    | running r => simp [ho] at hs
    | complete =>
      simp only [ho] at hs; cases hs
      simp only [Inv, ho] at hi ⊢
      refine ⟨hi.1, hi.2.1, ?_⟩
      intro u
      by_cases hu : u = t
      · subst hu; rw [upd_same]; simp
      · rw [upd_other _ _ _ _ hu]; exact hi.2.2 u
  | entered =>
    rw [hpc] at hs; cases hs
    cases ho : s.once with
    | incomplete => simp only [Inv, ho] at hi; have := hi.2.2 t; rw [hpc] at this; cases this
    | running r =>
      simp only [Inv, ho] at hi ⊢
      have hrt : r = t := by
        rcases Nat.decEq r t with hne | he
        · have := hi.2 t (fun e => hne e.symm); rw [hpc] at this; cases this
        · exact he
      subst hrt
      rcases hi.1 with ⟨_, h2, h3⟩ | ⟨h1, _, _⟩
      · refine ⟨Or.inr ⟨upd_same _ _ _, trivial, by omega⟩, ?_⟩
        intro u hu; rw [upd_other _ _ _ _ hu]; exact hi.2 u hu
      · rw [hpc] at h1; cases h1
    | complete =>
      simp only [Inv, ho] at hi
      rcases hi.2.2 t with h | h | h <;> rw [hpc] at h <;> cases h
  | written =>
    rw [hpc] at hs; cases hs
    cases ho : s.once with
    | incomplete => simp only [Inv, ho] at hi; have := hi.2.2 t; rw [hpc] at this; cases this
    | running r =>
      simp only [Inv, ho] at hi ⊢
      have hrt : r = t := by
        rcases Nat.decEq r t with hne | he
        · have := hi.2 t (fun e => hne e.symm); rw [hpc] at this; cases this
        · exact he
      subst hrt
      rcases hi.1 with ⟨h1, _, _⟩ | ⟨_, h2, h3⟩
      · rw [hpc] at h1; cases h1
      · refine ⟨h2, h3, ?_⟩
        intro u
        by_cases hu : u = r
        · subst hu; rw [upd_same]; simp
        · rw [upd_other _ _ _ _ hu]; left; exact hi.2 u hu
    | complete =>
      simp only [Inv, ho] at hi
      rcases hi.2.2 t with h | h | h <;> rw [hpc] at h <;> cases h
  | after =>
    rw [hpc] at hs; cases hs
    cases ho : s.once with
    | incomplete => simp only [Inv, ho] at hi; have := hi.2.2 t; rw [hpc] at this; cases this
    | running r =>
      simp only [Inv, ho] at hi
      by_cases hrt : t = r
      · subst hrt
        rcases hi.1 with ⟨h1, _, _⟩ | ⟨h1, _, _⟩ <;> rw [hpc] at h1 <;> cases h1
      · have := hi.2 t hrt; rw [hpc] at this; cases this
    | complete =>
      simp only [Inv, ho] at hi ⊢
      refine ⟨hi.1, hi.2.1, ?_⟩
      intro u
      by_cases hu : u = t
      · subst hu; rw [upd_same, hi.1]; simp
      · rw [upd_other _ _ _ _ hu]; exact hi.2.2 u
  | done b => rw [hpc] at hs; cases hs

/-- every state reachable by any schedule satisfies the invariant -/
theorem inv_run (sched : List Nat) (s : St) (hi : Inv s) : Inv (run s sched).1 := by
  induction sched generalizing s with
  | nil => exact hi
  | cons t ts ih =>
    simp only [run]
    cases hs : step s t with
    | none => simp only []; exact ih s hi
    | some s' => simp only []; exact ih s' (inv_step s s' t hi hs)

/-- the object is constructed at most once, in every reachable state -/
theorem constructed_at_most_once (sched : List Nat) : (run init sched).1.cons ≤ 1 := by
  have h := inv_run sched init inv_init
  unfold Inv at h
  cases ho : (run init sched).1.once with
  | incomplete => rw [ho] at h; simp only [] at h; omega
  | running r =>
    rw [ho] at h; simp only [] at h
    rcases h.1 with ⟨_, _, h3⟩ | ⟨_, _, h3⟩ <;> omega
  | complete => rw [ho] at h; simp only [] at h; omega

/-- a thread that has returned has seen the initialised object (the `unreachable!()` arm is unreachable), and at that
    point exactly one construction has taken place -/
theorem returns_initialised (sched : List Nat) (t : Nat) (b : Bool)
    (h : (run init sched).1.pc t = .done b) : b = true ∧ (run init sched).1.cons = 1 ∧ (run init sched).1.slot = true := by
  have hi := inv_run sched init inv_init
  unfold Inv at hi
  cases ho : (run init sched).1.once with
  | incomplete => rw [ho] at hi; simp only [] at hi; have := hi.2.2 t; rw [h] at this; cases this
  | running r =>
    rw [ho] at hi; simp only [] at hi
    by_cases hrt : t = r
    · subst hrt
      rcases hi.1 with ⟨h1, _, _⟩ | ⟨h1, _, _⟩ <;> rw [h] at h1 <;> cases h1
    · have := hi.2 t hrt; rw [h] at this; cases this
  | complete =>
    rw [ho] at hi; simp only [] at hi
    rcases hi.2.2 t with h' | h' | h' <;> rw [h] at h'
    · cases h'
    · cases h'
    · cases h'; exact ⟨rfl, hi.2.1, hi.1⟩

/-- no deadlock: if some thread has not returned, some thread can move -/
theorem no_deadlock (s : St) (hi : Inv s) (t : Nat) (ht : ∀ b, s.pc t ≠ .done b) : ∃ u, (step s u).isSome = true := by
  unfold Inv at hi
  cases ho : s.once with
  | incomplete =>
    rw [ho] at hi; simp only [] at hi
    exact ⟨t, by simp [step, hi.2.2 t, ho]⟩
  | running r =>
    rw [ho] at hi; simp only [] at hi
    rcases hi.1 with ⟨h1, _, _⟩ | ⟨h1, _, _⟩
    · exact ⟨r, by simp [step, h1]⟩
    · exact ⟨r, by simp [step, h1]⟩
  | complete =>
    rw [ho] at hi; simp only [] at hi
    rcases hi.2.2 t with h | h | h
    · exact ⟨t, by simp [step, h, ho]⟩
    · exact ⟨t, by simp [step, h]⟩
    · exact absurd h (ht true)

/-- non-vacuity: a three-thread schedule in which thread 1 is blocked while thread 0 initialises -/
example : (run init [0, 1, 0, 1, 0, 1, 1, 0, 2, 2]).2 = [true, false, true, false, true, true, true, true, true, true] ∧
    (run init [0, 1, 0, 1, 0, 1, 1, 0, 2, 2]).1.cons = 1 := by decide

/-! ## the factories as written in the source, with a torn slot write -/

/-- **tie to the source by translation**: the bodies of `nested::get_or_create` and `lib::get_or_create`, parsed from the
    working tree on this run (hook statements removed), are both the program `goodProg`
    = `call_once(|| slot = Some(new))` followed by the final read; both `Once` arrays are plain `static`s and both slot
    arrays `static mut`, 30 entries each.  An early unsynchronised read, a construction outside the closure, a second
    write, a `const` array of `Once` … change the generated program and break this theorem. -/
theorem factories_from_source :
    OnceProg.decodeProg Gen.layersProg = some OnceProg.goodProg ∧ OnceProg.decodeProg Gen.c2vProg = some OnceProg.goodProg ∧
    Gen.layersOnceIsStatic = true ∧ Gen.c2vOnceIsStatic = true ∧
    Gen.layersSlotIsStaticMut = true ∧ Gen.c2vSlotIsStaticMut = true ∧
    Gen.layersLens = (30, 30) ∧ Gen.c2vLens = (30, 30) := OnceProg.factories_are_goodProg

/-- **safety with non-atomic slot writes** (any number of threads, any interleaving; the store to the slot is two steps
    and a read scheduled between them is recorded): no read ever observes a store in progress — the slot accesses are
    data-race free — the object is constructed at most once, and every thread that returns got the initialised object -/
theorem safe_with_torn_writes (sched : List Nat) :
    (OnceProg.run true OnceProg.goodProg OnceProg.init sched).race = false ∧
    (OnceProg.run true OnceProg.goodProg OnceProg.init sched).cons ≤ 1 ∧
    ∀ t b, (OnceProg.run true OnceProg.goodProg OnceProg.init sched).pc t = .done b →
      b = true ∧ (OnceProg.run true OnceProg.goodProg OnceProg.init sched).cons = 1 ∧
      (OnceProg.run true OnceProg.goodProg OnceProg.init sched).slot = .some := OnceProg.safe_torn sched

theorem no_deadlock_prog (s : OnceProg.St) (hi : OnceProg.Inv s) (t : Nat) (ht : ∀ b, s.pc t ≠ .done b) :
    ∃ u, (OnceProg.step true OnceProg.goodProg s u).isSome = true := OnceProg.no_deadlock s hi t ht

/-- **refinement**: the program-level machine refines the four-step machine `Once.step` whose histories are replayed on
    the real code through the yield-point hooks (the first half of the write is a stutter step) -/
theorem prog_refines_once (s s' : OnceProg.St) (t : Nat) (hi : OnceProg.Inv s)
    (hs : OnceProg.step true OnceProg.goodProg s t = some s') :
    Once.step (OnceProg.abs s) t = some (OnceProg.abs s') ∨ OnceProg.abs s' = OnceProg.abs s :=
  OnceProg.refines s s' t hi hs

/-- the shapes that the repair of F5 removed / that seeded changes introduce are unsafe in the same model -/
theorem unsafe_shapes :
    (OnceProg.run true [.readRet, .enterOnce 5, .wbegin, .wend, .exitOnce, .readFinal] OnceProg.init [0, 0, 0, 1]).race = true ∧
    (OnceProg.run false OnceProg.goodProg OnceProg.init [0, 0, 0, 1, 1, 1]).cons = 2 :=
  ⟨OnceProg.fast_path_races, OnceProg.const_once_constructs_twice⟩

end Hpx.C20
