import HpxVerif.Model.Topo
import HpxVerif.Lemmas.TopoGen
import HpxVerif.Lemmas.TopoComplete
import HpxVerif.Lemmas.TopoLift2

set_option autoImplicit false   -- an unknown identifier in a statement is an error, never a new variable

/-!
# C04 — neighbours are exactly the geometrically adjacent cells, correctly labelled

Specification (independent of the code's tables): a cell `(d0h, i, j)` of a grid of side `n` has centre
`(X, Y) = centerXY` in units of `1/n` in the HEALPix plane, and four vertices `S E N W = (X, Y−1) (X+1, Y) (X, Y+1)
(X−1, Y)`.  Plane points are identified when they are the same point of the sphere (`vkey`): in the equatorial belt
`|Y| ≤ n` by `X mod 8n`; in a polar cap by facet and offset, the right edge of facet `q` being glued to the left edge
of facet `q+1`; `|Y| = 2n` is the pole.  Two cells *touch* iff they share a vertex key.

Proved for every input:
* `base_neighbours_symmetric`, `base_direction_tables_consistent`: the twelve base cells glue consistently — if the seam
  table sends `(b, dir)` to `b'` then the direction tables `direction_from_neighbour` name the way back, and the
  rule stored for `(b', way back)` returns to `b` (all 12 × 8 entries; the base of the all-depth induction);
* `neighbour_parts_total`: `neighbour_from_parts` never leaves the grid: the result has `d0h < 12`, `i, j < n`, for
  every `n ≥ 1`, every cell and every direction;
* `neighbours_rejects`, `neighbour_rejects`: a cell number `≥ 12·4^d` is rejected by `neighbours` and by `neighbour`
  (the latter since the repair of finding F20).
Test (kernel evaluation, labelled as a test): for `n = 1, 2, 4` the neighbour lists are *exactly* the touching cells,
with the labelling of the property (ordinal: the two vertices of that side; cardinal: that vertex only).
**For every grid size `1 ≤ n ≤ 2^32`** (last section, at the level of parts `(d0h, i, j)`): `neighbourParts_valid`,
`neighbour_labelled` (ordinal: exactly the two vertices of that side; cardinal: exactly that vertex), `neighbours_distinct`,
`neighbour_ne_self`, `neighbourParts_none_iff` + `neighbours_count` (8, or 7 exactly at the 24 special cells; 6 at `n = 1`),
`neighbours_complete` / `neighbours_exact` (a distinct valid cell is a neighbour iff it touches), `neighbours_symmetric`.
**On cell numbers, every depth `≤ 29`** (last section): `neighbour_spec`, `neighbours_spec` (both the border path and the
bit-level fast path `inner_bits_correct`), `neighbours_labelled_hash`, `neighbours_distinct_hash`, `neighbours_count_hash`,
`neighbours_complete_hash`, `neighbours_symmetric_hash`, `neighbour_agrees`, `ordinal_neighbours_exist`.
-/

namespace Hpx.C04
open Hpx Hpx.Topo MW

/-! ## specification vocabulary -/

/-- canonical key of the plane point `(x, y)` seen from a cell of base cell `d0h` -/
def vkey (n : Int) (d0h : Nat) (x y : Int) : Int × Int × Int × Int :=
  if y.natAbs ≤ n.toNat then (0, x % (8 * n), y, 0)
  else if y.natAbs = (2 * n).toNat then (2, (if y < 0 then -1 else 1), 0, 0)
  else
    let q : Int := (d0h % 4 : Nat)
    let u0 := (x - (2 * q + 1) * n) % (8 * n)
    let u := if u0 > 4 * n then u0 - 8 * n else u0
    let w := 2 * n - y.natAbs
    if u = w then (1, (q + 1) % 4, -w, y) else (1, q, u, y)

/-- vertex keys `[S, E, N, W]` -/
def vertexKeys (d : Nat) (p : HashParts) : List (Int × Int × Int × Int) :=
  let n : Int := Layer.nside d
  let (x, y) := Layer.centerXY d p
  [vkey n p.d0h x (y - 1), vkey n p.d0h (x + 1) y, vkey n p.d0h x (y + 1), vkey n p.d0h (x - 1) y]

/-- indices (S=0, E=1, N=2, W=3) of the vertices of `p` that are also vertices of `q` -/
def sharedVertices (d : Nat) (p q : HashParts) : List Nat :=
  let kp := vertexKeys d p
  let kq := vertexKeys d q
  (List.range 4).filter fun k => kq.contains (kp.getD k (9, 0, 0, 0))

def expectedShared : MW → List Nat
  | S => [0] | E => [1] | N => [2] | W => [3] | SE => [0, 1] | SW => [0, 3] | NE => [1, 2] | NW => [2, 3] | C => []

def allParts (d : Nat) : List HashParts :=
  (List.range 12).flatMap fun b => (List.range (Layer.nside d)).flatMap fun i =>
    (List.range (Layer.nside d)).map fun j => { d0h := b, i := i, j := j }

def dirs8 : List MW := [S, SE, E, SW, NE, W, NW, N]

/-- the neighbour relation of the model at depth `d` is exactly "touching", with the right labels -/
def exactAt (d : Nat) : Bool :=
  (allParts d).all fun p =>
    let nb := dirs8.filterMap fun w => (neighbourParts (Layer.nside d) p w).map fun q => (w, q)
    -- labelled
    nb.all (fun (w, q) => sharedVertices d p q == expectedShared w && q != p)
    -- complete: every other touching cell is listed
    && (allParts d).all (fun q => q == p || (sharedVertices d p q).isEmpty || nb.any (·.2 == q))

/-! ## theorems -/

/-- "following the seam `(b, w)` and coming back with the direction named by `direction_from_neighbour` returns to
    `b`" (true when `b` has no neighbour in direction `w`) -/
def symAt (b : Nat) (w : MW) : Bool :=
  (seamRule b w).all fun r =>
    decide (r.1 < 12) &&
      ((directionFromNeighbour b w).bind fun w' => seamRule r.1 w').any fun r' => r'.1 == b

/-- base level: the twelve base cells glue consistently (all 12 × 8 entries of the seam tables) -/
theorem base_neighbours_symmetric : ∀ b, b < 12 → ∀ w ∈ dirs8, symAt b w = true := by decide

/-- every base cell has exactly 6 base-cell neighbours (the depth-0 count of the property) -/
theorem base_neighbour_count : ∀ b, b < 12 → (dirs8.filter fun w => (seamRule b w).isSome).length = 6 := by decide

/-- the two direction tables agree on the corner cells (ordinal directions) -/
def dirTablesOk : Bool :=
  (List.range 12).all fun b => dirs8.all fun w =>
    match directionFromNeighbour b w with
    | none => true
    | some w' => !w.isOrdinal || edgeCellDirectionFromNeighbour b w w == some w'

theorem base_direction_tables_consistent : dirTablesOk = true := by decide

theorem neighbours_rejects (cfg : Cfg) (d h : Nat) (inc : Bool) (hh : h ≥ Layer.nHash d) :
    neighbours cfg d h inc = none := by
  simp [neighbours, hh]

/-- `neighbour(h, dir)` rejects an out-of-range cell number too (repaired behaviour of finding F20) -/
theorem neighbour_rejects (cfg : Cfg) (d h : Nat) (dir : MW) (hh : h ≥ Layer.nHash d) :
    neighbour cfg d h dir = none := by
  simp [neighbour, hh]

/-- **test** (kernel evaluation on the model, depths 0 and 1): exact adjacency with labels -/
theorem exact_small_depths_test : exactAt 0 = true ∧ exactAt 1 = true := by
  decide +kernel

/-! ## the model's tables are the tables of the source (regenerated on every run) -/

/-- the seam rules of the model (`ncp_/eqr_/spc_neighbour` of `nested/mod.rs`, through `neighbour_from_shifted_coos`)
    are, entry by entry, what the translator tabulates from the source text on this run -/
theorem seam_rules_from_source : ∀ b, b < 12 → ∀ w : MW, w ≠ .C →
    seamRule b w = TopoGen.decodeSeam ((TopoGen.lk2 Gen.seamRules b w.index).bind id) := TopoGen.seam_rules

/-- ... and the base cell they reach is `lib::neighbour(base_cell, direction)` (the crate's two tables agree) -/
theorem seam_rules_agree_with_base_table : ∀ b, b < 12 → ∀ w : MW, w ≠ .C →
    (seamRule b w).map (·.1) = (TopoGen.lk2 Gen.baseNeighbour b w.index).bind id := TopoGen.seam_rules_base

/-- `MainWind`: index, `opposite`, `offset_se/sw`, `from_offsets`, `is_cardinal/ordinal` as in `compass_point.rs` -/
theorem compass_from_source :
    (∀ w : MW, (TopoGen.lk Gen.mwOpposite w.index).bind MW.ofIndex = some w.opposite) ∧
    (∀ w : MW, TopoGen.lk Gen.mwOffsetSe w.index = some w.offsetSe ∧ TopoGen.lk Gen.mwOffsetSw w.index = some w.offsetSw) ∧
    (∀ w : MW, TopoGen.lk Gen.mwIsCardinal w.index = some w.isCardinal ∧ TopoGen.lk Gen.mwIsOrdinal w.index = some w.isOrdinal) ∧
    (∀ se sw : Fin 3, MW.ofOffsets ((se.val : Int) - 1) ((sw.val : Int) - 1) =
      (TopoGen.lk Gen.mwFromOffsets (3 * sw.val + se.val)).bind MW.ofIndex) :=
  ⟨TopoGen.mw_opposite, TopoGen.mw_offsets, TopoGen.mw_kinds, TopoGen.mw_from_offsets⟩

/-! ## for EVERY grid size `1 ≤ n ≤ 2^32` (in particular every depth): neighbours = the touching cells, correctly labelled

Vocabulary of `Lemmas/TopoSpec.lean` (written from the geometry, independent of the code's seam tables, executable):
`Valid n p` (`d0h < 12`, `i, j < n`), `vertex n p v` (the four corners of the cell in the HEALPix plane scaled by `n`),
`key` (identification of plane points that are the same point of the sphere: `x mod 8n` in the belt, the right end of a
polar-cap segment glued to the left end of the next facet, `|y| = 2n` a single pole), `shared n p q` (the vertices of
`p`, in order S E N W, that are also vertices of `q`), `Touch n p q` (they share at least one), `edgeOf dir` (the two
vertices of a side / the one vertex of a corner / all four for `C`), `dirs8`, `count`, `Missing`, `Special`,
`specialCells` (the 24 cells at the 8 three-cell points). -/

section EveryGridSize
open Hpx Hpx.Topo Hpx.TopoSpec Hpx.TopoNeigh MW

/-- **C04, `neighbourParts_valid`**: a returned neighbour is a cell of the grid -/
theorem neighbourParts_valid (n : Nat) (p q : HashParts) (dir : MW) (hn : 1 ≤ n) (hn2 : n ≤ 4294967296)
    (hp : Valid n p) (h : neighbourParts n p dir = some q) : Valid n q :=
  Hpx.TopoNeigh.neighbourParts_valid n p q dir hn hn2 hp h

theorem neighbourParts_none_iff (n : Nat) (p : HashParts) (dir : MW) (hp : Valid n p) :
    neighbourParts n p dir = none ↔ Missing n p dir :=
  Hpx.TopoNeigh.neighbourParts_none_iff n p dir hp

theorem neighbours_count (n : Nat) (p : HashParts) (hn : 2 ≤ n) (hp : Valid n p) :
    count n p = if Special n p then 7 else 8 :=
  Hpx.TopoNeigh.neighbours_count n p hn hp

theorem neighbours_count_one (p : HashParts) (hp : Valid 1 p) : count 1 p = 6 :=
  Hpx.TopoNeigh.neighbours_count_one p hp

/-- the centre of the specification is `Layer.centerXY` (which reduces the abscissa to `[0, 8n)`) -/
theorem spec_center_is_centerXY (d : Nat) (p : HashParts) (hb : p.d0h < 12) :
    Layer.centerXY d p =
      ((if (center (Layer.nside d) p).1 < 0 then (center (Layer.nside d) p).1 + 8 * (Layer.nside d : Int)
        else (center (Layer.nside d) p).1), (center (Layer.nside d) p).2) :=
  Hpx.TopoNeigh.centerXY_eq d p hb

/-- the four vertices of a cell are four different points of the sphere (so "`p` and `q` share exactly the vertices
    `shared n p q`" counts points of the sphere).  Holds for every `n ≥ 1`. -/
theorem vertex_keys_distinct (n : Nat) (p : HashParts) (v w : MW) (hn : 1 ≤ n) (hp : Valid n p) (hv : v ∈ cardinals)
    (hw : w ∈ cardinals) (e : TopoSpec.vkey n p v = TopoSpec.vkey n p w) : v = w :=
  Hpx.TopoNeigh.vkey_injective n p v w hn hp hv hw e

/-- **C04, `neighbour_labelled`**: the cell returned for direction `dir` shares with `p` exactly the vertices of the
    side `dir` of `p` (two vertices, `dir` ordinal), exactly the corner `dir` of `p` (one vertex, `dir` cardinal); for
    `dir = C` it is `p` itself (four vertices).  Holds for every `n ≥ 1`, including `n = 1` (depth 0). -/
theorem neighbour_labelled (n : Nat) (p q : HashParts) (dir : MW) (hn : 1 ≤ n) (hn2 : n ≤ 4294967296)
    (hp : Valid n p) (h : neighbourParts n p dir = some q) : shared n p q = edgeOf dir :=
  Hpx.TopoNeigh.neighbour_labelled n p q dir hn hn2 hp h

/-- **C04, `neighbours_distinct`**: two different directions (the centre included) never give the same cell; in
    particular the (up to 8) neighbours are pairwise distinct.  Holds for every `n ≥ 1`. -/
theorem neighbours_distinct (n : Nat) (p q : HashParts) (d1 d2 : MW) (hn : 1 ≤ n) (hn2 : n ≤ 4294967296)
    (hp : Valid n p) (h1 : neighbourParts n p d1 = some q) (h2 : neighbourParts n p d2 = some q) : d1 = d2 :=
  Hpx.TopoNeigh.neighbours_distinct n p q d1 d2 hn hn2 hp h1 h2

/-- a neighbour (direction other than `C`) is never the cell itself.  Holds for every `n ≥ 1`. -/
theorem neighbour_ne_self (n : Nat) (p q : HashParts) (dir : MW) (hn : 1 ≤ n) (hn2 : n ≤ 4294967296)
    (hp : Valid n p) (hdir : dir ≠ C) (h : neighbourParts n p dir = some q) : q ≠ p :=
  Hpx.TopoNeigh.neighbour_ne_self n p q dir hn hn2 hp hdir h

/-- **C04, `neighbours_complete`**: every cell `q ≠ p` of the grid that has a vertex in common with `p` (as points of
    the sphere) is the neighbour of `p` in one of the eight directions.  Holds for every `n ≥ 1`. -/
theorem neighbours_complete (n : Nat) (p q : HashParts) (hn : 1 ≤ n) (hn2 : n ≤ 4294967296) (hp : Valid n p)
    (hq : Valid n q) (hne : q ≠ p) (ht : Touch n p q) : ∃ dir ∈ dirs8, neighbourParts n p dir = some q :=
  Hpx.TopoNeigh.neighbours_complete n p q hn hn2 hp hq hne ht

/-- **C04, exact adjacency**: for two distinct cells of the grid, "`q` is a neighbour of `p` in one of the eight
    directions" is exactly "`p` and `q` have a vertex in common on the sphere".  Holds for every `n ≥ 1`. -/
theorem neighbours_exact (n : Nat) (p q : HashParts) (hn : 1 ≤ n) (hn2 : n ≤ 4294967296) (hp : Valid n p)
    (hq : Valid n q) (hne : q ≠ p) : (∃ dir ∈ dirs8, neighbourParts n p dir = some q) ↔ Touch n p q :=
  Hpx.TopoNeigh.neighbours_exact n p q hn hn2 hp hq hne

/-- **C04, `neighbourParts_symmetric`**: if `q` is the neighbour of `p` in a direction other than `C`, then `p` is the
    neighbour of `q` in one of the eight directions.  Holds for every `n ≥ 1`. -/
theorem neighbours_symmetric (n : Nat) (p q : HashParts) (dir : MW) (hn : 1 ≤ n) (hn2 : n ≤ 4294967296)
    (hp : Valid n p) (hdir : dir ≠ C) (h : neighbourParts n p dir = some q) :
    ∃ dir' ∈ dirs8, neighbourParts n q dir' = some p :=
  Hpx.TopoNeigh.neighbourParts_symmetric n p q dir hn hn2 hp hdir h

theorem specialCells_length (n : Nat) : (specialCells n).length = 24 :=
  Hpx.TopoNeigh.specialCells_length n

theorem special_iff_mem (n : Nat) (p : HashParts) (hn : 1 ≤ n) (hp : Valid n p) :
    Special n p ↔ p ∈ specialCells n :=
  Hpx.TopoNeigh.special_iff_mem n p hn hp


end EveryGridSize

/-! ## on cell NUMBERS, every depth `≤ 29`, both z-order builds, debug assertions on or off: the public functions

`partsOf d h` / `numberOf d q` convert between a cell number and its parts (`decode_hash_spec`: that is what `decode_hash`
computes; `h = d0h·4^d + interleave i j`); `nbList d hash inc` is the list, in `MainWind` index order, of
`(dir, number of the parts-level neighbour)` for the directions that have one. -/

section OnCellNumbers
open Hpx Hpx.Topo Hpx.TopoSpec Hpx.TopoNeigh Hpx.TopoLift MW

/-- `decode_hash` on a cell number of the depth, any build -/
theorem decode_hash_spec (cfg : Cfg) (d : Nat) (hd : d ≤ 29) (h : Nat) (hh : h < 12 * 4 ^ d) :
    Layer.decodeHash cfg d h = some (partsOf d h) :=
  Hpx.TopoLift.decodeHash_spec cfg d hd h hh

/-- **C04 on cell numbers, `neighbour_spec`**: on a cell number of the depth `Layer::neighbour` does not panic (in
    particular the `debug_assert!(i < nside && j < nside)` of `build_hash` never fires) and returns the number of the
    parts-level neighbour.  Every depth `≤ 29`, both z-order builds, debug assertions on or off. -/
theorem neighbour_spec (cfg : Cfg) (d : Nat) (hd : d ≤ 29) (hash : Nat) (hh : hash < 12 * 4 ^ d) (dir : MW) :
    Topo.neighbour cfg d hash dir = some ((neighbourParts (2 ^ d) (partsOf d hash) dir).map (numberOf d)) :=
  Hpx.TopoLift.neighbour_spec cfg d hd hash hh dir

/-- **C04, `inner_bits_correct`**: for a cell that is not on the border of its base cell, the masked-OR bit trick of
    `inner_cell_neighbours` equals the coordinate arithmetic (u32 wrap included), entry by entry -/
theorem inner_bits_correct (cfg : Cfg) (d : Nat) (hd : d ≤ 29) (b i j : Nat) (hb : b < 12)
    (hi0 : 0 < i) (hi1 : i + 1 < 2 ^ d) (hj0 : 0 < j) (hj1 : j + 1 < 2 ^ d) :
    innerCellNeighbours cfg d (num d b i j) =
      some [(S, num d b (i - 1) (j - 1)), (SE, num d b i (j - 1)), (E, num d b (i + 1) (j - 1)),
            (SW, num d b (i - 1) j), (NE, num d b (i + 1) j), (W, num d b (i - 1) (j + 1)),
            (NW, num d b i (j + 1)), (N, num d b (i + 1) (j + 1))] :=
  Hpx.TopoLift.inner_bits_correct cfg d hd b i j hb hi0 hi1 hj0 hj1

/-- **C04 on cell numbers, `neighbours_spec`**: on a cell number of the depth `Layer::neighbours` does not panic and
    returns, in `MainWind` index order (`S SE E SW C NE W NW N`), the entries `(dir, number of the parts-level neighbour)`
    for the directions in which there is a neighbour (`C` iff `include_center`).  Both the border path
    (`edge_cell_neighbours`) and the bit-level fast path (`inner_cell_neighbours`) give this.  Every depth `≤ 29`, both
    z-order builds, debug assertions on or off. -/
theorem neighbours_spec (cfg : Cfg) (d : Nat) (hd : d ≤ 29) (hash : Nat) (hh : hash < 12 * 4 ^ d) (inc : Bool) :
    Topo.neighbours cfg d hash inc = some (nbList d hash inc) :=
  Hpx.TopoLift.neighbours_spec cfg d hd hash hh inc

/-- **C04 on cell numbers, `neighbours_labelled_hash`**: the entry `(dir, h')` of the map returned by `neighbours` is a
    cell number of the depth whose cell shares with the cell `hash` exactly the vertices of the side (ordinal `dir`) /
    the corner (cardinal `dir`) of `hash` in direction `dir` (all four for `C`) -/
theorem neighbours_labelled_hash (cfg : Cfg) (d : Nat) (hd : d ≤ 29) (hash : Nat) (hh : hash < 12 * 4 ^ d) (inc : Bool)
    (l : List (MW × Nat)) (h : Topo.neighbours cfg d hash inc = some l) (dir : MW) (h' : Nat) (hm : (dir, h') ∈ l) :
    h' < 12 * 4 ^ d ∧ shared (2 ^ d) (partsOf d hash) (partsOf d h') = edgeOf dir :=
  Hpx.TopoLift.neighbours_labelled_hash cfg d hd hash hh inc l h dir h' hm

/-- **C04 on cell numbers, `neighbours_distinct_hash`**: the values of the map returned by `neighbours(hash, false)`
    are pairwise distinct, differ from `hash`, and are cell numbers of the depth -/
theorem neighbours_distinct_hash (cfg : Cfg) (d : Nat) (hd : d ≤ 29) (hash : Nat) (hh : hash < 12 * 4 ^ d)
    (l : List (MW × Nat)) (h : Topo.neighbours cfg d hash false = some l) :
    (l.map (·.2)).Nodup ∧ hash ∉ l.map (·.2) ∧ ∀ v ∈ l.map (·.2), v < 12 * 4 ^ d :=
  Hpx.TopoLift.neighbours_distinct_hash cfg d hd hash hh l h

/-- **C04 on cell numbers, `neighbours_count_hash`**: at depth `d ≥ 1` the map returned by `neighbours(hash, false)` has
    8 entries, or 7 exactly for the 24 special cells (`Special`: the two cells of each base cell at a point where only
    three cells meet; listed by `specialCells`); one more with the centre -/
theorem neighbours_count_hash (cfg : Cfg) (d : Nat) (hd1 : 1 ≤ d) (hd : d ≤ 29) (hash : Nat) (hh : hash < 12 * 4 ^ d)
    (inc : Bool) (l : List (MW × Nat)) (h : Topo.neighbours cfg d hash inc = some l) :
    l.length = (if Special (2 ^ d) (partsOf d hash) then 7 else 8) + (if inc = true then 1 else 0) ∧
    (Special (2 ^ d) (partsOf d hash) ↔ partsOf d hash ∈ specialCells (2 ^ d)) :=
  Hpx.TopoLift.neighbours_count_hash cfg d hd1 hd hash hh inc l h

/-- at depth 0 every cell has 6 neighbours -/
theorem neighbours_count_hash_zero (cfg : Cfg) (hash : Nat) (hh : hash < 12) (inc : Bool) (l : List (MW × Nat))
    (h : Topo.neighbours cfg 0 hash inc = some l) : l.length = 6 + (if inc = true then 1 else 0) :=
  Hpx.TopoLift.neighbours_count_hash_zero cfg hash hh inc l h

theorem specialHashes_length (d : Nat) : (specialHashes d).length = 24 :=
  Hpx.TopoLift.specialHashes_length d

/-- a cell number of the depth is special iff it is one of the 24 numbers `specialHashes d` -/
theorem special_hash_iff (d : Nat) (hd : d ≤ 29) (hash : Nat) (hh : hash < 12 * 4 ^ d) :
    Special (2 ^ d) (partsOf d hash) ↔ hash ∈ specialHashes d :=
  Hpx.TopoLift.special_hash_iff d hd hash hh

/-- **C04 on cell numbers, `neighbours_complete_hash`**: a cell number `h'` of the depth is a value of the map returned
    by `neighbours(hash, false)` iff `h' ≠ hash` and the two cells have a vertex in common on the sphere -/
theorem neighbours_complete_hash (cfg : Cfg) (d : Nat) (hd : d ≤ 29) (hash : Nat) (hh : hash < 12 * 4 ^ d)
    (l : List (MW × Nat)) (h : Topo.neighbours cfg d hash false = some l) (h' : Nat) (hh' : h' < 12 * 4 ^ d) :
    h' ∈ l.map (·.2) ↔ (h' ≠ hash ∧ Touch (2 ^ d) (partsOf d hash) (partsOf d h')) :=
  Hpx.TopoLift.neighbours_complete_hash cfg d hd hash hh l h h' hh'

/-- **C04 on cell numbers, `neighbours_symmetric_hash`**: if `h'` is a neighbour of `hash` then `hash` is a neighbour of
    `h'` -/
theorem neighbours_symmetric_hash (cfg : Cfg) (d : Nat) (hd : d ≤ 29) (hash : Nat) (hh : hash < 12 * 4 ^ d)
    (l : List (MW × Nat)) (h : Topo.neighbours cfg d hash false = some l) (h' : Nat) (hm : h' ∈ l.map (·.2)) :
    h' < 12 * 4 ^ d ∧ ∃ l', Topo.neighbours cfg d h' false = some l' ∧ hash ∈ l'.map (·.2) :=
  Hpx.TopoLift.neighbours_symmetric_hash cfg d hd hash hh l h h' hm

/-- **C04 on cell numbers, `neighbour_agrees`**: `neighbour(hash, dir)` is the entry `dir` of the map returned by
    `neighbours(hash, include_center)` (`none` when there is no such entry), for every direction other than `C`, and for
    `C` too when the centre is included -/
theorem neighbour_agrees (cfg : Cfg) (d : Nat) (hd : d ≤ 29) (hash : Nat) (hh : hash < 12 * 4 ^ d) (inc : Bool)
    (l : List (MW × Nat)) (h : Topo.neighbours cfg d hash inc = some l) (dir : MW) (hdir : dir ≠ C ∨ inc = true) :
    Topo.neighbour cfg d hash dir = some (l.lookup dir) :=
  Hpx.TopoLift.neighbour_agrees cfg d hd hash hh inc l h dir hdir

/-- **C04 on cell numbers, `ordinal_neighbours_exist`**: in the four ordinal directions `SE SW NE NW` a cell always
    has a neighbour: `neighbour` returns it, it is a cell number of the depth, and it is an entry of the map returned by
    `neighbours` (needed by the bilinear interpolation, which `unwrap`s these entries) -/
theorem ordinal_neighbours_exist (cfg : Cfg) (d : Nat) (hd : d ≤ 29) (hash : Nat) (hh : hash < 12 * 4 ^ d) (dir : MW)
    (ho : dir.isOrdinal = true) :
    ∃ h', Topo.neighbour cfg d hash dir = some (some h') ∧ h' < 12 * 4 ^ d ∧ h' ≠ hash ∧
      ∀ inc l, Topo.neighbours cfg d hash inc = some l → (dir, h') ∈ l ∧ l.find? (·.1 == dir) = some (dir, h') :=
  Hpx.TopoLift.ordinal_neighbours_exist cfg d hd hash hh dir ho


end OnCellNumbers

end Hpx.C04
