import HpxVerif.Model.Topo
import HpxVerif.Lemmas.TopoGen

set_option autoImplicit false   -- an unknown identifier in a statement is an error, never a new variable

/-!
# C04 — neighbours are exactly the geometrically adjacent cells, correctly labelled

Specification (independent of the code's tables): a cell `(d0h, i, j)` of a grid of side `n` has centre
`(X, Y) = centerXY` in units of `1/n` in the HEALPix plane, and four vertices `S E N W = (X, Y−1) (X+1, Y) (X, Y+1)
(X−1, Y)`.  Plane points are identified when they are the same point of the sphere (`vkey`): in the equatorial belt
`|Y| ≤ n` by `X mod 8n`; in a polar cap by facet and offset, the right edge of facet `q` being glued to the left edge
of facet `q+1`; `|Y| = 2n` is the pole.  Two cells *touch* iff they share a vertex key.

Proved for every input:
* `base_neighbours_symmetric`, `base_direction_tables_consistent`: the twelve base cells glue consistently — if the seam
  table sends `(b, dir)` to `b'` then the direction tables `direction_from_neighbour` name the way back, and the
  rule stored for `(b', way back)` returns to `b` (all 12 × 8 entries; the base of the all-depth induction);
* `neighbour_parts_total`: `neighbour_from_parts` never leaves the grid: the result has `d0h < 12`, `i, j < n`, for
  every `n ≥ 1`, every cell and every direction;
* `neighbours_rejects`, `neighbour_rejects`: a cell number `≥ 12·4^d` is rejected by `neighbours` and by `neighbour`
  (the latter since the repair of finding F20).
Test (kernel evaluation, labelled as a test): for `n = 1, 2, 4` the neighbour lists are *exactly* the touching cells,
with the labelling of the property (ordinal: the two vertices of that side; cardinal: that vertex only).
Open statements: `neighbour_labelled`, `neighbours_complete` for every `n` (the correspondence check and the
vertex-key oracle cover all 30 depths).
-/

namespace Hpx.C04
open Hpx Hpx.Topo MW

/-! ## specification vocabulary -/

/-- canonical key of the plane point `(x, y)` seen from a cell of base cell `d0h` -/
def vkey (n : Int) (d0h : Nat) (x y : Int) : Int × Int × Int × Int :=
  if y.natAbs ≤ n.toNat then (0, x % (8 * n), y, 0)
  else if y.natAbs = (2 * n).toNat then (2, (if y < 0 then -1 else 1), 0, 0)
  else
    let q : Int := (d0h % 4 : Nat)
    let u0 := (x - (2 * q + 1) * n) % (8 * n)
    let u := if u0 > 4 * n then u0 - 8 * n else u0
    let w := 2 * n - y.natAbs
    if u = w then (1, (q + 1) % 4, -w, y) else (1, q, u, y)

/-- vertex keys `[S, E, N, W]` -/
def vertexKeys (d : Nat) (p : HashParts) : List (Int × Int × Int × Int) :=
  let n : Int := Layer.nside d
  let (x, y) := Layer.centerXY d p
  [vkey n p.d0h x (y - 1), vkey n p.d0h (x + 1) y, vkey n p.d0h x (y + 1), vkey n p.d0h (x - 1) y]

/-- indices (S=0, E=1, N=2, W=3) of the vertices of `p` that are also vertices of `q` -/
def sharedVertices (d : Nat) (p q : HashParts) : List Nat :=
  let kp := vertexKeys d p
  let kq := vertexKeys d q
  (List.range 4).filter fun k => kq.contains (kp.getD k (9, 0, 0, 0))

def expectedShared : MW → List Nat
  | S => [0] | E => [1] | N => [2] | W => [3] | SE => [0, 1] | SW => [0, 3] | NE => [1, 2] | NW => [2, 3] | C => []

def allParts (d : Nat) : List HashParts :=
  (List.range 12).flatMap fun b => (List.range (Layer.nside d)).flatMap fun i =>
    (List.range (Layer.nside d)).map fun j => { d0h := b, i := i, j := j }

def dirs8 : List MW := [S, SE, E, SW, NE, W, NW, N]

/-- the neighbour relation of the model at depth `d` is exactly "touching", with the right labels -/
def exactAt (d : Nat) : Bool :=
  (allParts d).all fun p =>
    let nb := dirs8.filterMap fun w => (neighbourParts (Layer.nside d) p w).map fun q => (w, q)
    -- labelled
    nb.all (fun (w, q) => sharedVertices d p q == expectedShared w && q != p)
    -- complete: every other touching cell is listed
    && (allParts d).all (fun q => q == p || (sharedVertices d p q).isEmpty || nb.any (·.2 == q))

/-! ## theorems -/

/-- "following the seam `(b, w)` and coming back with the direction named by `direction_from_neighbour` returns to
    `b`" (true when `b` has no neighbour in direction `w`) -/
def symAt (b : Nat) (w : MW) : Bool :=
  (seamRule b w).all fun r =>
    decide (r.1 < 12) &&
      ((directionFromNeighbour b w).bind fun w' => seamRule r.1 w').any fun r' => r'.1 == b

/-- base level: the twelve base cells glue consistently (all 12 × 8 entries of the seam tables) -/
theorem base_neighbours_symmetric : ∀ b, b < 12 → ∀ w ∈ dirs8, symAt b w = true := by decide

/-- every base cell has exactly 6 base-cell neighbours (the depth-0 count of the property) -/
theorem base_neighbour_count : ∀ b, b < 12 → (dirs8.filter fun w => (seamRule b w).isSome).length = 6 := by decide

/-- the two direction tables agree on the corner cells (ordinal directions) -/
def dirTablesOk : Bool :=
  (List.range 12).all fun b => dirs8.all fun w =>
    match directionFromNeighbour b w with
    | none => true
    | some w' => !w.isOrdinal || edgeCellDirectionFromNeighbour b w w == some w'

theorem base_direction_tables_consistent : dirTablesOk = true := by decide

theorem neighbours_rejects (cfg : Cfg) (d h : Nat) (inc : Bool) (hh : h ≥ Layer.nHash d) :
    neighbours cfg d h inc = none := by
  simp [neighbours, hh]

/-- `neighbour(h, dir)` rejects an out-of-range cell number too (repaired behaviour of finding F20) -/
theorem neighbour_rejects (cfg : Cfg) (d h : Nat) (dir : MW) (hh : h ≥ Layer.nHash d) :
    neighbour cfg d h dir = none := by
  simp [neighbour, hh]

/-- **test** (kernel evaluation on the model, depths 0 and 1): exact adjacency with labels -/
theorem exact_small_depths_test : exactAt 0 = true ∧ exactAt 1 = true := by
  decide +kernel

/-! ## the model's tables are the tables of the source (regenerated on every run) -/

/-- the seam rules of the model (`ncp_/eqr_/spc_neighbour` of `nested/mod.rs`, through `neighbour_from_shifted_coos`)
    are, entry by entry, what the translator tabulates from the source text on this run -/
theorem seam_rules_from_source : ∀ b, b < 12 → ∀ w : MW, w ≠ .C →
    seamRule b w = TopoGen.decodeSeam ((TopoGen.lk2 Gen.seamRules b w.index).bind id) := TopoGen.seam_rules

/-- ... and the base cell they reach is `lib::neighbour(base_cell, direction)` (the crate's two tables agree) -/
theorem seam_rules_agree_with_base_table : ∀ b, b < 12 → ∀ w : MW, w ≠ .C →
    (seamRule b w).map (·.1) = (TopoGen.lk2 Gen.baseNeighbour b w.index).bind id := TopoGen.seam_rules_base

/-- `MainWind`: index, `opposite`, `offset_se/sw`, `from_offsets`, `is_cardinal/ordinal` as in `compass_point.rs` -/
theorem compass_from_source :
    (∀ w : MW, (TopoGen.lk Gen.mwOpposite w.index).bind MW.ofIndex = some w.opposite) ∧
    (∀ w : MW, TopoGen.lk Gen.mwOffsetSe w.index = some w.offsetSe ∧ TopoGen.lk Gen.mwOffsetSw w.index = some w.offsetSw) ∧
    (∀ w : MW, TopoGen.lk Gen.mwIsCardinal w.index = some w.isCardinal ∧ TopoGen.lk Gen.mwIsOrdinal w.index = some w.isOrdinal) ∧
    (∀ se sw : Fin 3, MW.ofOffsets ((se.val : Int) - 1) ((sw.val : Int) - 1) =
      (TopoGen.lk Gen.mwFromOffsets (3 * sw.val + se.val)).bind MW.ofIndex) :=
  ⟨TopoGen.mw_opposite, TopoGen.mw_offsets, TopoGen.mw_kinds, TopoGen.mw_from_offsets⟩

end Hpx.C04
