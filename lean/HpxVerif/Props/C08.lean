import HpxVerif.Lemmas.BmocAnd
import HpxVerif.Lemmas.BmocEnc

/-!
# C08 — BMOC operators follow the documented three-valued semantics with partial flags

A cell list denotes the map `stOf D l : Nat → {abs, part, full}` on the cells of any reference depth `D` at least as
deep as every cell (`WF D l`: depths `≤ D`, intervals increasing and pairwise disjoint).  Operands may have
arbitrary flags, be packed or not, and have different `depth_max` (the operator model decodes each operand with its
own `depth_max` and encodes the result with the larger one, as the code does).

Proved here for all pairs of well-formed operands: `and` (pointwise minimum, result well formed).
`not`, `or`, `xor`: the executable model mirrors the code loop by loop and is tied to it by the correspondence check
(exhaustive one-level universe, sampled two-level universe, random deep trees); their `*_sem` theorems are stated
below as open statements and are not counted as obligations until proved.
-/

namespace Hpx.C08
open Hpx.Bmoc

/-- `and` is the pointwise minimum, for every pair of well-formed cell lists and every cell `x` of depth `D` -/
theorem and3_sem (D : Nat) (a b : List Cell) (ha : WF D a) (hb : WF D b) (x : Nat) :
    stOf D (andCells a b) x = Tri.min (stOf D a x) (stOf D b x) := and_sem D a b ha hb x

/-- the result of `and` is well formed -/
theorem and_wf (D : Nat) (a b : List Cell) (ha : WF D a) (hb : WF D b) : WF D (andCells a b) :=
  (and_wf_inside D a b ha hb).1

/-- the documented table of `and` -/
theorem and_table : Tri.min .abs .full = .abs ∧ Tri.min .part .full = .part ∧ Tri.min .full .full = .full ∧
    Tri.min .part .part = .part ∧ Tri.min .full .part = .part ∧ Tri.min .part .abs = .abs := by decide

/-- non-vacuity: a concrete pair with mixed depths and flags satisfies the hypotheses, and the model computes the
    expected cells -/
example : WF 2 [⟨0, 0, false⟩, ⟨1, 4, true⟩] ∧ WF 2 [⟨1, 1, true⟩, ⟨2, 16, false⟩, ⟨2, 17, true⟩] ∧
    andCells [⟨0, 0, false⟩, ⟨1, 4, true⟩] [⟨1, 1, true⟩, ⟨2, 16, false⟩, ⟨2, 17, true⟩]
      = [⟨1, 1, false⟩, ⟨2, 16, false⟩, ⟨2, 17, true⟩] := by
  refine ⟨?_, ?_, by simp [andCells]⟩ <;> simp [WF, hi, lo]

end Hpx.C08
