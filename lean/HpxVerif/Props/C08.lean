import HpxVerif.Lemmas.BmocAnd
import HpxVerif.Lemmas.BmocEnc
import HpxVerif.Lemmas.BmocNot

/-!
# C08 — BMOC operators follow the documented three-valued semantics with partial flags

A cell list denotes the map `stOf D l : Nat → {abs, part, full}` on the cells of any reference depth `D` at least as
deep as every cell (`WF D l`: depths `≤ D`, intervals increasing and pairwise disjoint).  Operands may have
arbitrary flags, be packed or not, and have different `depth_max` (the operator model decodes each operand with its
own `depth_max` and encodes the result with the larger one, as the code does).

Proved here for all (pairs of) well-formed operands: `and` (pointwise minimum, result well formed) and **`not`
(`not3_sem`: absent ↔ full, partial kept; result well formed and in range; every produced cell is full or an unchanged
partial cell of the operand)**.  `or`, `xor`: the executable model mirrors the code loop by loop and is tied to it by the
correspondence check (exhaustive one-level universe, sampled two-level universe, random deep trees); their `*_sem`
theorems are open statements and are not counted as obligations until proved.
-/

namespace Hpx.C08
open Hpx.Bmoc

/-- `and` is the pointwise minimum, for every pair of well-formed cell lists and every cell `x` of depth `D` -/
theorem and3_sem (D : Nat) (a b : List Cell) (ha : WF D a) (hb : WF D b) (x : Nat) :
    stOf D (andCells a b) x = Tri.min (stOf D a x) (stOf D b x) := and_sem D a b ha hb x

/-- the result of `and` is well formed -/
theorem and_wf (D : Nat) (a b : List Cell) (ha : WF D a) (hb : WF D b) : WF D (andCells a b) :=
  (and_wf_inside D a b ha hb).1

/-- the documented table of `and` -/
theorem and_table : Tri.min .abs .full = .abs ∧ Tri.min .part .full = .part ∧ Tri.min .full .full = .full ∧
    Tri.min .part .part = .part ∧ Tri.min .full .part = .part ∧ Tri.min .part .abs = .abs := by decide

/-- non-vacuity: a concrete pair with mixed depths and flags satisfies the hypotheses, and the model computes the
    expected cells -/
example : WF 2 [⟨0, 0, false⟩, ⟨1, 4, true⟩] ∧ WF 2 [⟨1, 1, true⟩, ⟨2, 16, false⟩, ⟨2, 17, true⟩] ∧
    andCells [⟨0, 0, false⟩, ⟨1, 4, true⟩] [⟨1, 1, true⟩, ⟨2, 16, false⟩, ⟨2, 17, true⟩]
      = [⟨1, 1, false⟩, ⟨2, 16, false⟩, ⟨2, 17, true⟩] := by
  refine ⟨?_, ?_, by simp [andCells]⟩ <;> simp [WF, hi, lo]

/-- **`not`, three-valued**: absent ↔ full, partial stays partial, for every well-formed in-range BMOC cell list of depth
    `≤ 29` and every cell `x` of the sphere; the result is well formed and in range -/
theorem not3_sem (D : Nat) (hD : D ≤ 29) (a : List Cell) (ha : WF D a) (hr : ∀ c ∈ a, InR c) (x : Nat)
    (hx : x < 12 * 4 ^ D) : stOf D (notCells a) x = Tri.not (stOf D a x) :=
  (notCells_spec D hD a ha hr).1 x hx

theorem not3_wf (D : Nat) (hD : D ≤ 29) (a : List Cell) (ha : WF D a) (hr : ∀ c ∈ a, InR c) :
    WF D (notCells a) ∧ ∀ c ∈ notCells a, InR c :=
  ⟨(notCells_spec D hD a ha hr).2.1, (notCells_spec D hD a ha hr).2.2⟩

/-- every cell produced by `not` is full, or is a partial cell of the operand kept unchanged -/
theorem not3_flags (a : List Cell) (c : Cell) (hc : c ∈ notCells a) : c.full = true ∨ (c ∈ a ∧ c.full = false) :=
  mem_notCells_flag a c hc

theorem not_table : Tri.not .abs = .full ∧ Tri.not .part = .part ∧ Tri.not .full = .abs := ⟨rfl, rfl, rfl⟩

end Hpx.C08
