import HpxVerif.Lemmas.BmocAnd
import HpxVerif.Lemmas.BmocEnc
import HpxVerif.Lemmas.BmocNot
import HpxVerif.Lemmas.BmocXor3
import HpxVerif.Lemmas.BmocOr2
import HpxVerif.Lemmas.BmocLaws

set_option autoImplicit false   -- an unknown identifier in a statement is an error, never a new variable

/-!
# C08 — BMOC operators follow the documented three-valued semantics with partial flags

A cell list denotes the map `stOf D l : Nat → {abs, part, full}` on the cells of any reference depth `D` at least as
deep as every cell (`WF D l`: depths `≤ D`, intervals increasing and pairwise disjoint).  Operands may have
arbitrary flags, be packed or not, and have different `depth_max` (the operator model decodes each operand with its
own `depth_max` and encodes the result with the larger one, as the code does).

Proved here for all (pairs of) well-formed operands: `and` (pointwise minimum, result well formed) and **`not`
(`not3_sem`: absent ↔ full, partial kept; result well formed and in range; every produced cell is full or an unchanged
partial cell of the operand)**.  **`xor` (`xor3_sem` on cell lists, `xor_bmoc` for the public operator including re-encoding and `pack`: never panics
on valid operands, result valid, well formed, pointwise the documented table).**
**`or` (`or3_sem`, `or_bmoc`: never panics on valid operands — in particular the `unwrap` in `not_in_cell_4_or` that
finding F1 made fail — result valid, well formed, pointwise maximum).**  All four operators are proved.
-/

namespace Hpx.C08
open Hpx.Bmoc

/-- `and` is the pointwise minimum, for every pair of well-formed cell lists and every cell `x` of depth `D` -/
theorem and3_sem (D : Nat) (a b : List Cell) (ha : WF D a) (hb : WF D b) (x : Nat) :
    stOf D (andCells a b) x = Tri.min (stOf D a x) (stOf D b x) := and_sem D a b ha hb x

/-- the result of `and` is well formed -/
theorem and_wf (D : Nat) (a b : List Cell) (ha : WF D a) (hb : WF D b) : WF D (andCells a b) :=
  (and_wf_inside D a b ha hb).1

/-- the documented table of `and` -/
theorem and_table : Tri.min .abs .full = .abs ∧ Tri.min .part .full = .part ∧ Tri.min .full .full = .full ∧
    Tri.min .part .part = .part ∧ Tri.min .full .part = .part ∧ Tri.min .part .abs = .abs := by decide

/-- non-vacuity: a concrete pair with mixed depths and flags satisfies the hypotheses, and the model computes the
    expected cells -/
example : WF 2 [⟨0, 0, false⟩, ⟨1, 4, true⟩] ∧ WF 2 [⟨1, 1, true⟩, ⟨2, 16, false⟩, ⟨2, 17, true⟩] ∧
    andCells [⟨0, 0, false⟩, ⟨1, 4, true⟩] [⟨1, 1, true⟩, ⟨2, 16, false⟩, ⟨2, 17, true⟩]
      = [⟨1, 1, false⟩, ⟨2, 16, false⟩, ⟨2, 17, true⟩] := by
  refine ⟨?_, ?_, by simp [andCells]⟩ <;> simp [WF, hi, lo]

/-- **`not`, three-valued**: absent ↔ full, partial stays partial, for every well-formed in-range BMOC cell list of depth
    `≤ 29` and every cell `x` of the sphere; the result is well formed and in range -/
theorem not3_sem (D : Nat) (hD : D ≤ 29) (a : List Cell) (ha : WF D a) (hr : ∀ c ∈ a, InR c) (x : Nat)
    (hx : x < 12 * 4 ^ D) : stOf D (notCells a) x = Tri.not (stOf D a x) :=
  (notCells_spec D hD a ha hr).1 x hx

theorem not3_wf (D : Nat) (hD : D ≤ 29) (a : List Cell) (ha : WF D a) (hr : ∀ c ∈ a, InR c) :
    WF D (notCells a) ∧ ∀ c ∈ notCells a, InR c :=
  ⟨(notCells_spec D hD a ha hr).2.1, (notCells_spec D hD a ha hr).2.2⟩

/-- every cell produced by `not` is full, or is a partial cell of the operand kept unchanged -/
theorem not3_flags (a : List Cell) (c : Cell) (hc : c ∈ notCells a) : c.full = true ∨ (c ∈ a ∧ c.full = false) :=
  mem_notCells_flag a c hc

theorem not_table : Tri.not .abs = .full ∧ Tri.not .part = .part ∧ Tri.not .full = .abs := ⟨rfl, rfl, rfl⟩

/-! ## `xor` -/

/-- **`xor`, three-valued, on cell lists** (before `pack`): for every pair of well-formed in-range operands of depth
    `≤ 29` the merge loop never panics, and the result denotes the documented table pointwise -/
theorem xor3_sem (D : Nat) (hD : D ≤ 29) (a b : List Cell) (ha : WF D a) (hb : WF D b)
    (hra : ∀ c ∈ a, InR c) (hrb : ∀ c ∈ b, InR c) :
    ∃ l, xorCellsUnpacked a b = some l ∧ (WF D l ∧ ∀ c ∈ l, InR c) ∧
      ∀ x, stOf D l x = Tri.xor (stOf D a x) (stOf D b x) := by
  obtain ⟨l, hl⟩ := xorCells_some D hD a b ha hb hra hrb
  exact ⟨l, hl, Hpx.Bmoc.xor_wf D hD a b ha hb hra hrb l hl, fun x => xor3_sem_all D hD a b ha hb hra hrb l hl x⟩

/-- **the public operator `BMOC::xor`** (merge loop, re-encoding with the larger `depth_max`, `pack`): for every pair of
    valid BMOCs (each well formed w.r.t. its own `depth_max ≤ 29`) it returns a BMOC with `depth_max = max`, valid
    strictly increasing entries, well formed, denoting the documented table pointwise -/
theorem xor_bmoc (A B : BMOC) (hA : A.dmax ≤ 29) (hB : B.dmax ≤ 29)
    (hvA : ∀ e ∈ A.entries, ValidRaw A.dmax e) (hvB : ∀ e ∈ B.entries, ValidRaw B.dmax e)
    (hwA : WF A.dmax A.cells) (hwB : WF B.dmax B.cells) :
    ∃ R, BMOC.xor A B = some R ∧ R.dmax = max A.dmax B.dmax ∧
      (∀ e ∈ R.entries, ValidRaw R.dmax e) ∧ R.entries.Pairwise (· < ·) ∧
      WF (max A.dmax B.dmax) R.cells ∧ (∀ c ∈ R.cells, InR c) ∧
      ∀ x, stOf (max A.dmax B.dmax) R.cells x =
        Tri.xor (stOf (max A.dmax B.dmax) A.cells x) (stOf (max A.dmax B.dmax) B.cells x) :=
  bmoc_xor_valid A B hA hB hvA hvB hwA hwB

/-- the documented table of `xor` -/
theorem xor_table : Tri.xor .abs .full = .full ∧ Tri.xor .part .abs = .part ∧ Tri.xor .full .full = .abs ∧
    Tri.xor .abs .abs = .abs ∧ Tri.xor .part .full = .part ∧ Tri.xor .full .part = .part ∧ Tri.xor .part .part = .part := by
  decide

/-! ## `or` -/

/-- **`or`, three-valued, on cell lists** (before `pack`): for every pair of well-formed in-range operands of depth
    `≤ 29` the merge loop never panics (the `unwrap` of `not_in_cell_4_or` never fails, the fuel suffices), the result is
    well formed and in range, and denotes the pointwise maximum -/
theorem or3_sem (D : Nat) (hD : D ≤ 29) (a b : List Cell) (ha : WF D a) (hb : WF D b)
    (hra : ∀ c ∈ a, InR c) (hrb : ∀ c ∈ b, InR c) :
    ∃ l, orCellsUnpacked a b = some l ∧ (WF D l ∧ ∀ c ∈ l, InR c) ∧
      ∀ x, stOf D l x = Tri.max (stOf D a x) (stOf D b x) := by
  obtain ⟨l, hl⟩ := orCells_some D hD a b ha hb hra hrb
  exact ⟨l, hl, Hpx.Bmoc.or_wf D hD a b ha hb hra hrb l hl, fun x => or3_sem_all D hD a b ha hb hra hrb l hl x⟩

/-- **the public operator `BMOC::or`** for operands of possibly different `depth_max` (each valid and well formed w.r.t.
    its own `depth_max ≤ 29`): never panics, `depth_max = max`, valid strictly increasing entries, well formed, and the
    state of every cell of the deeper depth is the maximum of the states of its ancestors-or-self in the two operands -/
theorem or_bmoc (A B : BMOC) (hA : A.dmax ≤ 29) (hB : B.dmax ≤ 29)
    (gA : (∀ r ∈ A.entries, ValidRaw A.dmax r) ∧ WF A.dmax A.cells)
    (gB : (∀ r ∈ B.entries, ValidRaw B.dmax r) ∧ WF B.dmax B.cells) :
    ∃ R, BMOC.or A B = some R ∧ R.dmax = max A.dmax B.dmax ∧ (∀ r ∈ R.entries, ValidRaw (max A.dmax B.dmax) r) ∧
      WF (max A.dmax B.dmax) R.cells ∧ R.entries.Pairwise (· < ·) ∧
      ∀ x, stOf (max A.dmax B.dmax) R.cells x =
        Tri.max (stOf A.dmax A.cells (x / 4 ^ (max A.dmax B.dmax - A.dmax)))
          (stOf B.dmax B.cells (x / 4 ^ (max A.dmax B.dmax - B.dmax))) :=
  bmoc_or_general A B hA hB gA gB

/-- the documented table of `or` -/
theorem or_table : Tri.max .abs .full = .full ∧ Tri.max .part .abs = .part ∧ Tri.max .full .part = .full ∧
    Tri.max .abs .abs = .abs ∧ Tri.max .part .part = .part ∧ Tri.max .part .full = .full := by decide

/-! ## cross-operator laws (Kleene's de Morgan laws hold with partial flags) -/

/-- **de Morgan 1**: `(not a) or (not b)` never panics and denotes the same three-valued set as `not (a and b)` -/
theorem de_morgan_or_not (D : Nat) (hD : D ≤ 29) (a b : List Cell) (ha : WF D a) (hb : WF D b)
    (hra : ∀ c ∈ a, InR c) (hrb : ∀ c ∈ b, InR c) :
    ∃ l, orCellsUnpacked (notCells a) (notCells b) = some l ∧
      ∀ x, x < 12 * 4 ^ D → stOf D l x = stOf D (notCells (andCells a b)) x :=
  Hpx.Bmoc.de_morgan_or_not D hD a b ha hb hra hrb

/-- **de Morgan 2**: `(not a) and (not b)` denotes the same three-valued set as the complement of `a or b` -/
theorem de_morgan_and_not (D : Nat) (hD : D ≤ 29) (a b : List Cell) (ha : WF D a) (hb : WF D b)
    (hra : ∀ c ∈ a, InR c) (hrb : ∀ c ∈ b, InR c) (l : List Cell) (hl : orCellsUnpacked a b = some l)
    (x : Nat) (hx : x < 12 * 4 ^ D) :
    stOf D (andCells (notCells a) (notCells b)) x = stOf D (notCells l) x :=
  Hpx.Bmoc.de_morgan_and_not D hD a b ha hb hra hrb l hl x hx

/-- the hypotheses are met by two BMOCs with partial flags: `{0/0 p, 1/5 F}` and `{1/0 F, 1/4 p}` at depth 1 -/
example : WF 1 [⟨0, 0, false⟩, ⟨1, 5, true⟩] ∧ WF 1 [⟨1, 0, true⟩, ⟨1, 4, false⟩] ∧
    (∀ c ∈ [(⟨0, 0, false⟩ : Cell), ⟨1, 5, true⟩], InR c) ∧ (∀ c ∈ [(⟨1, 0, true⟩ : Cell), ⟨1, 4, false⟩], InR c) := by
  refine ⟨by simp [WF, lo, hi], by simp [WF, lo, hi], ?_, ?_⟩ <;>
  · intro c hc; simp only [List.mem_cons, List.not_mem_nil, or_false] at hc
    rcases hc with rfl | rfl <;> simp [InR]

/-- **`xor` through the other operators**: `a xor b` denotes the same three-valued set as `(a or b) and not (a and b)` -/
theorem xor_eq_or_and_not (D : Nat) (hD : D ≤ 29) (a b : List Cell) (ha : WF D a) (hb : WF D b)
    (hra : ∀ c ∈ a, InR c) (hrb : ∀ c ∈ b, InR c) (lo : List Cell) (hlo : orCellsUnpacked a b = some lo)
    (lx : List Cell) (hlx : xorCellsUnpacked a b = some lx) (x : Nat) (hx : x < 12 * 4 ^ D) :
    stOf D lx x = stOf D (andCells lo (notCells (andCells a b))) x :=
  Hpx.Bmoc.xor_eq_or_and_not D hD a b ha hb hra hrb lo hlo lx hlx x hx

end Hpx.C08
