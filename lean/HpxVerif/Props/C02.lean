import HpxVerif.Model.Hash
import HpxVerif.Lemmas.F64Lemmas
import HpxVerif.Lemmas.BitsLemmas
import HpxVerif.Props.C18
import HpxVerif.Lemmas.LayerBmi
import HpxVerif.Lemmas.SizeGen

set_option autoImplicit false   -- an unknown identifier in a statement is an error, never a new variable

/-!
# C02 — NESTED cell numbers are hierarchical across depths (exact prefix property)

`hash_v2` is `back end ∘ front end`: the front end `d0h_lh_in_d0c(lon, lat)` takes no depth (in the model by
construction; in the code it is an associated function without `self`), and the back end scales the two sums
`h + l`, `h − l` by `nside/2` through the exponent bits, truncates, clamps `nside` to `nside − 1` and interleaves.

Proved for **every pair of 64-bit patterns** `u, v` standing for the two sums (negative, NaN, zero, subnormal or a
positive number below 8 — `F64.Small`), every base cell and every `1 ≤ d ≤ d' ≤ 29`:
the depth-`d` cell number is the depth-`d'` cell number shifted right by `2(d' − d)` bits (`backend_prefix`), and the
same statement for the `Float` instance of `hash_v2` itself (`hash_prefix`), border points included — no hypothesis
on libm.  The hypothesis that both coordinates are at most `nside` after scaling is exactly the code's own
`debug_assert!(i < nside && j < nside)` (after the clamp).
Depth 0 is stated separately (`hash_prefix_depth0`): the depth-0 cell is the base cell, which is the top four bits of
every deeper cell number.
-/

namespace Hpx.C02
open Hpx Hpx.F64 Hpx.Layer

def clamp (n x : Nat) : Nat := if x == n then n - 1 else x

/-- the back end of `hash_v2` on the bit patterns of `h + l` and `h − l` -/
def backend (cfg : Cfg) (d d0h u v : Nat) : Option Nat :=
  let ns := nside d
  let i := clamp ns (truncU 32 (expAdd u (Hash.timeHalfNside d)))
  let j := clamp ns (truncU 32 (expAdd v (Hash.timeHalfNside d)))
  buildHashFromParts cfg d d0h i j

/-- `hash_v2` at `Float` is the back end applied to the bits produced by the (depth-free) front end -/
theorem hashV2_float (cfg : Cfg) (d : Nat) (lon lat : Float) :
    Hash.hashV2 cfg d lon lat =
      if !Proj.checkLat lat then none
      else backend cfg d (Hash.d0hLhInD0c lon lat).1
        (F.bits ((Hash.d0hLhInD0c lon lat).2.2 + (Hash.d0hLhInD0c lon lat).2.1))
        (F.bits ((Hash.d0hLhInD0c lon lat).2.2 - (Hash.d0hLhInD0c lon lat).2.1)) := by
  unfold Hash.hashV2 backend clamp
  rfl

theorem nside_eq (d : Nat) : nside d = 2 ^ d := by simp [nside, Nat.shiftLeft_eq]

theorem clamp_shift {d d' x : Nat} (hd : d ≤ d') (hx : x ≤ 2 ^ d') :
    clamp (2 ^ d) (x >>> (d' - d)) = clamp (2 ^ d') x >>> (d' - d) := by
  have hpow : 2 ^ d' = 2 ^ d * 2 ^ (d' - d) := by rw [← Nat.pow_add]; congr 1; omega
  have hpos : 0 < 2 ^ (d' - d) := Nat.two_pow_pos _
  have hposd : 0 < 2 ^ d := Nat.two_pow_pos _
  unfold clamp
  simp only [Nat.shiftRight_eq_div_pow, beq_iff_eq]
  by_cases h : x = 2 ^ d'
  · subst h
    have h1 : 2 ^ d' / 2 ^ (d' - d) = 2 ^ d := by rw [hpow]; exact Nat.mul_div_cancel _ hpos
    have h2 : (2 ^ d' - 1) / 2 ^ (d' - d) = 2 ^ d - 1 := by
      rw [hpow]
      generalize 2 ^ d = A at *
      generalize 2 ^ (d' - d) = B at *
      apply Nat.div_eq_of_lt_le
      · have : (A - 1) * B = A * B - B := by rw [Nat.sub_mul, Nat.one_mul]
        rw [this]; omega
      · have : (A - 1 + 1) = A := by omega
        rw [this]
        have : 0 < A * B := Nat.mul_pos hposd hpos
        omega
    simp [h1, h2]
  · have hlt : x < 2 ^ d' := by omega
    have h3 : x / 2 ^ (d' - d) < 2 ^ d := by
      rw [Nat.div_lt_iff_lt_mul hpos, ← hpow]; exact hlt
    have h4 : ¬ (x / 2 ^ (d' - d) = 2 ^ d) := by omega
    simp [h, h4]

theorem clamp_lt {d x : Nat} (hx : x ≤ 2 ^ d) : clamp (2 ^ d) x < 2 ^ d := by
  have := Nat.two_pow_pos d
  unfold clamp; split
  · omega
  · rename_i h; simp only [beq_iff_eq] at h; omega

/-- **hierarchy of the back end**, for every pair of small bit patterns and `1 ≤ d ≤ d' ≤ 29` (LUT build) -/
theorem backend_prefix (cfg : Cfg) (hbmi : cfg.bmi = false) (d d' d0h u v : Nat) (hd1 : 1 ≤ d) (hdd : d ≤ d')
    (hd' : d' ≤ 29) (hu : Small u) (hv : Small v)
    (hi : truncU 32 (expAdd u ((d' - 1 : Nat) : Int)) ≤ 2 ^ d') (hj : truncU 32 (expAdd v ((d' - 1 : Nat) : Int)) ≤ 2 ^ d') :
    ∃ c', backend cfg d' d0h u v = some c' ∧ backend cfg d d0h u v = some (c' >>> (2 * (d' - d))) := by
  have hth : Hash.timeHalfNside d = ((d - 1 : Nat) : Int) := by
    unfold Hash.timeHalfNside; have : d > 0 := by omega
    simp [this]; omega
  have hth' : Hash.timeHalfNside d' = ((d' - 1 : Nat) : Int) := by
    unfold Hash.timeHalfNside; have : d' > 0 := by omega
    simp [this]; omega
  -- raw indices and their prefix relation
  have pi := truncU_expAdd_prefix hu (d - 1) (d' - 1) (by omega) (by omega)
  have pj := truncU_expAdd_prefix hv (d - 1) (d' - 1) (by omega) (by omega)
  have hs : d' - 1 - (d - 1) = d' - d := by omega
  rw [hs] at pi pj
  generalize hI' : truncU 32 (expAdd u ((d' - 1 : Nat) : Int)) = I' at *
  generalize hJ' : truncU 32 (expAdd v ((d' - 1 : Nat) : Int)) = J' at *
  -- clamped indices
  have ci := clamp_shift hdd hi
  have cj := clamp_shift hdd hj
  have li' := clamp_lt hi
  have lj' := clamp_lt hj
  obtain ⟨⟨c1, hc1, hb1⟩, _⟩ := C18.get_zoc_sufficient d' hd'
  obtain ⟨⟨c0, hc0, hb0⟩, _⟩ := C18.get_zoc_sufficient d (by omega)
  have l32 : ∀ {x : Nat}, x < 2 ^ d' → x < 2 ^ 32 := fun h =>
    Nat.lt_of_lt_of_le h (Nat.pow_le_pow_right (by decide) (by omega))
  have e1 := C18.lut_ij2h_spec c1 (clamp (2 ^ d') I') (clamp (2 ^ d') J')
    (Nat.lt_of_lt_of_le li' (Nat.pow_le_pow_right (by decide) hb1))
    (Nat.lt_of_lt_of_le lj' (Nat.pow_le_pow_right (by decide) hb1))
  have hi0 : clamp (2 ^ d) (I' >>> (d' - d)) < 2 ^ d := by
    rw [ci]; rw [Nat.shiftRight_eq_div_pow, Nat.div_lt_iff_lt_mul (Nat.two_pow_pos _), ← Nat.pow_add]
    have : d + (d' - d) = d' := by omega
    rw [this]; exact li'
  have hj0 : clamp (2 ^ d) (J' >>> (d' - d)) < 2 ^ d := by
    rw [cj]; rw [Nat.shiftRight_eq_div_pow, Nat.div_lt_iff_lt_mul (Nat.two_pow_pos _), ← Nat.pow_add]
    have : d + (d' - d) = d' := by omega
    rw [this]; exact lj'
  have e0 := C18.lut_ij2h_spec c0 _ _
    (Nat.lt_of_lt_of_le hi0 (Nat.pow_le_pow_right (by decide) hb0))
    (Nat.lt_of_lt_of_le hj0 (Nat.pow_le_pow_right (by decide) hb0))
  refine ⟨(d0h <<< (d' <<< 1)) ||| interleave (clamp (2 ^ d') I') (clamp (2 ^ d') J'), ?_, ?_⟩
  · unfold backend buildHashFromParts zoc ij2h
    simp only [hbmi, hc1, hth', hI', hJ', nside_eq]
    simp [li', lj', e1]
  · unfold backend buildHashFromParts zoc ij2h
    simp only [hbmi, hc0, hth, nside_eq]
    rw [← pi, ← pj]
    simp only [Bool.false_eq_true, if_false, hi0, hj0, decide_true, Bool.and_self, Bool.not_true, Bool.and_false,
      e0, Option.some.injEq]
    -- shift the deeper cell number
    rw [ci, cj, ← interleave_shiftRight (l32 li') (l32 lj')]
    apply Nat.eq_of_testBit_eq; intro p
    generalize interleave (clamp (2 ^ d') I') (clamp (2 ^ d') J') = Z
    have ed : d <<< 1 = d * 2 := by rw [Nat.shiftLeft_eq, Nat.pow_one]
    have ed' : d' <<< 1 = d' * 2 := by rw [Nat.shiftLeft_eq, Nat.pow_one]
    rw [ed, ed']
    simp only [Nat.testBit_or, Nat.testBit_shiftRight, Nat.testBit_shiftLeft]
    by_cases hp : p ≥ d * 2
    · have h2 : 2 * (d' - d) + p ≥ d' * 2 := by omega
      have h3 : 2 * (d' - d) + p - d' * 2 = p - d * 2 := by omega
      simp [hp, h2, h3]
    · have h2 : ¬ (2 * (d' - d) + p ≥ d' * 2) := by omega
      simp [hp, h2]

/-- the same statement for `hash_v2` itself at `Float`: for any position, the cell number at depth `d` is the prefix
    of the cell number at depth `d'`, bit for bit -/
theorem hash_prefix (cfg : Cfg) (hbmi : cfg.bmi = false) (lon lat : Float) (d d' : Nat) (hd1 : 1 ≤ d) (hdd : d ≤ d')
    (hd' : d' ≤ 29) (hlat : Proj.checkLat lat = true)
    (hu : Small (F.bits ((Hash.d0hLhInD0c lon lat).2.2 + (Hash.d0hLhInD0c lon lat).2.1)))
    (hv : Small (F.bits ((Hash.d0hLhInD0c lon lat).2.2 - (Hash.d0hLhInD0c lon lat).2.1)))
    (hi : truncU 32 (expAdd (F.bits ((Hash.d0hLhInD0c lon lat).2.2 + (Hash.d0hLhInD0c lon lat).2.1)) ((d' - 1 : Nat) : Int)) ≤ 2 ^ d')
    (hj : truncU 32 (expAdd (F.bits ((Hash.d0hLhInD0c lon lat).2.2 - (Hash.d0hLhInD0c lon lat).2.1)) ((d' - 1 : Nat) : Int)) ≤ 2 ^ d') :
    ∃ c', Hash.hashV2 cfg d' lon lat = some c' ∧ Hash.hashV2 cfg d lon lat = some (c' >>> (2 * (d' - d))) := by
  rw [hashV2_float, hashV2_float]
  simp only [hlat, Bool.not_true, Bool.false_eq_true, if_false]
  exact backend_prefix cfg hbmi d d' _ _ _ hd1 hdd hd' hu hv hi hj

/-- depth 0: without debug assertions the depth-0 cell is the base cell delivered by the front end, whatever the
    two bit patterns are -/
theorem backend_depth0 (cfg : Cfg) (hbmi : cfg.bmi = false) (hdbg : cfg.debug = false) (d0h u v : Nat) :
    backend cfg 0 d0h u v = some d0h := by
  unfold backend buildHashFromParts zoc ij2h
  have : getZoc 0 = some ZocClass.empty := by decide
  simp [hbmi, hdbg, this, Lut.ij2h]

/-- … and the base cell is the top of every deeper cell number -/
theorem backend_top_bits (cfg : Cfg) (hbmi : cfg.bmi = false) (d' d0h u v c' : Nat) (hd1 : 1 ≤ d') (hd' : d' ≤ 29)
    (hi : truncU 32 (expAdd u ((d' - 1 : Nat) : Int)) ≤ 2 ^ d') (hj : truncU 32 (expAdd v ((d' - 1 : Nat) : Int)) ≤ 2 ^ d')
    (h : backend cfg d' d0h u v = some c') : c' >>> (2 * d') = d0h := by
  have hth' : Hash.timeHalfNside d' = ((d' - 1 : Nat) : Int) := by
    unfold Hash.timeHalfNside; have : d' > 0 := by omega
    simp [this]; omega
  obtain ⟨⟨c1, hc1, hb1⟩, _⟩ := C18.get_zoc_sufficient d' hd'
  have li' := clamp_lt hi
  have lj' := clamp_lt hj
  have e1 := C18.lut_ij2h_spec c1 _ _
    (Nat.lt_of_lt_of_le li' (Nat.pow_le_pow_right (by decide) hb1))
    (Nat.lt_of_lt_of_le lj' (Nat.pow_le_pow_right (by decide) hb1))
  have hlt := interleave_lt (d := d') (by omega) li' lj'
  unfold backend buildHashFromParts zoc ij2h at h
  simp only [hbmi, hc1, hth', nside_eq, Bool.false_eq_true, if_false, e1] at h
  simp only [li', lj', decide_true, Bool.and_self, Bool.not_true, Bool.and_false, Bool.false_eq_true, if_false,
    Option.some.injEq] at h
  subst h
  have ed' : d' <<< 1 = 2 * d' := by rw [Nat.shiftLeft_eq, Nat.pow_one]; omega
  rw [ed']
  have h4 : (4 : Nat) ^ d' = 2 ^ (2 * d') := by rw [Nat.pow_mul]
  rw [h4] at hlt
  rw [← Nat.shiftLeft_add_eq_or_of_lt hlt, Nat.shiftLeft_eq, Nat.shiftRight_eq_div_pow, Nat.mul_comm,
    Nat.mul_add_div (Nat.two_pow_pos _), Nat.div_eq_of_lt hlt]
  omega

/-- non-vacuity: the bit patterns of 1.25 and 0.5 are small, and the hypothesis on the scaled indices holds at
    depth 29 -/
example : Small 0x3FF4000000000000 ∧ Small 0x3FE0000000000000 ∧
    truncU 32 (expAdd 0x3FF4000000000000 28) ≤ 2 ^ 29 ∧ truncU 32 (expAdd 0x3FF4000000000000 28) >>> 26 = truncU 32 (expAdd 0x3FF4000000000000 2) := by
  refine ⟨?_, ?_, ?_, ?_⟩
  · unfold Small sgnF expF manF; decide
  · unfold Small sgnF expF manF; decide
  · decide +kernel
  · decide +kernel


/-! ## every build: the statements above that carry `cfg.bmi = false`, for every `cfg` (LUT tables or BMI2) -/

section AnyBuild
open Hpx Hpx.F64 Hpx.Layer Hpx.LayerBmi

theorem hashV2_noBmi {α : Type} [Num α] (cfg : Cfg) (d : Nat) (lon lat : α) : Hash.hashV2 cfg d lon lat = Hash.hashV2 (noBmi cfg) d lon lat := by
  unfold Hash.hashV2; simp only [buildHashFromParts_eq cfg]

theorem backend_noBmi (cfg : Cfg) (d d0h u v : Nat) : backend cfg d d0h u v = backend (noBmi cfg) d d0h u v := by
  unfold backend
  simp only [buildHashFromParts_eq cfg]

/-! ## C02 -/

theorem backend_prefix_any_build (cfg : Cfg) (d d' d0h u v : Nat) (hd1 : 1 ≤ d) (hdd : d ≤ d')
    (hd' : d' ≤ 29) (hu : Small u) (hv : Small v)
    (hi : truncU 32 (expAdd u ((d' - 1 : Nat) : Int)) ≤ 2 ^ d') (hj : truncU 32 (expAdd v ((d' - 1 : Nat) : Int)) ≤ 2 ^ d') :
    ∃ c', backend cfg d' d0h u v = some c' ∧ backend cfg d d0h u v = some (c' >>> (2 * (d' - d))) := by
  rw [backend_noBmi cfg d', backend_noBmi cfg d]
  exact Hpx.C02.backend_prefix (noBmi cfg) (noBmi_bmi cfg) d d' d0h u v hd1 hdd hd' hu hv hi hj

theorem hash_prefix_any_build (cfg : Cfg) (lon lat : Float) (d d' : Nat) (hd1 : 1 ≤ d) (hdd : d ≤ d')
    (hd' : d' ≤ 29) (hlat : Proj.checkLat lat = true)
    (hu : Small (F.bits ((Hash.d0hLhInD0c lon lat).2.2 + (Hash.d0hLhInD0c lon lat).2.1)))
    (hv : Small (F.bits ((Hash.d0hLhInD0c lon lat).2.2 - (Hash.d0hLhInD0c lon lat).2.1)))
    (hi : truncU 32 (expAdd (F.bits ((Hash.d0hLhInD0c lon lat).2.2 + (Hash.d0hLhInD0c lon lat).2.1)) ((d' - 1 : Nat) : Int)) ≤ 2 ^ d')
    (hj : truncU 32 (expAdd (F.bits ((Hash.d0hLhInD0c lon lat).2.2 - (Hash.d0hLhInD0c lon lat).2.1)) ((d' - 1 : Nat) : Int)) ≤ 2 ^ d') :
    ∃ c', Hash.hashV2 cfg d' lon lat = some c' ∧ Hash.hashV2 cfg d lon lat = some (c' >>> (2 * (d' - d))) := by
  rw [hashV2_noBmi cfg d', hashV2_noBmi cfg d]
  exact Hpx.C02.hash_prefix (noBmi cfg) (noBmi_bmi cfg) lon lat d d' hd1 hdd hd' hlat hu hv hi hj

theorem backend_depth0_any_build (cfg : Cfg) (hdbg : cfg.debug = false) (d0h u v : Nat) :
    backend cfg 0 d0h u v = some d0h := by
  rw [backend_noBmi]
  exact Hpx.C02.backend_depth0 (noBmi cfg) (noBmi_bmi cfg) hdbg d0h u v

theorem backend_top_bits_any_build (cfg : Cfg) (d' d0h u v c' : Nat) (hd1 : 1 ≤ d') (hd' : d' ≤ 29)
    (hi : truncU 32 (expAdd u ((d' - 1 : Nat) : Int)) ≤ 2 ^ d') (hj : truncU 32 (expAdd v ((d' - 1 : Nat) : Int)) ≤ 2 ^ d')
    (h : backend cfg d' d0h u v = some c') : c' >>> (2 * d') = d0h := by
  rw [backend_noBmi] at h
  exact Hpx.C02.backend_top_bits (noBmi cfg) (noBmi_bmi cfg) d' d0h u v c' hd1 hd' hi hj h

/-! ## C01 -/

end AnyBuild


/-! ## constants from the source (`Gen/SizeTables.lean`, regenerated on every run from `Layer::new`) -/

/-- every integer field of `Layer::new(depth)` (depth, nside, nside_minus_1, n_hash, twice_depth, d0h_mask, x_mask, y_mask,
    xy_mask, nside_remainder_mask), depth 0..29: the model's values are the ones the source computes -/
theorem layer_fields_from_source :
    (List.range 30).map Hpx.SizeGen.modelLayerFields = Gen.Size.layerFields := Hpx.SizeGen.layer_fields_from_source

/-- `time_half_nside` (the exponent increment of the scaling by `nside / 2`): `(depth − 1) << 52`, `−1 << 52` at depth 0 -/
theorem time_half_nside_from_source :
    (List.range 30).map (fun d => Hash.timeHalfNside d * 2 ^ 52) = Gen.Size.layerTimeHalfNside :=
  Hpx.SizeGen.time_half_nside_from_source

end Hpx.C02
