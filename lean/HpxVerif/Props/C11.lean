import HpxVerif.Model.Ring
import HpxVerif.Lemmas.NumReal

/-!
# C11 — RING scheme works for any NSIDE, not only powers of two

Proved for every `nside ≥ 1` (power of two or not):
* `ring_counts`: polar ring `i + 1` holds `4·(i + 1)` cells (`tri4 (i+1) − tri4 i`), and the two caps (`nside − 1` rings
  each) plus the `2·nside + 1` equatorial rings of `4·nside` cells make exactly `12·nside²` cells;
  `ring_no_overflow`: for `nside ≤ 2^29` every index stays below `2^63`;
* `ring_rejects`: `center_of_projected_cell`, `center`, `sph_coo`, `vertices` reject a cell number `≥ 12·nside²`,
  `ring_hash_rejects_bad_lat`: `hash` rejects a latitude outside `[−π/2, π/2]` (NaN included), for every numeric
  instance;
* over the reals: `dldh_to_dxdy_range` — offsets of the 1×1 box map to `(dx, dy) ∈ [0,1)²`.
Known finding F3 (polar-cap seams `lon = k·π/2`: phantom cell in the gap between Collignon triangles; subtraction
underflow) is recorded in `known_findings.json` with its input classifier.
Open statements: `ring_hash_plane_range`, `ring_hash_center`, `ring_hash_contains` (false on the seams on the unchanged
tree: F3), `ring_order`.
-/

namespace Hpx.C11
open Hpx Hpx.Ring

theorem tri4_eq (n : Nat) : tri4 n = 2 * (n * (n + 1)) := by
  unfold tri4; rw [Nat.shiftLeft_eq]; omega

/-- polar ring `i + 1` has `4 (i + 1)` cells, and the rings add up to `12·nside²` -/
theorem ring_counts (n : Nat) (hn : 1 ≤ n) :
    (∀ i, tri4 (i + 1) - tri4 i = 4 * (i + 1)) ∧ 2 * tri4 (n - 1) + (2 * n + 1) * (4 * n) = nHash n := by
  constructor
  · intro i; rw [tri4_eq, tri4_eq]
    have : (i + 1) * (i + 1 + 1) = i * (i + 1) + 2 * (i + 1) := by ring
    omega
  · obtain ⟨m, rfl⟩ : ∃ m, n = m + 1 := ⟨n - 1, by omega⟩
    simp only [Nat.add_sub_cancel, tri4_eq, nHash]
    ring

theorem ring_no_overflow (n : Nat) (hn : n ≤ 2 ^ 29) : nHash n < 2 ^ 63 ∧ tri4 n < 2 ^ 63 := by
  have h1 : n * n ≤ 2 ^ 29 * 2 ^ 29 := Nat.mul_le_mul hn hn
  have h2 : n * (n + 1) ≤ 2 ^ 29 * (2 ^ 29 + 1) := Nat.mul_le_mul hn (by omega)
  constructor
  · unfold nHash; rw [Nat.mul_assoc]; omega
  · rw [tri4_eq]; omega

theorem ring_rejects {α : Type} [Num α] (dbg : Bool) (n h : Nat) (hh : h ≥ nHash n) :
    centerOfProjectedCell (α := α) dbg n h = none ∧ center (α := α) dbg n h = none ∧
    vertices (α := α) dbg n h = none ∧ ∀ dx dy, sphCoo (α := α) dbg n h dx dy = none := by
  have h0 : centerOfProjectedCell (α := α) dbg n h = none := by unfold centerOfProjectedCell; simp [hh]
  refine ⟨h0, ?_, ?_, ?_⟩
  · unfold center; simp [h0]
  · unfold vertices; simp [h0]
  · intro dx dy; unfold sphCoo; split
    · rfl
    · split
      · rfl
      · simp [h0]

theorem ring_hash_rejects_bad_lat {α : Type} [Num α] (dbg : Bool) (n : Nat) (lon lat : α)
    (h : Proj.checkLat lat = false) : Ring.hash dbg n lon lat = none := by
  unfold Ring.hash hashWithDlDh Proj.proj; simp [h]

/-- over the reals: offsets of the 1×1 box map to `(dx, dy) ∈ [0, 1)²` -/
theorem dldh_to_dxdy_range (dl dh : ℝ) (h1 : 0 ≤ dl) (h2 : dl < 1) (h3 : 0 ≤ dh) (h4 : dh < 1) :
    0 ≤ (dldhToDxDy dl dh).1 ∧ (dldhToDxDy dl dh).1 < 1 ∧ 0 ≤ (dldhToDxDy dl dh).2 ∧ (dldhToDxDy dl dh).2 < 1 := by
  unfold dldhToDxDy
  have e1 : (Num.one : ℝ) = 1 := by show ((1 : ℕ) : ℝ) = 1; norm_num
  have e0 : (Num.zero : ℝ) = 0 := by show ((0 : ℕ) : ℝ) = 0; norm_num
  have lt_iff : ∀ a b : ℝ, Num.lt a b = true ↔ a < b := by intro a b; show decide (a < b) = true ↔ a < b; simp
  simp only [e1, e0]
  refine ⟨?_, ?_, ?_, ?_⟩ <;> (split <;> rename_i h <;> simp only [lt_iff] at h <;> linarith)

end Hpx.C11
