import HpxVerif.Model.Ring
import HpxVerif.Lemmas.NumReal
import HpxVerif.Lemmas.RingReal4
import HpxVerif.Lemmas.SqrtApprox4
import HpxVerif.Lemmas.RingSeams3

set_option autoImplicit false   -- an unknown identifier in a statement is an error, never a new variable

/-!
# C11 — RING scheme works for any NSIDE, not only powers of two

Proved for every `nside ≥ 1` (power of two or not):
* `ring_counts`: polar ring `i + 1` holds `4·(i + 1)` cells (`tri4 (i+1) − tri4 i`), and the two caps (`nside − 1` rings
  each) plus the `2·nside + 1` equatorial rings of `4·nside` cells make exactly `12·nside²` cells;
  `ring_no_overflow`: for `nside ≤ 2^29` every index stays below `2^63`;
* `ring_rejects`: `center_of_projected_cell`, `center`, `sph_coo`, `vertices` reject a cell number `≥ 12·nside²`,
  `ring_hash_rejects_bad_lat`: `hash` rejects a latitude outside `[−π/2, π/2]` (NaN included), for every numeric
  instance;
* over the reals: `dldh_to_dxdy_range` — offsets of the 1×1 box map to `(dx, dy) ∈ [0,1)²`.
Known finding F3 (polar-cap seams `lon = k·π/2`: phantom cell in the gap between Collignon triangles; subtraction
underflow) is recorded in `known_findings.json` with its input classifier.
**Over the reals, for every `1 ≤ nside < 2^30`** (second half of this file): `ring_center_plane` (closed form of every centre,
`4i` cells in polar ring `i`, `4·nside` in equatorial rings), `ring_order`, `ring_hash_center` (hashing the centre of `h`
returns `h` with offsets `(1/2, 1/2)`), `ring_hash_contains_partial` / `ring_hash_sphere_partial` (the returned cell
contains the point, everywhere except on the north-cap seams and pole), `ring_sph_coo_inverts`; finding F3 is
characterised exactly (`f3_seam_north_west_panics`, `f3_transition_corner_panics`).
-/

namespace Hpx.C11
open Hpx Hpx.Ring

theorem tri4_eq (n : Nat) : tri4 n = 2 * (n * (n + 1)) := by
  unfold tri4; rw [Nat.shiftLeft_eq]; omega

/-- polar ring `i + 1` has `4 (i + 1)` cells, and the rings add up to `12·nside²` -/
theorem ring_counts (n : Nat) (hn : 1 ≤ n) :
    (∀ i, tri4 (i + 1) - tri4 i = 4 * (i + 1)) ∧ 2 * tri4 (n - 1) + (2 * n + 1) * (4 * n) = nHash n := by
  constructor
  · intro i; rw [tri4_eq, tri4_eq]
    have : (i + 1) * (i + 1 + 1) = i * (i + 1) + 2 * (i + 1) := by ring
    omega
  · obtain ⟨m, rfl⟩ : ∃ m, n = m + 1 := ⟨n - 1, by omega⟩
    simp only [Nat.add_sub_cancel, tri4_eq, nHash]
    ring

theorem ring_no_overflow (n : Nat) (hn : n ≤ 2 ^ 29) : nHash n < 2 ^ 63 ∧ tri4 n < 2 ^ 63 := by
  have h1 : n * n ≤ 2 ^ 29 * 2 ^ 29 := Nat.mul_le_mul hn hn
  have h2 : n * (n + 1) ≤ 2 ^ 29 * (2 ^ 29 + 1) := Nat.mul_le_mul hn (by omega)
  constructor
  · unfold nHash; rw [Nat.mul_assoc]; omega
  · rw [tri4_eq]; omega

theorem ring_rejects {α : Type} [Num α] (dbg : Bool) (n h : Nat) (hh : h ≥ nHash n) :
    centerOfProjectedCell (α := α) dbg n h = none ∧ center (α := α) dbg n h = none ∧
    vertices (α := α) dbg n h = none ∧ ∀ dx dy, sphCoo (α := α) dbg n h dx dy = none := by
  have h0 : centerOfProjectedCell (α := α) dbg n h = none := by unfold centerOfProjectedCell; simp [hh]
  refine ⟨h0, ?_, ?_, ?_⟩
  · unfold center; simp [h0]
  · unfold vertices; simp [h0]
  · intro dx dy; unfold sphCoo; split
    · rfl
    · split
      · rfl
      · simp [h0]

theorem ring_hash_rejects_bad_lat {α : Type} [Num α] (dbg : Bool) (n : Nat) (lon lat : α)
    (h : Proj.checkLat lat = false) : Ring.hash dbg n lon lat = none := by
  unfold Ring.hash hashWithDlDh Proj.proj; simp [h]

/-- over the reals: offsets of the 1×1 box map to `(dx, dy) ∈ [0, 1)²` -/
theorem dldh_to_dxdy_range (dl dh : ℝ) (h1 : 0 ≤ dl) (h2 : dl < 1) (h3 : 0 ≤ dh) (h4 : dh < 1) :
    0 ≤ (dldhToDxDy dl dh).1 ∧ (dldhToDxDy dl dh).1 < 1 ∧ 0 ≤ (dldhToDxDy dl dh).2 ∧ (dldhToDxDy dl dh).2 < 1 := by
  unfold dldhToDxDy
  have e1 : (Num.one : ℝ) = 1 := by show ((1 : ℕ) : ℝ) = 1; norm_num
  have e0 : (Num.zero : ℝ) = 0 := by show ((0 : ℕ) : ℝ) = 0; norm_num
  have lt_iff : ∀ a b : ℝ, Num.lt a b = true ↔ a < b := by intro a b; show decide (a < b) = true ↔ a < b; simp
  simp only [e1, e0]
  refine ⟨?_, ?_, ?_, ?_⟩ <;> (split <;> rename_i h <;> simp only [lt_iff] at h <;> linarith)

/-! ## index arithmetic and containment over the reals, for EVERY nside

Vocabulary of `Lemmas/RingReal*.lean`: rings are numbered `r = 0 .. 4n−2` from the north; ring `r` holds
`4·perFacet n r` cells starting at `ringStart n r`; cell `i` of it has its centre at `(cxI n r i / n, cyI n r / n)`;
`hashPlane` is the body of `hash_with_dldh` after `proj`; `GoodPoint X Y` = the projected domain minus the two slanted
edges of the north Collignon triangles and the north pole (where the statement is false: finding F3, characterised
exactly by the two `f3_*` theorems below); `RingIndexExact n` = the polar ring index is exact below `tri4 n`, which
`ringIndexExact_of_approx` derives from "the float square-root estimate is within 4 of the truth". -/

section RingPlane
open Hpx Hpx.Ring Hpx.Proj Hpx.RingReal Real

/-- `RingIndexExact` holds whenever the float estimate is within 4 of the true ring index -/
theorem ringIndexExact_of_approx (n : Nat)
    (happ : ∀ x t, x < tri4 n → tri4 t ≤ x → x < tri4 (t + 1) →
      Layer.polarRingApprox x ≤ t + 4 ∧ t ≤ Layer.polarRingApprox x + 4) : RingIndexExact n :=
  Hpx.RingReal.ringIndexExact_of_approx n happ

/-- ring `r` holds `4·perFacet n r` cells: `4(r+1)` in the north cap, `4n` in the equatorial band (transition rings
    included), `4(4n−1−r)` in the south cap -/
theorem ring_cell_count {n r : Nat} (hn : 1 ≤ n) (hr : r < 4 * n - 1) :
    ringStart n (r + 1) - ringStart n r = 4 * perFacet n r ∧
    (r + 1 < n → perFacet n r = r + 1) ∧ (n ≤ r + 1 → r < 3 * n → perFacet n r = n) ∧
    (3 * n ≤ r → perFacet n r = 4 * n - 1 - r) :=
  Hpx.RingReal.ring_cell_count hn hr

/-- `ring_center_plane` (task item 1): for every `nside = n ≥ 1` and every cell `h < 12 n²` the centre is defined
    (no panic, in both profiles) and has the closed form `(cxI n r i / n, cyI n r / n)` where `(r, i)` is the (unique)
    ring decomposition `h = ringStart n r + i`; `0 ≤ x < 8`, `−2 < y < 2`, `y·n ∈ ℤ` (`cyI = 2n − 1 − r`). -/
theorem ring_center_plane (debug : Bool) {n : Nat} (hn : 1 ≤ n) (hn30 : n < 2 ^ 30) (hRI : RingIndexExact n)
    (h : Nat) (hh : h < 12 * n * n) :
    ∃ r i, r < 4 * n - 1 ∧ i < 4 * perFacet n r ∧ h = ringStart n r + i ∧
      centerOfProjectedCell (α := ℝ) debug n h = some ((cxI n r i : ℝ) / n, (cyI n r : ℝ) / n) ∧
      0 ≤ (cxI n r i : ℝ) / n ∧ (cxI n r i : ℝ) / n < 8 ∧ -2 < (cyI n r : ℝ) / n ∧ (cyI n r : ℝ) / n < 2 ∧
      (cyI n r : ℝ) / n * n = ((2 * (n : ℤ) - 1 - r : ℤ) : ℝ) :=
  Hpx.RingReal.ring_center_plane debug hn hn30 hRI h hh

/-- `ring_order` (task item 2): for `h < h' < 12 n²` the centre of `h` is strictly north of the centre of `h'`, or at
    the same ordinate and strictly west of it.  (`y ↦ lat` and, at fixed `y`, `x ↦ lon` are monotone.) -/
theorem ring_order (debug : Bool) {n : Nat} (hn : 1 ≤ n) (hn30 : n < 2 ^ 30) (hRI : RingIndexExact n)
    (h h' : Nat) (hlt : h < h') (hh' : h' < 12 * n * n) :
    ∃ cx cy cx' cy' : ℝ, centerOfProjectedCell (α := ℝ) debug n h = some (cx, cy) ∧
      centerOfProjectedCell (α := ℝ) debug n h' = some (cx', cy') ∧ (cy' < cy ∨ (cy' = cy ∧ cx < cx')) :=
  Hpx.RingReal.ring_order debug hn hn30 hRI h h' hlt hh'

/-- `hash_with_dldh` is `proj` followed by the plane function -/
theorem hash_is_proj_then_plane {α : Type} [Num α] (debug : Bool) (nside : Nat) (lon lat : α) :
    hashWithDlDh debug nside lon lat = (proj lon lat).bind (fun xy => hashPlane debug nside xy.1 xy.2) :=
  Hpx.RingReal.hashWithDlDh_eq debug nside lon lat

/-- `ring_hash_center` (task item 3): for every `nside = n ≥ 1` and every cell `h < 12 n²`, hashing the centre of `h`
    (in the plane) returns `h` in both profiles; the box offsets returned are `(dl, dh) = (1/2, 0)` or `(0, 1/2)`, which
    `dldh_to_dxdy` maps to the centre `(dx, dy) = (1/2, 1/2)` of the cell -/
theorem ring_hash_center (debug : Bool) {n : Nat} (hn : 1 ≤ n) (hn30 : n < 2 ^ 30) (hRI : RingIndexExact n)
    (h : Nat) (hh : h < 12 * n * n) :
    ∃ cx cy dl dh : ℝ, centerOfProjectedCell (α := ℝ) debug n h = some (cx, cy) ∧
      hashPlane debug n cx cy = some (h, dl, dh) ∧ ((dl, dh) = (1 / 2, 0) ∨ (dl, dh) = (0, 1 / 2)) ∧
      dldhToDxDy dl dh = (1 / 2, 1 / 2) :=
  Hpx.RingReal.ring_hash_center debug hn hn30 hRI h hh

/-- `ring_hash_plane_range` + `ring_hash_contains`, **partial** (task item 4): for every `nside = n ≥ 1` and every
    `GoodPoint` of the projection plane, `hashPlane` returns (in both profiles) a cell number `h < 12 n²` and box
    offsets in `[0,1)²`, and the closed diamond of half-diagonal `1/n` around the centre of `h` contains the point
    (modulo 8 in `x`: the cells centred on `x = 0` straddle the cut `x = 0 ≡ 8`).
    What is missing with respect to the full statement: the points of the projected domain that are not `GoodPoint`s,
    i.e. the seams between the polar-cap facets and the two poles.  The statement is FALSE there (finding F3), see
    `hashPlane_seam_north_west`, `seam_witness_*` below. -/
theorem ring_hash_contains_partial (debug : Bool) {n : Nat} (hn : 1 ≤ n) (hn30 : n < 2 ^ 30) (hRI : RingIndexExact n)
    {X Y : ℝ} (hg : GoodPoint X Y) :
    ∃ (h : ℕ) (dl dh cx cy : ℝ), hashPlane debug n X Y = some (h, dl, dh) ∧ h < 12 * n * n ∧
      0 ≤ dl ∧ dl < 1 ∧ 0 ≤ dh ∧ dh < 1 ∧ centerOfProjectedCell (α := ℝ) debug n h = some (cx, cy) ∧
      (|X - cx| + |Y - cy| ≤ 1 / n ∨ |X - 8 - cx| + |Y - cy| ≤ 1 / n) :=
  Hpx.RingReal.ring_hash_contains_partial debug hn hn30 hRI hg

/-- `ring_sph_coo_inverts` (task item 5), in the plane: on a `GoodPoint`, if `hash_with_dxdy` returns `(h, dx, dy)` then
    `sph_coo(h, dx, dy)` is defined and is `unproj` of the original plane point (the offsets are automatically in
    `[0,1)²` there; at a pole `hash_with_dldh` returns `(dl, dh) = (1, 1)`, i.e. `dx = 1`, which `sph_coo` rejects). -/
theorem ring_sph_coo_inverts (debug : Bool) {n : Nat} (hn : 1 ≤ n) (hn30 : n < 2 ^ 30) (hRI : RingIndexExact n)
    {X Y : ℝ} (hg : GoodPoint X Y) (h : ℕ) (dx dy : ℝ) (hh : hashPlaneDxDy debug n X Y = some (h, dx, dy)) :
    sphCoo debug n h dx dy = unproj X Y ∧ 0 ≤ dx ∧ dx < 1 ∧ 0 ≤ dy ∧ dy < 1 :=
  Hpx.RingReal.ring_sph_coo_inverts debug hn hn30 hRI hg h dx dy hh

/-- **F3, exact failure set on the west seam of facet 0**: for every `n ≥ 2`, every point of the edge `x = y − 1` of the
    first north triangle below the last ring (`1 ≤ y < 2 − 1/n`; on the sphere: `lon = 0`, `asin(2/3) ≤ lat`) makes the
    dev profile panic -/
theorem f3_seam_north_west_panics {n : Nat} (hn2 : 2 ≤ n) (hn30 : n < 2 ^ 30) {Y : ℝ} (h1 : 1 ≤ Y)
    (h2 : (n : ℝ) * Y < 2 * n - 1) : hashPlane true n (Y - 1) Y = none :=
  Hpx.RingReal.hashPlane_seam_north_west hn2 hn30 h1 h2

/-- **F3 on the sphere, exact witness for every `n ≥ 2`**: `ring::hash(nside, 0, asin(2/3))` panics in the dev profile
    (the point is the corner shared by base cells 0, 3, 4: it is in the *equatorial* region for the code's test
    `|lat| ≤ TRANSITION_LATITUDE`, and on the west seam of facet 0) -/
theorem f3_transition_corner_panics {n : Nat} (hn2 : 2 ≤ n) (hn30 : n < 2 ^ 30) :
    Ring.hash true n (0 : ℝ) (Real.arcsin (2 / 3)) = none :=
  Hpx.RingReal.ring_hash_corner_panics hn2 hn30

/-- **`ring_hash_contains` on the sphere, partial** (items 4/5 composed with `proj`): for every `nside = n ≥ 1`, every
    `0 ≤ lon < 2π` and every latitude, EXCEPT on the north-cap seams (`lat ≥ asin(2/3)` and `lon ∈ {0, π/2, π, 3π/2}`)
    and at the north pole, `ring::hash(n, lon, lat)` returns — in both profiles — a cell `h < 12 n²` whose closed diamond
    (half-diagonal `1/n` around `center_of_projected_cell(n, h)`, modulo 8 in `x`) contains `proj(lon, lat)`.
    The exception is finding F3 (`ring_hash_corner_panics`, `hashPlane_seam_north_west`); what is missing is only the
    statement on the excepted set, where it is false. -/
theorem ring_hash_sphere_partial (debug : Bool) {n : Nat} (hn : 1 ≤ n) (hn30 : n < 2 ^ 30) (hRI : RingIndexExact n)
    (lon lat : ℝ) (hlon0 : 0 ≤ lon) (hlon1 : lon < 2 * π) (hlat0 : -(π / 2) ≤ lat) (hlat1 : lat ≤ π / 2)
    (hseam : lat < Real.arcsin (2 / 3) ∨ (lat < π / 2 ∧ ∀ k : ℕ, lon ≠ k * (π / 2))) :
    ∃ (X Y : ℝ) (h : ℕ) (cx cy : ℝ), proj (α := ℝ) lon lat = some (X, Y) ∧ Ring.hash debug n lon lat = some h ∧
      h < 12 * n * n ∧ centerOfProjectedCell (α := ℝ) debug n h = some (cx, cy) ∧
      (|X - cx| + |Y - cy| ≤ 1 / n ∨ |X - 8 - cx| + |Y - cy| ≤ 1 / n) :=
  Hpx.RingReal.ring_hash_sphere_partial debug hn hn30 hRI lon lat hlon0 hlon1 hlat0 hlat1 hseam

/-- **round trip on the northern hemisphere**: `sph_coo ∘ hash_with_dxdy = id` for `0 ≤ lon < 2π`, `0 ≤ lat` on the near
    side of the pole threshold of `unproj` (`√6·cos(lat/2 + π/4) > EPS_POLE`), off the north-cap seams -/
theorem ring_sph_coo_roundtrip_north (debug : Bool) {n : Nat} (hn : 1 ≤ n) (hn30 : n < 2 ^ 30) (hRI : RingIndexExact n)
    (lon lat : ℝ) (hlon0 : 0 ≤ lon) (hlon1 : lon < 2 * π) (hlat0 : 0 ≤ lat) (hlat1 : lat ≤ π / 2)
    (hpole : (Num.epsPole : ℝ) < Real.sqrt 6 * Real.cos (1 / 2 * lat + π / 4))
    (hseam : lat < Real.arcsin (2 / 3) ∨ (lat < π / 2 ∧ ∀ k : ℕ, lon ≠ k * (π / 2))) :
    ∃ (h : ℕ) (dx dy : ℝ), hashWithDxDy debug n lon lat = some (h, dx, dy) ∧ sphCoo debug n h dx dy = some (lon, lat) :=
  Hpx.RingReal.ring_sph_coo_roundtrip_north debug hn hn30 hRI lon lat hlon0 hlon1 hlat0 hlat1 hpole hseam

/-- at the north pole of facet `q` (plane point `(2q+1, 2)`) the code takes its "north pole" exit: cell `q` (the first
    ring), with the conventional offsets `(dl, dh) = (1, 1)`, i.e. `(dx, dy) = (1, 0)` — which `sph_coo` rejects.  The
    cell is the right one (the pole is the north vertex of the four cells of the first ring). -/
theorem ring_hash_pole (debug : Bool) {n q : Nat} (hn : 1 ≤ n) (hn30 : n < 2 ^ 30) (hq : q < 4) :
    hashPlane debug n ((2 * q + 1 : ℕ) : ℝ) 2 = some (q, 1, 1) :=
  Hpx.RingReal.ring_hash_pole debug hn hn30 hq


end RingPlane

/-- **the ring-index hypothesis of the theorems above holds for every `nside ≤ 2^29`** (power of two or not): the
    `f64` estimate followed by the integer correction loops is the exact polar ring index (from the accuracy theorem of
    the square-root estimate, C10 `sqrt_estimate_accuracy`) -/
theorem ring_index_exact (n : Nat) (hn : n ≤ 2 ^ 29) : Hpx.RingReal.RingIndexExact n := Hpx.SqrtApprox.ringIndexExact n hn


/-! ## unconditional statements (the polar ring index is exact for every `nside < 2^30`: the accuracy of the `f64` square
root is proved on the whole `u64` range) and the EXACT failure set on the whole sphere (finding F3)

`F3Set n lon lat`: the four meridians `lon = k·π/2` of the north cap, from the transition latitude (inclusive) up to, but
excluding, the last ring; empty for `nside = 1`.  `ring_hash_correct_iff`: `ring::hash` returns a cell containing the
point IF AND ONLY IF the position is not in `F3Set` - on `lon = 0` the dev profile panics, on the three other meridians both
profiles silently return a cell of the neighbouring base cell that misses the point; the south cap, both poles and the
last ring are correct (`ring_hash_seam_south`, `ring_hash_south_pole`).  `ring_hash_seam_north_spec` gives the behaviour
on both edges of every north triangle in the plane (the east edges are reached from negative longitudes only). -/

section Unconditional
open Hpx Hpx.Ring Hpx.Proj Hpx.RingReal Hpx.RingSeams Hpx.Layer Hpx.SqrtApprox Real

/-- **T1**: the polar ring index computed by the code (`f64` square-root estimate + integer correction loops) is the
    exact one below `tri4 n`, for every `1 ≤ n < 2^30` (power of two or not) — the hypothesis `hRI` of the theorems of
    `Props/C11.lean`, on their whole range -/
theorem ring_index_exact_holds (n : Nat) (_hn : 1 ≤ n) (hn' : n < 2 ^ 30) : RingIndexExact n :=
  Hpx.RingSeams.ringIndexExact_holds n _hn hn'

/-- **`⌊√y⌋ − 1 ≤ isqrtF64 y ≤ ⌊√y⌋ + 2` for every `0 < y < 2^64`** (the whole `u64` range; `SqrtApprox.isqrtF64_sharp`
    has the sharp bound below `2^61`) -/
theorem isqrtF64_bounds64 (y : Nat) (h0 : 0 < y) (hy : y < 2 ^ 64) :
    y.sqrt ≤ isqrtF64 y + 1 ∧ isqrtF64 y ≤ y.sqrt + 2 :=
  Hpx.RingSeams.isqrtF64_bounds64 y h0 hy

theorem ring_hash_center_uncond (debug : Bool) {n : Nat} (hn : 1 ≤ n) (hN : n < 2 ^ 30)
    (h : Nat) (hh : h < 12 * n * n) :
    ∃ cx cy dl dh : ℝ, centerOfProjectedCell (α := ℝ) debug n h = some (cx, cy) ∧
      hashPlane debug n cx cy = some (h, dl, dh) ∧ ((dl, dh) = (1 / 2, 0) ∨ (dl, dh) = (0, 1 / 2)) ∧
      dldhToDxDy dl dh = (1 / 2, 1 / 2) :=
  Hpx.RingSeams.ring_hash_center_uncond debug hn hN h hh

theorem ring_hash_contains_partial_uncond (debug : Bool) {n : Nat} (hn : 1 ≤ n) (hN : n < 2 ^ 30)
    {X Y : ℝ} (hg : GoodPoint X Y) :
    ∃ (h : ℕ) (dl dh cx cy : ℝ), hashPlane debug n X Y = some (h, dl, dh) ∧ h < 12 * n * n ∧
      0 ≤ dl ∧ dl < 1 ∧ 0 ≤ dh ∧ dh < 1 ∧ centerOfProjectedCell (α := ℝ) debug n h = some (cx, cy) ∧
      (|X - cx| + |Y - cy| ≤ 1 / n ∨ |X - 8 - cx| + |Y - cy| ≤ 1 / n) :=
  Hpx.RingSeams.ring_hash_contains_partial_uncond debug hn hN hg

theorem ring_sph_coo_inverts_uncond (debug : Bool) {n : Nat} (hn : 1 ≤ n) (hN : n < 2 ^ 30)
    {X Y : ℝ} (hg : GoodPoint X Y) (h : ℕ) (dx dy : ℝ) (hh : hashPlaneDxDy debug n X Y = some (h, dx, dy)) :
    sphCoo debug n h dx dy = unproj X Y ∧ 0 ≤ dx ∧ dx < 1 ∧ 0 ≤ dy ∧ dy < 1 :=
  Hpx.RingSeams.ring_sph_coo_inverts_uncond debug hn hN hg h dx dy hh

theorem ring_hash_sphere_partial_uncond (debug : Bool) {n : Nat} (hn : 1 ≤ n) (hN : n < 2 ^ 30)
    (lon lat : ℝ) (hlon0 : 0 ≤ lon) (hlon1 : lon < 2 * π) (hlat0 : -(π / 2) ≤ lat) (hlat1 : lat ≤ π / 2)
    (hseam : lat < Real.arcsin (2 / 3) ∨ (lat < π / 2 ∧ ∀ k : ℕ, lon ≠ k * (π / 2))) :
    ∃ (X Y : ℝ) (h : ℕ) (cx cy : ℝ), proj (α := ℝ) lon lat = some (X, Y) ∧ Ring.hash debug n lon lat = some h ∧
      h < 12 * n * n ∧ centerOfProjectedCell (α := ℝ) debug n h = some (cx, cy) ∧
      (|X - cx| + |Y - cy| ≤ 1 / n ∨ |X - 8 - cx| + |Y - cy| ≤ 1 / n) :=
  Hpx.RingSeams.ring_hash_sphere_partial_uncond debug hn hN lon lat hlon0 hlon1 hlat0 hlat1 hseam

theorem ring_sph_coo_roundtrip_north_uncond (debug : Bool) {n : Nat} (hn : 1 ≤ n) (hN : n < 2 ^ 30)
    (lon lat : ℝ) (hlon0 : 0 ≤ lon) (hlon1 : lon < 2 * π) (hlat0 : 0 ≤ lat) (hlat1 : lat ≤ π / 2)
    (hpole : (Num.epsPole : ℝ) < Real.sqrt 6 * Real.cos (1 / 2 * lat + π / 4))
    (hseam : lat < Real.arcsin (2 / 3) ∨ (lat < π / 2 ∧ ∀ k : ℕ, lon ≠ k * (π / 2))) :
    ∃ (h : ℕ) (dx dy : ℝ), hashWithDxDy debug n lon lat = some (h, dx, dy) ∧ sphCoo debug n h dx dy = some (lon, lat) :=
  Hpx.RingSeams.ring_sph_coo_roundtrip_north_uncond debug hn hN lon lat hlon0 hlon1 hlat0 hlat1 hpole hseam

theorem ring_order_uncond (debug : Bool) {n : Nat} (hn : 1 ≤ n) (hN : n < 2 ^ 30)
    (h h' : Nat) (hlt : h < h') (hh' : h' < 12 * n * n) :
    ∃ cx cy cx' cy' : ℝ, centerOfProjectedCell (α := ℝ) debug n h = some (cx, cy) ∧
      centerOfProjectedCell (α := ℝ) debug n h' = some (cx', cy') ∧ (cy' < cy ∨ (cy' = cy ∧ cx < cx')) :=
  Hpx.RingSeams.ring_order_uncond debug hn hN h h' hlt hh'

theorem ring_center_plane_uncond (debug : Bool) {n : Nat} (hn : 1 ≤ n) (hN : n < 2 ^ 30)
    (h : Nat) (hh : h < 12 * n * n) :
    ∃ r i, r < 4 * n - 1 ∧ i < 4 * perFacet n r ∧ h = ringStart n r + i ∧
      centerOfProjectedCell (α := ℝ) debug n h = some ((cxI n r i : ℝ) / n, (cyI n r : ℝ) / n) ∧
      0 ≤ (cxI n r i : ℝ) / n ∧ (cxI n r i : ℝ) / n < 8 ∧ -2 < (cyI n r : ℝ) / n ∧ (cyI n r : ℝ) / n < 2 ∧
      (cyI n r : ℝ) / n * n = ((2 * (n : ℤ) - 1 - r : ℤ) : ℝ) :=
  Hpx.RingSeams.ring_center_plane_uncond debug hn hN h hh

/-- **`ring_hash_seam_north_spec`** — the exact behaviour of the plane part of `ring::hash` on the two slanted edges of
    the north Collignon triangle `q` (`q = 0..3`, `1 ≤ y < 2`), for every `1 ≤ nside = n < 2^30`, in the dev profile
    (`debug = true`, `none` = panic) and in the release profile:

    WEST edge `x = 2q + (y − 1)` (on the sphere: `lon = q·π/2`):
    * last ring, `2 − 1/n ≤ y` (the whole edge when `n = 1`): cell `q`, offsets `(1,1)`, both profiles — CORRECT;
    * below, `q = 0`: dev profile PANICS; release returns a WRONG answer (`2^64 − 1` or a cell that misses the point);
    * below, `q ≥ 1`: both profiles return, silently, a WRONG cell (the last cell of facet `q − 1` of the ring).
    EAST edge `x = 2q + 2 − (y − 1)`, `1 < y` (on the sphere: `lon = −(3−q)·π/2`, not reached from `lon ∈ [0, 2π)`; at
    `y = 1` the point is the west-edge point of facet `q + 1`):
    * last ring, `n ≥ 2`: cell `q`, offsets `(1,1)`, both profiles — CORRECT;
    * `n = 1`: cell `q + 1` (4 for `q = 3`), both profiles — WRONG;
    * below the last ring: both profiles return, silently, a WRONG cell. -/
theorem ring_hash_seam_north_spec {n q : ℕ} (hn : 1 ≤ n) (hN : n < 2 ^ 30) (hq : q < 4) {Y : ℝ} (h1 : 1 ≤ Y) (h2 : Y < 2) :
    -- west edge
    ((2 * (n : ℝ) - 1 ≤ n * Y → ∀ debug, hashPlane debug n (2 * q + (Y - 1)) Y = some (q, 1, 1) ∧
        Contains debug n q (2 * q + (Y - 1)) Y) ∧
     ((n : ℝ) * Y < 2 * n - 1 → q = 0 → hashPlane true n (2 * q + (Y - 1)) Y = none ∧
        ∃ (h : ℕ) (dl dh : ℝ), hashPlane false n (2 * q + (Y - 1)) Y = some (h, dl, dh) ∧
          Misses false n h (2 * q + (Y - 1)) Y) ∧
     ((n : ℝ) * Y < 2 * n - 1 → 1 ≤ q → ∀ debug, ∃ (h : ℕ) (dl dh : ℝ),
        hashPlane debug n (2 * q + (Y - 1)) Y = some (h, dl, dh) ∧ h < 12 * n * n ∧
          Misses debug n h (2 * q + (Y - 1)) Y)) ∧
    -- east edge
    (1 < Y →
     (2 * (n : ℝ) - 1 ≤ n * Y → 2 ≤ n → ∀ debug, hashPlane debug n (2 * q + 2 - (Y - 1)) Y = some (q, 1, 1) ∧
        Contains debug n q (2 * q + 2 - (Y - 1)) Y) ∧
     (n = 1 → ∀ debug, hashPlane debug n (2 * q + 2 - (Y - 1)) Y = some (q + 1, 1, 1) ∧
        Misses debug n (q + 1) (2 * q + 2 - (Y - 1)) Y) ∧
     ((n : ℝ) * Y < 2 * n - 1 → ∀ debug, ∃ (h : ℕ) (dl dh : ℝ),
        hashPlane debug n (2 * q + 2 - (Y - 1)) Y = some (h, dl, dh) ∧ h < 12 * n * n ∧
          Misses debug n h (2 * q + 2 - (Y - 1)) Y)) :=
  Hpx.RingSeams.ring_hash_seam_north_spec hn hN hq h1 h2

/-- **south-cap seams**: on the two slanted edges of the south triangle `q` (`|x − (2q+1)| = 2 + y`, `−2 ≤ y < −1`, the
    south pole included) `hash_with_dldh` returns, in both profiles, a cell whose closed diamond contains the point
    (a diamond owns its two southern edges, and the seams are southern edges of cells of the triangle) -/
theorem ring_hash_seam_south (debug : Bool) {n q : ℕ} (hn : 1 ≤ n) (hN : n < 2 ^ 30) (hq : q < 4) {X Y : ℝ}
    (h1 : -2 ≤ Y) (h2 : Y < -1) (hX : X = 2 * q + 1 - (2 + Y) ∨ X = 2 * q + 1 + (2 + Y)) :
    ∃ (h : ℕ) (dl dh : ℝ), hashPlane debug n X Y = some (h, dl, dh) ∧ 0 ≤ dl ∧ dl < 1 ∧ 0 ≤ dh ∧ dh < 1 ∧
      Contains debug n h X Y :=
  Hpx.RingSeams.ring_hash_seam_south debug hn hN hq h1 h2 hX

/-- **the south pole** of facet `q` (plane point `(2q+1, −2)`): `hash_with_dldh` returns, in both profiles, cell
    `12n² − 4 + q` of the last ring — the right one (the pole is its south vertex), with regular offsets in `[0,1)²`
    (unlike the north pole, `ring_hash_pole`, which takes a special exit with offsets `(1,1)`) -/
theorem ring_hash_south_pole (debug : Bool) {n q : ℕ} (hn : 1 ≤ n) (hN : n < 2 ^ 30) (hq : q < 4) :
    ∃ dl dh : ℝ, hashPlane debug n ((2 * q + 1 : ℕ) : ℝ) (-2) = some (12 * n * n - 4 + q, dl, dh) ∧
      0 ≤ dl ∧ dl < 1 ∧ 0 ≤ dh ∧ dh < 1 ∧ dldhToDxDy dl dh = (0, 0) ∧
      Contains debug n (12 * n * n - 4 + q) ((2 * q + 1 : ℕ) : ℝ) (-2) :=
  Hpx.RingSeams.ring_hash_south_pole debug hn hN hq

/-- **`ring_hash_sphere_total`** — `ring::hash` on the WHOLE sphere, for every `1 ≤ nside = n < 2^30` (power of two or
    not), every `0 ≤ lon < 2π`, every latitude, in both profiles: EITHER the point is in the explicit failure set
    `F3Set n lon lat` (where the answer is wrong, `ring_hash_f3_wrong`), OR `ring::hash` returns a cell `h < 12 n²` whose
    closed diamond contains the projected point (the conclusion of `ring_hash_sphere_partial`).  With respect to
    `ring_hash_sphere_partial` this adds: the north pole, and the part of the four seams that lies in the last ring. -/
theorem ring_hash_sphere_total (debug : Bool) {n : ℕ} (hn : 1 ≤ n) (hN : n < 2 ^ 30)
    (lon lat : ℝ) (hlon0 : 0 ≤ lon) (hlon1 : lon < 2 * π) (hlat0 : -(π / 2) ≤ lat) (hlat1 : lat ≤ π / 2) :
    F3Set n lon lat ∨ HashCorrect debug n lon lat :=
  Hpx.RingSeams.ring_hash_sphere_total debug hn hN lon lat hlon0 hlon1 hlat0 hlat1

/-- **the failure set is exact** (not an over-approximation): on every point of `F3Set`, for every `1 ≤ n < 2^30`,
    `ring::hash` gives a wrong answer in BOTH profiles; on the meridian `lon = 0` the dev profile panics (and the release
    profile returns `2^64 − 1` or a far cell), on the three others both profiles silently return a cell of the
    neighbouring base cell that does not contain the point -/
theorem ring_hash_f3_wrong {n : ℕ} (hn : 1 ≤ n) (hN : n < 2 ^ 30) {lon lat : ℝ} (hf : F3Set n lon lat) :
    (lon = 0 → Ring.hash true n lon lat = none) ∧ (lon ≠ 0 → ∃ h, Ring.hash true n lon lat = some h ∧ h < 12 * n * n) ∧
    ∀ debug, HashWrong debug n lon lat :=
  Hpx.RingSeams.ring_hash_f3_wrong hn hN hf

/-- the dichotomy is exclusive: **`ring::hash` is correct at `(lon, lat)` if and only if the point is not in `F3Set`** -/
theorem ring_hash_correct_iff (debug : Bool) {n : ℕ} (hn : 1 ≤ n) (hN : n < 2 ^ 30)
    (lon lat : ℝ) (hlon0 : 0 ≤ lon) (hlon1 : lon < 2 * π) (hlat0 : -(π / 2) ≤ lat) (hlat1 : lat ≤ π / 2) :
    HashCorrect debug n lon lat ↔ ¬ F3Set n lon lat :=
  Hpx.RingSeams.ring_hash_correct_iff debug hn hN lon lat hlon0 hlon1 hlat0 hlat1

/-- for `nside = 1` `ring::hash` is correct on the whole sphere (`0 ≤ lon < 2π`) -/
theorem ring_hash_sphere_nside_one (debug : Bool) (lon lat : ℝ) (hlon0 : 0 ≤ lon) (hlon1 : lon < 2 * π)
    (hlat0 : -(π / 2) ≤ lat) (hlat1 : lat ≤ π / 2) : HashCorrect debug 1 lon lat :=
  Hpx.RingSeams.ring_hash_sphere_nside_one debug lon lat hlon0 hlon1 hlat0 hlat1


end Unconditional

end Hpx.C11
