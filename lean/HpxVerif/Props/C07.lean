import HpxVerif.Lemmas.BmocAnd

/-!
# C07 — BMOC logical operators implement set algebra on plain MOCs

On plain MOCs (every flag full) the three-valued state is two-valued (`abs`/`full`) and the operators must be
complement / intersection / union / symmetric difference.  Proved here: `and` is the intersection for all pairs of
well-formed MOCs and its result is again a MOC (all flags full).  Open statements (model validated by the
correspondence check, theorems not yet proved): `not_sem`, `or_sem`, `xor_sem`, `moc_canonical`.
-/

namespace Hpx.C07
open Hpx.Bmoc

def IsMoc (l : List Cell) : Prop := ∀ c ∈ l, c.full = true

theorem stOf_moc {D : Nat} {l : List Cell} (h : IsMoc l) (x : Nat) : stOf D l x = .abs ∨ stOf D l x = .full := by
  induction l with
  | nil => left; rfl
  | cons c l ih =>
    simp only [stOf]
    split
    · right; simp [Tri.ofFlag, h c (by simp)]
    · exact ih (fun c' hc' => h c' (by simp [hc']))

/-- membership of the depth-`D` cell `x` in the set denoted by a MOC -/
def mem (D : Nat) (l : List Cell) (x : Nat) : Prop := stOf D l x = .full

/-- `and` is set intersection on plain MOCs -/
theorem and_sem (D : Nat) (a b : List Cell) (ha : WF D a) (hb : WF D b) (ma : IsMoc a) (mb : IsMoc b) (x : Nat) :
    mem D (andCells a b) x ↔ mem D a x ∧ mem D b x := by
  unfold mem
  rw [Hpx.Bmoc.and_sem D a b ha hb x]
  rcases stOf_moc ma (D := D) x with h1 | h1 <;> rcases stOf_moc mb (D := D) x with h2 | h2 <;> simp [h1, h2, Tri.min]

/-- every cell produced by `and` is inside a cell of each operand, and the result of two MOCs is a MOC -/
theorem and_is_moc (a b : List Cell) (ma : IsMoc a) (mb : IsMoc b) : IsMoc (andCells a b) := by
  fun_induction andCells a b with
  | case1 => intro c hc; simp at hc
  | case2 => intro c hc; simp at hc
  | case3 l ls r rs _ _ _ ih => exact ih (fun c hc => ma c (by simp [hc])) mb
  | case4 l ls r rs _ _ _ _ ih => exact ih ma (fun c hc => mb c (by simp [hc]))
  | case5 l ls r rs _ _ _ _ ih =>
    intro c hc
    rcases List.mem_cons.1 hc with rfl | hc
    · simp [ma l (by simp), mb r (by simp)]
    · exact ih ma (fun c hc => mb c (by simp [hc])) c hc
  | case6 l ls r rs _ _ _ _ ih => exact ih (fun c hc => ma c (by simp [hc])) mb
  | case7 l ls r rs _ _ _ _ _ ih => exact ih ma (fun c hc => mb c (by simp [hc]))
  | case8 l ls r rs _ _ _ _ _ ih =>
    intro c hc
    rcases List.mem_cons.1 hc with rfl | hc
    · simp [ma l (by simp), mb r (by simp)]
    · exact ih (fun c hc => ma c (by simp [hc])) mb c hc
  | case9 l ls r rs _ _ _ ih => exact ih (fun c hc => ma c (by simp [hc])) mb
  | case10 l ls r rs _ _ _ _ ih => exact ih ma (fun c hc => mb c (by simp [hc]))
  | case11 l ls r rs _ _ _ _ ih =>
    intro c hc
    rcases List.mem_cons.1 hc with rfl | hc
    · simp [ma l (by simp), mb r (by simp)]
    · exact ih (fun c hc => ma c (by simp [hc])) (fun c hc => mb c (by simp [hc])) c hc

theorem and_wf (D : Nat) (a b : List Cell) (ha : WF D a) (hb : WF D b) : WF D (andCells a b) :=
  (and_wf_inside D a b ha hb).1

end Hpx.C07
