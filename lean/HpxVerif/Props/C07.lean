import HpxVerif.Lemmas.BmocAnd
import HpxVerif.Lemmas.BmocNot
import HpxVerif.Lemmas.BmocXor3
import HpxVerif.Lemmas.BmocOr2
import HpxVerif.Lemmas.BmocCanon
import HpxVerif.Lemmas.BmocLaws

set_option autoImplicit false   -- an unknown identifier in a statement is an error, never a new variable

/-!
# C07 — BMOC logical operators implement set algebra on plain MOCs

On plain MOCs (every flag full) the three-valued state is two-valued (`abs`/`full`) and the operators must be
complement / intersection / union / symmetric difference.  Proved here: `and` is the intersection for all pairs of
well-formed MOCs and its result is again a MOC (all flags full); **`not` is the complement for every well-formed
in-range MOC of depth ≤ 29** (`not_sem`; through `go_up` / `go_down` / `dd_4_go_up`, the latter by the highest differing
bit pair of the two cell numbers), its result is a well-formed in-range MOC (`not_is_moc`, `not_wf`), `not ∘ not = id` and
`A ∩ Aᶜ = ∅` as corollaries.  **`xor` is the symmetric difference** (`xor_sem`, public operator with `pack`; `xor_self_empty`).
**`or` is the union** (`or_sem`, public operator with `pack`; `or_not_allsky`).  All four operators are proved.
**Canonical form** (`moc_canonical`, `bmoc_canonical`): well-formed, in-range, all-full lists without four full siblings
are determined by the set they denote; `pack` outputs are canonical (`pack_canonical`), and so are the results of `and`
and `not`, which do not call `pack` (`and_canonical`, `not_canonical`); hence `not (not a) = a`, commutativity,
idempotence, associativity of `and` and `a ∩ aᶜ = ∅` hold as structural equalities (`not_not`, `and_laws`).
-/

namespace Hpx.C07
open Hpx.Bmoc

def IsMoc (l : List Cell) : Prop := ∀ c ∈ l, c.full = true

theorem stOf_moc {D : Nat} {l : List Cell} (h : IsMoc l) (x : Nat) : stOf D l x = .abs ∨ stOf D l x = .full := by
  induction l with
  | nil => left; rfl
  | cons c l ih =>
    simp only [stOf]
    split
    · right; simp [Tri.ofFlag, h c (by simp)]
    · exact ih (fun c' hc' => h c' (by simp [hc']))

/-- membership of the depth-`D` cell `x` in the set denoted by a MOC -/
def mem (D : Nat) (l : List Cell) (x : Nat) : Prop := stOf D l x = .full

/-- `and` is set intersection on plain MOCs -/
theorem and_sem (D : Nat) (a b : List Cell) (ha : WF D a) (hb : WF D b) (ma : IsMoc a) (mb : IsMoc b) (x : Nat) :
    mem D (andCells a b) x ↔ mem D a x ∧ mem D b x := by
  unfold mem
  rw [Hpx.Bmoc.and_sem D a b ha hb x]
  rcases stOf_moc ma (D := D) x with h1 | h1 <;> rcases stOf_moc mb (D := D) x with h2 | h2 <;> simp [h1, h2, Tri.min]

/-- every cell produced by `and` is inside a cell of each operand, and the result of two MOCs is a MOC -/
theorem and_is_moc (a b : List Cell) (ma : IsMoc a) (mb : IsMoc b) : IsMoc (andCells a b) := by
  fun_induction andCells a b with
  | case1 => intro c hc; simp at hc
  | case2 => intro c hc; simp at hc
  | case3 l ls r rs _ _ _ ih => exact ih (fun c hc => ma c (by simp [hc])) mb
  | case4 l ls r rs _ _ _ _ ih => exact ih ma (fun c hc => mb c (by simp [hc]))
  | case5 l ls r rs _ _ _ _ ih =>
    intro c hc
    rcases List.mem_cons.1 hc with rfl | hc
    · simp [ma l (by simp), mb r (by simp)]
    · exact ih ma (fun c hc => mb c (by simp [hc])) c hc
  | case6 l ls r rs _ _ _ _ ih => exact ih (fun c hc => ma c (by simp [hc])) mb
  | case7 l ls r rs _ _ _ _ _ ih => exact ih ma (fun c hc => mb c (by simp [hc]))
  | case8 l ls r rs _ _ _ _ _ ih =>
    intro c hc
    rcases List.mem_cons.1 hc with rfl | hc
    · simp [ma l (by simp), mb r (by simp)]
    · exact ih (fun c hc => ma c (by simp [hc])) mb c hc
  | case9 l ls r rs _ _ _ ih => exact ih (fun c hc => ma c (by simp [hc])) mb
  | case10 l ls r rs _ _ _ _ ih => exact ih ma (fun c hc => mb c (by simp [hc]))
  | case11 l ls r rs _ _ _ _ ih =>
    intro c hc
    rcases List.mem_cons.1 hc with rfl | hc
    · simp [ma l (by simp), mb r (by simp)]
    · exact ih (fun c hc => ma c (by simp [hc])) (fun c hc => mb c (by simp [hc])) c hc

theorem and_wf (D : Nat) (a b : List Cell) (ha : WF D a) (hb : WF D b) : WF D (andCells a b) :=
  (and_wf_inside D a b ha hb).1

/-- **`not` is the complement on plain MOCs**, for every well-formed in-range MOC of depth `≤ 29` and every cell `x` of the
    sphere at the reference depth -/
theorem not_sem (D : Nat) (hD : D ≤ 29) (a : List Cell) (ha : WF D a) (hr : ∀ c ∈ a, InR c) (ma : IsMoc a)
    (x : Nat) (hx : x < 12 * 4 ^ D) : mem D (notCells a) x ↔ ¬ mem D a x := by
  unfold mem
  rw [(notCells_spec D hD a ha hr).1 x hx]
  rcases stOf_moc ma (D := D) x with h1 | h1 <;> simp [h1, Tri.not]

/-- the complement of a MOC is a MOC (every produced cell is full), well formed and in range -/
theorem not_is_moc (a : List Cell) (ma : IsMoc a) : IsMoc (notCells a) := by
  intro c hc
  rcases mem_notCells_flag a c hc with h | ⟨h1, h2⟩
  · exact h
  · rw [ma c h1] at h2; exact absurd h2 (by simp)

theorem not_wf (D : Nat) (hD : D ≤ 29) (a : List Cell) (ha : WF D a) (hr : ∀ c ∈ a, InR c) :
    WF D (notCells a) ∧ ∀ c ∈ notCells a, InR c :=
  ⟨(notCells_spec D hD a ha hr).2.1, (notCells_spec D hD a ha hr).2.2⟩

/-- set algebra: double complement, and `A ∩ Aᶜ = ∅` -/
theorem not_not_sem (D : Nat) (hD : D ≤ 29) (a : List Cell) (ha : WF D a) (hr : ∀ c ∈ a, InR c)
    (x : Nat) (hx : x < 12 * 4 ^ D) : stOf D (notCells (notCells a)) x = stOf D a x := by
  obtain ⟨s1, w1, r1⟩ := notCells_spec D hD a ha hr
  rw [(notCells_spec D hD _ w1 r1).1 x hx, s1 x hx]
  cases stOf D a x <;> rfl

theorem and_not_empty (D : Nat) (hD : D ≤ 29) (a : List Cell) (ha : WF D a) (hr : ∀ c ∈ a, InR c) (ma : IsMoc a)
    (x : Nat) (hx : x < 12 * 4 ^ D) : ¬ mem D (andCells a (notCells a)) x := by
  obtain ⟨s1, w1, _⟩ := notCells_spec D hD a ha hr
  unfold mem
  rw [Hpx.Bmoc.and_sem D a (notCells a) ha w1 x, s1 x hx]
  rcases stOf_moc ma (D := D) x with h1 | h1 <;> simp [h1, Tri.not, Tri.min]

/-- the hypotheses are satisfiable by a non-trivial MOC: `{1/5, 2/40}` at reference depth 2 -/
example : WF 2 [⟨1, 5, true⟩, ⟨2, 40, true⟩] ∧ (∀ c ∈ [(⟨1, 5, true⟩ : Cell), ⟨2, 40, true⟩], InR c) ∧
    IsMoc [⟨1, 5, true⟩, ⟨2, 40, true⟩] := by
  refine ⟨?_, ?_, ?_⟩
  · simp [WF, lo, hi]
  · intro c hc; simp only [List.mem_cons, List.not_mem_nil, or_false] at hc
    rcases hc with rfl | rfl <;> simp [InR]
  · intro c hc; simp only [List.mem_cons, List.not_mem_nil, or_false] at hc
    rcases hc with rfl | rfl <;> rfl

/-- **`xor` is the symmetric difference on plain MOCs** (public operator, `pack` included): the result has no partial
    cell and contains exactly the deepest-level cells that belong to one operand and not to the other -/
theorem xor_sem (A B : BMOC) (hdm : max A.dmax B.dmax ≤ 29)
    (hwA : WF (max A.dmax B.dmax) A.cells) (hwB : WF (max A.dmax B.dmax) B.cells)
    (hrA : ∀ c ∈ A.cells, InR c) (hrB : ∀ c ∈ B.cells, InR c) (mA : IsMoc A.cells) (mB : IsMoc B.cells) :
    ∃ R, BMOC.xor A B = some R ∧ ∀ x, stOf (max A.dmax B.dmax) R.cells x ≠ .part ∧
      (mem (max A.dmax B.dmax) R.cells x ↔ ¬ (mem (max A.dmax B.dmax) A.cells x ↔ mem (max A.dmax B.dmax) B.cells x)) :=
  bmoc_xor_moc A B hdm hwA hwB hrA hrB mA mB

/-- `a xor a = ∅` -/
theorem xor_self_empty (A : BMOC) (hdm : A.dmax ≤ 29) (hwA : WF A.dmax A.cells) (hrA : ∀ c ∈ A.cells, InR c)
    (mA : IsMoc A.cells) : ∃ R, BMOC.xor A A = some R ∧ ∀ x, stOf A.dmax R.cells x = .abs := by
  have h := bmoc_xor_spec A A (by simpa using hdm) (by simpa using hwA) (by simpa using hwA) hrA hrA
  obtain ⟨R, hR, _, _, _, _, _, hs⟩ := h
  refine ⟨R, hR, fun x => ?_⟩
  have hx := hs x
  simp only [Nat.max_self] at hx
  rw [hx]
  rcases stOf_moc mA (D := A.dmax) x with h1 | h1 <;> simp [h1, Tri.xor]

/-! ## canonical form: structural equality = set equality -/

/-- **a packed plain MOC is canonical**: two well-formed in-range all-full cell lists without four full siblings that
    contain the same deepest-level cells are the same list -/
theorem moc_canonical (D : Nat) (a b : List Cell) (ha : Canonical D a) (hb : Canonical D b)
    (h : ∀ x, x < 12 * 4 ^ D → (mem D a x ↔ mem D b x)) : a = b := moc_canonical_mem ha hb h

/-- the same for raw BMOCs (what `BMOC::equals` / `==` on the entries compares) -/
theorem bmoc_canonical (A B : BMOC) (hdm : A.dmax = B.dmax) (h29 : A.dmax ≤ 29)
    (vA : ∀ r ∈ A.entries, ValidRaw A.dmax r) (vB : ∀ r ∈ B.entries, ValidRaw B.dmax r)
    (cA : Canonical A.dmax A.cells) (cB : Canonical B.dmax B.cells)
    (h : ∀ x, x < 12 * 4 ^ A.dmax → stOf A.dmax A.cells x = stOf B.dmax B.cells x) : A = B :=
  bmoc_canonical_valid A B hdm h29 vA vB cA cB h

/-- the output of `pack` on a plain MOC is canonical (this is what `or` and `xor` return) and denotes the same set -/
theorem pack_canonical (dm : Nat) (hdm : dm ≤ 29) (cs : List Cell) (hw : WF dm cs) (hr : ∀ c ∈ cs, InR c)
    (hf : IsMoc cs) :
    Canonical dm (cellsOf dm (pack dm (cs.map (encode dm)))) ∧
    ∀ x, stOf dm (cellsOf dm (pack dm (cs.map (encode dm)))) x = stOf dm cs x :=
  pack_cells_canonical dm hdm cs hw hr hf

/-- `and` does not call `pack`, and does not need to: the intersection of canonical MOCs is canonical -/
theorem and_canonical (D : Nat) (a b : List Cell) (ha : Canonical D a) (hb : Canonical D b) :
    Canonical D (andCells a b) := Hpx.Bmoc.and_canonical ha hb

/-- `not` does not call `pack` either: the complement of a canonical MOC is canonical -/
theorem not_canonical (D : Nat) (hD : D ≤ 29) (a : List Cell) (ha : Canonical D a) : Canonical D (notCells a) :=
  Hpx.Bmoc.not_canonical hD ha

/-- hence the algebraic laws hold as STRUCTURAL equalities: `not (not a) = a` … -/
theorem not_not (A : BMOC) (h29 : A.dmax ≤ 29) (vA : ∀ r ∈ A.entries, ValidRaw A.dmax r)
    (cA : Canonical A.dmax A.cells) : A.not.not = A := bmoc_not_not A h29 vA cA

/-- … `a and b = b and a`, `a and a = a`, `a and not a = ∅`, associativity -/
theorem and_laws (D : Nat) (hD : D ≤ 29) (a b c : List Cell) (ha : Canonical D a) (hb : Canonical D b)
    (hc : Canonical D c) :
    andCells a b = andCells b a ∧ andCells a a = a ∧ andCells a (notCells a) = [] ∧
    andCells (andCells a b) c = andCells a (andCells b c) :=
  ⟨and_comm_canonical ha hb, and_self_canonical ha, and_not_self_canonical hD ha, and_assoc_canonical ha hb hc⟩

/-- two unions / symmetric differences of the same set are the same entries: `pack` of any two MOC cell lists with
    the same content is the same raw list (so `or`/`xor` results compare equal iff they denote the same set) -/
theorem pack_eq_of_same_set (dm : Nat) (hdm : dm ≤ 29) (a b : List Cell) (wa : WF dm a) (wb : WF dm b)
    (ra : ∀ c ∈ a, InR c) (rb : ∀ c ∈ b, InR c) (fa : IsMoc a) (fb : IsMoc b)
    (h : ∀ x, x < 12 * 4 ^ dm → stOf dm a x = stOf dm b x) :
    pack dm (a.map (encode dm)) = pack dm (b.map (encode dm)) :=
  Hpx.Bmoc.pack_eq_of_same_set dm hdm a b wa wb ra rb fa fb h

/-- the hypotheses are satisfiable: a three-level canonical MOC -/
example : Canonical 2 exCanonMoc := exCanonMoc_canonical

/-- **`or` is the union on plain MOCs** (public operator, `pack` included): the result is a plain MOC containing exactly
    the deepest-level cells that belong to one of the operands -/
theorem or_sem (A B : BMOC) (D : Nat) (hmax : max A.dmax B.dmax = D) (hD : D ≤ 29)
    (hwA : WF D A.cells) (hwB : WF D B.cells) (hrA : ∀ c ∈ A.cells, InR c) (hrB : ∀ c ∈ B.cells, InR c)
    (mA : IsMoc A.cells) (mB : IsMoc B.cells) :
    ∃ R, BMOC.or A B = some R ∧ IsMoc R.cells ∧ ∀ x, mem D R.cells x ↔ (mem D A.cells x ∨ mem D B.cells x) := by
  obtain ⟨R, hR, _⟩ := bmoc_or_spec A B D hmax hD hwA hwB hrA hrB
  obtain ⟨h2, h3⟩ := bmoc_or_moc A B D hmax hD hwA hwB hrA hrB mA mB R hR
  exact ⟨R, hR, h2, h3⟩

/-- `a or not a` is the whole sky -/
theorem or_not_allsky (A : BMOC) (hD : A.dmax ≤ 29) (hv : ∀ r ∈ A.entries, ValidRaw A.dmax r) (hw : WF A.dmax A.cells)
    (hr : ∀ c ∈ A.cells, InR c) (mA : IsMoc A.cells) (x : Nat) (hx : x < 12 * 4 ^ A.dmax) :
    Tri.max (stOf A.dmax A.cells x) (stOf A.dmax (notCells A.cells) x) = .full := by
  rw [(notCells_spec A.dmax hD A.cells hw hr).1 x hx]
  rcases stOf_moc mA (D := A.dmax) x with h1 | h1 <;> simp [h1, Tri.not, Tri.max]

/-- **`or` is commutative on plain MOCs as a STRUCTURAL equality** (`a | b` and `b | a` are the same entries, and both
    are computed): the final `pack` makes the union canonical -/
theorem or_comm (A B : BMOC) (D : Nat) (hmax : max A.dmax B.dmax = D) (hD : D ≤ 29)
    (hwA : WF D A.cells) (hwB : WF D B.cells) (hrA : ∀ c ∈ A.cells, InR c) (hrB : ∀ c ∈ B.cells, InR c)
    (mA : IsMoc A.cells) (mB : IsMoc B.cells) : BMOC.or A B = BMOC.or B A ∧ (BMOC.or A B).isSome :=
  bmoc_or_comm_moc A B D hmax hD hwA hwB hrA hrB mA mB

/-- **de Morgan on plain MOCs**: `(not a) or (not b)` is computed and contains exactly the cells of `not (a and b)` -/
theorem de_morgan (D : Nat) (hD : D ≤ 29) (a b : List Cell) (ha : WF D a) (hb : WF D b)
    (hra : ∀ c ∈ a, InR c) (hrb : ∀ c ∈ b, InR c) :
    ∃ l, orCellsUnpacked (notCells a) (notCells b) = some l ∧
      ∀ x, x < 12 * 4 ^ D → (mem D l x ↔ mem D (notCells (andCells a b)) x) := by
  obtain ⟨l, hl, h⟩ := de_morgan_or_not D hD a b ha hb hra hrb
  exact ⟨l, hl, fun x hx => by unfold mem; rw [h x hx]⟩

/-- **`xor` is commutative on plain MOCs as a STRUCTURAL equality** (same entries, both computed) -/
theorem xor_comm (A B : BMOC) (D : Nat) (hmax : max A.dmax B.dmax = D) (hD : D ≤ 29)
    (hwA : WF D A.cells) (hwB : WF D B.cells) (hrA : ∀ c ∈ A.cells, InR c) (hrB : ∀ c ∈ B.cells, InR c)
    (mA : IsMoc A.cells) (mB : IsMoc B.cells) : BMOC.xor A B = BMOC.xor B A ∧ (BMOC.xor A B).isSome :=
  bmoc_xor_comm_moc A B D hmax hD hwA hwB hrA hrB mA mB

end Hpx.C07
