import HpxVerif.Lemmas.BmocAnd
import HpxVerif.Lemmas.BmocEnc

/-!
# C09 — every BMOC handed to the user is well formed and its views agree

Proved here: the raw encoding is injective and order preserving (`Cell::new ∘ build_raw_value = id` for every
`depth ≤ depth_max ≤ 29`, `hash < 12·4^depth`; a cell lying before another one in z-order has the smaller raw value;
raw values fit in 64 bits), and `and` preserves well-formedness.  Open statements (validated by correspondence and
the direct well-formedness oracle on every BMOC the runs produce): `not_wf`, `or_wf`, `xor_wf`, `pack_wf`,
`flat_iter_spec`, `to_ranges_spec`, `deep_size_eq_length`.
-/

namespace Hpx.C09
open Hpx.Bmoc

theorem decode_encode (dm : Nat) (c : Cell) (hd : c.depth ≤ dm) (hdm : dm ≤ 29) (hh : c.hash < 12 * 4 ^ c.depth) :
    decode (encode dm c) dm = c := Hpx.Bmoc.decode_encode hd hdm hh

theorem raw_fits_u64 (dm : Nat) (c : Cell) (hd : c.depth ≤ dm) (hdm : dm ≤ 29) (hh : c.hash < 12 * 4 ^ c.depth) :
    encode dm c < 2 ^ 64 := by
  unfold encode; rw [buildRaw_eq]
  have := raw_fits hd hdm hh
  have e : (2:Nat) ^ (1 + 2 * (dm - c.depth)) = 2 * 2 ^ (2 * (dm - c.depth)) := by rw [Nat.pow_add]
  have hf : (if c.full then 1 else 0) ≤ 1 := by split <;> omega
  rw [e] at this ⊢
  have : (2 * c.hash + 1) * (2 * 2 ^ (2 * (dm - c.depth))) = 2 * ((2 * c.hash + 1) * 2 ^ (2 * (dm - c.depth))) := by ring
  omega

/-- raw `u64` order = z-order of the intervals, on non-overlapping cells -/
theorem raw_lt_of_before (dm : Nat) (c1 c2 : Cell) (h1 : c1.depth ≤ dm) (h2 : c2.depth ≤ dm)
    (h : hi dm c1 ≤ lo dm c2) : encode dm c1 < encode dm c2 := encode_lt h1 h2 h

/-- the entries produced from a well-formed cell list are strictly increasing -/
theorem wf_entries_increasing (dm : Nat) (l : List Cell) (h : WF dm l) :
    List.Pairwise (· < ·) (l.map (encode dm)) := by
  induction l with
  | nil => simp
  | cons c l ih =>
    simp only [List.map_cons, List.pairwise_cons]
    refine ⟨?_, ih h.tail⟩
    intro r hr
    obtain ⟨c', hc', rfl⟩ := List.mem_map.1 hr
    have hd' : c'.depth ≤ dm := h.tail.depth_le c' hc'
    exact encode_lt h.1 hd' (h.2.1 c' hc')

/-- `and` preserves well-formedness (reference depth = the larger `depth_max`) -/
theorem and_wf (D : Nat) (a b : List Cell) (ha : WF D a) (hb : WF D b) : WF D (andCells a b) :=
  (and_wf_inside D a b ha hb).1

example : decode (encode 29 ⟨29, 12 * 4 ^ 29 - 1, true⟩) 29 = ⟨29, 12 * 4 ^ 29 - 1, true⟩ := by decide +kernel

end Hpx.C09
