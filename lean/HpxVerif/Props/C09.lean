import HpxVerif.Lemmas.BmocAnd
import HpxVerif.Lemmas.BmocEnc
import HpxVerif.Lemmas.CoverWF
import HpxVerif.Lemmas.BmocNot
import HpxVerif.Lemmas.BmocViews
import HpxVerif.Lemmas.BmocXor3
import HpxVerif.Lemmas.BmocOr2
import HpxVerif.Lemmas.CoverAllWF

set_option autoImplicit false   -- an unknown identifier in a statement is an error, never a new variable

/-!
# C09 — every BMOC handed to the user is well formed and its views agree

Proved here: the raw encoding is injective and order preserving (`Cell::new ∘ build_raw_value = id` for every
`depth ≤ depth_max ≤ 29`, `hash < 12·4^depth`; a cell lying before another one in z-order has the smaller raw value;
raw values fit in 64 bits), `and` preserves well-formedness, **`pack` preserves well-formedness and content**,
`to_bmoc_packing` of a well-formed in-range cell list is a well-formed BMOC with strictly increasing entries
(`packed_bmoc_wf`), and **the cone coverage started from the 12 base cells returns a well-formed BMOC whatever the
floating-point tests answer** (`cone_coverage_base_start_wf`; with a starting depth the same holds provided the start
cells returned by `neighbours` are distinct — C04 — by `rootsFold`), and **`BMOC::not` of a well-formed BMOC is a
well-formed BMOC** (`bmoc_not_wf`).  **The views of a well-formed BMOC agree** (for every BMOC with valid entries, `depth_max ≤ 29`):
`flat_iter_spec` (strictly increasing, exactly the non-absent deepest-level cells), `flat_iter_cell_spec` (same cells,
each with the raw entry that covers it and that entry's flag), `deep_size_eq_length`, `to_ranges_spec` (non-empty
ranges, sorted, pairwise disjoint **and non-adjacent**, union = flat set), `into_iter_decodes`, `views_in_range`.
**`or` and `xor` return well-formed BMOCs with valid entries for every pair of such operands** (`or_good`, `xor_good`),
like `not` and `and`: every BMOC reachable from well-formed ones through any history of operators is well formed.
-/

namespace Hpx.C09
open Hpx.Bmoc

theorem decode_encode (dm : Nat) (c : Cell) (hd : c.depth ≤ dm) (hdm : dm ≤ 29) (hh : c.hash < 12 * 4 ^ c.depth) :
    decode (encode dm c) dm = c := Hpx.Bmoc.decode_encode hd hdm hh

theorem raw_fits_u64 (dm : Nat) (c : Cell) (hd : c.depth ≤ dm) (hdm : dm ≤ 29) (hh : c.hash < 12 * 4 ^ c.depth) :
    encode dm c < 2 ^ 64 := by
  unfold encode; rw [buildRaw_eq]
  have := raw_fits hd hdm hh
  have e : (2:Nat) ^ (1 + 2 * (dm - c.depth)) = 2 * 2 ^ (2 * (dm - c.depth)) := by rw [Nat.pow_add]
  have hf : (if c.full then 1 else 0) ≤ 1 := by split <;> omega
  rw [e] at this ⊢
  have : (2 * c.hash + 1) * (2 * 2 ^ (2 * (dm - c.depth))) = 2 * ((2 * c.hash + 1) * 2 ^ (2 * (dm - c.depth))) := by ring
  omega

/-- raw `u64` order = z-order of the intervals, on non-overlapping cells -/
theorem raw_lt_of_before (dm : Nat) (c1 c2 : Cell) (h1 : c1.depth ≤ dm) (h2 : c2.depth ≤ dm)
    (h : hi dm c1 ≤ lo dm c2) : encode dm c1 < encode dm c2 := encode_lt h1 h2 h

/-- the entries produced from a well-formed cell list are strictly increasing -/
theorem wf_entries_increasing (dm : Nat) (l : List Cell) (h : WF dm l) :
    List.Pairwise (· < ·) (l.map (encode dm)) := by
  induction l with
  | nil => simp
  | cons c l ih =>
    simp only [List.map_cons, List.pairwise_cons]
    refine ⟨?_, ih h.tail⟩
    intro r hr
    obtain ⟨c', hc', rfl⟩ := List.mem_map.1 hr
    have hd' : c'.depth ≤ dm := h.tail.depth_le c' hc'
    exact encode_lt h.1 hd' (h.2.1 c' hc')

/-- `and` preserves well-formedness (reference depth = the larger `depth_max`) -/
theorem and_wf (D : Nat) (a b : List Cell) (ha : WF D a) (hb : WF D b) : WF D (andCells a b) :=
  (and_wf_inside D a b ha hb).1

example : decode (encode 29 ⟨29, 12 * 4 ^ 29 - 1, true⟩) 29 = ⟨29, 12 * 4 ^ 29 - 1, true⟩ := by decide +kernel

/-- **`pack` preserves well-formedness and content** of every list of valid entries (depth ≤ 29) -/
theorem pack_wf (dm : Nat) (hdm : dm ≤ 29) (l : List Nat) (hv : ∀ r ∈ l, ValidRaw dm r) (hw : WF dm (cellsOf dm l)) :
    WF dm (cellsOf dm (pack dm l)) ∧ (∀ r ∈ pack dm l, ValidRaw dm r) ∧
    ∀ x, stOf dm (cellsOf dm (pack dm l)) x = stOf dm (cellsOf dm l) x :=
  ⟨(Hpx.Bmoc.pack_sem dm hdm l hv).2.2 hw, (Hpx.Bmoc.pack_sem dm hdm l hv).2.1, (Hpx.Bmoc.pack_sem dm hdm l hv).1⟩

/-- **`to_bmoc_packing`**: the BMOC built from a well-formed, in-range cell list (what every coverage descent hands to
    the builder) has valid entries, sorted disjoint cells, strictly increasing raw values and the same content -/
theorem packed_bmoc_wf (dm : Nat) (hdm : dm ≤ 29) (cells : List Cell) (hw : WF dm cells)
    (hr : ∀ c ∈ cells, Hpx.Cover.InRange c) :
    (∀ r ∈ pack dm (cells.map (encode dm)), ValidRaw dm r) ∧ WF dm (cellsOf dm (pack dm (cells.map (encode dm)))) ∧
    (pack dm (cells.map (encode dm))).Pairwise (· < ·) ∧
    (∀ x, stOf dm (cellsOf dm (pack dm (cells.map (encode dm)))) x = stOf dm cells x) :=
  Hpx.Cover.packed_bmoc_wf dm hdm cells hw hr

/-- **the cone coverage started from the 12 base cells (no starting depth, or `r ≥ π`) returns a well-formed BMOC**,
    whatever the floating-point tests answer: valid entries, sorted disjoint cells, strictly increasing raw values -/
theorem cone_coverage_base_start_wf {α : Type} [Num α] (cfg : Cfg) (depth : Nat) (lon lat r : α) (b : BMOC)
    (hno : Num.ge r (Num.pi : α) = true ∨ C2V.hasBestStartingDepth r = false)
    (h : Hpx.Cover.coneCoverageApprox cfg depth lon lat r = some b) :
    b.dmax = depth ∧ (∀ e ∈ b.entries, ValidRaw depth e) ∧ WF depth (cellsOf depth b.entries) ∧
    b.entries.Pairwise (· < ·) := by
  unfold Hpx.Cover.coneCoverageApprox at h
  split at h
  · simp at h
  · rename_i hd
    have hdm : depth ≤ 29 := by omega
    simp only [Option.map_eq_some_iff] at h
    obtain ⟨cells, hcells, rfl⟩ := h
    have key : WF depth cells ∧ ∀ c ∈ cells, Hpx.Cover.InRange c := by
      unfold Hpx.Cover.coneInternal at hcells
      by_cases hpi : Num.ge r (Num.pi : α) = true
      · simp only [hpi, if_true, Option.some.injEq] at hcells
        subst hcells
        refine ⟨?_, ?_⟩
        · have : ∀ (k n : Nat), WF depth ((List.range' k n).map fun h => ({ depth := 0, hash := h, full := true } : Cell)) := by
            intro k n
            induction n generalizing k with
            | zero => simp [WF]
            | succ n ih =>
              simp only [List.range'_succ, List.map_cons]
              refine ⟨Nat.zero_le _, ?_, ih (k + 1)⟩
              intro c' hc'
              simp only [List.mem_map, List.mem_range'_1] at hc'
              obtain ⟨a, ha, rfl⟩ := hc'
              show (k + 1) * 4 ^ (depth - 0) ≤ a * 4 ^ (depth - 0)
              exact Nat.mul_le_mul_right _ ha.1
          have := this 0 12
          rwa [← List.range_eq_range'] at this
        · intro c hc
          simp only [List.mem_map, List.mem_range] at hc
          obtain ⟨a, ha, rfl⟩ := hc
          show a < 12 * 4 ^ 0
          simpa using ha
      · have hpi' : Num.ge r (Num.pi : α) = false := by simpa using hpi
        have hnb : C2V.hasBestStartingDepth r = false := by
          rcases hno with h1 | h1
          · rw [h1] at hpi'; simp at hpi'
          · exact h1
        simp only [hpi', Bool.false_eq_true, if_false, hnb, Bool.not_false, if_true] at hcells
        split at hcells
        · simp at hcells
        · exact Hpx.Cover.baseCellsFold_wf depth _ (depth + 2) cells hcells
    obtain ⟨g1, g2, g3, _⟩ := Hpx.Cover.packed_bmoc_wf depth hdm cells key.1 key.2
    exact ⟨rfl, g1, g2, g3⟩

/-- **`BMOC::not` hands out a well-formed BMOC**: for a BMOC of depth `≤ 29` with valid entries and sorted disjoint cells,
    the entries of `not` are valid, its cells are the cell list computed by `not` (sorted, disjoint, in range), and the raw
    entries are strictly increasing -/
theorem bmoc_not_wf (b : BMOC) (hdm : b.dmax ≤ 29) (hv : ∀ r ∈ b.entries, ValidRaw b.dmax r)
    (hw : WF b.dmax (cellsOf b.dmax b.entries)) :
    (BMOC.not b).dmax = b.dmax ∧ (∀ r ∈ (BMOC.not b).entries, ValidRaw b.dmax r) ∧
    cellsOf b.dmax (BMOC.not b).entries = notCells (cellsOf b.dmax b.entries) ∧
    WF b.dmax (cellsOf b.dmax (BMOC.not b).entries) ∧ (BMOC.not b).entries.Pairwise (· < ·) := by
  have hr : ∀ c ∈ cellsOf b.dmax b.entries, InR c := by
    intro c hc
    obtain ⟨r, hr, rfl⟩ := List.mem_map.1 hc
    obtain ⟨_, _, h3⟩ := raw_of_decode hdm (hv r hr) rfl
    exact h3
  obtain ⟨_, w1, r1⟩ := notCells_spec b.dmax hdm _ hw hr
  have hcells : b.cells = cellsOf b.dmax b.entries := rfl
  have hent : (BMOC.not b).entries = (notCells (cellsOf b.dmax b.entries)).map (encode b.dmax) := by
    unfold BMOC.not; rw [hcells]
  have hco := Hpx.Cover.cellsOf_map_encode b.dmax hdm _ w1.depth_le r1
  refine ⟨rfl, ?_, by rw [hent, hco], by rw [hent, hco]; exact w1, ?_⟩
  · intro r hr'
    rw [hent] at hr'
    obtain ⟨c, hc, rfl⟩ := List.mem_map.1 hr'
    exact ⟨c, w1.depth_le c hc, r1 c hc, rfl⟩
  · rw [hent]
    exact wf_entries_increasing b.dmax _ w1

/-! ## views (`flat_iter`, `flat_iter_cell`, `deep_size`, `to_ranges`, `into_iter`) -/

/-- `flat_iter` / `to_flat_array`: strictly increasing, and exactly the deepest-level cells that are not absent -/
theorem flat_iter_spec (b : BMOC) (hD : b.dmax ≤ 29) (hv : ∀ r ∈ b.entries, ValidRaw b.dmax r) (hw : WF b.dmax b.cells) :
    (flatIter b).Pairwise (· < ·) ∧ ∀ x, x ∈ flatIter b ↔ stOf b.dmax b.cells x ≠ .abs :=
  flatIter_spec b hD hv hw

/-- `flat_iter_cell`: the same cells as `flat_iter`, each reported with the raw entry covering it and the flag of
    that entry, which is the state of the cell -/
theorem flat_iter_cell_spec (b : BMOC) (hD : b.dmax ≤ 29) (hv : ∀ r ∈ b.entries, ValidRaw b.dmax r)
    (hw : WF b.dmax b.cells) :
    (flatIterCell b).map (·.2.1) = flatIter b ∧
    ∀ raw x f, (raw, x, f) ∈ flatIterCell b →
      raw ∈ b.entries ∧ f = (decode raw b.dmax).full ∧
      lo b.dmax (decode raw b.dmax) ≤ x ∧ x < hi b.dmax (decode raw b.dmax) ∧
      stOf b.dmax b.cells x = Tri.ofFlag f :=
  flatIterCell_spec b hD hv hw

theorem deep_size_eq_length (b : BMOC) (hD : b.dmax ≤ 29) (hv : ∀ r ∈ b.entries, ValidRaw b.dmax r) :
    deepSize b = (flatIter b).length := deepSize_eq_length b hD hv

/-- `to_ranges`: non-empty ranges, sorted, pairwise disjoint and non-adjacent, whose union is the flat set -/
theorem to_ranges_spec (b : BMOC) (hD : b.dmax ≤ 29) (hv : ∀ r ∈ b.entries, ValidRaw b.dmax r) (hw : WF b.dmax b.cells) :
    (∀ p ∈ toRanges b, p.1 < p.2) ∧
    (toRanges b).Pairwise (fun p q => p.2 < q.1) ∧
    (∀ x, (∃ p ∈ toRanges b, p.1 ≤ x ∧ x < p.2) ↔ x ∈ flatIter b) ∧
    (∀ x, (∃ p ∈ toRanges b, p.1 ≤ x ∧ x < p.2) ↔ stOf b.dmax b.cells x ≠ .abs) :=
  toRanges_spec b hD hv hw

/-- `into_iter`: decoding the entries gives cells of depth `≤ depth_max` with in-range numbers, and re-encoding them
    gives the entries back -/
theorem into_iter_decodes (b : BMOC) (hD : b.dmax ≤ 29) (hv : ∀ r ∈ b.entries, ValidRaw b.dmax r) :
    (∀ c ∈ b.cells, c.depth ≤ b.dmax ∧ c.hash < 12 * 4 ^ c.depth) ∧ b.cells.map (encode b.dmax) = b.entries :=
  into_iter b hD hv

/-- every number the views produce is a cell number of depth `depth_max` (no `u64` overflow in the shifts) -/
theorem views_in_range (b : BMOC) (hD : b.dmax ≤ 29) (hv : ∀ r ∈ b.entries, ValidRaw b.dmax r) :
    (∀ x ∈ flatIter b, x < 12 * 4 ^ b.dmax) ∧ (∀ p ∈ toRanges b, p.2 ≤ 12 * 4 ^ b.dmax) :=
  views_bound b hD hv

/-! ## `or`, `xor` are producers of well-formed BMOCs; closure under histories of operators -/

/-- a BMOC as handed to the user: `depth_max ≤ 29`, valid raw entries, well-formed cell list -/
def Good (A : BMOC) : Prop := A.dmax ≤ 29 ∧ (∀ r ∈ A.entries, ValidRaw A.dmax r) ∧ WF A.dmax A.cells

theorem or_good (A B : BMOC) (gA : Good A) (gB : Good B) : ∃ R, BMOC.or A B = some R ∧ Good R := by
  obtain ⟨R, h1, h2, h3, h4, _, _⟩ := bmoc_or_general A B gA.1 gB.1 ⟨gA.2.1, gA.2.2⟩ ⟨gB.2.1, gB.2.2⟩
  refine ⟨R, h1, ?_, ?_, ?_⟩
  · rw [h2]; have := gA.1; have := gB.1; omega
  · rw [h2]; exact h3
  · rw [h2]; exact h4

theorem xor_good (A B : BMOC) (gA : Good A) (gB : Good B) : ∃ R, BMOC.xor A B = some R ∧ Good R := by
  obtain ⟨R, h1, h2, h3, _, h5, _, _⟩ := bmoc_xor_valid A B gA.1 gB.1 gA.2.1 gB.2.1 gA.2.2 gB.2.2
  refine ⟨R, h1, ?_, h3, ?_⟩
  · rw [h2]; have := gA.1; have := gB.1; omega
  · rw [h2]; exact h5

/-! ## every coverage query returns a well-formed BMOC, for every input and every answer of the floating-point tests;
    closure under any history of operators

`CoverAll.Reach α cfg m`: `m` is obtained from outputs of `cone_coverage_approx(_custom)`, `elliptical_cone_coverage(_custom)`,
`polygon_coverage` (either mode) by any sequence of `not`, `and`, `or`, `xor`; `CoverAll.Good m`: `depth_max ≤ 29`, valid
raw entries, well-formed cell list. -/

section AllCoverages
open Hpx Hpx.Bmoc Hpx.Cover Hpx.CoverAll

/-- **1. `cone_coverage_approx`**: every returned BMOC is well formed — all-sky, base-cell start, starting depth with
    recursion, small-cone branch; every input, every numeric instance, every build -/
theorem cone_coverage_wf {α : Type} [Num α] (cfg : Cfg) (depth : Nat) (lon lat r : α) (b : BMOC)
    (h : coneCoverageApprox cfg depth lon lat r = some b) :
    b.dmax = depth ∧ (∀ e ∈ b.entries, ValidRaw depth e) ∧ WF depth (cellsOf depth b.entries) ∧
    b.entries.Pairwise (· < ·) :=
  Hpx.CoverAll.cone_coverage_wf cfg depth lon lat r b h

/-- **2. `cone_coverage_approx_custom`**: descent at `depth + delta_depth`, then `to_lower_depth` and nothing else
    (`delta_depth = 0`: `cone_coverage_approx`) -/
theorem cone_coverage_custom_wf {α : Type} [Num α] (cfg : Cfg) (depth deltaDepth : Nat) (lon lat r : α) (b : BMOC)
    (h : coneCoverageApproxCustom cfg depth deltaDepth lon lat r = some b) :
    b.dmax = depth ∧ (∀ e ∈ b.entries, ValidRaw depth e) ∧ WF depth (cellsOf depth b.entries) ∧
    b.entries.Pairwise (· < ·) :=
  Hpx.CoverAll.cone_coverage_custom_wf cfg depth deltaDepth lon lat r b h

/-- **3. `elliptical_cone_coverage(_custom)`** (including `delta_depth = 0`): every returned BMOC is well formed -/
theorem elliptical_cone_coverage_wf {α : Type} [Num α] (cfg : Cfg) (depth deltaDepth : Nat) (lon lat a b pa : α)
    (m : BMOC) (h : Sph.ellipticalConeCoverageCustom cfg depth deltaDepth lon lat a b pa = some m) :
    m.dmax = depth ∧ (∀ e ∈ m.entries, ValidRaw depth e) ∧ WF depth (cellsOf depth m.entries) ∧
    m.entries.Pairwise (· < ·) :=
  Hpx.CoverAll.elliptical_cone_coverage_wf cfg depth deltaDepth lon lat a b pa m h

/-- **4. `polygon_coverage(vertices, exact_solution)`, both modes** -/
theorem polygon_coverage_wf {α : Type} [Num α] (cfg : Cfg) (depth : Nat) (vertices : List (α × α)) (exact : Bool)
    (m : BMOC) (h : Sph.polygonCoverage cfg depth vertices exact = some m) :
    m.dmax = depth ∧ (∀ e ∈ m.entries, ValidRaw depth e) ∧ WF depth (cellsOf depth m.entries) ∧
    m.entries.Pairwise (· < ·) :=
  Hpx.CoverAll.polygon_coverage_wf cfg depth vertices exact m h

/-- **every BMOC reachable from the coverage queries through any history of `not`/`and`/`or`/`xor` is well formed**,
    and `or`/`xor` never panic on such operands -/
theorem reachable_bmoc_good {α : Type} [Num α] (cfg : Cfg) (m : BMOC) (h : Reach α cfg m) : Good m :=
  Hpx.CoverAll.reach_good cfg m h

theorem reachable_or_xor_defined {α : Type} [Num α] (cfg : Cfg) (a b : BMOC) (ha : Reach α cfg a) (hb : Reach α cfg b) :
    (∃ m, BMOC.or a b = some m) ∧ ∃ m, BMOC.xor a b = some m :=
  Hpx.CoverAll.reach_or_xor_defined cfg a b ha hb


end AllCoverages

end Hpx.C09
