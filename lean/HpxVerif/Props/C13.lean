import HpxVerif.Lemmas.PolyLemmas
import HpxVerif.Props.C15
import HpxVerif.Lemmas.EllipseReal
import HpxVerif.Props.C16
import HpxVerif.Lemmas.EConeReal4
import HpxVerif.Lemmas.EConeEq3
import HpxVerif.Lemmas.Tightness3
import HpxVerif.Lemmas.EConeBmoc3

set_option autoImplicit false   -- an unknown identifier in a statement is an error, never a new variable

/-!
# C13 — elliptical-cone coverage: centre kept, circular case sound, tight, guarded

Model: `Sph.ellipticalConeCoverageCustom` (`elliptical_cone_coverage(_custom)`: guard, `EllipticalCone::new`, `ProjSIN`,
`Ellipse::from_oriented / contains / extended_geom`, `overlap_cone`, `contains_cone`, start cells, descent, packing,
`to_lower_depth`) — tied bit for bit, entry by entry, to the crate on every run, both build profiles.

Proved, for **every numeric instance and whatever the floating-point tests answer**:
* `guard`, `guard_custom`: a semi-major axis `≥ π/2` is rejected (`none` = panic) for every depth, `delta_depth`, centre,
  `b`, position angle; nothing is computed before the guard;
* `classifier_skip`: a cell is skipped only if its centre is *not* inside the ellipse **and** `overlap_cone` answered
  false — a cell whose centre lies in the ellipse is never dropped;
* `full_flag_rule`: a cell flagged full either passed `contains_cone` with the centre-to-vertex bound of its level, or is
  at the target depth with its four vertices inside the ellipse (`EllipticalCone.contains`);
* `structure_below`, `structure_roots`: per start cell the output is well formed, inside the start cell, depths between
  start and target; with strictly increasing start cells the whole list is well formed and is exactly the concatenation;
* `internal_allsky_start`: with no starting depth (large `a`) the internal list *is* the fold over the 12 base cells;
* `custom_pack_fixpoint`: the entries returned for `delta_depth = 0` are a fixed point of the compaction pass.
Over the reals (the same model functions at `α := ℝ`; `ellipse_test_is_ellipse`, `circular_is_cone`): the covariance-form
test *is* the canonical ellipse inequality with semi-axes `a, b` and major axis along the given unit vector, and for
`a = b` the membership test *is* the cone membership `cos a ≤ cos(angular distance)`, for every position angle.
Left to the oracle: the centre cell is kept (needs `overlap_cone` to be sound w.r.t. the empirical cell-size bounds of
C16), tightness, circular no-miss (witness points), findings F7 (debug assertions of the cell-size helper).
-/

namespace Hpx.C13
open Hpx Hpx.Cover Hpx.Bmoc Hpx.Sph

variable {α : Type} [Num α]

theorem guard (cfg : Cfg) (depth : Nat) (lon lat a b pa : α) (ha : Num.ge a (Num.halfPi : α) = true) :
    ellInternal cfg depth lon lat a b pa = none := by
  unfold ellInternal; simp [ha]

theorem guard_custom (cfg : Cfg) (depth deltaDepth : Nat) (lon lat a b pa : α) (ha : Num.ge a (Num.halfPi : α) = true) :
    ellipticalConeCoverageCustom cfg depth deltaDepth lon lat a b pa = none := by
  unfold ellipticalConeCoverageCustom
  simp only [guard cfg _ lon lat a b pa ha]
  split
  · rfl
  · split
    · rfl
    · split <;> rfl

theorem classifier_skip (cfg : Cfg) (target : Nat) (e : ECone α) (dists : List α) (d h l : Nat)
    (hk : ellClassifier cfg target e dists d h l = some .skip) :
    ∃ c dist, Hash.center (α := α) cfg d h = some c ∧ dists[l]? = some dist ∧
      e.contains c.1 c.2 = false ∧ e.overlapCone c.1 c.2 dist = some false := by
  unfold ellClassifier at hk
  split at hk
  · simp at hk
  · rename_i c hc
    split at hk
    · simp at hk
    · rename_i dist hdist
      refine ⟨c, dist, hc, hdist, ?_⟩
      split at hk
      · simp at hk
      · simp only at hk
        by_cases hin : e.contains c.1 c.2 = true
        · simp only [hin, if_true] at hk
          split at hk <;> simp at hk
        · simp only [hin, Bool.false_eq_true, if_false] at hk
          refine ⟨by simpa using hin, ?_⟩
          cases ho : e.overlapCone c.1 c.2 dist with
          | none => simp [ho] at hk
          | some v =>
            cases v with
            | false => rfl
            | true =>
              simp only [ho] at hk
              split at hk <;> simp at hk

theorem classifier_full (cfg : Cfg) (target : Nat) (e : ECone α) (dists : List α) (d h l : Nat)
    (hk : ellClassifier cfg target e dists d h l = some .full) :
    ∃ c dist, Hash.center (α := α) cfg d h = some c ∧ dists[l]? = some dist ∧ e.containsCone c.1 c.2 dist = true := by
  unfold ellClassifier at hk
  split at hk
  · simp at hk
  · rename_i c hc
    split at hk
    · simp at hk
    · rename_i dist hdist
      refine ⟨c, dist, hc, hdist, ?_⟩
      split at hk
      · assumption
      · simp only at hk
        split at hk
        · simp at hk
        · simp at hk
        · split at hk
          · simp at hk
          · simp at hk

theorem classifier_descend_full (cfg : Cfg) (target : Nat) (e : ECone α) (dists : List α) (d h l : Nat)
    (hk : ellClassifier cfg target e dists d h l = some (.descend true)) :
    d = target ∧ ∃ vs, Hash.vertices (α := α) cfg d h = some vs ∧ vs.all (fun v => e.contains v.1 v.2) = true := by
  unfold ellClassifier at hk
  split at hk
  · simp at hk
  · split at hk
    · simp at hk
    · split at hk
      · simp at hk
      · simp only at hk
        split at hk
        · simp at hk
        · simp at hk
        · split at hk
          · rename_i hdt
            simp only [Option.map_eq_some_iff] at hk
            obtain ⟨vs, hvs, hfl⟩ := hk
            refine ⟨by simpa using hdt, vs, hvs, ?_⟩
            simpa using hfl
          · simp at hk

theorem full_flag_rule (cfg : Cfg) (target : Nat) (e : ECone α) (dists : List α)
    (fuel ds root level : Nat) (out : List Cell)
    (h : coverRec target (ellClassifier cfg target e dists) fuel ds root level = some out)
    (c : Cell) (hc : c ∈ out) (hf : c.full = true) :
    (∃ (ctr : α × α) (dist : α) (l : Nat), Hash.center (α := α) cfg c.depth c.hash = some ctr ∧ dists[l]? = some dist ∧
        e.containsCone ctr.1 ctr.2 dist = true) ∨
    (c.depth = target ∧ ∃ vs, Hash.vertices (α := α) cfg c.depth c.hash = some vs ∧
        vs.all (fun v => e.contains v.1 v.2) = true) := by
  obtain ⟨l, hl | ⟨_, hl⟩⟩ := coverRec_full_rule target _ fuel ds root level out h c hc hf
  · obtain ⟨ctr, dist, h1, h2, h3⟩ := classifier_full cfg target e dists _ _ l hl
    exact Or.inl ⟨ctr, dist, l, h1, h2, h3⟩
  · exact Or.inr (classifier_descend_full cfg target e dists _ _ l hl)

theorem structure_below (cfg : Cfg) (target : Nat) (e : ECone α) (dists : List α) (D : Nat) (hD : target ≤ D)
    (fuel ds root level : Nat) (out : List Cell) (hds : ds ≤ target)
    (h : coverRec target (ellClassifier cfg target e dists) fuel ds root level = some out) :
    WF D out ∧ ∀ c ∈ out, lo D ⟨ds, root, true⟩ ≤ lo D c ∧ hi D c ≤ hi D ⟨ds, root, true⟩ ∧
      ds ≤ c.depth ∧ c.depth ≤ target :=
  coverRec_below target _ D hD fuel ds root level out hds h

theorem structure_roots (cfg : Cfg) (target : Nat) (e : ECone α) (dists : List α) (D : Nat) (hD : target ≤ D)
    (fuel ds : Nat) (hds : ds ≤ target) (roots : List Nat) (hp : roots.Pairwise (· < ·)) (out : List Cell)
    (h : roots.foldlM (fun acc r => (coverRec target (ellClassifier cfg target e dists) fuel ds r 0).map (acc ++ ·)) [] = some out) :
    WF D out ∧
    (∀ c ∈ out, ∃ r ∈ roots, ∃ o, coverRec target (ellClassifier cfg target e dists) fuel ds r 0 = some o ∧ c ∈ o) ∧
    (∀ r ∈ roots, ∃ o, coverRec target (ellClassifier cfg target e dists) fuel ds r 0 = some o ∧ ∀ c ∈ o, c ∈ out) := by
  obtain ⟨g1, g2, g3, _⟩ := rootsFold target _ D hD fuel ds hds roots [] out hp trivial (by simp) h
  refine ⟨g1, ?_, g3⟩
  intro c hc
  rcases g2 c hc with h0 | h0
  · simp at h0
  · exact h0

/-- large `a` (no starting depth): the internal list is the fold over the 12 base cells, hence well formed -/
theorem internal_allsky_start (cfg : Cfg) (depth : Nat) (lon lat a b pa : α) (cells : List Cell)
    (ha : Num.ge a (Num.halfPi : α) = false) (hb : Num.ge b (Num.pi : α) = false)
    (hno : C2V.hasBestStartingDepth a = false)
    (h : ellInternal cfg depth lon lat a b pa = some cells) :
    ∃ dists, C2V.largestC2VsWithRadius cfg.debug 0 (depth + 1) lon lat a = some dists ∧
      (List.range 12).foldlM (fun acc r =>
        (coverRec depth (ellClassifier cfg depth (ECone.new lon lat a b pa) dists) (depth + 2) 0 r 0).map (acc ++ ·)) [] = some cells ∧
      WF depth cells := by
  unfold ellInternal at h
  simp only [ha, hb, hno, Bool.false_eq_true, if_false, Bool.not_false, if_true] at h
  split at h
  · simp at h
  · rename_i dists hd
    refine ⟨dists, hd, h, ?_⟩
    exact (structure_roots cfg depth _ dists depth (Nat.le_refl _) (depth + 2) 0 (Nat.zero_le _) _ (by decide) cells h).1

theorem custom_pack_fixpoint (cfg : Cfg) (depth : Nat) (lon lat a b pa : α) (m : BMOC)
    (h : ellipticalConeCoverageCustom cfg depth 0 lon lat a b pa = some m) :
    m.dmax = depth ∧ packPass depth m.entries = m.entries := by
  unfold ellipticalConeCoverageCustom at h
  split at h
  · simp at h
  · simp only [beq_self_eq_true, if_true, Option.map_eq_some_iff] at h
    obtain ⟨cells, _, rfl⟩ := h
    exact ⟨rfl, C15.pack_fixpoint depth _⟩

/-- over ℝ: `Ellipse.contains ∘ Ellipse.fromOriented` is the canonical ellipse inequality -/
theorem ellipse_test_is_ellipse (a b s c x y : ℝ) (ha : a ≠ 0) (hb : b ≠ 0) (hsc : s * s + c * c = 1) :
    (Ellipse.fromOriented (α := ℝ) a b s c).contains x y = true ↔
      ((x * c + y * s) / a) ^ 2 + ((x * s - y * c) / b) ^ 2 ≤ 1 :=
  ellipse_contains_real a b s c x y ha hb hsc

/-- over ℝ: for `a = b` the elliptical cone is the cone of radius `a`, whatever the position angle -/
theorem circular_is_cone (lon lat a pa l φ : ℝ) (hlon : 0 ≤ lon ∧ lon < 2 * Real.pi)
    (hlat : -(Real.pi / 2) ≤ lat ∧ lat ≤ Real.pi / 2) (ha : 0 < a ∧ a < Real.pi / 2) :
    (ECone.new (α := ℝ) lon lat a a pa).contains l φ = true ↔
      Real.cos a ≤ Real.sin lat * Real.sin φ + Real.cos lat * Real.cos φ * Real.cos (l - lon) :=
  econe_contains_circular lon lat a pa l φ hlon hlat ha

/-- the hypotheses are satisfiable -/
example : (0 : ℝ) ≤ 1 ∧ (1 : ℝ) < 2 * Real.pi ∧ -(Real.pi / 2) ≤ (0 : ℝ) ∧ (0 : ℝ) ≤ Real.pi / 2 ∧ (0 : ℝ) < 1 / 2 ∧ (1 / 2 : ℝ) < Real.pi / 2 := by
  have := Real.two_le_pi
  refine ⟨by norm_num, by linarith, by linarith, by linarith, by norm_num, by linarith⟩

/-- the table of limits that selects the starting depth is regular (each depth halves the limit, relative excess
    `≈ 0.05·2^-k`): the obligation of C16 about the constants of the source, required here because the start cells of this
    coverage are chosen with that table -/
theorem start_depth_table_regular :
    (∀ j, j < 24 →
      C16.dyHalvingLo (j + 2) 1 25 (Gen.smallerEdge2OpEdgeDistDyadic.getD (j + 2) (0, 0)) (Gen.smallerEdge2OpEdgeDistDyadic.getD (j + 3) (0, 0)) = true ∧
      C16.dyHalvingHi (j + 2) 1 10 (Gen.smallerEdge2OpEdgeDistDyadic.getD (j + 2) (0, 0)) (Gen.smallerEdge2OpEdgeDistDyadic.getD (j + 3) (0, 0)) = true) :=
  C16.table_halving.1

/-! ## the elliptical-cone tests over the reals: what they mean, where they are sound, where they are not

`adist` = angular distance, `vec` = unit vector (`Lemmas/ConeReal.lean`); `ProjSIN.c0 p` = the projection centre;
`sinX`, `sinY` = the orthographic coordinates; `inCell`, `hcover`, H1 as in the cone scheme of C05. -/

section EllipticalConeReal
open Hpx Hpx.Cover Hpx.Bmoc Hpx.Sph Real

/-- **`ProjSIN::proj` is the orthographic projection**, defined exactly on the open visible hemisphere
    (`cos(angular distance) > 0`, the great circle at `π/2` excluded) -/
theorem proj_sin_spec (p : ProjSIN ℝ) (hp : p.Coherent) (l φ : ℝ) :
    p.proj l φ = if 0 < cos (adist (l, φ) p.c0) then some (sinX p.c0 (l, φ), sinY p.c0 (l, φ)) else none :=
  Hpx.Sph.proj_sin_spec p hp l φ

/-- **`forced_proj_and_distance`** (after the repair of finding F18): for *every* point of the sphere, the same
    `(x, y)` as the orthographic projection (mirror image for the points of the far hemisphere) together with the
    exact angular distance to the centre, in `[0, π]` -/
theorem forced_proj_and_distance_spec (p : ProjSIN ℝ) (hp : p.Coherent) (l φ : ℝ) :
    p.forcedProjAndDistance l φ = ((sinX p.c0 (l, φ), sinY p.c0 (l, φ)), adist (l, φ) p.c0) :=
  Hpx.Sph.forcedProjAndDistance_spec p hp l φ

/-- **circular case, `contains_cone`**: for `a = b < π/2` and a radius `r ≥ 0`, the test answers `true` exactly when
    the whole cone of radius `r` around `(l, φ)` lies at `≤ a` of the centre with `r < a`:
    `angular distance + r ≤ a`.  (Sound *and* complete in the circular case.) -/
theorem contains_cone_circular (lon lat a pa l φ r : ℝ) (ha : 0 < a ∧ a < π / 2) (hr : 0 ≤ r) :
    (ECone.new (α := ℝ) lon lat a a pa).containsCone l φ r = true ↔
      r < a ∧ adist (l, φ) (ProjSIN.new lon lat).c0 + r ≤ a :=
  Hpx.Sph.contains_cone_circular lon lat a pa l φ r ha hr

/-- **`contains_cone` is sound in the circular case**: if it answers `true`, every point within `r` of `(l, φ)` is within
    `a` of the centre (so belongs to the cone, `econe_contains_circular'`) -/
theorem contains_cone_circular_sound (lon lat a pa l φ r : ℝ) (ha : 0 < a ∧ a < π / 2) (hr : 0 ≤ r)
    (h : (ECone.new (α := ℝ) lon lat a a pa).containsCone l φ r = true) (q : ℝ × ℝ) (hq : adist (l, φ) q ≤ r) :
    adist q (ProjSIN.new lon lat).c0 ≤ a ∧ (ECone.new (α := ℝ) lon lat a a pa).contains q.1 q.2 = true :=
  Hpx.Sph.contains_cone_circular_sound lon lat a pa l φ r ha hr h q hq

/-- **`overlap_cone` is sound in the circular case** (`a = b < π/2`, `0 < r ≤ π/2`): if the cone of radius `r` around
    `(l, φ)` meets the cone of radius `a` around the centre (`angular distance ≤ a + r`) the test answers `true` — for
    every position of the cone centre, far hemisphere included — *outside the special case of the code*, i.e. when the
    norm `sin d` of the projected cone centre exceeds `2^-1024` (`1 / norm` finite in `f64`).  In the special case the
    code answers `r ≤ b`: see `overlap_cone_special_case`. -/
theorem overlap_cone_circular_sound (lon lat a pa l φ r : ℝ) (ha : 0 < a ∧ a < π / 2) (hr : 0 < r ∧ r ≤ π / 2)
    (hfin : 1 / 2 ^ 1024 < sin (adist (l, φ) (ProjSIN.new lon lat).c0))
    (hd : adist (l, φ) (ProjSIN.new lon lat).c0 ≤ a + r) :
    (ECone.new (α := ℝ) lon lat a a pa).overlapCone l φ r = some true :=
  Hpx.Sph.overlap_cone_circular_sound lon lat a pa l φ r ha hr hfin hd

/-- a concrete instance of the special case: ellipse centre `(0, 0)`, `a = b = 1/10`; the cone of radius `1/5` around
    `(0, 2^-1024)` contains the centre, yet `overlap_cone` answers `false`; the point is inside the ellipse, which is
    what keeps the cell in the coverage -/
theorem overlap_cone_special_case_counterexample :
    adist (0, 1 / 2 ^ 1024) (ProjSIN.new (α := ℝ) 0 0).c0 ≤ 1 / 5 ∧
    (ECone.new (α := ℝ) 0 0 (1 / 10) (1 / 10) 0).overlapCone 0 (1 / 2 ^ 1024) (1 / 5) = some false ∧
    (ECone.new (α := ℝ) 0 0 (1 / 10) (1 / 10) 0).contains 0 (1 / 2 ^ 1024) = true :=
  Hpx.Sph.overlap_cone_special_case_counterexample 

/-- **the test `contains ∨ overlap_cone` of the descent never rejects a cone that contains the centre of the ellipse**:
    general `0 < b ≤ a < π/2` with `2^-1024 < sin b`, `0 < r ≤ π/2` -/
theorem centre_cone_kept (lon lat a b pa l φ r : ℝ) (hb : 0 < b) (hba : b ≤ a) (ha : a < π / 2)
    (hmin : 1 / 2 ^ 1024 < sin b) (hr : 0 < r ∧ r ≤ π / 2)
    (hd : adist (l, φ) (ProjSIN.new lon lat).c0 ≤ r) :
    (ECone.new (α := ℝ) lon lat a b pa).contains l φ = true ∨
      (ECone.new (α := ℝ) lon lat a b pa).overlapCone l φ r = some true :=
  Hpx.Sph.centre_cone_kept lon lat a b pa l φ r hb hba ha hmin hr hd

/-- circular case: membership is `angular distance to (lon, lat) ≤ a`, for every real `lon`, `lat`, `pa` -/
theorem ellipse_circular_is_disc (lon lat a pa l φ : ℝ) (ha : 0 < a ∧ a < π / 2) :
    (ECone.new (α := ℝ) lon lat a a pa).contains l φ = true ↔ adist (l, φ) (lon, lat) ≤ a :=
  Hpx.Sph.econe_contains_circular_iff lon lat a pa l φ ha

/-- circular case: the skip test `¬contains ∧ overlap_cone = false` is sound -/
theorem circular_skip_sound (lon lat a pa l φ r : ℝ) (ha : 0 < a ∧ a < π / 2) (hmin : 1 / 2 ^ 1024 < sin a)
    (hr : r ≤ π / 2) (har : a + r ≤ 3)
    (hc : (ECone.new (α := ℝ) lon lat a a pa).contains l φ = false)
    (ho : (ECone.new (α := ℝ) lon lat a a pa).overlapCone l φ r = some false) :
    a + r < adist (l, φ) (lon, lat) :=
  Hpx.Sph.circular_skip_sound lon lat a pa l φ r ha hmin hr har hc ho

/-- **C13, the centre cell is kept** (relative to the envelope hypothesis `H1` at the centre): for every centre
    `(lon, lat)`, `0 < b ≤ a < π/2` (`sin b > 2^-1024`), position angle, target depth, start depth and start cell: if the
    descent returns `out` and `(lon, lat)` lies in the start cell, it lies in a cell of `out` -/
theorem centre_cell_kept (cfg : Cfg) (lon lat a b pa : ℝ) (hb : 0 < b) (hba : b ≤ a) (ha : a < π / 2)
    (hmin : 1 / 2 ^ 1024 < sin b) (dists : List ℝ) (hD : ∀ D ∈ dists, D ≤ π / 2)
    (inCell : Nat → Nat → ℝ × ℝ → Prop) (target ds : Nat)
    (hcover : ∀ d h q, d ≠ target → inCell d h q → inCell (d + 1) (h <<< 2) q ∨ inCell (d + 1) (h <<< 2 ||| 1) q ∨
      inCell (d + 1) (h <<< 2 ||| 2) q ∨ inCell (d + 1) (h <<< 2 ||| 3) q)
    (hext : ∀ d h q q', vec q.1 q.2 = vec q'.1 q'.2 → inCell d h q → inCell d h q')
    (H1 : ∀ d h c D, ds ≤ d → Hash.center (α := ℝ) cfg d h = some c → dists[d - ds]? = some D →
      inCell d h (lon, lat) → adist c (lon, lat) ≤ D)
    (fuel root : Nat) (out : List Cell)
    (h : coverRec target (ellClassifier (α := ℝ) cfg target (ECone.new lon lat a b pa) dists) fuel ds root 0 = some out)
    (hq : inCell ds root (lon, lat)) :
    ∃ c ∈ out, inCell c.depth c.hash (lon, lat) :=
  Hpx.Sph.centre_cell_kept cfg lon lat a b pa hb hba ha hmin dists hD inCell target ds hcover hext H1 fuel root out h hq

/-- **C13, circular case: nothing is missed** (relative to the envelope hypothesis `H1`): for `a = b`, every point within
    `a` of `(lon, lat)` lying in the start cell lies in a cell of the output -/
theorem circular_no_miss (cfg : Cfg) (lon lat a pa : ℝ) (ha : 0 < a ∧ a < π / 2)
    (hmin : 1 / 2 ^ 1024 < sin a) (dists : List ℝ) (hD : ∀ D ∈ dists, D ≤ π / 2 ∧ a + D ≤ 3)
    (inCell : Nat → Nat → ℝ × ℝ → Prop) (target ds : Nat)
    (hcover : ∀ d h q, d ≠ target → inCell d h q → inCell (d + 1) (h <<< 2) q ∨ inCell (d + 1) (h <<< 2 ||| 1) q ∨
      inCell (d + 1) (h <<< 2 ||| 2) q ∨ inCell (d + 1) (h <<< 2 ||| 3) q)
    (H1 : ∀ d h c D q, ds ≤ d → Hash.center (α := ℝ) cfg d h = some c → dists[d - ds]? = some D → inCell d h q →
      adist c q ≤ D)
    (fuel root : Nat) (out : List Cell)
    (h : coverRec target (ellClassifier (α := ℝ) cfg target (ECone.new lon lat a a pa) dists) fuel ds root 0 = some out)
    (q : ℝ × ℝ) (hq : inCell ds root q) (hin : adist q (lon, lat) ≤ a) :
    ∃ c ∈ out, inCell c.depth c.hash q :=
  Hpx.Sph.circular_no_miss cfg lon lat a pa ha hmin dists hD inCell target ds hcover H1 fuel root out h q hq hin

/-- **C13, circular case: `full` flags are truthful** (relative to `H1`) -/
theorem circular_full_inside (cfg : Cfg) (lon lat a pa : ℝ) (ha : 0 < a ∧ a < π / 2)
    (dists : List ℝ) (hD : ∀ D ∈ dists, 0 ≤ D)
    (inCell : Nat → Nat → ℝ × ℝ → Prop) (target ds : Nat)
    (H1 : ∀ d h c D q, ds ≤ d → Hash.center (α := ℝ) cfg d h = some c → dists[d - ds]? = some D → inCell d h q →
      adist c q ≤ D)
    (fuel root : Nat) (out : List Cell)
    (h : coverRec target (ellClassifier (α := ℝ) cfg target (ECone.new lon lat a a pa) dists) fuel ds root 0 = some out)
    (c : Cell) (hc : c ∈ out) (hf : c.full = true) :
    (∀ q, inCell c.depth c.hash q → adist q (lon, lat) ≤ a) ∨
    (c.depth = target ∧ ∃ vs, Hash.vertices (α := ℝ) cfg c.depth c.hash = some vs ∧
      ∀ v ∈ vs, adist v (lon, lat) ≤ a) :=
  Hpx.Sph.circular_full_inside cfg lon lat a pa ha dists hD inCell target ds H1 fuel root out h c hc hf

/-- **the skip test is unsound for `a ≠ b`, over the reals**: centre `(0, 0)`, `sin a = 19/20`, `sin b = 1/100`, major axis
    at `asin(24/25)` from the east; the cone of radius `r = asin(5/13)` around `p = (0, asin(84/85))` contains the point
    `q = (asin(3/5), asin(80/89))` of the elliptical cone, `p` is outside the ellipse and `overlap_cone(p, r) = false`:
    a cell of centre `p` whose bounding radius is `r` is skipped although it may contain `q`.
    (At `f64`: `a = 1.2532`, `b = 0.0100`, `pa = 0.2838`, `p = (0, 1.41725)`, `r = 0.39479`, `q = (0.6435, 1.1172)`: same
    answers, the test fails by 3.5 %.) -/
theorem overlap_cone_noncircular_unsound :
    ∃ (a b pa r : ℝ) (p q : ℝ × ℝ), 0 < b ∧ b ≤ a ∧ a < π / 2 ∧ 0 < r ∧ r ≤ π / 2 ∧ 1 / 2 ^ 1024 < sin b ∧
      (ECone.new (α := ℝ) 0 0 a b pa).contains q.1 q.2 = true ∧ adist p q ≤ r ∧
      (ECone.new (α := ℝ) 0 0 a b pa).contains p.1 p.2 = false ∧
      (ECone.new (α := ℝ) 0 0 a b pa).overlapCone p.1 p.2 r = some false :=
  Hpx.Sph.overlap_cone_noncircular_unsound 


end EllipticalConeReal


/-! ## H1 discharged in the equatorial region: the statements above with NO geometric hypothesis

For every elliptical cone with `|lat| + a` below the transition latitude (release profile), with the radii the model really
computes (`largest_center_to_vertex_distances_with_radius(ds, depth+1, lon, lat, a)`), for the strictly equatorial start
cells (`InCellEq`): circular case `a = b` - no position of the disc is missed and full cells lie inside the disc; general
`0 < b ≤ a` - the cell of the centre is kept.  `coverage_…`: the same on the output of `elliptical_cone_coverage_internal`
itself, in both branches (starting depth below / not below the requested depth). -/

section EquatorialUnconditional
open Hpx Hpx.Hash Hpx.C2V Hpx.C2VReal Hpx.Proj Hpx.Cover Hpx.CellReal Hpx.EnvelopeReal Hpx.TopoLift Hpx.CellExtent Hpx.EConeEq Hpx.Sph Hpx.Bmoc Real

/-- **`H1_equatorial_meet`**: the envelope inequality for EVERY position `q` of a strictly equatorial cell `(d, h)` as soon
    as the cell contains SOME position `q'` of the cone (`adist (lon, lat) q' ≤ r`), every `ds ≤ d ≤ target ≤ 29` (depths 0
    and 1 included), `|lat| + r < tl`.  (`CellExtent.H1_equatorial_cone` is the case `q' = q`; the case `q' =` centre of
    the cell is what the `full` verdicts need.) -/
theorem h1_equatorial_meet (cfg : Cfg) (lon lat r : ℝ) (hA : |lat| + r < tl) (ds target : ℕ) (hdt : ds ≤ target)
    (ht : target ≤ 29) (dists : List ℝ)
    (hdists : largestC2VsWithRadius false ds (target + 1) lon lat r = some dists) :
    ∀ d h c D q q', ds ≤ d → Hash.center (α := ℝ) cfg d h = some c → dists[d - ds]? = some D →
      InCellEq d h q → InCellEq d h q' → adist (lon, lat) q' ≤ r → adist c q ≤ D :=
  Hpx.EConeEq.H1_equatorial_meet cfg lon lat r hA ds target hdt ht dists hdists

/-- **`econe_circular_no_miss_equatorial`** (ℝ, release profile; C13 `circular_no_miss` with `H1`, `hcover` and the numeric
    side conditions discharged).  Circular elliptical cone `a = b`, centre `(lon, lat)` (any real longitude), `0 < a`,
    `|lat| + a < tl` (its latitude band stays below the transition latitude), `sin a > 2^-1024`, any position angle;
    EVERY starting depth `ds ≤ target ≤ 29`; `dists` the list `largest_center_to_vertex_distances_with_radius(ds,
    target + 1, lon, lat, a)` that `elliptical_cone_coverage_internal` computes (radius = semi-major axis).  If the descent
    of the model from a start cell `root` returns `out`, every position `q` of the disc that lies in `root`, a strictly
    equatorial cell, lies in a cell of `out`. -/
theorem econe_circular_no_miss_equatorial (cfg : Cfg) (lon lat a pa : ℝ) (ha : 0 < a) (hA : |lat| + a < tl)
    (hmin : 1 / 2 ^ 1024 < sin a) (ds target : ℕ) (hdt : ds ≤ target) (ht : target ≤ 29) (dists : List ℝ)
    (hdists : largestC2VsWithRadius false ds (target + 1) lon lat a = some dists) (fuel root : ℕ) (out : List Cell)
    (h : coverRec target (ellClassifier (α := ℝ) cfg target (ECone.new lon lat a a pa) dists) fuel ds root 0 = some out)
    (q : ℝ × ℝ) (hq : InCellEq ds root q) (hin : adist q (lon, lat) ≤ a) :
    ∃ c ∈ out, InCellEq c.depth c.hash q :=
  Hpx.EConeEq.econe_circular_no_miss_equatorial cfg lon lat a pa ha hA hmin ds target hdt ht dists hdists fuel root out h q hq hin

/-- **`econe_circular_full_inside_equatorial`** (ℝ, release profile; C13 `circular_full_inside` with `H1` discharged), EVERY
    starting depth `ds ≤ target ≤ 29` (no `2 ≤ ds`: a `full` verdict needs the centre of the cell inside the disc, so the cell
    meets the disc and `H1_equatorial_meet` applies at depths 0 and 1 too).  Under the assumptions of
    `econe_circular_no_miss_equatorial`, a cell of the output flagged FULL either has all its positions (as a strictly
    equatorial cell) within `a` of `(lon, lat)`, or is at the target depth with its four vertices within `a`. -/
theorem econe_circular_full_inside_equatorial (cfg : Cfg) (lon lat a pa : ℝ) (ha : 0 < a) (hA : |lat| + a < tl)
    (ds target : ℕ) (hdt : ds ≤ target) (ht : target ≤ 29) (dists : List ℝ)
    (hdists : largestC2VsWithRadius false ds (target + 1) lon lat a = some dists) (fuel root : ℕ) (out : List Cell)
    (h : coverRec target (ellClassifier (α := ℝ) cfg target (ECone.new lon lat a a pa) dists) fuel ds root 0 = some out)
    (c : Cell) (hc : c ∈ out) (hf : c.full = true) :
    (∀ q, InCellEq c.depth c.hash q → adist q (lon, lat) ≤ a) ∨
    (c.depth = target ∧ ∃ vs, Hash.vertices (α := ℝ) cfg c.depth c.hash = some vs ∧
      ∀ v ∈ vs, adist v (lon, lat) ≤ a) :=
  Hpx.EConeEq.econe_circular_full_inside_equatorial cfg lon lat a pa ha hA ds target hdt ht dists hdists fuel root out h c hc hf

/-- **`econe_centre_cell_kept_equatorial`** (ℝ, release profile; C13 `centre_cell_kept` with `H1`, `hcover`, `hext` and the
    numeric side condition discharged).  General ellipse `0 < b ≤ a`, any position angle, centre `(lon, lat)` (any real
    longitude) with `|lat| + a < tl`, `sin b > 2^-1024`; EVERY starting depth `ds ≤ target ≤ 29`; `dists` the list computed by
    the crate (radius `a`).  If the descent from a start cell `root` returns `out` and `(lon, lat)` is a position of `root`, a
    strictly equatorial cell, then `(lon, lat)` is a position of a cell of `out`. -/
theorem econe_centre_cell_kept_equatorial (cfg : Cfg) (lon lat a b pa : ℝ) (hb : 0 < b) (hba : b ≤ a)
    (hA : |lat| + a < tl) (hmin : 1 / 2 ^ 1024 < sin b) (ds target : ℕ) (hdt : ds ≤ target) (ht : target ≤ 29)
    (dists : List ℝ) (hdists : largestC2VsWithRadius false ds (target + 1) lon lat a = some dists) (fuel root : ℕ)
    (out : List Cell)
    (h : coverRec target (ellClassifier (α := ℝ) cfg target (ECone.new lon lat a b pa) dists) fuel ds root 0 = some out)
    (hq : InCellEq ds root (lon, lat)) :
    ∃ c ∈ out, InCellEq c.depth c.hash (lon, lat) :=
  Hpx.EConeEq.econe_centre_cell_kept_equatorial cfg lon lat a b pa hb hba hA hmin ds target hdt ht dists hdists fuel root out h hq

/-- **no miss, on the output of the model** (ℝ, release profile `cfg.debug = false`): circular ellipse `a = b`, `0 < a`,
    `|lat| + a < tl`, `sin a > 2^-1024`, `depth ≤ 29`, starting depth `ds = best_starting_depth(a) < depth`.  If
    `elliptical_cone_coverage_internal` returns `cells`, then the hash `h0` of the centre at depth `ds` and its neighbourhood
    `nm` are defined, and every position `q` of the disc that lies in a strictly equatorial cell of that neighbourhood lies in
    a cell of `cells`. -/
theorem coverage_circular_no_miss_equatorial (cfg : Cfg) (hcfg : cfg.debug = false) (depth : ℕ) (hd : depth ≤ 29)
    (lon lat a pa : ℝ) (ha : 0 < a) (hA : |lat| + a < tl) (hmin : 1 / 2 ^ 1024 < sin a) (ds : ℕ)
    (hds : bestStartingDepth a = some ds) (hlt : ds < depth) (cells : List Cell)
    (h : ellInternal cfg depth lon lat a a pa = some cells) :
    ∃ h0 nm, Hash.hashV2 cfg ds lon lat = some h0 ∧ Topo.neighbours cfg ds h0 true = some nm ∧
      ∀ root ∈ nm.map (·.2), ∀ q, InCellEq ds root q → adist q (lon, lat) ≤ a →
        ∃ c ∈ cells, InCellEq c.depth c.hash q :=
  Hpx.EConeEq.ellInternal_circular_no_miss_equatorial cfg hcfg depth hd lon lat a pa ha hA hmin ds hds hlt cells h

/-- **`full` flags are truthful, on the output of the model**: under the same assumptions every cell of `cells` flagged FULL
    either has all its positions (as a strictly equatorial cell) within `a` of `(lon, lat)`, or is at depth `depth` with its
    four vertices within `a` of `(lon, lat)` -/
theorem coverage_circular_full_inside_equatorial (cfg : Cfg) (hcfg : cfg.debug = false) (depth : ℕ) (hd : depth ≤ 29)
    (lon lat a pa : ℝ) (ha : 0 < a) (hA : |lat| + a < tl) (ds : ℕ)
    (hds : bestStartingDepth a = some ds) (hlt : ds < depth) (cells : List Cell)
    (h : ellInternal cfg depth lon lat a a pa = some cells) (c : Cell) (hc : c ∈ cells) (hf : c.full = true) :
    (∀ q, InCellEq c.depth c.hash q → adist q (lon, lat) ≤ a) ∨
    (c.depth = depth ∧ ∃ vs, Hash.vertices (α := ℝ) cfg c.depth c.hash = some vs ∧
      ∀ v ∈ vs, adist v (lon, lat) ≤ a) :=
  Hpx.EConeEq.ellInternal_circular_full_inside_equatorial cfg hcfg depth hd lon lat a pa ha hA ds hds hlt cells h c hc hf

/-- **the cell of the centre is kept, on the output of the model**: general ellipse `0 < b ≤ a`, any position angle,
    `|lat| + a < tl`, `sin b > 2^-1024`, `ds = best_starting_depth(a) < depth ≤ 29`.  If the centre `(lon, lat)` is a position
    of a strictly equatorial cell of the neighbourhood of its hash at depth `ds`, it is a position of a cell of `cells`. -/
theorem coverage_centre_cell_kept_equatorial (cfg : Cfg) (hcfg : cfg.debug = false) (depth : ℕ) (hd : depth ≤ 29)
    (lon lat a b pa : ℝ) (hb : 0 < b) (hba : b ≤ a) (hA : |lat| + a < tl) (hmin : 1 / 2 ^ 1024 < sin b) (ds : ℕ)
    (hds : bestStartingDepth a = some ds) (hlt : ds < depth) (cells : List Cell)
    (h : ellInternal cfg depth lon lat a b pa = some cells) :
    ∃ h0 nm, Hash.hashV2 cfg ds lon lat = some h0 ∧ Topo.neighbours cfg ds h0 true = some nm ∧
      ∀ root ∈ nm.map (·.2), InCellEq ds root (lon, lat) → ∃ c ∈ cells, InCellEq c.depth c.hash (lon, lat) :=
  Hpx.EConeEq.ellInternal_centre_cell_kept_equatorial cfg hcfg depth hd lon lat a b pa hb hba hA hmin ds hds hlt cells h

/-- **no miss, branch `depth ≤ ds`** (ℝ, release profile): circular ellipse `a = b`, `0 < a`, `|lat| + a < tl`,
    `sin a > 2^-1024`.  If `elliptical_cone_coverage_internal` returns `cells`, every strictly equatorial cell `e` of the
    neighbourhood (depth `ds`) that contains a position `q` of the disc has its ancestor at `depth` in `cells`. -/
theorem coverage_shallow_circular_no_miss_equatorial (cfg : Cfg) (hcfg : cfg.debug = false) (depth : ℕ)
    (lon lat a pa : ℝ) (ha : 0 < a) (hA : |lat| + a < tl) (hmin : 1 / 2 ^ 1024 < sin a) (ds : ℕ)
    (hds : bestStartingDepth a = some ds) (hge : depth ≤ ds) (cells : List Cell)
    (h : ellInternal cfg depth lon lat a a pa = some cells) :
    ∃ h0 nm, Hash.hashV2 cfg ds lon lat = some h0 ∧ Topo.neighbours cfg ds h0 true = some nm ∧
      ∀ e ∈ nm.map (·.2), ∀ q, InCellEq ds e q → adist q (lon, lat) ≤ a →
        ({ depth := depth, hash := e >>> ((ds - depth) <<< 1), full := false } : Cell) ∈ cells :=
  Hpx.EConeEq.ellInternal_shallow_circular_no_miss_equatorial cfg hcfg depth lon lat a pa ha hA hmin ds hds hge cells h

/-- **the cell of the centre is kept, branch `depth ≤ ds`**: general ellipse `0 < b ≤ a`, `|lat| + a < tl`,
    `sin b > 2^-1024`: every strictly equatorial cell `e` of the neighbourhood that contains the centre `(lon, lat)` has its
    ancestor at `depth` in `cells`. -/
theorem coverage_shallow_centre_cell_kept_equatorial (cfg : Cfg) (hcfg : cfg.debug = false) (depth : ℕ)
    (lon lat a b pa : ℝ) (hb : 0 < b) (hba : b ≤ a) (hA : |lat| + a < tl) (hmin : 1 / 2 ^ 1024 < sin b) (ds : ℕ)
    (hds : bestStartingDepth a = some ds) (hge : depth ≤ ds) (cells : List Cell)
    (h : ellInternal cfg depth lon lat a b pa = some cells) :
    ∃ h0 nm, Hash.hashV2 cfg ds lon lat = some h0 ∧ Topo.neighbours cfg ds h0 true = some nm ∧
      ∀ e ∈ nm.map (·.2), InCellEq ds e (lon, lat) →
        ({ depth := depth, hash := e >>> ((ds - depth) <<< 1), full := false } : Cell) ∈ cells :=
  Hpx.EConeEq.ellInternal_shallow_centre_cell_kept_equatorial cfg hcfg depth lon lat a b pa hb hba hA hmin ds hds hge cells h

/-- in the branch `depth ≤ ds` no cell is flagged full: the `full`-flag statement is void there -/
theorem coverage_shallow_no_full (cfg : Cfg) (depth : ℕ) (lon lat a b pa : ℝ) (hb : b < π) (hA : |lat| + a < tl) (ds : ℕ)
    (hds : bestStartingDepth a = some ds) (hge : depth ≤ ds) (cells : List Cell)
    (h : ellInternal cfg depth lon lat a b pa = some cells) : ∀ c ∈ cells, c.full = false ∧ c.depth = depth :=
  Hpx.EConeEq.ellInternal_shallow_no_full cfg depth lon lat a b pa hb hA ds hds hge cells h


end EquatorialUnconditional


/-! ## tightness of the elliptical-cone coverage: every reported cell has its centre within `a + 2·Mtrue(depth)` of the centre -/

section Tightness
open Hpx Hpx.Hash Hpx.Proj Hpx.Cover Hpx.C2V Hpx.C2VReal Hpx.EnvelopeReal Hpx.EnvelopePolar Hpx.CellReal Hpx.TopoLift Hpx.CellExtent Hpx.Bmoc Hpx.Sph Hpx.EConeEq Hpx.Tightness Real

/-- **`econe_tight_rec`** (ℝ, release profile).  Elliptical cone of centre `(lon, lat)`, semi-axes `0 < b ≤ a < π/2`, any
    position angle; `dists` the list `largest_center_to_vertex_distances_with_radius(ds, target + 1, lon, lat, a)`.
    Every cell of the output of the descent has a centre, which is within `a + 2·Mtrue depth` of the centre of the ellipse. -/
theorem econe_tight_rec (cfg : Cfg) (lon lat a b pa : ℝ) (hb : 0 < b) (hba : b ≤ a) (ha : a < π / 2)
    (ds target : ℕ) (hdt : ds ≤ target) (ht : target ≤ 29) (dists : List ℝ)
    (hdists : largestC2VsWithRadius false ds (target + 1) lon lat a = some dists) (fuel root : ℕ) (out : List Cell)
    (h : coverRec target (ellClassifier (α := ℝ) cfg target (ECone.new lon lat a b pa) dists) fuel ds root 0 = some out)
    (c : Cell) (hc : c ∈ out) :
    ∃ ctr, center (α := ℝ) cfg c.depth c.hash = some ctr ∧
      adist ctr (lon, lat) ≤ a + valR c.depth lon lat a ∧ adist ctr (lon, lat) ≤ a + 2 * Mtrue c.depth :=
  Hpx.Tightness.econe_tight_rec cfg lon lat a b pa hb hba ha ds target hdt ht dists hdists fuel root out h c hc

/-- **`ellInternal_tight`** (ℝ, both profiles): every cell `c` of the list that
    `elliptical_cone_coverage_internal(depth, lon, lat, a, b, pa)` hands to the builder (`0 < b ≤ a < π/2`) satisfies
    * (twelve base cells + recursion, start depth `ds < depth` + recursion, small ellipse with `ds = depth`) its centre is
      within `a + 2·Mtrue c.depth` of the centre of the ellipse; or
    * (small ellipse, `ds = best_starting_depth(a) > depth`) `c` is the (partial) ancestor at `depth` of a cell `e` of depth
      `ds` whose centre is within `a + 2·Mtrue ds` of the centre of the ellipse. -/
theorem ell_internal_tight (cfg : Cfg) (depth : ℕ) (hd : depth ≤ 29) (lon lat a b pa : ℝ) (hb : 0 < b) (hba : b ≤ a)
    (ha : a < π / 2) (cells : List Cell) (h : ellInternal (α := ℝ) cfg depth lon lat a b pa = some cells) (c : Cell)
    (hc : c ∈ cells) :
    (∃ ctr, center (α := ℝ) cfg c.depth c.hash = some ctr ∧ adist ctr (lon, lat) ≤ a + 2 * Mtrue c.depth) ∨
    (∃ ds e ctr, C2V.bestStartingDepth a = some ds ∧ depth < ds ∧ c.depth = depth ∧ c.full = false ∧
      c.hash = e >>> ((ds - depth) <<< 1) ∧ center (α := ℝ) cfg ds e = some ctr ∧
      adist ctr (lon, lat) ≤ a + 2 * Mtrue ds) :=
  Hpx.Tightness.ellInternal_tight cfg depth hd lon lat a b pa hb hba ha cells h c hc

/-- **`elliptical_cone_coverage` (`delta_depth = 0`), on the returned BMOC** (ℝ, both profiles, `0 < b ≤ a < π/2`): every
    entry is either a FULL cell, or a cell of the internal list, for which `ellInternal_tight` holds -/
theorem elliptical_cone_coverage_tight (cfg : Cfg) (depth : ℕ) (lon lat a b pa : ℝ) (hb : 0 < b) (hba : b ≤ a)
    (ha : a < π / 2) (m : BMOC) (h : ellipticalConeCoverageCustom (α := ℝ) cfg depth 0 lon lat a b pa = some m) (e : ℕ)
    (he : e ∈ m.entries) :
    (decode e depth).full = true ∨
    (∃ ctr, center (α := ℝ) cfg (decode e depth).depth (decode e depth).hash = some ctr ∧
      adist ctr (lon, lat) ≤ a + 2 * Mtrue (decode e depth).depth) ∨
    (∃ ds e' ctr, C2V.bestStartingDepth a = some ds ∧ depth < ds ∧ (decode e depth).depth = depth ∧
      (decode e depth).hash = e' >>> ((ds - depth) <<< 1) ∧ center (α := ℝ) cfg ds e' = some ctr ∧
      adist ctr (lon, lat) ≤ a + 2 * Mtrue ds) :=
  Hpx.Tightness.ellipticalConeCoverage_tight cfg depth lon lat a b pa hb hba ha m h e he


end Tightness


/-! ## on the RETURNED BMOC of `elliptical_cone_coverage(_custom)` (equatorial ellipses, both profiles, pack and to_lower_depth included)

`ellipticalConeCoverage` is the `custom` function with `delta_depth = 0`.  Full-inside is a disjunction: a position of a
full entry is inside the disc, or it lies in a deepest-depth cell under the entry that was flagged full by the
four-vertices rule (for such a cell only its four vertices are shown inside). -/

section OnTheReturnedBmoc
open Hpx Hpx.Hash Hpx.C2V Hpx.C2VReal Hpx.Proj Hpx.Cover Hpx.CellReal Hpx.EnvelopeReal Hpx.TopoLift Hpx.CellExtent Hpx.Bmoc Hpx.Sph Hpx.Tightness Hpx.EConeEq Hpx.ConeBmoc Hpx.EConeBmoc Real

/-- **`elliptical_cone_coverage_circular_no_miss_equatorial`** (ℝ, both profiles, every `depth ≤ 29`).  Circular elliptical
    cone `a = b`, any position angle, `0 < a`, `|lat| + a < tl`, `sin a > 2^-1024`; `m` the BMOC returned by
    `elliptical_cone_coverage(depth, lon, lat, a, a, pa)`.  For every start cell `root` of depth
    `ds = best_starting_depth(a) ≤ depth` (`IsStartCell`: the cell of the centre at depth `ds` or one of its neighbours) and
    every position `q` within `a` of `(lon, lat)` that lies in `root`, a strictly equatorial cell, there is an ENTRY of `m`
    whose cell contains `q` — a cell emitted by the descent or a parent created by the compaction. -/
theorem elliptical_cone_coverage_circular_no_miss_equatorial (cfg : Cfg) (depth : ℕ) (lon lat a pa : ℝ) (ha : 0 < a)
    (hA : |lat| + a < tl) (hmin : 1 / 2 ^ 1024 < sin a) (m : BMOC)
    (h : ellipticalConeCoverage (α := ℝ) cfg depth lon lat a a pa = some m)
    (ds root : ℕ) (hst : IsStartCell cfg lon lat a ds root) (hds : ds ≤ depth) (q : ℝ × ℝ)
    (hq : InCellEq ds root q) (hin : adist q (lon, lat) ≤ a) :
    ∃ e ∈ m.entries, InCellEq (decode e depth).depth (decode e depth).hash q :=
  Hpx.EConeBmoc.elliptical_cone_coverage_circular_no_miss_equatorial cfg depth lon lat a pa ha hA hmin m h ds root hst hds q hq hin

/-- **`elliptical_cone_coverage_circular_full_inside_equatorial`** (ℝ, both profiles, every `depth ≤ 29`, `a = b`,
    `|lat| + a < tl`).  Let `e` be an entry of the returned BMOC flagged FULL — a cell flagged by the descent or a parent
    created by the compaction of four full cells, at any number of levels — and `q` a position of its cell (`InCellEq`).
    Then EITHER `q` is within `a` of `(lon, lat)`, OR `q` is a position of a cell `x` of the deepest depth `depth` lying under
    the entry (`x / 4^(depth − d_e) = h_e`) whose four VERTICES are within `a` of `(lon, lat)` — the rule by which
    `elliptical_cone_coverage_internal` flags full the cells of the deepest depth (the whole of such a cell is not proved to
    be inside). -/
theorem elliptical_cone_coverage_circular_full_inside_equatorial (cfg : Cfg) (depth : ℕ) (lon lat a pa : ℝ) (ha : 0 < a)
    (hA : |lat| + a < tl) (m : BMOC) (h : ellipticalConeCoverage (α := ℝ) cfg depth lon lat a a pa = some m)
    (e : ℕ) (he : e ∈ m.entries) (hf : (decode e depth).full = true) (q : ℝ × ℝ)
    (hq : InCellEq (decode e depth).depth (decode e depth).hash q) :
    adist q (lon, lat) ≤ a ∨
    ∃ x, x / 4 ^ (depth - (decode e depth).depth) = (decode e depth).hash ∧ InCellEq depth x q ∧
      ∃ vs, Hash.vertices (α := ℝ) cfg depth x = some vs ∧ ∀ v ∈ vs, adist v (lon, lat) ≤ a :=
  Hpx.EConeBmoc.elliptical_cone_coverage_circular_full_inside_equatorial cfg depth lon lat a pa ha hA m h e he hf q hq

/-- **`elliptical_cone_coverage_centre_cell_kept_equatorial`** (ℝ, both profiles, every `depth ≤ 29`).  General ellipse
    `0 < b ≤ a`, any position angle, `|lat| + a < tl`, `sin b > 2^-1024`.  If the centre `(lon, lat)` is a position of a
    strictly equatorial start cell `root` of depth `ds = best_starting_depth(a) ≤ depth`, then `(lon, lat)` is a position of
    the cell of an ENTRY of the returned BMOC. -/
theorem elliptical_cone_coverage_centre_cell_kept_equatorial (cfg : Cfg) (depth : ℕ) (lon lat a b pa : ℝ) (hb : 0 < b)
    (hba : b ≤ a) (hA : |lat| + a < tl) (hmin : 1 / 2 ^ 1024 < sin b) (m : BMOC)
    (h : ellipticalConeCoverage (α := ℝ) cfg depth lon lat a b pa = some m)
    (ds root : ℕ) (hst : IsStartCell cfg lon lat a ds root) (hds : ds ≤ depth) (hq : InCellEq ds root (lon, lat)) :
    ∃ e ∈ m.entries, InCellEq (decode e depth).depth (decode e depth).hash (lon, lat) :=
  Hpx.EConeBmoc.elliptical_cone_coverage_centre_cell_kept_equatorial cfg depth lon lat a b pa hb hba hA hmin m h ds root hst hds hq

/-- **no-miss for `elliptical_cone_coverage_custom`, `delta_depth ≠ 0`, circular ellipse** (ℝ, both profiles).  The descent
    is run at `deep = depth + delta_depth ≤ 29`, compacted, then degraded to `depth`.  For every strictly equatorial start
    cell `root` (of the descent at `deep`; any start depth `ds`) and every position `q` of the disc in it, some ENTRY of the
    returned BMOC contains `q` in the plane sense — in the sense of `InCellEq` when the entry is strictly equatorial, or
    flagged full (`ds ≤ deep`) — and covers the cell number `x` of `q` at depth `deep`. -/
theorem elliptical_cone_coverage_custom_circular_no_miss_equatorial (cfg : Cfg) (depth deltaDepth : ℕ)
    (hdd : deltaDepth ≠ 0) (lon lat a pa : ℝ) (ha : 0 < a) (hA : |lat| + a < tl) (hmin : 1 / 2 ^ 1024 < sin a)
    (m : BMOC) (h : ellipticalConeCoverageCustom (α := ℝ) cfg depth deltaDepth lon lat a a pa = some m)
    (ds root : ℕ) (hst : IsStartCell cfg lon lat a ds root) (q : ℝ × ℝ)
    (hq : InCellEq ds root q) (hin : adist q (lon, lat) ≤ a) :
    ∃ e ∈ m.entries, InCellPlane (decode e depth).depth (decode e depth).hash q ∧
      (|pcy (decode e depth).depth (decode e depth).hash| < 1 →
        InCellEq (decode e depth).depth (decode e depth).hash q) ∧
      (ds ≤ depth + deltaDepth → (decode e depth).full = true →
        InCellEq (decode e depth).depth (decode e depth).hash q) ∧
      ∃ x, InCellPlane (depth + deltaDepth) x q ∧ (ds ≤ depth + deltaDepth → InCellEq (depth + deltaDepth) x q) ∧
        x / 4 ^ (depth + deltaDepth - (decode e depth).depth) = (decode e depth).hash :=
  Hpx.EConeBmoc.elliptical_cone_coverage_custom_circular_no_miss_equatorial cfg depth deltaDepth hdd lon lat a pa ha hA hmin m h ds root hst q hq hin

/-- **the cell of the centre is kept by `elliptical_cone_coverage_custom`, `delta_depth ≠ 0`** (general ellipse
    `0 < b ≤ a`, `|lat| + a < tl`, `sin b > 2^-1024`): if the centre `(lon, lat)` is a position of a strictly equatorial start
    cell `root` (any start depth), some ENTRY of the returned BMOC contains it in the plane sense — in the sense of
    `InCellEq` when the entry is strictly equatorial, or flagged full (`ds ≤ deep`) -/
theorem elliptical_cone_coverage_custom_centre_cell_kept_equatorial (cfg : Cfg) (depth deltaDepth : ℕ)
    (hdd : deltaDepth ≠ 0) (lon lat a b pa : ℝ) (hb : 0 < b) (hba : b ≤ a) (hA : |lat| + a < tl)
    (hmin : 1 / 2 ^ 1024 < sin b) (m : BMOC)
    (h : ellipticalConeCoverageCustom (α := ℝ) cfg depth deltaDepth lon lat a b pa = some m)
    (ds root : ℕ) (hst : IsStartCell cfg lon lat a ds root) (hq : InCellEq ds root (lon, lat)) :
    ∃ e ∈ m.entries, InCellPlane (decode e depth).depth (decode e depth).hash (lon, lat) ∧
      (|pcy (decode e depth).depth (decode e depth).hash| < 1 →
        InCellEq (decode e depth).depth (decode e depth).hash (lon, lat)) ∧
      (ds ≤ depth + deltaDepth → (decode e depth).full = true →
        InCellEq (decode e depth).depth (decode e depth).hash (lon, lat)) :=
  Hpx.EConeBmoc.elliptical_cone_coverage_custom_centre_cell_kept_equatorial cfg depth deltaDepth hdd lon lat a b pa hb hba hA hmin m h ds root hst hq


end OnTheReturnedBmoc

end Hpx.C13
