import HpxVerif.Lemmas.PolyLemmas
import HpxVerif.Props.C15
import HpxVerif.Lemmas.EllipseReal
import HpxVerif.Props.C16

set_option autoImplicit false   -- an unknown identifier in a statement is an error, never a new variable

/-!
# C13 — elliptical-cone coverage: centre kept, circular case sound, tight, guarded

Model: `Sph.ellipticalConeCoverageCustom` (`elliptical_cone_coverage(_custom)`: guard, `EllipticalCone::new`, `ProjSIN`,
`Ellipse::from_oriented / contains / extended_geom`, `overlap_cone`, `contains_cone`, start cells, descent, packing,
`to_lower_depth`) — tied bit for bit, entry by entry, to the crate on every run, both build profiles.

Proved, for **every numeric instance and whatever the floating-point tests answer**:
* `guard`, `guard_custom`: a semi-major axis `≥ π/2` is rejected (`none` = panic) for every depth, `delta_depth`, centre,
  `b`, position angle; nothing is computed before the guard;
* `classifier_skip`: a cell is skipped only if its centre is *not* inside the ellipse **and** `overlap_cone` answered
  false — a cell whose centre lies in the ellipse is never dropped;
* `full_flag_rule`: a cell flagged full either passed `contains_cone` with the centre-to-vertex bound of its level, or is
  at the target depth with its four vertices inside the ellipse (`EllipticalCone.contains`);
* `structure_below`, `structure_roots`: per start cell the output is well formed, inside the start cell, depths between
  start and target; with strictly increasing start cells the whole list is well formed and is exactly the concatenation;
* `internal_allsky_start`: with no starting depth (large `a`) the internal list *is* the fold over the 12 base cells;
* `custom_pack_fixpoint`: the entries returned for `delta_depth = 0` are a fixed point of the compaction pass.
Over the reals (the same model functions at `α := ℝ`; `ellipse_test_is_ellipse`, `circular_is_cone`): the covariance-form
test *is* the canonical ellipse inequality with semi-axes `a, b` and major axis along the given unit vector, and for
`a = b` the membership test *is* the cone membership `cos a ≤ cos(angular distance)`, for every position angle.
Left to the oracle: the centre cell is kept (needs `overlap_cone` to be sound w.r.t. the empirical cell-size bounds of
C16), tightness, circular no-miss (witness points), findings F7 (debug assertions of the cell-size helper).
-/

namespace Hpx.C13
open Hpx Hpx.Cover Hpx.Bmoc Hpx.Sph

variable {α : Type} [Num α]

theorem guard (cfg : Cfg) (depth : Nat) (lon lat a b pa : α) (ha : Num.ge a (Num.halfPi : α) = true) :
    ellInternal cfg depth lon lat a b pa = none := by
  unfold ellInternal; simp [ha]

theorem guard_custom (cfg : Cfg) (depth deltaDepth : Nat) (lon lat a b pa : α) (ha : Num.ge a (Num.halfPi : α) = true) :
    ellipticalConeCoverageCustom cfg depth deltaDepth lon lat a b pa = none := by
  unfold ellipticalConeCoverageCustom
  simp only [guard cfg _ lon lat a b pa ha]
  split
  · rfl
  · split
    · rfl
    · split <;> rfl

theorem classifier_skip (cfg : Cfg) (target : Nat) (e : ECone α) (dists : List α) (d h l : Nat)
    (hk : ellClassifier cfg target e dists d h l = some .skip) :
    ∃ c dist, Hash.center (α := α) cfg d h = some c ∧ dists[l]? = some dist ∧
      e.contains c.1 c.2 = false ∧ e.overlapCone c.1 c.2 dist = some false := by
  unfold ellClassifier at hk
  split at hk
  · simp at hk
  · rename_i c hc
    split at hk
    · simp at hk
    · rename_i dist hdist
      refine ⟨c, dist, hc, hdist, ?_⟩
      split at hk
      · simp at hk
      · simp only at hk
        by_cases hin : e.contains c.1 c.2 = true
        · simp only [hin, if_true] at hk
          split at hk <;> simp at hk
        · simp only [hin, Bool.false_eq_true, if_false] at hk
          refine ⟨by simpa using hin, ?_⟩
          cases ho : e.overlapCone c.1 c.2 dist with
          | none => simp [ho] at hk
          | some v =>
            cases v with
            | false => rfl
            | true =>
              simp only [ho] at hk
              split at hk <;> simp at hk

theorem classifier_full (cfg : Cfg) (target : Nat) (e : ECone α) (dists : List α) (d h l : Nat)
    (hk : ellClassifier cfg target e dists d h l = some .full) :
    ∃ c dist, Hash.center (α := α) cfg d h = some c ∧ dists[l]? = some dist ∧ e.containsCone c.1 c.2 dist = true := by
  unfold ellClassifier at hk
  split at hk
  · simp at hk
  · rename_i c hc
    split at hk
    · simp at hk
    · rename_i dist hdist
      refine ⟨c, dist, hc, hdist, ?_⟩
      split at hk
      · assumption
      · simp only at hk
        split at hk
        · simp at hk
        · simp at hk
        · split at hk
          · simp at hk
          · simp at hk

theorem classifier_descend_full (cfg : Cfg) (target : Nat) (e : ECone α) (dists : List α) (d h l : Nat)
    (hk : ellClassifier cfg target e dists d h l = some (.descend true)) :
    d = target ∧ ∃ vs, Hash.vertices (α := α) cfg d h = some vs ∧ vs.all (fun v => e.contains v.1 v.2) = true := by
  unfold ellClassifier at hk
  split at hk
  · simp at hk
  · split at hk
    · simp at hk
    · split at hk
      · simp at hk
      · simp only at hk
        split at hk
        · simp at hk
        · simp at hk
        · split at hk
          · rename_i hdt
            simp only [Option.map_eq_some_iff] at hk
            obtain ⟨vs, hvs, hfl⟩ := hk
            refine ⟨by simpa using hdt, vs, hvs, ?_⟩
            simpa using hfl
          · simp at hk

theorem full_flag_rule (cfg : Cfg) (target : Nat) (e : ECone α) (dists : List α)
    (fuel ds root level : Nat) (out : List Cell)
    (h : coverRec target (ellClassifier cfg target e dists) fuel ds root level = some out)
    (c : Cell) (hc : c ∈ out) (hf : c.full = true) :
    (∃ (ctr : α × α) (dist : α) (l : Nat), Hash.center (α := α) cfg c.depth c.hash = some ctr ∧ dists[l]? = some dist ∧
        e.containsCone ctr.1 ctr.2 dist = true) ∨
    (c.depth = target ∧ ∃ vs, Hash.vertices (α := α) cfg c.depth c.hash = some vs ∧
        vs.all (fun v => e.contains v.1 v.2) = true) := by
  obtain ⟨l, hl | ⟨_, hl⟩⟩ := coverRec_full_rule target _ fuel ds root level out h c hc hf
  · obtain ⟨ctr, dist, h1, h2, h3⟩ := classifier_full cfg target e dists _ _ l hl
    exact Or.inl ⟨ctr, dist, l, h1, h2, h3⟩
  · exact Or.inr (classifier_descend_full cfg target e dists _ _ l hl)

theorem structure_below (cfg : Cfg) (target : Nat) (e : ECone α) (dists : List α) (D : Nat) (hD : target ≤ D)
    (fuel ds root level : Nat) (out : List Cell) (hds : ds ≤ target)
    (h : coverRec target (ellClassifier cfg target e dists) fuel ds root level = some out) :
    WF D out ∧ ∀ c ∈ out, lo D ⟨ds, root, true⟩ ≤ lo D c ∧ hi D c ≤ hi D ⟨ds, root, true⟩ ∧
      ds ≤ c.depth ∧ c.depth ≤ target :=
  coverRec_below target _ D hD fuel ds root level out hds h

theorem structure_roots (cfg : Cfg) (target : Nat) (e : ECone α) (dists : List α) (D : Nat) (hD : target ≤ D)
    (fuel ds : Nat) (hds : ds ≤ target) (roots : List Nat) (hp : roots.Pairwise (· < ·)) (out : List Cell)
    (h : roots.foldlM (fun acc r => (coverRec target (ellClassifier cfg target e dists) fuel ds r 0).map (acc ++ ·)) [] = some out) :
    WF D out ∧
    (∀ c ∈ out, ∃ r ∈ roots, ∃ o, coverRec target (ellClassifier cfg target e dists) fuel ds r 0 = some o ∧ c ∈ o) ∧
    (∀ r ∈ roots, ∃ o, coverRec target (ellClassifier cfg target e dists) fuel ds r 0 = some o ∧ ∀ c ∈ o, c ∈ out) := by
  obtain ⟨g1, g2, g3, _⟩ := rootsFold target _ D hD fuel ds hds roots [] out hp trivial (by simp) h
  refine ⟨g1, ?_, g3⟩
  intro c hc
  rcases g2 c hc with h0 | h0
  · simp at h0
  · exact h0

/-- large `a` (no starting depth): the internal list is the fold over the 12 base cells, hence well formed -/
theorem internal_allsky_start (cfg : Cfg) (depth : Nat) (lon lat a b pa : α) (cells : List Cell)
    (ha : Num.ge a (Num.halfPi : α) = false) (hb : Num.ge b (Num.pi : α) = false)
    (hno : C2V.hasBestStartingDepth a = false)
    (h : ellInternal cfg depth lon lat a b pa = some cells) :
    ∃ dists, C2V.largestC2VsWithRadius cfg.debug 0 (depth + 1) lon lat a = some dists ∧
      (List.range 12).foldlM (fun acc r =>
        (coverRec depth (ellClassifier cfg depth (ECone.new lon lat a b pa) dists) (depth + 2) 0 r 0).map (acc ++ ·)) [] = some cells ∧
      WF depth cells := by
  unfold ellInternal at h
  simp only [ha, hb, hno, Bool.false_eq_true, if_false, Bool.not_false, if_true] at h
  split at h
  · simp at h
  · rename_i dists hd
    refine ⟨dists, hd, h, ?_⟩
    exact (structure_roots cfg depth _ dists depth (Nat.le_refl _) (depth + 2) 0 (Nat.zero_le _) _ (by decide) cells h).1

theorem custom_pack_fixpoint (cfg : Cfg) (depth : Nat) (lon lat a b pa : α) (m : BMOC)
    (h : ellipticalConeCoverageCustom cfg depth 0 lon lat a b pa = some m) :
    m.dmax = depth ∧ packPass depth m.entries = m.entries := by
  unfold ellipticalConeCoverageCustom at h
  split at h
  · simp at h
  · simp only [beq_self_eq_true, if_true, Option.map_eq_some_iff] at h
    obtain ⟨cells, _, rfl⟩ := h
    exact ⟨rfl, C15.pack_fixpoint depth _⟩

/-- over ℝ: `Ellipse.contains ∘ Ellipse.fromOriented` is the canonical ellipse inequality -/
theorem ellipse_test_is_ellipse (a b s c x y : ℝ) (ha : a ≠ 0) (hb : b ≠ 0) (hsc : s * s + c * c = 1) :
    (Ellipse.fromOriented (α := ℝ) a b s c).contains x y = true ↔
      ((x * c + y * s) / a) ^ 2 + ((x * s - y * c) / b) ^ 2 ≤ 1 :=
  ellipse_contains_real a b s c x y ha hb hsc

/-- over ℝ: for `a = b` the elliptical cone is the cone of radius `a`, whatever the position angle -/
theorem circular_is_cone (lon lat a pa l φ : ℝ) (hlon : 0 ≤ lon ∧ lon < 2 * Real.pi)
    (hlat : -(Real.pi / 2) ≤ lat ∧ lat ≤ Real.pi / 2) (ha : 0 < a ∧ a < Real.pi / 2) :
    (ECone.new (α := ℝ) lon lat a a pa).contains l φ = true ↔
      Real.cos a ≤ Real.sin lat * Real.sin φ + Real.cos lat * Real.cos φ * Real.cos (l - lon) :=
  econe_contains_circular lon lat a pa l φ hlon hlat ha

/-- the hypotheses are satisfiable -/
example : (0 : ℝ) ≤ 1 ∧ (1 : ℝ) < 2 * Real.pi ∧ -(Real.pi / 2) ≤ (0 : ℝ) ∧ (0 : ℝ) ≤ Real.pi / 2 ∧ (0 : ℝ) < 1 / 2 ∧ (1 / 2 : ℝ) < Real.pi / 2 := by
  have := Real.two_le_pi
  refine ⟨by norm_num, by linarith, by linarith, by linarith, by norm_num, by linarith⟩

/-- the table of limits that selects the starting depth is regular (each depth halves the limit, relative excess
    `≈ 0.05·2^-k`): the obligation of C16 about the constants of the source, required here because the start cells of this
    coverage are chosen with that table -/
theorem start_depth_table_regular :
    (∀ j, j < 24 →
      C16.dyHalvingLo (j + 2) 1 25 (Gen.smallerEdge2OpEdgeDistDyadic.getD (j + 2) (0, 0)) (Gen.smallerEdge2OpEdgeDistDyadic.getD (j + 3) (0, 0)) = true ∧
      C16.dyHalvingHi (j + 2) 1 10 (Gen.smallerEdge2OpEdgeDistDyadic.getD (j + 2) (0, 0)) (Gen.smallerEdge2OpEdgeDistDyadic.getD (j + 3) (0, 0)) = true) :=
  C16.table_halving.1

end Hpx.C13
