import HpxVerif.Model.Hash
import HpxVerif.Lemmas.NumReal

import HpxVerif.Lemmas.CellReal4
import HpxVerif.Lemmas.NoBmiReal

set_option autoImplicit false   -- an unknown identifier in a statement is an error, never a new variable

/-!
# C03 — cell geometry accessors are mutually consistent and map back to their cell

Proved for every input of every numeric instance:
* `check_hash_rejects`: `center_of_projected_cell`, `center`, `vertices`, `vertex`, `sph_coo`, the paths and the grid
  all reject a cell number `≥ 12·4^depth`;
* `sph_coo_rejects_offsets`: `sph_coo` rejects offsets outside `[0, 1)` (NaN included);
* `depth0_bits` is structurally recursive on its fuel: the `k = 3, 4` branches cannot loop (a looping variant is
  rejected by Lean's termination checker — the definition in `Model/Hash.lean` is the obligation).
Open statements: `center_plane_spec`, `vertices_agree`, `hash_with_dxdy_plane`, `hash_center_real`; validated by the bit-exact
correspondence on all accessors and the round-trip oracles.
Known finding F11 (`hash_with_dxdy` on polar-cap seams and at the poles) is recorded in `known_findings.json`.
-/

namespace Hpx.C03
open Hpx Hpx.Hash

theorem check_hash_rejects {α : Type} [Num α] (cfg : Cfg) (d h : Nat) (hh : h ≥ Layer.nHash d) :
    centerOfProjectedCell (α := α) cfg d h = none ∧ center (α := α) cfg d h = none ∧
    vertices (α := α) cfg d h = none ∧ (∀ k, vertex (α := α) cfg d h k = none) ∧
    (∀ dx dy, sphCoo (α := α) cfg d h dx dy = none) ∧
    (∀ s cw n, pathAlongCellEdge (α := α) cfg d h s cw n = none) ∧ (∀ n, grid (α := α) cfg d h n = none) := by
  have h0 : centerOfProjectedCell (α := α) cfg d h = none := by
    unfold centerOfProjectedCell; simp [hh]
  refine ⟨h0, ?_, ?_, ?_, ?_, ?_, ?_⟩
  · unfold center; simp [h0]
  · unfold vertices; simp [h0]
  · intro k; unfold vertex; simp [h0]
  · intro dx dy; unfold sphCoo; split
    · rfl
    · split
      · rfl
      · simp [h0]
  · intro s cw n; unfold pathAlongCellEdge; simp [h0]
  · intro n; unfold grid; simp [h0]

theorem sph_coo_rejects_offsets {α : Type} [Num α] (cfg : Cfg) (d h : Nat) (dx dy : α)
    (hbad : (Num.le (Num.zero : α) dx && Num.lt dx (Num.one : α)) = false ∨
            (Num.le (Num.zero : α) dy && Num.lt dy (Num.one : α)) = false) :
    sphCoo cfg d h dx dy = none := by
  unfold sphCoo
  rcases hbad with h1 | h1
  · simp [h1]
  · split
    · rfl
    · simp [h1]

/-! ## the plane geometry over the reals

A cell is described by `hash < n_hash`, `decode_hash hash = (b, i, j)`, `b < 12`, `i, j < 2^d` (C10's
`decode_build_inverse` gives that for every cell number).  `cellCx`, `cellCy`, `vtx`, `cooPt`, `InDiamond`, `PlaneDom`,
`hbI` … are the specification vocabulary of `Lemmas/CellReal*.lean`: base cell `b` has centre `(baseX b, baseY b)`, the
cell `(b, i, j)` is the diamond of centre `(baseX b + (i−j)/n, baseY b + (i+j+1−n)/n)` and half-diagonal `1/n`. -/

section PlaneGeometry
open Hpx Hpx.Hash Hpx.Proj Hpx.CellReal

/-- **`center_plane_spec`**: for a valid cell `(b, i, j)` of depth `d`, `center_of_projected_cell` returns `(x, y)` with
    `y = cy`, `x = cx` reduced modulo 8 (`cx + 8` exactly when `cx < 0`, i.e. `b = 4` and `i < j`), both multiples of
    `1/n` with `0 ≤ x ≤ 8 − 1/n`, `|y| ≤ 2 − 1/n`; they are the integer coordinates `Layer.centerXY` divided by `n`. -/
theorem center_plane_spec (cfg : Cfg) (d hash b i j : ℕ) (hh : hash < Layer.nHash d)
    (hdec : Layer.decodeHash cfg d hash = some ⟨b, i, j⟩) (hb : b < 12) (hi : i < 2 ^ d) (hj : j < 2 ^ d) :
    ∃ x y : ℝ, centerOfProjectedCell (α := ℝ) cfg d hash = some (x, y) ∧
      y = cellCy d b i j ∧
      ((¬ (b = 4 ∧ i < j) ∧ x = cellCx d b i j) ∨ ((b = 4 ∧ i < j) ∧ x = cellCx d b i j + 8)) ∧
      0 ≤ x ∧ x ≤ 8 - 1 / (2 : ℝ) ^ d ∧ -2 + 1 / (2 : ℝ) ^ d ≤ y ∧ y ≤ 2 - 1 / (2 : ℝ) ^ d ∧
      x = (((Layer.centerXY d ⟨b, i, j⟩).1 : ℤ) : ℝ) / 2 ^ d ∧ y = (((Layer.centerXY d ⟨b, i, j⟩).2 : ℤ) : ℝ) / 2 ^ d :=
  Hpx.CellReal.center_plane_spec cfg d hash b i j hh hdec hb hi hj

/-- **`vertices_agree`**: the four vertices are the same whichever accessor returns them — `vertices` is the list of
    the four `vertex … k` (same plane points given to the same `unproj`), and none of them fails -/
theorem vertices_agree (cfg : Cfg) (d hash b i j : ℕ) (hh : hash < Layer.nHash d)
    (hdec : Layer.decodeHash cfg d hash = some ⟨b, i, j⟩) (hb : b < 12) (hi : i < 2 ^ d) (hj : j < 2 ^ d) :
    ∃ s e n w : ℝ × ℝ, vertices (α := ℝ) cfg d hash = some [s, e, n, w] ∧
      vertex (α := ℝ) cfg d hash 0 = some s ∧ vertex (α := ℝ) cfg d hash 1 = some e ∧
      vertex (α := ℝ) cfg d hash 2 = some n ∧ vertex (α := ℝ) cfg d hash 3 = some w :=
  Hpx.CellReal.vertices_agree cfg d hash b i j hh hdec hb hi hj

/-- **`sph_coo_plane`**: for `dx, dy ∈ [0, 1)`, `sph_coo` un-projects the plane point
    `(cx + (dx − dy)/n mod 8, cy + (dx + dy − 1)/n)`; this point is in `[0, 8) × [-2, 2]` and, before the reduction
    modulo 8, in the closed diamond of the cell -/
theorem sph_coo_plane (cfg : Cfg) (d hash b i j : ℕ) (dx dy : ℝ) (hh : hash < Layer.nHash d)
    (hdec : Layer.decodeHash cfg d hash = some ⟨b, i, j⟩) (hb : b < 12) (hi : i < 2 ^ d) (hj : j < 2 ^ d)
    (hx0 : 0 ≤ dx) (hx1 : dx < 1) (hy0 : 0 ≤ dy) (hy1 : dy < 1) :
    sphCoo (α := ℝ) cfg d hash dx dy = some (unprojT (cooPt d b i j dx dy).1 (cooPt d b i j dx dy).2) ∧
    0 ≤ (cooPt d b i j dx dy).1 ∧ (cooPt d b i j dx dy).1 < 8 ∧
    InDiamond (cellCx d b i j) (cellCy d b i j) (1 / 2 ^ d)
      (cellCx d b i j + (dx - dy) / 2 ^ d) (cellCy d b i j + (dx + dy - 1) / 2 ^ d) :=
  Hpx.CellReal.sph_coo_plane cfg d hash b i j dx dy hh hdec hb hi hj hx0 hx1 hy0 hy1

/-- the middle of the cell is its centre: `sph_coo(h, 1/2, 1/2) = center(h)` -/
theorem sph_coo_half (cfg : Cfg) (d hash b i j : ℕ) (hh : hash < Layer.nHash d)
    (hdec : Layer.decodeHash cfg d hash = some ⟨b, i, j⟩) (hb : b < 12) (hi : i < 2 ^ d) (hj : j < 2 ^ d) :
    sphCoo (α := ℝ) cfg d hash (1 / 2) (1 / 2) = center (α := ℝ) cfg d hash :=
  Hpx.CellReal.sph_coo_half cfg d hash b i j hh hdec hb hi hj

/-- **`path_points_on_border`**: when the two directions are adjacent cardinal points, every point of the path lies on
    the border of the diamond of centre `c` and half-diagonal `o` -/
theorem path_points_on_border (c : ℝ × ℝ) (o : ℝ) (ho : 0 ≤ o) (f g nseg t : ℕ) (ht : t ≤ nseg) (hf : f < 4) (hg : g < 4)
    (hadj : (f + g) % 2 = 1) : OnDiamond c.1 c.2 o (sidePt c o f g nseg t).1 (sidePt c o f g nseg t).2 :=
  Hpx.CellReal.sidePt_on_border c o ho f g nseg t ht hf hg hadj

/-- end points of a side path are the vertices returned by `vertex` (same plane points given to `unproj`) -/
theorem path_side_endpoints (cfg : Cfg) (d hash b i j f g : ℕ) (nseg : ℕ) (hh : hash < Layer.nHash d)
    (hdec : Layer.decodeHash cfg d hash = some ⟨b, i, j⟩) (hb : b < 12) (hi : i < 2 ^ d) (hj : j < 2 ^ d)
    (hf : f < 4) (hg : g < 4) (hn : 0 < nseg) :
    ∃ l, pathAlongCellSide (α := ℝ) cfg d hash f g true nseg = some l ∧ l.length = nseg + 1 ∧
      l[0]? = vertex (α := ℝ) cfg d hash f ∧ l[nseg]? = vertex (α := ℝ) cfg d hash g :=
  Hpx.CellReal.path_side_endpoints cfg d hash b i j f g nseg hh hdec hb hi hj hf hg hn

/-- the path along the whole edge passes through the four vertices returned by `vertex`, at the indices
    `0, nseg, 2·nseg, 3·nseg`, in the order of the cycle -/
theorem path_edge_vertices (cfg : Cfg) (d hash b i j start : ℕ) (cw : Bool) (nseg : ℕ) (hh : hash < Layer.nHash d)
    (hdec : Layer.decodeHash cfg d hash = some ⟨b, i, j⟩) (hb : b < 12) (hi : i < 2 ^ d) (hj : j < 2 ^ d)
    (hs : start < 4) (hn : 0 < nseg) :
    let nx := if cw then nextClockwise else nextCounterClockwise
    ∃ l, pathAlongCellEdge (α := ℝ) cfg d hash start cw nseg = some l ∧ l.length = 4 * nseg ∧
      l[0]? = vertex (α := ℝ) cfg d hash start ∧ l[nseg]? = vertex (α := ℝ) cfg d hash (nx start) ∧
      l[2 * nseg]? = vertex (α := ℝ) cfg d hash (nx (nx start)) ∧
      l[3 * nseg]? = vertex (α := ℝ) cfg d hash (nx (nx (nx start))) :=
  Hpx.CellReal.path_edge_vertices cfg d hash b i j start cw nseg hh hdec hb hi hj hs hn

/-- **`grid_points_in_closed_cell`**: every plane point of the grid lies in the closed diamond -/
theorem grid_points_in_closed_cell (c : ℝ × ℝ) (o : ℝ) (ho : 0 ≤ o) (nseg t : ℕ) (ht : t < (nseg + 1) * (nseg + 1)) :
    InDiamond c.1 c.2 o (gridPt c o nseg t).1 (gridPt c o nseg t).2 :=
  Hpx.CellReal.gridPt_in_diamond c o ho nseg t ht

/-- `grid` for a valid cell: all points succeed and are the un-projections of the plane points `gridPt` around the
    centre of the cell -/
theorem grid_plane (cfg : Cfg) (d hash b i j nseg : ℕ) (hh : hash < Layer.nHash d)
    (hdec : Layer.decodeHash cfg d hash = some ⟨b, i, j⟩) (hb : b < 12) (hi : i < 2 ^ d) (hj : j < 2 ^ d) :
    grid (α := ℝ) cfg d hash nseg =
      some ((List.range ((nseg + 1) * (nseg + 1))).map fun t =>
        unprojT (gridPt (norm8 (cellCx d b i j), cellCy d b i j) (1 / 2 ^ d) nseg t).1
          (gridPt (norm8 (cellCx d b i j), cellCy d b i j) (1 / 2 ^ d) nseg t).2) :=
  Hpx.CellReal.grid_plane cfg d hash b i j nseg hh hdec hb hi hj

/-- the corners of `grid` and the vertices of `vertex`/`vertices`: S, E, N are the same plane points given to
    `unproj`; W is the same plane point **unless the centre of the cell has abscissa 0** (`b = 4`, `i = j`), where
    `grid` un-projects `(−1/n, cy)` and `vertex`/`vertices` un-project `(8 − 1/n, cy)` (same point modulo 8). -/
theorem grid_corners_agree (cfg : Cfg) (d hash b i j nseg : ℕ) (hh : hash < Layer.nHash d)
    (hdec : Layer.decodeHash cfg d hash = some ⟨b, i, j⟩) (hb : b < 12) (hi : i < 2 ^ d) (hj : j < 2 ^ d) (hn : 0 < nseg) :
    ∃ l, grid (α := ℝ) cfg d hash nseg = some l ∧ l.length = (nseg + 1) * (nseg + 1) ∧
      l[0]? = vertex (α := ℝ) cfg d hash 0 ∧
      l[nseg * (nseg + 1)]? = vertex (α := ℝ) cfg d hash 1 ∧
      l[nseg * (nseg + 1) + nseg]? = vertex (α := ℝ) cfg d hash 2 ∧
      (¬ (b = 4 ∧ i = j) → l[nseg]? = vertex (α := ℝ) cfg d hash 3) ∧
      (b = 4 ∧ i = j → l[nseg]? = some (unprojT (-(1 / 2 ^ d)) (cellCy d b i j)) ∧
        vertex (α := ℝ) cfg d hash 3 = some (unprojT (8 - 1 / 2 ^ d) (cellCy d b i j))) :=
  Hpx.CellReal.grid_corners_agree cfg d hash b i j nseg hh hdec hb hi hj hn

/-- **`hash_with_dxdy_plane`** (LUT curve, regular case): the back end returns a valid cell number which decodes to a
    cell `(b, i, j)` whose closed diamond contains `(X, Y)` (abscissa modulo 8), offsets in `[0, 1)`, and `sph_coo` of the
    result un-projects exactly `(X, Y)`. -/
theorem hash_with_dxdy_plane (cfg : Cfg) (hbmi : cfg.bmi = false) (d : ℕ) (hd : d ≤ 29) (X Y : ℝ) (h : PlaneDom X Y)
    (h3 : 3 ≤ hbI d X Y + hbJ d X Y) (h5 : hbI d X Y + hbJ d X Y ≤ 5) :
    ∃ hash b i j dx dy, hashBack (α := ℝ) cfg d (X, Y) = some (hash, dx, dy) ∧ hash < Layer.nHash d ∧
      Layer.decodeHash cfg d hash = some ⟨b, i, j⟩ ∧ b < 12 ∧ i < 2 ^ d ∧ j < 2 ^ d ∧
      0 ≤ dx ∧ dx < 1 ∧ 0 ≤ dy ∧ dy < 1 ∧
      cooPt d b i j dx dy = (X, Y) ∧
      (InDiamond (cellCx d b i j) (cellCy d b i j) (1 / 2 ^ d) X Y ∨
        InDiamond (cellCx d b i j) (cellCy d b i j) (1 / 2 ^ d) (X - 8) Y) ∧
      sphCoo (α := ℝ) cfg d hash dx dy = some (unprojT X Y) ∧ unproj X Y = some (unprojT X Y) :=
  Hpx.CellReal.hash_with_dxdy_plane cfg hbmi d hd X Y h h3 h5

/-- **the wrong cell of F11.**  North-west border of the north-cap base cell `q` (seam `lon = q·π/2`), at a point whose
    scaled coordinate `u` **is** an integer (a vertex of a cell of depth `d` on that seam): both sub-cell offsets are `0`,
    the comparison `dx > dy` of the branch `k = −1` fails, and the code answers the cell `((q+3) mod 4, n−1, 0)` — the
    easternmost cell of the previous base cell — with offsets `(0, 0)`.  The point is the north vertex of the cell
    `(q, i, n−1)` (position `(0, 1)` in it).  Unless it is the west vertex of base cell `q` (`i = 0`), it does **not**
    belong to the closed diamond of the returned cell, whatever multiple of 8 is added to the abscissa. -/
theorem f11_wrong_cell_on_nw_seam_vertices (cfg : Cfg) (hbmi : cfg.bmi = false) (d : ℕ) (hd : d ≤ 29) (q : ℕ) (hq : q < 4)
    (X Y : ℝ) (hX0 : 0 ≤ X) (hX8 : X < 8) (hin : InDiamond (baseX q) (baseY q) 1 X Y)
    (hNE : X + Y ≠ baseX q + baseY q + 1) (hNW : Y - X = baseY q - baseX q + 1) (hfrac : hbdx d X Y = 0) :
    ∃ hash : ℕ, ∃ i : ℕ, hashBack (α := ℝ) cfg d (X, Y) = some (hash, 0, 0) ∧
      hash = ((q + 3) % 4) <<< (d <<< 1) ||| interleave (2 ^ d - 1) 0 ∧ hash < Layer.nHash d ∧
      Layer.decodeHash cfg d hash = some ⟨(q + 3) % 4, 2 ^ d - 1, 0⟩ ∧ i < 2 ^ d ∧
      -- where the point really is: the north vertex of `(q, i, n−1)`
      X = 2 * (q : ℝ) + (i : ℝ) / 2 ^ d ∧ Y = 1 + (i : ℝ) / 2 ^ d ∧
      cellCx d q i (2 ^ d - 1) + (0 - 1) / 2 ^ d = X ∧ cellCy d q i (2 ^ d - 1) + (0 + 1 - 1) / 2 ^ d = Y ∧
      -- the returned cell does not contain it
      (0 < i → ∀ m : ℤ, ¬ InDiamond (cellCx d ((q + 3) % 4) (2 ^ d - 1) 0 + 8 * m) (cellCy d ((q + 3) % 4) (2 ^ d - 1) 0)
        (1 / 2 ^ d) X Y) :=
  Hpx.CellReal.f11_north_west_wrong_cell cfg hbmi d hd q hq X Y hX0 hX8 hin hNE hNW hfrac

/-- **`hash_center_real` in the plane (LUT curve)**: for the cell number `h` built from valid parts `(b, i, j)`,
    `center_of_projected_cell(h)` succeeds and the back end of `hash_with_dxdy` sends it back to `(h, 1/2, 1/2)`;
    more generally the plane point of `sph_coo(h, dx, dy)` is sent back to `(h, dx, dy)`. -/
theorem hash_center_plane (cfg : Cfg) (hbmi : cfg.bmi = false) (d : ℕ) (hd : d ≤ 29) (b i j : ℕ) (hb : b < 12)
    (hi : i < 2 ^ d) (hj : j < 2 ^ d) :
    let h := (b <<< (d <<< 1)) ||| interleave i j
    h < Layer.nHash d ∧ Layer.decodeHash cfg d h = some ⟨b, i, j⟩ ∧
    (∃ p, centerOfProjectedCell (α := ℝ) cfg d h = some p ∧ hashBack (α := ℝ) cfg d p = some (h, 1 / 2, 1 / 2)) ∧
    (∀ dx dy : ℝ, 0 ≤ dx → dx < 1 → 0 ≤ dy → dy < 1 →
      sphCoo (α := ℝ) cfg d h dx dy = unproj (cooPt d b i j dx dy).1 (cooPt d b i j dx dy).2 ∧
      hashBack (α := ℝ) cfg d (cooPt d b i j dx dy) = some (h, dx, dy)) :=
  Hpx.CellReal.hash_center_plane cfg hbmi d hd b i j hb hi hj

/-- for every point `(X, Y)`, `0 ≤ X < 8`, of the closed diamond of a base cell `b`, the branch index of `depth0_bits`
    is `k = 5 − (I + J)` with `I + J = 5 − b/4 + [north-east border] + [north-west border] ∈ 3..7`: the branches
    `k = 3`, `k = 4` and the final `None` are unreachable in exact arithmetic (they exist for rounding errors);
    `I + J ≥ 6` needs `b < 4` (a border `|X − Xb| = 2 − Y` of a polar-cap triangle, i.e. a seam `lon = k·π/2`) or
    `b < 8` with both borders (north vertex of an equatorial base cell). -/
theorem depth0_branch_reached (d b : ℕ) (X Y : ℝ) (hb : b < 12) (hX0 : 0 ≤ X) (hX8 : X < 8)
    (hin : InDiamond (baseX b) (baseY b) 1 X Y) :
    hbI d X Y + hbJ d X Y + b / 4 = 5 + (if X + Y = baseX b + baseY b + 1 then 1 else 0)
      + (if Y - X = baseY b - baseX b + 1 then 1 else 0) ∧
    3 ≤ hbI d X Y + hbJ d X Y ∧ hbI d X Y + hbJ d X Y ≤ 7 ∧
    (6 ≤ hbI d X Y + hbJ d X Y → b < 8 ∧ 1 ≤ Y ∧ (b < 4 → |X - baseX b| = 2 - Y)) :=
  Hpx.CellReal.branch_sum d b X Y hb hX0 hX8 hin


end PlaneGeometry


/-! ## every build: the statements above that carry `cfg.bmi = false`, for every `cfg` (LUT tables or BMI2) -/

section AnyBuild
open Hpx Hpx.Hash Hpx.LayerBmi Hpx.BmiTransfer Hpx.Proj Hpx.CellReal

theorem hash_with_dxdy_plane_any_build (cfg : Cfg) (d : ℕ) (hd : d ≤ 29) (X Y : ℝ) (h : PlaneDom X Y)
    (h3 : 3 ≤ hbI d X Y + hbJ d X Y) (h5 : hbI d X Y + hbJ d X Y ≤ 5) :
    ∃ hash b i j dx dy, hashBack (α := ℝ) cfg d (X, Y) = some (hash, dx, dy) ∧ hash < Layer.nHash d ∧
      Layer.decodeHash cfg d hash = some ⟨b, i, j⟩ ∧ b < 12 ∧ i < 2 ^ d ∧ j < 2 ^ d ∧
      0 ≤ dx ∧ dx < 1 ∧ 0 ≤ dy ∧ dy < 1 ∧
      cooPt d b i j dx dy = (X, Y) ∧
      (InDiamond (cellCx d b i j) (cellCy d b i j) (1 / 2 ^ d) X Y ∨
        InDiamond (cellCx d b i j) (cellCy d b i j) (1 / 2 ^ d) (X - 8) Y) ∧
      sphCoo (α := ℝ) cfg d hash dx dy = some (unprojT X Y) ∧ unproj X Y = some (unprojT X Y) := by
  have := Hpx.C03.hash_with_dxdy_plane (noBmi cfg) (noBmi_bmi cfg) d hd X Y h h3 h5
  simpa only [← hashBack_noBmi, ← decodeHash_eq, ← sphCoo_noBmi] using this

theorem f11_wrong_cell_on_nw_seam_vertices_any_build (cfg : Cfg) (d : ℕ) (hd : d ≤ 29) (q : ℕ) (hq : q < 4)
    (X Y : ℝ) (hX0 : 0 ≤ X) (hX8 : X < 8) (hin : InDiamond (baseX q) (baseY q) 1 X Y)
    (hNE : X + Y ≠ baseX q + baseY q + 1) (hNW : Y - X = baseY q - baseX q + 1) (hfrac : hbdx d X Y = 0) :
    ∃ hash : ℕ, ∃ i : ℕ, hashBack (α := ℝ) cfg d (X, Y) = some (hash, 0, 0) ∧
      hash = ((q + 3) % 4) <<< (d <<< 1) ||| interleave (2 ^ d - 1) 0 ∧ hash < Layer.nHash d ∧
      Layer.decodeHash cfg d hash = some ⟨(q + 3) % 4, 2 ^ d - 1, 0⟩ ∧ i < 2 ^ d ∧
      X = 2 * (q : ℝ) + (i : ℝ) / 2 ^ d ∧ Y = 1 + (i : ℝ) / 2 ^ d ∧
      cellCx d q i (2 ^ d - 1) + (0 - 1) / 2 ^ d = X ∧ cellCy d q i (2 ^ d - 1) + (0 + 1 - 1) / 2 ^ d = Y ∧
      (0 < i → ∀ m : ℤ, ¬ InDiamond (cellCx d ((q + 3) % 4) (2 ^ d - 1) 0 + 8 * m) (cellCy d ((q + 3) % 4) (2 ^ d - 1) 0)
        (1 / 2 ^ d) X Y) := by
  have := Hpx.C03.f11_wrong_cell_on_nw_seam_vertices (noBmi cfg) (noBmi_bmi cfg) d hd q hq X Y hX0 hX8 hin hNE hNW hfrac
  simpa only [← hashBack_noBmi, ← decodeHash_eq] using this

theorem hash_center_plane_any_build (cfg : Cfg) (d : ℕ) (hd : d ≤ 29) (b i j : ℕ) (hb : b < 12)
    (hi : i < 2 ^ d) (hj : j < 2 ^ d) :
    let h := (b <<< (d <<< 1)) ||| interleave i j
    h < Layer.nHash d ∧ Layer.decodeHash cfg d h = some ⟨b, i, j⟩ ∧
    (∃ p, centerOfProjectedCell (α := ℝ) cfg d h = some p ∧ hashBack (α := ℝ) cfg d p = some (h, 1 / 2, 1 / 2)) ∧
    (∀ dx dy : ℝ, 0 ≤ dx → dx < 1 → 0 ≤ dy → dy < 1 →
      sphCoo (α := ℝ) cfg d h dx dy = unproj (cooPt d b i j dx dy).1 (cooPt d b i j dx dy).2 ∧
      hashBack (α := ℝ) cfg d (cooPt d b i j dx dy) = some (h, dx, dy)) := by
  have := Hpx.C03.hash_center_plane (noBmi cfg) (noBmi_bmi cfg) d hd b i j hb hi hj
  simpa only [← hashBack_noBmi, ← decodeHash_eq, ← sphCoo_noBmi, ← centerOfProjectedCell_noBmi] using this

/-- non-vacuity: the statements apply to a BMI2 configuration (hypotheses satisfiable by a concrete cell) -/
example := hash_center_plane_any_build { debug := true, bmi := true } 3 (by omega) 5 2 6 (by omega) (by norm_num) (by norm_num)
end AnyBuild


/-! ## `vertices_map`: whichever subset of the four directions is requested, each requested direction gets the vertex of
ITS direction (the one `vertex` returns), the others get nothing - every numeric instance, every cell, every set -/

theorem vertices_map_agrees {α : Type} [Num α] (cfg : Cfg) (d hash mask : Nat) :
    Hash.centerOfProjectedCell (α := α) cfg d hash = none ∨
    Hash.verticesMap (α := α) cfg d hash mask =
      [0, 1, 2, 3].mapM fun k => if mask.testBit k then (Hash.vertex (α := α) cfg d hash k).map some else some none := by
  cases h : Hash.centerOfProjectedCell (α := α) cfg d hash with
  | none => exact Or.inl rfl
  | some c =>
    right
    unfold Hash.verticesMap Hash.vertex
    simp only [h, Option.bind_some]


end Hpx.C03
