import HpxVerif.Model.Hash
import HpxVerif.Lemmas.NumReal

/-!
# C03 — cell geometry accessors are mutually consistent and map back to their cell

Proved for every input of every numeric instance:
* `check_hash_rejects`: `center_of_projected_cell`, `center`, `vertices`, `vertex`, `sph_coo`, the paths and the grid
  all reject a cell number `≥ 12·4^depth`;
* `sph_coo_rejects_offsets`: `sph_coo` rejects offsets outside `[0, 1)` (NaN included);
* `depth0_bits` is structurally recursive on its fuel: the `k = 3, 4` branches cannot loop (a looping variant is
  rejected by Lean's termination checker — the definition in `Model/Hash.lean` is the obligation).
Open statements: `center_plane_spec`, `vertices_agree`, `hash_with_dxdy_plane`, `hash_center_real`; validated by the bit-exact
correspondence on all accessors and the round-trip oracles.
Known finding F11 (`hash_with_dxdy` on polar-cap seams and at the poles) is recorded in `known_findings.json`.
-/

namespace Hpx.C03
open Hpx Hpx.Hash

theorem check_hash_rejects {α : Type} [Num α] (cfg : Cfg) (d h : Nat) (hh : h ≥ Layer.nHash d) :
    centerOfProjectedCell (α := α) cfg d h = none ∧ center (α := α) cfg d h = none ∧
    vertices (α := α) cfg d h = none ∧ (∀ k, vertex (α := α) cfg d h k = none) ∧
    (∀ dx dy, sphCoo (α := α) cfg d h dx dy = none) ∧
    (∀ s cw n, pathAlongCellEdge (α := α) cfg d h s cw n = none) ∧ (∀ n, grid (α := α) cfg d h n = none) := by
  have h0 : centerOfProjectedCell (α := α) cfg d h = none := by
    unfold centerOfProjectedCell; simp [hh]
  refine ⟨h0, ?_, ?_, ?_, ?_, ?_, ?_⟩
  · unfold center; simp [h0]
  · unfold vertices; simp [h0]
  · intro k; unfold vertex; simp [h0]
  · intro dx dy; unfold sphCoo; split
    · rfl
    · split
      · rfl
      · simp [h0]
  · intro s cw n; unfold pathAlongCellEdge; simp [h0]
  · intro n; unfold grid; simp [h0]

theorem sph_coo_rejects_offsets {α : Type} [Num α] (cfg : Cfg) (d h : Nat) (dx dy : α)
    (hbad : (Num.le (Num.zero : α) dx && Num.lt dx (Num.one : α)) = false ∨
            (Num.le (Num.zero : α) dy && Num.lt dy (Num.one : α)) = false) :
    sphCoo cfg d h dx dy = none := by
  unfold sphCoo
  rcases hbad with h1 | h1
  · simp [h1]
  · split
    · rfl
    · simp [h1]

end Hpx.C03
