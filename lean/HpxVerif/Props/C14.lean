import HpxVerif.Model.Topo
import HpxVerif.Lemmas.TopoGen
import HpxVerif.Lemmas.EdgeInternal3
import HpxVerif.Lemmas.EdgeExternal4
import HpxVerif.Gen.Consts
import HpxVerif.Lemmas.NoBmi
import HpxVerif.Lemmas.SizeGen
import HpxVerif.Lemmas.EdgeExternal5

set_option autoImplicit false   -- an unknown identifier in a statement is an error, never a new variable

/-!
# C14 — internal / external edges of a cell are exactly its deeper-depth border rings

Proved for every input: `edge_guards` (the convenience functions accept exactly `depth + delta_depth ≤ 29`; this is
the repaired behaviour of finding F6, and `DEPTH_MAX` is regenerated from the source).
Tests by kernel evaluation on the model (labelled tests): for `delta_depth = 1..5` the internal edge of a cell is the
set of its descendants on the border of the `2^δ` grid, has `4·2^δ − 4` elements without duplicates, starts at the south
corner, reaches the east corner after `2^δ − 1` steps, and `internal_edge_sorted` is its sorted permutation (the
repaired behaviour of finding F9).
**For every `δ ≥ 1`** (LUT build, second half of this file): `internal_edge_set` (the explicit ring: exactly the border
descendants, `4·2^δ − 4` cells, no duplicates), `internal_edge_walk` (south corner first, east corner after `2^δ − 1`
steps, cyclically consecutive cells adjacent), `internal_corners`, `internal_parts`, `internal_edge_sorted_perm` (the
`k0..k3`/`lim` loop: never writes out of range, strictly increasing, a permutation of the internal edge),
`internal_edge_top_spec` (the convenience functions on every valid cell with `depth + δ ≤ 29`).
Open statement: `external_edge_set` (depends on C04's completeness statement).
-/

namespace Hpx.C14
open Hpx Hpx.Topo

def lut : Cfg := { debug := true, bmi := false }

/-- the convenience functions accept `depth + delta_depth ≤ DEPTH_MAX = 29` and nothing beyond -/
theorem edge_guards (cfg : Cfg) (d h dd : Nat) (hd : d ≤ 29) (hdd : dd ≤ 29) :
    (d + dd ≤ 29 → internalEdgeTop cfg Gen.cDepthMax d h dd = internalEdge cfg h dd ∧
                    internalEdgeSortedTop cfg Gen.cDepthMax d h dd = internalEdgeSorted cfg h dd) ∧
    (d + dd > 29 → internalEdgeTop cfg Gen.cDepthMax d h dd = none ∧
                    internalEdgeSortedTop cfg Gen.cDepthMax d h dd = none) := by
  have hm : (d + dd) % 256 = d + dd := Nat.mod_eq_of_lt (by omega)
  have hc : Gen.cDepthMax = 29 := by decide
  constructor
  · intro h1
    simp [internalEdgeTop, internalEdgeSortedTop, hm, hc, h1]
  · intro h1
    have : ¬ (d + dd ≤ 29) := by omega
    simp [internalEdgeTop, internalEdgeSortedTop, hm, hc, this]

/-- spec of the border set of the `2^δ` grid inside cell `h`, in increasing order of cell number -/
def borderSpec (h dd : Nat) : List Nat :=
  let n := 2 ^ dd
  ((List.range (n * n)).filter fun z =>
    let i := squeezeN 32 z; let j := squeezeN 32 (z / 2)
    i == 0 || j == 0 || i == n - 1 || j == n - 1).map (h * 4 ^ dd + ·)

def insertSorted (x : Nat) : List Nat → List Nat
  | [] => [x]
  | y :: ys => if x ≤ y then x :: y :: ys else y :: insertSorted x ys

def sortNat (l : List Nat) : List Nat := l.foldr insertSorted []

/-- what the property demands of `internal_edge` and `internal_edge_sorted`, as a decidable check -/
def edgeOk (h dd : Nat) : Bool :=
  match internalEdge lut h dd, internalEdgeSorted lut h dd with
  | some e, some s =>
    sortNat e == borderSpec h dd && e.length == 4 * 2 ^ dd - 4 && s == borderSpec h dd
      && e.head? == some (h * 4 ^ dd)
      && e[2 ^ dd - 1]? == some (h * 4 ^ dd + (spreadN 32 (2 ^ dd - 1)))
  | _, _ => false

/-- **test** (kernel evaluation, `δ = 1..5`, three cells) -/
theorem internal_edge_small_delta_test :
    ∀ dd, dd < 6 → dd = 0 ∨ (edgeOk 0 dd && edgeOk 7 dd && edgeOk 191 dd) = true := by
  decide +kernel

/-! ## the direction tables of the model are the tables of the source (regenerated on every run) -/

/-- `lib::direction_from_neighbour` and `lib::edge_cell_direction_from_neighbour` (the rotated frames of the polar-cap
    seams, panicking entries included) equal, entry by entry, what the translator tabulates from `src/lib.rs` -/
theorem direction_tables_from_source :
    (∀ b, b < 12 → ∀ w : MW,
      directionFromNeighbour b w = ((TopoGen.lk2 Gen.directionFromNeighbour b w.index).bind id).bind MW.ofIndex) ∧
    (∀ b, b < 12 → ∀ inner nd : MW,
      edgeCellDirectionFromNeighbour b inner nd =
        ((TopoGen.lk3 Gen.edgeCellDirectionFromNeighbour b inner.index nd.index).bind id).bind MW.ofIndex) :=
  ⟨TopoGen.direction_from_neighbour, TopoGen.edge_cell_direction_from_neighbour⟩

theorem seam_rules_from_source : ∀ b, b < 12 → ∀ w : MW, w ≠ .C →
    seamRule b w = TopoGen.decodeSeam ((TopoGen.lk2 Gen.seamRules b w.index).bind id) := TopoGen.seam_rules

/-! ## internal edges, for EVERY delta_depth

Vocabulary of `Lemmas/EdgeInternal*.lean`: `N = 2^dd`; the descendant of `hash` with in-cell coordinates `(x, y)` is
`cellVal hash dd (x, y) = hash·4^dd + interleave x y`; `edgeCoords dd` is the ring of border coordinates in walk order
(south corner, SE side, east corner, NE side, north corner, NW side backwards, west corner, SW side backwards),
`edgeList` its image; `sortCoord`/`sortedList` the same ring in increasing z-order. -/

section InternalEdges
open Hpx Hpx.Topo Hpx.EdgeInternal

theorem masks_spec_x (cfg : Cfg) (dd : Nat) (h1 : 1 ≤ dd) (h2 : dd ≤ 32) :
    xMaskFn cfg dd = some (interleave (2 ^ dd - 1) 0) :=
  Hpx.EdgeInternal.xMask_spec cfg dd h1 h2

/-- **`internal_edge`, every `delta_depth`** (LUT build, `1 ≤ dd ≤ 29`, `hash·4^dd` fits in 64 bits): the result is the
    explicit ring `edgeList`; it has `4N − 4` elements, no duplicates, and its members are exactly the border descendants -/
theorem internal_edge_set (cfg : Cfg) (hb : cfg.bmi = false) (hash dd : Nat) (h1 : 1 ≤ dd) (hd : dd ≤ 29)
    (hh : hash < 2 ^ (64 - 2 * dd)) :
    ∃ l, internalEdge cfg hash dd = some l ∧ l = edgeList hash dd ∧ l.length = 4 * 2 ^ dd - 4 ∧ l.Nodup ∧
      (∀ h', h' ∈ l ↔ ∃ x y, x < 2 ^ dd ∧ y < 2 ^ dd ∧ (x = 0 ∨ x = 2 ^ dd - 1 ∨ y = 0 ∨ y = 2 ^ dd - 1) ∧
        h' = hash * 4 ^ dd + interleave x y) :=
  Hpx.EdgeInternal.internalEdge_main cfg hb hash dd h1 hd hh

/-- the walk: starts at the south corner, element `N−1` is the east corner, element `2(N−1)` the north corner, element
    `3(N−1)` the west corner, and cyclically consecutive elements are adjacent cells (one step in `x` or in `y`) -/
theorem internal_edge_walk (hash dd : Nat) (h1 : 1 ≤ dd) :
    (edgeList hash dd)[0]? = some (hash * 4 ^ dd) ∧
    (edgeList hash dd)[2 ^ dd - 1]? = some (hash * 4 ^ dd + interleave (2 ^ dd - 1) 0) ∧
    (edgeList hash dd)[2 * (2 ^ dd - 1)]? = some (hash * 4 ^ dd + interleave (2 ^ dd - 1) (2 ^ dd - 1)) ∧
    (edgeList hash dd)[3 * (2 ^ dd - 1)]? = some (hash * 4 ^ dd + interleave 0 (2 ^ dd - 1)) ∧
    ∀ t, t < (edgeList hash dd).length → ∃ x y x' y',
      (edgeList hash dd)[t]? = some (hash * 4 ^ dd + interleave x y) ∧
      (edgeList hash dd)[(t + 1) % (edgeList hash dd).length]? = some (hash * 4 ^ dd + interleave x' y') ∧
      onBorder dd x y ∧ onBorder dd x' y' ∧
      ((x' = x ∧ (y' = y + 1 ∨ y' + 1 = y)) ∨ (y' = y ∧ (x' = x + 1 ∨ x' + 1 = x))) :=
  Hpx.EdgeInternal.internalEdge_walk hash dd h1

/-- the four corners: south `(0,0)`, east `(N−1,0)`, west `(0,N−1)`, north `(N−1,N−1)`; no other direction is accepted.
    Needs `1 ≤ dd ≤ 32` only (no curve is consulted). -/
theorem internal_corners (cfg : Cfg) (hash dd : Nat) (h1 : 1 ≤ dd) (hd : dd ≤ 32) (hh : hash < 2 ^ (64 - 2 * dd)) :
    internalCorner cfg hash dd MW.S = some (hash * 4 ^ dd + interleave 0 0) ∧
    internalCorner cfg hash dd MW.E = some (hash * 4 ^ dd + interleave (2 ^ dd - 1) 0) ∧
    internalCorner cfg hash dd MW.W = some (hash * 4 ^ dd + interleave 0 (2 ^ dd - 1)) ∧
    internalCorner cfg hash dd MW.N = some (hash * 4 ^ dd + interleave (2 ^ dd - 1) (2 ^ dd - 1)) ∧
    (∀ dir, dir ≠ MW.S → dir ≠ MW.E → dir ≠ MW.W → dir ≠ MW.N → internalCorner cfg hash dd dir = none) :=
  Hpx.EdgeInternal.internalCorner_spec cfg hash dd h1 hd hh

/-- the four sides, each with its `N` cells including both corners: SE `(x,0)`, SW `(0,y)`, NE `(N−1,y)`, NW `(x,N−1)`,
    each in increasing order of the running coordinate; no other direction is accepted -/
theorem internal_parts (cfg : Cfg) (hb : cfg.bmi = false) (hash dd : Nat) (h1 : 1 ≤ dd) (hd : dd ≤ 29)
    (hh : hash < 2 ^ (64 - 2 * dd)) :
    internalEdgePart cfg hash dd MW.SE = some ((List.range (2 ^ dd)).map fun x => hash * 4 ^ dd + interleave x 0) ∧
    internalEdgePart cfg hash dd MW.SW = some ((List.range (2 ^ dd)).map fun y => hash * 4 ^ dd + interleave 0 y) ∧
    internalEdgePart cfg hash dd MW.NE =
      some ((List.range (2 ^ dd)).map fun y => hash * 4 ^ dd + interleave (2 ^ dd - 1) y) ∧
    internalEdgePart cfg hash dd MW.NW =
      some ((List.range (2 ^ dd)).map fun x => hash * 4 ^ dd + interleave x (2 ^ dd - 1)) ∧
    (∀ dir, dir ≠ MW.SE → dir ≠ MW.SW → dir ≠ MW.NE → dir ≠ MW.NW → internalEdgePart cfg hash dd dir = none) :=
  Hpx.EdgeInternal.internalEdgePart_spec cfg hb hash dd h1 hd hh

/-- a valid cell of depth `d` refined by `dd` levels with `d + dd ≤ 29` never overflows the 64-bit shift -/
theorem valid_cell_fits (d dd hash : Nat) (hsum : d + dd ≤ 29) (hh : hash < 12 * 4 ^ d) : hash < 2 ^ (64 - 2 * dd) :=
  Hpx.EdgeInternal.valid_cell_fits d dd hash hsum hh

/-- **`internal_edge_sorted`, every `delta_depth`** (LUT build, `1 ≤ dd ≤ 29`, `hash·4^dd` fits in 64 bits): the function
    returns (no out-of-range write) the explicit list `sortedList`, which has `4N − 4` elements, is strictly increasing,
    is a permutation of the result `edgeList` of `internal_edge`, and hence consists exactly of the border descendants -/
theorem internal_edge_sorted_perm (cfg : Cfg) (hbmi : cfg.bmi = false) (hash dd : Nat) (h1 : 1 ≤ dd) (hd : dd ≤ 29)
    (hh : hash < 2 ^ (64 - 2 * dd)) :
    ∃ s l, internalEdgeSorted cfg hash dd = some s ∧ internalEdge cfg hash dd = some l ∧
      s = sortedList hash dd ∧ l = edgeList hash dd ∧
      s.length = 4 * 2 ^ dd - 4 ∧ s.Pairwise (· < ·) ∧ s.Perm l ∧
      (∀ h', h' ∈ s ↔ ∃ x y, x < 2 ^ dd ∧ y < 2 ^ dd ∧ (x = 0 ∨ x = 2 ^ dd - 1 ∨ y = 0 ∨ y = 2 ^ dd - 1) ∧
        h' = hash * 4 ^ dd + interleave x y) :=
  Hpx.EdgeInternal.internalEdgeSorted_perm cfg hbmi hash dd h1 hd hh

/-- the public entry points on a valid cell: `depth + delta_depth ≤ 29`, `hash < 12·4^depth`, `delta_depth ≥ 1` -/
theorem internal_edge_top_spec (cfg : Cfg) (hbmi : cfg.bmi = false) (d hash dd : Nat) (h1 : 1 ≤ dd) (hsum : d + dd ≤ 29)
    (hh : hash < 12 * 4 ^ d) :
    internalEdgeTop cfg 29 d hash dd = some (edgeList hash dd) ∧
    internalEdgeSortedTop cfg 29 d hash dd = some (sortedList hash dd) :=
  Hpx.EdgeInternal.internalEdgeTop_spec cfg hbmi d hash dd h1 hsum hh


end InternalEdges

section ExternalEdges
open Hpx Hpx.Topo Hpx.TopoSpec Hpx.TopoNeigh Hpx.TopoLift Hpx.EdgeInternal Hpx.EdgeExternal MW

/-! ## external edges: every depth, every `delta_depth ≥ 1` with `depth + delta_depth ≤ 29`, every cell, any build

`delta_depth = 0` is excluded: see `external_edge_delta0` below (the masks `x_mask(0)`, `y_mask(0)`, `xy_mask(0)`). -/

/-- **C14, `external_from_direction`** (Target 1): on a cell number of the depth the computation of the pieces never
    panics (every table lookup succeeds), for both orders; the `(dir, hv)` components are the entries of
    `neighbours(hash)` (in `MainWind` index order, or sorted by number); and for every piece `(dir, from_, hv)`: `hv` is
    the neighbour of `hash` in direction `dir`, `hash` is the neighbour of `hv` in direction `from_` (`Layer::neighbour`),
    the vertices of `hv` shared with `hash` are those of its side / corner `from_`, and `from_` is cardinal (ordinal)
    iff `dir` is.  Every depth `≤ 29`, any build. -/
theorem external_from_direction (cfg : Cfg) (d : Nat) (hd : d ≤ 29) (hash : Nat) (hh : hash < 12 * 4 ^ d) (s : Bool) :
    ∃ l, externalPieces cfg d hash s = some l ∧
      l.map (fun t => (t.1, t.2.2)) = orderOf s (nbList d hash false) ∧
      Topo.neighbours cfg d hash false = some (nbList d hash false) ∧
      ∀ dir f hv, (dir, f, hv) ∈ l →
        hv < 12 * 4 ^ d ∧ hv ≠ hash ∧ dir ≠ C ∧ f ≠ C ∧
        Topo.neighbour cfg d hash dir = some (some hv) ∧ Topo.neighbour cfg d hv f = some (some hash) ∧
        shared (2 ^ d) (partsOf d hv) (partsOf d hash) = edgeOf f ∧
        f.isCardinal = dir.isCardinal ∧ f.isOrdinal = dir.isOrdinal :=
  Hpx.EdgeExternal.external_from_direction cfg d hd hash hh s

/-- **C14, `external_edge_spec`** (Target 2): on a cell number of the depth, `1 ≤ dd`, `d + dd ≤ 29`:
    `external_edge` (`sorted = false`) and `external_edge_sorted` (`sorted = true`) do not panic and return the
    concatenation, over the neighbours `(dir, hv)` of `hash` (entries of `neighbours(hash)` in `MainWind` index order
    / by increasing number), of the sub-cells of `hv` on its side (ordinal `dir`) / corner (cardinal `dir`) facing
    `hash` (`sideList hv dd (fromD d hash dir)`).  Any build. -/
theorem external_edge_spec (cfg : Cfg) (d dd : Nat) (h1 : 1 ≤ dd) (hsum : d + dd ≤ 29) (hash : Nat)
    (hh : hash < 12 * 4 ^ d) (s : Bool) :
    externalEdge cfg d hash dd s = some (externalList d hash dd s) :=
  Hpx.EdgeExternal.external_edge_spec cfg d dd h1 hsum hash hh s

/-- **C14, `external_edge_struct_spec`** (Target 6): `external_edge_struct` does not panic (the consistency checks
    between the kind of `from_` and the kind of `dir` always pass) and files, for each entry `(dir, hv)` of
    `neighbours(hash)` in `MainWind` index order, under `dir` the sub-cells of `hv` on its side / corner facing `hash`:
    one corner sub-cell for a cardinal `dir`, the `2^dd` sub-cells of the facing side for an ordinal `dir` -/
theorem external_edge_struct_spec (cfg : Cfg) (d dd : Nat) (h1 : 1 ≤ dd) (hsum : d + dd ≤ 29) (hash : Nat)
    (hh : hash < 12 * 4 ^ d) :
    externalEdgeStruct cfg d hash dd =
      some ((nbList d hash false).map fun e => (e.1, sideList e.2 dd (fromD d hash e.1))) ∧
    ∀ dir hv, (dir, hv) ∈ nbList d hash false →
      (sideList hv dd (fromD d hash dir)).length = (if dir.isCardinal then 1 else 2 ^ dd) ∧
      (fromD d hash dir).isCardinal = dir.isCardinal :=
  Hpx.EdgeExternal.external_edge_struct_spec cfg d dd h1 hsum hash hh

/-- **C14, `external_edge_set`** (Target 3, soundness and completeness): the members of the external edge are exactly
    the cell numbers `h'` of depth `d + dd` that lie outside `hash` (their ancestor at depth `d` is not `hash`) and share
    a vertex, as points of the sphere, with some descendant `h''` of `hash` at depth `d + dd`.  Both orders, any build,
    every `d`, `dd ≥ 1`, `d + dd ≤ 29`. -/
theorem external_edge_set (cfg : Cfg) (d dd : Nat) (h1 : 1 ≤ dd) (hsum : d + dd ≤ 29) (hash : Nat)
    (hh : hash < 12 * 4 ^ d) (s : Bool) :
    ∃ l, externalEdge cfg d hash dd s = some l ∧ ∀ h', h' ∈ l ↔
      (h' < 12 * 4 ^ (d + dd) ∧ h' / 4 ^ dd ≠ hash ∧
        ∃ h'', h'' / 4 ^ dd = hash ∧ Touch (2 ^ (d + dd)) (partsOf (d + dd) h') (partsOf (d + dd) h'')) :=
  Hpx.EdgeExternal.external_edge_set cfg d dd h1 hsum hash hh s

/-- **C14, `external_edge_nodup`** (Target 4): no duplicates, both orders -/
theorem external_edge_nodup (cfg : Cfg) (d dd : Nat) (h1 : 1 ≤ dd) (hsum : d + dd ≤ 29) (hash : Nat)
    (hh : hash < 12 * 4 ^ d) (s : Bool) :
    ∃ l, externalEdge cfg d hash dd s = some l ∧ l.Nodup :=
  Hpx.EdgeExternal.external_edge_nodup cfg d dd h1 hsum hash hh s

/-- **C14, `external_edge_sorted_spec`** (Target 5): `external_edge_sorted` returns a strictly increasing list, which
    is a permutation of the result of `external_edge` (same members, same length): the neighbours are visited by
    increasing number `hv`, the pieces of different neighbours lie in the disjoint increasing ranges
    `[hv·4^dd, (hv+1)·4^dd)`, and each piece is increasing -/
theorem external_edge_sorted_spec (cfg : Cfg) (d dd : Nat) (h1 : 1 ≤ dd) (hsum : d + dd ≤ 29) (hash : Nat)
    (hh : hash < 12 * 4 ^ d) :
    ∃ ls lu, externalEdge cfg d hash dd true = some ls ∧ externalEdge cfg d hash dd false = some lu ∧
      ls.Pairwise (· < ·) ∧ ls.Perm lu ∧ (∀ h', h' ∈ ls ↔ h' ∈ lu) ∧ ls.length = lu.length :=
  Hpx.EdgeExternal.external_edge_sorted_spec cfg d dd h1 hsum hash hh

/-- **C14, `external_edge_length`**: the external edge has `4·2^dd` cells along the four sides plus one corner cell per
    cardinal neighbour: `4·2^dd + 4` in general, `4·2^dd + 3` for the 24 cells with 7 neighbours (`Special`),
    `4·2^dd + 2` at depth 0 (both orders) -/
theorem external_edge_length (cfg : Cfg) (d dd : Nat) (h1 : 1 ≤ dd) (hsum : d + dd ≤ 29) (hash : Nat)
    (hh : hash < 12 * 4 ^ d) (s : Bool) :
    ∃ l, externalEdge cfg d hash dd s = some l ∧
      l.length = 4 * 2 ^ dd + ((nbList d hash false).filter fun e => e.1.isCardinal).length ∧
      l.length = 4 * 2 ^ dd + (if d = 0 then 2 else if Special (2 ^ d) (partsOf d hash) then 3 else 4) :=
  Hpx.EdgeExternal.external_edge_length cfg d dd h1 hsum hash hh s

/-- **C14, `from_dir_spec`** (the heart of the external edge): if `q` is the neighbour of the cell `p` in direction
    `dir`, the direction computed by the code (`fromDir`: `dir.opposite` inside a base cell, the table
    `direction_from_neighbour` at `n = 1`, the table `edge_cell_direction_from_neighbour` applied to the position of
    `p` on the border of its base cell otherwise) exists (no table lookup fails), leads back from `q` to `p`, and is
    cardinal iff `dir` is.  Every `1 ≤ n ≤ 2^32`. -/
theorem from_dir_spec (n : Nat) (p q : HashParts) (dir : MW) (hn : 1 ≤ n) (hn2 : n ≤ 4294967296) (hp : Valid n p)
    (hdir : dir ≠ C) (h : neighbourParts n p dir = some q) :
    ∃ f, fromDir n p dir q = some f ∧ neighbourParts n q f = some p ∧ f.isCardinal = dir.isCardinal ∧ f ≠ C :=
  Hpx.EdgeExternal.from_dir_spec n p q dir hn hn2 hp hdir h


end ExternalEdges


/-! ## every build: the statements above that carry `cfg.bmi = false`, for every `cfg` (LUT tables or BMI2) -/

section AnyBuild
open Hpx Hpx.Topo Hpx.LayerBmi Hpx.EdgeInternal Hpx.BmiTransfer

theorem internal_edge_set_any_build (cfg : Cfg) (hash dd : Nat) (h1 : 1 ≤ dd) (hd : dd ≤ 29)
    (hh : hash < 2 ^ (64 - 2 * dd)) :
    ∃ l, internalEdge cfg hash dd = some l ∧ l = edgeList hash dd ∧ l.length = 4 * 2 ^ dd - 4 ∧ l.Nodup ∧
      (∀ h', h' ∈ l ↔ ∃ x y, x < 2 ^ dd ∧ y < 2 ^ dd ∧ (x = 0 ∨ x = 2 ^ dd - 1 ∨ y = 0 ∨ y = 2 ^ dd - 1) ∧
        h' = hash * 4 ^ dd + interleave x y) := by
  rw [internalEdge_noBmi]
  exact Hpx.C14.internal_edge_set (noBmi cfg) (noBmi_bmi cfg) hash dd h1 hd hh

theorem internal_parts_any_build (cfg : Cfg) (hash dd : Nat) (h1 : 1 ≤ dd) (hd : dd ≤ 29)
    (hh : hash < 2 ^ (64 - 2 * dd)) :
    internalEdgePart cfg hash dd MW.SE = some ((List.range (2 ^ dd)).map fun x => hash * 4 ^ dd + interleave x 0) ∧
    internalEdgePart cfg hash dd MW.SW = some ((List.range (2 ^ dd)).map fun y => hash * 4 ^ dd + interleave 0 y) ∧
    internalEdgePart cfg hash dd MW.NE =
      some ((List.range (2 ^ dd)).map fun y => hash * 4 ^ dd + interleave (2 ^ dd - 1) y) ∧
    internalEdgePart cfg hash dd MW.NW =
      some ((List.range (2 ^ dd)).map fun x => hash * 4 ^ dd + interleave x (2 ^ dd - 1)) ∧
    (∀ dir, dir ≠ MW.SE → dir ≠ MW.SW → dir ≠ MW.NE → dir ≠ MW.NW → internalEdgePart cfg hash dd dir = none) := by
  simp only [internalEdgePart_noBmi cfg]
  exact Hpx.C14.internal_parts (noBmi cfg) (noBmi_bmi cfg) hash dd h1 hd hh

theorem internal_edge_sorted_perm_any_build (cfg : Cfg) (hash dd : Nat) (h1 : 1 ≤ dd) (hd : dd ≤ 29)
    (hh : hash < 2 ^ (64 - 2 * dd)) :
    ∃ s l, internalEdgeSorted cfg hash dd = some s ∧ internalEdge cfg hash dd = some l ∧
      s = sortedList hash dd ∧ l = edgeList hash dd ∧
      s.length = 4 * 2 ^ dd - 4 ∧ s.Pairwise (· < ·) ∧ s.Perm l ∧
      (∀ h', h' ∈ s ↔ ∃ x y, x < 2 ^ dd ∧ y < 2 ^ dd ∧ (x = 0 ∨ x = 2 ^ dd - 1 ∨ y = 0 ∨ y = 2 ^ dd - 1) ∧
        h' = hash * 4 ^ dd + interleave x y) := by
  rw [internalEdge_noBmi, internalEdgeSorted_noBmi]
  exact Hpx.C14.internal_edge_sorted_perm (noBmi cfg) (noBmi_bmi cfg) hash dd h1 hd hh

theorem internal_edge_top_spec_any_build (cfg : Cfg) (d hash dd : Nat) (h1 : 1 ≤ dd) (hsum : d + dd ≤ 29)
    (hh : hash < 12 * 4 ^ d) :
    internalEdgeTop cfg 29 d hash dd = some (edgeList hash dd) ∧
    internalEdgeSortedTop cfg 29 d hash dd = some (sortedList hash dd) := by
  rw [internalEdgeTop_noBmi, internalEdgeSortedTop_noBmi]
  exact Hpx.C14.internal_edge_top_spec (noBmi cfg) (noBmi_bmi cfg) d hash dd h1 hsum hh

/-- non-vacuity: a BMI2 configuration, cell 7 refined by two levels -/
example := internal_edge_set_any_build { debug := true, bmi := true } 7 2 (by omega) (by omega) (by norm_num)
example := internal_edge_top_spec_any_build { debug := true, bmi := true } 1 7 2 (by omega) (by omega) (by norm_num)
end AnyBuild


/-! ## constants from the source

`Gen/SizeTables.lean` is produced on every run by interpreting the source text of `x_mask`, `y_mask`, `xy_mask`,
`nside_unsafe`, `nside_square_unsafe`, `n_hash_unsafe` and of `Layer::new` (overflowing shifts / subtractions = panic). -/

/-- the model's `x_mask`, `y_mask`, `xy_mask` are the source's, for every `delta_depth` 0..32 and any configuration
    (`delta_depth = 0`: the empty mask, since the repair of finding F25) -/
theorem masks_from_source (cfg : Cfg) :
    (List.range 33).map (Topo.xMaskFn cfg) = Gen.Size.xMask ∧
    (List.range 33).map (Topo.yMaskFn cfg) = Gen.Size.yMask ∧
    (List.range 33).map (Topo.xyMaskFn cfg) = Gen.Size.xyMask := Hpx.SizeGen.masks_from_source cfg


/-! ## external edges for EVERY `delta_depth` (0 included, since the repair of the masks): at `delta_depth = 0` the external
edge is the list of the neighbours -/

section ExternalEdgesAllDelta
open Hpx Hpx.Topo Hpx.TopoSpec Hpx.TopoNeigh Hpx.TopoLift Hpx.EdgeInternal Hpx.EdgeExternal MW

/-- **C14, `external_edge_delta0`**: with `delta_depth = 0`, `external_edge` (`s = false`) and `external_edge_sorted`
    (`s = true`) do not panic and return the neighbours of `hash` (the values of `neighbours(hash)`: in `MainWind` index
    order for `s = false`, by increasing cell number for `s = true`).  Every depth `d ≤ 29`, every cell number of the
    depth, any build (debug or release, LUT or BMI). -/
theorem external_edge_delta0 (cfg : Cfg) (d : Nat) (hd : d ≤ 29) (hash : Nat) (hh : hash < 12 * 4 ^ d) (s : Bool) :
    externalEdge cfg d hash 0 s = some ((orderOf s (nbList d hash false)).map (·.2)) :=
  Hpx.EdgeExternal.external_edge_delta0 cfg d hd hash hh s

/-- **C14, `external_edge_struct_delta0`**: with `delta_depth = 0`, `external_edge_struct` does not panic and files each
    neighbour `(dir, hv)` of `hash` under `dir`, as the one-element list `[hv]` (corner for a cardinal `dir`, edge for an
    ordinal `dir`) -/
theorem external_edge_struct_delta0 (cfg : Cfg) (d : Nat) (hd : d ≤ 29) (hash : Nat) (hh : hash < 12 * 4 ^ d) :
    externalEdgeStruct cfg d hash 0 = some ((nbList d hash false).map fun e => (e.1, [e.2])) :=
  Hpx.EdgeExternal.external_edge_struct_delta0 cfg d hd hash hh

/-- membership: `h'` is in `external_edge*(hash, 0)` iff it is a cell number of the depth, different from `hash`, whose
    cell shares a vertex with the cell `hash` as points of the sphere (`TopoSpec.Touch`), i.e. iff it is a neighbour -/
theorem external_edge_delta0_mem (cfg : Cfg) (d : Nat) (hd : d ≤ 29) (hash : Nat) (hh : hash < 12 * 4 ^ d) (s : Bool) :
    ∃ l, externalEdge cfg d hash 0 s = some l ∧ ∀ h', h' ∈ l ↔
      (h' < 12 * 4 ^ d ∧ h' ≠ hash ∧ Touch (2 ^ d) (partsOf d hash) (partsOf d h')) :=
  Hpx.EdgeExternal.external_edge_delta0_mem cfg d hd hash hh s

/-- length = number of neighbours: 8, 7 for the 24 cells with 7 neighbours (`Special`, i.e. `hash ∈ specialHashes d`),
    6 at depth 0 (both orders) -/
theorem external_edge_delta0_length (cfg : Cfg) (d : Nat) (hd : d ≤ 29) (hash : Nat) (hh : hash < 12 * 4 ^ d) (s : Bool) :
    ∃ l, externalEdge cfg d hash 0 s = some l ∧
      l.length = (nbList d hash false).length ∧
      l.length = (if d = 0 then 6 else if Special (2 ^ d) (partsOf d hash) then 7 else 8) ∧
      (Special (2 ^ d) (partsOf d hash) ↔ hash ∈ specialHashes d) :=
  Hpx.EdgeExternal.external_edge_delta0_length cfg d hd hash hh s

/-- **C14, `external_edge_spec` for every `delta_depth`** (`0` included): on a cell number of the depth, `d + dd ≤ 29`,
    `external_edge` (`s = false`) and `external_edge_sorted` (`s = true`) do not panic and return the concatenation, over
    the neighbours `(dir, hv)` of `hash` (in `MainWind` index order / by increasing number), of the sub-cells of `hv` on its
    side / corner facing `hash`.  Any build. -/
theorem external_edge_spec_all_delta (cfg : Cfg) (d dd : Nat) (hsum : d + dd ≤ 29) (hash : Nat)
    (hh : hash < 12 * 4 ^ d) (s : Bool) :
    externalEdge cfg d hash dd s = some (externalList d hash dd s) :=
  Hpx.EdgeExternal.external_edge_spec_all_delta cfg d dd hsum hash hh s

/-- **C14, `external_edge_struct_spec` for every `delta_depth`** (`0` included) -/
theorem external_edge_struct_spec_all_delta (cfg : Cfg) (d dd : Nat) (hsum : d + dd ≤ 29) (hash : Nat)
    (hh : hash < 12 * 4 ^ d) :
    externalEdgeStruct cfg d hash dd =
      some ((nbList d hash false).map fun e => (e.1, sideList e.2 dd (fromD d hash e.1))) ∧
    ∀ dir hv, (dir, hv) ∈ nbList d hash false →
      (sideList hv dd (fromD d hash dir)).length = (if dir.isCardinal then 1 else 2 ^ dd) ∧
      (fromD d hash dir).isCardinal = dir.isCardinal :=
  Hpx.EdgeExternal.external_edge_struct_spec_all_delta cfg d dd hsum hash hh

/-- **C14, `external_edge_set` for every `delta_depth`** (`0` included; soundness and completeness): the members of the
    external edge are exactly the cell numbers `h'` of depth `d + dd` that lie outside `hash` and share a vertex, as points
    of the sphere, with some descendant `h''` of `hash` at depth `d + dd`.  Both orders, any build. -/
theorem external_edge_set_all_delta (cfg : Cfg) (d dd : Nat) (hsum : d + dd ≤ 29) (hash : Nat)
    (hh : hash < 12 * 4 ^ d) (s : Bool) :
    ∃ l, externalEdge cfg d hash dd s = some l ∧ ∀ h', h' ∈ l ↔
      (h' < 12 * 4 ^ (d + dd) ∧ h' / 4 ^ dd ≠ hash ∧
        ∃ h'', h'' / 4 ^ dd = hash ∧ Touch (2 ^ (d + dd)) (partsOf (d + dd) h') (partsOf (d + dd) h'')) :=
  Hpx.EdgeExternal.external_edge_set_all_delta cfg d dd hsum hash hh s

/-- **C14, `external_edge_nodup` for every `delta_depth`** (`0` included): no duplicates, both orders -/
theorem external_edge_nodup_all_delta (cfg : Cfg) (d dd : Nat) (hsum : d + dd ≤ 29) (hash : Nat)
    (hh : hash < 12 * 4 ^ d) (s : Bool) :
    ∃ l, externalEdge cfg d hash dd s = some l ∧ l.Nodup :=
  Hpx.EdgeExternal.external_edge_nodup_all_delta cfg d dd hsum hash hh s

/-- **C14, `external_edge_sorted_spec` for every `delta_depth`** (`0` included): `external_edge_sorted` returns a strictly
    increasing list, which is a permutation of the result of `external_edge` -/
theorem external_edge_sorted_spec_all_delta (cfg : Cfg) (d dd : Nat) (hsum : d + dd ≤ 29) (hash : Nat)
    (hh : hash < 12 * 4 ^ d) :
    ∃ ls lu, externalEdge cfg d hash dd true = some ls ∧ externalEdge cfg d hash dd false = some lu ∧
      ls.Pairwise (· < ·) ∧ ls.Perm lu ∧ (∀ h', h' ∈ ls ↔ h' ∈ lu) ∧ ls.length = lu.length :=
  Hpx.EdgeExternal.external_edge_sorted_spec_all_delta cfg d dd hsum hash hh

/-- **C14, `external_edge_length` for every `delta_depth`** (`0` included): `4·2^dd` cells along the four sides plus one
    corner cell per cardinal neighbour: `4·2^dd + 4` in general, `+ 3` for the 24 cells with 7 neighbours, `+ 2` at depth 0
    (both orders); at `dd = 0` this is the number of neighbours `8`, `7`, `6` -/
theorem external_edge_length_all_delta (cfg : Cfg) (d dd : Nat) (hsum : d + dd ≤ 29) (hash : Nat)
    (hh : hash < 12 * 4 ^ d) (s : Bool) :
    ∃ l, externalEdge cfg d hash dd s = some l ∧
      l.length = 4 * 2 ^ dd + ((nbList d hash false).filter fun e => e.1.isCardinal).length ∧
      l.length = 4 * 2 ^ dd + (if d = 0 then 2 else if Special (2 ^ d) (partsOf d hash) then 3 else 4) :=
  Hpx.EdgeExternal.external_edge_length_all_delta cfg d dd hsum hash hh s


end ExternalEdgesAllDelta

end Hpx.C14
