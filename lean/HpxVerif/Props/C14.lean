import HpxVerif.Model.Topo
import HpxVerif.Lemmas.TopoGen
import HpxVerif.Gen.Consts

set_option autoImplicit false   -- an unknown identifier in a statement is an error, never a new variable

/-!
# C14 — internal / external edges of a cell are exactly its deeper-depth border rings

Proved for every input: `edge_guards` (the convenience functions accept exactly `depth + delta_depth ≤ 29`; this is
the repaired behaviour of finding F6, and `DEPTH_MAX` is regenerated from the source).
Tests by kernel evaluation on the model (labelled tests): for `delta_depth = 1..5` the internal edge of a cell is the
set of its descendants on the border of the `2^δ` grid, has `4·2^δ − 4` elements without duplicates, starts at the south
corner, reaches the east corner after `2^δ − 1` steps, and `internal_edge_sorted` is its sorted permutation (the
repaired behaviour of finding F9).
Open statements: `internal_edge_set`, `internal_edge_walk`, `internal_edge_sorted_perm` for every `δ`;
`external_edge_set` (depends on C04's completeness statement).
-/

namespace Hpx.C14
open Hpx Hpx.Topo

def lut : Cfg := { debug := true, bmi := false }

/-- the convenience functions accept `depth + delta_depth ≤ DEPTH_MAX = 29` and nothing beyond -/
theorem edge_guards (cfg : Cfg) (d h dd : Nat) (hd : d ≤ 29) (hdd : dd ≤ 29) :
    (d + dd ≤ 29 → internalEdgeTop cfg Gen.cDepthMax d h dd = internalEdge cfg h dd ∧
                    internalEdgeSortedTop cfg Gen.cDepthMax d h dd = internalEdgeSorted cfg h dd) ∧
    (d + dd > 29 → internalEdgeTop cfg Gen.cDepthMax d h dd = none ∧
                    internalEdgeSortedTop cfg Gen.cDepthMax d h dd = none) := by
  have hm : (d + dd) % 256 = d + dd := Nat.mod_eq_of_lt (by omega)
  have hc : Gen.cDepthMax = 29 := by decide
  constructor
  · intro h1
    simp [internalEdgeTop, internalEdgeSortedTop, hm, hc, h1]
  · intro h1
    have : ¬ (d + dd ≤ 29) := by omega
    simp [internalEdgeTop, internalEdgeSortedTop, hm, hc, this]

/-- spec of the border set of the `2^δ` grid inside cell `h`, in increasing order of cell number -/
def borderSpec (h dd : Nat) : List Nat :=
  let n := 2 ^ dd
  ((List.range (n * n)).filter fun z =>
    let i := squeezeN 32 z; let j := squeezeN 32 (z / 2)
    i == 0 || j == 0 || i == n - 1 || j == n - 1).map (h * 4 ^ dd + ·)

def insertSorted (x : Nat) : List Nat → List Nat
  | [] => [x]
  | y :: ys => if x ≤ y then x :: y :: ys else y :: insertSorted x ys

def sortNat (l : List Nat) : List Nat := l.foldr insertSorted []

/-- what the property demands of `internal_edge` and `internal_edge_sorted`, as a decidable check -/
def edgeOk (h dd : Nat) : Bool :=
  match internalEdge lut h dd, internalEdgeSorted lut h dd with
  | some e, some s =>
    sortNat e == borderSpec h dd && e.length == 4 * 2 ^ dd - 4 && s == borderSpec h dd
      && e.head? == some (h * 4 ^ dd)
      && e[2 ^ dd - 1]? == some (h * 4 ^ dd + (spreadN 32 (2 ^ dd - 1)))
  | _, _ => false

/-- **test** (kernel evaluation, `δ = 1..5`, three cells) -/
theorem internal_edge_small_delta_test :
    ∀ dd, dd < 6 → dd = 0 ∨ (edgeOk 0 dd && edgeOk 7 dd && edgeOk 191 dd) = true := by
  decide +kernel

/-! ## the direction tables of the model are the tables of the source (regenerated on every run) -/

/-- `lib::direction_from_neighbour` and `lib::edge_cell_direction_from_neighbour` (the rotated frames of the polar-cap
    seams, panicking entries included) equal, entry by entry, what the translator tabulates from `src/lib.rs` -/
theorem direction_tables_from_source :
    (∀ b, b < 12 → ∀ w : MW,
      directionFromNeighbour b w = ((TopoGen.lk2 Gen.directionFromNeighbour b w.index).bind id).bind MW.ofIndex) ∧
    (∀ b, b < 12 → ∀ inner nd : MW,
      edgeCellDirectionFromNeighbour b inner nd =
        ((TopoGen.lk3 Gen.edgeCellDirectionFromNeighbour b inner.index nd.index).bind id).bind MW.ofIndex) :=
  ⟨TopoGen.direction_from_neighbour, TopoGen.edge_cell_direction_from_neighbour⟩

theorem seam_rules_from_source : ∀ b, b < 12 → ∀ w : MW, w ≠ .C →
    seamRule b w = TopoGen.decodeSeam ((TopoGen.lk2 Gen.seamRules b w.index).bind id) := TopoGen.seam_rules

end Hpx.C14
