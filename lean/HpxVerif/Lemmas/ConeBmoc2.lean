import HpxVerif.Lemmas.ConeBmoc

/-!
# C05 / C06 on the BMOC RETURNED by `cone_coverage_approx` (part 2: the cell list, the compaction, T1 and T2)

* `packPass_closure`, `pack_closure`: a property of cells that passes from four full siblings to their full parent holds
  for every entry of `pack l` as soon as it holds for every entry of `l`;
* `GoodCell`: what is known of every cell of the list handed to the builder AND of every entry of the returned BMOC —
  a FULL cell is not centred on the transition latitude and all its positions are strictly inside the cone; a partial
  cell is at the requested depth;
* `coneInternal_split`: the two shapes of the list (`recursion from start cells` / `small cone`);
* **`cone_coverage_approx_no_miss_equatorial`** (T1), **`cone_coverage_approx_full_inside_equatorial`** (T2).
-/

namespace Hpx.ConeBmoc
open Hpx Hpx.Hash Hpx.C2V Hpx.C2VReal Hpx.Proj Hpx.Cover Hpx.CellReal Hpx.EnvelopeReal Hpx.TopoLift Hpx.CellExtent
open Hpx.Bmoc Hpx.Tightness Hpx.EConeEq Real

/-! ## a property closed under "four full siblings → full parent" survives `pack` -/

theorem packPass_closure (G : Cell → Prop) (dm : Nat) (hdm : dm ≤ 29)
    (hG : ∀ d h, 0 < d → d ≤ dm → h % 4 = 0 → h < 12 * 4 ^ d → G ⟨d, h, true⟩ → G ⟨d, h + 1, true⟩ →
      G ⟨d, h + 2, true⟩ → G ⟨d, h + 3, true⟩ → G ⟨d - 1, h / 4, true⟩)
    (l : List Nat) (hv : ∀ r ∈ l, ValidRaw dm r) (hl : ∀ r ∈ l, G (decode r dm)) :
    ∀ r ∈ packPass dm l, G (decode r dm) := by
  fun_induction packPass dm l with
  | case1 => intro r hr; simp at hr
  | case2 c rest d h hcond ih =>
    intro r hr
    rcases List.mem_cons.mp hr with rfl | hr
    · exact hl _ (by simp)
    · exact ih (fun r hr => hv r (by simp [hr])) (fun r hr => hl r (by simp [hr])) r hr
  | case3 c rest d h hc hs ih =>
    obtain ⟨rest', hrest⟩ := siblingsFollow_spec dm d h rest hs
    subst hrest
    obtain ⟨c0, hc0d, hc0h, hc0⟩ := hv c (by simp)
    obtain ⟨p1, p2, p3, p4⟩ := raw_parts hdm hc0d hc0h
    rw [← hc0] at p1 p2 p3 p4
    have hd : d = c0.depth := p1
    have hh : h = c0.hash := by show hashFromDeltaDepth c (dm - d) = _; rw [hd]; exact p2
    simp only [Bool.or_eq_true, beq_iff_eq, bne_iff_ne, ne_eq, not_or, Decidable.not_not] at hc
    have hfull : c0.full = true := by
      have := hc.1.2; rw [p3] at this; simpa using this
    have hd0 : 0 < d := Nat.pos_of_ne_zero hc.1.1
    have h3 : h &&& 3 = 0 := hc.2
    have hm4 : h % 4 = 0 := by
      have := Nat.and_two_pow_sub_one_eq_mod h 2
      simpa [h3] using this.symm
    have hdle : d ≤ dm := hd ▸ hc0d
    have hhlt : h < 12 * 4 ^ d := by rw [hd, hh]; exact hc0h
    have hpow : 12 * 4 ^ d = 4 * (12 * 4 ^ (d - 1)) := by
      rw [show d = (d - 1) + 1 by omega, Nat.pow_succ]; simp; ring
    have hk : ∀ k, k < 4 → h + k < 12 * 4 ^ d := by intro k hk; omega
    have hpar : h >>> 2 < 12 * 4 ^ (d - 1) := by rw [Nat.shiftRight_eq_div_pow]; omega
    have hdrop : (buildRaw d (h ||| 1) true dm :: buildRaw d (h ||| 2) true dm :: buildRaw d (h ||| 3) true dm :: rest').drop 3 = rest' := rfl
    rw [hdrop] at ih ⊢
    have e1 := or_eq_add_of_and3 h 1 h3 (by omega)
    have e2 := or_eq_add_of_and3 h 2 h3 (by omega)
    have e3 := or_eq_add_of_and3 h 3 h3 (by omega)
    have dc : decode c dm = ⟨d, h, true⟩ := by rw [p4, hd, hh, ← hfull]
    have ds : ∀ k, k < 4 → decode (buildRaw d (h + k) true dm) dm = ⟨d, h + k, true⟩ := fun k hk4 =>
      decode_buildRaw d (h + k) true dm hdle (raw_fits hdle hdm (hk k hk4))
    have dp : decode (buildRaw (d - 1) (h >>> 2) true dm) dm = ⟨d - 1, h / 4, true⟩ := by
      rw [decode_buildRaw (d - 1) (h >>> 2) true dm (by omega) (raw_fits (by omega) hdm hpar), Nat.shiftRight_eq_div_pow]
    intro r hr
    rcases List.mem_cons.mp hr with rfl | hr
    · rw [dp]
      have g0 := hl c (by simp)
      have g1 := hl (buildRaw d (h ||| 1) true dm) (by simp)
      have g2 := hl (buildRaw d (h ||| 2) true dm) (by simp)
      have g3 := hl (buildRaw d (h ||| 3) true dm) (by simp)
      rw [dc] at g0
      rw [e1, ds 1 (by omega)] at g1
      rw [e2, ds 2 (by omega)] at g2
      rw [e3, ds 3 (by omega)] at g3
      exact hG d h hd0 hdle hm4 hhlt g0 g1 g2 g3
    · exact ih (fun r hr => hv r (by simp [hr])) (fun r hr => hl r (by simp [hr])) r hr
  | case4 c rest d h hc hs ih =>
    intro r hr
    rcases List.mem_cons.mp hr with rfl | hr
    · exact hl _ (by simp)
    · exact ih (fun r hr => hv r (by simp [hr])) (fun r hr => hl r (by simp [hr])) r hr

theorem packFuel_closure (G : Cell → Prop) (dm : Nat) (hdm : dm ≤ 29)
    (hG : ∀ d h, 0 < d → d ≤ dm → h % 4 = 0 → h < 12 * 4 ^ d → G ⟨d, h, true⟩ → G ⟨d, h + 1, true⟩ →
      G ⟨d, h + 2, true⟩ → G ⟨d, h + 3, true⟩ → G ⟨d - 1, h / 4, true⟩) :
    ∀ (fuel : Nat) (l : List Nat), (∀ r ∈ l, ValidRaw dm r) → (∀ r ∈ l, G (decode r dm)) →
      ∀ r ∈ packFuel dm fuel l, G (decode r dm) := by
  intro fuel
  induction fuel with
  | zero => intro l _ hl r hr; exact hl r hr
  | succ f ih =>
    intro l hv hl r hr
    unfold packFuel at hr
    dsimp only at hr
    split at hr
    · exact packPass_closure G dm hdm hG l hv hl r hr
    · exact ih _ (packPass_sem dm hdm l hv).2 (packPass_closure G dm hdm hG l hv hl) r hr

/-- **`pack_closure`**: a property of cells that passes from four full siblings to their full parent holds for every
    entry of `pack dm l` as soon as it holds for every entry of `l` (valid entries, `dm ≤ 29`) -/
theorem pack_closure (G : Cell → Prop) (dm : Nat) (hdm : dm ≤ 29)
    (hG : ∀ d h, 0 < d → d ≤ dm → h % 4 = 0 → h < 12 * 4 ^ d → G ⟨d, h, true⟩ → G ⟨d, h + 1, true⟩ →
      G ⟨d, h + 2, true⟩ → G ⟨d, h + 3, true⟩ → G ⟨d - 1, h / 4, true⟩)
    (l : List Nat) (hv : ∀ r ∈ l, ValidRaw dm r) (hl : ∀ r ∈ l, G (decode r dm)) :
    ∀ r ∈ pack dm l, G (decode r dm) :=
  packFuel_closure G dm hdm hG _ l hv hl

/-! ## cell numbers and intervals -/

theorem covers_iff_div (D : Nat) (c : Cell) (x : Nat) :
    (lo D c ≤ x ∧ x < hi D c) ↔ x / 4 ^ (D - c.depth) = c.hash := by
  unfold lo hi
  have hp : 0 < 4 ^ (D - c.depth) := Nat.pow_pos (by decide)
  generalize 4 ^ (D - c.depth) = P at hp
  constructor
  · rintro ⟨h1, h2⟩
    exact Nat.div_eq_of_lt_le h1 h2
  · intro h
    rw [← h]
    refine ⟨Nat.div_mul_le_self x P, ?_⟩
    have := Nat.lt_mul_div_succ x hp
    rw [Nat.mul_comm] at this
    exact this

/-! ## what is known of the cells -/

/-- a FULL cell is not centred on the transition latitude and every position of it (`InCellEq`) is strictly inside the
    cone; a partial cell is at the depth `D` of the BMOC -/
def GoodCell (lon lat r : ℝ) (D : ℕ) (c : Cell) : Prop :=
  (c.full = true → |pcy c.depth c.hash| ≠ 1 ∧ ∀ q, InCellEq c.depth c.hash q → adist (lon, lat) q < r) ∧
  (c.full = false → c.depth = D)

/-- `GoodCell` passes from four full siblings to their parent: the east sibling has the ordinate of the parent, and the
    four siblings cover the parent (`inCellEq_children`) -/
theorem goodCell_closure (lon lat r : ℝ) (D : ℕ) (hD : D ≤ 29) :
    ∀ d h, 0 < d → d ≤ D → h % 4 = 0 → h < 12 * 4 ^ d → GoodCell lon lat r D ⟨d, h, true⟩ →
      GoodCell lon lat r D ⟨d, h + 1, true⟩ → GoodCell lon lat r D ⟨d, h + 2, true⟩ →
      GoodCell lon lat r D ⟨d, h + 3, true⟩ → GoodCell lon lat r D ⟨d - 1, h / 4, true⟩ := by
  intro d h hd0 hdD h4 _ g0 g1 g2 g3
  obtain ⟨d', rfl⟩ : ∃ d', d = d' + 1 := ⟨d - 1, by omega⟩
  rw [Nat.add_sub_cancel]
  have e : ∀ k, k < 4 → h + k = 4 * (h / 4) + k := by intro k _; omega
  refine ⟨fun _ => ⟨?_, ?_⟩, fun hf => by simp at hf⟩
  · have := (g1.1 rfl).1
    simp only at this
    rw [e 1 (by omega), east_child_pcy d' (h / 4) (by omega)] at this
    exact this
  · intro q hq
    have hch := inCellEq_children d' (h / 4) q (by omega) hq
    rw [shl2_or (h / 4) 1 (by omega), shl2_or (h / 4) 2 (by omega), shl2_or (h / 4) 3 (by omega),
      show (h / 4) <<< 2 = h + 0 by rw [Nat.shiftLeft_eq]; omega, ← e 1 (by omega), ← e 2 (by omega),
      ← e 3 (by omega)] at hch
    rcases hch with h0 | h1 | h2 | h3
    · exact (g0.1 rfl).2 q h0
    · exact (g1.1 rfl).2 q h1
    · exact (g2.1 rfl).2 q h2
    · exact (g3.1 rfl).2 q h3

/-- a good cell that covers (in the sense of cell numbers) a strictly equatorial cell `x` of depth `D` containing `q`
    contains `q` -/
theorem goodCell_contains (lon lat r : ℝ) (D : ℕ) (hD : D ≤ 29) (c : Cell) (hg : GoodCell lon lat r D c)
    (hcd : c.depth ≤ D) (x : ℕ) (hcov : x / 4 ^ (D - c.depth) = c.hash) (q : ℝ × ℝ) (hq : InCellEq D x q) :
    InCellEq c.depth c.hash q := by
  cases hf : c.full with
  | false =>
    have hd := hg.2 hf
    rw [hd, Nat.sub_self, Nat.pow_zero, Nat.div_one] at hcov
    rw [hd, ← hcov]
    exact hq
  | true =>
    have hne := (hg.1 hf).1
    have hle := anc_band_le' D c.depth x hcd (by omega) hq.2.2.1
    rw [hcov] at hle
    have hlt : |pcy c.depth c.hash| < 1 := lt_of_le_of_ne hle hne
    have := inCellEq_ancestor' D c.depth x hcd q hq (by rw [hcov]; exact hlt)
    rw [hcov] at this
    exact this

/-! ## the packed BMOC -/

/-- **the compaction keeps the good cells good and covers what was covered** -/
theorem packed_good (lon lat r : ℝ) (D : ℕ) (hD : D ≤ 29) (cells : List Cell) (hw : WF D cells)
    (hr : ∀ c ∈ cells, InRange c) (hg : ∀ c ∈ cells, GoodCell lon lat r D c) :
    (∀ e ∈ pack D (cells.map (encode D)), GoodCell lon lat r D (decode e D)) ∧
    (∀ c ∈ cells, ∀ x, x / 4 ^ (D - c.depth) = c.hash →
      ∃ e ∈ pack D (cells.map (encode D)), (decode e D).depth ≤ D ∧
        x / 4 ^ (D - (decode e D).depth) = (decode e D).hash ∧ (decode e D).full = c.full) := by
  obtain ⟨g1, g2, _, g4⟩ := packed_bmoc_wf D hD cells hw hr
  have hv : ∀ r ∈ cells.map (encode D), ValidRaw D r := by
    intro e he
    obtain ⟨c, hc, rfl⟩ := List.mem_map.1 he
    exact ⟨c, hw.depth_le c hc, hr c hc, rfl⟩
  refine ⟨?_, ?_⟩
  · refine pack_closure _ D hD (goodCell_closure lon lat r D hD) _ hv ?_
    intro e he
    obtain ⟨c, hc, rfl⟩ := List.mem_map.1 he
    rw [decode_encode (hw.depth_le c hc) hD (hr c hc)]
    exact hg c hc
  · intro c hc x hx
    obtain ⟨h1, h2⟩ := (covers_iff_div D c x).mpr hx
    have hst := Lower.stOf_of_mem hw hc h1 h2
    have hst' := g4 x
    rw [hst] at hst'
    obtain ⟨c', hc', k1, k2⟩ := stOf_ne_abs_covered (D := D) (l := cellsOf D (pack D (cells.map (encode D)))) (x := x)
      (by rw [hst']; exact Lower.ofFlag_ne_abs _)
    have hst2 := Lower.stOf_of_mem g2 hc' k1 k2
    rw [hst'] at hst2
    obtain ⟨e, he, rfl⟩ := List.mem_map.1 hc'
    refine ⟨e, he, g2.depth_le _ hc', (covers_iff_div D _ x).mp ⟨k1, k2⟩, ?_⟩
    revert hst2
    cases (decode e D).full <;> cases c.full <;> simp [Tri.ofFlag]

/-! ## the descent: what each emitted cell satisfies -/

/-- a cell emitted by the descent is full or at the target depth -/
theorem coverRec_partial_depth (target : Nat) (κ : Nat → Nat → Nat → Option Verdict) :
    ∀ (fuel depth hash level : Nat) (out : List Cell), coverRec target κ fuel depth hash level = some out →
      ∀ c ∈ out, c.full = true ∨ c.depth = target := by
  intro fuel
  induction fuel with
  | zero => intro depth hash level out h; simp [coverRec] at h
  | succ fuel ih =>
    intro depth hash level out h c hc
    unfold coverRec at h
    cases hk : κ depth hash level with
    | none => simp [hk] at h
    | some v =>
      simp only [hk] at h
      cases v with
      | full => cases h; simp at hc; subst hc; exact Or.inl rfl
      | skip => cases h; simp at hc
      | descend fl =>
        by_cases heq : (depth == target) = true
        · simp only [heq, if_true] at h; cases h; simp at hc; subst hc
          exact Or.inr (by simpa using heq)
        · simp only [heq, Bool.false_eq_true, if_false] at h
          cases h0 : coverRec target κ fuel (depth + 1) (hash <<< 2) (level + 1) with
          | none => simp [h0] at h
          | some a =>
          cases h1 : coverRec target κ fuel (depth + 1) (hash <<< 2 ||| 1) (level + 1) with
          | none => simp [h0, h1] at h
          | some b =>
          cases h2 : coverRec target κ fuel (depth + 1) (hash <<< 2 ||| 2) (level + 1) with
          | none => simp [h0, h1, h2] at h
          | some e =>
          cases h3 : coverRec target κ fuel (depth + 1) (hash <<< 2 ||| 3) (level + 1) with
          | none => simp [h0, h1, h2, h3] at h
          | some d =>
          simp only [h0, h1, h2, h3] at h
          cases h
          simp only [List.mem_append] at hc
          rcases hc with ((hc | hc) | hc) | hc
          · exact ih _ _ _ _ h0 c hc
          · exact ih _ _ _ _ h1 c hc
          · exact ih _ _ _ _ h2 c hc
          · exact ih _ _ _ _ h3 c hc

/-- the centre of a cell that the cone descent flags full is strictly inside the cone (any cone with `|lat| + r < tl`) -/
theorem cone_full_center_inside (cfg : Cfg) (lon lat r : ℝ) (hA : |lat| + r < tl) (ds target : ℕ)
    (hdt : ds ≤ target) (ht : target ≤ 29) (dists : List ℝ)
    (hdists : largestC2VsWithRadius false ds (target + 1) lon lat r = some dists) (fuel root : ℕ)
    (out : List Cell)
    (h : coverRec target (coneClassifier (α := ℝ) cfg lon lat (Num.cos lat) (dists.map (toShsMinMax r))) fuel ds root 0
      = some out)
    (c : Cell) (hc : c ∈ out) (hf : c.full = true) :
    ∃ ctr, center (α := ℝ) cfg c.depth c.hash = some ctr ∧ adist (lon, lat) ctr < r := by
  have hrpi : r ≤ π := by
    have := tl_le
    have := Real.pi_gt_three
    have := abs_nonneg lat
    linarith
  obtain ⟨l, ⟨hds, hl⟩, hrule⟩ := coverRec_full_rule_inv (fun d l => ds ≤ d ∧ l = d - ds) target _
    (fun d l ⟨h1, h2⟩ => ⟨by omega, by omega⟩) fuel ds root 0 out ⟨Nat.le_refl _, by omega⟩ h c hc hf
  rcases hrule with hk | ⟨_, hk⟩
  · obtain ⟨ctr, m, hctr, hm, hmin⟩ := coneClassifier_full cfg lon lat _ _ _ _ l hk
    rw [List.getElem?_map] at hm
    cases hdl : dists[l]? with
    | none => simp [hdl] at hm
    | some D =>
      simp only [hdl, Option.map_some, Option.some.injEq] at hm
      subst hm
      have hD0 : 0 ≤ D := dists_nonneg_gen ds target hdt ht lon lat r hA dists hdists D (List.mem_of_getElem? hdl)
      exact ⟨ctr, hctr, cone_full_sound lon lat r D ctr hrpi hD0 hmin ctr (by rw [adist_self]; exact hD0)⟩
  · exact absurd (coneClassifier_descend cfg lon lat _ _ _ _ l true hk) (by simp)

/-- **every cell emitted by the cone descent is good** (in range, `|lat| + r < tl`) -/
theorem coverRec_good (cfg : Cfg) (lon lat r : ℝ) (hA : |lat| + r < tl) (ds target : ℕ)
    (hdt : ds ≤ target) (ht : target ≤ 29) (dists : List ℝ)
    (hdists : largestC2VsWithRadius false ds (target + 1) lon lat r = some dists) (fuel root : ℕ)
    (out : List Cell)
    (h : coverRec target (coneClassifier (α := ℝ) cfg lon lat (Num.cos lat) (dists.map (toShsMinMax r))) fuel ds root 0
      = some out)
    (c : Cell) (hc : c ∈ out) (hcd : c.depth ≤ target) (hrange : InRange c) : GoodCell lon lat r target c := by
  refine ⟨fun hf => ⟨?_, ?_⟩, fun hf => ?_⟩
  · intro hedge
    obtain ⟨ctr, hctr, hlt⟩ := cone_full_center_inside cfg lon lat r hA ds target hdt ht dists hdists fuel root out h c hc hf
    have := band_edge_not_in_cone cfg lon lat r hA c.depth c.hash (by omega) hrange hedge ctr hctr
    linarith
  · intro q hq
    exact cone_full_inside_equatorial_gen cfg lon lat r hA ds target hdt ht dists hdists fuel root out h c hc hf q hq
  · rcases coverRec_partial_depth target _ fuel ds root 0 out h c hc with h1 | h1
    · rw [hf] at h1; cases h1
    · exact h1

/-! ## the loops over the start cells -/

theorem foldlM_append_sub {β : Type} (f : β → Option (List Cell)) :
    ∀ (l : List β) (init out : List Cell), l.foldlM (fun acc h => (f h).map (acc ++ ·)) init = some out →
      (∀ c ∈ init, c ∈ out) ∧ ∀ h ∈ l, ∃ o, f h = some o ∧ ∀ c ∈ o, c ∈ out := by
  intro l
  induction l with
  | nil =>
    intro init out h
    simp only [List.foldlM_nil] at h
    cases h
    exact ⟨fun c hc => hc, fun h hh => by simp at hh⟩
  | cons a l ih =>
    intro init out h
    simp only [List.foldlM_cons] at h
    cases ho : f a with
    | none => simp [ho] at h
    | some o =>
      simp only [ho, Option.map_some, Option.bind_eq_bind, Option.bind_some] at h
      obtain ⟨g1, g2⟩ := ih _ _ h
      refine ⟨fun c hc => g1 c (List.mem_append_left _ hc), ?_⟩
      intro h' hh'
      rcases List.mem_cons.mp hh' with rfl | hh'
      · exact ⟨o, ho, fun c hc => g1 c (List.mem_append_right _ hc)⟩
      · exact g2 h' hh'

/-- the filter of the small-cone branch: every element for which the test `K` holds has its image in the result -/
theorem foldlM_keep_spec {β : Type} (t : β → ℕ) (Q K : β → Prop) (step : List ℕ → β → Option (List ℕ))
    (hstep : ∀ acc e acc', step acc e = some acc' → Q e ∧ (acc' = acc ++ [t e] ∨ (acc' = acc ∧ ¬ K e))) :
    ∀ (nm : List β) (init l : List ℕ), nm.foldlM step init = some l →
      (∀ x ∈ init, x ∈ l) ∧ ∀ e ∈ nm, Q e ∧ (K e → t e ∈ l) := by
  intro nm
  induction nm with
  | nil =>
    intro init l h
    simp only [List.foldlM_nil] at h
    cases h
    exact ⟨fun x hx => hx, fun e he => by simp at he⟩
  | cons e es ih =>
    intro init l h
    simp only [List.foldlM_cons] at h
    cases hs : step init e with
    | none => simp [hs] at h
    | some acc' =>
      simp only [hs, Option.bind_eq_bind, Option.bind_some] at h
      obtain ⟨g1, g2⟩ := ih acc' l h
      obtain ⟨hQ, hcase⟩ := hstep _ _ _ hs
      refine ⟨fun x hx => g1 x ?_, ?_⟩
      · rcases hcase with rfl | ⟨rfl, _⟩
        · exact List.mem_append_left _ hx
        · exact hx
      · intro en hen
        rcases List.mem_cons.mp hen with rfl | hen
        · refine ⟨hQ, fun hK => g1 _ ?_⟩
          rcases hcase with rfl | ⟨_, hn⟩
          · exact List.mem_append_right _ (List.mem_singleton.mpr rfl)
          · exact absurd hK hn
        · exact g2 en hen


/-! ## the two shapes of the list of `cone_coverage_approx_internal` -/

/-- **the start cells** of `cone_coverage_approx_internal`, at depth `ds`: the twelve base cells (`ds = 0`) when the radius
    has no starting depth, else the cell of the cone centre at `ds = best_starting_depth(r)` and its neighbours (the
    "nine cells") -/
def IsStartCell (cfg : Cfg) (lon lat r : ℝ) (ds root : ℕ) : Prop :=
  (hasBestStartingDepth r = false ∧ ds = 0 ∧ root < 12) ∨
  (hasBestStartingDepth r = true ∧ bestStartingDepth r = some ds ∧ ∃ h0 nm, Hash.hashV2 cfg ds lon lat = some h0 ∧
    Topo.neighbours cfg ds h0 true = some nm ∧ root ∈ nm.map (·.2))

/-- the classifier of the descent of the cone `(lon, lat, r)` -/
noncomputable abbrev κc (cfg : Cfg) (lon lat r : ℝ) (dists : List ℝ) : Nat → Nat → Nat → Option Verdict :=
  coneClassifier (α := ℝ) cfg lon lat (Num.cos lat) (dists.map (toShsMinMax r))

/-- **`coneInternal_split`** (both profiles, `r < π`): the list of `cone_coverage_approx_internal` is
    * either the concatenation of the descents from the start cells of depth `ds ≤ depth` (`ds < depth` when the radius
      has a starting depth), with the list of radii of the release profile,
    * or (small cone, `depth ≤ ds = best_starting_depth(r)`) a list of partial cells of depth `depth` that contains the
      ancestor of every start cell whose centre passes the test `shs ≤ shs(r + D)`, `D` the release value of
      `largest_center_to_vertex_distance_with_radius(ds, lon, lat, r)`. -/
theorem coneInternal_split (cfg : Cfg) (depth : ℕ) (lon lat r : ℝ) (hrpi : r < π) (cells : List Cell)
    (h : coneInternal (α := ℝ) cfg depth lon lat r = some cells) :
    (∃ ds dists, ds ≤ depth ∧ (hasBestStartingDepth r = true → bestStartingDepth r = some ds ∧ ds < depth) ∧
      largestC2VsWithRadius false ds (depth + 1) lon lat r = some dists ∧
      (∀ c ∈ cells, ∃ root o, coverRec depth (κc cfg lon lat r dists) (depth + 2) ds root 0 = some o ∧ c ∈ o) ∧
      (∀ ds' root, IsStartCell cfg lon lat r ds' root → ds' = ds ∧
        ∃ o, coverRec depth (κc cfg lon lat r dists) (depth + 2) ds root 0 = some o ∧ ∀ c ∈ o, c ∈ cells)) ∨
    (∃ ds, hasBestStartingDepth r = true ∧ bestStartingDepth r = some ds ∧ depth ≤ ds ∧
      (∀ c ∈ cells, c.full = false ∧ c.depth = depth) ∧
      (∀ ds' root, IsStartCell cfg lon lat r ds' root → ds' = ds ∧
        ∃ ctr, center (α := ℝ) cfg ds root = some ctr ∧
          (Num.le (squaredHalfSegment (ctr.1 - lon) (ctr.2 - lat) (Num.cos ctr.2) (Num.cos lat))
            (toSquaredHalfSegment (r + valR ds lon lat r)) = true →
            ({ depth := depth, hash := root >>> ((ds - depth) <<< 1), full := false } : Cell) ∈ cells))) := by
  have hrel : ∀ f t vs, largestC2VsWithRadius cfg.debug f t lon lat r = some vs →
      largestC2VsWithRadius false f t lon lat r = some vs := by
    intro f t vs hvs
    cases hb : cfg.debug
    · rwa [hb] at hvs
    · rw [hb] at hvs; exact largestC2VsWithRadius_debug f t lon lat r vs hvs
  have hrel1 : ∀ d v, largestC2VWithRadius cfg.debug d lon lat r = some v →
      largestC2VWithRadius false d lon lat r = some v := by
    intro d v hv
    cases hb : cfg.debug
    · rwa [hb] at hv
    · rw [hb] at hv; exact largestC2VWithRadius_debug d lon lat r v hv
  unfold coneInternal at h
  split at h
  · -- all-sky: excluded
    rename_i hge
    have hge' : π ≤ r := by
      have : decide (π ≤ r) = true := hge
      simpa using this
    linarith
  · simp only [] at h
    split at h
    · -- twelve base cells
      rename_i hnb
      have hnb' : hasBestStartingDepth r = false := by simpa using hnb
      split at h
      · simp at h
      · rename_i dists hdists
        left
        refine ⟨0, dists, Nat.zero_le _, (fun hb => by rw [hnb'] at hb; cases hb), hrel _ _ _ hdists, ?_, ?_⟩
        · intro c hc
          rcases foldlM_append_members _ _ _ _ h c hc with h1 | ⟨root, _, o, ho, hco⟩
          · simp at h1
          · exact ⟨root, o, ho, hco⟩
        · intro ds' root hst
          rcases hst with ⟨_, h0, hlt⟩ | ⟨hb, _⟩
          · refine ⟨h0, ?_⟩
            exact (foldlM_append_sub _ _ _ _ h).2 root (List.mem_range.mpr hlt)
          · rw [hnb'] at hb; cases hb
    · rename_i hnb
      have hnb' : hasBestStartingDepth r = true := by simpa using hnb
      split at h
      · simp at h
      · rename_i ds hds
        have hd29 := CoverAll.bestDepth_le r ds hds
        split at h
        · -- small cone
          rename_i hge
          right
          split at h
          · simp at h
          · rename_i c2v hc2v
            have hval : c2v = valR ds lon lat r := by
              have := valR_spec ds hd29 lon lat r
              rw [hrel1 _ _ hc2v] at this
              exact Option.some.inj this
            split at h
            · simp at h
            · rename_i h0 hh0
              split at h
              · simp at h
              · rename_i nm hnm
                simp only [Option.map_eq_some_iff] at h
                obtain ⟨l, hl, rfl⟩ := h
                refine ⟨ds, hnb', hds, hge, ?_, ?_⟩
                · intro c hc
                  obtain ⟨v, _, rfl⟩ := List.mem_map.mp hc
                  exact ⟨rfl, rfl⟩
                · intro ds' root hst
                  rcases hst with ⟨hb, _⟩ | ⟨_, hds', h0', nm', hh0', hnm', hroot⟩
                  · rw [hnb'] at hb; cases hb
                  · rw [hds] at hds'
                    have e := Option.some.inj hds'
                    subst e
                    rw [hh0] at hh0'
                    have e0 := Option.some.inj hh0'
                    subst e0
                    rw [hnm] at hnm'
                    have e1 := Option.some.inj hnm'
                    subst e1
                    refine ⟨rfl, ?_⟩
                    obtain ⟨en, hen, rfl⟩ := List.mem_map.mp hroot
                    have key := foldlM_keep_spec (fun e : MW × Nat => e.2 >>> ((ds - depth) <<< 1))
                      (fun e => ∃ ctr, center (α := ℝ) cfg ds e.2 = some ctr)
                      (fun e => ∀ ctr, center (α := ℝ) cfg ds e.2 = some ctr →
                        Num.le (squaredHalfSegment (ctr.1 - lon) (ctr.2 - lat) (Num.cos ctr.2) (Num.cos lat))
                          (toSquaredHalfSegment (r + c2v)) = true) _ ?hs nm [] l hl
                    · obtain ⟨⟨ctr, hctr⟩, hk⟩ := key.2 en hen
                      refine ⟨ctr, hctr, fun hle => ?_⟩
                      refine List.mem_map.mpr ⟨_, (Builder.mem_dedup_sort _ _).mpr (hk ?_), rfl⟩
                      intro ctr' hctr'
                      rw [hctr] at hctr'
                      cases hctr'
                      rw [hval]
                      exact hle
                    · intro acc e acc' hs
                      split at hs
                      · simp at hs
                      · rename_i ctr hctr
                        refine ⟨⟨ctr, hctr⟩, ?_⟩
                        split at hs
                        · cases hs; exact Or.inl rfl
                        · rename_i hnle
                          cases hs
                          refine Or.inr ⟨rfl, fun hall => hnle (hall ctr hctr)⟩
        · -- start depth + recursion
          rename_i hlt
          left
          split at h
          · simp at h
          · rename_i dists hdists
            split at h
            · simp at h
            · rename_i h0 hh0
              split at h
              · simp at h
              · rename_i nm hnm
                refine ⟨ds, dists, by omega, fun _ => ⟨hds, by omega⟩, hrel _ _ _ hdists, ?_, ?_⟩
                · intro c hc
                  rcases foldlM_append_members _ _ _ _ h c hc with h1 | ⟨root, _, o, ho, hco⟩
                  · simp at h1
                  · exact ⟨root, o, ho, hco⟩
                · intro ds' root hst
                  rcases hst with ⟨hb, _⟩ | ⟨_, hds', h0', nm', hh0', hnm', hroot⟩
                  · rw [hnb'] at hb; cases hb
                  · rw [hds] at hds'
                    have e := Option.some.inj hds'
                    subst e
                    rw [hh0] at hh0'
                    have e0 := Option.some.inj hh0'
                    subst e0
                    rw [hnm] at hnm'
                    have e1 := Option.some.inj hnm'
                    subst e1
                    refine ⟨rfl, ?_⟩
                    exact (foldlM_append_sub _ _ _ _ h).2 root ((Builder.mem_sortNat _ _).mpr hroot)


/-! ## the list of `cone_coverage_approx_internal`: good cells, nothing missed -/

theorem r_lt_pi (lat r : ℝ) (hA : |lat| + r < tl) : r < π := by
  have := tl_le
  have := Real.pi_gt_three
  have := abs_nonneg lat
  linarith

/-- **every cell of the list handed to the builder is good** -/
theorem coneInternal_good (cfg : Cfg) (depth : ℕ) (hd : depth ≤ 29) (lon lat r : ℝ) (hA : |lat| + r < tl)
    (cells : List Cell) (h : coneInternal (α := ℝ) cfg depth lon lat r = some cells) :
    ∀ c ∈ cells, GoodCell lon lat r depth c := by
  obtain ⟨hw, hrange⟩ := CoverAll.coneInternal_wf cfg depth lon lat r cells h
  intro c hc
  rcases coneInternal_split cfg depth lon lat r (r_lt_pi lat r hA) cells h with
    ⟨ds, dists, hds, _, hdists, hmem, _⟩ | ⟨ds, _, _, _, hall, _⟩
  · obtain ⟨root, o, ho, hco⟩ := hmem c hc
    exact coverRec_good cfg lon lat r hA ds depth hds hd dists hdists _ root o ho c hco (hw.depth_le c hc) (hrange c hc)
  · obtain ⟨h1, h2⟩ := hall c hc
    exact ⟨fun hf => (by rw [h1] at hf; cases hf), fun _ => h2⟩

/-- near ⇒ kept: the test of the small-cone branch over ℝ -/
theorem small_near_keep (coneLon coneLat r D : ℝ) (c : ℝ × ℝ) (hrD0 : 0 ≤ r + D) (hrD : r + D ≤ π)
    (hnear : adist (coneLon, coneLat) c ≤ r + D) :
    Num.le (squaredHalfSegment (c.1 - coneLon) (c.2 - coneLat) (Num.cos c.2) (Num.cos coneLat))
      (toSquaredHalfSegment (r + D)) = true := by
  have e : squaredHalfSegment (c.1 - coneLon) (c.2 - coneLat) (Num.cos c.2) (Num.cos coneLat) =
      shs (α := ℝ) coneLon coneLat (Num.cos coneLat) c := rfl
  rw [e, shs_real, toShs_real]
  show decide (sin (adist (coneLon, coneLat) c / 2) ^ 2 ≤ sin ((r + D) / 2) ^ 2) = true
  have hn : ¬ sin ((r + D) / 2) ^ 2 < sin (adist (coneLon, coneLat) c / 2) ^ 2 := by
    intro hlt
    have := (sin_sq_half_lt_iff _ _ ⟨hrD0, hrD⟩ ⟨adist_nonneg _ _, adist_le_pi _ _⟩).mp hlt
    linarith
  simpa using not_lt.mp hn

/-- **nothing is missed, cell list, `ds ≤ depth`**: a position `q` of the cone that lies in a strictly equatorial start
    cell lies in a cell of the list -/
theorem coneInternal_no_miss (cfg : Cfg) (depth : ℕ) (hd : depth ≤ 29) (lon lat r : ℝ) (hr : 0 ≤ r)
    (hA : |lat| + r < tl) (cells : List Cell) (h : coneInternal (α := ℝ) cfg depth lon lat r = some cells)
    (ds root : ℕ) (hst : IsStartCell cfg lon lat r ds root) (hds : ds ≤ depth) (q : ℝ × ℝ)
    (hq : InCellEq ds root q) (hin : adist (lon, lat) q ≤ r) : ∃ c ∈ cells, InCellEq c.depth c.hash q := by
  rcases coneInternal_split cfg depth lon lat r (r_lt_pi lat r hA) cells h with
    ⟨ds0, dists, hds0, _, hdists, _, hroots⟩ | ⟨ds0, _, _, hge, _, hroots⟩
  · obtain ⟨e, o, ho, hsub⟩ := hroots ds root hst
    subst e
    obtain ⟨c, hc, hcq⟩ := cone_no_miss_equatorial_gen cfg lon lat r hr hA ds depth hds0 hd dists hdists _ root o ho q hq hin
    exact ⟨c, hsub c hc, hcq⟩
  · obtain ⟨e, ctr, hctr, hkeep⟩ := hroots ds root hst
    subst e
    have hdd : ds = depth := by omega
    subst hdd
    have hle := H1_equatorial_meet_scalar cfg lon lat r hA ds hd root ctr q q hctr hq hq hin
    have htri := adist_triangle (lon, lat) q ctr
    rw [adist_comm q ctr] at htri
    have hv0 := valR_nonneg_of_radius ds lon lat r hr
    have hv1 := valR_le ds lon lat r hr hA
    have hrpi := r_lt_pi lat r hA
    have h1 := tl_le
    have h2 := Real.pi_gt_three
    have h3 := abs_nonneg lat
    have := hkeep (small_near_keep lon lat r _ ctr (by linarith) (by linarith) (by linarith))
    refine ⟨_, this, ?_⟩
    simp only [Nat.sub_self, Nat.zero_shiftLeft, Nat.shiftRight_zero]
    exact hq

/-- **nothing is missed, cell list, small cone `depth < ds`**: the ancestor at `depth` of a strictly equatorial start cell
    that contains a position of the cone is in the list (flagged partial) -/
theorem coneInternal_no_miss_small (cfg : Cfg) (depth : ℕ) (lon lat r : ℝ) (hr : 0 ≤ r)
    (hA : |lat| + r < tl) (cells : List Cell) (h : coneInternal (α := ℝ) cfg depth lon lat r = some cells)
    (ds root : ℕ) (hst : IsStartCell cfg lon lat r ds root) (hds : depth < ds) (q : ℝ × ℝ)
    (hq : InCellEq ds root q) (hin : adist (lon, lat) q ≤ r) :
    ({ depth := depth, hash := root / 4 ^ (ds - depth), full := false } : Cell) ∈ cells := by
  rcases coneInternal_split cfg depth lon lat r (r_lt_pi lat r hA) cells h with
    ⟨ds0, dists, hds0, _, hdists, _, hroots⟩ | ⟨ds0, _, _, hge, _, hroots⟩
  · obtain ⟨e, _⟩ := hroots ds root hst
    omega
  · obtain ⟨e, ctr, hctr, hkeep⟩ := hroots ds root hst
    subst e
    have hle := H1_equatorial_meet_scalar cfg lon lat r hA ds hq.1 root ctr q q hctr hq hq hin
    have htri := adist_triangle (lon, lat) q ctr
    rw [adist_comm q ctr] at htri
    have hv0 := valR_nonneg_of_radius ds lon lat r hr
    have hv1 := valR_le ds lon lat r hr hA
    have h1 := tl_le
    have h2 := Real.pi_gt_three
    have h3 := abs_nonneg lat
    have := hkeep (small_near_keep lon lat r _ ctr (by linarith) (by linarith) (by linarith))
    rw [shr_eq_div] at this
    exact this

/-! ## T1 and T2 on the returned BMOC -/

/-- what `cone_coverage_approx` returns: the packed list of `cone_coverage_approx_internal` -/
theorem coneCoverageApprox_unfold (cfg : Cfg) (depth : ℕ) (lon lat r : ℝ) (b : BMOC)
    (h : coneCoverageApprox (α := ℝ) cfg depth lon lat r = some b) :
    depth ≤ 29 ∧ ∃ cells, coneInternal (α := ℝ) cfg depth lon lat r = some cells ∧
      b = { dmax := depth, entries := pack depth (cells.map (encode depth)) } := by
  unfold coneCoverageApprox at h
  split at h
  · simp at h
  · rename_i hd
    simp only [Option.map_eq_some_iff] at h
    obtain ⟨cells, hcells, rfl⟩ := h
    exact ⟨by omega, cells, hcells, rfl⟩

/-- **T1, `cone_coverage_approx_no_miss_equatorial`** (ℝ, both profiles, every `depth ≤ 29`).  Cone `(lon, lat, r)` with
    `0 ≤ r`, `|lat| + r < tl`; `b` the BMOC returned by `cone_coverage_approx(depth, lon, lat, r)`.  For every start cell
    `root` of depth `ds ≤ depth` (`IsStartCell`: one of the twelve base cells, or the cell of the cone centre at the
    starting depth or one of its neighbours) and every position `q` within `r` of the cone centre that lies in `root`, a
    strictly equatorial cell, there is an ENTRY of `b` whose cell contains `q` — whether that entry is a cell emitted by
    the descent or a parent created by the compaction. -/
theorem cone_coverage_approx_no_miss_equatorial (cfg : Cfg) (depth : ℕ) (lon lat r : ℝ) (hr : 0 ≤ r)
    (hA : |lat| + r < tl) (b : BMOC) (h : coneCoverageApprox (α := ℝ) cfg depth lon lat r = some b)
    (ds root : ℕ) (hst : IsStartCell cfg lon lat r ds root) (hds : ds ≤ depth) (q : ℝ × ℝ)
    (hq : InCellEq ds root q) (hin : adist (lon, lat) q ≤ r) :
    ∃ e ∈ b.entries, InCellEq (decode e depth).depth (decode e depth).hash q := by
  obtain ⟨hd, cells, hcells, rfl⟩ := coneCoverageApprox_unfold cfg depth lon lat r b h
  obtain ⟨hw, hrange⟩ := CoverAll.coneInternal_wf cfg depth lon lat r cells hcells
  obtain ⟨g1, g2⟩ := packed_good lon lat r depth hd cells hw hrange (coneInternal_good cfg depth hd lon lat r hA cells hcells)
  obtain ⟨c, hc, hcq⟩ := coneInternal_no_miss cfg depth hd lon lat r hr hA cells hcells ds root hst hds q hq hin
  obtain ⟨x, hx, hxq, _⟩ := inCellEq_descend' depth c.depth c.hash q (hw.depth_le c hc) hd hcq
  obtain ⟨e, he, k1, k2, _⟩ := g2 c hc x hx
  exact ⟨e, he, goodCell_contains lon lat r depth hd _ (g1 e he) k1 x k2 q hxq⟩

/-- **T2, `cone_coverage_approx_full_inside_equatorial`** (ℝ, both profiles, every `depth ≤ 29`, `|lat| + r < tl`): every
    entry of the returned BMOC that is flagged FULL — a cell flagged by the descent or a parent created by the compaction
    of four full cells, at any number of levels — has every position (`InCellEq`) STRICTLY within `r` of the cone centre.
    (`cone_coverage_approx_good`: moreover such an entry is never centred on the transition latitude.) -/
theorem cone_coverage_approx_full_inside_equatorial (cfg : Cfg) (depth : ℕ) (lon lat r : ℝ)
    (hA : |lat| + r < tl) (b : BMOC) (h : coneCoverageApprox (α := ℝ) cfg depth lon lat r = some b)
    (e : ℕ) (he : e ∈ b.entries) (hf : (decode e depth).full = true) (q : ℝ × ℝ)
    (hq : InCellEq (decode e depth).depth (decode e depth).hash q) : adist (lon, lat) q < r := by
  obtain ⟨hd, cells, hcells, rfl⟩ := coneCoverageApprox_unfold cfg depth lon lat r b h
  obtain ⟨hw, hrange⟩ := CoverAll.coneInternal_wf cfg depth lon lat r cells hcells
  obtain ⟨g1, _⟩ := packed_good lon lat r depth hd cells hw hrange (coneInternal_good cfg depth hd lon lat r hA cells hcells)
  exact ((g1 e he).1 hf).2 q hq

/-- **every entry of the BMOC returned by `cone_coverage_approx` is a good cell** (`|lat| + r < tl`): a FULL entry (emitted
    by the descent or created by the compaction) is not centred on the transition latitude and has every position strictly
    inside the cone; the other entries are at the requested depth -/
theorem cone_coverage_approx_good (cfg : Cfg) (depth : ℕ) (lon lat r : ℝ)
    (hA : |lat| + r < tl) (b : BMOC) (h : coneCoverageApprox (α := ℝ) cfg depth lon lat r = some b)
    (e : ℕ) (he : e ∈ b.entries) : GoodCell lon lat r depth (decode e depth) := by
  obtain ⟨hd, cells, hcells, rfl⟩ := coneCoverageApprox_unfold cfg depth lon lat r b h
  obtain ⟨hw, hrange⟩ := CoverAll.coneInternal_wf cfg depth lon lat r cells hcells
  exact (packed_good lon lat r depth hd cells hw hrange (coneInternal_good cfg depth hd lon lat r hA cells hcells)).1 e he

/-- the entries of the returned BMOC that are not full are at the requested depth (so they are cells of the internal
    list: the compaction only creates full cells) -/
theorem cone_coverage_approx_partial_depth (cfg : Cfg) (depth : ℕ) (lon lat r : ℝ)
    (hA : |lat| + r < tl) (b : BMOC) (h : coneCoverageApprox (α := ℝ) cfg depth lon lat r = some b)
    (e : ℕ) (he : e ∈ b.entries) (hf : (decode e depth).full = false) : (decode e depth).depth = depth := by
  obtain ⟨hd, cells, hcells, rfl⟩ := coneCoverageApprox_unfold cfg depth lon lat r b h
  obtain ⟨hw, hrange⟩ := CoverAll.coneInternal_wf cfg depth lon lat r cells hcells
  obtain ⟨g1, _⟩ := packed_good lon lat r depth hd cells hw hrange (coneInternal_good cfg depth hd lon lat r hA cells hcells)
  exact (g1 e he).2 hf


end Hpx.ConeBmoc

#print axioms Hpx.ConeBmoc.pack_closure
#print axioms Hpx.ConeBmoc.coneInternal_split
#print axioms Hpx.ConeBmoc.cone_coverage_approx_no_miss_equatorial
#print axioms Hpx.ConeBmoc.cone_coverage_approx_full_inside_equatorial
#print axioms Hpx.ConeBmoc.cone_coverage_approx_good
