/-
Real-valued meaning of the ellipse tests of the elliptical-cone coverage (C13): the model functions of
`Model/SphGeom.lean` instantiated at `α := ℝ`.
-/
import HpxVerif.Model.SphGeom
import HpxVerif.Lemmas.NumReal
import Mathlib.Tactic.FieldSimp
import Mathlib.Tactic.LinearCombination
import Mathlib.Tactic.Positivity

namespace Hpx.Sph
open Hpx

/-- determinant of the covariance form: `a² b²` when `(s, c)` is a unit vector -/
theorem fromOriented_det (a b s c : ℝ) (hsc : s * s + c * c = 1) :
    (a * a * (c * c) + b * b * (s * s)) * (a * a * (s * s) + b * b * (c * c)) - (c * s * (a * a - b * b)) * (c * s * (a * a - b * b))
      = (a * b) * (a * b) := by
  linear_combination (a * a * (b * b) * (s * s + c * c + 1)) * hsc

/-- **the covariance-form test is the canonical ellipse inequality**: semi-axes `a, b ≠ 0`, major-axis direction the
    unit vector `(c, s)` -/
theorem ellipse_contains_real (a b s c x y : ℝ) (ha : a ≠ 0) (hb : b ≠ 0) (hsc : s * s + c * c = 1) :
    (Ellipse.fromOriented (α := ℝ) a b s c).contains x y = true ↔
      ((x * c + y * s) / a) ^ 2 + ((x * s - y * c) / b) ^ 2 ≤ 1 := by
  unfold Ellipse.contains Ellipse.fromOriented Ellipse.fromCov pow2
  have hdet := fromOriented_det a b s c hsc
  have hone : (Num.one : ℝ) = 1 := by show ((1 : ℕ) : ℝ) = 1; norm_num
  have htwo : (Num.two : ℝ) = 2 := by show ((2 : ℕ) : ℝ) = 2; norm_num
  show (decide (_ ≤ _)) = true ↔ _
  rw [decide_eq_true_eq, hone, htwo]
  simp only
  rw [hdet]
  have hab : a * b * (a * b) ≠ 0 := by positivity
  have key : 1 / (a * b * (a * b)) *
      (x * x * (a * a * (s * s) + b * b * (c * c)) - 2 * (c * s * (a * a - b * b) * x * y) + y * y * (a * a * (c * c) + b * b * (s * s)))
      = ((x * c + y * s) / a) ^ 2 + ((x * s - y * c) / b) ^ 2 := by
    field_simp
    ring
  rw [key]

end Hpx.Sph

namespace Hpx.Sph
open Hpx

theorem num_sin (x : ℝ) : Num.sin x = Real.sin x := rfl
theorem num_cos (x : ℝ) : Num.cos x = Real.cos x := rfl
theorem num_zero : (Num.zero : ℝ) = 0 := by show ((0 : ℕ) : ℝ) = 0; norm_num
theorem num_lt (x y : ℝ) : Num.lt x y = decide (x < y) := rfl
theorem num_le (x y : ℝ) : Num.le x y = decide (x ≤ y) := rfl
theorem num_halfPi : (Num.halfPi : ℝ) = Real.pi / 2 := rfl
theorem num_twicePi : (Num.twicePi : ℝ) = 2 * Real.pi := rfl

/-- SIN projection: `x² + y² + w² = 1` where `w` is the cosine of the angular distance to the projection centre -/
theorem sin_proj_norm (lat φ d : ℝ) :
    (Real.cos φ * Real.sin d) ^ 2 + (Real.cos lat * Real.sin φ - Real.sin lat * Real.cos φ * Real.cos d) ^ 2 +
      (Real.sin lat * Real.sin φ + Real.cos lat * Real.cos φ * Real.cos d) ^ 2 = 1 := by
  have h1 := Real.sin_sq_add_cos_sq lat
  have h2 := Real.sin_sq_add_cos_sq φ
  have h3 := Real.sin_sq_add_cos_sq d
  linear_combination (Real.sin φ ^ 2 + Real.cos φ ^ 2 * Real.cos d ^ 2) * h1 + h2 + (Real.cos φ ^ 2) * h3

/-- **circular case**: with `a = b` the elliptical-cone membership test is the cone membership test
    `cos a ≤ cos(angular distance)`, for every position angle -/
theorem econe_contains_circular (lon lat a pa l φ : ℝ) (hlon : 0 ≤ lon ∧ lon < 2 * Real.pi)
    (hlat : -(Real.pi / 2) ≤ lat ∧ lat ≤ Real.pi / 2) (ha : 0 < a ∧ a < Real.pi / 2) :
    (ECone.new (α := ℝ) lon lat a a pa).contains l φ = true ↔
      Real.cos a ≤ Real.sin lat * Real.sin φ + Real.cos lat * Real.cos φ * Real.cos (l - lon) := by
  have hsa : 0 < Real.sin a := Real.sin_pos_of_pos_of_lt_pi ha.1 (by linarith [Real.pi_pos])
  have hca : 0 < Real.cos a := Real.cos_pos_of_mem_Ioo ⟨by linarith, ha.2⟩
  have hcenter : ProjSIN.new (α := ℝ) lon lat =
      { centerLon := lon, centerLat := lat, cosCenterLat := Real.cos lat, sinCenterLat := Real.sin lat } := by
    unfold ProjSIN.new
    have h1 : Num.lt lon (Num.zero : ℝ) = false := by rw [num_lt, num_zero]; simpa using hlon.1
    have h2 : Num.le (Num.twicePi : ℝ) lon = false := by rw [num_le, num_twicePi]; simpa using hlon.2
    have h3 : Num.lt lat (-(Num.halfPi : ℝ)) = false := by rw [num_lt, num_halfPi]; simpa using hlat.1
    have h4 : Num.lt (Num.halfPi : ℝ) lat = false := by rw [num_lt, num_halfPi]; simpa using hlat.2
    simp only [h1, h2, h3, h4, Bool.or_self, Bool.false_eq_true, if_false]
    rfl
  unfold ECone.contains ECone.new
  simp only [hcenter]
  unfold ProjSIN.proj
  simp only [num_sin, num_cos]
  set w := Real.sin lat * Real.sin φ + Real.cos lat * Real.cos φ * Real.cos (l - lon) with hw
  have hgt : Num.gt w (Num.zero : ℝ) = decide (0 < w) := by
    show Num.lt (Num.zero : ℝ) w = _; rw [num_lt, num_zero]
  rw [hgt]
  by_cases hpos : 0 < w
  · simp only [hpos, decide_true, if_true]
    rw [ellipse_contains_real _ _ _ _ _ _ (ne_of_gt hsa) (ne_of_gt hsa)
      (by have := Real.sin_sq_add_cos_sq (Real.pi / 2 - pa); rw [num_halfPi]; nlinarith [this])]
    set x := Real.cos φ * Real.sin (l - lon)
    set y := Real.cos lat * Real.sin φ - Real.sin lat * Real.cos φ * Real.cos (l - lon)
    have hn : x ^ 2 + y ^ 2 + w ^ 2 = 1 := sin_proj_norm lat φ (l - lon)
    set s := Real.sin ((Num.halfPi : ℝ) - pa)
    set c := Real.cos ((Num.halfPi : ℝ) - pa)
    have hsc : s ^ 2 + c ^ 2 = 1 := Real.sin_sq_add_cos_sq _
    have hsum : ((x * c + y * s) / Real.sin a) ^ 2 + ((x * s - y * c) / Real.sin a) ^ 2 = (x ^ 2 + y ^ 2) / Real.sin a ^ 2 := by
      field_simp
      linear_combination (x ^ 2 + y ^ 2) * hsc
    rw [hsum, div_le_one (by positivity)]
    have hs2 : Real.sin a ^ 2 = 1 - Real.cos a ^ 2 := by have := Real.sin_sq_add_cos_sq a; linarith
    rw [hs2]
    constructor
    · intro h
      have : Real.cos a ^ 2 ≤ w ^ 2 := by linarith
      nlinarith
    · intro h
      have : Real.cos a ^ 2 ≤ w ^ 2 := by nlinarith
      linarith
  · simp only [hpos, decide_false, Bool.false_eq_true, if_false]
    constructor
    · intro h; exact absurd h (by simp)
    · intro h; exact absurd (lt_of_lt_of_le hca h) hpos

end Hpx.Sph
