import HpxVerif.Lemmas.EnvelopePolar

/-!
# C16 — polar caps: the longitude-only envelope is not a bound at every position of a cell (polar part 2)

In a polar cap `largest_center_to_vertex_distance(d, lon, lat)` is `slope_npc·|π/4 − lon % (π/2)| + intercept_npc`, a function
of the longitude only, increasing from `intercept_npc` on the central meridian of the base cell (`lon ≡ π/4`) to its
value on the seams.  Next to a pole one cell spans a wide range of longitudes, so some of its positions are on (or
near) the central meridian although the cell itself is not a "central" cell.

* `sin_sub_ge`, `sin_sub_le`: tangent inequalities of the concave `sin` on `[0, π]`;
* `theta`, `capLat_theta`: the half-angle form `capLat y = π/2 − 2·arcsin((2 − y)/√6)`;
* `new_interceptNpc_eq`: `intercept_npc = capLat(1 + δ) − tl =: dMinP δ` (`δ = 1/nside`);
  `dMinP_sq_le`: `dMinP δ ≤ 2δ/√5` (as `dMinP² ≤ 4δ²/5`), `dMinP_ge`;
* `intercept_lt_dN_next_to_pole`: for `0 < δ ≤ 1/4` the centre `(t, σ) = (−δ, 2δ)` is farther from its north vertex than
  `dMinP δ` (`cos(dN) ≤ 1 − 5δ²/3 + 4δ⁴/9 + 4δ²/3·cos(π/8) < 1 − 2δ²/5 ≤ cos(dMinP)`);
* **`c2v_below_true_next_to_pole`** (every depth `2 … 29`, every north base cell `b < 4`, the cell
  `(i, j) = (nside − 2, nside − 1)` next to the pole cell): at the east vertex of the cell (on the central meridian of the
  base cell) and at the points of the segment centre–east vertex close enough to it, the value returned by
  `largest_center_to_vertex_distance` is STRICTLY SMALLER than the angular distance from the centre of the cell to its
  north vertex.
  Float model, depth 2, cell 14: value `0.2187` at the east vertex, true distance centre → N vertex `0.2349` (−7 %).
-/

namespace Hpx.EnvelopePolar
open Hpx Hpx.Hash Hpx.Proj Hpx.Cover Hpx.C2V Hpx.C2VReal Hpx.EnvelopeReal Hpx.CellReal Real

/-! ## tangent inequalities for `sin` on `[0, π]` -/

/-- `sin` is concave on `[0, π]`: the chord slope is at least the derivative at the right end -/
theorem sin_sub_ge (A B : ℝ) (hA : 0 ≤ A) (hAB : A ≤ B) (hB : B ≤ π) : (B - A) * cos B ≤ sin B - sin A := by
  rcases eq_or_lt_of_le hAB with rfl | hlt
  · simp
  have h := strictConcaveOn_sin_Icc.concaveOn.le_slope_of_hasDerivAt (x := A) (y := B) ⟨hA, by linarith⟩
    ⟨by linarith, hB⟩ hlt (Real.hasDerivAt_sin B)
  rw [slope_def_field, le_div_iff₀ (by linarith)] at h
  linarith

/-- … and at most the derivative at the left end -/
theorem sin_sub_le (A B : ℝ) (hA : 0 ≤ A) (hAB : A ≤ B) (hB : B ≤ π) : sin B - sin A ≤ (B - A) * cos A := by
  rcases eq_or_lt_of_le hAB with rfl | hlt
  · simp
  have h := strictConcaveOn_sin_Icc.concaveOn.slope_le_of_hasDerivAt (x := A) (y := B) ⟨hA, by linarith⟩
    ⟨by linarith, hB⟩ hlt (Real.hasDerivAt_sin A)
  rw [slope_def_field, div_le_iff₀ (by linarith)] at h
  linarith

/-! ## the half-angle form of the cap latitude -/

/-- `θ(σ) = arcsin(σ/√6)`: `capLat(2 − σ) = π/2 − 2θ(σ)` -/
noncomputable def theta (σ : ℝ) : ℝ := Real.arcsin (σ * (1 / Real.sqrt 6))

theorem capLat_theta (y : ℝ) : capLat y = π / 2 - 2 * theta (2 - y) := capLat_eq_arcsin y

theorem theta_mono (σ₁ σ₂ : ℝ) (h : σ₁ ≤ σ₂) : theta σ₁ ≤ theta σ₂ := by
  have h6 := sqrt6_pos
  exact Real.arcsin_le_arcsin (mul_le_mul_of_nonneg_right h (by positivity))

theorem theta_nonneg (σ : ℝ) (h : 0 ≤ σ) : 0 ≤ theta σ := by
  have h6 := sqrt6_pos
  exact Real.arcsin_nonneg.mpr (by positivity)

theorem theta_le (σ : ℝ) : theta σ ≤ π / 2 := Real.arcsin_le_pi_div_two _

theorem sin_theta (σ : ℝ) (h0 : 0 ≤ σ) (h1 : σ ≤ 1) : sin (theta σ) = σ * (1 / Real.sqrt 6) := by
  obtain ⟨a0, a1⟩ := arg_range σ h0 h1
  exact Real.sin_arcsin (by linarith) (by linarith)

theorem cos_sq_theta (σ : ℝ) (h0 : 0 ≤ σ) (h1 : σ ≤ 1) : cos (theta σ) ^ 2 = 1 - σ ^ 2 / 6 := by
  rw [Real.cos_sq', sin_theta σ h0 h1, arg_sq]

theorem cos_theta_nonneg (σ : ℝ) : 0 ≤ cos (theta σ) := Real.cos_arcsin_nonneg _

/-! ## `intercept_npc` -/

/-- `intercept_npc` over ℝ as a function of `δ = 1/nside` -/
noncomputable def dMinP (δ : ℝ) : ℝ := capLat (1 + δ) - tl

theorem capLat_eq_arcsin_sin (y : ℝ) (hy1 : 1 ≤ y) (hy2 : y ≤ 2) : capLat y = Real.arcsin (1 - (2 - y) ^ 2 / 3) := by
  obtain ⟨h1, h2⟩ := capLat_range y hy1 hy2
  have := tl_pos
  have hpi := Real.pi_pos
  rw [← sin_capLat' y hy1 hy2, Real.arcsin_sin (by linarith) h2]

/-- **`intercept_npc = capLat(1 + 1/nside) − tl`**: the latitude difference between the north vertex and the centre of the
    transition-ring cell on the central meridian of the base cell -/
theorem new_interceptNpc_eq (d : Nat) : (Csts.new d : Csts ℝ).interceptNpc = dMinP (1 / 2 ^ d) := by
  obtain ⟨h0, h1⟩ := distCw_range d
  show Num.asin ((Num.one : ℝ) - pow2 (Num.one - Num.one / Num.ofNat (1 <<< d)) / Num.ofNat 3) - Num.transitionLat = _
  rw [r_nside, r_one, r_asin, r_ofNat]
  unfold dMinP pow2
  rw [capLat_eq_arcsin_sin _ (by linarith) (by linarith)]
  congr 2
  push_cast; ring

theorem dMinP_theta (δ : ℝ) : dMinP δ = 2 * (theta 1 - theta (1 - δ)) := by
  unfold dMinP
  rw [← capLat_one, capLat_theta, capLat_theta, show 2 - (1 + δ) = 1 - δ by ring, show (2 : ℝ) - 1 = 1 by ring]
  ring

theorem dMinP_nonneg (δ : ℝ) (h0 : 0 ≤ δ) : 0 ≤ dMinP δ := by
  rw [dMinP_theta]
  have := theta_mono (1 - δ) 1 (by linarith)
  linarith

/-- **`dMinP δ ≤ 2δ/√5`** (the slope of the latitude at the transition ordinate), stated on the squares -/
theorem dMinP_sq_le (δ : ℝ) (h0 : 0 ≤ δ) (h1 : δ ≤ 1) : dMinP δ ^ 2 ≤ 4 / 5 * δ ^ 2 := by
  have hpi := Real.pi_pos
  have h6 := sqrt6_pos
  rw [dMinP_theta]
  set u := theta 1 - theta (1 - δ) with hu
  have hu0 : 0 ≤ u := by rw [hu]; linarith [theta_mono (1 - δ) 1 (by linarith)]
  have hc0 := cos_theta_nonneg 1
  have hc2 : cos (theta 1) ^ 2 = 5 / 6 := by rw [cos_sq_theta 1 (by norm_num) le_rfl]; norm_num
  have hkey := sin_sub_ge (theta (1 - δ)) (theta 1) (theta_nonneg _ (by linarith)) (theta_mono _ _ (by linarith))
    (by linarith [theta_le 1])
  rw [sin_theta 1 (by norm_num) le_rfl, sin_theta (1 - δ) (by linarith) (by linarith), ← hu] at hkey
  have hs : 1 * (1 / Real.sqrt 6) - (1 - δ) * (1 / Real.sqrt 6) = δ * (1 / Real.sqrt 6) := by ring
  rw [hs] at hkey
  have hsq : (u * cos (theta 1)) ^ 2 ≤ (δ * (1 / Real.sqrt 6)) ^ 2 :=
    pow_le_pow_left₀ (mul_nonneg hu0 hc0) hkey 2
  rw [mul_pow, hc2, arg_sq] at hsq
  nlinarith

/-- `dMinP δ ≥ 2δ/√(6 − (1−δ)²)`, stated as `dMinP²·(6 − (1−δ)²) ≥ 4δ²` -/
theorem dMinP_sq_ge (δ : ℝ) (h0 : 0 ≤ δ) (h1 : δ ≤ 1) : 4 * δ ^ 2 ≤ dMinP δ ^ 2 * (6 - (1 - δ) ^ 2) := by
  have hpi := Real.pi_pos
  have h6 := sqrt6_pos
  rw [dMinP_theta]
  set u := theta 1 - theta (1 - δ) with hu
  have hu0 : 0 ≤ u := by rw [hu]; linarith [theta_mono (1 - δ) 1 (by linarith)]
  have hc0 := cos_theta_nonneg (1 - δ)
  have hc2 : cos (theta (1 - δ)) ^ 2 = 1 - (1 - δ) ^ 2 / 6 := cos_sq_theta (1 - δ) (by linarith) (by linarith)
  have hkey := sin_sub_le (theta (1 - δ)) (theta 1) (theta_nonneg _ (by linarith)) (theta_mono _ _ (by linarith))
    (by linarith [theta_le 1])
  rw [sin_theta 1 (by norm_num) le_rfl, sin_theta (1 - δ) (by linarith) (by linarith), ← hu] at hkey
  have hs : 1 * (1 / Real.sqrt 6) - (1 - δ) * (1 / Real.sqrt 6) = δ * (1 / Real.sqrt 6) := by ring
  rw [hs] at hkey
  have hsq : (δ * (1 / Real.sqrt 6)) ^ 2 ≤ (u * cos (theta (1 - δ))) ^ 2 :=
    pow_le_pow_left₀ (by positivity) hkey 2
  rw [arg_sq, mul_pow, hc2] at hsq
  nlinarith

theorem dMinP_le_pi (δ : ℝ) (h0 : 0 ≤ δ) (h1 : δ ≤ 1) : dMinP δ ≤ π := by
  have hpi := Real.pi_gt_three
  have h := dMinP_sq_le δ h0 h1
  have hn := dMinP_nonneg δ h0
  nlinarith

/-! ## the great-circle distance -/

theorem cos_gcDist (φ₁ φ₂ Δ : ℝ) : cos (gcDist φ₁ φ₂ Δ) = sin φ₁ * sin φ₂ + cos φ₁ * cos φ₂ * cos Δ := by
  have := cos_adist (Δ, φ₁) (0, φ₂)
  rw [adist_eq_gcDist, sub_zero] at this
  exact this

theorem gcDist_nonneg (φ₁ φ₂ Δ : ℝ) : 0 ≤ gcDist φ₁ φ₂ Δ := Real.arccos_nonneg _
theorem gcDist_le_pi (φ₁ φ₂ Δ : ℝ) : gcDist φ₁ φ₂ Δ ≤ π := Real.arccos_le_pi _

/-- a value whose cosine exceeds the cosine of the distance is below the distance -/
theorem lt_gcDist_of_cos_lt (φ₁ φ₂ Δ g : ℝ) (hg1 : g ≤ π)
    (h : sin φ₁ * sin φ₂ + cos φ₁ * cos φ₂ * cos Δ < cos g) : g < gcDist φ₁ φ₂ Δ := by
  by_contra hcon
  rw [not_lt] at hcon
  have := Real.cos_le_cos_of_nonneg_of_le_pi (gcDist_nonneg φ₁ φ₂ Δ) hg1 hcon
  rw [cos_gcDist] at this
  linarith

/-! ## next to the pole -/

theorem cos_pi_div_eight_le : cos (π / 8) ≤ 92389 / 100000 := by
  rw [Real.cos_pi_div_eight]
  have h2 : Real.sqrt 2 ≤ 141422 / 100000 := by
    rw [Real.sqrt_le_left (by norm_num)]; norm_num
  have h3 : Real.sqrt (2 + Real.sqrt 2) ≤ 184778 / 100000 := by
    rw [Real.sqrt_le_left (by norm_num)]; linarith
  linarith

/-- **the key inequality**: for `0 < δ ≤ 1/4` (depth `≥ 2`) the plane centre `(t, σ) = (−δ, 2δ)` (the cell next to the pole
    cell, along the seam) is farther from its north vertex `(−δ, δ)` than `dMinP δ = intercept_npc` -/
theorem intercept_lt_dN_next_to_pole (δ : ℝ) (h0 : 0 < δ) (h1 : δ ≤ 1 / 4) : dMinP δ < dNc δ (-δ) (2 * δ) := by
  have hpi := Real.pi_pos
  unfold dNc
  have hΔ : (-δ / (2 * δ - δ) - -δ / (2 * δ)) * (π / 4) = -(π / 8) := by
    have : δ ≠ 0 := h0.ne'
    field_simp; ring
  rw [hΔ, gcDist_neg, show 2 - 2 * δ + δ = 2 - δ by ring]
  apply lt_gcDist_of_cos_lt _ _ _ _ (dMinP_le_pi δ h0.le (by linarith))
  -- the two latitudes
  have hsc : sin (capLat (2 - 2 * δ)) = 1 - (2 * δ) ^ 2 / 3 := by
    rw [sin_capLat' _ (by linarith) (by linarith)]; ring
  have hsn : sin (capLat (2 - δ)) = 1 - δ ^ 2 / 3 := by
    rw [sin_capLat' _ (by linarith) (by linarith)]; ring
  have hcc0 := cos_capLat_nonneg (2 - 2 * δ) (by linarith) (by linarith)
  have hcn0 := cos_capLat_nonneg (2 - δ) (by linarith) (by linarith)
  have hcc2 : cos (capLat (2 - 2 * δ)) ^ 2 = (2 * δ) ^ 2 * (6 - (2 * δ) ^ 2) / 9 := by
    rw [cos_sq_capLat _ (by linarith) (by linarith)]; ring
  have hcn2 : cos (capLat (2 - δ)) ^ 2 = δ ^ 2 * (6 - δ ^ 2) / 9 := by
    rw [cos_sq_capLat _ (by linarith) (by linarith)]; ring
  -- `cos φc · cos φN ≤ 4δ²/3`
  have hprod : cos (capLat (2 - 2 * δ)) * cos (capLat (2 - δ)) ≤ 4 * δ ^ 2 / 3 := by
    have hsq : (cos (capLat (2 - 2 * δ)) * cos (capLat (2 - δ))) ^ 2 ≤ (4 * δ ^ 2 / 3) ^ 2 := by
      rw [mul_pow, hcc2, hcn2]
      have hδ2 : 0 ≤ δ ^ 2 := by positivity
      have hδ4 : 0 ≤ δ ^ 4 := by positivity
      have : (2 * δ) ^ 2 * (6 - (2 * δ) ^ 2) / 9 * (δ ^ 2 * (6 - δ ^ 2) / 9)
          = δ ^ 4 * (4 * (6 - 4 * δ ^ 2) * (6 - δ ^ 2)) / 81 := by ring
      rw [this]
      have h36 : 4 * (6 - 4 * δ ^ 2) * (6 - δ ^ 2) ≤ 144 := by nlinarith
      have : (4 * δ ^ 2 / 3) ^ 2 = δ ^ 4 * 144 / 81 := by ring
      rw [this]
      have := mul_le_mul_of_nonneg_left h36 hδ4
      linarith
    exact le_of_sq_le_sq hsq (by positivity)
  have hc8 := cos_pi_div_eight_le
  have hc80 : 0 ≤ cos (π / 8) := Real.cos_nonneg_of_neg_pi_div_two_le_of_le (by linarith) (by linarith)
  have hprod8 : cos (capLat (2 - 2 * δ)) * cos (capLat (2 - δ)) * cos (π / 8) ≤ 4 * δ ^ 2 / 3 * (92389 / 100000) :=
    mul_le_mul hprod hc8 hc80 (by positivity)
  -- the cosine of `dMinP`
  have hcosg : 1 - 2 / 5 * δ ^ 2 ≤ cos (dMinP δ) := by
    have := Real.one_sub_sq_div_two_le_cos (x := dMinP δ)
    have h2 := dMinP_sq_le δ h0.le (by linarith)
    linarith
  rw [hsc, hsn]
  have hδ2 : 0 < δ ^ 2 := by positivity
  have hδ2' : δ ^ 2 ≤ 1 / 16 := by nlinarith
  nlinarith

/-! ## the cell next to the pole cell -/

/-- `EPS_POLE < 2⁻³⁰`: smaller than every cell half-diagonal `1/nside`, `depth ≤ 29` -/
theorem epsPole_lt_pow : (Num.epsPole : ℝ) < 1 / 2 ^ 30 := by
  show ((F64.toRat Gen.cEpsPole : ℚ) : ℝ) < 1 / 2 ^ 30
  rw [show Gen.cEpsPole = 0x3D3C25C268497682 from rfl,
    toRat_of_fields _ 979 0xC25C268497682 (by decide) (by decide) (by decide) (by decide)]
  norm_num

theorem epsPole_lt_step (d : ℕ) (hd : d ≤ 29) : (Num.epsPole : ℝ) < 1 / 2 ^ d := by
  have h1 : (2 : ℝ) ^ d ≤ 2 ^ 30 := pow_le_pow_right₀ (by norm_num) (by omega)
  have h2 : (1 : ℝ) / 2 ^ 30 ≤ 1 / 2 ^ d := one_div_le_one_div_of_le (by positivity) h1
  exact lt_of_lt_of_le epsPole_lt_pow h2

theorem baseX_north (b : ℕ) (hb : b < 4) : baseX b = 2 * (b : ℝ) + 1 ∧ baseY b = 1 := by
  unfold baseX baseY
  interval_cases b <;> norm_num

/-- plane centre of the cell `(i, j) = (nside − 2, nside − 1)` of the north base cell `b` -/
theorem next_to_pole_center (d b i j : ℕ) (hb : b < 4) (hi : i + 2 = 2 ^ d) (hj : j + 1 = 2 ^ d) :
    norm8 (cellCx d b i j) = 2 * (b : ℝ) + 1 - 1 / 2 ^ d ∧ cellCy d b i j = 2 - 2 * (1 / 2 ^ d) := by
  obtain ⟨bx, by1⟩ := baseX_north b hb
  have hp := pow_pos' d
  have hi' : (i : ℝ) + 2 = 2 ^ d := by exact_mod_cast hi
  have hj' : (j : ℝ) + 1 = 2 ^ d := by exact_mod_cast hj
  have hδ1 : (1 : ℝ) / 2 ^ d ≤ 1 := (distCw_range d).2
  have hb0 : (0 : ℝ) ≤ b := Nat.cast_nonneg b
  have hx : cellCx d b i j = 2 * (b : ℝ) + 1 - 1 / 2 ^ d := by
    unfold cellCx; rw [bx, show (i : ℝ) - j = -1 by linarith]; ring
  constructor
  · rw [hx, norm8_of_nonneg _ (by linarith)]
  · unfold cellCy
    rw [by1, show (i : ℝ) + j + 1 - 2 ^ d = 2 ^ d - 2 by linarith]
    field_simp
    ring

/-- **`c2v_below_true_next_to_pole`** (ℝ, release profile, every depth `2 … 29`, every north base cell `b < 4`, the cell
    `(i, j) = (nside − 2, nside − 1)`, neighbour of the pole cell `(nside − 1, nside − 1)` along the seam).
    `center` returns `c`, `vertex … 2` the north vertex `n`, and there is an abscissa `x0` smaller than the abscissa
    `x_E = x_c + 1/nside` of the east vertex such that for every `xp ∈ (x0, x_E]` the plane point `(xp, y_c)` — which is
    in the closed diamond of the cell, on the segment centre–east vertex — un-projects to a position `p` of the polar cap
    where `largest_center_to_vertex_distance(d, p)` is STRICTLY SMALLER than the angular distance from `c` to `n`. -/
theorem c2v_below_true_next_to_pole (cfg : Cfg) (d hash b i j : ℕ) (hd1 : 2 ≤ d) (hd2 : d ≤ 29)
    (hh : hash < Layer.nHash d) (hdec : Layer.decodeHash cfg d hash = some ⟨b, i, j⟩) (hb : b < 4)
    (hi : i + 2 = 2 ^ d) (hj : j + 1 = 2 ^ d) :
    ∃ (c n : ℝ × ℝ) (x0 : ℝ), center (α := ℝ) cfg d hash = some c ∧ vertex (α := ℝ) cfg d hash 2 = some n ∧
      norm8 (cellCx d b i j) ≤ x0 ∧ x0 < norm8 (cellCx d b i j) + 1 / 2 ^ d ∧
      ∀ xp, x0 < xp → xp ≤ norm8 (cellCx d b i j) + 1 / 2 ^ d →
        InDiamond (norm8 (cellCx d b i j)) (cellCy d b i j) (1 / 2 ^ d) xp (cellCy d b i j) ∧
        ∃ (p : ℝ × ℝ) (v : ℝ), unproj (α := ℝ) xp (cellCy d b i j) = some p ∧ tl ≤ |p.2| ∧
          largestC2V false d p.1 p.2 = some v ∧ v < adist c n := by
  have hpi := Real.pi_pos
  have hi2 : i < 2 ^ d := by omega
  have hj2 : j < 2 ^ d := by omega
  have hb12 : b < 12 := by omega
  obtain ⟨hδ0, hδ4⟩ := quarter_pow_range d hd1
  obtain ⟨hX, hY⟩ := next_to_pole_center d b i j hb hi hj
  have heps := epsPole_lt_step d hd2
  have he0 := epsPole_pos
  have hb0 : (0 : ℝ) ≤ b := Nat.cast_nonneg b
  set δ : ℝ := 1 / 2 ^ d with hδ
  set X := norm8 (cellCx d b i j) with hXdef
  set Y := cellCy d b i j with hYdef
  have hXt : X - (2 * (b : ℝ) + 1) = -δ := by rw [hX]; ring
  have hYs : 2 - Y = 2 * δ := by rw [hY]; ring
  -- centre and north vertex
  obtain ⟨c, pN, pS, pE, pW, uc, uN, -, -, -, hc, aN, -, -, -⟩ :=
    true_c2v_cap b hb X Y δ hδ0 (by rw [hY]; linarith) (by rw [hY]; linarith)
      (by rw [hXt, hYs, abs_neg, abs_of_pos hδ0]; linarith) (by rw [hYs]; linarith)
      (Or.inl (by rw [hYs]; linarith))
  rw [hXt, hYs] at aN
  have ec : center (α := ℝ) cfg d hash = some c := by
    rw [center_plane cfg d hash b i j hh hdec hb12 hi2 hj2, ← uc]
    exact (unproj_eq X Y (by rw [hY]; linarith) (by rw [hY]; linarith)).symm
  have en : vertex (α := ℝ) cfg d hash 2 = some pN := by
    rw [vertex_plane cfg d hash b i j 2 hh hdec hb12 hi2 hj2 (by decide), ← uN]
    simp only [vtx]
    exact (unproj_eq X (Y + δ) (by rw [hY]; linarith) (by rw [hY]; linarith)).symm
  -- the gap and the slope
  have hgap : dMinP δ < adist c pN := by rw [aN]; exact intercept_lt_dN_next_to_pole δ hδ0 hδ4
  have hs := new_slopeNpc_pos d (by omega)
  set s := (Csts.new d : Csts ℝ).slopeNpc with hsdef
  set K := s * (π / 4) / (2 * δ) with hK
  have hKpos : 0 < K := by positivity
  set G := adist c pN - dMinP δ with hG
  have hGpos : 0 < G := by linarith
  have hGK : 0 < G / K := div_pos hGpos hKpos
  refine ⟨c, pN, max X (X + δ - G / K), ec, en, le_max_left _ _, max_lt (by linarith) (by linarith), ?_⟩
  intro xp h1 h2
  have hx1 : X < xp := lt_of_le_of_lt (le_max_left _ _) h1
  have hx2 : X + δ - G / K < xp := lt_of_le_of_lt (le_max_right _ _) h1
  refine ⟨?_, ?_⟩
  · unfold InDiamond
    rw [sub_self, abs_zero, add_zero, abs_of_pos (by linarith)]; linarith
  have hxe : X + δ = 2 * (b : ℝ) + 1 := by rw [hX]; ring
  have hτ0 : xp - (2 * (b : ℝ) + 1) ≤ 0 := by linarith
  have hτ1 : -δ < xp - (2 * (b : ℝ) + 1) := by linarith
  have up := unproj_cap b hb xp Y (by rw [hY]; linarith) (by rw [hY]; linarith)
    (by rw [hYs, abs_le]; constructor <;> linarith) (by linarith) (Or.inl (by rw [hYs]; linarith))
  rw [hYs] at up
  obtain ⟨hr1, hr2⟩ := capLat_range Y (by rw [hY]; linarith) (by rw [hY]; linarith)
  have htl := tl_pos
  refine ⟨(capLon b (xp - (2 * (b : ℝ) + 1)) (2 * δ), capLat Y),
    c2v (Csts.new d) (capLon b (xp - (2 * (b : ℝ) + 1)) (2 * δ)) (capLat Y), up, ?_, ?_, ?_⟩
  · show tl ≤ |capLat Y|
    rw [abs_of_pos (by linarith)]; exact hr1
  · rw [c2v_region_choice, if_neg (by omega), if_neg (by omega)]
  · unfold c2v
    rw [if_pos (by rw [abs_of_pos (by linarith)]; exact hr1),
      fold_cap b _ (2 * δ) (by linarith) (by rw [abs_le]; constructor <;> linarith)]
    unfold npcEnv
    rw [new_interceptNpc_eq, ← hsdef, ← hδ, abs_of_nonpos (div_nonpos_of_nonpos_of_nonneg hτ0 (by linarith))]
    have e : s * (-((xp - (2 * (b : ℝ) + 1)) / (2 * δ)) * (π / 4)) = K * (2 * (b : ℝ) + 1 - xp) := by
      rw [hK]; field_simp; ring
    rw [e]
    have : 2 * (b : ℝ) + 1 - xp < G / K := by linarith
    have := (lt_div_iff₀ hKpos).mp this
    rw [hG] at this
    linarith

/-- **at the east vertex itself**: for the same cells, the position returned by `vertex … 1` (east vertex, on the
    central meridian `lon = (2b+1)·π/4` of the base cell) gets the value `intercept_npc`, strictly smaller than the angular
    distance from `center` to `vertex … 2` -/
theorem c2v_below_true_at_east_vertex (cfg : Cfg) (d hash b i j : ℕ) (hd1 : 2 ≤ d) (hd2 : d ≤ 29)
    (hh : hash < Layer.nHash d) (hdec : Layer.decodeHash cfg d hash = some ⟨b, i, j⟩) (hb : b < 4)
    (hi : i + 2 = 2 ^ d) (hj : j + 1 = 2 ^ d) :
    ∃ (c n e : ℝ × ℝ) (v : ℝ), center (α := ℝ) cfg d hash = some c ∧ vertex (α := ℝ) cfg d hash 2 = some n ∧
      vertex (α := ℝ) cfg d hash 1 = some e ∧ largestC2V false d e.1 e.2 = some v ∧ v < adist c n := by
  have hi2 : i < 2 ^ d := by omega
  have hj2 : j < 2 ^ d := by omega
  have hb12 : b < 12 := by omega
  obtain ⟨c, n, x0, ec, en, -, hx0, hall⟩ := c2v_below_true_next_to_pole cfg d hash b i j hd1 hd2 hh hdec hb hi hj
  obtain ⟨-, p, v, up, -, hv, hlt⟩ := hall _ hx0 le_rfl
  obtain ⟨hX, hY⟩ := next_to_pole_center d b i j hb hi hj
  obtain ⟨hδ0, hδ4⟩ := quarter_pow_range d hd1
  refine ⟨c, n, p, v, ec, en, ?_, hv, hlt⟩
  rw [vertex_plane cfg d hash b i j 1 hh hdec hb12 hi2 hj2 (by decide), ← up]
  simp only [vtx]
  exact (unproj_eq _ _ (by rw [hY]; linarith) (by rw [hY]; linarith)).symm

/-! ## examples -/

/-- depth 2, cell 14 = base cell 0, `(i, j) = (2, 3)` -/
example : ∃ (c n e : ℝ × ℝ) (v : ℝ), center (α := ℝ) {} 2 14 = some c ∧ vertex (α := ℝ) {} 2 14 2 = some n ∧
      vertex (α := ℝ) {} 2 14 1 = some e ∧ largestC2V false 2 e.1 e.2 = some v ∧ v < adist c n :=
  c2v_below_true_at_east_vertex {} 2 14 0 2 3 (by decide) (by decide) (by decide) (by decide +kernel) (by decide)
    (by decide) (by decide)

end Hpx.EnvelopePolar

#print axioms Hpx.EnvelopePolar.new_interceptNpc_eq
#print axioms Hpx.EnvelopePolar.dMinP_sq_le
#print axioms Hpx.EnvelopePolar.intercept_lt_dN_next_to_pole
#print axioms Hpx.EnvelopePolar.c2v_below_true_next_to_pole
#print axioms Hpx.EnvelopePolar.c2v_below_true_at_east_vertex
